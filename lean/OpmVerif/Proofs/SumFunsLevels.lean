/-
  Connection-, completion-, segment-, region- and network-level leaves of the summary `funs`
  table (`crate<>`, `crate_resv<>`, `cpr`, `ratel<>`, `cratel<>`, `srate<>`, `segpress<>`,
  `region_rate<>`, `node_pressure`): their values over a linearly ordered field, for any number
  of connections / segments / regions.
-/
import OpmVerif.Proofs.SumFuns

namespace OpmVerif.SumFuns.Proofs
open OpmVerif.SumFuns

variable {K : Type} [Field K] [LinearOrder K] [IsStrictOrderedRing K]
set_option linter.unusedSectionVars false

/-! ## connections -/

/-- the rate component `p` of the connection with global index `g` in a well's results
(`rates.get(p, 0.0)`), 0 when the results have no such connection -/
def connQ (p : Rt) (dcs : List (ConnDyn K)) (g : Nat) : K :=
  match findConn dcs g with
  | none => 0
  | some cd => lookupRate cd.rates p

/-- sign of the reported value: injectors as is, producers negated -/
def sgn (inj : Bool) : K := if inj then 1 else -1

theorem connSum_eq (p : Rt) (e : K) (dcs : List (ConnDyn K)) (gs : List Nat) (acc : K) :
    connSum p e dcs gs acc = acc + (gs.map fun g => connQ p dcs g * e).sum := by
  induction gs generalizing acc with
  | nil => simp [connSum]
  | cons g r ih =>
    unfold connSum
    cases h : findConn dcs g with
    | none => simp only [List.map_cons, List.sum_cons]; rw [ih]; simp [connQ, h]
    | some cd =>
      simp only [List.map_cons, List.sum_cons]; rw [ih]
      simp only [connQ, h, s_add, s_mul]; ring

/-- the front well of the context flows: present in the results, not dynamically SHUT -/
theorem frontDyn_flowing (c : Ctx K) (w : WellIn K) (ws : List (WellIn K)) (d : WellDyn K)
    (hw : c.wells = w :: ws) (hd : w.dyn = some d) (hs : d.shut = false) :
    frontDyn c = some (w, d) := by
  simp [frontDyn, hw, hd, hs]

/-- a shut or absent well has no front results -/
theorem frontDyn_not_flowing (c : Ctx K) (w : WellIn K) (ws : List (WellIn K))
    (hw : c.wells = w :: ws) (h : flowing w = false) : frontDyn c = none := by
  unfold flowing at h
  cases hd : w.dyn with
  | none => simp [frontDyn, hw, hd]
  | some d => rw [hd] at h; simp at h; simp [frontDyn, hw, hd, h]

/-- `crate_sem`: a connection vector of a flowing well whose control type matches the direction
is `± q_conn · efac`; no sign filter. -/
theorem evalCrate_eq (p : Rt) (inj : Bool) (c : Ctx K) (w : WellIn K) (ws : List (WellIn K))
    (d : WellDyn K) (g : Nat) (hw : c.wells = w :: ws) (hd : w.dyn = some d) (hs : d.shut = false)
    (ht : d.isProducer = !inj) (hn : c.num = g + 1) :
    evalCrate p inj c = sgn inj * (connQ p d.conns g * c.efac w.name) := by
  unfold evalCrate
  rw [frontDyn_flowing c w ws d hw hd hs]
  have hne : ¬ d.isProducer = inj := by rw [ht]; cases inj <;> simp
  simp only [if_neg hne, connOfNum, hn, Nat.succ_ne_zero, if_false, Nat.add_sub_cancel]
  unfold connQ sgn
  cases findConn d.conns g with
  | none => simp
  | some cd => cases inj <;> simp

/-- Shut / absent wells contribute nothing on the connection, completion and segment level. -/
theorem levels_zero_not_flowing (p : Rt) (inj : Bool) (i : Nat) (c : Ctx K) (w : WellIn K)
    (ws : List (WellIn K)) (hw : c.wells = w :: ws) (h : flowing w = false) :
    evalCrate p inj c = 0 ∧ evalCrateResv inj c = 0 ∧ evalCpr c = 0 ∧ evalRatel p inj c = 0 ∧
      evalCratel p inj c = 0 ∧ evalSrate p c = 0 ∧ evalSegpress i c = 0 := by
  have hf := frontDyn_not_flowing c w ws hw h
  simp [evalCrate, evalCrateResv, evalCpr, evalRatel, evalCratel, evalSrate, evalSegpress, evalSeg, hf]

/-- A well running under the other control type reports zero for the direction asked. -/
theorem levels_zero_wrong_type (p : Rt) (inj : Bool) (c : Ctx K) (w : WellIn K) (ws : List (WellIn K))
    (d : WellDyn K) (hw : c.wells = w :: ws) (hd : w.dyn = some d) (hs : d.shut = false)
    (ht : d.isProducer = inj) :
    evalCrate p inj c = 0 ∧ evalCrateResv inj c = 0 ∧ evalRatel p inj c = 0 ∧ evalCratel p inj c = 0 := by
  have hf := frontDyn_flowing c w ws d hw hd hs
  simp [evalCrate, evalCrateResv, evalRatel, evalCratel, hf, ht]

theorem sum_map_neg {α : Type} (l : List α) (f : α → K) : (l.map fun x => -f x).sum = -(l.map f).sum := by
  induction l with
  | nil => simp
  | cons a t ih => simp only [List.map_cons, List.sum_cons, ih]; ring

theorem sum_map_mul_left {α : Type} (l : List α) (f : α → K) (a : K) :
    (l.map fun x => a * f x).sum = a * (l.map f).sum := by
  induction l with
  | nil => simp
  | cons b t ih => simp only [List.map_cons, List.sum_cons, ih]; ring

/-- value of `ratel<p,inj>` for a flowing well of the right type -/
theorem evalRatel_eq (p : Rt) (inj : Bool) (c : Ctx K) (w : WellIn K) (ws : List (WellIn K))
    (d : WellDyn K) (hw : c.wells = w :: ws) (hd : w.dyn = some d) (hs : d.shut = false)
    (ht : d.isProducer = !inj) :
    evalRatel p inj c =
      sgn inj * ((complConns w.sconns c.num).map fun g => connQ p d.conns g * c.efac w.name).sum := by
  unfold evalRatel
  rw [frontDyn_flowing c w ws d hw hd hs]
  have hne : ¬ d.isProducer = inj := by rw [ht]; cases inj <;> simp
  simp only [if_neg hne, connSum_eq, s_zero, zero_add]
  unfold sgn; cases inj <;> simp

/-- **completion = sum over its connections**: the completion vector `W…L` (`ratel<>`) of
completion `k` equals the sum of the connection vectors `C…` (`crate<>`) over the connections
the schedule assigns to completion `k`, for any number of connections. -/
theorem ratel_is_sum_of_crates (p : Rt) (inj : Bool) (c : Ctx K) (w : WellIn K) (ws : List (WellIn K))
    (d : WellDyn K) (k : Nat) (hw : c.wells = w :: ws) (hd : w.dyn = some d) (hs : d.shut = false)
    (ht : d.isProducer = !inj) :
    evalRatel p inj { c with num := k } =
      ((complConns w.sconns k).map fun g => evalCrate p inj { c with num := g + 1 }).sum := by
  rw [evalRatel_eq p inj { c with num := k } w ws d hw hd hs ht]
  have : ∀ g, evalCrate p inj { c with num := g + 1 } = sgn inj * (connQ p d.conns g * c.efac w.name) :=
    fun g => evalCrate_eq p inj { c with num := g + 1 } w ws d g hw hd hs ht rfl
  simp only [this]
  rw [sum_map_mul_left]

/-- `C…L` vectors: the value of the completion the connection belongs to. -/
theorem cratel_eq_ratel (p : Rt) (inj : Bool) (c : Ctx K) (w : WellIn K) (ws : List (WellIn K))
    (k : Nat) (hw : c.wells = w :: ws) (hk : complOfConn w.sconns c.num = some k) :
    evalCratel p inj c = evalRatel p inj { c with num := k } := by
  unfold evalCratel evalRatel frontDyn
  simp only [hw]
  cases hd : w.dyn with
  | none => rfl
  | some d =>
    simp only []
    by_cases hs : d.shut = true
    · simp [hs]
    · simp only [hs, if_false, Bool.false_eq_true]
      by_cases ht : d.isProducer = inj
      · simp [ht]
      · simp only [ht, if_false, hk]

/-- a connection that belongs to no completion of the schedule (not yet on line) reports zero -/
theorem cratel_unknown_connection (p : Rt) (inj : Bool) (c : Ctx K) (w : WellIn K) (ws : List (WellIn K))
    (hw : c.wells = w :: ws) (hk : complOfConn w.sconns c.num = none) : evalCratel p inj c = 0 := by
  unfold evalCratel frontDyn
  simp only [hw]
  cases hd : w.dyn with
  | none => rfl
  | some d =>
    simp only []
    by_cases hs : d.shut = true
    · simp [hs]
    · simp only [hs, if_false, Bool.false_eq_true, hk]
      split <;> rfl

theorem sum_map_nonpos {α : Type} (l : List α) (f : α → K) (h : ∀ x ∈ l, f x ≤ 0) : (l.map f).sum ≤ 0 := by
  induction l with
  | nil => simp
  | cons a t ih =>
    simp only [List.map_cons, List.sum_cons]
    have h1 := h a (by simp)
    have h2 := ih (fun x hx => h x (by simp [hx]))
    linarith

/-- **well = sum over its connections** (where the simulator's numbers are consistent): if a
producing well's rate component is the sum of its connections' components and no connection
cross-flows, the well vector `W·PR` equals the sum of the connection vectors `C·PR` — both are
reported without efficiency factor. -/
theorem well_rate_is_sum_of_connections (p : Rt) (w : WellIn K) (d : WellDyn K) (dt : K) (gs : List Nat)
    (hd : w.dyn = some d) (hs : d.shut = false) (ht : d.isProducer = true)
    (hsum : lookupRate d.rates p = (gs.map fun g => connQ p d.conns g).sum)
    (hsign : ∀ g ∈ gs, connQ p d.conns g ≤ 0) :
    evalRate p false (wellCtx w dt) =
      (gs.map fun g => evalCrate p false { wellCtx w dt with num := g + 1 }).sum := by
  have he : (wellCtx w dt).efac w.name = 1 := by simp [wellCtx, efacLookup]
  have hc : ∀ g, evalCrate p false { wellCtx w dt with num := g + 1 } = -(connQ p d.conns g) := by
    intro g
    rw [evalCrate_eq p false { wellCtx w dt with num := g + 1 } w [] d g rfl hd hs (by simp [ht]) rfl]
    show sgn false * (connQ p d.conns g * (wellCtx w dt).efac w.name) = _
    rw [he]; simp [sgn]
  simp only [hc]
  rw [sum_map_neg, evalRate_eq]
  have hq : q p w = lookupRate d.rates p := by simp [q, hd, hs]
  have hle := sum_map_nonpos gs (fun g => connQ p d.conns g) hsign
  have hk : keep false (lookupRate d.rates p) = lookupRate d.rates p := by
    unfold keep
    have : ¬ (0 < lookupRate d.rates p) := by rw [hsum]; exact not_lt.mpr hle
    simp [this]
  have hcontrib : contrib p false (wellCtx w dt).efac w = lookupRate d.rates p := by
    unfold contrib; rw [hq, he, mul_one, hk]
  have hwells : (wellCtx w dt).wells = [w] := rfl
  rw [hwells]
  simp only [List.map_cons, List.map_nil, List.sum_cons, List.sum_nil, add_zero, hcontrib, Bool.false_eq_true, if_false]
  rw [hsum]; ring

/-! ## segments -/

/-- `srate_sem`: a segment flow vector is `−q_seg · efac` (opposite sign convention), zero when
the results have no such segment. -/
theorem evalSrate_eq (p : Rt) (c : Ctx K) (w : WellIn K) (ws : List (WellIn K)) (d : WellDyn K)
    (hw : c.wells = w :: ws) (hd : w.dyn = some d) (hs : d.shut = false) :
    evalSrate p c =
      match findSeg d.segs c.num with
      | none => 0
      | some s => -(lookupRate s.rates p) * c.efac w.name := by
  unfold evalSrate evalSeg
  rw [frontDyn_flowing c w ws d hw hd hs]
  cases h : findSeg d.segs c.num <;> simp [h]

theorem evalSegpress_eq (i : Nat) (c : Ctx K) (w : WellIn K) (ws : List (WellIn K)) (d : WellDyn K)
    (hw : c.wells = w :: ws) (hd : w.dyn = some d) (hs : d.shut = false) :
    evalSegpress i c =
      match findSeg d.segs c.num with
      | none => 0
      | some s => getD0 s.press i := by
  unfold evalSegpress evalSeg
  rw [frontDyn_flowing c w ws d hw hd hs]
  cases h : findSeg d.segs c.num <;> simp [h]

/-! ## regions -/

/-- what one connection of the region adds: nothing for a well reported SHUT, else the
connection rate times the well's efficiency factor, clamped to the direction -/
def regionTerm (p : Rt) (inj : Bool) (efac : String → K) (dyns : List (String × WellDyn K))
    (wc : String × Nat) : K :=
  if dynShut dyns wc.1 then 0 else keep inj (connRate dyns wc.1 wc.2 p * efac wc.1)

theorem regionLoop_eq (p : Rt) (inj : Bool) (efac : String → K) (dyns : List (String × WellDyn K))
    (l : List (String × Nat)) (acc : K) :
    regionLoop p inj efac dyns l acc = acc + (l.map (regionTerm p inj efac dyns)).sum := by
  induction l generalizing acc with
  | nil => simp [regionLoop]
  | cons wc r ih =>
    obtain ⟨wn, g⟩ := wc
    unfold regionLoop
    simp only [List.map_cons, List.sum_cons, s_pos, s_mul, s_add, s_zero]
    by_cases hsh : dynShut dyns wn = true
    · have ht : regionTerm p inj efac dyns (wn, g) = 0 := by simp [regionTerm, hsh]
      rw [if_pos hsh, ih, ht]; ring
    · rw [if_neg hsh]
      by_cases hk : decide (0 < connRate dyns wn g p * efac wn) = inj
      · have ht : regionTerm p inj efac dyns (wn, g) = connRate dyns wn g p * efac wn := by
          unfold regionTerm keep; rw [if_neg hsh, if_pos hk]
        rw [if_pos hk, ih, ht]; ring
      · have ht : regionTerm p inj efac dyns (wn, g) = 0 := by
          unfold regionTerm keep; rw [if_neg hsh, if_neg hk]
        rw [if_neg hk, ih, ht]; ring

/-- `region_rate_sem`: a region rate is the signed sum, over the connections that lie in the
region and belong to wells not reported SHUT, of the connection rate times the well's
efficiency factor, clamped to the direction. -/
theorem evalRegionRate_eq (p : Rt) (inj : Bool) (c : Ctx K) :
    evalRegionRate p inj c = sgn inj * (c.rconns.map (regionTerm p inj c.efac c.dyns)).sum := by
  unfold evalRegionRate sgn
  cases inj <;> simp [regionLoop_eq]

/-- **regions add up**: the rate of a region whose connection list is the concatenation of the
lists of sub-regions is the sum of their rates — for any number of sub-regions (in particular
the regions of one region set partition the connections of the field). -/
theorem region_rates_add (p : Rt) (inj : Bool) (c : Ctx K) (ls : List (List (String × Nat))) :
    evalRegionRate p inj { c with rconns := ls.flatten } =
      (ls.map fun l => evalRegionRate p inj { c with rconns := l }).sum := by
  simp only [evalRegionRate_eq]
  induction ls with
  | nil => simp
  | cons l t ih =>
    simp only [List.flatten_cons, List.map_append, List.sum_append, List.map_cons, List.sum_cons]
    rw [← ih]; ring

theorem regionTerm_signed_nonneg (p : Rt) (inj : Bool) (efac : String → K) (dyns : List (String × WellDyn K))
    (wc : String × Nat) : 0 ≤ sgn inj * regionTerm p inj efac dyns wc := by
  unfold regionTerm
  split
  · simp
  · cases inj
    · have := keep_false_nonpos (connRate dyns wc.1 wc.2 p * efac wc.1)
      simp only [sgn, Bool.false_eq_true, if_false]; linarith
    · have := keep_true_nonneg (connRate dyns wc.1 wc.2 p * efac wc.1)
      simp only [sgn, if_true]; linarith

/-- region rates are non-negative -/
theorem evalRegionRate_nonneg (p : Rt) (inj : Bool) (c : Ctx K) : 0 ≤ evalRegionRate p inj c := by
  rw [evalRegionRate_eq]
  have key : ∀ l : List (String × Nat), 0 ≤ sgn inj * (l.map (regionTerm p inj c.efac c.dyns)).sum := by
    intro l
    induction l with
    | nil => simp
    | cons a t ih =>
      simp only [List.map_cons, List.sum_cons, mul_add]
      have := regionTerm_signed_nonneg p inj c.efac c.dyns a
      linarith
  exact key _

/-- **Shut wells contribute nothing to a region**: if every connection of the region belongs to a
well the results report as SHUT, every region rate is 0 — whatever the connection rates are. -/
theorem region_all_shut_zero (p : Rt) (inj : Bool) (c : Ctx K)
    (h : ∀ wc ∈ c.rconns, dynShut c.dyns wc.1 = true) : evalRegionRate p inj c = 0 := by
  rw [evalRegionRate_eq]
  have : (c.rconns.map (regionTerm p inj c.efac c.dyns)).sum = 0 := by
    have hz : ∀ l : List (String × Nat), (∀ wc ∈ l, dynShut c.dyns wc.1 = true) →
        (l.map (regionTerm p inj c.efac c.dyns)).sum = 0 := by
      intro l hl
      induction l with
      | nil => simp
      | cons a t ih =>
        simp only [List.map_cons, List.sum_cons]
        rw [ih (fun wc hwc => hl wc (by simp [hwc]))]
        simp [regionTerm, hl a (by simp)]
    exact hz _ h
  rw [this]; simp

/-- a shut well's connections can be removed from the region without changing its rates -/
theorem region_shut_connection_irrelevant (p : Rt) (inj : Bool) (c : Ctx K) (wc : String × Nat)
    (rest : List (String × Nat)) (h : dynShut c.dyns wc.1 = true) :
    evalRegionRate p inj { c with rconns := wc :: rest } = evalRegionRate p inj { c with rconns := rest } := by
  simp only [evalRegionRate_eq, List.map_cons, List.sum_cons]
  simp [regionTerm, h]

/-- a connection without results (well or connection absent from `data::Wells`) adds nothing -/
theorem connRate_absent (p : Rt) (wn : String) (g : Nat) : connRate ([] : List (String × WellDyn K)) wn g p = 0 := rfl

/-! ## efficiency-factor rule of the node kinds -/

/-- Connection, completion and segment nodes use the well rule (no factor for rates, the whole
chain for totals), region nodes the field rule (whole chain for rates and totals). -/
theorem kind_rules (gs : List (GroupIn K)) (isTotal : Bool) (node : String) (ws : List (WellIn K)) :
    setFactors gs Kind.single.cat isTotal node ws = setFactors gs .well isTotal node ws ∧
    setFactors gs Kind.region.cat isTotal node ws = setFactors gs .field isTotal node ws := ⟨rfl, rfl⟩

/-- the factor a region node applies to a well is the whole chain, also for a rate -/
theorem region_efac_whole_chain (gs : List (GroupIn K)) (isTotal : Bool) (node : String)
    (ws : List (WellIn K)) :
    setFactors gs Kind.region.cat isTotal node ws =
      some (ws.map fun w => (w.name, walkUp (parentOf gs) (gefacOf gs) none (gs.length + 1) w.group w.wefac)) := by
  simp [setFactors, Kind.cat]

/-- network node pressure: the node's reported pressure, 0 for a node without results -/
theorem evalNodePressure_eq (conv : Bool) (c : Ctx K) :
    evalNodePressure conv c =
      match c.nodeP with
      | none => 0
      | some (pr, pc) => if conv then pc else pr := by
  unfold evalNodePressure; cases c.nodeP <;> rfl

end OpmVerif.SumFuns.Proofs
