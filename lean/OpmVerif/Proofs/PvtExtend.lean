/-
  The master-table extension of PVTO / PVTG (`LiveOilPvt::extendPvtoTable_`,
  `WetGasPvt::extendPvtgTable_`, the search for the master table in `initFromState`), as
  modelled by `Pvt.extendRows` / `Pvt.findMaster` / `Pvt.extendAll`: closed form of the
  extended branch, "same compressibility / viscosibility as the master branch", what is kept
  of the deck's rows.  Over a linearly ordered field.
-/
import OpmVerif.Proofs.Pvt

namespace OpmVerif.Pvt
open OpmVerif.Tab1D OpmVerif.Tab2D

set_option linter.unusedSectionVars false
set_option linter.unusedSimpArgs false

variable {K : Type} [Field K] [LinearOrder K] [IsStrictOrderedRing K]

/-- A row `(y, B, mu)`; `rowAt m j` is row `j` of a sub-table (zero row out of range). -/
def rowAt (m : List (K × K × K)) (j : Nat) : K × K × K := m.getD j (0, 0, 0)

/-- The quantity the C++ calls `x` ("compressibility" of the master table between two rows):
the change relative to the mean, `(b - a)/((b + a)/2)`. -/
def relChange (a b : K) : K := (b - a) / ((b + a) / 2)

/-- `last*(1 + x/2)/(1 - x/2)` with `x = (b1 - b2)/((b1 + b2)/2)` is `last * b1 / b2`. -/
theorem extend_factor (last b1 b2 : K) (h2 : 0 < b2) (h1 : 0 < b1) :
    last * (1 + (b1 - b2) / ((b1 + b2) / 2) / 2) / (1 - (b1 - b2) / ((b1 + b2) / 2) / 2) = last * b1 / b2 := by
  have hs : b1 + b2 ≠ 0 := ne_of_gt (add_pos h1 h2)
  have h2' : b2 ≠ 0 := ne_of_gt h2
  have e1 : 1 + (b1 - b2) / ((b1 + b2) / 2) / 2 = 2 * b1 / (b1 + b2) := by field_simp; ring
  have e2 : 1 - (b1 - b2) / ((b1 + b2) / 2) / 2 = 2 * b2 / (b1 + b2) := by field_simp; ring
  rw [e1, e2]
  field_simp

/-- The relative change is invariant under a common non-zero factor. -/
theorem relChange_scale (s a b : K) (hs : s ≠ 0) : relChange (s * a) (s * b) = relChange a b := by
  unfold relChange
  by_cases h : b + a = 0
  · have : s * b + s * a = 0 := by rw [← mul_add, h, mul_zero]
    rw [this, h]; simp
  · field_simp

def AllPos (m : List (K × K × K)) : Prop := ∀ row ∈ m, 0 < row.2.1 ∧ 0 < row.2.2

theorem rowAt_mem (m : List (K × K × K)) (j : Nat) (hj : j < m.length) : rowAt m j ∈ m := by
  unfold rowAt
  rw [List.getD_eq_getElem?_getD, List.getElem?_eq_getElem hj]
  exact List.getElem_mem _

theorem extendRows_length (c : Consts K) : ∀ (m : List (K × K × K)) (last : K × K × K),
    (extendRows c last m).length = m.length - 1
  | [], _ => by simp [extendRows]
  | [_], _ => by simp [extendRows]
  | m0 :: m1 :: r, last => by
    simp only [extendRows, List.length_cons]
    rw [extendRows_length c (m1 :: r)]
    simp

/-- **Closed form of the extended branch.**  Row `j` of `last :: extendRows last master`
(`j` < number of master rows) is
`(last.y + (m[j].y - m[0].y),  last.B * m[j].B / m[0].B,  last.mu * m[j].mu / m[0].mu)`:
the branch is the master branch shifted in `y` and scaled in `B` and `mu` so that it starts at
the given (saturated) row.  For master tables of any length with positive `B`, `mu`. -/
theorem extended_branch_closed_form (c : Consts K) (hc : c.two = 2) :
    ∀ (m : List (K × K × K)) (last : K × K × K), AllPos m → ∀ j, j < m.length →
    rowAt (last :: extendRows c last m) j =
      (last.1 + ((rowAt m j).1 - (rowAt m 0).1),
       last.2.1 * (rowAt m j).2.1 / (rowAt m 0).2.1,
       last.2.2 * (rowAt m j).2.2 / (rowAt m 0).2.2)
  | [], _, _, j, hj => by simp at hj
  | [m0], last, hp, j, hj => by
    have : j = 0 := by simpa using hj
    subst this
    have h0 := hp m0 (by simp)
    simp only [rowAt, List.getD_cons_zero]
    rw [mul_div_assoc, div_self (ne_of_gt h0.1), mul_div_assoc, div_self (ne_of_gt h0.2)]
    simp
  | m0 :: m1 :: r, last, hp, j, hj => by
    have h0 := hp m0 (by simp)
    have h1 := hp m1 (by simp)
    cases j with
    | zero =>
      simp only [rowAt, List.getD_cons_zero]
      rw [mul_div_assoc, div_self (ne_of_gt h0.1), mul_div_assoc, div_self (ne_of_gt h0.2)]
      simp
    | succ j =>
      have hp' : AllPos (m1 :: r) := fun row hr => hp row (List.mem_cons_of_mem _ hr)
      have ih := extended_branch_closed_form c hc (m1 :: r)
        (last.1 + (m1.1 - m0.1),
         last.2.1 * (1 + (m1.2.1 - m0.2.1) / ((m1.2.1 + m0.2.1) / c.two) / c.two) /
           (1 - (m1.2.1 - m0.2.1) / ((m1.2.1 + m0.2.1) / c.two) / c.two),
         last.2.2 * (1 + (m1.2.2 - m0.2.2) / ((m1.2.2 + m0.2.2) / c.two) / c.two) /
           (1 - (m1.2.2 - m0.2.2) / ((m1.2.2 + m0.2.2) / c.two) / c.two)) hp' j (by simpa using hj)
      have e : rowAt (last :: extendRows c last (m0 :: m1 :: r)) (j + 1) =
          rowAt ((last.1 + (m1.1 - m0.1),
         last.2.1 * (1 + (m1.2.1 - m0.2.1) / ((m1.2.1 + m0.2.1) / c.two) / c.two) /
           (1 - (m1.2.1 - m0.2.1) / ((m1.2.1 + m0.2.1) / c.two) / c.two),
         last.2.2 * (1 + (m1.2.2 - m0.2.2) / ((m1.2.2 + m0.2.2) / c.two) / c.two) /
           (1 - (m1.2.2 - m0.2.2) / ((m1.2.2 + m0.2.2) / c.two) / c.two)) ::
            extendRows c (last.1 + (m1.1 - m0.1),
         last.2.1 * (1 + (m1.2.1 - m0.2.1) / ((m1.2.1 + m0.2.1) / c.two) / c.two) /
           (1 - (m1.2.1 - m0.2.1) / ((m1.2.1 + m0.2.1) / c.two) / c.two),
         last.2.2 * (1 + (m1.2.2 - m0.2.2) / ((m1.2.2 + m0.2.2) / c.two) / c.two) /
           (1 - (m1.2.2 - m0.2.2) / ((m1.2.2 + m0.2.2) / c.two) / c.two)) (m1 :: r)) j := by
        simp [rowAt, extendRows]
      rw [e, ih]
      have r0 : rowAt (m1 :: r) 0 = m1 := by simp [rowAt]
      have rj : rowAt (m1 :: r) j = rowAt (m0 :: m1 :: r) (j + 1) := by simp [rowAt]
      have r00 : rowAt (m0 :: m1 :: r) 0 = m0 := by simp [rowAt]
      rw [r0, rj, r00, hc, extend_factor _ _ _ h0.1 h1.1, extend_factor _ _ _ h0.2 h1.2]
      have a1 : m1.2.1 ≠ 0 := ne_of_gt h1.1
      have a2 : m1.2.2 ≠ 0 := ne_of_gt h1.2
      have a3 : m0.2.1 ≠ 0 := ne_of_gt h0.1
      have a4 : m0.2.2 ≠ 0 := ne_of_gt h0.2
      refine Prod.ext ?_ (Prod.ext ?_ ?_)
      · simp only []; ring
      · simp only []; field_simp
      · simp only []; field_simp

/-- **Same compressibility and viscosibility as the master branch**, row by row: between rows
`j` and `j+1` of the extended branch the relative change of `B` (the C++'s `x`) and of `mu`
(`xMu`) are exactly those of the master branch between its rows `j` and `j+1`, and the `y`
step is the master's step. -/
theorem extended_branch_same_compressibility (c : Consts K) (hc : c.two = 2)
    (m : List (K × K × K)) (last : K × K × K) (hp : AllPos m) (hl : 0 < last.2.1 ∧ 0 < last.2.2)
    (j : Nat) (hj : j + 1 < m.length) :
    let b := last :: extendRows c last m
    relChange (rowAt b j).2.1 (rowAt b (j + 1)).2.1 = relChange (rowAt m j).2.1 (rowAt m (j + 1)).2.1 ∧
    relChange (rowAt b j).2.2 (rowAt b (j + 1)).2.2 = relChange (rowAt m j).2.2 (rowAt m (j + 1)).2.2 ∧
    (rowAt b (j + 1)).1 - (rowAt b j).1 = (rowAt m (j + 1)).1 - (rowAt m j).1 := by
  intro b
  have e0 := extended_branch_closed_form c hc m last hp j (by omega)
  have e1 := extended_branch_closed_form c hc m last hp (j + 1) hj
  have h0 : 0 < (rowAt m 0).2.1 ∧ 0 < (rowAt m 0).2.2 := by
    exact hp _ (rowAt_mem m 0 (by omega))
  have s1 : last.2.1 / (rowAt m 0).2.1 ≠ 0 := ne_of_gt (div_pos hl.1 h0.1)
  have s2 : last.2.2 / (rowAt m 0).2.2 ≠ 0 := ne_of_gt (div_pos hl.2 h0.2)
  show relChange (rowAt (last :: extendRows c last m) j).2.1 (rowAt (last :: extendRows c last m) (j + 1)).2.1 = _ ∧
    relChange (rowAt (last :: extendRows c last m) j).2.2 (rowAt (last :: extendRows c last m) (j + 1)).2.2 = _ ∧
    (rowAt (last :: extendRows c last m) (j + 1)).1 - (rowAt (last :: extendRows c last m) j).1 = _
  rw [e0, e1]
  refine ⟨?_, ?_, ?_⟩
  · simp only []
    rw [← relChange_scale _ (rowAt m j).2.1 (rowAt m (j + 1)).2.1 s1]
    congr 1 <;> ring
  · simp only []
    rw [← relChange_scale _ (rowAt m j).2.2 (rowAt m (j + 1)).2.2 s2]
    congr 1 <;> ring
  · simp only []; ring

/-- The extended values stay positive (so `1/B` and `1/(B mu)` can be tabulated). -/
theorem extended_branch_positive (c : Consts K) (hc : c.two = 2)
    (m : List (K × K × K)) (last : K × K × K) (hp : AllPos m) (hl : 0 < last.2.1 ∧ 0 < last.2.2)
    (j : Nat) (hj : j < m.length) :
    0 < (rowAt (last :: extendRows c last m) j).2.1 ∧ 0 < (rowAt (last :: extendRows c last m) j).2.2 := by
  rw [extended_branch_closed_form c hc m last hp j hj]
  have h0 : 0 < (rowAt m 0).2.1 ∧ 0 < (rowAt m 0).2.2 := by
    exact hp _ (rowAt_mem m 0 (by omega))
  have hjp : 0 < (rowAt m j).2.1 ∧ 0 < (rowAt m j).2.2 := by
    exact hp _ (rowAt_mem m j hj)
  exact ⟨div_pos (mul_pos hl.1 hjp.1) h0.1, div_pos (mul_pos hl.2 hjp.2) h0.2⟩

/-! ### which branch is the master, and what `extendAll` keeps -/

/-- `findMaster` returns the *first* later record with more than one row. -/
theorem findMaster_spec : ∀ (rest : List (Rec K)) (m : Rec K), findMaster rest = some m →
    ∃ k, k < rest.length ∧ rest[k]? = some m ∧ 1 < m.rows.length ∧
      ∀ k', k' < k → ∀ r, rest[k']? = some r → r.rows.length ≤ 1
  | [], m, h => by simp [findMaster] at h
  | r :: rest, m, h => by
    unfold findMaster at h
    by_cases hr : 1 < r.rows.length
    · rw [if_pos hr] at h
      have : r = m := Option.some.inj h
      subst this
      exact ⟨0, by simp, by simp, hr, fun k' hk' => absurd hk' (Nat.not_lt_zero _)⟩
    · rw [if_neg hr] at h
      obtain ⟨k, hk, hget, hm, hbefore⟩ := findMaster_spec rest m h
      refine ⟨k + 1, by simp; omega, by simpa using hget, hm, ?_⟩
      intro k' hk' r' hr'
      cases k' with
      | zero => simp at hr'; subst hr'; omega
      | succ k' => exact hbefore k' (by omega) r' (by simpa using hr')

theorem findMaster_none : ∀ (rest : List (Rec K)), findMaster rest = none →
    ∀ r ∈ rest, r.rows.length ≤ 1
  | [], _, r, hr => by simp at hr
  | r0 :: rest, h, r, hr => by
    unfold findMaster at h
    by_cases h0 : 1 < r0.rows.length
    · rw [if_pos h0] at h; exact absurd h (by simp)
    · rw [if_neg h0] at h
      rcases List.mem_cons.mp hr with e | e
      · subst e; omega
      · exact findMaster_none rest h r e

/-- **What the extension keeps and what it adds**, for a PVTO/PVTG table with any number of
records: the result has one record per deck record with the same key; a record that has
under-saturated rows is kept as it is; a record with the saturated row only becomes
`row :: extendRows row master.rows` where `master` is the first later record with
under-saturated rows — in particular its first (saturated) row is the deck's row. -/
theorem extendAll_spec (c : Consts K) : ∀ (recs ext : List (Rec K)), extendAll c recs = some ext →
    ext.length = recs.length ∧
    ∀ i r, recs[i]? = some r → ∃ e, ext[i]? = some e ∧ e.key = r.key ∧
      ((1 < r.rows.length ∧ e = r) ∨
       (∃ row m, r.rows = [row] ∧ findMaster (recs.drop (i + 1)) = some m ∧
          e.rows = row :: extendRows c row m.rows))
  | [], ext, h => by
    simp [extendAll] at h; subst h
    exact ⟨rfl, fun i r hr => by simp at hr⟩
  | r0 :: rest, ext, h => by
    unfold extendAll at h
    cases hrest : extendAll c rest with
    | none => rw [hrest] at h; simp at h
    | some rest' =>
      rw [hrest] at h
      simp only [] at h
      obtain ⟨hlen, hrec⟩ := extendAll_spec c rest rest' hrest
      have tail : ∀ (e0 : Rec K) i r, (r0 :: rest)[i + 1]? = some r → ∃ e, (e0 :: rest')[i + 1]? = some e ∧ e.key = r.key ∧
          ((1 < r.rows.length ∧ e = r) ∨
           (∃ row m, r.rows = [row] ∧ findMaster ((r0 :: rest).drop (i + 1 + 1)) = some m ∧
              e.rows = row :: extendRows c row m.rows)) := by
        intro e0 i r hr
        obtain ⟨e, he, hk, hcase⟩ := hrec i r (by simpa using hr)
        exact ⟨e, by simpa using he, hk, by simpa using hcase⟩
      by_cases h1 : 1 < r0.rows.length
      · rw [if_pos h1] at h
        have : ext = r0 :: rest' := (Option.some.inj h).symm
        subst this
        refine ⟨by simp [hlen], ?_⟩
        intro i r hr
        cases i with
        | zero =>
          have : r0 = r := by simpa using hr
          subst this
          exact ⟨r0, by simp, rfl, Or.inl ⟨h1, rfl⟩⟩
        | succ i => exact tail r0 i r hr
      · rw [if_neg h1] at h
        cases hrows : r0.rows with
        | nil => rw [hrows] at h; simp at h
        | cons row tl =>
          cases tl with
          | cons a b => rw [hrows] at h1; simp at h1
          | nil =>
            rw [hrows] at h
            cases hm : findMaster rest with
            | none => rw [hm] at h; simp at h
            | some m =>
              rw [hm] at h
              simp only [] at h
              have : ext = { r0 with rows := row :: extendRows c row m.rows } :: rest' := (Option.some.inj h).symm
              subst this
              refine ⟨by simp [hlen], ?_⟩
              intro i r hr
              cases i with
              | zero =>
                have : r0 = r := by simpa using hr
                subst this
                exact ⟨{ r0 with rows := row :: extendRows c row m.rows }, by simp, rfl,
                  Or.inr ⟨row, m, hrows, by simpa using hm, rfl⟩⟩
              | succ i => exact tail _ i r hr

/-- The extension is refused exactly as the C++ refuses it ("The last table must exhibit at
least one entry for undersaturated oil/gas"): a last record with the saturated row only. -/
theorem extendAll_last_must_be_complete (c : Consts K) (recs : List (Rec K)) (r : Rec K)
    (h : r.rows.length ≤ 1) : extendAll c (recs ++ [r]) = none := by
  induction recs with
  | nil =>
    unfold extendAll
    simp only [List.nil_append, extendAll]
    rw [if_neg (by omega)]
    cases hr : r.rows with
    | nil => rfl
    | cons a t => cases t with
      | nil => simp [findMaster]
      | cons b t' => rw [hr] at h
  | cons r0 rest ih =>
    show extendAll c (r0 :: (rest ++ [r])) = none
    unfold extendAll
    rw [ih]

end OpmVerif.Pvt
