/-
  Extension (prefix-monotonicity) lemmas for the unformatted reader: a successful read
  depends only on the bytes it consumed.  Used for the truncation clause of C08.
-/
import OpmVerif.Proofs.EclBin
namespace OpmVerif.Ecl
/-! ### Extension lemmas: a successful read depends only on the bytes it consumed -/

theorem readN_ext {k : Nat} {s a r : Bytes} (t : Bytes) (h : readN k s = .ok (a, r)) :
    readN k (s ++ t) = .ok (a, r ++ t) := by
  unfold readN at h ⊢
  by_cases hl : s.length < k
  · simp [hl] at h
  · simp only [hl, if_false, Except.ok.injEq, Prod.mk.injEq] at h
    have hl' : ¬ (s ++ t).length < k := by simp; omega
    simp only [hl', if_false, Except.ok.injEq, Prod.mk.injEq]
    obtain ⟨h1, h2⟩ := h
    subst h1 h2
    constructor
    · rw [List.take_append_of_le_length (by omega)]
    · rw [List.drop_append_of_le_length (by omega)]

theorem readN_length {k : Nat} {s a r : Bytes} (h : readN k s = .ok (a, r)) :
    s.length = k + r.length ∧ a.length = k := by
  unfold readN at h
  by_cases hl : s.length < k
  · simp [hl] at h
  · simp only [hl, if_false, Except.ok.injEq, Prod.mk.injEq] at h
    obtain ⟨h1, h2⟩ := h
    subst h1 h2
    simp; omega

theorem readElems_ext (w : Nat) : ∀ (k : Nat) (s : Bytes) (es : List Bytes) (r t : Bytes),
    readElems w k s = .ok (es, r) → readElems w k (s ++ t) = .ok (es, r ++ t) := by
  intro k
  induction k with
  | zero =>
    intro s es r t h
    simp only [readElems, Except.ok.injEq, Prod.mk.injEq] at h ⊢
    obtain ⟨h1, h2⟩ := h
    subst h1 h2
    exact ⟨rfl, rfl⟩
  | succ k ih =>
    intro s es r t h
    unfold readElems at h ⊢
    cases h1 : readN w s with
    | error e => simp [h1] at h
    | ok p =>
      obtain ⟨a, s1⟩ := p
      rw [h1] at h
      simp only [] at h
      rw [readN_ext t h1]
      simp only []
      cases h2 : readElems w k s1 with
      | error e => simp [h2] at h
      | ok q =>
        obtain ⟨es1, s2⟩ := q
        rw [h2] at h
        simp only [Except.ok.injEq, Prod.mk.injEq] at h
        rw [ih s1 es1 s2 t h2]
        simp only [Except.ok.injEq, Prod.mk.injEq]
        exact ⟨h.1, by rw [h.2]⟩

theorem readBlocks_ext (w mx : Nat) : ∀ (fuel : Nat) (rest : Int) (s : Bytes) (es : List Bytes) (r t : Bytes),
    readBlocks w mx fuel rest s = .ok (es, r) → readBlocks w mx fuel rest (s ++ t) = .ok (es, r ++ t) := by
  intro fuel
  induction fuel with
  | zero =>
    intro rest s es r t h
    unfold readBlocks at h ⊢
    by_cases hr : rest > 0
    · simp [hr] at h
    · simp only [hr, if_false, Except.ok.injEq, Prod.mk.injEq] at h ⊢
      exact ⟨h.1, by rw [h.2]⟩
  | succ fuel ih =>
    intro rest s es r t h
    unfold readBlocks at h ⊢
    by_cases hr : rest > 0
    · simp only [hr, if_true] at h ⊢
      cases h1 : readN 4 s with
      | error e => simp [h1] at h
      | ok p =>
        obtain ⟨dh, s1⟩ := p
        rw [h1] at h
        simp only [] at h
        rw [readN_ext t h1]
        simp only []
        by_cases hc1 : Int.tdiv (toI32 (rd32 dh)) (w : Int) > (mx : Int) ∨ Int.tdiv (toI32 (rd32 dh)) (w : Int) < 0
        · simp [hc1] at h
        · simp only [hc1, if_false] at h ⊢
          cases h2 : readElems w (Int.tdiv (toI32 (rd32 dh)) (w : Int)).toNat s1 with
          | error e => simp [h2] at h
          | ok q =>
            obtain ⟨es1, s2⟩ := q
            rw [h2] at h
            simp only [] at h
            rw [readElems_ext w _ s1 es1 s2 t h2]
            simp only []
            split at h
            · simp at h
            · rename_i hc2
              simp only [hc2, if_false]
              cases h3 : readN 4 s2 with
              | error e => simp [h3] at h
              | ok q3 =>
                obtain ⟨dt, s3⟩ := q3
                rw [h3] at h
                simp only [] at h
                rw [readN_ext t h3]
                simp only []
                split at h
                · simp at h
                · rename_i hc3
                  simp only [hc3, if_false]
                  cases h4 : readBlocks w mx fuel (rest - Int.tdiv (toI32 (rd32 dh)) (w : Int)) s3 with
                  | error e => simp [h4] at h
                  | ok q4 =>
                    obtain ⟨more, s4⟩ := q4
                    rw [h4] at h
                    simp only [Except.ok.injEq, Prod.mk.injEq] at h
                    rw [ih _ s3 more s4 t h4]
                    simp only [Except.ok.injEq, Prod.mk.injEq]
                    exact ⟨h.1, by rw [h.2]⟩
    · simp only [hr, if_false, Except.ok.injEq, Prod.mk.injEq] at h ⊢
      exact ⟨h.1, by rw [h.2]⟩

theorem readRawHeader_ext {s : Bytes} {v : Bytes × Nat × Bytes} {r : Bytes} (t : Bytes)
    (h : readRawHeader s = .ok (v, r)) : readRawHeader (s ++ t) = .ok (v, r ++ t) := by
  unfold readRawHeader at h ⊢
  cases h1 : readN 4 s with
  | error e => simp [h1] at h
  | ok p1 =>
    obtain ⟨hd, s1⟩ := p1
    rw [h1] at h; simp only [] at h
    rw [readN_ext t h1]; simp only []
    split at h
    · simp at h
    · rename_i hc1
      simp only [hc1, if_false]
      cases h2 : readN 8 s1 with
      | error e => simp [h2] at h
      | ok p2 =>
        obtain ⟨nm, s2⟩ := p2
        rw [h2] at h; simp only [] at h
        rw [readN_ext t h2]; simp only []
        cases h3 : readN 4 s2 with
        | error e => simp [h3] at h
        | ok p3 =>
          obtain ⟨cnt, s3⟩ := p3
          rw [h3] at h; simp only [] at h
          rw [readN_ext t h3]; simp only []
          cases h4 : readN 4 s3 with
          | error e => simp [h4] at h
          | ok p4 =>
            obtain ⟨tg, s4⟩ := p4
            rw [h4] at h; simp only [] at h
            rw [readN_ext t h4]; simp only []
            cases h5 : readN 4 s4 with
            | error e => simp [h5] at h
            | ok p5 =>
              obtain ⟨tl, s5⟩ := p5
              rw [h5] at h; simp only [] at h
              rw [readN_ext t h5]; simp only []
              split at h
              · simp at h
              · rename_i hc2
                simp only [hc2, if_false]
                simp only [Except.ok.injEq, Prod.mk.injEq] at h ⊢
                exact ⟨h.1, by rw [h.2]⟩

theorem readRawHeader_length {s : Bytes} {v : Bytes × Nat × Bytes} {r : Bytes}
    (h : readRawHeader s = .ok (v, r)) : s.length = 24 + r.length := by
  unfold readRawHeader at h
  cases h1 : readN 4 s with
  | error e => simp [h1] at h
  | ok p1 =>
    obtain ⟨hd, s1⟩ := p1
    rw [h1] at h; simp only [] at h
    split at h
    · simp at h
    · cases h2 : readN 8 s1 with
      | error e => simp [h2] at h
      | ok p2 =>
        obtain ⟨nm, s2⟩ := p2
        rw [h2] at h; simp only [] at h
        cases h3 : readN 4 s2 with
        | error e => simp [h3] at h
        | ok p3 =>
          obtain ⟨cnt, s3⟩ := p3
          rw [h3] at h; simp only [] at h
          cases h4 : readN 4 s3 with
          | error e => simp [h4] at h
          | ok p4 =>
            obtain ⟨tg, s4⟩ := p4
            rw [h4] at h; simp only [] at h
            cases h5 : readN 4 s4 with
            | error e => simp [h5] at h
            | ok p5 =>
              obtain ⟨tl, s5⟩ := p5
              rw [h5] at h; simp only [] at h
              split at h
              · simp at h
              · simp only [Except.ok.injEq, Prod.mk.injEq] at h
                have := (readN_length h1).1
                have := (readN_length h2).1
                have := (readN_length h3).1
                have := (readN_length h4).1
                have := (readN_length h5).1
                rw [← h.2]; omega

theorem readHeader_ext {s : Bytes} {hd : Header} {r : Bytes} (t : Bytes)
    (h : readHeader s = .ok (hd, r)) : readHeader (s ++ t) = .ok (hd, r ++ t) := by
  unfold readHeader at h ⊢
  cases h1 : readRawHeader s with
  | error e => simp [h1] at h
  | ok p1 =>
    obtain ⟨⟨nm, cnt, tg⟩, s1⟩ := p1
    rw [h1] at h; simp only [] at h
    rw [readRawHeader_ext t h1]; simp only []
    by_cases hx : tg = tagX231
    · simp only [hx, if_true] at h ⊢
      cases h2 : readRawHeader s1 with
      | error e => simp [h2] at h
      | ok p2 =>
        obtain ⟨⟨nm2, cnt2, tg2⟩, s2⟩ := p2
        rw [h2] at h; simp only [] at h
        rw [readRawHeader_ext t h2]; simp only []
        split at h
        · simp at h
        · rename_i hc1
          simp only [hc1, if_false]
          split at h
          · simp at h
          · rename_i hc2
            simp only [hc2, if_false]
            cases h3 : parseTag tg2 with
            | error e => simp [h3] at h
            | ok ty =>
              rw [h3] at h
              simp only [Except.ok.injEq, Prod.mk.injEq] at h ⊢
              exact ⟨h.1, by rw [h.2]⟩
    · simp only [hx, if_false] at h ⊢
      cases h3 : parseTag tg with
      | error e => simp [h3] at h
      | ok ty =>
        rw [h3] at h
        simp only [Except.ok.injEq, Prod.mk.injEq] at h ⊢
        exact ⟨h.1, by rw [h.2]⟩

theorem readData_nonmess {ty : ArrType} (hm : ty ≠ .mess) (size : Int) (s : Bytes) :
    readData ty size s = if size < 0 then .error .badCount
      else readBlocks (elemSize ty) (maxNum ty) (size.toNat + 1) size s := by
  cases ty <;> first | rfl | exact absurd rfl hm

theorem readData_ext {ty : ArrType} {size : Int} {s : Bytes} {es : List Bytes} {r : Bytes} (t : Bytes)
    (h : readData ty size s = .ok (es, r)) : readData ty size (s ++ t) = .ok (es, r ++ t) := by
  by_cases hm : ty = .mess
  · subst hm
    simp only [readData, Except.ok.injEq, Prod.mk.injEq] at h ⊢
    exact ⟨h.1, by rw [h.2]⟩
  · rw [readData_nonmess hm] at h ⊢
    split at h
    · simp at h
    · rename_i hneg
      simp only [hneg, if_false]
      exact readBlocks_ext _ _ _ _ _ _ _ t h

/-- If an entry loads from a file it loads to the same array from any extension of
that file (a truncated file never yields data different from the complete file). -/
theorem loadEntry_ext {f : Bytes} {e : Entry} {a : Arr} (t : Bytes) (hpos : e.pos ≤ f.length)
    (h : loadEntry f e = .ok a) : loadEntry (f ++ t) e = .ok a := by
  unfold loadEntry at h ⊢
  rw [List.drop_append_of_le_length hpos]
  cases h1 : readData e.hdr.ty e.hdr.num (f.drop e.pos) with
  | error err => simp [h1] at h
  | ok p =>
    obtain ⟨es, r⟩ := p
    rw [h1] at h
    rw [readData_ext t h1]
    exact h

theorem readHeader_le {s : Bytes} {hd : Header} {r : Bytes} (h : readHeader s = .ok (hd, r)) :
    r.length ≤ s.length := by
  unfold readHeader at h
  cases h1 : readRawHeader s with
  | error e => simp [h1] at h
  | ok p1 =>
    obtain ⟨⟨nm, cnt, tg⟩, s1⟩ := p1
    rw [h1] at h; simp only [] at h
    have l1 := readRawHeader_length h1
    by_cases hx : tg = tagX231
    · simp only [hx, if_true] at h
      cases h2 : readRawHeader s1 with
      | error e => simp [h2] at h
      | ok p2 =>
        obtain ⟨⟨nm2, cnt2, tg2⟩, s2⟩ := p2
        rw [h2] at h; simp only [] at h
        have l2 := readRawHeader_length h2
        split at h
        · simp at h
        · split at h
          · simp at h
          · cases h3 : parseTag tg2 with
            | error e => simp [h3] at h
            | ok ty =>
              rw [h3] at h
              simp only [Except.ok.injEq, Prod.mk.injEq] at h
              rw [← h.2]; omega
    · simp only [hx, if_false] at h
      cases h3 : parseTag tg with
      | error e => simp [h3] at h
      | ok ty =>
        rw [h3] at h
        simp only [Except.ok.injEq, Prod.mk.injEq] at h
        rw [← h.2]; omega

/-- The index of a truncated file is a prefix of the index of the complete file, and
every entry's data position lies inside the truncated file. -/
theorem indexFile_ext (f t : Bytes) : ∀ (fuel fuel2 pos : Nat) (idx idx2 : List Entry),
    indexFile f fuel pos = .ok idx → indexFile (f ++ t) fuel2 pos = .ok idx2 →
      idx <+: idx2 ∧ ∀ e ∈ idx, e.pos ≤ f.length := by
  intro fuel
  induction fuel with
  | zero => intro fuel2 pos idx idx2 h; simp [indexFile] at h
  | succ fuel ih =>
    intro fuel2 pos idx idx2 h h2
    unfold indexFile at h
    simp only [] at h
    by_cases hl : (f.drop pos).length < 4
    · simp only [hl, if_true, Except.ok.injEq] at h
      subst h
      exact ⟨List.nil_prefix, by intro e he; cases he⟩
    · simp only [hl, if_false] at h
      have hpos : pos ≤ f.length := by
        simp only [List.length_drop] at hl; omega
      cases h1 : readHeader (f.drop pos) with
      | error e => simp [h1] at h
      | ok p1 =>
        obtain ⟨hd, s'⟩ := p1
        rw [h1] at h; simp only [] at h
        have hle := readHeader_le h1
        have hsl : s'.length ≤ f.length := by
          have : (f.drop pos).length ≤ f.length := by simp
          omega
        cases hs : sizeOnDiskBinary hd.num hd.ty with
        | none => simp [hs] at h
        | some skip =>
          rw [hs] at h; simp only [] at h
          cases hr : indexFile f fuel (f.length - s'.length + if hd.num > 0 then skip else 0) with
          | error e => simp [hr] at h
          | ok rest =>
            rw [hr] at h
            simp only [Except.ok.injEq] at h
            subst h
            -- the complete file
            obtain ⟨fuel2, rfl⟩ : ∃ k, fuel2 = k + 1 := by
              cases fuel2 with
              | zero => simp [indexFile] at h2
              | succ k => exact ⟨k, rfl⟩
            unfold indexFile at h2
            simp only [List.drop_append_of_le_length hpos] at h2
            have hl2 : ¬ (f.drop pos ++ t).length < 4 := by
              simp only [List.length_append]; omega
            simp only [hl2, if_false, readHeader_ext t h1, hs] at h2
            have hd2 : (f ++ t).length - (s' ++ t).length = f.length - s'.length := by
              simp only [List.length_append]; omega
            rw [hd2] at h2
            cases hr2 : indexFile (f ++ t) fuel2 (f.length - s'.length + if hd.num > 0 then skip else 0) with
            | error e => simp [hr2] at h2
            | ok rest2 =>
              rw [hr2] at h2
              simp only [Except.ok.injEq] at h2
              subst h2
              obtain ⟨ihp, ihpos⟩ := ih fuel2 _ rest rest2 hr hr2
              refine ⟨?_, ?_⟩
              · rw [List.cons_prefix_cons]; exact ⟨rfl, ihp⟩
              · intro e he
                simp only [List.mem_cons] at he
                rcases he with rfl | he
                · simp only []; omega
                · exact ihpos e he

theorem loadAll_get {f : Bytes} : ∀ {idx : List Entry} {as : List Arr}, loadAll f idx = .ok as →
    idx.length = as.length ∧ ∀ (i : Nat) (h1 : i < idx.length) (h2 : i < as.length),
      loadEntry f idx[i] = .ok as[i] := by
  intro idx
  induction idx with
  | nil =>
    intro as h
    simp only [loadAll, Except.ok.injEq] at h
    subst h
    exact ⟨rfl, by intro i h1; cases h1⟩
  | cons e es ih =>
    intro as h
    unfold loadAll at h
    cases h1 : loadEntry f e with
    | error err => simp [h1] at h
    | ok a =>
      rw [h1] at h; simp only [] at h
      cases h2 : loadAll f es with
      | error err => simp [h2] at h
      | ok as' =>
        rw [h2] at h
        simp only [Except.ok.injEq] at h
        subst h
        obtain ⟨hl, hg⟩ := ih h2
        refine ⟨by simp [hl], ?_⟩
        intro i hi1 hi2
        cases i with
        | zero => simpa using h1
        | succ i => simpa using hg i (by simpa using hi1) (by simpa using hi2)

/-- **Truncation never yields wrong data** (unformatted).  Cut a file written from the
arrays `as` at any byte `k`.  Whatever the reader still accepts — the index it builds and
every array it loads without an error — is exactly what was written at that position. -/
theorem truncation_exact_or_error (as : List Arr) (hwf : ∀ a ∈ as, a.WF) (k : Nat)
    (idx : List Entry) (hidx : indexFile ((encodeFile as).take k) (((encodeFile as).take k).length + 1) 0 = .ok idx)
    (i : Nat) (hi : i < idx.length) (a : Arr)
    (hload : loadEntry ((encodeFile as).take k) idx[i] = .ok a) :
    as[i]? = some a := by
  have hfull := indexFile_encodeFile as [] ((encodeFile as).length + 1) hwf (by
    have : as.length ≤ (encodeFile as).length := by
      clear hwf hidx hload
      induction as with
      | nil => simp
      | cons a as ih =>
        have : 1 ≤ (encodeArr a).length := by
          rw [encodeArr_eq]; simp [encodeHeader]; omega
        simp [encodeFile] at ih ⊢; omega
    omega)
  simp only [List.nil_append, List.length_nil] at hfull
  have hsplit : (encodeFile as).take k ++ (encodeFile as).drop k = encodeFile as := List.take_append_drop k _
  have hfull' : indexFile ((encodeFile as).take k ++ (encodeFile as).drop k) ((encodeFile as).length + 1) 0 =
      .ok (expectedIndex 0 as) := by rw [hsplit]; exact hfull
  obtain ⟨hpre, hpos⟩ := indexFile_ext _ _ _ _ _ _ _ hidx hfull'
  have hload' := loadEntry_ext ((encodeFile as).drop k) (hpos _ (List.getElem_mem hi)) hload
  rw [hsplit] at hload'
  have hall := loadAll_expectedIndex as [] [] hwf
  simp only [List.nil_append, List.append_nil, List.length_nil] at hall
  obtain ⟨hlen, hget⟩ := loadAll_get hall
  obtain ⟨rest, hrest⟩ := hpre
  have hi2 : i < (expectedIndex 0 as).length := by rw [← hrest]; simp; omega
  have heq : idx[i] = (expectedIndex 0 as)[i] := by
    simp only [← hrest]
    rw [List.getElem_append_left hi]
  rw [heq] at hload'
  have hi3 : i < as.length := by omega
  have := hget i hi2 hi3
  rw [this] at hload'
  simp only [Except.ok.injEq] at hload'
  rw [← hload']
  simp [hi3]

end OpmVerif.Ecl
