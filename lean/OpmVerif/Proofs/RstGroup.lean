/-
  Theorems about the generated group tables (Gen/RstGroup.lean ← AggregateGroupData.{cpp,hpp}, rst/group.cpp) and
  the hand model of the IGRP window layout (Model/RstGroup.lean).  Kept apart from Proofs/RstSlots.lean so that a
  change of the well / connection sources does not rebuild these and vice versa.
-/
import OpmVerif.Gen.RstGroup
import OpmVerif.Model.RstGroup
import OpmVerif.Model.RstLayout

namespace OpmVerif.RstGroup
open OpmVerif.RstSlot OpmVerif.Gen.RstGroup

def genumOf (q : String) : List (String × Int) := (genums.lookup q).getD []

/-- All named SGRP items: the three enums of VectorItems::SGroup index one array. -/
def sgroupItems : List (String × Int) :=
  genumOf "SGroup.index" ++ genumOf "SGroup.prod_index" ++ genumOf "SGroup.inj_index"

/-! ## IGRP window layout (hand model), for every NWGMAX, NGMAXZ, child count -/

/-- The child list and the named part of an IGRP window never collide, and the named part lies inside the window
`CreateInteHead.cpp` announces (NIGRPZ = base + max(NWGMAX, NGMAXZ)) for every item below `base`. -/
theorem igrp_prefix_disjoint (nwgmax ngmaxz nchild i k : Nat) (hn : nchild ≤ nwgmax) (hi : i < nchild) (hk : k < nigrpzBase) :
    i ≠ igrpPos nwgmax k ∧ igrpPos nwgmax k < sizeNIGRPZ nwgmax ngmaxz ∧ i < sizeNIGRPZ nwgmax ngmaxz := by
  unfold igrpPos sizeNIGRPZ
  unfold nigrpzBase at hk
  omega

/-- Every store of `childPrefix` is either below the child count or the count item itself. -/
theorem childPrefix_positions (nwgmax : Nat) (children : List Int) :
    ∀ pv ∈ childPrefix nwgmax children, pv.1 < children.length ∨ pv.1 = igrpPos nwgmax 0 := by
  intro pv h
  unfold childPrefix at h
  rcases List.mem_append.mp h with h | h
  · left
    have := List.of_mem_zip h
    simpa using this.1
  · right
    simp at h
    rw [h]

theorem lookup_zip_range' (tail : List (Nat × Int)) :
    ∀ (l : List Int) (s j : Nat), j < l.length →
      (((List.range' s l.length).zip l) ++ tail).lookup (s + j) = l[j]? := by
  intro l
  induction l with
  | nil => intro s j hj; simp at hj
  | cons x xs ihx =>
    intro s j hj
    cases j with
    | zero => simp [List.range']
    | succ j' =>
      have hne : (s + (j' + 1) == s) = false := by simp
      have h2 := ihx (s + 1) j' (by simpa using hj)
      simp only [List.length_cons, List.range', List.zip_cons_cons, List.cons_append, List.lookup, hne]
      have e : s + (j' + 1) = s + 1 + j' := by omega
      rw [e, h2]
      simp

/-- Reading child `i` back from the prefix gives the i-th child (the reader's `igrp[i]`), whatever the count item holds. -/
theorem childPrefix_lookup (nwgmax : Nat) (children : List Int) (i : Nat) (hi : i < children.length) :
    (childPrefix nwgmax children).lookup i = children[i]? := by
  unfold childPrefix
  have := lookup_zip_range' [(igrpPos nwgmax 0, (children.length : Int))] children 0 i hi
  simpa [List.range_eq_range'] using this

/-! ## Table facts (closed by evaluation on the regenerated tables) -/

/-- Distinct item names of one array have distinct item numbers. -/
theorem group_index_enums_injective :
    ((genumOf "IGroup.index").map (·.2)).Nodup ∧ (sgroupItems.map (·.2)).Nodup ∧ ((genumOf "XGroup.index").map (·.2)).Nodup := by
  decide +kernel

def gitems (arr : String) : List (String × Int) :=
  if arr = "IGRP" then genumOf "IGroup.index" else if arr = "SGRP" then sgroupItems else genumOf "XGroup.index"

def gwindow (arr : String) : Nat :=
  if arr = "IGRP" then nigrpzBase else if arr = "SGRP" then sizeNSGRPZ else sizeNXGRPZ

/-- Named writer entries use the item number of their name and stay inside the window (IGRP: inside the named
part, i.e. `nwgmax + idx < NIGRPZ` for every NWGMAX by `igrp_prefix_disjoint`); numeric items (`#88`) too. -/
theorem gwriter_slots_in_window :
    ∀ e ∈ gwriter, e.cls = "named" →
      ((e.slot.front = '#' ∨ (gitems e.arr).lookup e.slot = some e.idx) ∧ 0 ≤ e.idx ∧ e.idx.toNat < gwindow e.arr) := by
  decide +kernel

theorem greader_slots_in_window : ∀ e ∈ greader, 0 ≤ e.idx ∧ e.idx.toNat < gwindow e.arr := by decide +kernel

/-- The XGRP items of the summary-vector maps lie inside the XGRP window, no two vectors share an item, and every
vector the writer loops over has an item (`keyToIndex.find(key)` is dereferenced without a test). -/
theorem xgrp_key_maps_sound :
    (∀ kv ∈ groupKeyToIndex ++ fieldKeyToIndex, 0 ≤ kv.2 ∧ kv.2.toNat < sizeNXGRPZ) ∧
    (groupKeyToIndex.map (·.2)).Nodup ∧ (fieldKeyToIndex.map (·.2)).Nodup ∧
    (∀ k ∈ restartGroupKeys, (groupKeyToIndex.lookup k).isSome) ∧ (∀ k ∈ restartFieldKeys, (fieldKeyToIndex.lookup k).isSome) := by
  decide +kernel

/-- The field level map is the group level map with `F` for `G` (same items). -/
theorem xgrp_field_map_mirrors_group_map :
    ∀ kv ∈ fieldKeyToIndex, groupKeyToIndex.lookup (String.ofList ('G' :: kv.1.toList.drop 1)) = some kv.2 := by
  decide +kernel

/-- IGRP / SGRP pairs whose reader shape is not the inverse of the writer shape, with the reason. -/
def gdeclaredExceptions : List (String × String) :=
  [("group.exceed_action", "GCONPROD FLD: both branches of the writer store the code of RATE (4), the procedure NONE cannot come back")]

/-- IGRP / SGRP: every (writer entry, reader entry) pair on one item is in a compatible class, except the declared one. -/
theorem group_pairs_classified :
    ∀ p ∈ gpairs gwriter greader,
      gpairCls p ≠ .mismatch ∨ (gdeclaredExceptions.lookup p.2.field).isSome := by decide +kernel

theorem group_exceptions_all_occur :
    ∀ x ∈ gdeclaredExceptions, ∃ p ∈ gpairs gwriter greader, p.2.field = x.1 ∧ gpairCls p = .mismatch := by decide +kernel

/-- … and outside the declared field there is exactly the classes exact / flag / rawUnits (no scaled, table, … ). -/
theorem group_pair_class_histogram :
    ((gpairs gwriter greader).filter fun p => gpairCls p = .exact).length = 20 ∧
    ((gpairs gwriter greader).filter fun p => gpairCls p = .rawUnits).length = 10 ∧
    ((gpairs gwriter greader).filter fun p => gpairCls p = .flag).length = 6 ∧
    ((gpairs gwriter greader).filter fun p => gpairCls p = .mismatch).length = 1 := by decide +kernel

/-- IGRP / SGRP reader members without a recognised writer entry (the writer goes through `getGLORate(sgprop, ·)`). -/
theorem group_unpaired_reader_fields :
    (greader.filter fun r => !r.post.isOpaque && decide (0 ≤ r.idx) && r.arr != "XGRP" && (gpairs gwriter [r]).isEmpty).map (·.field)
      = ["group.glift_max_supply", "group.glift_max_rate"] := by decide +kernel

/-- Every IGRP / SGRP member with a stated meaning receives only the source quantity of that meaning, written by the
function of its own phase (an item swapped on the writer or the reader side only breaks this). -/
theorem group_source_meanings :
    ∀ p ∈ gpairs gwriter greader, ∀ allowed, groupSourceMeaning.lookup p.2.field = some allowed →
      p.1.src ∈ allowed ∧ (groupPhaseOfFn p.1.fn = "any" ∨ groupPhaseOfField p.2.field = "any" ∨ groupPhaseOfFn p.1.fn = groupPhaseOfField p.2.field) := by
  decide +kernel

/-- Class `rawUnits` (the reader keeps output units, a UDA dimension converts later): the writer converts with exactly
the measure of that dimension, and every such member is listed. -/
theorem group_raw_units_measures :
    ∀ p ∈ gpairs gwriter greader, gpairCls p = .rawUnits →
      (groupRawMeasure.lookup p.2.field).isSome ∧ Pre.measure? p.1.rpre = groupRawMeasure.lookup p.2.field := by
  decide +kernel

/-- XGRP members of RstGroup whose item, vector or measure disagrees with the writer's key map, with the reason. -/
def xdeclaredExceptions : List (String × XCls) :=
  [("group.liquid_production_rate", .wrongVector)]     -- item 3 (LiqPrRate) holds GVPR / FVPR, not GLPR

/-- XGRP: every member of RstGroup reads the item its vector is written to, with the vector's measure — for ordinary
groups and for FIELD — except the declared member, which really disagrees (three measure mismatches were repaired in /repo). -/
theorem xgrp_members_agree :
    ∀ r ∈ greader, r.arr = "XGRP" →
      (xcls groupKeyToIndex 'G' r = xcls fieldKeyToIndex 'F' r) ∧
      xcls groupKeyToIndex 'G' r = (xdeclaredExceptions.lookup r.field).getD .ok := by decide +kernel

theorem xgrp_every_member_has_meaning :
    ∀ r ∈ greader, r.arr = "XGRP" → (groupFieldMeaning.lookup r.field).isSome := by decide +kernel

end OpmVerif.RstGroup
