/-
  Restart chains in the ESMRY reader: the part of a base run that enters the combined history
  ends with the time step that completes the restart step — also when the base run is itself
  a restart (its RSTEP flags then stand for report steps own+1, own+2, …).
-/
import OpmVerif.Model.ExtESmry

namespace OpmVerif.ExtESmry

theorem cutIndex_spec : ∀ (rstep : List Int) (c0 target : Int), c0 < target →
    target - c0 ≤ (ones rstep : Int) →
    cutIndex c0 target rstep < rstep.length ∧
      rstep[cutIndex c0 target rstep]? = some 1 ∧
      (ones (rstep.take (cutIndex c0 target rstep + 1)) : Int) = target - c0 := by
  intro rstep
  induction rstep with
  | nil => intro c0 target h1 h2; simp [ones] at h2; omega
  | cons v vs ih =>
    intro c0 target h1 h2
    by_cases hv : v = 1
    · subst hv
      by_cases hc : c0 + 1 = target
      · simp [cutIndex, hc, ones]; omega
      · have h2' : target - (c0 + 1) ≤ (ones vs : Int) := by simp [ones] at h2; omega
        obtain ⟨a, b, c⟩ := ih (c0 + 1) target (by omega) h2'
        simp only [cutIndex, if_true, hc, if_false]
        refine ⟨by simp; omega, ?_, ?_⟩
        · rw [Nat.add_comm 1, List.getElem?_cons_succ]; exact b
        · rw [Nat.add_comm 1 (cutIndex _ _ _), List.take_succ_cons]
          simp only [ones, if_true]; omega
    · have hc : ¬ (c0 = target) := by omega
      have h2' : target - c0 ≤ (ones vs : Int) := by simp [ones, hv] at h2; omega
      obtain ⟨a, b, c⟩ := ih c0 target h1 h2'
      simp only [cutIndex, hv, if_false, hc]
      refine ⟨by simp; omega, ?_, ?_⟩
      · rw [Nat.add_comm 1, List.getElem?_cons_succ]; exact b
      · rw [Nat.add_comm 1 (cutIndex _ _ _), List.take_succ_cons]
        simp only [ones, hv, if_false]; omega

/-- the code counts from the base run's own restart step (regenerated constant). -/
theorem counts_from_own_restart : Gen.ExtESmrySeek.chainCountsFromOwnRestart = true := by decide

/-- **base part of a restart chain**: for a base run restarted from report step `own` (0 for a
run that is not a restart) whose RSTEP flags mark its report steps `own+1, own+2, …`, the time
steps taken into the history of a run restarted from it at report step `rstNum` end with the
flagged step that completes report step `rstNum`, and contain exactly `rstNum - own` completed
report steps — nothing of the base run beyond the restart step. -/
theorem base_part_ends_at_restart_step (own rstNum : Int) (rstep : List Int) (h1 : own < rstNum)
    (h2 : rstNum - own ≤ (ones rstep : Int)) :
    let ind := cutIndex (countStart own) rstNum rstep
    ind < rstep.length ∧ rstep[ind]? = some 1 ∧ (ones (rstep.take (ind + 1)) : Int) = rstNum - own := by
  have hs : countStart own = own := by simp [countStart, counts_from_own_restart]
  simp only [hs]
  exact cutIndex_spec rstep own rstNum h1 h2

/-- what counting from zero (the code before fix d9c100bd0) does to a nested chain: B restarted
from step 2 wrote report steps 3,4,5,6; a run restarted from B at step 4 would take all of B. -/
example : cutIndex 0 4 [0, 1, 1, 0, 1, 1] = 5 ∧ cutIndex 2 4 [0, 1, 1, 0, 1, 1] = 2 := by decide

end OpmVerif.ExtESmry

namespace OpmVerif.ExtESmry

theorem scanCount_spec : ∀ (rstep : List Int) (c0 target : Int), c0 < target →
    target - c0 ≤ (ones rstep : Int) →
    1 ≤ scanCount c0 target rstep ∧ scanCount c0 target rstep ≤ rstep.length ∧
      rstep[scanCount c0 target rstep - 1]? = some 1 ∧
      (ones (rstep.take (scanCount c0 target rstep)) : Int) = target - c0 := by
  intro rstep
  induction rstep with
  | nil => intro c0 target h1 h2; simp [ones] at h2; omega
  | cons v vs ih =>
    intro c0 target h1 h2
    by_cases hv : v = 1
    · subst hv
      by_cases hc : c0 + 1 ≥ target
      · simp [scanCount, hc, ones]; omega
      · have h2' : target - (c0 + 1) ≤ (ones vs : Int) := by simp [ones] at h2; omega
        obtain ⟨a, b, c, d⟩ := ih (c0 + 1) target (by omega) h2'
        simp only [scanCount, if_true, hc, if_false]
        refine ⟨by omega, by simp; omega, ?_, ?_⟩
        · have : 1 + scanCount (c0 + 1) target vs - 1 = (scanCount (c0 + 1) target vs - 1) + 1 := by omega
          rw [this, List.getElem?_cons_succ]; exact c
        · rw [Nat.add_comm 1 (scanCount _ _ _), List.take_succ_cons]
          simp only [ones, if_true]; omega
    · have hc : ¬ (c0 ≥ target) := by omega
      have h2' : target - c0 ≤ (ones vs : Int) := by simp [ones, hv] at h2; omega
      obtain ⟨a, b, c, d⟩ := ih c0 target h1 h2'
      simp only [scanCount, hv, if_false, hc]
      refine ⟨by omega, by simp; omega, ?_, ?_⟩
      · have : 1 + scanCount c0 target vs - 1 = (scanCount c0 target vs - 1) + 1 := by omega
        rw [this, List.getElem?_cons_succ]; exact c
      · rw [Nat.add_comm 1 (scanCount _ _ _), List.take_succ_cons]
        simp only [ones, hv, if_false]; omega

theorem esmry_counts_from_restart_step : Gen.ESmrySeek.chainCounterStartsAtRestartStep = true := by decide

/-- **base part of a restart chain, SMSPEC reader**: the time steps `ESmry` takes from a base
run (itself restarted from report step `own`, 0 if it is not a restart) for a run restarted
from it at report step `rstNum` end with the step completing report step `rstNum` and hold
exactly `rstNum - own` completed report steps. -/
theorem esmry_base_part (own rstNum : Int) (rstep : List Int) (h1 : own < rstNum)
    (h2 : rstNum - own ≤ (ones rstep : Int)) :
    let n := scanCount (esmryCountStart own) rstNum rstep
    1 ≤ n ∧ n ≤ rstep.length ∧ rstep[n - 1]? = some 1 ∧ (ones (rstep.take n) : Int) = rstNum - own := by
  have hs : esmryCountStart own = own := by simp [esmryCountStart, esmry_counts_from_restart_step]
  simp only [hs]
  exact scanCount_spec rstep own rstNum h1 h2

/-- both readers take the same part of a base run. -/
theorem readers_agree_on_base_part (own rstNum : Int) (rstep : List Int) (h1 : own < rstNum)
    (h2 : rstNum - own ≤ (ones rstep : Int)) :
    scanCount own rstNum rstep = cutIndex own rstNum rstep + 1 := by
  induction rstep generalizing own with
  | nil => simp [ones] at h2; omega
  | cons v vs ih =>
    by_cases hv : v = 1
    · subst hv
      by_cases hc : own + 1 = rstNum
      · simp [scanCount, cutIndex, hc]
      · have hge : ¬ (own + 1 ≥ rstNum) := by omega
        have h2' : rstNum - (own + 1) ≤ (ones vs : Int) := by simp [ones] at h2; omega
        simp only [scanCount, cutIndex, if_true, hc, hge, if_false]
        rw [ih (own + 1) (by omega) h2']; omega
    · have hge : ¬ (own ≥ rstNum) := by omega
      have hne : ¬ (own = rstNum) := by omega
      have h2' : rstNum - own ≤ (ones vs : Int) := by simp [ones, hv] at h2; omega
      simp only [scanCount, cutIndex, hv, if_false, hge, hne]
      rw [ih own h1 h2']; omega

end OpmVerif.ExtESmry
