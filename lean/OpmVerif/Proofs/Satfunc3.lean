/-
  Further lemmas about the saturation-function models over a linearly ordered field:

  A. descending tables of `PiecewiseLinearTwoPhaseMaterial` and invariance of the lookup under
     reversal of the sample order (family I tables vs. family II tables built from the same
     curve), refinement of a table by an interpolated node;
  B. three-point end-point scaling: monotone over the whole axis, and
     `unscaledToScaled ∘ scaledToUnscaled = id` (both ways);
  C. hysteresis: Carlson scanning curve antitone; Killough's model (`Model/Killough.lean`).
-/
import Mathlib.Tactic.Ring
import Mathlib.Tactic.Linarith
import Mathlib.Tactic.FieldSimp
import Mathlib.Tactic.NormNum
import Mathlib.Algebra.Order.Field.Rat
import OpmVerif.Proofs.Satfunc
import OpmVerif.Model.Killough

set_option linter.unusedSectionVars false
set_option linter.unusedSimpArgs false
set_option linter.unusedVariables false

namespace OpmVerif.Eps
open OpmVerif.Tab1D

variable {K : Type} [Field K] [LinearOrder K] [IsStrictOrderedRing K]

/-! ## A. Descending tables and reversal -/

/-- Sample positions are strictly decreasing (family I `SGOF`-derived oil tables: `So = c - Sg`). -/
def StrictDec (xs : List K) : Prop :=
  ∀ i j, i < j → j < xs.length → nth xs j < nth xs i

theorem StrictDec.le {xs : List K} (h : StrictDec xs) {i j : Nat} (hij : i ≤ j) (hj : j < xs.length) :
    nth xs j ≤ nth xs i := by
  rcases Nat.lt_or_eq_of_le hij with h1 | h1
  · exact le_of_lt (h i j h1 hj)
  · subst h1; exact le_refl _

/-! ### `nth` of reversed / mapped lists -/

theorem nth_reverse (l : List K) (i : Nat) (hi : i < l.length) :
    nth l.reverse i = nth l (l.length - 1 - i) := by
  unfold nth
  rw [List.getD_eq_getElem?_getD, List.getD_eq_getElem?_getD, List.getElem?_reverse hi]

/-- mirrored indices: `i + j = len - 1` -/
theorem nth_reverse' (l : List K) (i j : Nat) (h : i + j + 1 = l.length) :
    nth l.reverse i = nth l j := by
  rw [nth_reverse l i (by omega)]
  congr 1; omega

theorem nth_map (f : K → K) (l : List K) (i : Nat) (hi : i < l.length) :
    nth (l.map f) i = f (nth l i) := by
  unfold nth
  rw [List.getD_eq_getElem?_getD, List.getD_eq_getElem?_getD, List.getElem?_map,
    List.getElem?_eq_getElem hi]
  rfl

theorem strictDec_reverse {xs : List K} (h : StrictInc xs) : StrictDec xs.reverse := by
  intro i j hij hj
  have hj' : j < xs.length := by simpa using hj
  rw [nth_reverse xs j hj', nth_reverse xs i (by omega)]
  exact h _ _ (by omega) (by omega)

theorem strictInc_reverse {xs : List K} (h : StrictDec xs) : StrictInc xs.reverse := by
  intro i j hij hj
  have hj' : j < xs.length := by simpa using hj
  rw [nth_reverse xs j hj', nth_reverse xs i (by omega)]
  exact h _ _ (by omega) (by omega)

/-! ### A1. the descending bisection -/

/-- Loop invariant of `findSegmentIndexDescending_` (`if (xValues[cur] >= x) low = cur; else
high = cur;`): from `x ≤ xs[lo]`, `xs[hi] < x` the bisection ends on an adjacent pair with
`xs[i+1] < x ≤ xs[i]`.  No ordering of `xs` is needed. -/
theorem bisectDesc_spec (xs : List K) (x : K) :
    ∀ fuel lo hi, lo < hi → hi - lo ≤ fuel → x ≤ nth xs lo → nth xs hi < x →
      lo ≤ bisectDesc xs x fuel lo hi ∧ bisectDesc xs x fuel lo hi + 1 ≤ hi ∧
      x ≤ nth xs (bisectDesc xs x fuel lo hi) ∧ nth xs (bisectDesc xs x fuel lo hi + 1) < x := by
  intro fuel
  induction fuel with
  | zero => intro lo hi h1 h2; omega
  | succ f ih =>
    intro lo hi hlt hf hlo hhi
    unfold bisectDesc
    by_cases hc : lo + 1 < hi
    · simp only [hc, if_true]
      have hp1 : lo < (lo + hi) / 2 := by omega
      have hp2 : (lo + hi) / 2 < hi := by omega
      by_cases hx : x ≤ nth xs ((lo + hi) / 2)
      · simp only [hx, if_true]
        have := ih ((lo + hi) / 2) hi hp2 (by omega) hx hhi
        exact ⟨by omega, this.2.1, this.2.2.1, this.2.2.2⟩
      · simp only [hx, if_false]
        have := ih lo ((lo + hi) / 2) hp1 (by omega) hlo (not_le.mp hx)
        exact ⟨this.1, by omega, this.2.2.1, this.2.2.2⟩
    · simp only [hc, if_false]
      have : hi = lo + 1 := by omega
      subst this
      exact ⟨le_refl _, le_refl _, hlo, hhi⟩

/-! ### A2. lookup in a descending table -/

/-- In the open range of a descending table the lookup evaluates the line of a segment that
contains the argument. -/
theorem plDesc_inside {xs : List K} (ys : List K) (hn : 2 ≤ xs.length) (x : K)
    (h0 : x < nth xs 0) (h1 : nth xs (xs.length - 1) < x) :
    ∃ i, i + 1 < xs.length ∧ nth xs (i + 1) < x ∧ x ≤ nth xs i ∧ plDesc xs ys x = evalSeg xs ys i x := by
  have hs := bisectDesc_spec xs x xs.length 0 (xs.length - 1) (by omega) (by omega) (le_of_lt h0) h1
  refine ⟨bisectDesc xs x xs.length 0 (xs.length - 1), by omega, hs.2.2.2, hs.2.2.1, ?_⟩
  unfold plDesc segDesc
  rw [if_neg (not_le.mpr h0), if_neg (not_le.mpr h1), if_neg (not_le.mpr h1), if_neg (not_le.mpr h0)]
  exact plSeg_eq_evalSeg _ _ _ _

/-- **Table honouring** (descending table). -/
theorem plDesc_node {xs ys : List K} (hs : StrictDec xs) (hn : 2 ≤ xs.length) (hl : ys.length = xs.length)
    (k : Nat) (hk : k < xs.length) : plDesc xs ys (nth xs k) = nth ys k := by
  by_cases hk0 : k = 0
  · subst hk0
    unfold plDesc
    rw [if_pos (le_refl _)]
  · by_cases hkn : k = xs.length - 1
    · unfold plDesc
      have : ¬ nth xs 0 ≤ nth xs k := not_le.mpr (hs 0 k (by omega) hk)
      rw [if_neg this, hkn, if_pos (le_refl _), hl]
    · have h0 : nth xs k < nth xs 0 := hs 0 k (by omega) hk
      have h1 : nth xs (xs.length - 1) < nth xs k := hs k _ (by omega) (by omega)
      obtain ⟨i, hi, a, b, e⟩ := plDesc_inside ys hn (nth xs k) h0 h1
      rw [e]
      -- xs[i+1] < xs[k] ≤ xs[i]  ⇒  k = i
      have hki : k < i + 1 := by
        by_contra hcon
        have : nth xs k ≤ nth xs (i + 1) := hs.le (by omega) hk
        exact absurd a (not_lt.mpr this)
      have hik : i ≤ k := by
        by_contra hcon
        have : nth xs i < nth xs k := hs k i (by omega) (by omega)
        exact absurd b (not_le.mpr this)
      have : k = i := by omega
      subst this
      exact evalSeg_left xs ys k

/-- **Bracketing** (descending table). -/
theorem plDesc_between {xs : List K} (ys : List K) (hs : StrictDec xs) (hn : 2 ≤ xs.length) (x : K)
    (h0 : x < nth xs 0) (h1 : nth xs (xs.length - 1) < x) :
    ∃ i, i + 1 < xs.length ∧ nth xs (i + 1) < x ∧ x ≤ nth xs i ∧
      min (nth ys i) (nth ys (i + 1)) ≤ plDesc xs ys x ∧ plDesc xs ys x ≤ max (nth ys i) (nth ys (i + 1)) := by
  obtain ⟨i, hi, a, b, e⟩ := plDesc_inside ys hn x h0 h1
  refine ⟨i, hi, a, b, ?_⟩
  rw [e]
  -- the same line seen from the other end: t' = (x - x0)/(x1 - x0) with x1 < x0
  have hx : nth xs (i + 1) < nth xs i := hs _ _ (Nat.lt_succ_self _) hi
  have hd : nth xs (i + 1) - nth xs i < 0 := sub_neg.mpr hx
  have ht0 : 0 ≤ (x - nth xs i) / (nth xs (i + 1) - nth xs i) :=
    div_nonneg_of_nonpos (sub_nonpos.mpr b) (le_of_lt hd)
  have ht1 : (x - nth xs i) / (nth xs (i + 1) - nth xs i) ≤ 1 := by
    rw [div_le_one_of_neg hd]; linarith
  have he : evalSeg xs ys i x =
      nth ys i + (nth ys (i + 1) - nth ys i) * ((x - nth xs i) / (nth xs (i + 1) - nth xs i)) := by
    unfold evalSeg; rw [mul_div_assoc]
  rw [he]
  generalize (x - nth xs i) / (nth xs (i + 1) - nth xs i) = t at ht0 ht1
  rcases le_total (nth ys i) (nth ys (i + 1)) with h | h
  · rw [min_eq_left h, max_eq_right h]
    constructor
    · nlinarith [mul_nonneg (sub_nonneg.mpr h) ht0]
    · nlinarith [mul_nonneg (sub_nonneg.mpr h) (sub_nonneg.mpr ht1)]
  · rw [min_eq_right h, max_eq_left h]
    constructor
    · nlinarith [mul_nonneg (sub_nonneg.mpr h) (sub_nonneg.mpr ht1)]
    · nlinarith [mul_nonneg (sub_nonneg.mpr h) ht0]

/-- Constant extension (descending table). -/
theorem plDesc_outside (xs ys : List K) (x : K) :
    (nth xs 0 ≤ x → plDesc xs ys x = nth ys 0) ∧
    (x < nth xs 0 → x ≤ nth xs (xs.length - 1) → plDesc xs ys x = nth ys (ys.length - 1)) := by
  constructor
  · intro h; unfold plDesc; rw [if_pos h]
  · intro h h'; unfold plDesc; rw [if_neg (not_le.mpr h), if_pos h']

/-! ### A3. segment-choice independence and reversal -/

/-- Two segments of an ascending table that both contain `x` give the same value (they are
equal or adjacent, and adjacent segments agree at the shared node). -/
theorem evalSeg_indep_asc {xs : List K} (ys : List K) (hs : StrictInc xs) (i j : Nat)
    (hi : i + 1 < xs.length) (hj : j + 1 < xs.length) (x : K)
    (i1 : nth xs i ≤ x) (i2 : x ≤ nth xs (i + 1)) (j1 : nth xs j ≤ x) (j2 : x ≤ nth xs (j + 1)) :
    evalSeg xs ys i x = evalSeg xs ys j x := by
  have hij : i ≤ j + 1 := by
    by_contra hc
    have : nth xs (j + 1) < nth xs i := hs _ _ (by omega) (by omega)
    exact absurd (lt_of_lt_of_le this i1) (not_lt.mpr j2)
  have hji : j ≤ i + 1 := by
    by_contra hc
    have : nth xs (i + 1) < nth xs j := hs _ _ (by omega) (by omega)
    exact absurd (lt_of_lt_of_le this j1) (not_lt.mpr i2)
  rcases Nat.lt_trichotomy i j with h | h | h
  · have : j = i + 1 := by omega
    subst this
    have hx : x = nth xs (i + 1) := le_antisymm i2 j1
    subst hx
    rw [evalSeg_right xs ys i (ne_of_lt (hs _ _ (Nat.lt_succ_self _) hi)), evalSeg_left]
  · rw [h]
  · have : i = j + 1 := by omega
    subst this
    have hx : x = nth xs (j + 1) := le_antisymm j2 i1
    subst hx
    rw [evalSeg_right xs ys j (ne_of_lt (hs _ _ (Nat.lt_succ_self _) hj)), evalSeg_left]

theorem evalSeg_indep_desc {xs : List K} (ys : List K) (hs : StrictDec xs) (i j : Nat)
    (hi : i + 1 < xs.length) (hj : j + 1 < xs.length) (x : K)
    (i1 : nth xs (i + 1) ≤ x) (i2 : x ≤ nth xs i) (j1 : nth xs (j + 1) ≤ x) (j2 : x ≤ nth xs j) :
    evalSeg xs ys i x = evalSeg xs ys j x := by
  have hij : i ≤ j + 1 := by
    by_contra hc
    have : nth xs i < nth xs (j + 1) := hs _ _ (by omega) (by omega)
    exact absurd (lt_of_le_of_lt i2 this) (not_lt.mpr j1)
  have hji : j ≤ i + 1 := by
    by_contra hc
    have : nth xs j < nth xs (i + 1) := hs _ _ (by omega) (by omega)
    exact absurd (lt_of_le_of_lt j2 this) (not_lt.mpr i1)
  rcases Nat.lt_trichotomy i j with h | h | h
  · have : j = i + 1 := by omega
    subst this
    have hx : x = nth xs (i + 1) := le_antisymm j2 i1
    subst hx
    rw [evalSeg_right xs ys i (ne_of_gt (hs _ _ (Nat.lt_succ_self _) hi)), evalSeg_left]
  · rw [h]
  · have : i = j + 1 := by omega
    subst this
    have hx : x = nth xs (j + 1) := le_antisymm i2 j1
    subst hx
    rw [evalSeg_right xs ys j (ne_of_gt (hs _ _ (Nat.lt_succ_self _) hj)), evalSeg_left]

/-- **Segment-choice independence** (ascending): whatever segment the search returns, on
`[xs[i], xs[i+1]]` the lookup is the line of segment `i` — closed at both ends, including the
first and the last node where the constant extension takes over. -/
theorem plAsc_eq_evalSeg {xs ys : List K} (hs : StrictInc xs) (hl : ys.length = xs.length)
    (i : Nat) (hi : i + 1 < xs.length) (x : K) (h1 : nth xs i ≤ x) (h2 : x ≤ nth xs (i + 1)) :
    plAsc xs ys x = evalSeg xs ys i x := by
  have hn : 2 ≤ xs.length := by omega
  by_cases h0 : x ≤ nth xs 0
  · have hi0 : i = 0 := by
      by_contra hne
      have : nth xs 0 < nth xs i := hs 0 i (by omega) (by omega)
      exact absurd (lt_of_lt_of_le this h1) (not_lt.mpr h0)
    subst hi0
    have hx : x = nth xs 0 := le_antisymm h0 h1
    subst hx
    rw [(plAsc_outside xs ys _).1 (le_refl _), evalSeg_left]
  · have h0' := not_le.mp h0
    by_cases hN : nth xs (xs.length - 1) ≤ x
    · have hiN : i + 1 = xs.length - 1 := by
        by_contra hne
        have : nth xs (i + 1) < nth xs (xs.length - 1) := hs _ _ (by omega) (by omega)
        exact absurd (lt_of_lt_of_le this hN) (not_lt.mpr h2)
      rw [← hiN] at hN
      have hx : x = nth xs (i + 1) := le_antisymm h2 hN
      subst hx
      rw [(plAsc_outside xs ys _).2 h0' (by rw [← hiN]),
        evalSeg_right xs ys i (ne_of_lt (hs _ _ (Nat.lt_succ_self _) hi)), hl, hiN]
    · obtain ⟨j, hj, a, b, e⟩ := plAsc_inside ys hn x h0' (not_le.mp hN)
      rw [e]
      exact evalSeg_indep_asc ys hs j i hj hi x (le_of_lt a) b h1 h2

/-- **Segment-choice independence** (descending). -/
theorem plDesc_eq_evalSeg {xs ys : List K} (hs : StrictDec xs) (hl : ys.length = xs.length)
    (i : Nat) (hi : i + 1 < xs.length) (x : K) (h1 : nth xs (i + 1) ≤ x) (h2 : x ≤ nth xs i) :
    plDesc xs ys x = evalSeg xs ys i x := by
  have hn : 2 ≤ xs.length := by omega
  by_cases h0 : nth xs 0 ≤ x
  · have hi0 : i = 0 := by
      by_contra hne
      have : nth xs i < nth xs 0 := hs 0 i (by omega) (by omega)
      exact absurd (lt_of_le_of_lt h2 this) (not_lt.mpr h0)
    subst hi0
    have hx : x = nth xs 0 := le_antisymm h2 h0
    subst hx
    rw [(plDesc_outside xs ys _).1 (le_refl _), evalSeg_left]
  · have h0' := not_le.mp h0
    by_cases hN : x ≤ nth xs (xs.length - 1)
    · have hiN : i + 1 = xs.length - 1 := by
        by_contra hne
        have : nth xs (xs.length - 1) < nth xs (i + 1) := hs _ _ (by omega) (by omega)
        exact absurd (lt_of_le_of_lt hN this) (not_lt.mpr h1)
      rw [← hiN] at hN
      have hx : x = nth xs (i + 1) := le_antisymm hN h1
      subst hx
      rw [(plDesc_outside xs ys _).2 h0' (by rw [← hiN]),
        evalSeg_right xs ys i (ne_of_gt (hs _ _ (Nat.lt_succ_self _) hi)), hl, hiN]
    · obtain ⟨j, hj, a, b, e⟩ := plDesc_inside ys hn x h0' (not_le.mp hN)
      rw [e]
      exact evalSeg_indep_desc ys hs j i hj hi x (le_of_lt a) b h1 h2

/-- the line through two points does not depend on which of them is called "first" -/
theorem line_symm (x0 x1 y0 y1 x : K) (h : x0 ≠ x1) :
    y1 + (y0 - y1) * (x - x1) / (x0 - x1) = y0 + (y1 - y0) * (x - x0) / (x1 - x0) := by
  have h1 : x0 - x1 ≠ 0 := sub_ne_zero.mpr h
  have h2 : x1 - x0 ≠ 0 := sub_ne_zero.mpr (Ne.symm h)
  rw [add_div' _ _ _ h1, add_div' _ _ _ h2, div_eq_div_iff h1 h2]
  ring

/-- Segment `i` of a table and the mirrored segment `len-2-i` of the reversed table are the
same line. -/
theorem evalSeg_reverse (xs ys : List K) (hl : ys.length = xs.length) (i : Nat) (hi : i + 1 < xs.length)
    (hne : nth xs i ≠ nth xs (i + 1)) (x : K) :
    evalSeg xs.reverse ys.reverse (xs.length - 2 - i) x = evalSeg xs ys i x := by
  unfold evalSeg
  rw [nth_reverse' xs (xs.length - 2 - i) (i + 1) (by omega),
    nth_reverse' xs (xs.length - 2 - i + 1) i (by omega),
    nth_reverse' ys (xs.length - 2 - i) (i + 1) (by omega),
    nth_reverse' ys (xs.length - 2 - i + 1) i (by omega)]
  exact line_symm _ _ _ _ x hne

/-- **family_equiv_reverse / plEval_reverse.**  Reversing the order of the samples (abscissae
and ordinates together) does not change the tabulated function: the ascending search and
evaluation code and the descending search and evaluation code of
`PiecewiseLinearTwoPhaseMaterial` compute the same function, for every argument (inside the
table, at the nodes, and in both constant extensions). -/
theorem plEval_reverse {xs ys : List K} (hs : StrictInc xs) (hn : 2 ≤ xs.length)
    (hl : ys.length = xs.length) (x : K) :
    plEval xs.reverse ys.reverse x = plEval xs ys x := by
  have h0N : nth xs 0 < nth xs (xs.length - 1) := hs 0 _ (by omega) (by omega)
  have r0 : nth xs.reverse 0 = nth xs (xs.length - 1) := nth_reverse' xs 0 (xs.length - 1) (by omega)
  have rN : nth xs.reverse (xs.length - 1) = nth xs 0 := nth_reverse' xs (xs.length - 1) 0 (by omega)
  have q0 : nth ys.reverse 0 = nth ys (xs.length - 1) := nth_reverse' ys 0 (xs.length - 1) (by omega)
  have qN : nth ys.reverse (xs.length - 1) = nth ys 0 := nth_reverse' ys (xs.length - 1) 0 (by omega)
  have eD : plEval xs.reverse ys.reverse x = plDesc xs.reverse ys.reverse x := by
    unfold plEval
    rw [List.length_reverse, r0, rN, if_neg (not_lt.mpr (le_of_lt h0N))]
  have eA : plEval xs ys x = plAsc xs ys x := by
    unfold plEval; rw [if_pos h0N]
  rw [eD, eA]
  by_cases c0 : x ≤ nth xs 0
  · rw [(plAsc_outside xs ys x).1 c0,
      (plDesc_outside xs.reverse ys.reverse x).2 (by rw [r0]; exact lt_of_le_of_lt c0 h0N)
        (by rw [List.length_reverse, rN]; exact c0),
      List.length_reverse, hl, qN]
  · by_cases cN : nth xs (xs.length - 1) ≤ x
    · rw [(plAsc_outside xs ys x).2 (not_le.mp c0) cN,
        (plDesc_outside xs.reverse ys.reverse x).1 (by rw [r0]; exact cN), q0, hl]
    · obtain ⟨i, hi, a, b, e⟩ := plAsc_inside ys hn x (not_le.mp c0) (not_le.mp cN)
      rw [e, ← evalSeg_reverse xs ys hl i hi (ne_of_lt (hs _ _ (Nat.lt_succ_self _) hi)) x]
      apply plDesc_eq_evalSeg (strictDec_reverse hs)
        (by rw [List.length_reverse, List.length_reverse, hl])
      · rw [List.length_reverse]; omega
      · rw [nth_reverse' xs (xs.length - 2 - i + 1) i (by omega)]; exact le_of_lt a
      · rw [nth_reverse' xs (xs.length - 2 - i) (i + 1) (by omega)]; exact b

theorem family_equiv_reverse {xs ys : List K} (hs : StrictInc xs) (hn : 2 ≤ xs.length)
    (hl : ys.length = xs.length) (x : K) :
    plEval xs.reverse ys.reverse x = plEval xs ys x :=
  plEval_reverse hs hn hl x

/-- … the same starting from a descending table. -/
theorem plEval_reverse_dec {xs ys : List K} (hs : StrictDec xs) (hn : 2 ≤ xs.length)
    (hl : ys.length = xs.length) (x : K) :
    plEval xs.reverse ys.reverse x = plEval xs ys x := by
  have := plEval_reverse (xs := xs.reverse) (ys := ys.reverse) (strictInc_reverse hs)
    (by rw [List.length_reverse]; exact hn) (by rw [List.length_reverse, List.length_reverse, hl]) x
  rw [List.reverse_reverse, List.reverse_reverse] at this
  exact this.symm

/-! ### A4. family I / family II re-indexing -/

theorem map_one_sub_involutive (l : List K) :
    (l.map (fun s => 1 - s)).map (fun s => 1 - s) = l := by
  rw [List.map_map]
  have : ((fun s : K => 1 - s) ∘ (fun s : K => 1 - s)) = id := by
    funext s; simp
  rw [this, List.map_id]

/-- **family_equiv_so.**  Water–oil system: family I (`SWOF`) tabulates `krow` against
ascending `Sw`; a family II `SOF3`/`SOF2` table built from the same curve tabulates the same
values against `So = 1 - Sw`, in ascending `So`, i.e. in the opposite order.  The material-law
manager converts `So` back to `Sw` by `1 - So`.  The two resulting `krn(Sw)` lookups are the
same function. -/
theorem family_equiv_so {sw krow : List K} (hs : StrictInc sw) (hn : 2 ≤ sw.length)
    (hl : krow.length = sw.length) (so kro : List K)
    (hso : so = (sw.map (fun s => 1 - s)).reverse) (hkro : kro = krow.reverse) (x : K) :
    plEval (so.map (fun s => 1 - s)) kro x = plEval sw krow x := by
  subst hso hkro
  rw [List.map_reverse, map_one_sub_involutive]
  exact plEval_reverse hs hn hl x

theorem strictDec_map_sub {sg : List K} (c : K) (hs : StrictInc sg) :
    StrictDec (sg.map (fun g => c - g)) := by
  intro i j hij hj
  have hj' : j < sg.length := by simpa using hj
  rw [nth_map _ sg j hj', nth_map _ sg i (by omega)]
  exact sub_lt_sub_left (hs i j hij hj') c

theorem strictInc_map_sub {so : List K} (c : K) (hs : StrictDec so) :
    StrictInc (so.map (fun g => c - g)) := by
  intro i j hij hj
  have hj' : j < so.length := by simpa using hj
  rw [nth_map _ so j hj', nth_map _ so i (by omega)]
  exact sub_lt_sub_left (hs i j hij hj') c

/-- **family_equiv_sg.**  Gas–oil system: family I (`SGOF`) gives `krog` against ascending `Sg`,
stored against `So = c - Sg` (`c = 1 - Swco`), a descending table; family II (`SOF3`) has the
same samples in ascending `So`.  Both lookups are the same function of `So`. -/
theorem family_equiv_sg {sg krog : List K} (c : K) (hs : StrictInc sg) (hn : 2 ≤ sg.length)
    (hl : krog.length = sg.length) (so1 so2 k2 : List K)
    (h1 : so1 = sg.map (fun g => c - g)) (h2 : so2 = so1.reverse) (hk : k2 = krog.reverse) (x : K) :
    plEval so2 k2 x = plEval so1 krog x := by
  subst h2 hk
  have hd : StrictDec so1 := by rw [h1]; exact strictDec_map_sub c hs
  have hn1 : 2 ≤ so1.length := by rw [h1, List.length_map]; exact hn
  have hl1 : krog.length = so1.length := by rw [h1, List.length_map]; exact hl
  exact plEval_reverse_dec hd hn1 hl1 x

/-! ### A5. refinement by an interpolated node -/

theorem nth_ins_lt (l : List K) (k m : Nat) (a : K) (hk : k ≤ l.length) (hm : m < k) :
    nth (l.take k ++ a :: l.drop k) m = nth l m := by
  unfold nth
  rw [List.getD_eq_getElem?_getD, List.getD_eq_getElem?_getD,
    List.getElem?_append_left (by rw [List.length_take, Nat.min_eq_left hk]; exact hm),
    List.getElem?_take_of_lt hm]

theorem nth_ins_eq (l : List K) (k : Nat) (a : K) (hk : k ≤ l.length) :
    nth (l.take k ++ a :: l.drop k) k = a := by
  unfold nth
  rw [List.getD_eq_getElem?_getD,
    List.getElem?_append_right (by rw [List.length_take, Nat.min_eq_left hk]),
    List.length_take, Nat.min_eq_left hk, Nat.sub_self, List.getElem?_cons_zero]
  rfl

theorem nth_ins_gt (l : List K) (k m : Nat) (a : K) (hk : k ≤ l.length) (hm : k ≤ m) :
    nth (l.take k ++ a :: l.drop k) (m + 1) = nth l m := by
  unfold nth
  have e : m + 1 - k = (m - k) + 1 := by omega
  rw [List.getD_eq_getElem?_getD, List.getD_eq_getElem?_getD,
    List.getElem?_append_right (by rw [List.length_take, Nat.min_eq_left hk]; omega),
    List.length_take, Nat.min_eq_left hk, e, List.getElem?_cons_succ, List.getElem?_drop]
  congr 2; omega

theorem length_ins (l : List K) (k : Nat) (a : K) (hk : k ≤ l.length) :
    (l.take k ++ a :: l.drop k).length = l.length + 1 := by
  rw [List.length_append, List.length_cons, List.length_take, List.length_drop, Nat.min_eq_left hk]
  omega

theorem refine_alg1 (x0 x1 y0 y1 a x : K) (h0 : a - x0 ≠ 0) (h1 : x1 - x0 ≠ 0) :
    y0 + ((y0 + (y1 - y0) * (a - x0) / (x1 - x0)) - y0) * (x - x0) / (a - x0)
      = y0 + (y1 - y0) * (x - x0) / (x1 - x0) := by
  field_simp
  ring

theorem refine_alg2 (x0 x1 y0 y1 a x : K) (h0 : x1 - a ≠ 0) (h1 : x1 - x0 ≠ 0) :
    (y0 + (y1 - y0) * (a - x0) / (x1 - x0)) + (y1 - (y0 + (y1 - y0) * (a - x0) / (x1 - x0))) * (x - a) / (x1 - a)
      = y0 + (y1 - y0) * (x - x0) / (x1 - x0) := by
  field_simp
  ring

theorem strictInc_ins {xs : List K} (hs : StrictInc xs) (i : Nat) (hi : i + 1 < xs.length) (a : K)
    (h1 : nth xs i < a) (h2 : a < nth xs (i + 1)) :
    StrictInc (xs.take (i + 1) ++ a :: xs.drop (i + 1)) := by
  have hk : i + 1 ≤ xs.length := by omega
  intro m m' hmm hm'
  rw [length_ins xs (i + 1) a hk] at hm'
  rcases Nat.lt_trichotomy m (i + 1) with c | c | c
  · rw [nth_ins_lt xs (i + 1) m a hk c]
    have hmi : nth xs m ≤ nth xs i := hs.le (by omega) (by omega)
    rcases Nat.lt_trichotomy m' (i + 1) with c' | c' | c'
    · rw [nth_ins_lt xs (i + 1) m' a hk c']
      exact hs _ _ hmm (by omega)
    · rw [c', nth_ins_eq xs (i + 1) a hk]
      exact lt_of_le_of_lt hmi h1
    · obtain ⟨q, rfl⟩ : ∃ q, m' = q + 1 := ⟨m' - 1, by omega⟩
      rw [nth_ins_gt xs (i + 1) q a hk (by omega)]
      exact hs _ _ (by omega) (by omega)
  · subst c
    rw [nth_ins_eq xs (i + 1) a hk]
    obtain ⟨q, rfl⟩ : ∃ q, m' = q + 1 := ⟨m' - 1, by omega⟩
    rw [nth_ins_gt xs (i + 1) q a hk (by omega)]
    exact lt_of_lt_of_le h2 (hs.le (by omega) (by omega))
  · obtain ⟨r, rfl⟩ : ∃ r, m = r + 1 := ⟨m - 1, by omega⟩
    obtain ⟨q, rfl⟩ : ∃ q, m' = q + 1 := ⟨m' - 1, by omega⟩
    rw [nth_ins_gt xs (i + 1) r a hk (by omega), nth_ins_gt xs (i + 1) q a hk (by omega)]
    exact hs _ _ (by omega) (by omega)

/-- **plAsc_refine.**  Inserting one extra node that carries the interpolated value does not
change the tabulated function (this is what lets two tables with different sample sets, such as
a family I and a family II deck describing the same piecewise-linear curve, be compared on a
common refinement). -/
theorem plAsc_refine {xs ys : List K} (hs : StrictInc xs) (hl : ys.length = xs.length)
    (i : Nat) (hi : i + 1 < xs.length) (a : K) (h1 : nth xs i < a) (h2 : a < nth xs (i + 1))
    (xs' ys' : List K) (hxs' : xs' = xs.take (i + 1) ++ a :: xs.drop (i + 1))
    (hys' : ys' = ys.take (i + 1) ++ evalSeg xs ys i a :: ys.drop (i + 1)) (x : K) :
    plAsc xs' ys' x = plAsc xs ys x := by
  have hn : 2 ≤ xs.length := by omega
  have hk : i + 1 ≤ xs.length := by omega
  have hky : i + 1 ≤ ys.length := by omega
  have hs' : StrictInc xs' := by rw [hxs']; exact strictInc_ins hs i hi a h1 h2
  have hlx : xs'.length = xs.length + 1 := by rw [hxs']; exact length_ins xs (i + 1) a hk
  have hly : ys'.length = xs.length + 1 := by rw [hys', length_ins ys (i + 1) _ hky, hl]
  have hl' : ys'.length = xs'.length := by rw [hlx, hly]
  -- node dictionaries
  have X1 : ∀ m, m < i + 1 → nth xs' m = nth xs m := fun m hm => by
    rw [hxs']; exact nth_ins_lt xs (i + 1) m a hk hm
  have X2 : nth xs' (i + 1) = a := by rw [hxs']; exact nth_ins_eq xs (i + 1) a hk
  have X3 : ∀ m, i + 1 ≤ m → nth xs' (m + 1) = nth xs m := fun m hm => by
    rw [hxs']; exact nth_ins_gt xs (i + 1) m a hk hm
  have Y1 : ∀ m, m < i + 1 → nth ys' m = nth ys m := fun m hm => by
    rw [hys']; exact nth_ins_lt ys (i + 1) m _ hky hm
  have Y2 : nth ys' (i + 1) = evalSeg xs ys i a := by rw [hys']; exact nth_ins_eq ys (i + 1) _ hky
  have Y3 : ∀ m, i + 1 ≤ m → nth ys' (m + 1) = nth ys m := fun m hm => by
    rw [hys']; exact nth_ins_gt ys (i + 1) m _ hky hm
  have h0N : nth xs 0 < nth xs (xs.length - 1) := hs 0 _ (by omega) (by omega)
  have eN : xs.length + 1 - 1 = (xs.length - 1) + 1 := by omega
  by_cases c0 : x ≤ nth xs 0
  · rw [(plAsc_outside xs ys x).1 c0, (plAsc_outside xs' ys' x).1 (by rw [X1 0 (by omega)]; exact c0),
      Y1 0 (by omega)]
  · have c0' := not_le.mp c0
    by_cases cN : nth xs (xs.length - 1) ≤ x
    · rw [(plAsc_outside xs ys x).2 c0' cN,
        (plAsc_outside xs' ys' x).2 (by rw [X1 0 (by omega)]; exact c0')
          (by rw [hlx, eN, X3 _ (by omega)]; exact cN),
        hly, eN, Y3 _ (by omega), hl]
    · obtain ⟨j, hj, ja, jb, e⟩ := plAsc_inside ys hn x c0' (not_le.mp cN)
      rw [e]
      rcases Nat.lt_trichotomy j i with c | c | c
      · -- an untouched segment left of the new node
        rw [plAsc_eq_evalSeg hs' hl' j (by omega) x
          (by rw [X1 j (by omega)]; exact le_of_lt ja) (by rw [X1 (j + 1) (by omega)]; exact jb)]
        unfold evalSeg
        rw [X1 j (by omega), X1 (j + 1) (by omega), Y1 j (by omega), Y1 (j + 1) (by omega)]
      · subst c
        have d1 : nth xs (j + 1) - nth xs j ≠ 0 := ne_of_gt (sub_pos.mpr (lt_trans h1 h2))
        by_cases ca : x ≤ a
        · rw [plAsc_eq_evalSeg hs' hl' j (by omega) x
            (by rw [X1 j (by omega)]; exact le_of_lt ja) (by rw [X2]; exact ca)]
          unfold evalSeg
          rw [X1 j (by omega), X2, Y1 j (by omega), Y2]
          unfold evalSeg
          exact refine_alg1 _ _ _ _ a x (ne_of_gt (sub_pos.mpr h1)) d1
        · rw [plAsc_eq_evalSeg hs' hl' (j + 1) (by omega) x
            (by rw [X2]; exact le_of_lt (not_le.mp ca)) (by rw [X3 (j + 1) (by omega)]; exact jb)]
          unfold evalSeg
          rw [X2, X3 (j + 1) (by omega), Y2, Y3 (j + 1) (by omega)]
          unfold evalSeg
          exact refine_alg2 _ _ _ _ a x (ne_of_gt (sub_pos.mpr h2)) d1
      · -- an untouched segment right of the new node: index shifted by one
        rw [plAsc_eq_evalSeg hs' hl' (j + 1) (by omega) x
          (by rw [X3 j (by omega)]; exact le_of_lt ja) (by rw [X3 (j + 1) (by omega)]; exact jb)]
        unfold evalSeg
        rw [X3 j (by omega), X3 (j + 1) (by omega), Y3 j (by omega), Y3 (j + 1) (by omega)]
/-! ## B. Three-point scaling -/

/-- The common shape of `scaledToUnscaledSatThreePoint_` and `unscaledToScaledSatThreePoint_`:
source points `a`, target points `b`. -/
def tp (s : K) (a b : Pts K) : K :=
  if ¬ (a.p0 < s) then b.p0
  else if s < a.p1 then map3 s a.p0 a.p1 b.p0 b.p1
  else if s < a.p2 then map3 s a.p1 a.p2 b.p1 b.p2
  else b.p2

theorem s2uThree_eq_tp (s : K) (u sc : Pts K) (h : sc.p1 ≤ sc.p2) : s2uThree s u sc = tp s sc u := by
  unfold s2uThree tp
  rw [minA_eq, min_eq_left h]

theorem u2sThree_eq_tp (x : K) (u sc : Pts K) : u2sThree x u sc = tp x u sc := rfl

theorem tp_r0 (s : K) (a b : Pts K) (h : s ≤ a.p0) : tp s a b = b.p0 := by
  unfold tp; rw [if_pos (not_lt.mpr h)]

theorem tp_r1 (s : K) (a b : Pts K) (h0 : a.p0 < s) (h1 : s < a.p1) :
    tp s a b = map3 s a.p0 a.p1 b.p0 b.p1 := by
  unfold tp; rw [if_neg (not_not.mpr h0), if_pos h1]

theorem tp_r2 (s : K) (a b : Pts K) (h0 : a.p0 < s) (h1 : a.p1 ≤ s) (h2 : s < a.p2) :
    tp s a b = map3 s a.p1 a.p2 b.p1 b.p2 := by
  unfold tp; rw [if_neg (not_not.mpr h0), if_neg (not_lt.mpr h1), if_pos h2]

theorem tp_r3 (s : K) (a b : Pts K) (h0 : a.p0 < s) (h1 : a.p1 ≤ s) (h2 : a.p2 ≤ s) :
    tp s a b = b.p2 := by
  unfold tp; rw [if_neg (not_not.mpr h0), if_neg (not_lt.mpr h1), if_neg (not_lt.mpr h2)]

/-- below its upper end the lambda `map(i)` is the un-clamped straight line -/
theorem map3_lin (s a0 a1 b0 b1 : K) (ha : a0 < a1) (hb : b0 ≤ b1) (hs : s ≤ a1) :
    map3 s a0 a1 b0 b1 = b0 + (s - a0) / (a1 - a0) * (b1 - b0) := by
  unfold map3
  rw [minA_eq, maxA_eq, max_eq_left (sub_nonneg.mpr hb)]
  apply min_eq_left
  have hd : 0 < a1 - a0 := sub_pos.mpr ha
  have ht : (s - a0) / (a1 - a0) ≤ 1 := by rw [div_le_one hd]; linarith
  have := mul_le_mul_of_nonneg_right ht (sub_nonneg.mpr hb)
  linarith

theorem map3_mono (a0 a1 b0 b1 : K) (ha : a0 < a1) {s s' : K} (h : s ≤ s') :
    map3 s a0 a1 b0 b1 ≤ map3 s' a0 a1 b0 b1 := by
  unfold map3
  rw [minA_eq, minA_eq, maxA_eq]
  apply min_le_min _ (le_refl _)
  have hd : 0 < a1 - a0 := sub_pos.mpr ha
  have h1 : (s - a0) / (a1 - a0) ≤ (s' - a0) / (a1 - a0) :=
    div_le_div_of_nonneg_right (by linarith) (le_of_lt hd)
  have := mul_le_mul_of_nonneg_right h1 (le_max_right (b1 - b0) 0)
  linarith

theorem tp_mono (a b : Pts K) (a01 : a.p0 < a.p1) (a12 : a.p1 < a.p2)
    (b01 : b.p0 ≤ b.p1) (b12 : b.p1 ≤ b.p2) {s s' : K} (h : s ≤ s') : tp s a b ≤ tp s' a b := by
  by_cases d0 : a.p0 < s'
  · by_cases d1 : s' < a.p1
    · rw [tp_r1 s' a b d0 d1]
      by_cases c0 : a.p0 < s
      · rw [tp_r1 s a b c0 (lt_of_le_of_lt h d1)]
        exact map3_mono _ _ _ _ a01 h
      · rw [tp_r0 s a b (not_lt.mp c0)]
        exact map3_ge _ _ _ _ _ a01 (le_of_lt d0) b01
    · have d1' := not_lt.mp d1
      by_cases d2 : s' < a.p2
      · rw [tp_r2 s' a b d0 d1' d2]
        have lb : b.p1 ≤ map3 s' a.p1 a.p2 b.p1 b.p2 := map3_ge _ _ _ _ _ a12 d1' b12
        by_cases c0 : a.p0 < s
        · by_cases c1 : s < a.p1
          · rw [tp_r1 s a b c0 c1]
            exact le_trans (map3_le _ _ _ _ _) lb
          · rw [tp_r2 s a b c0 (not_lt.mp c1) (lt_of_le_of_lt h d2)]
            exact map3_mono _ _ _ _ a12 h
        · rw [tp_r0 s a b (not_lt.mp c0)]
          exact le_trans b01 lb
      · rw [tp_r3 s' a b d0 d1' (not_lt.mp d2)]
        by_cases c0 : a.p0 < s
        · by_cases c1 : s < a.p1
          · rw [tp_r1 s a b c0 c1]
            exact le_trans (map3_le _ _ _ _ _) b12
          · by_cases c2 : s < a.p2
            · rw [tp_r2 s a b c0 (not_lt.mp c1) c2]
              exact map3_le _ _ _ _ _
            · rw [tp_r3 s a b c0 (not_lt.mp c1) (not_lt.mp c2)]
        · rw [tp_r0 s a b (not_lt.mp c0)]
          exact le_trans b01 b12
  · rw [tp_r0 s' a b (not_lt.mp d0), tp_r0 s a b (le_trans h (not_lt.mp d0))]

/-- **threepoint_monotone.**  For ordered scaled points `sL < sR < sU` and table points
`uL ≤ uR ≤ uU` the three-point saturation mapping is non-decreasing over the whole axis (both
clamped ends and the kink at `sR` included). -/
theorem threepoint_monotone (u sc : Pts K) (h01 : sc.p0 < sc.p1) (h12 : sc.p1 < sc.p2)
    (u01 : u.p0 ≤ u.p1) (u12 : u.p1 ≤ u.p2) {s s' : K} (h : s ≤ s') :
    s2uThree s u sc ≤ s2uThree s' u sc := by
  rw [s2uThree_eq_tp _ _ _ (le_of_lt h12), s2uThree_eq_tp _ _ _ (le_of_lt h12)]
  exact tp_mono sc u h01 h12 u01 u12 h

/-- the inverse mapping is monotone too -/
theorem threepoint_inv_monotone (u sc : Pts K) (u01 : u.p0 < u.p1) (u12 : u.p1 < u.p2)
    (h01 : sc.p0 ≤ sc.p1) (h12 : sc.p1 ≤ sc.p2) {x x' : K} (h : x ≤ x') :
    u2sThree x u sc ≤ u2sThree x' u sc :=
  tp_mono u sc u01 u12 h01 h12 h

theorem map3_roundtrip (s a0 a1 b0 b1 : K) (ha : a0 < a1) (hb : b0 < b1) (h1 : a0 ≤ s) (h2 : s ≤ a1) :
    b0 ≤ map3 s a0 a1 b0 b1 ∧ map3 s a0 a1 b0 b1 ≤ b1 ∧
    (a0 < s → b0 < map3 s a0 a1 b0 b1) ∧ (s < a1 → map3 s a0 a1 b0 b1 < b1) ∧
    map3 (map3 s a0 a1 b0 b1) b0 b1 a0 a1 = s := by
  have hda : 0 < a1 - a0 := sub_pos.mpr ha
  have hdb : 0 < b1 - b0 := sub_pos.mpr hb
  have hna : a1 - a0 ≠ 0 := ne_of_gt hda
  have hnb : b1 - b0 ≠ 0 := ne_of_gt hdb
  have e := map3_lin s a0 a1 b0 b1 ha (le_of_lt hb) h2
  have ht0 : 0 ≤ (s - a0) / (a1 - a0) := div_nonneg (sub_nonneg.mpr h1) (le_of_lt hda)
  have ht1 : (s - a0) / (a1 - a0) ≤ 1 := by rw [div_le_one hda]; linarith
  have hts0 : a0 < s → 0 < (s - a0) / (a1 - a0) := fun h => div_pos (sub_pos.mpr h) hda
  have hts1 : s < a1 → (s - a0) / (a1 - a0) < 1 := fun h => by rw [div_lt_one hda]; linarith
  have hs : a0 + (s - a0) / (a1 - a0) * (a1 - a0) = s := by
    rw [div_mul_cancel₀ _ hna]; ring
  rw [e]
  generalize (s - a0) / (a1 - a0) = t at ht0 ht1 hts0 hts1 hs
  have p1 : b0 ≤ b0 + t * (b1 - b0) := by
    have := mul_nonneg ht0 (le_of_lt hdb); linarith
  have p2 : b0 + t * (b1 - b0) ≤ b1 := by
    have := mul_nonneg (sub_nonneg.mpr ht1) (le_of_lt hdb); linarith
  refine ⟨p1, p2, fun h => ?_, fun h => ?_, ?_⟩
  · have := mul_pos (hts0 h) hdb; linarith
  · have := mul_pos (sub_pos.mpr (hts1 h)) hdb; linarith
  · rw [map3_lin _ b0 b1 a0 a1 hb (le_of_lt ha) p2]
    have : (b0 + t * (b1 - b0) - b0) / (b1 - b0) = t := by
      rw [div_eq_iff hnb]; ring
    rw [this]; exact hs

theorem tp_inverse (a b : Pts K) (a01 : a.p0 < a.p1) (a12 : a.p1 < a.p2)
    (b01 : b.p0 < b.p1) (b12 : b.p1 < b.p2) (s : K) (h0 : a.p0 ≤ s) (h2 : s ≤ a.p2) :
    tp (tp s a b) b a = s := by
  by_cases c0 : a.p0 < s
  · by_cases c1 : s < a.p1
    · rw [tp_r1 s a b c0 c1]
      obtain ⟨p1, p2, p3, p4, p5⟩ :=
        map3_roundtrip s a.p0 a.p1 b.p0 b.p1 a01 b01 (le_of_lt c0) (le_of_lt c1)
      rw [tp_r1 _ b a (p3 c0) (p4 c1)]; exact p5
    · have c1' := not_lt.mp c1
      by_cases c2 : s < a.p2
      · rw [tp_r2 s a b c0 c1' c2]
        obtain ⟨p1, p2, p3, p4, p5⟩ :=
          map3_roundtrip s a.p1 a.p2 b.p1 b.p2 a12 b12 c1' (le_of_lt c2)
        rw [tp_r2 _ b a (lt_of_lt_of_le b01 p1) p1 (p4 c2)]; exact p5
      · have hs : s = a.p2 := le_antisymm h2 (not_lt.mp c2)
        rw [tp_r3 s a b c0 c1' (not_lt.mp c2),
          tp_r3 _ b a (lt_trans b01 b12) (le_of_lt b12) (le_refl _)]
        exact hs.symm
  · have hs : s = a.p0 := le_antisymm (not_lt.mp c0) h0
    rw [tp_r0 s a b (not_lt.mp c0), tp_r0 _ b a (le_refl _)]
    exact hs.symm

/-- **threepoint_inverse.**  For strictly ordered scaled points and strictly ordered table
points, `unscaledToScaledSatThreePoint_ ∘ scaledToUnscaledSatThreePoint_ = id` on `[sL, sU]`
and `scaledToUnscaled ∘ unscaledToScaled = id` on `[uL, uU]`. -/
theorem threepoint_inverse (u sc : Pts K) (h01 : sc.p0 < sc.p1) (h12 : sc.p1 < sc.p2)
    (u01 : u.p0 < u.p1) (u12 : u.p1 < u.p2) :
    (∀ s, sc.p0 ≤ s → s ≤ sc.p2 → u2sThree (s2uThree s u sc) u sc = s) ∧
    (∀ x, u.p0 ≤ x → x ≤ u.p2 → s2uThree (u2sThree x u sc) u sc = x) := by
  constructor
  · intro s a b
    rw [s2uThree_eq_tp _ _ _ (le_of_lt h12), u2sThree_eq_tp]
    exact tp_inverse sc u h01 h12 u01 u12 s a b
  · intro x a b
    rw [s2uThree_eq_tp _ _ _ (le_of_lt h12), u2sThree_eq_tp]
    exact tp_inverse u sc u01 u12 h01 h12 x a b

end OpmVerif.Eps

/-! ## C. Hysteresis -/

namespace OpmVerif.Hyst

variable {K : Type} [Field K] [LinearOrder K] [IsStrictOrderedRing K]

/-- **scan_monotone.**  For an antitone imbibition curve the (Carlson) scanning curve is
non-increasing in the wetting saturation. -/
theorem scan_monotone (c : Curves K) (st : State K)
    (hI : ∀ a b, a ≤ b → c.krnI b ≤ c.krnI a) {a b : K} (ha : st.mdc < a) (hab : a ≤ b) :
    krn c st b ≤ krn c st a := by
  unfold krn
  rw [if_neg (not_le.mpr ha), if_neg (not_le.mpr (lt_of_lt_of_le ha hab))]
  exact hI _ _ (by linarith)

/-- **krn_antitone.**  With both curves antitone and the scanning curve starting not above
the drainage curve at the reversal point (equality under `scan_continuous`), the hysteretic
non-wetting relative permeability is antitone over the whole axis. -/
theorem krn_antitone (c : Curves K) (st : State K)
    (hD : ∀ a b, a ≤ b → c.krnD b ≤ c.krnD a) (hI : ∀ a b, a ≤ b → c.krnI b ≤ c.krnI a)
    (hj : c.krnI (st.mdc + st.delta) ≤ c.krnD st.mdc) {a b : K} (hab : a ≤ b) :
    krn c st b ≤ krn c st a := by
  by_cases ha : st.mdc < a
  · exact scan_monotone c st hI ha hab
  · have ha' := not_lt.mp ha
    by_cases hb : b ≤ st.mdc
    · unfold krn; rw [if_pos hb, if_pos ha']; exact hD _ _ hab
    · unfold krn; rw [if_neg hb, if_pos ha']
      have hb' := not_le.mp hb
      calc c.krnI (b + st.delta) ≤ c.krnI (st.mdc + st.delta) := hI _ _ (by linarith)
        _ ≤ c.krnD st.mdc := hj
        _ ≤ c.krnD a := hD _ _ ha'

end OpmVerif.Hyst

namespace OpmVerif.Killough

variable {K : Type} [Field K] [LinearOrder K] [IsStrictOrderedRing K]

/-! ### C2. Killough (non-wetting phase, kr models 2 and 3)

Full shape of the property: "the Killough scanning curves of `EclHysteresisTwoPhaseLaw` honour
the hysteresis rules" for krn, krw (model 4), pc (Killough pc-hysteresis) and the WAG variant.
Proved here: the krn part for models 2/3; hence the `_partial` suffix. -/

/-- **killough_mdc_min_partial**: after any history `krnSwMdc_` is the minimum of its start
value and the history. -/
theorem killough_mdc_min_partial (p : Static K) (tiny : K) :
    ∀ (h : List K) (st : State K), (run p tiny st h).mdc = h.foldl min st.mdc := by
  intro h
  induction h with
  | nil => intro st; rfl
  | cons s r ih =>
    intro st
    show (run p tiny (update p tiny st s) r).mdc = r.foldl min (min st.mdc s)
    rw [ih (update p tiny st s)]
    congr 1
    unfold update
    by_cases hlt : s < st.mdc
    · simp [hlt, refresh, min_eq_right (le_of_lt hlt)]
    · simp [hlt, min_eq_left (not_lt.mp hlt)]

/-- **killough_drainage_until_reversal_partial**: at every saturation not above the smallest one
seen, the drainage curve is used. -/
theorem killough_drainage_until_reversal_partial (p : Static K) (tiny : K) (st : State K)
    (h : List K) (sw : K) (hsw : sw ≤ st.mdc) (hall : ∀ s ∈ h, sw ≤ s) :
    krn p (run p tiny st h) sw = p.krnD sw := by
  unfold krn
  rw [killough_mdc_min_partial, if_pos (OpmVerif.Hyst.le_foldl_min sw h st.mdc hsw hall)]

/-- The dynamic state is up to date with `krnSwMdc_`. -/
def Consistent (p : Static K) (tiny : K) (st : State K) : Prop :=
  st.KrndHy = p.krnD st.mdc ∧ st.Sncrt = sncrtOf p tiny st.mdc

theorem refresh_consistent (p : Static K) (tiny m : K) : Consistent p tiny (refresh p tiny m) :=
  ⟨rfl, rfl⟩

theorem update_consistent (p : Static K) (tiny : K) (st : State K) (s : K)
    (h : Consistent p tiny st) : Consistent p tiny (update p tiny st s) := by
  unfold update
  by_cases hlt : s < st.mdc
  · rw [if_pos hlt]; exact refresh_consistent p tiny s
  · rw [if_neg hlt]; exact h

theorem run_consistent (p : Static K) (tiny : K) :
    ∀ (h : List K) (st : State K), Consistent p tiny st → Consistent p tiny (run p tiny st h) := by
  intro h
  induction h with
  | nil => intro st hc; exact hc
  | cons s r ih => intro st hc; exact ih _ (update_consistent p tiny st s hc)

/-- `Sncrt_` is always up to date; `KrndHy_` is up to date as soon as the drainage curve
vanishes at the start value of `krnSwMdc_` (its member initialiser is `0.0`, and it is not
assigned by `finalize()`). -/
theorem killough_consistent_partial (p : Static K) (tiny start : K) (h0 : p.krnD start = 0)
    (h : List K) : Consistent p tiny (run p tiny (init p tiny start) h) :=
  run_consistent p tiny h _ ⟨h0.symm, rfl⟩

/-- …and without that assumption after the first saturation below the start value. -/
theorem killough_consistent_after_partial (p : Static K) (tiny start s : K) (hs : s < start)
    (h : List K) : Consistent p tiny (run p tiny (init p tiny start) (s :: h)) := by
  show Consistent p tiny (run p tiny (update p tiny (init p tiny start) s) h)
  apply run_consistent
  unfold update
  rw [if_pos (show s < (init p tiny start).mdc from hs)]
  exact refresh_consistent p tiny s

/-- At the reversal saturation the normalised saturation is `Snmaxd`. -/
theorem snorm_at_mdc (p : Static K) (st : State K) (hd : (1 - st.mdc) - st.Sncrt ≠ 0) :
    snorm p st st.mdc = p.Snmaxd := by
  unfold snorm snhy
  rw [mul_div_cancel_left₀ _ hd]; ring

/-- **killough_scan_continuous_partial**: in a state with `KrndHy = krnD mdc`, if the scanning
curve is non-degenerate (`Snhy ≠ Sncrt`), `KrndMax ≠ 0` and the imbibition curve takes the value
`KrndMax` at the maximum non-wetting saturation, the scanning branch takes the drainage value at
the reversal saturation. -/
theorem killough_scan_continuous_partial (p : Static K) (st : State K)
    (hc : st.KrndHy = p.krnD st.mdc) (hd : (1 - st.mdc) - st.Sncrt ≠ 0) (hm : p.KrndMax ≠ 0)
    (hmeet : p.krnI (1 - p.Snmaxd) = p.KrndMax) :
    (st.KrndHy / p.KrndMax) * p.krnI (1 - (p.Sncri + (1 - st.mdc - st.Sncrt) * (p.Snmaxd - p.Sncri)
        / ((1 - st.mdc) - st.Sncrt))) = p.krnD st.mdc ∧
    scan p st st.mdc = p.krnD st.mdc ∧ krn p st st.mdc = p.krnD st.mdc := by
  have e : scan p st st.mdc = p.krnD st.mdc := by
    unfold scan krnWght
    rw [snorm_at_mdc p st hd, hmeet, hc, div_mul_cancel₀ _ hm]
  refine ⟨e, e, ?_⟩
  unfold krn; rw [if_pos (le_refl _)]

/-- **killough_trapped_endpoint_partial**: at `Sw = 1 - Sncrt` the normalised saturation is
`Sncri`; the scanning branch gives `krnWght * krnI (1 - Sncri)`, which is 0 when the imbibition
curve vanishes at its critical saturation. -/
theorem killough_trapped_endpoint_partial (p : Static K) (st : State K) :
    snorm p st (1 - st.Sncrt) = p.Sncri ∧
    scan p st (1 - st.Sncrt) = (st.KrndHy / p.KrndMax) * p.krnI (1 - p.Sncri) ∧
    (p.krnI (1 - p.Sncri) = 0 → scan p st (1 - st.Sncrt) = 0) ∧
    (p.krnI (1 - p.Sncri) = 0 → st.mdc < 1 - st.Sncrt → krn p st (1 - st.Sncrt) = 0) := by
  have e : snorm p st (1 - st.Sncrt) = p.Sncri := by
    unfold snorm
    have : (1 : K) - (1 - st.Sncrt) - st.Sncrt = 0 := by ring
    rw [this, zero_mul, zero_div, add_zero]
  have e2 : scan p st (1 - st.Sncrt) = (st.KrndHy / p.KrndMax) * p.krnI (1 - p.Sncri) := by
    unfold scan krnWght; rw [e]
  refine ⟨e, e2, fun h => by rw [e2, h, mul_zero], fun h hlt => ?_⟩
  unfold krn
  rw [if_neg (not_le.mpr hlt), e2, h, mul_zero]

/-- Land's constant is non-negative when `Sncri + tiny ≤ Snmaxd`. -/
theorem landC_nonneg (p : Static K) (tiny : K) (h3 : 0 < p.Sncri - p.Sncrd + tiny)
    (h4 : p.Sncri + tiny ≤ p.Snmaxd) : 0 ≤ landC p tiny := by
  unfold landC
  apply sub_nonneg.mpr
  exact one_div_le_one_div_of_le h3 (by linarith)

/-- **killough_land_bounds_partial**: Land's trapped saturation lies between the drainage
critical saturation and the historical maximum: for `Sncrd < snhy ≤ Snmaxd`,
`0 < Sncri - Sncrd + tiny`, `Sncri + tiny ≤ Snmaxd`, `0 ≤ modParam`:
`Sncrd < Sncrt ≤ snhy`. -/
theorem killough_land_bounds_partial (p : Static K) (tiny sn : K)
    (h1 : p.Sncrd < sn) (h2 : sn ≤ p.Snmaxd) (h3 : 0 < p.Sncri - p.Sncrd + tiny)
    (h4 : p.Sncri + tiny ≤ p.Snmaxd) (h5 : 0 ≤ p.modParam) :
    p.Sncrd < land p tiny sn ∧ land p tiny sn ≤ sn := by
  have hC := landC_nonneg p tiny h3 h4
  have hd : 0 < sn - p.Sncrd := sub_pos.mpr h1
  have hD : 1 ≤ (1 + p.modParam * (p.Snmaxd - sn)) + landC p tiny * (sn - p.Sncrd) := by
    have a := mul_nonneg h5 (sub_nonneg.mpr h2)
    have b := mul_nonneg hC (le_of_lt hd)
    linarith
  unfold land
  rw [if_pos h1]
  have q1 : 0 < (sn - p.Sncrd) / ((1 + p.modParam * (p.Snmaxd - sn)) + landC p tiny * (sn - p.Sncrd)) :=
    div_pos hd (lt_of_lt_of_le one_pos hD)
  have q2 : (sn - p.Sncrd) / ((1 + p.modParam * (p.Snmaxd - sn)) + landC p tiny * (sn - p.Sncrd))
      ≤ sn - p.Sncrd := div_le_self (le_of_lt hd) hD
  constructor <;> linarith

/-- At the largest possible turning point (`snhy = Snmaxd`) Land's formula gives the imbibition
critical saturation (up to the regularisation `tiny`): the scanning curve from the end of the
drainage curve ends where the imbibition curve does. -/
theorem killough_land_max_partial (p : Static K) (tiny : K) (h1 : p.Sncrd < p.Snmaxd)
    (h3 : p.Sncri - p.Sncrd + tiny ≠ 0) :
    land p tiny p.Snmaxd = p.Sncri + tiny := by
  have hM : p.Snmaxd - p.Sncrd ≠ 0 := ne_of_gt (sub_pos.mpr h1)
  unfold land landC
  rw [if_pos h1, sub_self, mul_zero, add_zero]
  have hD : (1 : K) + (1 / (p.Sncri - p.Sncrd + tiny) - 1 / (p.Snmaxd - p.Sncrd)) * (p.Snmaxd - p.Sncrd)
      = (p.Snmaxd - p.Sncrd) / (p.Sncri - p.Sncrd + tiny) := by
    field_simp; ring
  rw [hD, div_div_eq_mul_div, mul_div_cancel_left₀ _ hM]
  ring
/-- … in the state: after any history from `init`, if the smallest saturation seen `m`
satisfies `Sncrd < 1 - m ≤ Snmaxd`, then `Sncrd < Sncrt ≤ Snhy`. -/
theorem killough_sncrt_bounds_partial (p : Static K) (tiny : K) (st : State K)
    (hc : Consistent p tiny st)
    (h1 : p.Sncrd < 1 - st.mdc) (h2 : 1 - st.mdc ≤ p.Snmaxd) (h3 : 0 < p.Sncri - p.Sncrd + tiny)
    (h4 : p.Sncri + tiny ≤ p.Snmaxd) (h5 : 0 ≤ p.modParam) :
    p.Sncrd < st.Sncrt ∧ st.Sncrt ≤ snhy st.mdc := by
  rw [hc.2]
  exact killough_land_bounds_partial p tiny (1 - st.mdc) h1 h2 h3 h4 h5

end OpmVerif.Killough

/-! ## Non-vacuity: every main theorem instantiated on a concrete, non-trivial rational instance -/

namespace OpmVerif.Eps
open OpmVerif.Tab1D

/-! ### Non-vacuity examples over ℚ -/

theorem strictDec_three {K : Type} [Field K] [LinearOrder K] [IsStrictOrderedRing K]
    {a b c : K} (h1 : b < a) (h2 : c < b) : StrictDec [a, b, c] :=
  strictDec_reverse (strictInc_three h2 h1)

/-- A1: descending bisection on `[1, 0.7, 0.4, 0]` for `x = 0.5` -/
example : nth ([1, 7 / 10, 4 / 10, 0] : List ℚ) (bisectDesc ([1, 7 / 10, 4 / 10, 0] : List ℚ) (1 / 2) 4 0 3 + 1) < 1 / 2 :=
  (bisectDesc_spec ([1, 7 / 10, 4 / 10, 0] : List ℚ) (1 / 2) 4 0 3 (by norm_num) (by norm_num)
    (by norm_num [nth]) (by norm_num [nth])).2.2.2

/-- A2: a descending table honours its middle node -/
example : plDesc ([1, 1 / 2, 1 / 5] : List ℚ) [0, 3 / 10, 1] (1 / 2) = 3 / 10 := by
  have h := plDesc_node (xs := ([1, 1 / 2, 1 / 5] : List ℚ)) (ys := [0, 3 / 10, 1])
    (strictDec_three (by norm_num) (by norm_num)) (by simp) rfl 1 (by simp)
  simpa [nth] using h

example : ∃ i, i + 1 < 3 ∧ nth ([1, 1 / 2, 1 / 5] : List ℚ) (i + 1) < 7 / 10 ∧ (7 / 10 : ℚ) ≤ nth [1, 1 / 2, 1 / 5] i ∧
    min (nth ([0, 3 / 10, 1] : List ℚ) i) (nth [0, 3 / 10, 1] (i + 1)) ≤ plDesc [1, 1 / 2, 1 / 5] [0, 3 / 10, 1] (7 / 10) ∧
    plDesc ([1, 1 / 2, 1 / 5] : List ℚ) [0, 3 / 10, 1] (7 / 10) ≤ max (nth ([0, 3 / 10, 1] : List ℚ) i) (nth [0, 3 / 10, 1] (i + 1)) :=
  plDesc_between [0, 3 / 10, 1] (strictDec_three (by norm_num) (by norm_num)) (by simp) (7 / 10)
    (by norm_num [nth]) (by norm_num [nth])

/-- A3: the reversed table gives the same value at 0.7 -/
example : plEval ([1, 1 / 2, 1 / 5] : List ℚ) [1, 3 / 10, 0] (7 / 10) = plEval [1 / 5, 1 / 2, 1] [0, 3 / 10, 1] (7 / 10) :=
  plEval_reverse (xs := ([1 / 5, 1 / 2, 1] : List ℚ)) (ys := [0, 3 / 10, 1])
    (strictInc_three (by norm_num) (by norm_num)) (by simp) rfl (7 / 10)

/-- A4: SWOF-like `krow(Sw)` vs. the SOF3-like table of the same curve -/
example (x : ℚ) : plEval (([0, 1 / 2, 4 / 5] : List ℚ).map (fun s => 1 - s)) [0, 3 / 10, 1] x
    = plEval [1 / 5, 1 / 2, 1] [1, 3 / 10, 0] x :=
  family_equiv_so (sw := ([1 / 5, 1 / 2, 1] : List ℚ)) (krow := [1, 3 / 10, 0])
    (strictInc_three (by norm_num) (by norm_num)) (by simp) rfl [0, 1 / 2, 4 / 5] [0, 3 / 10, 1]
    (by norm_num) rfl x

/-- A4: SGOF-like `krog` stored against `So = 0.8 - Sg` vs. the ascending-So table -/
example (x : ℚ) : plEval (([0, 3 / 10, 4 / 5] : List ℚ).map (fun g => 4 / 5 - g)).reverse [0, 2 / 10, 1] x
    = plEval (([0, 3 / 10, 4 / 5] : List ℚ).map (fun g => 4 / 5 - g)) [1, 2 / 10, 0] x :=
  family_equiv_sg (sg := ([0, 3 / 10, 4 / 5] : List ℚ)) (krog := [1, 2 / 10, 0]) (4 / 5)
    (strictInc_three (by norm_num) (by norm_num)) (by simp) rfl _ _ _ rfl rfl rfl x

/-- A5: `[0,1] ↦ [0,1]` refined at 1/2 -/
example (x : ℚ) : plAsc ([0, 1 / 2, 1] : List ℚ) [0, 1 / 2, 1] x = plAsc [0, 1] [0, 1] x :=
  plAsc_refine (xs := ([0, 1] : List ℚ)) (ys := [0, 1]) (strictInc_two (by norm_num)) rfl 0 (by simp)
    (1 / 2) (by norm_num [nth]) (by norm_num [nth]) _ _ rfl (by norm_num [evalSeg, nth]) x

/-- B1 -/
example : s2uThree (4 / 10 : ℚ) ⟨2 / 10, 4 / 10, 1⟩ ⟨3 / 10, 5 / 10, 9 / 10⟩
    ≤ s2uThree (6 / 10) ⟨2 / 10, 4 / 10, 1⟩ ⟨3 / 10, 5 / 10, 9 / 10⟩ :=
  threepoint_monotone ⟨2 / 10, 4 / 10, 1⟩ ⟨3 / 10, 5 / 10, 9 / 10⟩ (by norm_num) (by norm_num)
    (by norm_num) (by norm_num) (by norm_num)

/-- B2 -/
example : u2sThree (s2uThree (6 / 10 : ℚ) ⟨2 / 10, 4 / 10, 1⟩ ⟨3 / 10, 5 / 10, 9 / 10⟩)
    ⟨2 / 10, 4 / 10, 1⟩ ⟨3 / 10, 5 / 10, 9 / 10⟩ = 6 / 10 :=
  (threepoint_inverse ⟨2 / 10, 4 / 10, 1⟩ ⟨3 / 10, 5 / 10, 9 / 10⟩ (by norm_num) (by norm_num)
    (by norm_num) (by norm_num)).1 (6 / 10) (by norm_num) (by norm_num)

end OpmVerif.Eps

namespace OpmVerif.Hyst

/-- C1: drainage `1 - s`, imbibition `(1 - s)/2`, reversal at 0.5 (`delta = -0.5`, continuous) -/
example : krn (⟨fun s => 1 - s, fun s => (1 - s) / 2, fun y => 1 - 2 * y⟩ : Curves ℚ) ⟨1 / 2, -1 / 2⟩ (9 / 10)
    ≤ krn ⟨fun s => 1 - s, fun s => (1 - s) / 2, fun y => 1 - 2 * y⟩ ⟨1 / 2, -1 / 2⟩ (3 / 10) :=
  krn_antitone _ _ (by intro a b h; show 1 - b ≤ 1 - a; linarith)
    (by intro a b h; show (1 - b) / 2 ≤ (1 - a) / 2; linarith) (by norm_num) (by norm_num)

example : krn (⟨fun s => 1 - s, fun s => (1 - s) / 2, fun y => 1 - 2 * y⟩ : Curves ℚ) ⟨1 / 2, -1 / 2⟩ (9 / 10)
    ≤ krn ⟨fun s => 1 - s, fun s => (1 - s) / 2, fun y => 1 - 2 * y⟩ ⟨1 / 2, -1 / 2⟩ (6 / 10) :=
  scan_monotone _ _ (by intro a b h; show (1 - b) / 2 ≤ (1 - a) / 2; linarith) (by norm_num) (by norm_num)

end OpmVerif.Hyst

namespace OpmVerif.Killough

/-- `Sncrd = 0.05`, `Sncri = 0.2`, `Snmaxd = 0.8`, `KrndMax = krnD(1 - 0.8) = 0.8`, drainage
`1 - s`, imbibition the straight line from `(Sn = 0.2, 0)` to `(Sn = 0.8, 0.8)`. -/
def exStatic : Static ℚ :=
  { Sncrd := 1 / 20, Sncri := 1 / 5, Snmaxd := 4 / 5, KrndMax := 4 / 5, modParam := 0,
    krnD := fun s => 1 - s, krnI := fun s => 4 / 5 * ((1 - s) - 1 / 5) / (4 / 5 - 1 / 5) }

example : (run exStatic (1 / 1000000000000) (init exStatic (1 / 1000000000000) 2) [8 / 10, 5 / 10, 7 / 10]).mdc = 5 / 10 := by
  rw [killough_mdc_min_partial]; simp [init]; norm_num

example : krn exStatic (run exStatic (1 / 1000000000000) (init exStatic (1 / 1000000000000) 2) [8 / 10, 5 / 10]) (3 / 10)
    = exStatic.krnD (3 / 10) :=
  killough_drainage_until_reversal_partial _ _ _ _ _ (by norm_num [init])
    (by intro s hs; simp at hs; rcases hs with rfl | rfl <;> norm_num)

example : Consistent exStatic (1 / 1000000000000)
    (run exStatic (1 / 1000000000000) (init exStatic (1 / 1000000000000) 2) [8 / 10, 5 / 10, 7 / 10]) :=
  killough_consistent_after_partial _ _ 2 (8 / 10) (by norm_num) _

/-- reversal at `Sw = 0.5` with `Sncrt = 0.2` -/
example : scan exStatic ⟨1 / 2, 1 / 2, 1 / 5⟩ (1 / 2) = exStatic.krnD (1 / 2) :=
  (killough_scan_continuous_partial exStatic ⟨1 / 2, 1 / 2, 1 / 5⟩ (by norm_num [exStatic])
    (by norm_num) (by norm_num [exStatic]) (by norm_num [exStatic])).2.1

example : scan exStatic ⟨1 / 2, 1 / 2, 1 / 5⟩ (1 - 1 / 5) = 0 :=
  (killough_trapped_endpoint_partial exStatic ⟨1 / 2, 1 / 2, 1 / 5⟩).2.2.1 (by norm_num [exStatic])

example : exStatic.Sncrd < land exStatic (1 / 1000000000000) (1 / 2) ∧
    land exStatic (1 / 1000000000000) (1 / 2) ≤ 1 / 2 :=
  killough_land_bounds_partial exStatic _ (1 / 2) (by norm_num [exStatic]) (by norm_num [exStatic])
    (by norm_num [exStatic]) (by norm_num [exStatic]) (by norm_num [exStatic])

example : land exStatic (1 / 1000000000000) (4 / 5) = 1 / 5 + 1 / 1000000000000 :=
  killough_land_max_partial exStatic _ (by norm_num [exStatic]) (by norm_num [exStatic])

end OpmVerif.Killough
