/-
  C16 — algebraic part: the translated operators of every Evaluation class are the dual-number
  operations, over an arbitrary field.

  * `Exact ops`            : every operator of the operator set `ops` equals the textbook dual-number
                             rule (`Model/Dual.lean`) under the storage layout `toDual`.
  * `loop_exact`           : the generic loop form (Evaluation.hpp) is exact for EVERY n.
  * `dynamic_exact`        : so is DynamicEvaluation.hpp; `unrolled_exact_N` (N = 1..12) follow from
                             the per-slot obligations of `Proofs/DenseAdGen.lean`.
  * `mixed_eq_lifted`      : scalar (o) Evaluation = lifted all-Evaluation form, for any exact set.
  * `evalAD_exact`         : evaluating a rational expression tree with the translated operators on
                             unit-seeded variables yields the value and the formal gradient.
-/
import OpmVerif.Proofs.DenseAdGen
import Mathlib.Tactic.Ring
import Mathlib.Tactic.FieldSimp
import Mathlib.Algebra.Field.Basic

namespace OpmVerif.DenseAd
open Gen

theorem toDual_injective {n : Nat} {α : Type} {f g : Fin (n + 1) → α} (h : toDual f = toDual g) : f = g := by
  funext i
  have hv : f 0 = g 0 := congrArg Dual.val h
  have hg : ∀ j : Fin n, f j.succ = g j.succ := fun j => congrFun (congrArg Dual.grad h) j
  rcases Fin.eq_zero_or_eq_succ i with h0 | ⟨j, hj⟩
  · rw [h0]; exact hv
  · rw [hj]; exact hg j

section field
variable {K : Type} [Field K] {n : Nat}

/-- What "returns the exact value and the chain-rule derivatives" means for one operator set. -/
structure Exact (ops : ADOps K n) : Prop where
  add : ∀ a b, toDual (ops.add a b) = Dual.add (toDual a) (toDual b)
  sub : ∀ a b, toDual (ops.sub a b) = Dual.sub (toDual a) (toDual b)
  mul : ∀ a b, toDual (ops.mul a b) = Dual.mul (toDual a) (toDual b)
  div : ∀ a b, toDual (ops.div a b) = Dual.div (toDual a) (toDual b)
  neg : ∀ a, toDual (ops.neg a) = Dual.neg (toDual a)
  const : ∀ c, toDual (ops.const c) = Dual.const c
  varBase : ∀ c, toDual (ops.varBase c) = Dual.const c
  assign : ∀ a c, toDual (ops.assign a c) = Dual.const c
  clearDerivatives : ∀ a, toDual (ops.clearDerivatives a) = Dual.const (a 0)
  copyDerivatives : ∀ a b, toDual (ops.copyDerivatives a b) = ⟨a 0, (toDual b).grad⟩
  adds : ∀ a c, toDual (ops.adds a c) = Dual.add (toDual a) (Dual.const c)
  subs : ∀ a c, toDual (ops.subs a c) = Dual.sub (toDual a) (Dual.const c)
  muls : ∀ a c, toDual (ops.muls a c) = Dual.mul (toDual a) (Dual.const c)
  divs : ∀ a c, toDual (ops.divs a c) = Dual.div (toDual a) (Dual.const c)
  sadd : ∀ c a, toDual (ops.sadd c a) = Dual.add (Dual.const c) (toDual a)
  ssub : ∀ c a, toDual (ops.ssub c a) = Dual.sub (Dual.const c) (toDual a)
  smul : ∀ c a, toDual (ops.smul c a) = Dual.mul (Dual.const c) (toDual a)
  sdiv : ∀ c a, toDual (ops.sdiv c a) = Dual.div (Dual.const c) (toDual a)

macro "dual_ext" : tactic =>
  `(tactic| (apply Dual.ext' <;> (try intro j) <;>
      simp [L.ops, toDual, Dual.add, Dual.sub, Dual.mul, Dual.div, Dual.neg, Dual.const, Dual.chain,
        L.add, L.sub, L.mul, L.div, L.adds, L.subs, L.muls, L.divs, L.neg, L.assign, L.const,
        L.sadd, L.ssub, L.smul, L.sdiv, L.clearDerivatives, L.copyDerivatives, L.varBase] <;> try ring1))

theorem L_divs_dual (a : Fin (n + 1) → K) (c : K) :
    toDual ((L.ops : ADOps K n).divs a c) = Dual.div (toDual a) (Dual.const c) := by
  by_cases hc : c = 0
  · subst hc; dual_ext
  · dual_ext
    field_simp

/-- The generic loop form of Evaluation.hpp is exact for every number of derivatives. -/
theorem loop_exact : Exact (L.ops : ADOps K n) where
  add a b := by dual_ext
  sub a b := by dual_ext
  mul a b := by dual_ext
  div a b := by dual_ext
  neg a := by dual_ext
  const c := by dual_ext
  varBase c := by dual_ext
  assign a c := by dual_ext
  clearDerivatives a := by dual_ext
  copyDerivatives a b := by dual_ext
  adds a c := by dual_ext
  subs a c := by dual_ext
  muls a c := by dual_ext
  divs a c := L_divs_dual a c
  sadd c a := by dual_ext
  ssub c a := by dual_ext
  smul c a := by dual_ext
  sdiv c a := by dual_ext

theorem dynamic_exact : Exact (D.ops : ADOps K n) := by
  rw [GenProofs.D_ops_eq_loop_field]; exact loop_exact

theorem unrolled_exact_1 : Exact (U1.ops : ADOps K 1) := by rw [GenProofs.U1_ops_eq_loop_field]; exact loop_exact
theorem unrolled_exact_2 : Exact (U2.ops : ADOps K 2) := by rw [GenProofs.U2_ops_eq_loop_field]; exact loop_exact
theorem unrolled_exact_3 : Exact (U3.ops : ADOps K 3) := by rw [GenProofs.U3_ops_eq_loop_field]; exact loop_exact
theorem unrolled_exact_4 : Exact (U4.ops : ADOps K 4) := by rw [GenProofs.U4_ops_eq_loop_field]; exact loop_exact
theorem unrolled_exact_5 : Exact (U5.ops : ADOps K 5) := by rw [GenProofs.U5_ops_eq_loop_field]; exact loop_exact
theorem unrolled_exact_6 : Exact (U6.ops : ADOps K 6) := by rw [GenProofs.U6_ops_eq_loop_field]; exact loop_exact
theorem unrolled_exact_7 : Exact (U7.ops : ADOps K 7) := by rw [GenProofs.U7_ops_eq_loop_field]; exact loop_exact
theorem unrolled_exact_8 : Exact (U8.ops : ADOps K 8) := by rw [GenProofs.U8_ops_eq_loop_field]; exact loop_exact
theorem unrolled_exact_9 : Exact (U9.ops : ADOps K 9) := by rw [GenProofs.U9_ops_eq_loop_field]; exact loop_exact
theorem unrolled_exact_10 : Exact (U10.ops : ADOps K 10) := by rw [GenProofs.U10_ops_eq_loop_field]; exact loop_exact
theorem unrolled_exact_11 : Exact (U11.ops : ADOps K 11) := by rw [GenProofs.U11_ops_eq_loop_field]; exact loop_exact
theorem unrolled_exact_12 : Exact (U12.ops : ADOps K 12) := by rw [GenProofs.U12_ops_eq_loop_field]; exact loop_exact

/-- `Evaluation(c, varPos)` / `createVariable`: the `varPos`-th independent variable. -/
theorem var_dual {ops : ADOps K n} (hx : Exact ops) (c : K) (k : Fin n) :
    toDual (setOneHot (ops.varBase c) k.val) = Dual.var c k := by
  have hb := hx.varBase c
  have hv : ops.varBase c 0 = c := congrArg Dual.val hb
  have hg : ∀ j : Fin n, ops.varBase c j.succ = 0 := fun j => congrFun (congrArg Dual.grad hb) j
  apply Dual.ext'
  · simp [toDual, setOneHot, Dual.var, hv]
  · intro j
    simp only [toDual, setOneHot, Dual.var, Fin.val_succ, Nat.add_right_cancel_iff, hg j]
    by_cases h : j = k
    · subst h; simp
    · have : ¬ (j.val = k.val) := fun e => h (Fin.ext e)
      simp [h, this]

/-- Mixed scalar/Evaluation operations are the all-Evaluation operations applied to the lifted
constant, for every exact operator set (as functions, not only up to layout). -/
theorem mixed_eq_lifted {ops : ADOps K n} (hx : Exact ops) :
    (∀ a c, ops.adds a c = ops.add a (ops.const c)) ∧ (∀ a c, ops.subs a c = ops.sub a (ops.const c)) ∧
    (∀ a c, ops.muls a c = ops.mul a (ops.const c)) ∧ (∀ a c, ops.divs a c = ops.div a (ops.const c)) ∧
    (∀ c a, ops.sadd c a = ops.add (ops.const c) a) ∧ (∀ c a, ops.ssub c a = ops.sub (ops.const c) a) ∧
    (∀ c a, ops.smul c a = ops.mul (ops.const c) a) ∧ (∀ c a, ops.sdiv c a = ops.div (ops.const c) a) := by
  refine ⟨?_, ?_, ?_, ?_, ?_, ?_, ?_, ?_⟩ <;> intro x y <;> apply toDual_injective
  · rw [hx.adds, hx.add, hx.const]
  · rw [hx.subs, hx.sub, hx.const]
  · rw [hx.muls, hx.mul, hx.const]
  · rw [hx.divs, hx.div, hx.const]
  · rw [hx.sadd, hx.add, hx.const]
  · rw [hx.ssub, hx.sub, hx.const]
  · rw [hx.smul, hx.mul, hx.const]
  · rw [hx.sdiv, hx.div, hx.const]

/-! ### Rational expression trees: value and formal gradient -/

/-- expression trees over + - * / and unary minus with `n` independent variables -/
inductive RExpr (K : Type) (n : Nat) where
  | var (j : Fin n)
  | const (c : K)
  | add (e f : RExpr K n)
  | sub (e f : RExpr K n)
  | mul (e f : RExpr K n)
  | div (e f : RExpr K n)
  | neg (e : RExpr K n)

namespace RExpr
/-- the function denoted by the tree -/
def eval : RExpr K n → (Fin n → K) → K
  | var j, x => x j
  | const c, _ => c
  | add e f, x => eval e x + eval f x
  | sub e f, x => eval e x - eval f x
  | mul e f, x => eval e x * eval f x
  | div e f, x => eval e x / eval f x
  | neg e, x => - eval e x

/-- formal partial derivatives (sum, product and quotient rules) -/
def grad : RExpr K n → (Fin n → K) → Fin n → K
  | var j, _ => fun k => if k = j then 1 else 0
  | const _, _ => fun _ => 0
  | add e f, x => fun k => grad e x k + grad f x k
  | sub e f, x => fun k => grad e x k - grad f x k
  | mul e f, x => fun k => grad e x k * eval f x + eval e x * grad f x k
  | div e f, x => fun k => (grad e x k * eval f x - eval e x * grad f x k) / (eval f x * eval f x)
  | neg e, x => fun k => - grad e x k

/-- the same tree evaluated with the operators of an Evaluation class on unit-seeded variables -/
def evalAD (ops : ADOps K n) : RExpr K n → (Fin n → K) → Fin (n + 1) → K
  | var j, x => setOneHot (ops.varBase (x j)) j.val
  | const c, _ => ops.const c
  | add e f, x => ops.add (evalAD ops e x) (evalAD ops f x)
  | sub e f, x => ops.sub (evalAD ops e x) (evalAD ops f x)
  | mul e f, x => ops.mul (evalAD ops e x) (evalAD ops f x)
  | div e f, x => ops.div (evalAD ops e x) (evalAD ops f x)
  | neg e, x => ops.neg (evalAD ops e x)
end RExpr

/-- For every expression tree (any depth) and every exact operator set, the Evaluation computed by
the translated code holds the value of the expression and its formal gradient. -/
theorem evalAD_exact {ops : ADOps K n} (hx : Exact ops) (e : RExpr K n) (x : Fin n → K) :
    toDual (RExpr.evalAD ops e x) = ⟨RExpr.eval e x, RExpr.grad e x⟩ := by
  induction e with
  | var j => rw [RExpr.evalAD, var_dual hx]; rfl
  | const c => rw [RExpr.evalAD, hx.const]; rfl
  | add e f ihe ihf => rw [RExpr.evalAD, hx.add, ihe, ihf]; rfl
  | sub e f ihe ihf => rw [RExpr.evalAD, hx.sub, ihe, ihf]; rfl
  | mul e f ihe ihf => rw [RExpr.evalAD, hx.mul, ihe, ihf]; rfl
  | div e f ihe ihf => rw [RExpr.evalAD, hx.div, ihe, ihf]; rfl
  | neg e ihe => rw [RExpr.evalAD, hx.neg, ihe]; rfl

end field

end OpmVerif.DenseAd
