/-
  Lemmas about the UDQ evaluation model (`Model/UdqEval.lean`, `Model/UdqHist.lean`); they hold
  for every number type `α` and every operation record `F`.
-/
import OpmVerif.Model.UdqEval
import OpmVerif.Model.UdqHist

namespace OpmVerif.Udq
open OpmVerif.Gen.UdqEnums

variable {α : Type}

/-! ### element-wise arithmetic, definedness -/

theorem opt2_some (F : Fns α) (f : α → α → α) (a b : α) :
    opt2 F f (some a) (some b) = if F.isFinite (f a b) then some (f a b) else none := rfl

theorem opt2_none_left (F : Fns α) (f : α → α → α) (b : Option α) : opt2 F f none b = none := by
  cases b <;> rfl

theorem opt2_none_right (F : Fns α) (f : α → α → α) (a : Option α) : opt2 F f a none = none := by
  cases a <;> rfl

theorem zipVals_eq_zipWith (g : Option α → Option α → Option α) :
    ∀ (as bs : List (String × Option α)),
      zipVals g as bs = List.zipWith (fun a b => (a.1, g a.2 b.2)) as bs
  | [], _ => by simp [zipVals]
  | _ :: _, [] => by simp [zipVals]
  | (n, a) :: as, (m, b) :: bs => by simp [zipVals, zipVals_eq_zipWith g as bs]

theorem zipVals_length (g : Option α → Option α → Option α) (as bs : List (String × Option α))
    (h : as.length = bs.length) : (zipVals g as bs).length = as.length := by
  rw [zipVals_eq_zipWith]; simp [h]

/-- value at position `i` of an element-wise combination -/
theorem zipVals_getElem? (g : Option α → Option α → Option α) (as bs : List (String × Option α)) (i : Nat)
    (a b : String × Option α) (ha : as[i]? = some a) (hb : bs[i]? = some b) :
    (zipVals g as bs)[i]? = some (a.1, g a.2 b.2) := by
  rw [zipVals_eq_zipWith]
  simp [List.getElem?_zipWith, ha, hb]

theorem udqCast_same (F : Fns α) (l r : USet α) (h : l.vt = r.vt) : udqCast F l r = .ok (l, r) := by
  simp [udqCast, h]

/-- two sets of the same kind and size: the result is element-wise, same names, same kind -/
theorem arith_elementwise (F : Fns α) (f : α → α → α) (l r : USet α)
    (hvt : l.vt = r.vt) (hlen : l.vals.length = r.vals.length) :
    arith F f l r = .ok ⟨l.vt, List.zipWith (fun a b => (a.1, opt2 F f a.2 b.2)) l.vals r.vals⟩ := by
  simp [arith, udqCast_same F l r hvt, hlen, zipVals_eq_zipWith]

theorem fill_vals_length (F : Fns α) (vt : VT) (names : List String) (x : α) :
    (USet.fill F vt names x).vals.length = names.length := by simp [USet.fill]

/-- scalar ⊕ set = (the scalar copied to every element of the set) ⊕ set -/
theorem arith_broadcast_left (F : Fns α) (f : α → α → α) (n : String) (x : α) (rest : List (String × Option α))
    (vt : VT) (hs : vt = .scalar ∨ vt = .field) (r : USet α) (hr : r.vt = .well ∨ r.vt = .group) :
    arith F f ⟨vt, (n, some x) :: rest⟩ r = arith F f (USet.fill F r.vt (r.vals.map (·.1)) x) r := by
  have h1 : (⟨vt, (n, some x) :: rest⟩ : USet α).vt ≠ r.vt := by
    rcases hs with hs | hs <;> rcases hr with hr | hr <;> simp [hs, hr]
  have h2 : r.isScalar = false := by rcases hr with hr | hr <;> simp [USet.isScalar, hr]
  have h3 : (⟨vt, (n, some x) :: rest⟩ : USet α).isScalar = true := by
    rcases hs with hs | hs <;> simp [USet.isScalar, hs]
  have hc : udqCast F ⟨vt, (n, some x) :: rest⟩ r = .ok (USet.fill F r.vt (r.vals.map (·.1)) x, r) := by
    unfold udqCast
    simp only [h1, h2, h3, false_or, Bool.false_eq_true, and_false, if_false, true_and, hr, if_true]
  have hc2 : udqCast F (USet.fill F r.vt (r.vals.map (·.1)) x) r = .ok (USet.fill F r.vt (r.vals.map (·.1)) x, r) :=
    udqCast_same F _ r rfl
  simp only [arith, hc, hc2]

theorem arith_broadcast_right (F : Fns α) (f : α → α → α) (n : String) (x : α) (rest : List (String × Option α))
    (vt : VT) (hs : vt = .scalar ∨ vt = .field) (l : USet α) (hl : l.vt = .well ∨ l.vt = .group) :
    arith F f l ⟨vt, (n, some x) :: rest⟩ = arith F f l (USet.fill F l.vt (l.vals.map (·.1)) x) := by
  have h1 : l.vt ≠ (⟨vt, (n, some x) :: rest⟩ : USet α).vt := by
    rcases hs with hs | hs <;> rcases hl with hl | hl <;> simp [hs, hl]
  have h2 : l.isScalar = false := by rcases hl with hl | hl <;> simp [USet.isScalar, hl]
  have h3 : (⟨vt, (n, some x) :: rest⟩ : USet α).isScalar = true := by
    rcases hs with hs | hs <;> simp [USet.isScalar, hs]
  have hc : udqCast F l ⟨vt, (n, some x) :: rest⟩ = .ok (l, USet.fill F l.vt (l.vals.map (·.1)) x) := by
    unfold udqCast
    simp only [h1, h2, h3, false_or, Bool.false_eq_true, false_and, and_false, if_false, true_and, hl, if_true]
  have hc2 : udqCast F l (USet.fill F l.vt (l.vals.map (·.1)) x) = .ok (l, USet.fill F l.vt (l.vals.map (·.1)) x) :=
    udqCast_same F l _ rfl
  simp only [arith, hc, hc2]

/-- an undefined scalar cannot be broadcast: the code throws -/
theorem arith_broadcast_undefined (F : Fns α) (f : α → α → α) (n : String) (rest : List (String × Option α))
    (r : USet α) (hr : r.vt = .well ∨ r.vt = .group) :
    arith F f ⟨.scalar, (n, none) :: rest⟩ r = .error () := by
  rcases hr with hr | hr <;> simp [arith, udqCast, USet.isScalar, hr]

/-! ### reductions over the defined elements -/

theorem definedValues_eq (u : USet α) : definedValues u = u.vals.filterMap (·.2) := rfl

theorem scalarFn_empty (F : Fns α) (t : TT) (u : USet α) (h : definedValues u = []) :
    scalarFn F t u = .ok USet.empty := by simp [scalarFn, h]

theorem scalarFn_sum (F : Fns α) (u : USet α) (x : α) (xs : List α) (h : definedValues u = x :: xs) :
    scalarFn F .scalar_func_sum u = .ok (USet.scalar F (some ((x :: xs).foldl F.add (F.ofNat 0)))) := by
  simp [scalarFn, h, reduceVal, sumL]

theorem scalarFn_prod (F : Fns α) (u : USet α) (x : α) (xs : List α) (h : definedValues u = x :: xs) :
    scalarFn F .scalar_func_prod u = .ok (USet.scalar F (some ((x :: xs).foldl F.mul (F.ofNat 1)))) := by
  simp [scalarFn, h, reduceVal, prodL]

theorem scalarFn_avea (F : Fns α) (u : USet α) (x : α) (xs : List α) (h : definedValues u = x :: xs) :
    scalarFn F .scalar_func_avea u
      = .ok (USet.scalar F (some (F.div ((x :: xs).foldl F.add (F.ofNat 0)) (F.ofNat (xs.length + 1))))) := by
  simp [scalarFn, h, reduceVal, aveaL, sumL]

theorem scalarFn_norm1 (F : Fns α) (u : USet α) (x : α) (xs : List α) (h : definedValues u = x :: xs) :
    scalarFn F .scalar_func_norm1 u
      = .ok (USet.scalar F (some ((x :: xs).foldl (fun s y => F.add s (F.abs y)) (F.ofNat 0)))) := by
  simp [scalarFn, h, reduceVal, norm1L]

theorem scalarFn_norm2 (F : Fns α) (u : USet α) (x : α) (xs : List α) (h : definedValues u = x :: xs) :
    scalarFn F .scalar_func_norm2 u
      = .ok (USet.scalar F (some (F.sqrt ((x :: xs).foldl (fun s y => F.add s (F.mul y y)) (F.ofNat 0))))) := by
  simp [scalarFn, h, reduceVal, norm2L]

/-- `MAX` is an element of the defined values and no defined value is above it (for any strict
order `lt` that is irreflexive and transitive with total incomparability, as `<` on finite doubles) -/
theorem maxElem_mem (F : Fns α) : ∀ (m : α) (xs : List α), maxElem F m xs = m ∨ maxElem F m xs ∈ xs
  | m, [] => Or.inl rfl
  | m, x :: xs => by
    simp only [maxElem]
    rcases maxElem_mem F (if F.lt m x then x else m) xs with h | h
    · by_cases hl : F.lt m x = true
      · simp [hl] at h ⊢; exact Or.inr (Or.inl h)
      · simp [hl] at h ⊢; exact Or.inl h
    · exact Or.inr (List.mem_cons_of_mem _ h)

theorem minElem_mem (F : Fns α) : ∀ (m : α) (xs : List α), minElem F m xs = m ∨ minElem F m xs ∈ xs
  | m, [] => Or.inl rfl
  | m, x :: xs => by
    simp only [minElem]
    rcases minElem_mem F (if F.lt x m then x else m) xs with h | h
    · by_cases hl : F.lt x m = true
      · simp [hl] at h ⊢; exact Or.inr (Or.inl h)
      · simp [hl] at h ⊢; exact Or.inl h
    · exact Or.inr (List.mem_cons_of_mem _ h)

/-! ### elemental functions keep names, size and undefinedness -/

theorem mapDefined_vals (f : α → Option α) (u : USet α) :
    (mapDefined f u).vals = u.vals.map fun p => (p.1, p.2.bind f) := rfl

theorem elemFn_abs (F : Fns α) (u : USet α) :
    elemFn F .elemental_func_abs u = .ok ⟨u.vt, u.vals.map fun p => (p.1, p.2.bind fun x => fin F (F.abs x))⟩ := rfl

/-- `^` on sets: the same cast, element-wise shape and undefined propagation as `* / + -` -/
theorem powSet_eq_arith (F : Fns α) (l r : USet α) : powSet F l r = arith F F.pow l r := rfl

end OpmVerif.Udq

namespace OpmVerif.Udq.Hist
variable {α : Type}

/-! ### ASSIGN / DEFINE / UPDATE: the last record of a quantity decides -/

theorem find?_modify_self (qs : List (Q α)) (n : String) (f : Q α → Q α) (hf : ∀ q, (f q).name = q.name)
    (q : Q α) (h : find? qs n = some q) : find? (modify qs n f) n = some (f q) := by
  induction qs with
  | nil => exact absurd h (by simp [find?])
  | cons a as ih =>
    unfold find? modify at *
    by_cases ha : a.name = n
    · have h1 : decide (a.name = n) = true := by simp [ha]
      rw [List.find?_cons_of_pos (l := as) h1] at h
      have h2 : decide ((if a.name = n then f a else a).name = n) = true := by simp [ha, hf]
      rw [List.map_cons, List.find?_cons_of_pos (p := fun x : Q α => decide (x.name = n)) (l := List.map _ as) h2]
      simp only [ha, if_true]
      cases h; rfl
    · have h1 : ¬ (decide (a.name = n) = true) := by simp [ha]
      rw [List.find?_cons_of_neg (l := as) h1] at h
      have h2 : ¬ (decide ((if a.name = n then f a else a).name = n) = true) := by simp [ha]
      rw [List.map_cons, List.find?_cons_of_neg (p := fun x : Q α => decide (x.name = n)) (l := List.map _ as) h2]
      exact ih h

theorem find?_append_new (qs : List (Q α)) (n : String) (q : Q α) (hq : q.name = n) (h : find? qs n = none) :
    find? (qs ++ [q]) n = some q := by
  unfold find? at *
  rw [List.find?_append, h]
  simp [hq]

/-- after an ASSIGN record the quantity is an assignment with that value and is pending -/
theorem applyEvent_assign (c : Cfg α) (n : String) (v : α) :
    ∃ c' q, applyEvent c (.assign n v) = some c' ∧ find? c'.qs n = some q ∧
      q.action = .assign ∧ q.assignVal = some v ∧ n ∈ c'.pending := by
  cases h : find? c.qs n with
  | none =>
    refine ⟨{ qs := c.qs ++ [⟨n, .assign, some v, none⟩], pending := n :: c.pending }, ⟨n, .assign, some v, none⟩, ?_, ?_, rfl, rfl, ?_⟩
    · simp [applyEvent, h]
    · exact find?_append_new c.qs n _ rfl h
    · exact List.mem_cons_self
  | some q0 =>
    refine ⟨{ qs := modify c.qs n fun q => { q with action := .assign, assignVal := some v }, pending := n :: c.pending },
      { q0 with action := .assign, assignVal := some v }, ?_, ?_, rfl, rfl, ?_⟩
    · simp [applyEvent, h]
    · exact find?_modify_self c.qs n (fun q => { q with action := .assign, assignVal := some v }) (fun _ => rfl) q0 h
    · exact List.mem_cons_self

/-- after a DEFINE record the quantity is a definition with status ON -/
theorem applyEvent_define (c : Cfg α) (n : String) (e : Expr α) :
    ∃ c' q, applyEvent c (.define n e) = some c' ∧ find? c'.qs n = some q ∧
      q.action = .define ∧ q.defn = some (e, .on) := by
  cases h : find? c.qs n with
  | none =>
    refine ⟨{ c with qs := c.qs ++ [⟨n, .define, none, some (e, .on)⟩] }, ⟨n, .define, none, some (e, .on)⟩, ?_, ?_, rfl, rfl⟩
    · simp [applyEvent, h]
    · exact find?_append_new c.qs n _ rfl h
  | some q0 =>
    refine ⟨{ c with qs := modify c.qs n fun q => { q with action := .define, defn := some (e, .on) } },
      { q0 with action := .define, defn := some (e, .on) }, ?_, ?_, rfl, rfl⟩
    · simp [applyEvent, h]
    · exact find?_modify_self c.qs n (fun q => { q with action := .define, defn := some (e, .on) }) (fun _ => rfl) q0 h

theorem lookup_filter_ne (vs : Vals α) (n : String) : List.lookup n (vs.filter (·.1 ≠ n)) = none := by
  induction vs with
  | nil => rfl
  | cons a as ih =>
    by_cases h : a.1 = n
    · have : decide (a.1 ≠ n) = false := by simp [h]
      rw [List.filter_cons, this]; exact ih
    · have h1 : decide (a.1 ≠ n) = true := by simp [h]
      have h2 : (n == a.1) = false := by rw [beq_eq_false_iff_ne]; exact fun h' => h h'.symm
      rw [List.filter_cons, h1]
      obtain ⟨k, v⟩ := a
      simp only [if_true, List.lookup_cons, h2]
      exact ih

theorem lookup_filter_other (vs : Vals α) (n m : String) (hm : m ≠ n) :
    List.lookup m (vs.filter (·.1 ≠ n)) = List.lookup m vs := by
  induction vs with
  | nil => rfl
  | cons a as ih =>
    obtain ⟨k, v⟩ := a
    by_cases h : k = n
    · have h0 : decide ((k, v).1 ≠ n) = false := by simp [h]
      have h2 : (m == k) = false := by rw [beq_eq_false_iff_ne, h]; exact hm
      rw [List.filter_cons, h0]
      simp only [Bool.false_eq_true, if_false, List.lookup_cons, h2]
      exact ih
    · have h1 : decide ((k, v).1 ≠ n) = true := by simp [h]
      rw [List.filter_cons, h1]
      simp only [if_true, List.lookup_cons]
      cases m == k
      · exact ih
      · rfl

theorem getVal_setVal_self (vs : Vals α) (n : String) (v : Option α) : getVal (setVal vs n v) n = v := by
  cases v with
  | none => exact lookup_filter_ne vs n
  | some x => simp [setVal, getVal, List.lookup_cons]

theorem getVal_setVal_other (vs : Vals α) (n m : String) (v : Option α) (h : m ≠ n) :
    getVal (setVal vs n v) m = getVal vs m := by
  cases v with
  | none => exact lookup_filter_other vs n m h
  | some x =>
    have : (m == n) = false := by rw [beq_eq_false_iff_ne]; exact h
    simp only [setVal, getVal, List.lookup_cons, this]
    exact lookup_filter_other vs n m h

/-- `eval_define` never touches a quantity that is not in the list it walks -/
theorem evalDefine_other (plus : Option α → Option α → Option α) (fin : α → Option α) (m : String) :
    ∀ (qs : List (Q α)) (vs : Vals α), (∀ q ∈ qs, q.name ≠ m) →
      getVal (evalDefine plus fin qs vs).2 m = getVal vs m
  | [], vs, _ => rfl
  | q :: qs, vs, h => by
    have hq : q.name ≠ m := h q List.mem_cons_self
    have hr : ∀ q' ∈ qs, q'.name ≠ m := fun q' hq' => h q' (List.mem_cons_of_mem _ hq')
    unfold evalDefine
    split
    · rename_i e st _ _
      by_cases hst : st = .off
      · simp only [hst, if_true]; exact evalDefine_other plus fin m qs vs hr
      · simp only [hst, if_false]
        rw [evalDefine_other plus fin m qs _ hr, getVal_setVal_other _ _ _ _ (Ne.symm hq)]
    · exact evalDefine_other plus fin m qs vs hr

/-- A quantity whose last record is an ASSIGN (or whose DEFINE is switched OFF) keeps its value in
`eval_define`; one whose last record is a DEFINE with status ON/NEXT gets the value of its
expression in the state reached when its turn comes (input order), provided names are unique
further down the list. -/
theorem evalDefine_head_define (plus : Option α → Option α → Option α) (fin : α → Option α)
    (q : Q α) (qs : List (Q α)) (vs : Vals α) (e : Expr α) (st : Upd)
    (ha : q.action = .define) (hd : q.defn = some (e, st)) (hst : st ≠ .off)
    (huniq : ∀ q' ∈ qs, q'.name ≠ q.name) :
    getVal (evalDefine plus fin (q :: qs) vs).2 q.name = evalExpr plus fin vs e := by
  unfold evalDefine
  simp only [ha, hd, hst, if_false]
  rw [evalDefine_other plus fin q.name qs _ huniq, getVal_setVal_self]

theorem evalDefine_head_keep (plus : Option α → Option α → Option α) (fin : α → Option α)
    (q : Q α) (qs : List (Q α)) (vs : Vals α)
    (h : q.action = .assign ∨ (∃ e, q.defn = some (e, .off)) ∨ q.defn = none)
    (huniq : ∀ q' ∈ qs, q'.name ≠ q.name) :
    getVal (evalDefine plus fin (q :: qs) vs).2 q.name = getVal vs q.name := by
  unfold evalDefine
  rcases h with h | ⟨e, h⟩ | h
  · simp only [h]; exact evalDefine_other plus fin q.name qs vs huniq
  · cases ha : q.action with
    | assign => simp only []; exact evalDefine_other plus fin q.name qs vs huniq
    | define => simp only [h, if_true]; exact evalDefine_other plus fin q.name qs vs huniq
  · cases ha : q.action with
    | assign => simp only []; exact evalDefine_other plus fin q.name qs vs huniq
    | define => simp only [h]; exact evalDefine_other plus fin q.name qs vs huniq

/-- NEXT falls back to OFF after one evaluation -/
theorem evalDefine_next_off (plus : Option α → Option α → Option α) (fin : α → Option α)
    (q : Q α) (qs : List (Q α)) (vs : Vals α) (e : Expr α)
    (ha : q.action = .define) (hd : q.defn = some (e, .next)) :
    ((evalDefine plus fin (q :: qs) vs).1.head?.map (·.defn)) = some (some (e, .off)) := by
  unfold evalDefine
  simp [ha, hd]

end OpmVerif.Udq.Hist
