/-
  Theorems about the generated slot tables (Gen/RstSlots.lean) and the encode/decode semantics
  (Model/RstSlot.lean).  Table facts are closed by `decide +kernel`, so they are re-proved against
  the tables regenerated from the C++ sources on every run; the semantic facts are proved once for
  every field, every unit system with reciprocal factors, every narrowing function.
-/
import OpmVerif.Gen.RstSlots
import OpmVerif.Proofs.RstWindow
import OpmVerif.Model.RstLayout
import Mathlib.Tactic.Ring
import Mathlib.Algebra.Field.Basic

namespace OpmVerif.RstSlot
open OpmVerif.Gen.RstSlots

/-! ## Table facts -/

def enumOf (q : String) : List (String × Int) := (enums.lookup q).getD []

/-- The enums that index the seven well/connection arrays. -/
def indexEnums : List String :=
  ["IWell.index", "SWell.index", "XWell.index", "ZWell.index", "IConn.index", "SConn.index", "XConn.index"]

def nsOfArr (arr : String) : String :=
  if arr = "IWEL" then "IWell" else if arr = "SWEL" then "SWell" else if arr = "XWEL" then "XWell"
  else if arr = "ZWEL" then "ZWell" else if arr = "ICON" then "IConn" else if arr = "SCON" then "SConn"
  else if arr = "XCON" then "XConn" else "?"

def windowSize (arr : String) (nt : Nat) : Nat :=
  if arr = "IWEL" then sizeNIWELZ nt else if arr = "SWEL" then sizeNSWELZ nt else if arr = "XWEL" then sizeNXWELZ nt
  else if arr = "ZWEL" then sizeNZWELZ nt else if arr = "ICON" then sizeNICONZ nt else if arr = "SCON" then sizeNSCONZ nt
  else if arr = "XCON" then sizeNXCONZ nt else 0

/-- In each index enum no two enumerators share a value: two differently named slots never alias. -/
theorem index_enums_injective : ∀ q ∈ indexEnums, ((enumOf q).map (·.2)).Nodup := by decide +kernel

/-- Every enum that maps C++ cases to restart integers assigns distinct integers to distinct cases. -/
theorem enc_tables_injective : ∀ t ∈ encTables, (t.2.map (·.2)).Nodup := by decide +kernel

/-- Named writer entries use the index the enum gives to their slot name, below the window size
that CreateInteHead.cpp announces without tracers. -/
theorem writer_slots_in_window :
    ∀ e ∈ writer, e.cls = "named" →
      (enumOf (nsOfArr e.arr ++ ".index")).lookup e.slot = some e.idx ∧ 0 ≤ e.idx ∧ e.idx.toNat < windowSize e.arr 0 := by
  decide +kernel

theorem reader_slots_in_window :
    ∀ e ∈ reader ++ loader, 0 ≤ e.idx → e.idx.toNat < windowSize e.arr 0 := by decide +kernel

/-- Window sizes only grow with the number of water tracers. -/
theorem window_size_mono (arr : String) (nt : Nat) : windowSize arr 0 ≤ windowSize arr nt := by
  unfold windowSize sizeNIWELZ sizeNSWELZ sizeNXWELZ sizeNZWELZ sizeNICONZ sizeNSCONZ sizeNXCONZ
  repeat' split
  all_goals omega

/-- Every pinned (enum, name) still has its pinned number in the regenerated tables: the file layout
other readers rely on has not moved. -/
theorem layout_pinned :
    ∀ q ∈ RstLayout.pinned, ∀ nv ∈ q.2, (enumOf q.1).lookup nv.1 = some nv.2 := by decide +kernel

/-- Fields whose reader shape is *not* the inverse of the writer shape in the table, with the reason. -/
def declaredExceptions : List (String × String) :=
  [("well.wtest_remaining", "the +1 is applied inside WellTestState::restart_well (num_test = conf.num_test + 1 - attempts)")]

def pairCls (p : WEntry × REntry) : Cls := classify (arrTy p.2.arr) p.1.rpre p.2.post

/-- RstWell / RstConnection: every (writer entry, reader entry) pair on one array element is in one
of the compatible classes, except the declared exceptions — and those really are mismatches. -/
theorem reader_pairs_classified :
    ∀ p ∈ pairs writer reader,
      (pairCls p ≠ .mismatch ∧ (declaredExceptions.lookup p.2.field).isNone) ∨
      (pairCls p = .mismatch ∧ (declaredExceptions.lookup p.2.field).isSome) := by decide +kernel

/-- LoadRestart.cpp (data::Wells, cumulatives): same statement, no exception. -/
theorem loader_pairs_classified : ∀ p ∈ pairs writer loader, pairCls p ≠ .mismatch := by decide +kernel

/-- Every reader field with a stated meaning receives only the summary vectors of that meaning (a slot
swapped on one side only — e.g. `xw.bhp` read from the THP item — breaks this). -/
theorem field_meanings :
    ∀ p ∈ pairs writer (reader ++ loader), ∀ allowed, fieldMeaning.lookup p.2.field = some allowed →
      ∀ k ∈ p.1.rpre.core.smryKeys, k ∈ allowed := by decide +kernel

/-- … and each such field is indeed fed by a writer entry. -/
theorem field_meanings_fed :
    ∀ fm ∈ fieldMeaning, ∃ p ∈ pairs writer (reader ++ loader), p.2.field = fm.1 ∧ p.1.rpre.core.smryKeys ≠ [] := by
  decide +kernel

/-- Every declared exception occurs (the list cannot go stale). -/
theorem exceptions_all_occur :
    ∀ x ∈ declaredExceptions, ∃ p ∈ pairs writer reader, p.2.field = x.1 ∧ pairCls p = .mismatch := by
  decide +kernel

/-- Every recognised reader field except three (all-constant / derived writers) is paired with a writer entry. -/
def unpairedReaderFields : List String :=
  (reader.filter fun r => !r.post.isOpaque && decide (0 ≤ r.idx) && (pairs writer [r]).isEmpty).map (·.field)

theorem unpaired_reader_fields :
    unpairedReaderFields = ["well.prevent_thpctrl_if_unstable", "well.liquid_rate", "well.gas_fvf"] := by
  decide +kernel

/-- Connection direction: `static_cast<int>(conn.dir())` followed by `from_int<Direction>` is the identity
on every enumerator of `Connection::Direction`. -/
theorem conn_dir_roundtrip :
    ∀ nv ∈ (connEnums.lookup "Direction").getD [],
      ((decTables.lookup "from_int<Connection::Direction>").getD []).lookup nv.2 = some nv.1 := by decide +kernel

/-- Connection state: the writer stores 1 for OPEN and 0 otherwise; the reader maps 1 to OPEN and
everything else to SHUT. -/
theorem conn_state_roundtrip :
    (decEq.lookup "from_int<Connection::State>") = some (1, "OPEN", "SHUT") ∧
    (writer.filter fun e => e.arr = "ICON" ∧ e.slot = "ConnStat").map (·.pre) = [.sel 1 0] := by decide +kernel

/-! ## Semantics: integers -/

theorem encI_core (p : Pre) (x : Int) : encI p x = encI p.core x := by
  induction p with
  | cond inner d t ih => simp [encI, Pre.core, ih]
  | _ => rfl

/-- Source values admissible for a shape: Booleans are 0/1. -/
def validSrcI (p : Pre) (x : Int) : Prop :=
  match p.core with
  | .sel _ _ => x = 0 ∨ x = 1
  | _ => True

/-- INTE arrays: for every pair classified `exact`, decoding the stored integer gives back the source
value — exactly, for every integer. -/
theorem int_roundtrip (pre : Pre) (post : Post) (h : classify "int" pre post = .exact)
    (x : Int) (hx : validSrcI pre x) :
    (encI pre x).bind (decI post) = some x := by
  unfold classify at h
  simp only [if_true] at h
  rw [encI_core]
  unfold validSrcI at hx
  generalize pre.core = c at h hx
  cases c <;> cases post <;> simp [classifyI] at h
  all_goals (try (split at h <;> simp at h))
  all_goals simp [encI, decI]
  case sel.eqInt a b v =>
    obtain ⟨h1, h2⟩ := h
    subst h1
    rcases hx with hx | hx <;> subst hx <;> simp [h2]

/-- INTE arrays, `flag` class: the reader keeps the integer; distinct source values give distinct integers. -/
theorem int_flag_injective (a b : Int) (h : classify "int" (.sel a b) .id = .flag) :
    encI (.sel a b) 0 ≠ encI (.sel a b) 1 := by
  unfold classify at h
  simp [Pre.core, classifyI] at h
  simp [encI]
  exact fun hba => h hba.symm

/-! ## Semantics: reals, over an arbitrary field -/

section Real
variable {F : Type} [Field F]

/-- The field operations; `narrow` and `isSentinel` stay parameters. -/
def fieldOps (narrow : F → F) (isSentinel : F → Bool) : Ops F :=
  { add := (· + ·), sub := (· - ·), mul := (· * ·), neg := (- ·), ofInt := fun k => (k : F),
    narrow := narrow, isSentinel := isSentinel }

/-- What C02 establishes for the unit tables: reciprocal factors, and `identity` converts nothing. -/
structure UnitSys.Good (u : UnitSys F) : Prop where
  recip : ∀ m, u.fto m * u.ffrom m = 1
  id_from : u.ffrom "identity" = 1
  id_to : u.fto "identity" = 1
  id_off : u.off "identity" = 0

variable (narrow : F → F) (isSentinel : F → Bool) (u : UnitSys F)

@[simp] theorem fieldOps_narrow : (fieldOps narrow isSentinel).narrow = narrow := rfl
@[simp] theorem fieldOps_isSentinel : (fieldOps narrow isSentinel).isSentinel = isSentinel := rfl

theorem toSI_fromSI (hu : u.Good) (m : String) (x : F) :
    toSI (fieldOps narrow isSentinel) u m (fromSI (fieldOps narrow isSentinel) u m x) = x := by
  simp only [toSI, fromSI, fieldOps]
  rw [← mul_assoc, hu.recip]; ring

theorem fromSI_toSI (hu : u.Good) (m : String) (y : F) :
    fromSI (fieldOps narrow isSentinel) u m (toSI (fieldOps narrow isSentinel) u m y) = y := by
  simp only [toSI, fromSI, fieldOps]
  have h := hu.recip m
  have : u.ffrom m * u.fto m = 1 := by rw [mul_comm]; exact h
  rw [add_sub_cancel_right, ← mul_assoc, this]; ring

theorem toSI_identity (hu : u.Good) (y : F) : toSI (fieldOps narrow isSentinel) u "identity" y = y := by
  simp [toSI, fieldOps, hu.id_to, hu.id_off]

theorem fromSI_identity (hu : u.Good) (x : F) : fromSI (fieldOps narrow isSentinel) u "identity" x = x := by
  simp [fromSI, fieldOps, hu.id_from, hu.id_off]

theorem encR_core (nar : F → F) (p : Pre) (x : F) :
    encR (fieldOps narrow isSentinel) u nar p x = encR (fieldOps narrow isSentinel) u nar p.core x := by
  induction p with
  | cond inner d t ih => simp [encR, Pre.core, ih]
  | _ => rfl

/-- The unnarrowed value the writer computes for a source value (`none` for shapes without a source). -/
def rawR (p : Pre) (x : F) : Option F := encR (fieldOps narrow isSentinel) u id p x

/-- What the reader returns for a perfectly stored value, relative to the source value `x`:
`x` itself, except that `as_float(...)` readers narrow their result. -/
def expectR (post : Post) (x : F) : F :=
  match post with
  | .narrowToSI _ => narrow x
  | _ => x

/-- REAL / DOUB arrays: for every pair classified `exact`, if the element survives storage unchanged
(`nar y = y`: always for DOUB arrays where `nar = id`; for REAL arrays when the converted value is
representable in single precision) and is not a sentinel, the reader returns the source value
(narrowed to single precision when the reader field itself is a `float`). -/
theorem real_roundtrip (hu : u.Good) (nar : F → F) (pre : Pre) (post : Post) (ty : String) (hty : ty ≠ "int")
    (h : classify ty pre post = .exact) (x y : F)
    (hy : rawR narrow isSentinel u pre x = some y) (hrep : nar y = y) (hns : isSentinel y = false) :
    (encR (fieldOps narrow isSentinel) u nar pre x).bind (decR (fieldOps narrow isSentinel) u post)
      = some (expectR narrow post x) := by
  unfold classify at h
  simp only [hty, if_false] at h
  unfold rawR at hy
  rw [encR_core] at hy ⊢
  generalize pre.core = c at h hy
  cases c <;> cases post <;> simp [classifyR] at h
  all_goals (try (split at h <;> simp at h))
  all_goals (simp [encR] at hy; subst hy)
  all_goals (try subst h)
  all_goals simp [encR, decR, hrep, hns, expectR, toSI_fromSI narrow isSentinel u hu,
    toSI_identity narrow isSentinel u hu, fromSI_identity narrow isSentinel u hu]
  all_goals (try (rw [fromSI_identity narrow isSentinel u hu] at hrep; simp [hrep]))

/-- Product of the conversion factors along a chain of measures. -/
def chainFrom : List String → F
  | [] => 1
  | m :: ms => u.ffrom m * chainFrom ms

def chainTo : List String → F
  | [] => 1
  | m :: ms => u.fto m * chainTo ms

theorem chain_factors (hu : u.Good) (ms : List String) : chainTo u ms * chainFrom u ms = 1 := by
  induction ms with
  | nil => simp [chainTo, chainFrom]
  | cons m ms ih =>
    simp only [chainTo, chainFrom]
    have h := hu.recip m
    calc u.fto m * chainTo u ms * (u.ffrom m * chainFrom u ms)
        = (u.fto m * u.ffrom m) * (chainTo u ms * chainFrom u ms) := by ring
      _ = 1 := by rw [h, ih]; ring

theorem fromSIChain_scale (ms : List String) (hoff : ∀ m ∈ ms, u.off m = 0) (x : F) :
    fromSIChain (fieldOps narrow isSentinel) u ms x = chainFrom u ms * x := by
  induction ms with
  | nil => simp [fromSIChain, chainFrom]
  | cons m ms ih =>
    have h0 : u.off m = 0 := hoff m (by simp)
    have ih' := ih (fun m' hm' => hoff m' (by simp [hm']))
    simp only [fromSIChain, chainFrom, ih']
    simp [fromSI, fieldOps, h0]
    ring

theorem toSIChain_scale (ms : List String) (hoff : ∀ m ∈ ms, u.off m = 0) (y : F) :
    toSIChain (fieldOps narrow isSentinel) u ms y = chainTo u ms * y := by
  induction ms with
  | nil => simp [toSIChain, chainTo]
  | cons m ms ih =>
    have h0 : u.off m = 0 := hoff m (by simp)
    have ih' := ih (fun m' hm' => hoff m' (by simp [hm']))
    simp only [toSIChain, chainTo, ih']
    simp [toSI, fieldOps, h0]
    ring

/-- `exactScale` class, nested conversions (SCON StaticDFacCorrCoeff: [D]·[viscosity]): with offset-free measures the
reader's `to_si(m1, to_si(m2, …))` undoes the writer's `from_si(m1, from_si(m2, …))`. -/
theorem chain_roundtrip (hu : u.Good) (ms : List String) (hoff : ∀ m ∈ ms, u.off m = 0) (x : F) :
    toSIChain (fieldOps narrow isSentinel) u ms (fromSIChain (fieldOps narrow isSentinel) u ms x) = x := by
  rw [fromSIChain_scale narrow isSentinel u ms hoff, toSIChain_scale narrow isSentinel u ms hoff, ← mul_assoc,
    chain_factors u hu ms, one_mul]

/-- `exactScale` class, k-fold unit factor (RSEG SegArea: length², …): `from_si(m, … from_si(m, 1)) * x` read back by
k nested `to_si(m, ·)`. -/
theorem unitpow_roundtrip (hu : u.Good) (m : String) (k : Nat) (hoff : u.off m = 0) (x : F) :
    let o := fieldOps narrow isSentinel
    toSIChain o u (List.replicate k m) (o.mul (fromSIChain o u (List.replicate k m) (o.ofInt 1)) x) = x := by
  intro o
  have hall : ∀ m' ∈ List.replicate k m, u.off m' = 0 := by
    intro m' hm'
    rw [List.eq_of_mem_replicate hm']; exact hoff
  rw [fromSIChain_scale narrow isSentinel u _ hall, toSIChain_scale narrow isSentinel u _ hall]
  have h1 := chain_factors u hu (List.replicate k m)
  simp only [fieldOps, o]
  calc chainTo u (List.replicate k m) * (chainFrom u (List.replicate k m) * ((1 : Int) : F) * x)
      = (chainTo u (List.replicate k m) * chainFrom u (List.replicate k m)) * x := by push_cast; ring
    _ = x := by rw [h1, one_mul]

/-- Restart of a restart is stable: re-encoding the decoded value reproduces the stored element
(needs only that narrowing is idempotent). -/
theorem encode_decode_encode (hu : u.Good) (hn : ∀ z, narrow (narrow z) = narrow z) (m : String) (x : F) :
    let o := fieldOps narrow isSentinel
    let y := narrow (fromSI o u m x)
    narrow (fromSI o u m (toSI o u m y)) = y := by
  intro o y
  rw [fromSI_toSI narrow isSentinel u hu]
  exact hn _

/-- `scaled` class (SCON Diameter = 2·rw): the reader returns `k` times the source. -/
theorem real_scaled (hu : u.Good) (m : String) (k : Int) (x : F) :
    let o := fieldOps narrow isSentinel
    toSI o u m (fromSI o u m (o.mul (o.ofInt k) x)) = (k : F) * x := by
  intro o
  rw [toSI_fromSI narrow isSentinel u hu]
  rfl

/-- `signedSmry` class: the writer stores ± the summary value (output units), the reader converts
with the vector's own measure: the result is ± the SI value (measures without offset). -/
theorem smry_roundtrip (hu : u.Good) (m : String) (hoff : u.off m = 0) (neg : Bool) (x : F) :
    let o := fieldOps narrow isSentinel
    toSI o u m (if neg then o.neg (fromSI o u m x) else fromSI o u m x) = if neg then -x else x := by
  intro o
  cases neg
  · simp only [Bool.false_eq_true, if_false]; exact toSI_fromSI narrow isSentinel u hu m x
  · simp only [if_true]
    have h := toSI_fromSI narrow isSentinel u hu m x
    simp only [toSI, fromSI, fieldOps, hoff, sub_zero, add_zero, o] at h ⊢
    rw [mul_neg, h]

end Real

end OpmVerif.RstSlot
