/-
  Lemmas about the ScheduleDeck partition model: the closed blocks only ever grow at the
  end, hence the partition of the past does not depend on the future.
-/
import OpmVerif.Model.SchedDeck

namespace OpmVerif.Sched

variable {κ : Type}

theorem runEvs_append (s : St κ) (a b : List (Ev κ)) :
    runEvs s (a ++ b) = match runEvs s a with
      | .error e => .error e
      | .ok s' => runEvs s' b := by
  induction a generalizing s with
  | nil => simp [runEvs]
  | cons e r ih =>
    simp only [List.cons_append, runEvs]
    cases h : stepEv s e with
    | error x => simp
    | ok s' => simp only []; exact ih s'

def Ev.isTime : Ev κ → Bool
  | .kw _ => false
  | _ => true

def nTime (evs : List (Ev κ)) : Nat := (evs.filter Ev.isTime).length

theorem nTime_append (a b : List (Ev κ)) : nTime (a ++ b) = nTime a + nTime b := by
  simp [nTime]

theorem stepEv_closed {s s' : St κ} {e : Ev κ} (h : stepEv s e = .ok s') :
    ∃ x, s'.closed = s.closed ++ x ∧ x.length = (if e.isTime then 1 else 0) := by
  cases e with
  | kw k =>
    simp only [stepEv, Except.ok.injEq] at h
    subst h
    exact ⟨[], by simp [Ev.isTime]⟩
  | date d =>
    simp only [stepEv] at h
    split at h
    · cases h
    · simp only [Except.ok.injEq] at h
      subst h
      exact ⟨[{ s.cur with stop := some (d.seconds * 1000) }], by simp [addBlock, Ev.isTime]⟩
  | step v =>
    simp only [stepEv] at h
    split at h
    · cases h
    · simp only [Except.ok.injEq] at h
      subst h
      exact ⟨[{ s.cur with stop := some (s.last + v.ms) }], by simp [addBlock, Ev.isTime]⟩

theorem runEvs_closed {s s' : St κ} {evs : List (Ev κ)} (h : runEvs s evs = .ok s') :
    ∃ x, s'.closed = s.closed ++ x ∧ x.length = nTime evs := by
  induction evs generalizing s with
  | nil =>
    simp only [runEvs, Except.ok.injEq] at h
    subst h
    exact ⟨[], by simp [nTime]⟩
  | cons e r ih =>
    simp only [runEvs] at h
    cases h1 : stepEv s e with
    | error x => rw [h1] at h; cases h
    | ok s1 =>
      rw [h1] at h
      simp only [] at h
      obtain ⟨x1, hx1, hl1⟩ := stepEv_closed h1
      obtain ⟨x2, hx2, hl2⟩ := ih h
      refine ⟨x1 ++ x2, by rw [hx2, hx1, List.append_assoc], ?_⟩
      rw [List.length_append, hl1, hl2]
      cases he : e.isTime <;> simp [nTime, List.filter_cons, he] <;> omega

theorem flatten_append (a b : List (Kw κ)) : flatten (a ++ b) = flatten a ++ flatten b := by
  simp [flatten]

theorem nTime_events (k : Kw κ) : nTime k.events = k.nsteps := by
  cases k <;> simp [Kw.events, Kw.nsteps, nTime, List.filter_map, Ev.isTime, Function.comp_def]

theorem nTime_flatten (kws : List (Kw κ)) : nTime (flatten kws) = nsteps kws := by
  induction kws with
  | nil => simp [flatten, nTime, nsteps]
  | cons k r ih =>
    have : flatten (k :: r) = k.events ++ flatten r := by simp [flatten]
    rw [this, nTime_append, ih, nTime_events]
    simp [nsteps]

theorem nsteps_append (a b : List (Kw κ)) : nsteps (a ++ b) = nsteps a + nsteps b := by
  simp [nsteps]

/-- Everything the constructor has closed after reading `a` is a prefix of the final block
list, whatever follows. -/
theorem blocks_split {start : Time} {a b : List (Kw κ)} {bs : List (Block κ)}
    (h : blocks start (a ++ b) = .ok bs) :
    ∃ s1, runEvs (initSt start) (flatten a) = .ok s1 ∧ s1.closed.length = nsteps a ∧
      bs.take (nsteps a) = s1.closed := by
  unfold blocks at h
  rw [flatten_append, runEvs_append] at h
  cases h1 : runEvs (initSt start) (flatten a) with
  | error e => rw [h1] at h; cases h
  | ok s1 =>
    rw [h1] at h
    simp only [] at h
    cases h2 : runEvs s1 (flatten b) with
    | error e => rw [h2] at h; cases h
    | ok s2 =>
      rw [h2] at h
      simp only [Except.ok.injEq] at h
      obtain ⟨x1, hx1, hl1⟩ := runEvs_closed h1
      obtain ⟨x2, hx2, _⟩ := runEvs_closed h2
      have hlen : s1.closed.length = nsteps a := by
        rw [hx1]; simp [initSt, hl1, nTime_flatten]
      refine ⟨s1, rfl, hlen, ?_⟩
      subst h
      rw [St.all, hx2, List.append_assoc, ← hlen, List.take_left]

theorem blocks_prefix_gen {start : Time} (a b b' : List (Kw κ)) {bs bs' : List (Block κ)}
    (h : blocks start (a ++ b) = .ok bs) (h' : blocks start (a ++ b') = .ok bs') :
    bs.take (nsteps a) = bs'.take (nsteps a) := by
  obtain ⟨s1, hs1, _, ht⟩ := blocks_split h
  obtain ⟨s1', hs1', _, ht'⟩ := blocks_split h'
  rw [hs1] at hs1'
  cases hs1'
  rw [ht, ht']

/-- If the whole list is accepted, every prefix is accepted too (truncation never turns a
valid schedule into an invalid one). -/
theorem blocks_prefix_ok {start : Time} {a b : List (Kw κ)} {bs : List (Block κ)}
    (h : blocks start (a ++ b) = .ok bs) : ∃ bs', blocks start a = .ok bs' := by
  obtain ⟨s1, hs1, _, _⟩ := blocks_split h
  exact ⟨s1.all, by simp [blocks, hs1]⟩

theorem blocks_length {start : Time} {a : List (Kw κ)} {bs : List (Block κ)}
    (h : blocks start a = .ok bs) : bs.length = nsteps a + 1 := by
  have h0 : blocks start (a ++ []) = .ok bs := by simpa using h
  obtain ⟨s1, hs1, hl, _⟩ := blocks_split h0
  simp only [blocks, hs1, Except.ok.injEq] at h
  subst h
  simp [St.all, hl]

/-! ### restarted runs -/

theorem runEvsR_append (cfg : RCfg) (wl : κ → Bool) (s : RSt κ) (a b : List (Ev κ)) :
    runEvsR cfg wl s (a ++ b) = match runEvsR cfg wl s a with
      | .error e => .error e
      | .ok s' => runEvsR cfg wl s' b := by
  induction a generalizing s with
  | nil => simp [runEvsR]
  | cons e r ih =>
    simp only [List.cons_append, runEvsR]
    cases h : stepEvR cfg wl s e with
    | error x => simp
    | ok s' => simp only []; exact ih s'

/-- Without a restart the restarted-run model is the plain one. -/
def toR (s : St κ) : RSt κ := { closed := s.closed, cur := s.cur, last := s.last, skip := false }

theorem stepEvR_toR (cfg : RCfg) (wl : κ → Bool) (s : St κ) (e : Ev κ) :
    stepEvR cfg wl (toR s) e = (stepEv s e).map toR := by
  cases e with
  | kw k => rfl
  | date d =>
    simp only [stepEvR, stepEv, toR]
    by_cases h : d.seconds < s.last / 1000
    · simp only [h, if_true]; rfl
    · simp only [h, if_false]; rfl
  | step v =>
    simp only [stepEvR, stepEv, toR]
    by_cases h : v.neg = true
    · simp only [h, if_true]; rfl
    · simp only [h]; rfl

theorem runEvsR_toR (cfg : RCfg) (wl : κ → Bool) (s : St κ) (evs : List (Ev κ)) :
    runEvsR cfg wl (toR s) evs = (runEvs s evs).map toR := by
  induction evs generalizing s with
  | nil => rfl
  | cons e r ih =>
    simp only [runEvsR, runEvs, stepEvR_toR]
    cases stepEv s e with
    | error x => rfl
    | ok s' => exact ih s'

theorem rblocks_norestart (wl : κ → Bool) (start : Time) (t : Time) (kws : List (Kw κ)) :
    rblocks { rstep := 0, rtime := t, skiprest := false } wl start kws = blocks start kws := by
  unfold rblocks blocks
  have : (rinit { rstep := 0, rtime := t, skiprest := false } start : RSt κ) = toR (initSt start) := rfl
  rw [this, runEvsR_toR]
  cases runEvs (initSt start) (flatten kws) with
  | error e => rfl
  | ok s => rfl

/-- `rst_skip` never becomes true again. -/
theorem stepEvR_skip {cfg : RCfg} {wl : κ → Bool} {s s' : RSt κ} {e : Ev κ} (h : stepEvR cfg wl s e = .ok s')
    (hs : s.skip = false) : s'.skip = false := by
  cases e with
  | kw k => simp only [stepEvR, hs, Bool.false_eq_true, if_false, Except.ok.injEq] at h; rw [← h]; try exact hs
  | date d =>
    simp only [stepEvR, addBlockR, hs, Bool.false_eq_true, if_false] at h
    by_cases hc : d.seconds < s.last / 1000
    · simp [hc] at h
    · simp only [hc, if_false, Except.ok.injEq] at h; rw [← h]; try exact hs
  | step v =>
    simp only [stepEvR, addBlockR, hs, Bool.false_eq_true, if_false] at h
    by_cases hc : v.neg = true
    · simp [hc] at h
    · simp only [hc, Bool.false_eq_true, if_false, Except.ok.injEq] at h; rw [← h]; try exact hs

theorem runEvsR_skip {cfg : RCfg} {wl : κ → Bool} {s s' : RSt κ} {evs : List (Ev κ)} (h : runEvsR cfg wl s evs = .ok s')
    (hs : s.skip = false) : s'.skip = false := by
  induction evs generalizing s with
  | nil => simp only [runEvsR, Except.ok.injEq] at h; rw [← h]; exact hs
  | cons e r ih =>
    simp only [runEvsR] at h
    cases h1 : stepEvR cfg wl s e with
    | error x => rw [h1] at h; cases h
    | ok s1 => rw [h1] at h; exact ih h (stepEvR_skip h1 hs)

/-- After the skipped part the closed blocks only grow at the end. -/
theorem stepEvR_closed {cfg : RCfg} {wl : κ → Bool} {s s' : RSt κ} {e : Ev κ} (h : stepEvR cfg wl s e = .ok s')
    (hs : s.skip = false) : ∃ x, s'.closed = s.closed ++ x := by
  cases e with
  | kw k => simp only [stepEvR, hs, Bool.false_eq_true, if_false, Except.ok.injEq] at h; rw [← h]; exact ⟨[], by simp⟩
  | date d =>
    simp only [stepEvR, addBlockR, hs, Bool.false_eq_true, if_false] at h
    split at h
    · cases h
    · simp only [Except.ok.injEq] at h; rw [← h]; exact ⟨_, rfl⟩
  | step v =>
    simp only [stepEvR, addBlockR, hs, Bool.false_eq_true, if_false] at h
    split at h
    · cases h
    · simp only [Except.ok.injEq] at h; rw [← h]; exact ⟨_, rfl⟩

theorem runEvsR_closed {cfg : RCfg} {wl : κ → Bool} {s s' : RSt κ} {evs : List (Ev κ)} (h : runEvsR cfg wl s evs = .ok s')
    (hs : s.skip = false) : ∃ x, s'.closed = s.closed ++ x := by
  induction evs generalizing s with
  | nil => simp only [runEvsR, Except.ok.injEq] at h; rw [← h]; exact ⟨[], by simp⟩
  | cons e r ih =>
    simp only [runEvsR] at h
    cases h1 : stepEvR cfg wl s e with
    | error x => rw [h1] at h; cases h
    | ok s1 =>
      rw [h1] at h
      obtain ⟨x1, hx1⟩ := stepEvR_closed h1 hs
      obtain ⟨x2, hx2⟩ := ih h (stepEvR_skip h1 hs)
      exact ⟨x1 ++ x2, by rw [hx2, hx1, List.append_assoc]⟩

/-- Restarted runs: once the skipped part is over (`s1.skip = false` after reading `a`), every
block closed so far is final, whatever follows. -/
theorem rblocks_split {cfg : RCfg} {wl : κ → Bool} {start : Time} {a b : List (Kw κ)} {bs : List (Block κ)} {s1 : RSt κ}
    (ha : runEvsR cfg wl (rinit cfg start) (flatten a) = .ok s1) (hs : s1.skip = false)
    (h : rblocks cfg wl start (a ++ b) = .ok bs) : bs.take s1.closed.length = s1.closed := by
  unfold rblocks at h
  rw [flatten_append, runEvsR_append, ha] at h
  simp only [] at h
  cases h2 : runEvsR cfg wl s1 (flatten b) with
  | error e => rw [h2] at h; cases h
  | ok s2 =>
    rw [h2] at h
    simp only [Except.ok.injEq] at h
    obtain ⟨x, hx⟩ := runEvsR_closed h2 hs
    rw [← h, RSt.all, hx, List.append_assoc, List.take_left]

/-- `m_blocks[0].push_back` for a list of keywords. -/
def addFirst (bs : List (Block κ)) (ks : List κ) : List (Block κ) :=
  match bs with
  | [] => []
  | b :: r => { b with kws := b.kws ++ ks } :: r

theorem addFirst_nil (bs : List (Block κ)) : addFirst bs [] = bs := by
  cases bs with
  | nil => rfl
  | cons b r => simp [addFirst]

theorem addFirst_addFirst (bs : List (Block κ)) (a b : List κ) : addFirst (addFirst bs a) b = addFirst bs (a ++ b) := by
  cases bs with
  | nil => rfl
  | cons x r => simp [addFirst, List.append_assoc]

theorem pushFirst_all (s : RSt κ) (k : κ) : (pushFirst s k).all = addFirst s.all [k] := by
  unfold pushFirst RSt.all
  cases hc : s.closed with
  | nil => simp [addFirst]
  | cons b r => simp [addFirst]

/-- The white-listed keywords among a list of events. -/
def whitelisted (wl : κ → Bool) (evs : List (Ev κ)) : List κ :=
  evs.filterMap fun e => match e with
    | .kw k => if wl k then some k else none
    | _ => none

/-- While the skipped part lasts (`rst_skip` still true at the end), nothing happens to the block
list except that block 0 collects the white-listed keywords, in order. -/
theorem runEvsR_skip_phase {cfg : RCfg} {wl : κ → Bool} {s s' : RSt κ} {evs : List (Ev κ)}
    (h : runEvsR cfg wl s evs = .ok s') (hs' : s'.skip = true) : s'.all = addFirst s.all (whitelisted wl evs) := by
  induction evs generalizing s with
  | nil => simp only [runEvsR, Except.ok.injEq] at h; rw [← h]; simp [whitelisted, addFirst_nil]
  | cons e r ih =>
    simp only [runEvsR] at h
    cases h1 : stepEvR cfg wl s e with
    | error x => rw [h1] at h; cases h
    | ok s1 =>
      rw [h1] at h
      have hs1 : s1.skip = true := by
        cases hk : s1.skip with
        | true => rfl
        | false => have := runEvsR_skip h hk; rw [this] at hs'; cases hs'
      have hs : s.skip = true := by
        cases hk : s.skip with
        | true => rfl
        | false => have := stepEvR_skip h1 hk; rw [this] at hs1; cases hs1
      rw [ih h]
      have hw : whitelisted wl (e :: r) = whitelisted wl [e] ++ whitelisted wl r := by
        simp [whitelisted, List.filterMap_cons]
        cases e <;> simp
        split <;> simp
      rw [hw, ← addFirst_addFirst]
      congr 1
      cases e with
      | kw k =>
        simp only [stepEvR, hs, if_true, Except.ok.injEq] at h1
        rw [← h1]
        by_cases hk : wl k = true
        · simp [whitelisted, hk, pushFirst_all]
        · simp [whitelisted, hk, addFirst_nil]
      | date d =>
        simp only [stepEvR, addBlockR, hs, if_true] at h1
        split at h1
        · cases h1
        · split at h1
          · simp only [Except.ok.injEq] at h1; rw [← h1]; simp [whitelisted, addFirst_nil, RSt.all]
          · split at h1
            · simp only [Except.ok.injEq] at h1; rw [← h1] at hs1; cases hs1
            · split at h1
              · cases h1
              · simp only [Except.ok.injEq] at h1; rw [← h1] at hs1; cases hs1
      | step v =>
        simp only [stepEvR, addBlockR, hs, if_true] at h1
        split at h1
        · cases h1
        · split at h1
          · simp only [Except.ok.injEq] at h1; rw [← h1]; simp [whitelisted, addFirst_nil, RSt.all]
          · split at h1
            · simp only [Except.ok.injEq] at h1; rw [← h1] at hs1; cases hs1
            · split at h1
              · cases h1
              · simp only [Except.ok.injEq] at h1; rw [← h1] at hs1; cases hs1

end OpmVerif.Sched
