/-
  Lemmas about the ScheduleDeck partition model: the closed blocks only ever grow at the
  end, hence the partition of the past does not depend on the future.
-/
import OpmVerif.Model.SchedDeck

namespace OpmVerif.Sched

variable {κ : Type}

theorem runEvs_append (s : St κ) (a b : List (Ev κ)) :
    runEvs s (a ++ b) = match runEvs s a with
      | .error e => .error e
      | .ok s' => runEvs s' b := by
  induction a generalizing s with
  | nil => simp [runEvs]
  | cons e r ih =>
    simp only [List.cons_append, runEvs]
    cases h : stepEv s e with
    | error x => simp
    | ok s' => simp only []; exact ih s'

def Ev.isTime : Ev κ → Bool
  | .kw _ => false
  | _ => true

def nTime (evs : List (Ev κ)) : Nat := (evs.filter Ev.isTime).length

theorem nTime_append (a b : List (Ev κ)) : nTime (a ++ b) = nTime a + nTime b := by
  simp [nTime]

theorem stepEv_closed {s s' : St κ} {e : Ev κ} (h : stepEv s e = .ok s') :
    ∃ x, s'.closed = s.closed ++ x ∧ x.length = (if e.isTime then 1 else 0) := by
  cases e with
  | kw k =>
    simp only [stepEv, Except.ok.injEq] at h
    subst h
    exact ⟨[], by simp [Ev.isTime]⟩
  | date d =>
    simp only [stepEv] at h
    split at h
    · cases h
    · simp only [Except.ok.injEq] at h
      subst h
      exact ⟨[{ s.cur with stop := some (d.seconds * 1000) }], by simp [addBlock, Ev.isTime]⟩
  | step v =>
    simp only [stepEv] at h
    split at h
    · cases h
    · simp only [Except.ok.injEq] at h
      subst h
      exact ⟨[{ s.cur with stop := some (s.last + v.ms) }], by simp [addBlock, Ev.isTime]⟩

theorem runEvs_closed {s s' : St κ} {evs : List (Ev κ)} (h : runEvs s evs = .ok s') :
    ∃ x, s'.closed = s.closed ++ x ∧ x.length = nTime evs := by
  induction evs generalizing s with
  | nil =>
    simp only [runEvs, Except.ok.injEq] at h
    subst h
    exact ⟨[], by simp [nTime]⟩
  | cons e r ih =>
    simp only [runEvs] at h
    cases h1 : stepEv s e with
    | error x => rw [h1] at h; cases h
    | ok s1 =>
      rw [h1] at h
      simp only [] at h
      obtain ⟨x1, hx1, hl1⟩ := stepEv_closed h1
      obtain ⟨x2, hx2, hl2⟩ := ih h
      refine ⟨x1 ++ x2, by rw [hx2, hx1, List.append_assoc], ?_⟩
      rw [List.length_append, hl1, hl2]
      cases he : e.isTime <;> simp [nTime, List.filter_cons, he] <;> omega

theorem flatten_append (a b : List (Kw κ)) : flatten (a ++ b) = flatten a ++ flatten b := by
  simp [flatten]

theorem nTime_events (k : Kw κ) : nTime k.events = k.nsteps := by
  cases k <;> simp [Kw.events, Kw.nsteps, nTime, List.filter_map, Ev.isTime, Function.comp_def]

theorem nTime_flatten (kws : List (Kw κ)) : nTime (flatten kws) = nsteps kws := by
  induction kws with
  | nil => simp [flatten, nTime, nsteps]
  | cons k r ih =>
    have : flatten (k :: r) = k.events ++ flatten r := by simp [flatten]
    rw [this, nTime_append, ih, nTime_events]
    simp [nsteps]

theorem nsteps_append (a b : List (Kw κ)) : nsteps (a ++ b) = nsteps a + nsteps b := by
  simp [nsteps]

/-- Everything the constructor has closed after reading `a` is a prefix of the final block
list, whatever follows. -/
theorem blocks_split {start : Time} {a b : List (Kw κ)} {bs : List (Block κ)}
    (h : blocks start (a ++ b) = .ok bs) :
    ∃ s1, runEvs (initSt start) (flatten a) = .ok s1 ∧ s1.closed.length = nsteps a ∧
      bs.take (nsteps a) = s1.closed := by
  unfold blocks at h
  rw [flatten_append, runEvs_append] at h
  cases h1 : runEvs (initSt start) (flatten a) with
  | error e => rw [h1] at h; cases h
  | ok s1 =>
    rw [h1] at h
    simp only [] at h
    cases h2 : runEvs s1 (flatten b) with
    | error e => rw [h2] at h; cases h
    | ok s2 =>
      rw [h2] at h
      simp only [Except.ok.injEq] at h
      obtain ⟨x1, hx1, hl1⟩ := runEvs_closed h1
      obtain ⟨x2, hx2, _⟩ := runEvs_closed h2
      have hlen : s1.closed.length = nsteps a := by
        rw [hx1]; simp [initSt, hl1, nTime_flatten]
      refine ⟨s1, rfl, hlen, ?_⟩
      subst h
      rw [St.all, hx2, List.append_assoc, ← hlen, List.take_left]

theorem blocks_prefix_gen {start : Time} (a b b' : List (Kw κ)) {bs bs' : List (Block κ)}
    (h : blocks start (a ++ b) = .ok bs) (h' : blocks start (a ++ b') = .ok bs') :
    bs.take (nsteps a) = bs'.take (nsteps a) := by
  obtain ⟨s1, hs1, _, ht⟩ := blocks_split h
  obtain ⟨s1', hs1', _, ht'⟩ := blocks_split h'
  rw [hs1] at hs1'
  cases hs1'
  rw [ht, ht']

/-- If the whole list is accepted, every prefix is accepted too (truncation never turns a
valid schedule into an invalid one). -/
theorem blocks_prefix_ok {start : Time} {a b : List (Kw κ)} {bs : List (Block κ)}
    (h : blocks start (a ++ b) = .ok bs) : ∃ bs', blocks start a = .ok bs' := by
  obtain ⟨s1, hs1, _, _⟩ := blocks_split h
  exact ⟨s1.all, by simp [blocks, hs1]⟩

theorem blocks_length {start : Time} {a : List (Kw κ)} {bs : List (Block κ)}
    (h : blocks start a = .ok bs) : bs.length = nsteps a + 1 := by
  have h0 : blocks start (a ++ []) = .ok bs := by simpa using h
  obtain ⟨s1, hs1, hl, _⟩ := blocks_split h0
  simp only [blocks, hs1, Except.ok.injEq] at h
  subst h
  simp [St.all, hl]

end OpmVerif.Sched
