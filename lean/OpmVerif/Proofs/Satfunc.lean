/-
  Lemmas about the saturation-function models (`Model/Eps.lean`, `Model/Hyst.lean`) over a
  linearly ordered field.
-/
import OpmVerif.Proofs.Tab1D
import OpmVerif.Model.Hyst

set_option linter.unusedSectionVars false
set_option linter.unusedSimpArgs false

namespace OpmVerif.Eps
open OpmVerif.Tab1D

variable {K : Type} [Field K] [LinearOrder K] [IsStrictOrderedRing K]

theorem minA_eq (a b : K) : minA a b = min a b := by
  unfold minA
  by_cases h : b < a
  · simp [h, min_eq_right (le_of_lt h)]
  · simp [h, min_eq_left (not_lt.mp h)]

theorem maxA_eq (a b : K) : maxA a b = max a b := by
  unfold maxA
  by_cases h : a < b
  · simp [h, max_eq_right (le_of_lt h)]
  · simp [h, max_eq_left (not_lt.mp h)]

/-! ### PiecewiseLinearTwoPhaseMaterial -/

/-- `y0 + (x - x0)*m` is the same line as `Tabulated1DFunction`'s `y0 + (y1-y0)(x-x0)/(x1-x0)`:
all per-segment lemmas of C14 (node values, bracketing, monotonicity) apply. -/
theorem plSeg_eq_evalSeg (xs ys : List K) (i : Nat) (x : K) : plSeg xs ys i x = evalSeg xs ys i x := by
  unfold plSeg evalSeg
  simp only [div_eq_mul_inv]
  ring

/-- Loop invariant of `findSegmentIndex_`: from `xs[lo] < x ≤ xs[hi]` the bisection ends on an
adjacent pair with `xs[i] < x ≤ xs[i+1]`. -/
theorem bisectAsc_spec (xs : List K) (x : K) :
    ∀ fuel lo hi, lo < hi → hi - lo ≤ fuel → nth xs lo < x → x ≤ nth xs hi →
      lo ≤ bisectAsc xs x fuel lo hi ∧ bisectAsc xs x fuel lo hi + 1 ≤ hi ∧
      nth xs (bisectAsc xs x fuel lo hi) < x ∧ x ≤ nth xs (bisectAsc xs x fuel lo hi + 1) := by
  intro fuel
  induction fuel with
  | zero => intro lo hi h1 h2; omega
  | succ f ih =>
    intro lo hi hlt hf hlo hhi
    unfold bisectAsc
    by_cases hc : lo + 1 < hi
    · simp only [hc, if_true]
      have hp1 : lo < (lo + hi) / 2 := by omega
      have hp2 : (lo + hi) / 2 < hi := by omega
      by_cases hx : nth xs ((lo + hi) / 2) < x
      · simp only [hx, if_true]
        have := ih ((lo + hi) / 2) hi hp2 (by omega) hx hhi
        exact ⟨by omega, this.2.1, this.2.2.1, this.2.2.2⟩
      · simp only [hx, if_false]
        have := ih lo ((lo + hi) / 2) hp1 (by omega) hlo (not_lt.mp hx)
        exact ⟨this.1, by omega, this.2.2.1, this.2.2.2⟩
    · simp only [hc, if_false]
      have : hi = lo + 1 := by omega
      subst this
      exact ⟨le_refl _, le_refl _, hlo, hhi⟩

/-- In the open range of an ascending table the lookup evaluates the line of a segment that
contains the argument. -/
theorem plAsc_inside {xs : List K} (ys : List K) (hn : 2 ≤ xs.length) (x : K)
    (h0 : nth xs 0 < x) (h1 : x < nth xs (xs.length - 1)) :
    ∃ i, i + 1 < xs.length ∧ nth xs i < x ∧ x ≤ nth xs (i + 1) ∧ plAsc xs ys x = evalSeg xs ys i x := by
  have hs := bisectAsc_spec xs x xs.length 0 (xs.length - 1) (by omega) (by omega) h0 (le_of_lt h1)
  refine ⟨bisectAsc xs x xs.length 0 (xs.length - 1), by omega, hs.2.2.1, hs.2.2.2, ?_⟩
  unfold plAsc segAsc
  rw [if_neg (not_le.mpr h0), if_neg (not_le.mpr h1), if_neg (not_le.mpr h1), if_neg (not_le.mpr h0)]
  exact plSeg_eq_evalSeg _ _ _ _

/-- **Table honouring**: an ascending table returns every tabulated value at its node. -/
theorem plAsc_node {xs ys : List K} (hs : StrictInc xs) (hn : 2 ≤ xs.length) (hl : ys.length = xs.length)
    (k : Nat) (hk : k < xs.length) : plAsc xs ys (nth xs k) = nth ys k := by
  by_cases hk0 : k = 0
  · subst hk0
    unfold plAsc
    rw [if_pos (le_refl _)]
  · by_cases hkn : k = xs.length - 1
    · unfold plAsc
      have : ¬ nth xs k ≤ nth xs 0 := not_le.mpr (hs 0 k (by omega) hk)
      rw [if_neg this, hkn, if_pos (le_refl _), hl]
    · have h0 : nth xs 0 < nth xs k := hs 0 k (by omega) hk
      have h1 : nth xs k < nth xs (xs.length - 1) := hs k _ (by omega) (by omega)
      obtain ⟨i, hi, a, b, e⟩ := plAsc_inside ys hn (nth xs k) h0 h1
      rw [e]
      have hik : i < k := (hs.lt_iff (by omega) hk).mp a
      have hki : k ≤ i + 1 := by
        by_contra hcon
        have : i + 1 < k := by omega
        exact absurd (hs _ _ this hk) (not_lt.mpr b)
      have : k = i + 1 := by omega
      subst this
      exact evalSeg_right xs ys i (ne_of_lt (hs _ _ (Nat.lt_succ_self _) hi))

/-- **Bracketing / range**: inside the table the value lies between the two neighbouring
tabulated values; outside it is the first resp. last tabulated value (constant extension). -/
theorem plAsc_between {xs : List K} (ys : List K) (hs : StrictInc xs) (hn : 2 ≤ xs.length) (x : K)
    (h0 : nth xs 0 < x) (h1 : x < nth xs (xs.length - 1)) :
    ∃ i, i + 1 < xs.length ∧ nth xs i < x ∧ x ≤ nth xs (i + 1) ∧
      min (nth ys i) (nth ys (i + 1)) ≤ plAsc xs ys x ∧ plAsc xs ys x ≤ max (nth ys i) (nth ys (i + 1)) := by
  obtain ⟨i, hi, a, b, e⟩ := plAsc_inside ys hn x h0 h1
  refine ⟨i, hi, a, b, ?_⟩
  rw [e]
  exact evalSeg_between xs ys i x (hs _ _ (Nat.lt_succ_self _) hi) (le_of_lt a) b

theorem plAsc_outside (xs ys : List K) (x : K) :
    (x ≤ nth xs 0 → plAsc xs ys x = nth ys 0) ∧
    (nth xs 0 < x → nth xs (xs.length - 1) ≤ x → plAsc xs ys x = nth ys (ys.length - 1)) := by
  constructor
  · intro h; unfold plAsc; rw [if_pos h]
  · intro h h'; unfold plAsc; rw [if_neg (not_le.mpr h), if_pos h']

/-- **Monotone interpolation and range** for a monotone column: the lookup is non-decreasing
in the argument over the whole axis and stays within `[ys[0], ys.last]`. -/
theorem plAsc_range {xs ys : List K} (hs : StrictInc xs) (hn : 2 ≤ xs.length) (hl : ys.length = xs.length)
    (hm : MonoInc ys) (x : K) : nth ys 0 ≤ plAsc xs ys x ∧ plAsc xs ys x ≤ nth ys (ys.length - 1) := by
  have hends : nth ys 0 ≤ nth ys (ys.length - 1) := hm _ _ (Nat.zero_le _) (by omega)
  by_cases h0 : x ≤ nth xs 0
  · rw [(plAsc_outside xs ys x).1 h0]; exact ⟨le_refl _, hends⟩
  · by_cases h1 : nth xs (xs.length - 1) ≤ x
    · rw [(plAsc_outside xs ys x).2 (not_le.mp h0) h1]; exact ⟨hends, le_refl _⟩
    · obtain ⟨i, hi, _, _, b1, b2⟩ := plAsc_between ys hs hn x (not_le.mp h0) (not_le.mp h1)
      have m1 : nth ys i ≤ nth ys (i + 1) := hm _ _ (Nat.le_succ _) (by omega)
      rw [min_eq_left m1] at b1
      rw [max_eq_right m1] at b2
      exact ⟨le_trans (hm 0 i (Nat.zero_le _) (by omega)) b1, le_trans b2 (hm _ _ (by omega) (by omega))⟩

/-! ### Horizontal (saturation) scaling -/

/-- **twopoint_endpoints**: the scaled end-points map onto the table's end-points. -/
theorem twopoint_endpoints (u sc : Pts K) (h : sc.p0 ≠ sc.p2) :
    s2uTwo sc.p0 u sc = u.p0 ∧ s2uTwo sc.p2 u sc = u.p2 := by
  have hd : sc.p2 - sc.p0 ≠ 0 := sub_ne_zero.mpr (Ne.symm h)
  unfold s2uTwo
  constructor
  · simp
  · field_simp; ring

/-- two-point scaling is monotone when both intervals have positive length -/
theorem twopoint_monotone (u sc : Pts K) (hs : sc.p0 < sc.p2) (hu : u.p0 ≤ u.p2) {s s' : K} (h : s ≤ s') :
    s2uTwo s u sc ≤ s2uTwo s' u sc := by
  unfold s2uTwo
  have : 0 ≤ (u.p2 - u.p0) / (sc.p2 - sc.p0) := div_nonneg (sub_nonneg.mpr hu) (le_of_lt (sub_pos.mpr hs))
  have := mul_le_mul_of_nonneg_right (sub_le_sub_right h sc.p0) this
  linarith

/-- **scaling_identity** (two-point): with the table's own end-points the mapping is the
identity — for every saturation. -/
theorem twopoint_identity (u : Pts K) (h : u.p0 ≠ u.p2) (s : K) : s2uTwo s u u = s := by
  have hd : u.p2 - u.p0 ≠ 0 := sub_ne_zero.mpr (Ne.symm h)
  unfold s2uTwo
  rw [div_self hd]
  ring

/-- **unscaled_scaled_inverse** (two-point): `unscaledToScaled ∘ scaledToUnscaled = id` for
non-degenerate point sets. -/
theorem twopoint_inverse (u sc : Pts K) (hu : u.p0 ≠ u.p2) (hs : sc.p0 ≠ sc.p2) (s : K) :
    u2sTwo (s2uTwo s u sc) u sc = s ∧ s2uTwo (u2sTwo s u sc) u sc = s := by
  have h1 : u.p2 - u.p0 ≠ 0 := sub_ne_zero.mpr (Ne.symm hu)
  have h2 : sc.p2 - sc.p0 ≠ 0 := sub_ne_zero.mpr (Ne.symm hs)
  unfold u2sTwo s2uTwo
  constructor <;> (field_simp; ring)

/-- the lambda `map(i)` at the ends of its interval and clamped from above -/
theorem map3_left (a0 a1 b0 b1 : K) (hb : b0 ≤ b1) : map3 a0 a0 a1 b0 b1 = b0 := by
  unfold map3
  rw [minA_eq]
  simp [hb]

theorem map3_le (s a0 a1 b0 b1 : K) : map3 s a0 a1 b0 b1 ≤ b1 := by
  unfold map3; rw [minA_eq]; exact min_le_right _ _

theorem map3_ge (s a0 a1 b0 b1 : K) (ha : a0 < a1) (hs : a0 ≤ s) (hb : b0 ≤ b1) : b0 ≤ map3 s a0 a1 b0 b1 := by
  unfold map3
  rw [minA_eq, maxA_eq]
  apply le_min _ hb
  have : 0 ≤ (s - a0) / (a1 - a0) * max (b1 - b0) 0 :=
    mul_nonneg (div_nonneg (sub_nonneg.mpr hs) (le_of_lt (sub_pos.mpr ha))) (le_max_right _ _)
  linarith

theorem map3_identity (s a0 a1 : K) (ha : a0 < a1) (hs : s ≤ a1) : map3 s a0 a1 a0 a1 = s := by
  unfold map3
  rw [minA_eq, maxA_eq, max_eq_left (le_of_lt (sub_pos.mpr ha))]
  have hd : a1 - a0 ≠ 0 := ne_of_gt (sub_pos.mpr ha)
  have : a0 + (s - a0) / (a1 - a0) * (a1 - a0) = s := by field_simp; ring
  rw [this, min_eq_left hs]

/-- **threepoint_endpoints**: for ordered scaled points `sL < sR < sU` and ordered table points
`uL ≤ uR ≤ uU` the three scaled points map onto the three table points, and the mapping is
clamped: below `sL` it is `uL`, from `sU` on it is `uU`; everywhere it stays in `[uL, uU]`. -/
theorem threepoint_endpoints (u sc : Pts K) (h01 : sc.p0 < sc.p1) (h12 : sc.p1 < sc.p2)
    (u01 : u.p0 ≤ u.p1) (u12 : u.p1 ≤ u.p2) :
    s2uThree sc.p0 u sc = u.p0 ∧ s2uThree sc.p1 u sc = u.p1 ∧ s2uThree sc.p2 u sc = u.p2 ∧
    (∀ s, s ≤ sc.p0 → s2uThree s u sc = u.p0) ∧ (∀ s, sc.p2 ≤ s → s2uThree s u sc = u.p2) := by
  have hmin : minA sc.p1 sc.p2 = sc.p1 := by rw [minA_eq]; exact min_eq_left (le_of_lt h12)
  refine ⟨?_, ?_, ?_, ?_, ?_⟩
  · unfold s2uThree; simp
  · unfold s2uThree
    rw [hmin]
    simp only [not_lt, not_le.mpr h01, if_false, lt_irrefl, h12, if_true]
    exact map3_left _ _ _ _ u12
  · unfold s2uThree
    rw [hmin]
    have : sc.p0 < sc.p2 := lt_trans h01 h12
    simp [this, not_lt.mpr (le_of_lt h12), lt_irrefl]
  · intro s hs
    unfold s2uThree
    simp [not_lt.mpr hs]
  · intro s hs
    unfold s2uThree
    rw [hmin]
    have a : sc.p0 < s := lt_of_lt_of_le (lt_trans h01 h12) hs
    simp [a, not_lt.mpr hs, not_lt.mpr (le_trans (le_of_lt h12) hs)]

theorem threepoint_clamped (u sc : Pts K) (h01 : sc.p0 < sc.p1) (h12 : sc.p1 < sc.p2)
    (u01 : u.p0 ≤ u.p1) (u12 : u.p1 ≤ u.p2) (s : K) :
    u.p0 ≤ s2uThree s u sc ∧ s2uThree s u sc ≤ u.p2 := by
  have hmin : minA sc.p1 sc.p2 = sc.p1 := by rw [minA_eq]; exact min_eq_left (le_of_lt h12)
  unfold s2uThree
  rw [hmin]
  by_cases a : sc.p0 < s
  · simp only [a, not_true, if_false]
    by_cases b : s < sc.p1
    · simp only [b, if_true]
      exact ⟨map3_ge _ _ _ _ _ h01 (le_of_lt a) u01, le_trans (map3_le _ _ _ _ _) u12⟩
    · simp only [b, if_false]
      by_cases c : s < sc.p2
      · simp only [c, if_true]
        exact ⟨le_trans u01 (map3_ge _ _ _ _ _ h12 (not_lt.mp b) u12), map3_le _ _ _ _ _⟩
      · simp only [c, if_false]
        exact ⟨le_trans u01 u12, le_refl _⟩
  · simp only [a, not_false_eq_true, if_true]
    exact ⟨le_refl _, le_trans u01 u12⟩

/-- **scaling_identity** (three-point): with the table's own three points the mapping is the
identity on `[sL, sU]`. -/
theorem threepoint_identity (u : Pts K) (h01 : u.p0 < u.p1) (h12 : u.p1 < u.p2) (s : K)
    (hlo : u.p0 ≤ s) (hhi : s ≤ u.p2) : s2uThree s u u = s := by
  have hmin : minA u.p1 u.p2 = u.p1 := by rw [minA_eq]; exact min_eq_left (le_of_lt h12)
  unfold s2uThree
  rw [hmin]
  by_cases a : u.p0 < s
  · simp only [a, not_true, if_false]
    by_cases b : s < u.p1
    · simp only [b, if_true]
      exact map3_identity s _ _ h01 (le_of_lt b)
    · simp only [b, if_false]
      by_cases c : s < u.p2
      · simp only [c, if_true]
        exact map3_identity s _ _ h12 (le_of_lt c)
      · simp only [c, if_false]
        exact le_antisymm (not_lt.mp c) hhi
  · simp only [a, not_false_eq_true, if_true]
    exact le_antisymm hlo (not_lt.mp a)

/-! ### Vertical scaling -/

/-- **scaling_identity** (vertical, krw): with the table's own `KRW`/`KRWR` the vertical
scaling returns the table value, for pure and for three-point vertical scaling (normal case
`0 < krwr < maxKrw`). -/
theorem vertKrw_identity (c : Config) (u : Points K) (sw krw : K) (h0 : u.krwr ≠ 0) (h1 : u.krwr < u.maxKrw)
    (hm : u.maxKrw ≠ 0) : vertKrw c u u sw krw = krw := by
  unfold vertKrw
  cases ha : c.krwScaling <;> cases hb : c.threePointKrw <;> simp only [Bool.false_eq_true, not_false_eq_true, not_true_eq_false, if_true, if_false]
  · rw [div_self hm, mul_one]
  · by_cases d : minA u.satKrw.p1 u.satKrw.p2 < sw
    · simp only [d, not_true_eq_false, not_false_eq_true, if_true, if_false, h1]
      have : u.maxKrw - u.krwr ≠ 0 := ne_of_gt (sub_pos.mpr h1)
      field_simp; ring
    · simp only [d, not_true_eq_false, not_false_eq_true, if_true, if_false]
      rw [div_self h0, mul_one]

theorem vertKrn_identity (c : Config) (u : Points K) (sw krn : K) (h0 : u.krnr ≠ 0) (h1 : u.krnr < u.maxKrn)
    (hm : u.maxKrn ≠ 0) : vertKrn c u u sw krn = krn := by
  unfold vertKrn
  cases ha : c.krnScaling <;> cases hb : c.threePointKrn <;> simp only [Bool.false_eq_true, not_false_eq_true, not_true_eq_false, if_true, if_false]
  · rw [div_self hm, mul_one]
  · by_cases d : sw < maxA u.satKrn.p1 u.satKrn.p0
    · simp only [d, not_true_eq_false, not_false_eq_true, if_true, if_false, h1]
      have : u.maxKrn - u.krnr ≠ 0 := ne_of_gt (sub_pos.mpr h1)
      field_simp; ring
    · simp only [d, not_true_eq_false, not_false_eq_true, if_true, if_false]
      rw [div_self h0, mul_one]

theorem vertPc_identity (c : Config) (u : Points K) (pc : K) (hl : c.leverett = false) : vertPc c u u pc = pc := by
  unfold vertPc
  simp [hl]

/-- **scaling_identity**, assembled: with scaled points equal to the table's points the scaled
relative permeabilities and capillary pressure on `[sL, sU]` are the table's. -/
theorem eps_identity_krw (c : Config) (t : PLParams K) (u : Points K) (sw : K)
    (h01 : u.satKrw.p0 < u.satKrw.p1) (h12 : u.satKrw.p1 < u.satKrw.p2)
    (hlo : u.satKrw.p0 ≤ sw) (hhi : sw ≤ u.satKrw.p2)
    (h0 : u.krwr ≠ 0) (h1 : u.krwr < u.maxKrw) (hm : u.maxKrw ≠ 0) :
    epsKrw c t u u sw = t.krwAt sw := by
  unfold epsKrw
  rw [vertKrw_identity c u _ _ h0 h1 hm]
  unfold s2uKr
  cases ha : c.satScaling <;> cases hb : c.threePointKrSat <;> simp only [Bool.false_eq_true, not_false_eq_true, not_true_eq_false, if_true, if_false]
  · rw [twopoint_identity _ (ne_of_lt (lt_trans h01 h12))]
  · rw [threepoint_identity _ h01 h12 sw hlo hhi]

theorem eps_identity_krn (c : Config) (t : PLParams K) (u : Points K) (sw : K)
    (h01 : u.satKrn.p0 < u.satKrn.p1) (h12 : u.satKrn.p1 < u.satKrn.p2)
    (hlo : u.satKrn.p0 ≤ sw) (hhi : sw ≤ u.satKrn.p2)
    (h0 : u.krnr ≠ 0) (h1 : u.krnr < u.maxKrn) (hm : u.maxKrn ≠ 0) :
    epsKrn c t u u sw = t.krnAt sw := by
  unfold epsKrn
  rw [vertKrn_identity c u _ _ h0 h1 hm]
  unfold s2uKr
  cases ha : c.satScaling <;> cases hb : c.threePointKrSat <;> simp only [Bool.false_eq_true, not_false_eq_true, not_true_eq_false, if_true, if_false]
  · rw [twopoint_identity _ (ne_of_lt (lt_trans h01 h12))]
  · rw [threepoint_identity _ h01 h12 sw hlo hhi]

end OpmVerif.Eps

namespace OpmVerif.Hyst

variable {K : Type} [Field K] [LinearOrder K] [IsStrictOrderedRing K]

/-- **hyst_invariant**: after any saturation history the stored reversal saturation is the
minimum of the start value and all saturations seen. -/
theorem run_mdc (c : Curves K) : ∀ (h : List K) (st : State K), (run c st h).mdc = h.foldl min st.mdc := by
  intro h
  induction h with
  | nil => intro st; rfl
  | cons s r ih =>
    intro st
    show (run c (update c st s) r).mdc = r.foldl min (min st.mdc s)
    rw [ih (update c st s)]
    congr 1
    unfold update
    by_cases hlt : s < st.mdc
    · simp [hlt, refresh, min_eq_right (le_of_lt hlt)]
    · simp [hlt, min_eq_left (not_lt.mp hlt)]

theorem foldl_min_le (h : List K) : ∀ (m : K), h.foldl min m ≤ m ∧ ∀ s ∈ h, h.foldl min m ≤ s := by
  induction h with
  | nil => intro m; exact ⟨le_refl _, by simp⟩
  | cons a r ih =>
    intro m
    obtain ⟨h1, h2⟩ := ih (min m a)
    refine ⟨le_trans h1 (min_le_left _ _), ?_⟩
    intro s hs
    rcases List.mem_cons.mp hs with rfl | hs'
    · exact le_trans h1 (min_le_right _ _)
    · exact h2 s hs'

/-- The state is *consistent* when `deltaSwImbKrn_` is up to date with `krnSwMdc_`. -/
def Consistent (c : Curves K) (st : State K) : Prop :=
  st.delta = c.krnIInv (c.krnD st.mdc) - st.mdc

theorem init_consistent (c : Curves K) (start : K) : Consistent c (init c start) := rfl

theorem update_consistent (c : Curves K) (st : State K) (s : K) (h : Consistent c st) :
    Consistent c (update c st s) := by
  unfold update
  by_cases hlt : s < st.mdc
  · simp only [hlt, if_true]; rfl
  · simp only [hlt, if_false]; exact h

theorem run_consistent (c : Curves K) : ∀ (h : List K) (st : State K), Consistent c st → Consistent c (run c st h) := by
  intro h
  induction h with
  | nil => intro st hc; exact hc
  | cons s r ih => intro st hc; exact ih _ (update_consistent c st s hc)

theorem le_foldl_min (sw : K) : ∀ (h : List K) (m : K), sw ≤ m → (∀ s ∈ h, sw ≤ s) → sw ≤ h.foldl min m := by
  intro h
  induction h with
  | nil => intro m hm _; exact hm
  | cons a r ih =>
    intro m hm hall
    exact ih (min m a) (le_min hm (hall a List.mem_cons_self)) (fun s hs => hall s (List.mem_cons_of_mem _ hs))

/-- **hyst_drainage_until_reversal**: at every saturation not above the smallest one seen so far
the drainage curve is used — in particular along a history that never reverses, each new
saturation is evaluated on the drainage curve. -/
theorem drainage_until_reversal (c : Curves K) (st : State K) (h : List K) (sw : K)
    (hsw : sw ≤ st.mdc) (hall : ∀ s ∈ h, sw ≤ s) :
    krn c (run c st h) sw = c.krnD sw := by
  unfold krn
  rw [run_mdc, if_pos (le_foldl_min sw h st.mdc hsw hall)]

/-- **hyst_scan_continuous**: in a consistent state the scanning curve `krnI(· + delta)` takes,
at the reversal saturation, the drainage curve's value — provided the imbibition curve is
inverted correctly there (`krnI (krnIInv y) = y` for `y = krnD mdc`). -/
theorem scan_continuous (c : Curves K) (st : State K) (hc : Consistent c st)
    (hinv : c.krnI (c.krnIInv (c.krnD st.mdc)) = c.krnD st.mdc) :
    c.krnI (st.mdc + st.delta) = c.krnD st.mdc ∧ krn c st st.mdc = c.krnD st.mdc := by
  constructor
  · rw [hc]
    have : st.mdc + (c.krnIInv (c.krnD st.mdc) - st.mdc) = c.krnIInv (c.krnD st.mdc) := by ring
    rw [this, hinv]
  · unfold krn; rw [if_pos (le_refl _)]

/-- **carlson_identity**: if the drainage and imbibition curves are the same function `f` and
its inverse recovers the reversal saturation (`fInv (f mdc) = mdc`, true for a strictly monotone
table inside its range), then `delta = 0` and the hysteretic relative permeability is `f`
everywhere. -/
theorem carlson_identity (f fInv : K → K) (st : State K)
    (hc : Consistent ⟨f, f, fInv⟩ st) (hinv : fInv (f st.mdc) = st.mdc) (sw : K) :
    st.delta = 0 ∧ krn ⟨f, f, fInv⟩ st sw = f sw := by
  have hd : st.delta = 0 := by rw [hc]; simp [hinv]
  refine ⟨hd, ?_⟩
  unfold krn
  by_cases h : sw ≤ st.mdc
  · simp [h]
  · simp [h, hd]

/-- … for every saturation history: if the inverse recovers every saturation of the history
(and the start value), nothing changes. -/
theorem carlson_identity_history (f fInv : K → K) (start : K) (h : List K)
    (hinv : ∀ s, s = start ∨ s ∈ h → fInv (f s) = s) (sw : K) :
    krn ⟨f, f, fInv⟩ (run ⟨f, f, fInv⟩ (init ⟨f, f, fInv⟩ start) h) sw = f sw := by
  have hc := run_consistent ⟨f, f, fInv⟩ h _ (init_consistent ⟨f, f, fInv⟩ start)
  have hm : (run ⟨f, f, fInv⟩ (init ⟨f, f, fInv⟩ start) h).mdc = start ∨
            (run ⟨f, f, fInv⟩ (init ⟨f, f, fInv⟩ start) h).mdc ∈ h := by
    rw [run_mdc]
    show h.foldl min start = start ∨ h.foldl min start ∈ h
    clear hinv hc
    generalize start = m
    induction h generalizing m with
    | nil => left; rfl
    | cons a r ih =>
      show r.foldl min (min m a) = m ∨ r.foldl min (min m a) ∈ a :: r
      rcases ih (min m a) with h1 | h1
      · rcases min_choice m a with h2 | h2
        · left; rw [h1, h2]
        · right; rw [h1, h2]; exact List.mem_cons_self
      · right; exact List.mem_cons_of_mem _ h1
  exact (carlson_identity f fInv _ hc (hinv _ hm) sw).2

end OpmVerif.Hyst
