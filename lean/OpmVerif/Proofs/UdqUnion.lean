/-
  The set union operators UADD / UMUL / UMIN / UMAX of `Model/UdqEval.lean`
  (`udq_union` + the both-defined loop of `UDQBinaryFunction::UADD …` in UDQFunction.cpp).

  Part 1 holds for every number type `α` and operation record `F`: the result is element-wise,
  and an element takes `f x y` when both operands are defined, the defined operand's value when
  exactly one is, and stays undefined when neither is (`unionElem`).
  Part 2 reads the operations in a linearly ordered field `K` (`Exact F`): UADD = `+`, UMUL = `*`,
  UMIN = `min`, UMAX = `max`, with the algebraic laws the property-mode probes test on the real
  code (commutativity, bounds, the undefined operand as identity) — and the reason why the
  "substitute a neutral element for the undefined operand" shortcut cannot be right for UMAX/UMIN:
  `max`/`min` have no neutral element in an ordered field.
-/
import OpmVerif.Model.UdqEval
import Mathlib.Tactic.Ring
import Mathlib.Tactic.Linarith
import Mathlib.Algebra.Order.Field.Basic

set_option linter.unusedSectionVars false
set_option linter.unusedSimpArgs false
set_option linter.unusedVariables false

namespace OpmVerif.Udq

variable {α : Type}

/-! ### Part 1: any number type -/

/-- the documented union of one element: both defined → `f x y`; exactly one defined → that
value; none → undefined -/
def unionElem (f : α → α → α) : Option α → Option α → Option α
  | some x, some y => some (f x y)
  | some x, none => some x
  | none, some y => some y
  | none, none => none

theorem unionVals_eq_zipWith (f : α → α → α) :
    ∀ (as bs : List (String × Option α)),
      unionVals f as bs = List.zipWith (fun a b => (a.1, unionElem f a.2 b.2)) as bs
  | [], _ => by simp [unionVals]
  | _ :: _, [] => by simp [unionVals]
  | (n, a) :: as, (m, b) :: bs => by
    cases a <;> cases b <;> simp [unionVals, unionElem, unionVals_eq_zipWith f as bs]

/-- `unionSet` as one element-wise expression (`UDQScalar::assign` = `fin` on every result) -/
theorem unionSet_eq (F : Fns α) (f : α → α → α) (l r : USet α) (hlen : l.vals.length = r.vals.length) :
    unionSet F f l r
      = .ok ⟨l.vt, List.zipWith (fun a b => (a.1, (unionElem f a.2 b.2).bind (fin F))) l.vals r.vals⟩ := by
  simp [unionSet, hlen, unionVals_eq_zipWith, List.map_zipWith]

/-- sets of different size: the code throws -/
theorem unionSet_size_mismatch (F : Fns α) (f : α → α → α) (l r : USet α)
    (hlen : l.vals.length ≠ r.vals.length) : unionSet F f l r = .error () := by
  simp [unionSet, hlen]

/-- value of element `i` of a union -/
theorem unionSet_getElem? (F : Fns α) (f : α → α → α) (l r u : USet α)
    (hu : unionSet F f l r = .ok u) (i : Nat) (a b : String × Option α)
    (ha : l.vals[i]? = some a) (hb : r.vals[i]? = some b) :
    u.vt = l.vt ∧ u.vals.length = l.vals.length ∧
    u.vals[i]? = some (a.1, (unionElem f a.2 b.2).bind (fin F)) := by
  by_cases hlen : l.vals.length = r.vals.length
  · rw [unionSet_eq F f l r hlen] at hu
    cases hu
    refine ⟨rfl, by simp [hlen], ?_⟩
    simp [List.getElem?_zipWith, ha, hb]
  · rw [unionSet_size_mismatch F f l r hlen] at hu
    cases hu

theorem unionElem_left (f : α → α → α) (x : α) : unionElem f (some x) none = some x := rfl
theorem unionElem_right (f : α → α → α) (y : α) : unionElem f none (some y) = some y := rfl
theorem unionElem_none (f : α → α → α) : unionElem f none none = none := rfl
theorem unionElem_both (f : α → α → α) (x y : α) : unionElem f (some x) (some y) = some (f x y) := rfl

theorem unionElem_none_right (f : α → α → α) (a : Option α) : unionElem f a none = a := by
  cases a <;> rfl
theorem unionElem_none_left (f : α → α → α) (b : Option α) : unionElem f none b = b := by
  cases b <;> rfl

theorem unionElem_comm (f : α → α → α) (hf : ∀ x y, f x y = f y x) (a b : Option α) :
    unionElem f a b = unionElem f b a := by
  cases a <;> cases b <;> simp [unionElem, hf]

theorem unionElem_isSome (f : α → α → α) (a b : Option α) :
    (unionElem f a b).isSome = (a.isSome || b.isSome) := by
  cases a <;> cases b <;> rfl

/-- the union operators under their registered names -/
inductive UOp where
  | uadd | umul | umin | umax
  deriving DecidableEq, Repr

def UOp.name : UOp → String
  | .uadd => "UADD"
  | .umul => "UMUL"
  | .umin => "UMIN"
  | .umax => "UMAX"

/-- the both-defined combination as the model (= the code) computes it -/
def UOp.modelFn (F : Fns α) : UOp → α → α → α
  | .uadd => fun x y => F.add y x
  | .umul => fun x y => F.mul y x
  | .umin => uminF F
  | .umax => umaxF F

theorem binFn_union (F : Fns α) (o : UOp) (l r : USet α) :
    binFn F o.name l r = unionSet F (o.modelFn F) l r := by
  cases o <;> rfl

/-- For every operation record: an element defined in exactly one operand takes that operand's
(finite) value whatever the operator; undefined in both stays undefined. -/
theorem union_one_sided_any (F : Fns α) (o : UOp) (l r u : USet α) (hu : binFn F o.name l r = .ok u)
    (i : Nat) (a b : String × Option α) (ha : l.vals[i]? = some a) (hb : r.vals[i]? = some b) :
    (∀ x, a.2 = some x → b.2 = none → u.vals[i]? = some (a.1, fin F x)) ∧
    (∀ y, a.2 = none → b.2 = some y → u.vals[i]? = some (a.1, fin F y)) ∧
    (a.2 = none → b.2 = none → u.vals[i]? = some (a.1, none)) := by
  rw [binFn_union] at hu
  have h := (unionSet_getElem? F _ l r u hu i a b ha hb).2.2
  refine ⟨fun x h1 h2 => ?_, fun y h1 h2 => ?_, fun h1 h2 => ?_⟩ <;>
    simp [h, h1, h2, unionElem]

/-! ### Part 2: the operations read in a linearly ordered field -/

variable {K : Type} [Field K] [LinearOrder K] [IsStrictOrderedRing K]

/-- `F` computes exactly in `K` (no rounding, every value finite) -/
structure Exact (F : Fns K) : Prop where
  add : ∀ a b, F.add a b = a + b
  mul : ∀ a b, F.mul a b = a * b
  lt : ∀ a b, F.lt a b = decide (a < b)
  finite : ∀ a, F.isFinite a = true

/-- the documented meaning of the four operators -/
def UOp.fn : UOp → K → K → K
  | .uadd => (· + ·)
  | .umul => (· * ·)
  | .umin => min
  | .umax => max

theorem fin_exact {F : Fns K} (h : Exact F) (x : K) : fin F x = some x := by
  simp [fin, h.finite]

theorem bind_fin_exact {F : Fns K} (h : Exact F) (v : Option K) : v.bind (fin F) = v := by
  cases v <;> simp [fin_exact h]

theorem uminF_eq_min {F : Fns K} (h : Exact F) (l r : K) : uminF F l r = min l r := by
  unfold uminF; rw [h.lt]
  by_cases hlr : l < r
  · simp [hlr, min_eq_left (le_of_lt hlr)]
  · simp [hlr, min_eq_right (not_lt.mp hlr)]

theorem umaxF_eq_max {F : Fns K} (h : Exact F) (l r : K) : umaxF F l r = max l r := by
  unfold umaxF; rw [h.lt]
  by_cases hlr : r < l
  · simp [hlr, max_eq_left (le_of_lt hlr)]
  · simp [hlr, max_eq_right (not_lt.mp hlr)]

theorem modelFn_eq_fn {F : Fns K} (h : Exact F) (o : UOp) : o.modelFn F = o.fn := by
  cases o
  · funext x y; simp [UOp.modelFn, UOp.fn, h.add, add_comm]
  · funext x y; simp [UOp.modelFn, UOp.fn, h.mul, mul_comm]
  · funext x y; simp [UOp.modelFn, UOp.fn, uminF_eq_min h]
  · funext x y; simp [UOp.modelFn, UOp.fn, umaxF_eq_max h]

theorem UOp.fn_comm (o : UOp) (x y : K) : o.fn x y = o.fn y x := by
  cases o
  · exact add_comm x y
  · exact mul_comm x y
  · exact min_comm x y
  · exact max_comm x y

/-- **Union semantics**: for sets of equal size the model of `A UADD/UMUL/UMIN/UMAX B` is the
element-wise `unionElem` of `+`, `*`, `min`, `max`, names and kind of the left operand. -/
theorem binFn_union_exact {F : Fns K} (h : Exact F) (o : UOp) (l r : USet K)
    (hlen : l.vals.length = r.vals.length) :
    binFn F o.name l r
      = .ok ⟨l.vt, List.zipWith (fun a b => (a.1, unionElem o.fn a.2 b.2)) l.vals r.vals⟩ := by
  rw [binFn_union, unionSet_eq F _ l r hlen, modelFn_eq_fn h]
  simp [bind_fin_exact h]

/-- element `i` of a union, all four definedness patterns -/
theorem union_elem_exact {F : Fns K} (h : Exact F) (o : UOp) (l r : USet K)
    (hlen : l.vals.length = r.vals.length) (i : Nat) (a b : String × Option K)
    (ha : l.vals[i]? = some a) (hb : r.vals[i]? = some b) :
    ∃ u, binFn F o.name l r = .ok u ∧ u.vt = l.vt ∧ u.vals.length = l.vals.length ∧
      u.vals[i]? = some (a.1, unionElem o.fn a.2 b.2) := by
  refine ⟨_, binFn_union_exact h o l r hlen, rfl, by simp [hlen], ?_⟩
  simp [List.getElem?_zipWith, ha, hb]

/-- commutativity: the values (not the names, which are the left operand's) of `A op B` and
`B op A` agree -/
theorem union_comm_exact {F : Fns K} (h : Exact F) (o : UOp) (l r : USet K)
    (hlen : l.vals.length = r.vals.length) :
    ∃ u u', binFn F o.name l r = .ok u ∧ binFn F o.name r l = .ok u' ∧
      u.vals.map (·.2) = u'.vals.map (·.2) := by
  refine ⟨_, _, binFn_union_exact h o l r hlen, binFn_union_exact h o r l hlen.symm, ?_⟩
  simp only [List.map_zipWith]
  rw [List.zipWith_comm]
  congr 1
  funext a b
  exact unionElem_comm o.fn o.fn_comm b.2 a.2

theorem unionElem_max_ge (a b : Option K) :
    (∀ x, a = some x → ∃ z, unionElem max a b = some z ∧ x ≤ z) ∧
    (∀ y, b = some y → ∃ z, unionElem max a b = some z ∧ y ≤ z) := by
  cases a <;> cases b <;> simp [unionElem]

theorem unionElem_min_le (a b : Option K) :
    (∀ x, a = some x → ∃ z, unionElem min a b = some z ∧ z ≤ x) ∧
    (∀ y, b = some y → ∃ z, unionElem min a b = some z ∧ z ≤ y) := by
  cases a <;> cases b <;> simp [unionElem]

/-- the UMAX / UMIN value is one of the operands' values -/
theorem unionElem_max_mem (a b : Option K) (z : K) (hz : unionElem max a b = some z) :
    a = some z ∨ b = some z := by
  cases a <;> cases b <;> simp [unionElem] at hz ⊢
  · exact hz
  · exact hz
  · rename_i x y
    rcases max_choice x y with hm | hm
    · left; rw [← hz, hm]
    · right; rw [← hz, hm]

theorem unionElem_min_mem (a b : Option K) (z : K) (hz : unionElem min a b = some z) :
    a = some z ∨ b = some z := by
  cases a <;> cases b <;> simp [unionElem] at hz ⊢
  · exact hz
  · exact hz
  · rename_i x y
    rcases min_choice x y with hm | hm
    · left; rw [← hz, hm]
    · right; rw [← hz, hm]

/-- an operand without any defined element is the identity of every union operator -/
theorem zipWith_unionElem_none_right (f : K → K → K) :
    ∀ (as bs : List (String × Option K)), as.length = bs.length → (∀ p ∈ bs, p.2 = none) →
      List.zipWith (fun a b => (a.1, unionElem f a.2 b.2)) as bs = as
  | [], [], _, _ => rfl
  | [], _ :: _, h, _ => by simp at h
  | _ :: _, [], h, _ => by simp at h
  | a :: as, b :: bs, h, hb => by
    have hb0 : b.2 = none := hb b List.mem_cons_self
    have ih := zipWith_unionElem_none_right f as bs (by simpa using h)
      (fun p hp => hb p (List.mem_cons_of_mem _ hp))
    simp [hb0, unionElem_none_right, ih]

theorem zipWith_unionElem_none_left (f : K → K → K) :
    ∀ (as bs : List (String × Option K)), as.length = bs.length → (∀ p ∈ as, p.2 = none) →
      (List.zipWith (fun a b => (a.1, unionElem f a.2 b.2)) as bs).map (·.2) = bs.map (·.2)
  | [], [], _, _ => rfl
  | [], _ :: _, h, _ => by simp at h
  | _ :: _, [], h, _ => by simp at h
  | a :: as, b :: bs, h, ha => by
    have ha0 : a.2 = none := ha a List.mem_cons_self
    have ih := zipWith_unionElem_none_left f as bs (by simpa using h)
      (fun p hp => ha p (List.mem_cons_of_mem _ hp))
    simp [ha0, unionElem_none_left, ih]

theorem union_undefined_right_exact {F : Fns K} (h : Exact F) (o : UOp) (l r : USet K)
    (hlen : l.vals.length = r.vals.length) (hr : ∀ p ∈ r.vals, p.2 = none) :
    binFn F o.name l r = .ok l := by
  rw [binFn_union_exact h o l r hlen, zipWith_unionElem_none_right o.fn l.vals r.vals hlen hr]

theorem union_undefined_left_exact {F : Fns K} (h : Exact F) (o : UOp) (l r : USet K)
    (hlen : l.vals.length = r.vals.length) (hl : ∀ p ∈ l.vals, p.2 = none) :
    ∃ u, binFn F o.name l r = .ok u ∧ u.vals.map (·.2) = r.vals.map (·.2) :=
  ⟨_, binFn_union_exact h o l r hlen, zipWith_unionElem_none_left o.fn l.vals r.vals hlen hl⟩

/-- `max` and `min` have no neutral element in an ordered field: whatever constant `e` a
"substitute a neutral element for the undefined operand" implementation picks, there are values
`x` with `max x e ≠ x` (every `x < e`) — so such an implementation of UMAX cannot satisfy
`union_one_sided`. -/
theorem max_no_neutral (e : K) : ∃ x : K, max x e ≠ x :=
  ⟨e - 1, by
    have h1 : e - 1 < e := by linarith
    rw [max_eq_right (le_of_lt h1)]
    exact ne_of_gt h1⟩

theorem min_no_neutral (e : K) : ∃ x : K, min x e ≠ x :=
  ⟨e + 1, by
    have h1 : e < e + 1 := by linarith
    rw [min_eq_right (le_of_lt h1)]
    exact ne_of_lt h1⟩

/-- more precisely: `max x e = x` exactly for `x ≥ e` — a positive `e` (such as the smallest
positive double) breaks every zero or negative one-sided value -/
theorem max_neutral_iff (e x : K) : max x e = x ↔ e ≤ x := max_eq_left_iff

/-! ### a concrete exact instance (non-vacuity of `Exact`) -/

/-- operations over `ℚ`; the transcendental slots are irrelevant for the union operators -/
def ratFns : Fns ℚ where
  add := (· + ·)
  mul := (· * ·)
  div := (· / ·)
  pow := fun a _ => a
  lt := fun a b => decide (a < b)
  isFinite := fun _ => true
  abs := fun a => |a|
  exp := id
  log := id
  log10 := id
  sqrt := id
  nint := id
  ofNat := fun n => (n : ℚ)
  negOne := -1
  eps := 0
  ofBits := fun _ => 0

theorem ratFns_exact : Exact ratFns := ⟨fun _ _ => rfl, fun _ _ => rfl, fun _ _ => rfl, fun _ => rfl⟩

end OpmVerif.Udq
