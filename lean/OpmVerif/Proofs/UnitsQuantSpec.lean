/-
  C02 — hand-written specification: what each PHYSICAL QUANTITY of the keyword item table
  (`Gen.UnitsQuant.itemQuantities`, a verbatim copy of the hand-written table of
  harness/units_quantities.cpp) is, as a product/quotient of the named dimensions of
  `Spec.dimSpec` (the hand-written SI values of `Proofs/UnitsSpec.lean`).  The value of a quantity is
  computed from `Spec.dimSpec` ONLY — neither the generated unit tables nor the keyword JSON enter.
  Definitions only; core Lean (the model driver answers `units.quant_q` with `quantValue`).
-/
import OpmVerif.Proofs.UnitsSpec
import OpmVerif.Gen.UnitsQuant

namespace OpmVerif.Units.Spec
open OpmVerif.Gen.Units OpmVerif.Gen.UnitsQuant

structure QuantSpec where
  name : String
  num : List String
  den : List String := []

/-- the customary unit of each quantity, by system: see the comments of harness/units_quantities.cpp -/
def quantSpec : List QuantSpec := [
  ⟨"Dimensionless", [], []⟩,
  ⟨"Length", ["Length"], []⟩,                                   -- m, ft, cm, m
  ⟨"Pressure", ["Pressure"], []⟩,                               -- barsa, psia, atma, atma
  ⟨"Temperature", ["Temperature"], []⟩,                         -- °C, °F, °C, °C (the only one with an offset)
  ⟨"Time", ["Time"], []⟩,                                       -- day, day, hr, day
  ⟨"Density", ["Density"], []⟩,                                 -- kg/m³, lb/ft³, g/cc, kg/m³
  ⟨"Viscosity", ["Viscosity"], []⟩,                             -- cP
  ⟨"Permeability", ["Permeability"], []⟩,                       -- mD
  ⟨"Compressibility", [], ["Pressure"]⟩,                        -- 1/bar, 1/psi, 1/atm, 1/atm
  ⟨"GasOilRatio", ["GasSurfaceVolume"], ["LiquidSurfaceVolume"]⟩,   -- sm³/sm³, Mscf/stb, scc/scc
  ⟨"OilGasRatio", ["LiquidSurfaceVolume"], ["GasSurfaceVolume"]⟩,   -- sm³/sm³, stb/Mscf, scc/scc
  ⟨"LiquidFVF", ["ReservoirVolume"], ["LiquidSurfaceVolume"]⟩,      -- rm³/sm³, rb/stb, rcc/scc
  ⟨"GasFVF", ["ReservoirVolume"], ["GasSurfaceVolume"]⟩,            -- rm³/sm³, rb/Mscf, rcc/scc
  ⟨"LiquidRate", ["LiquidSurfaceVolume"], ["Time"]⟩,                -- sm³/day, stb/day, scc/hr
  ⟨"GasRate", ["GasSurfaceVolume"], ["Time"]⟩,                      -- sm³/day, Mscf/day, scc/hr
  ⟨"ReservoirRate", ["ReservoirVolume"], ["Time"]⟩,                 -- rm³/day, rb/day, rcc/hr
  ⟨"Transmissibility", ["Viscosity", "ReservoirVolume"], ["Time", "Pressure"]⟩,   -- cP·rm³/day/bar, cP·rb/day/psi, cP·rcc/hr/atm
  ⟨"PermThickness", ["Permeability", "Length"], []⟩,                -- mD·m, mD·ft, mD·cm
  ⟨"DFactor", ["Time"], ["GasSurfaceVolume"]⟩,                      -- day/sm³, day/Mscf, hr/scc
  ⟨"LiquidVolume", ["LiquidSurfaceVolume"], []⟩,                    -- sm³, stb, scc
  ⟨"ReservoirVolume", ["ReservoirVolume"], []⟩,                     -- rm³, rb, rcc
  ⟨"LiquidPI", ["LiquidSurfaceVolume"], ["Time", "Pressure"]⟩,      -- sm³/day/bar, stb/day/psi, scc/hr/atm
  ⟨"Salinity", ["Mass"], ["LiquidSurfaceVolume"]⟩]                  -- kg/sm³, lb/stb, g/scc

/-- (scale, offset) of a named dimension of deck system `deck` by the hand-written `dimSpec` -/
def specDim (deck dim : String) : Option (Rat × Rat) :=
  (dimSpec.find? (fun e => e.deck == deck && e.dim == dim)).map (fun e => (e.scale, e.offset))

/-- product of offset-free named dimensions by `dimSpec` -/
def specProd (deck : String) : List String → Option Rat
  | [] => some 1
  | n :: ns =>
    match specDim deck n, specProd deck ns with
    | some (f, o), some p => if o = 0 then some (f * p) else none
    | _, _ => none

/-- SI value (scale, offset) of one unit of quantity `q` in deck system `deck` -/
def quantValue (deck q : String) : Option (Rat × Rat) :=
  match quantSpec.find? (·.name == q) with
  | none => none
  | some e =>
    match e.num, e.den with
    | [n], [] => specDim deck n
    | _, _ =>
      match specProd deck e.num, specProd deck e.den with
      | some p, some d => some (p / d, 0)
      | _, _ => none

/-- the dimension list the keyword JSON gives item `key` -/
def jsonDimsOf (key : String) : Option (List String) := (keywordItemDims.find? (·.1 == key)).map (·.2)

/-- column check: the JSON's dimension string `str`, resolved as `ParserItem::scan` resolves it in
`s`, is the unit of quantity `q` ("ContextDependent": the factor-less entry — the consumer converts) -/
def colQuantOk (s : SysDef Rat) (str q : String) : Bool :=
  match s.deckName with
  | none => false
  | some deck =>
    if q == "ContextDependent" then getNewDimension s str == some ⟨none, 0⟩
    else
      match quantValue deck q with
      | some (sc, off) => getNewDimension s str == some ⟨some sc, off⟩
      | none => false

def colsOk (s : SysDef Rat) : List String → List String → Bool
  | [], [] => true
  | str :: strs, q :: qs => colQuantOk s str q && colsOk s strs qs
  | _, _ => false

/-- item check, in every deck system: the JSON lists the item, with as many columns as the
hand-written table, and column by column the same unit -/
def itemQuantOk (e : String × List String) : Bool :=
  match jsonDimsOf e.1 with
  | none => false
  | some strs => deckSystems.all (fun s => colsOk s strs e.2)

/-- every quantity the C++ table has numbers for is specified here, and every quantity an item
uses is one of them (or "ContextDependent") -/
def quantitiesCovered : Bool :=
  quantityNames.all (fun n => (quantSpec.find? (·.name == n)).isSome) &&
  quantSpec.all (fun e => quantityNames.contains e.name) &&
  itemQuantities.all (fun e => e.2.all (fun q => q == "ContextDependent" || quantityNames.contains q))

end OpmVerif.Units.Spec
