/-
  Corner-level form of the fifteen-tetrahedra decomposition (`Proofs/GridVolP.lean`) and the
  general positivity statement that follows from it.
-/
import OpmVerif.Proofs.Grid
import OpmVerif.Proofs.GridVolP

namespace OpmVerif.Grid
open OpmVerif.Gen.CellVol

section
variable {K : Type} [Field K] [CharZero K]

/-- The generated volume formula as a sum of fifteen tetrahedra with apex at corner 0. -/
theorem signedVol_eq_cornerTets (X Y Z : Nat → K) :
    signedVol X Y Z = (cornerTets X Y Z).sum / 12 := by
  rw [signedVol_eq_faceVol, faceVol_eq_cornerTets]

end

section
variable {K : Type} [Field K] [LinearOrder K] [IsStrictOrderedRing K]

/-- **General positivity.**  If none of the fifteen corner-0 tetrahedra is inverted and at least
one has positive volume, the cell volume is positive. -/
theorem signedVol_pos_of_cornerTets (X Y Z : Nat → K) (h : ∀ t ∈ cornerTets X Y Z, 0 ≤ t)
    (hp : ∃ t ∈ cornerTets X Y Z, 0 < t) : 0 < signedVol X Y Z := by
  rw [signedVol_eq_cornerTets]
  exact div_pos (list_sum_pos_of_nonneg_of_exists_pos _ h hp) (by norm_num)

end

end OpmVerif.Grid
