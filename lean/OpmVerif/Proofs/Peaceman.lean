/-
  C06 — lemmas about the Peaceman model instantiated at ℝ.
-/
import OpmVerif.Model.Peaceman
import Mathlib.Analysis.SpecialFunctions.Log.Basic
import Mathlib.Analysis.SpecialFunctions.Sqrt
import Mathlib.Analysis.SpecialFunctions.Pow.Real
import Mathlib.Tactic.Ring
import Mathlib.Tactic.FieldSimp
import Mathlib.Tactic.Linarith

namespace OpmVerif.Peaceman

noncomputable section

/-- The real-number reading of the code's constants and library functions: `angle` is 2π
(in `loadCOMPDAT` *and* in `inverse_peaceman`), `pow` is the real power function. -/
def realFns : Fns ℝ :=
  { sqrt := Real.sqrt, log := Real.log, exp := Real.exp, pow := fun x y => x ^ y, abs := fun x => |x|,
    zero := 0, negOne := -1, two := 2, quarter := 1 / 4, c028 := 28 / 100,
    twoPi := 2 * Real.pi, halfFoot := 1524 / 10000 }

@[simp] theorem rf_zero : realFns.zero = 0 := rfl
@[simp] theorem rf_negOne : realFns.negOne = -1 := rfl
@[simp] theorem rf_two : realFns.two = 2 := rfl
@[simp] theorem rf_twoPi : realFns.twoPi = 2 * Real.pi := rfl
@[simp] theorem rf_log : realFns.log = Real.log := rfl
@[simp] theorem rf_exp : realFns.exp = Real.exp := rfl
@[simp] theorem rf_sqrt : realFns.sqrt = Real.sqrt := rfl

theorem twoPi_pos : (0 : ℝ) < 2 * Real.pi := by positivity
theorem twoPi_ne : (2 * Real.pi : ℝ) ≠ 0 := twoPi_pos.ne'

/-- `log (inverse_peaceman / rw) = 2πKh/CF − S`: the back-computed radius inverts the relation. -/
theorem log_inversePeaceman (cf kh rw skin : ℝ) (hrw : rw ≠ 0) :
    Real.log (inversePeaceman realFns cf kh rw skin / rw) = 2 * Real.pi * kh / cf - skin := by
  unfold inversePeaceman
  simp only [rf_exp, rf_twoPi]
  rw [mul_div_assoc, mul_comm, div_mul_cancel₀ _ hrw, Real.log_exp]

/-- The stored quantities of the tail `finish` when `r0` is back-computed. -/
theorem finish_identity_back (D : V3 ℝ) (Ke rw skin CF Kh r0 denom : ℝ)
    (hr0 : r0 < 0) (hrw : rw ≠ 0) (hCF : CF ≠ 0 ∨ Kh = 0) :
    let c := finish realFns D Ke rw skin CF Kh r0 denom
    c.CF * (Real.log (c.r0 / c.rw) + c.skin) = 2 * Real.pi * c.Kh := by
  intro c
  have h1 : c.r0 = inversePeaceman realFns CF Kh rw skin := by
    simp only [c, finish, rf_zero, hr0, if_true]
  have h2 : c.rw = rw := rfl
  have h3 : c.CF = CF := rfl
  have h4 : c.Kh = Kh := rfl
  have h5 : c.skin = skin := rfl
  rw [h1, h2, h3, h4, h5, log_inversePeaceman _ _ _ _ hrw]
  rcases hCF with h | h
  · field_simp
    ring
  · subst h; simp


/-- The Peaceman relation on a stored record. -/
def Identity (c : CTF ℝ) : Prop :=
  c.CF * (Real.log (c.r0 / c.rw) + c.skin) = 2 * Real.pi * c.Kh

/-- The physical region: positive well-bore radius strictly inside the pressure-equivalent
radius (otherwise the code's clamp `min(rw, r0)` is active), non-zero stored denominator. -/
def Admissible (c : CTF ℝ) : Prop :=
  0 < c.rw ∧ c.rw < c.r0 ∧ c.denom ≠ 0

theorem stdMin_of_le {rw r0 : ℝ} (h : rw ≤ r0) : stdMin rw r0 = rw := by
  unfold stdMin
  rw [if_neg (not_lt.mpr h)]

theorem peacemanDenominator_of_le {r0 rw S : ℝ} (h : rw ≤ r0) :
    peacemanDenominator realFns r0 rw S = Real.log (r0 / rw) + S := by
  unfold peacemanDenominator
  rw [stdMin_of_le h, rf_log]

theorem finish_rw (D : V3 ℝ) (Ke rw skin CF Kh r0 denom : ℝ) :
    (finish realFns D Ke rw skin CF Kh r0 denom).rw = rw := rfl

theorem finish_r0_of_nonneg (D : V3 ℝ) (Ke rw skin CF Kh r0 denom : ℝ) (h : ¬ r0 < 0) :
    (finish realFns D Ke rw skin CF Kh r0 denom).r0 = r0 := by
  simp only [finish, rf_zero, h, if_false]

/-- Both ways the tail can produce `r0`. -/
theorem finish_identity (D : V3 ℝ) (Ke rw skin CF Kh r0 denom : ℝ)
    (hrw : rw ≠ 0) (hCF : CF ≠ 0 ∨ Kh = 0)
    (hdirect : ¬ r0 < 0 → rw < (finish realFns D Ke rw skin CF Kh r0 denom).r0 →
      CF * (Real.log (r0 / rw) + skin) = 2 * Real.pi * Kh) :
    rw < (finish realFns D Ke rw skin CF Kh r0 denom).r0 →
    Identity (finish realFns D Ke rw skin CF Kh r0 denom) := by
  intro hr
  by_cases h : r0 < 0
  · exact finish_identity_back D Ke rw skin CF Kh r0 denom h hrw hCF
  · have := hdirect h hr
    unfold Identity
    rw [finish_r0_of_nonneg _ _ _ _ _ _ _ _ h]
    exact this

/-! ### The branches of `ctfOf` as rewrite rules -/

section branches
variable (inp : Input ℝ) (cell : Cell ℝ)

theorem ctfOf_both (h : 0 < cfInitial realFns inp ∧ 0 < khInitial realFns inp) :
    ctfOf realFns inp cell =
      fin realFns inp cell (cfInitial realFns inp) (khInitial realFns inp) (r0Initial realFns inp)
        (2 * Real.pi * khInitial realFns inp / cfInitial realFns inp) := by
  unfold ctfOf
  rw [if_pos (show realFns.zero < _ ∧ realFns.zero < _ from h)]
  rfl

theorem ctfOf_khGiven (h : ¬ (0 < cfInitial realFns inp ∧ 0 < khInitial realFns inp))
    (hk : 0 < khInitial realFns inp) :
    ctfOf realFns inp cell =
      fin realFns inp cell (2 * Real.pi * khInitial realFns inp / pdOf realFns inp cell)
        (khInitial realFns inp) (r0Used realFns inp cell) (pdOf realFns inp cell) := by
  unfold ctfOf
  rw [if_neg (show ¬ (realFns.zero < _ ∧ realFns.zero < _) from h),
    if_pos (show realFns.zero < _ from hk)]
  rfl

theorem ctfOf_cfGivenKhDefault (hk : ¬ 0 < khInitial realFns inp) (hc : 0 < cfInitial realFns inp)
    (hd : inp.khDefaulted = true) :
    ctfOf realFns inp cell =
      fin realFns inp cell (cfInitial realFns inp)
        (cfInitial realFns inp * pdOf realFns inp cell / (2 * Real.pi)) (r0Used realFns inp cell)
        (2 * Real.pi * (cfInitial realFns inp * pdOf realFns inp cell / (2 * Real.pi)) /
          cfInitial realFns inp) := by
  unfold ctfOf
  rw [if_neg (show ¬ (realFns.zero < _ ∧ realFns.zero < _) from fun h => hk h.2),
    if_neg (show ¬ realFns.zero < _ from hk), if_pos (show realFns.zero < _ from hc), if_pos hd]
  rfl

theorem ctfOf_cfGivenKhZero (hk : ¬ 0 < khInitial realFns inp) (hc : 0 < cfInitial realFns inp)
    (hd : ¬ inp.khDefaulted = true) :
    ctfOf realFns inp cell =
      fin realFns inp cell (cfInitial realFns inp) (khCell realFns inp cell) (-1)
        (2 * Real.pi * khCell realFns inp cell / cfInitial realFns inp) := by
  unfold ctfOf
  rw [if_neg (show ¬ (realFns.zero < _ ∧ realFns.zero < _) from fun h => hk h.2),
    if_neg (show ¬ realFns.zero < _ from hk), if_pos (show realFns.zero < _ from hc), if_neg hd]
  rfl

theorem ctfOf_neither (hk : ¬ 0 < khInitial realFns inp) (hc : ¬ 0 < cfInitial realFns inp) :
    ctfOf realFns inp cell =
      fin realFns inp cell (2 * Real.pi * khCell realFns inp cell / pdOf realFns inp cell)
        (khCell realFns inp cell) (r0Used realFns inp cell) (pdOf realFns inp cell) := by
  unfold ctfOf
  rw [if_neg (show ¬ (realFns.zero < _ ∧ realFns.zero < _) from fun h => hk h.2),
    if_neg (show ¬ realFns.zero < _ from hk), if_neg (show ¬ realFns.zero < _ from hc)]
  rfl

end branches

/-- `finish_identity` for the per-record wrapper `fin`. -/
theorem fin_identity (inp : Input ℝ) (cell : Cell ℝ) (CF Kh r0 denom : ℝ)
    (hrw : wellRadius realFns inp ≠ 0) (hCF : CF ≠ 0 ∨ Kh = 0)
    (hr : wellRadius realFns inp < (fin realFns inp cell CF Kh r0 denom).r0)
    (hdirect : ¬ r0 < 0 → wellRadius realFns inp < r0 →
      CF * (Real.log (r0 / wellRadius realFns inp) + inp.skin) = 2 * Real.pi * Kh) :
    Identity (fin realFns inp cell CF Kh r0 denom) := by
  unfold fin at hr ⊢
  refine finish_identity _ _ _ _ _ _ _ _ hrw hCF (fun h hr' => ?_) hr
  rw [finish_r0_of_nonneg _ _ _ _ _ _ _ _ h] at hr'
  exact hdirect h hr'

theorem fin_rw (inp : Input ℝ) (cell : Cell ℝ) (CF Kh r0 denom : ℝ) :
    (fin realFns inp cell CF Kh r0 denom).rw = wellRadius realFns inp := rfl

theorem fin_denom (inp : Input ℝ) (cell : Cell ℝ) (CF Kh r0 denom : ℝ) :
    (fin realFns inp cell CF Kh r0 denom).denom = denom := rfl

theorem pdOf_of_lt (inp : Input ℝ) (cell : Cell ℝ)
    (h : wellRadius realFns inp < r0Used realFns inp cell) :
    pdOf realFns inp cell =
      Real.log (r0Used realFns inp cell / wellRadius realFns inp) + inp.skin := by
  unfold pdOf
  exact peacemanDenominator_of_le h.le

/-- Branch 1: CF and Kh given, r0 defaulted (or negative): r0 is back-computed. -/
theorem identity_both (inp : Input ℝ) (cell : Cell ℝ)
    (h : 0 < cfInitial realFns inp ∧ 0 < khInitial realFns inp)
    (hr0 : r0Initial realFns inp < 0) (hrw : wellRadius realFns inp ≠ 0) :
    Identity (ctfOf realFns inp cell) := by
  rw [ctfOf_both inp cell h]
  unfold fin
  exact finish_identity_back _ _ _ _ _ _ _ _ hr0 hrw (Or.inl h.1.ne')

/-- Branch 2: Kh given, CF computed. -/
theorem identity_khGiven (inp : Input ℝ) (cell : Cell ℝ)
    (h : ¬ (0 < cfInitial realFns inp ∧ 0 < khInitial realFns inp))
    (hk : 0 < khInitial realFns inp)
    (hadm : Admissible (ctfOf realFns inp cell)) :
    Identity (ctfOf realFns inp cell) := by
  obtain ⟨hrw, hr, hden⟩ := hadm
  rw [ctfOf_khGiven inp cell h hk] at hrw hr hden ⊢
  rw [fin_rw] at hrw hr
  rw [fin_denom] at hden
  refine fin_identity inp cell _ _ _ _ hrw.ne' (Or.inl ?_) hr (fun _ hlt => ?_)
  · exact div_ne_zero (mul_ne_zero twoPi_ne hk.ne') hden
  · rw [← pdOf_of_lt inp cell hlt, div_mul_cancel₀ _ hden]

/-- Branch 3a: CF given, Kh defaulted or negative: Kh is derived from CF. -/
theorem identity_cfGivenKhDefault (inp : Input ℝ) (cell : Cell ℝ)
    (hk : ¬ 0 < khInitial realFns inp) (hc : 0 < cfInitial realFns inp)
    (hd : inp.khDefaulted = true)
    (hrw : 0 < (ctfOf realFns inp cell).rw)
    (hr : (ctfOf realFns inp cell).rw < (ctfOf realFns inp cell).r0) :
    Identity (ctfOf realFns inp cell) := by
  rw [ctfOf_cfGivenKhDefault inp cell hk hc hd] at hrw hr ⊢
  rw [fin_rw] at hrw hr
  refine fin_identity inp cell _ _ _ _ hrw.ne' (Or.inl hc.ne') hr (fun _ hlt => ?_)
  rw [← pdOf_of_lt inp cell hlt]
  field_simp

/-- Branch 3b: CF given, Kh = 0 entered: Kh from the cell, r0 back-computed. -/
theorem identity_cfGivenKhZero (inp : Input ℝ) (cell : Cell ℝ)
    (hk : ¬ 0 < khInitial realFns inp) (hc : 0 < cfInitial realFns inp)
    (hd : ¬ inp.khDefaulted = true) (hrw : wellRadius realFns inp ≠ 0) :
    Identity (ctfOf realFns inp cell) := by
  rw [ctfOf_cfGivenKhZero inp cell hk hc hd]
  unfold fin
  exact finish_identity_back _ _ _ _ _ _ _ _ (by norm_num) hrw (Or.inl hc.ne')

/-- Branch 4: neither given: Kh from the cell, CF computed. -/
theorem identity_neither (inp : Input ℝ) (cell : Cell ℝ)
    (hk : ¬ 0 < khInitial realFns inp) (hc : ¬ 0 < cfInitial realFns inp)
    (hadm : Admissible (ctfOf realFns inp cell)) :
    Identity (ctfOf realFns inp cell) := by
  obtain ⟨hrw, hr, hden⟩ := hadm
  rw [ctfOf_neither inp cell hk hc] at hrw hr hden ⊢
  rw [fin_rw] at hrw hr
  rw [fin_denom] at hden
  by_cases hK : khCell realFns inp cell = 0
  · refine fin_identity inp cell _ _ _ _ hrw.ne' (Or.inr hK) hr (fun _ hlt => ?_)
    rw [← pdOf_of_lt inp cell hlt, div_mul_cancel₀ _ hden]
  · refine fin_identity inp cell _ _ _ _ hrw.ne' (Or.inl ?_) hr (fun _ hlt => ?_)
    · exact div_ne_zero (mul_ne_zero twoPi_ne hK) hden
    · rw [← pdOf_of_lt inp cell hlt, div_mul_cancel₀ _ hden]

/-- **Peaceman identity**, all branches of `loadCOMPDAT` at once.  The only input excluded
is the one where CF, Kh *and* a non-negative r0 are all given explicitly: those three are
stored as given, so the relation holds iff the input satisfies it
(`identity_all_explicit_iff`). -/
theorem identity_of_admissible (inp : Input ℝ) (cell : Cell ℝ)
    (hadm : Admissible (ctfOf realFns inp cell))
    (hexp : (0 < cfInitial realFns inp ∧ 0 < khInitial realFns inp) → r0Initial realFns inp < 0) :
    Identity (ctfOf realFns inp cell) := by
  have hrw : wellRadius realFns inp ≠ 0 := by
    have := hadm.1
    by_cases h : 0 < cfInitial realFns inp ∧ 0 < khInitial realFns inp
    · rw [ctfOf_both inp cell h, fin_rw] at this; exact this.ne'
    · by_cases hk : 0 < khInitial realFns inp
      · rw [ctfOf_khGiven inp cell h hk, fin_rw] at this; exact this.ne'
      · by_cases hc : 0 < cfInitial realFns inp
        · by_cases hd : inp.khDefaulted = true
          · rw [ctfOf_cfGivenKhDefault inp cell hk hc hd, fin_rw] at this; exact this.ne'
          · rw [ctfOf_cfGivenKhZero inp cell hk hc hd, fin_rw] at this; exact this.ne'
        · rw [ctfOf_neither inp cell hk hc, fin_rw] at this; exact this.ne'
  by_cases h : 0 < cfInitial realFns inp ∧ 0 < khInitial realFns inp
  · exact identity_both inp cell h (hexp h) hrw
  · by_cases hk : 0 < khInitial realFns inp
    · exact identity_khGiven inp cell h hk hadm
    · by_cases hc : 0 < cfInitial realFns inp
      · by_cases hd : inp.khDefaulted = true
        · exact identity_cfGivenKhDefault inp cell hk hc hd hadm.1 hadm.2.1
        · exact identity_cfGivenKhZero inp cell hk hc hd hrw
      · exact identity_neither inp cell hk hc hadm

/-- All three of CF, Kh, r0 explicit: stored as given, so the relation is exactly the
relation on the input. -/
theorem identity_all_explicit_iff (inp : Input ℝ) (cell : Cell ℝ)
    (h : 0 < cfInitial realFns inp ∧ 0 < khInitial realFns inp)
    (hr0 : ¬ r0Initial realFns inp < 0) :
    Identity (ctfOf realFns inp cell) ↔
      cfInitial realFns inp * (Real.log (r0Initial realFns inp / wellRadius realFns inp) + inp.skin)
        = 2 * Real.pi * khInitial realFns inp := by
  rw [ctfOf_both inp cell h]
  unfold Identity fin
  rw [finish_r0_of_nonneg _ _ _ _ _ _ _ _ hr0]
  rfl

/-! ### Defaults -/

theorem effectiveRadius_nonneg (K D : V3 ℝ) (h0 : 0 ≤ K.a0) (h1 : 0 ≤ K.a1) :
    0 ≤ effectiveRadius realFns K D := by
  unfold effectiveRadius
  simp only [realFns]
  have hden : 0 ≤ (K.a0 / K.a1) ^ (1 / 4 : ℝ) + (K.a1 / K.a0) ^ (1 / 4 : ℝ) :=
    add_nonneg (Real.rpow_nonneg (div_nonneg h0 h1) _) (Real.rpow_nonneg (div_nonneg h1 h0) _)
  exact mul_nonneg (by norm_num) (div_nonneg (Real.sqrt_nonneg _) hden)

/-- Every branch stores `fin … CF Kh r0 denom` for some values. -/
theorem ctfOf_shape (inp : Input ℝ) (cell : Cell ℝ) :
    ∃ CF Kh r0 denom, ctfOf realFns inp cell = fin realFns inp cell CF Kh r0 denom := by
  by_cases h : 0 < cfInitial realFns inp ∧ 0 < khInitial realFns inp
  · exact ⟨_, _, _, _, ctfOf_both inp cell h⟩
  · by_cases hk : 0 < khInitial realFns inp
    · exact ⟨_, _, _, _, ctfOf_khGiven inp cell h hk⟩
    · by_cases hc : 0 < cfInitial realFns inp
      · by_cases hd : inp.khDefaulted = true
        · exact ⟨_, _, _, _, ctfOf_cfGivenKhDefault inp cell hk hc hd⟩
        · exact ⟨_, _, _, _, ctfOf_cfGivenKhZero inp cell hk hc hd⟩
      · exact ⟨_, _, _, _, ctfOf_neither inp cell hk hc⟩

/-- Defaulted Kh (nothing given, or CF given with `Kh = 0` entered) is `Ke · D₂`. -/
theorem Kh_default (inp : Input ℝ) (cell : Cell ℝ) (hk : ¬ 0 < khInitial realFns inp)
    (h : ¬ 0 < cfInitial realFns inp ∨ ¬ inp.khDefaulted = true) :
    (ctfOf realFns inp cell).Kh = khCell realFns inp cell := by
  by_cases hc : 0 < cfInitial realFns inp
  · rcases h with h | h
    · exact absurd hc h
    · rw [ctfOf_cfGivenKhZero inp cell hk hc h]; rfl
  · rw [ctfOf_neither inp cell hk hc]; rfl

/-- Defaulted r0 (not given and not back-computed) is `effectiveRadius(K, D)`. -/
theorem r0_default (inp : Input ℝ) (cell : Cell ℝ) (hr0 : r0Initial realFns inp < 0)
    (hk : ¬ 0 < khInitial realFns inp → 0 < cfInitial realFns inp → inp.khDefaulted = true)
    (hb : ¬ (0 < cfInitial realFns inp ∧ 0 < khInitial realFns inp))
    (hnn : 0 ≤ effectiveRadius realFns (cellK inp cell) (cellD inp cell)) :
    (ctfOf realFns inp cell).r0 = effectiveRadius realFns (cellK inp cell) (cellD inp cell) := by
  have hu : r0Used realFns inp cell = effectiveRadius realFns (cellK inp cell) (cellD inp cell) := by
    unfold r0Used
    rw [if_pos (show r0Initial realFns inp < realFns.zero from hr0)]
  have hn : ¬ r0Used realFns inp cell < 0 := by rw [hu]; exact not_lt.mpr hnn
  by_cases hk' : 0 < khInitial realFns inp
  · rw [ctfOf_khGiven inp cell hb hk']; unfold fin
    rw [finish_r0_of_nonneg _ _ _ _ _ _ _ _ hn, hu]
  · by_cases hc : 0 < cfInitial realFns inp
    · rw [ctfOf_cfGivenKhDefault inp cell hk' hc (hk hk' hc)]; unfold fin
      rw [finish_r0_of_nonneg _ _ _ _ _ _ _ _ hn, hu]
    · rw [ctfOf_neither inp cell hk' hc]; unfold fin
      rw [finish_r0_of_nonneg _ _ _ _ _ _ _ _ hn, hu]

/-! ### Feeding computed values back as explicit input -/

/-- The stored `peaceman_denom` is `2πKh/CF` in every branch (when CF and Kh are positive). -/
theorem denom_eq (inp : Input ℝ) (cell : Cell ℝ)
    (hCF : 0 < (ctfOf realFns inp cell).CF) :
    (ctfOf realFns inp cell).denom =
      2 * Real.pi * (ctfOf realFns inp cell).Kh / (ctfOf realFns inp cell).CF := by
  have key : ∀ (a pd : ℝ), 0 < 2 * Real.pi * a / pd → pd = 2 * Real.pi * a / (2 * Real.pi * a / pd) := by
    intro a pd h
    have hpd : pd ≠ 0 := by
      rintro rfl
      simp at h
    have hnum : 2 * Real.pi * a ≠ 0 := by
      intro h0
      rw [h0, zero_div] at h
      exact lt_irrefl _ h
    have ha : a ≠ 0 := fun h0 => hnum (by rw [h0, mul_zero])
    field_simp
  by_cases h : 0 < cfInitial realFns inp ∧ 0 < khInitial realFns inp
  · rw [ctfOf_both inp cell h]; rfl
  · by_cases hk : 0 < khInitial realFns inp
    · rw [ctfOf_khGiven inp cell h hk] at hCF ⊢
      exact key _ _ hCF
    · by_cases hc : 0 < cfInitial realFns inp
      · by_cases hd : inp.khDefaulted = true
        · rw [ctfOf_cfGivenKhDefault inp cell hk hc hd]; rfl
        · rw [ctfOf_cfGivenKhZero inp cell hk hc hd]; rfl
      · rw [ctfOf_neither inp cell hk hc] at hCF ⊢
        exact key _ _ hCF

/-- Re-entering the stored r0 reproduces the record. -/
theorem fin_idem (inp : Input ℝ) (cell : Cell ℝ) (CF Kh r0 denom : ℝ)
    (h : 0 ≤ (fin realFns inp cell CF Kh r0 denom).r0) :
    fin realFns inp cell CF Kh (fin realFns inp cell CF Kh r0 denom).r0 denom =
      fin realFns inp cell CF Kh r0 denom := by
  by_cases hr : r0 < 0
  · unfold fin finish at h ⊢
    simp only [CTF.mk.injEq, true_and, and_true]
    simp only [] at h
    rw [if_pos (show r0 < realFns.zero from hr)] at h ⊢
    rw [if_neg (show ¬ _ < realFns.zero from not_lt.mpr h)]
  · unfold fin
    rw [finish_r0_of_nonneg _ _ _ _ _ _ _ _ hr]

/-- The record with items 8, 10 and 14 replaced by the stored CF, Kh, r0. -/
def feedBack (inp : Input ℝ) (c : CTF ℝ) : Input ℝ :=
  { inp with cf := some c.CF, kh := c.Kh, khDefaulted := false, r0 := some c.r0 }

/-- Entering explicitly the values that were computed changes nothing (any original record,
any branch). -/
theorem feedback_all (inp : Input ℝ) (cell : Cell ℝ)
    (hCF : 0 < (ctfOf realFns inp cell).CF) (hKh : 0 < (ctfOf realFns inp cell).Kh)
    (hr0 : 0 ≤ (ctfOf realFns inp cell).r0) :
    ctfOf realFns (feedBack inp (ctfOf realFns inp cell)) cell = ctfOf realFns inp cell := by
  have hden := denom_eq inp cell hCF
  obtain ⟨CF, Kh, r0, denom, hshape⟩ := ctfOf_shape inp cell
  set c := ctfOf realFns inp cell with hc
  have h1 : cfInitial realFns (feedBack inp c) = c.CF := by
    simp only [cfInitial, feedBack, rf_zero, hCF, if_true]
  have h2 : khInitial realFns (feedBack inp c) = c.Kh := by
    simp only [khInitial, feedBack, rf_zero, hKh, if_true]
  have h3 : r0Initial realFns (feedBack inp c) = c.r0 := rfl
  rw [ctfOf_both (feedBack inp c) cell (by rw [h1, h2]; exact ⟨hCF, hKh⟩), h1, h2, h3]
  have hfin : ∀ a b e d, fin realFns (feedBack inp c) cell a b e d = fin realFns inp cell a b e d :=
    fun _ _ _ _ => rfl
  rw [hfin, ← hden]
  rw [hshape] at hr0 ⊢
  exact fin_idem inp cell CF Kh r0 denom hr0

/-- Nothing given, then only the computed CF entered (Kh still defaulted): same record. -/
theorem feedback_CF (inp : Input ℝ) (cell : Cell ℝ)
    (hk : ¬ 0 < khInitial realFns inp) (hc : ¬ 0 < cfInitial realFns inp)
    (hd : inp.khDefaulted = true)
    (hCF : 0 < (ctfOf realFns inp cell).CF) :
    ctfOf realFns { inp with cf := some (ctfOf realFns inp cell).CF } cell = ctfOf realFns inp cell := by
  set c := ctfOf realFns inp cell with hcdef
  have h1 : cfInitial realFns { inp with cf := some c.CF } = c.CF := by
    simp only [cfInitial, rf_zero, hCF, if_true]
  have h2 : khInitial realFns { inp with cf := some c.CF } = khInitial realFns inp := rfl
  rw [ctfOf_cfGivenKhDefault { inp with cf := some c.CF } cell (by rw [h2]; exact hk) (by rw [h1]; exact hCF) hd, h1]
  have hpd : pdOf realFns { inp with cf := some c.CF } cell = pdOf realFns inp cell := rfl
  have hr : r0Used realFns { inp with cf := some c.CF } cell = r0Used realFns inp cell := rfl
  have hfin : ∀ a b e d, fin realFns { inp with cf := some c.CF } cell a b e d = fin realFns inp cell a b e d :=
    fun _ _ _ _ => rfl
  rw [hpd, hr, hfin]
  rw [hcdef, ctfOf_neither inp cell hk hc] at hCF ⊢
  have hCF' : 0 < 2 * Real.pi * khCell realFns inp cell / pdOf realFns inp cell := hCF
  have hpd0 : pdOf realFns inp cell ≠ 0 := by
    intro h0; rw [h0, div_zero] at hCF'; exact lt_irrefl _ hCF'
  have hnum : 2 * Real.pi * khCell realFns inp cell ≠ 0 := by
    intro h0; rw [h0, zero_div] at hCF'; exact lt_irrefl _ hCF'
  have hkc0 : khCell realFns inp cell ≠ 0 := fun h0 => hnum (by rw [h0, mul_zero])
  have e1 : (fin realFns inp cell (2 * Real.pi * khCell realFns inp cell / pdOf realFns inp cell)
      (khCell realFns inp cell) (r0Used realFns inp cell) (pdOf realFns inp cell)).CF
      = 2 * Real.pi * khCell realFns inp cell / pdOf realFns inp cell := rfl
  rw [e1]
  have e2 : 2 * Real.pi * khCell realFns inp cell / pdOf realFns inp cell * pdOf realFns inp cell / (2 * Real.pi)
      = khCell realFns inp cell := by
    field_simp
  rw [e2]
  have e3 : 2 * Real.pi * khCell realFns inp cell / (2 * Real.pi * khCell realFns inp cell / pdOf realFns inp cell)
      = pdOf realFns inp cell := by
    field_simp
  rw [e3]

/-- Nothing given, then only the computed Kh entered: same record. -/
theorem feedback_Kh (inp : Input ℝ) (cell : Cell ℝ)
    (hk : ¬ 0 < khInitial realFns inp) (hc : ¬ 0 < cfInitial realFns inp)
    (hKh : 0 < (ctfOf realFns inp cell).Kh) :
    ctfOf realFns { inp with kh := (ctfOf realFns inp cell).Kh } cell = ctfOf realFns inp cell := by
  set c := ctfOf realFns inp cell with hcdef
  have h1 : khInitial realFns { inp with kh := c.Kh } = c.Kh := by
    simp only [khInitial, rf_zero, hKh, if_true]
  have h2 : cfInitial realFns { inp with kh := c.Kh } = cfInitial realFns inp := rfl
  rw [ctfOf_khGiven { inp with kh := c.Kh } cell (by rw [h2]; exact fun h => hc h.1) (by rw [h1]; exact hKh), h1]
  have hpd : pdOf realFns { inp with kh := c.Kh } cell = pdOf realFns inp cell := rfl
  have hr : r0Used realFns { inp with kh := c.Kh } cell = r0Used realFns inp cell := rfl
  have hfin : ∀ a b e d, fin realFns { inp with kh := c.Kh } cell a b e d = fin realFns inp cell a b e d :=
    fun _ _ _ _ => rfl
  rw [hpd, hr, hfin, hcdef, ctfOf_neither inp cell hk hc]
  rfl

/-- r0 not given and not back-computed, then the stored r0 entered: same record. -/
theorem feedback_r0 (inp : Input ℝ) (cell : Cell ℝ) (hr0 : r0Initial realFns inp < 0)
    (hk : ¬ 0 < khInitial realFns inp → 0 < cfInitial realFns inp → inp.khDefaulted = true)
    (hb : ¬ (0 < cfInitial realFns inp ∧ 0 < khInitial realFns inp))
    (hnn : 0 ≤ effectiveRadius realFns (cellK inp cell) (cellD inp cell)) :
    ctfOf realFns { inp with r0 := some (ctfOf realFns inp cell).r0 } cell = ctfOf realFns inp cell := by
  have hst := r0_default inp cell hr0 hk hb hnn
  have hu : r0Used realFns inp cell = effectiveRadius realFns (cellK inp cell) (cellD inp cell) := by
    unfold r0Used
    rw [if_pos (show r0Initial realFns inp < realFns.zero from hr0)]
  set c := ctfOf realFns inp cell with hcdef
  have hu' : r0Used realFns { inp with r0 := some c.r0 } cell = r0Used realFns inp cell := by
    rw [hu, ← hst]
    unfold r0Used
    have : r0Initial realFns { inp with r0 := some c.r0 } = c.r0 := rfl
    rw [this, if_neg]
    rw [hst]; exact not_lt.mpr hnn
  have hpd : pdOf realFns { inp with r0 := some c.r0 } cell = pdOf realFns inp cell := by
    unfold pdOf; rw [hu']; rfl
  have hfin : ∀ a b e d, fin realFns { inp with r0 := some c.r0 } cell a b e d = fin realFns inp cell a b e d :=
    fun _ _ _ _ => rfl
  have hkI : khInitial realFns { inp with r0 := some c.r0 } = khInitial realFns inp := rfl
  have hcI : cfInitial realFns { inp with r0 := some c.r0 } = cfInitial realFns inp := rfl
  have hkc : khCell realFns { inp with r0 := some c.r0 } cell = khCell realFns inp cell := rfl
  by_cases hk' : 0 < khInitial realFns inp
  · rw [ctfOf_khGiven { inp with r0 := some c.r0 } cell (by rw [hcI, hkI]; exact hb) (by rw [hkI]; exact hk'), hpd, hu', hfin, hkI,
      hcdef, ctfOf_khGiven inp cell hb hk']
  · by_cases hc : 0 < cfInitial realFns inp
    · rw [ctfOf_cfGivenKhDefault { inp with r0 := some c.r0 } cell (by rw [hkI]; exact hk') (by rw [hcI]; exact hc) (hk hk' hc),
        hpd, hu', hfin, hcI, hcdef, ctfOf_cfGivenKhDefault inp cell hk' hc (hk hk' hc)]
    · rw [ctfOf_neither { inp with r0 := some c.r0 } cell (by rw [hkI]; exact hk') (by rw [hcI]; exact hc), hpd, hu', hfin, hkc,
        hcdef, ctfOf_neither inp cell hk' hc]

/-! ### The clamp `min(rw, r0)`: why `rw < r0` is a hypothesis -/

theorem stdMin_of_lt {rw r0 : ℝ} (h : r0 < rw) : stdMin rw r0 = r0 := by
  unfold stdMin
  rw [if_pos h]

/-- With `0 < r0 < rw` the code's denominator degenerates to the skin factor alone. -/
theorem pdOf_clamped (inp : Input ℝ) (cell : Cell ℝ) (h0 : 0 < r0Used realFns inp cell)
    (hlt : r0Used realFns inp cell < wellRadius realFns inp) :
    pdOf realFns inp cell = inp.skin := by
  unfold pdOf peacemanDenominator
  rw [stdMin_of_lt hlt, rf_log, div_self h0.ne', Real.log_one, zero_add]

/-- What holds in the clamp region instead of the Peaceman relation: `CF · S = 2πKh`. -/
theorem clamped_relation (inp : Input ℝ) (cell : Cell ℝ)
    (hk : ¬ 0 < khInitial realFns inp) (hc : ¬ 0 < cfInitial realFns inp)
    (h0 : 0 < r0Used realFns inp cell) (hlt : r0Used realFns inp cell < wellRadius realFns inp)
    (hS : inp.skin ≠ 0) :
    (ctfOf realFns inp cell).CF * (ctfOf realFns inp cell).skin =
      2 * Real.pi * (ctfOf realFns inp cell).Kh := by
  rw [ctfOf_neither inp cell hk hc, pdOf_clamped inp cell h0 hlt]
  show 2 * Real.pi * khCell realFns inp cell / inp.skin * inp.skin = 2 * Real.pi * khCell realFns inp cell
  rw [div_mul_cancel₀ _ hS]

/-- **The hypothesis `rw < r0` cannot be dropped**: for a fully defaulted record in a cell
whose Peaceman radius is smaller than the well-bore radius (and non-zero skin, non-zero Kh)
the stored quantities violate the relation. -/
theorem clamp_breaks_identity (inp : Input ℝ) (cell : Cell ℝ)
    (hk : ¬ 0 < khInitial realFns inp) (hc : ¬ 0 < cfInitial realFns inp)
    (h0 : 0 < r0Used realFns inp cell) (hlt : r0Used realFns inp cell < wellRadius realFns inp)
    (hS : inp.skin ≠ 0) (hK : khCell realFns inp cell ≠ 0) :
    ¬ Identity (ctfOf realFns inp cell) := by
  intro hid
  have hcl := clamped_relation inp cell hk hc h0 hlt hS
  unfold Identity at hid
  rw [mul_add, hcl] at hid
  have hzero : (ctfOf realFns inp cell).CF *
      Real.log ((ctfOf realFns inp cell).r0 / (ctfOf realFns inp cell).rw) = 0 := by linarith
  rw [ctfOf_neither inp cell hk hc, pdOf_clamped inp cell h0 hlt] at hzero
  have hr : (fin realFns inp cell (2 * Real.pi * khCell realFns inp cell / inp.skin)
      (khCell realFns inp cell) (r0Used realFns inp cell) inp.skin).r0 = r0Used realFns inp cell := by
    unfold fin
    exact finish_r0_of_nonneg _ _ _ _ _ _ _ _ (not_lt.mpr h0.le)
  rw [hr] at hzero
  have hCF : (2 * Real.pi * khCell realFns inp cell / inp.skin) ≠ 0 :=
    div_ne_zero (mul_ne_zero twoPi_ne hK) hS
  have hlog : Real.log (r0Used realFns inp cell / wellRadius realFns inp) < 0 := by
    apply Real.log_neg (div_pos h0 (h0.trans hlt))
    rw [div_lt_one (h0.trans hlt)]
    exact hlt
  rcases mul_eq_zero.mp hzero with h | h
  · exact hCF h
  · exact hlog.ne h

/-! ### The defaults written out per direction -/

theorem effectiveRadius_formula (K D : V3 ℝ) :
    effectiveRadius realFns K D =
      0.28 * Real.sqrt (Real.sqrt (K.a1 / K.a0) * D.a0 ^ 2 + Real.sqrt (K.a0 / K.a1) * D.a1 ^ 2) /
        ((K.a0 / K.a1) ^ (1 / 4 : ℝ) + (K.a1 / K.a0) ^ (1 / 4 : ℝ)) := by
  unfold effectiveRadius
  simp only [realFns]
  rw [mul_div_assoc, pow_two, pow_two]
  norm_num

theorem cellK_X (inp : Input ℝ) (cell : Cell ℝ) (h : inp.dir = .X) :
    cellK inp cell = ⟨cell.perm.a1, cell.perm.a2, cell.perm.a0⟩ := by
  unfold cellK permComponents permute; rw [h]; rfl
theorem cellK_Y (inp : Input ℝ) (cell : Cell ℝ) (h : inp.dir = .Y) :
    cellK inp cell = ⟨cell.perm.a2, cell.perm.a0, cell.perm.a1⟩ := by
  unfold cellK permComponents permute; rw [h]; rfl
theorem cellK_Z (inp : Input ℝ) (cell : Cell ℝ) (h : inp.dir = .Z) :
    cellK inp cell = ⟨cell.perm.a0, cell.perm.a1, cell.perm.a2⟩ := by
  unfold cellK permComponents permute; rw [h]; rfl
theorem cellD_X (inp : Input ℝ) (cell : Cell ℝ) (h : inp.dir = .X) :
    cellD inp cell = ⟨cell.dims.a1, cell.dims.a2 * cell.ntg, cell.dims.a0⟩ := by
  unfold cellD effectiveExtent permute; rw [h]; rfl
theorem cellD_Y (inp : Input ℝ) (cell : Cell ℝ) (h : inp.dir = .Y) :
    cellD inp cell = ⟨cell.dims.a2 * cell.ntg, cell.dims.a0, cell.dims.a1⟩ := by
  unfold cellD effectiveExtent permute; rw [h]; rfl
theorem cellD_Z (inp : Input ℝ) (cell : Cell ℝ) (h : inp.dir = .Z) :
    cellD inp cell = ⟨cell.dims.a0, cell.dims.a1, cell.dims.a2 * cell.ntg⟩ := by
  unfold cellD effectiveExtent permute; rw [h]; rfl

/-- Items 8, 10, 14 defaulted in the deck. -/
def AllDefaulted (inp : Input ℝ) : Prop := inp.cf = none ∧ inp.kh ≤ 0 ∧ inp.r0 = none

theorem AllDefaulted.cf {inp : Input ℝ} (h : AllDefaulted inp) : ¬ 0 < cfInitial realFns inp := by
  unfold cfInitial; rw [h.1]; simp
theorem AllDefaulted.kh {inp : Input ℝ} (h : AllDefaulted inp) : ¬ 0 < khInitial realFns inp := by
  unfold khInitial
  rw [if_neg (show ¬ realFns.zero < inp.kh from not_lt.mpr h.2.1)]
  simp
theorem AllDefaulted.r0 {inp : Input ℝ} (h : AllDefaulted inp) : r0Initial realFns inp < 0 := by
  unfold r0Initial; rw [h.2.2]; simp

/-- Fully defaulted record: stored Kh and r0 in terms of the permuted cell data. -/
theorem defaults_generic (inp : Input ℝ) (cell : Cell ℝ) (h : AllDefaulted inp)
    (h0 : 0 ≤ (cellK inp cell).a0) (h1 : 0 ≤ (cellK inp cell).a1) :
    (ctfOf realFns inp cell).Kh =
        Real.sqrt ((cellK inp cell).a0 * (cellK inp cell).a1) * (cellD inp cell).a2 ∧
    (ctfOf realFns inp cell).r0 = effectiveRadius realFns (cellK inp cell) (cellD inp cell) :=
  ⟨Kh_default inp cell h.kh (Or.inl h.cf),
   r0_default inp cell h.r0 (fun _ hc => absurd hc h.cf) (fun hb => h.cf hb.1)
     (effectiveRadius_nonneg _ _ h0 h1)⟩

theorem defaults_Z (inp : Input ℝ) (dx dy dz kx ky kz ntg : ℝ)
    (hdir : inp.dir = .Z) (hdef : AllDefaulted inp) (hkx : 0 ≤ kx) (hky : 0 ≤ ky) :
    (ctfOf realFns inp ⟨⟨dx, dy, dz⟩, ⟨kx, ky, kz⟩, ntg⟩).Kh = Real.sqrt (kx * ky) * (dz * ntg) ∧
    (ctfOf realFns inp ⟨⟨dx, dy, dz⟩, ⟨kx, ky, kz⟩, ntg⟩).r0 =
      0.28 * Real.sqrt (Real.sqrt (ky / kx) * dx ^ 2 + Real.sqrt (kx / ky) * dy ^ 2) /
        ((kx / ky) ^ (1 / 4 : ℝ) + (ky / kx) ^ (1 / 4 : ℝ)) := by
  have hK := cellK_Z inp ⟨⟨dx, dy, dz⟩, ⟨kx, ky, kz⟩, ntg⟩ hdir
  have hD := cellD_Z inp ⟨⟨dx, dy, dz⟩, ⟨kx, ky, kz⟩, ntg⟩ hdir
  have := defaults_generic inp ⟨⟨dx, dy, dz⟩, ⟨kx, ky, kz⟩, ntg⟩ hdef (by rw [hK]; exact hkx) (by rw [hK]; exact hky)
  rw [effectiveRadius_formula, hK, hD] at this
  exact this

theorem defaults_X (inp : Input ℝ) (dx dy dz kx ky kz ntg : ℝ)
    (hdir : inp.dir = .X) (hdef : AllDefaulted inp) (hky : 0 ≤ ky) (hkz : 0 ≤ kz) :
    (ctfOf realFns inp ⟨⟨dx, dy, dz⟩, ⟨kx, ky, kz⟩, ntg⟩).Kh = Real.sqrt (ky * kz) * dx ∧
    (ctfOf realFns inp ⟨⟨dx, dy, dz⟩, ⟨kx, ky, kz⟩, ntg⟩).r0 =
      0.28 * Real.sqrt (Real.sqrt (kz / ky) * dy ^ 2 + Real.sqrt (ky / kz) * (dz * ntg) ^ 2) /
        ((ky / kz) ^ (1 / 4 : ℝ) + (kz / ky) ^ (1 / 4 : ℝ)) := by
  have hK := cellK_X inp ⟨⟨dx, dy, dz⟩, ⟨kx, ky, kz⟩, ntg⟩ hdir
  have hD := cellD_X inp ⟨⟨dx, dy, dz⟩, ⟨kx, ky, kz⟩, ntg⟩ hdir
  have := defaults_generic inp ⟨⟨dx, dy, dz⟩, ⟨kx, ky, kz⟩, ntg⟩ hdef (by rw [hK]; exact hky) (by rw [hK]; exact hkz)
  rw [effectiveRadius_formula, hK, hD] at this
  exact this

theorem defaults_Y (inp : Input ℝ) (dx dy dz kx ky kz ntg : ℝ)
    (hdir : inp.dir = .Y) (hdef : AllDefaulted inp) (hkx : 0 ≤ kx) (hkz : 0 ≤ kz) :
    (ctfOf realFns inp ⟨⟨dx, dy, dz⟩, ⟨kx, ky, kz⟩, ntg⟩).Kh = Real.sqrt (kx * kz) * dy ∧
    (ctfOf realFns inp ⟨⟨dx, dy, dz⟩, ⟨kx, ky, kz⟩, ntg⟩).r0 =
      0.28 * Real.sqrt (Real.sqrt (kz / kx) * dx ^ 2 + Real.sqrt (kx / kz) * (dz * ntg) ^ 2) /
        ((kx / kz) ^ (1 / 4 : ℝ) + (kz / kx) ^ (1 / 4 : ℝ)) := by
  have hK := cellK_Y inp ⟨⟨dx, dy, dz⟩, ⟨kx, ky, kz⟩, ntg⟩ hdir
  have hD := cellD_Y inp ⟨⟨dx, dy, dz⟩, ⟨kx, ky, kz⟩, ntg⟩ hdir
  have := defaults_generic inp ⟨⟨dx, dy, dz⟩, ⟨kx, ky, kz⟩, ntg⟩ hdef (by rw [hK]; exact hkz) (by rw [hK]; exact hkx)
  rw [effectiveRadius_formula, hK, hD] at this
  -- the code permutes to (z, x); the text-book formula is symmetric in the two plane axes
  refine ⟨by rw [this.1, mul_comm kz kx], ?_⟩
  rw [this.2, add_comm (Real.sqrt (kx / kz) * (dz * ntg) ^ 2), add_comm ((kz / kx) ^ (1 / 4 : ℝ))]

theorem rw_default (inp : Input ℝ) (cell : Cell ℝ) (h : inp.diam = none) :
    (ctfOf realFns inp cell).rw = 0.1524 := by
  obtain ⟨CF, Kh, r0, denom, hs⟩ := ctfOf_shape inp cell
  rw [hs, fin_rw]
  unfold wellRadius
  rw [h]
  simp only [realFns]
  norm_num

/-! ### CSKIN (`Connection::setSkinFactor`) -/

/-- The stored denominator is the denominator of the relation. -/
def DenomConsistent (c : CTF ℝ) : Prop := c.denom = Real.log (c.r0 / c.rw) + c.skin

/-- After COMPDAT the stored `peaceman_denom` is `ln(r0/rw) + S` whenever the relation holds
and CF is positive (every branch stores `2πKh/CF` or the value CF was computed from). -/
theorem denomConsistent_of_identity (inp : Input ℝ) (cell : Cell ℝ)
    (hid : Identity (ctfOf realFns inp cell)) (hCF : 0 < (ctfOf realFns inp cell).CF) :
    DenomConsistent (ctfOf realFns inp cell) := by
  unfold DenomConsistent
  rw [denom_eq inp cell hCF]
  unfold Identity at hid
  rw [← hid]
  field_simp

/-- CSKIN keeps the Peaceman relation (with any accumulated WPIMULT factor `m`) and the
consistency of the stored denominator. -/
theorem setSkinFactor_preserves (c : CTF ℝ) (S' m : ℝ) (hd : DenomConsistent c)
    (hid : c.CF * (Real.log (c.r0 / c.rw) + c.skin) = m * (2 * Real.pi * c.Kh))
    (hpd : c.denom - c.skin + S' ≠ 0) :
    let c' := setSkinFactor c S'
    c'.CF * (Real.log (c'.r0 / c'.rw) + c'.skin) = m * (2 * Real.pi * c'.Kh) ∧ DenomConsistent c' := by
  intro c'
  unfold DenomConsistent at hd ⊢
  have h1 : c'.CF = c.CF * (c.denom / (c.denom - c.skin + S')) := rfl
  have h2 : c'.r0 = c.r0 := rfl
  have h3 : c'.rw = c.rw := rfl
  have h4 : c'.skin = S' := rfl
  have h5 : c'.Kh = c.Kh := rfl
  have h6 : c'.denom = c.denom - c.skin + S' := rfl
  rw [h1, h2, h3, h4, h5, h6]
  have hlog : Real.log (c.r0 / c.rw) + S' = c.denom - c.skin + S' := by rw [hd]; ring
  refine ⟨?_, by rw [hd]; ring⟩
  rw [hlog, mul_assoc, div_mul_cancel₀ _ hpd, hd]
  exact hid

end

end OpmVerif.Peaceman
