/-
  The piecewise-linear interpolant of `Model/Tab1D.lean` as a function ℝ → ℝ: it is
  differentiable at every point that is not an interior node, with derivative the slope of
  the segment (`HasDerivAt`; this is the number `evalDerivative` returns), also on the two
  extrapolated rays, and it is continuous everywhere — in particular at the nodes, where the
  two adjacent segments meet.
-/
import Mathlib.Analysis.Calculus.Deriv.Add
import Mathlib.Analysis.Calculus.Deriv.Mul
import Mathlib.Topology.Order.OrderClosed
import Mathlib.Topology.Algebra.Order.Field
import OpmVerif.Proofs.Tab1D

namespace OpmVerif.Tab1D
open Filter Set Topology

set_option linter.unusedSectionVars false
set_option linter.unusedSimpArgs false

section field
variable {K : Type} [Field K] [LinearOrder K] [IsStrictOrderedRing K]

/-- On the *closed* segment `j` (the first and the last segment extended to their rays) the
function is the line of segment `j` — whichever of the two adjacent segments the index search
picks at a node. -/
theorem evalX_eq_evalSeg_of_mem {xs : List K} (ys : List K) (hs : StrictInc xs) (hn : 2 ≤ xs.length)
    (x : K) (j : Nat) (hj : j + 1 < xs.length)
    (h1 : 0 < j → nth xs j ≤ x) (h2 : j + 2 < xs.length → x ≤ nth xs (j + 1)) :
    evalX xs ys x = evalSeg xs ys j x := by
  obtain ⟨a, b, c⟩ := segIdx_spec hs hn x
  unfold evalX
  rcases Nat.lt_trichotomy (segIdx xs x) j with hlt | heq | hgt
  · have hx1 := h1 (by omega)
    have hx2 := c (by omega)
    have h3 : nth xs (segIdx xs x + 1) ≤ nth xs j := hs.le (by omega) (by omega)
    have ex : x = nth xs j := le_antisymm (le_trans hx2 h3) hx1
    have ej : segIdx xs x + 1 = j := by
      by_contra hne
      have : segIdx xs x + 1 < j := by omega
      have := hs _ _ this (by omega)
      exact absurd (lt_of_le_of_lt (le_trans hx1 hx2) this) (lt_irrefl _)
    generalize segIdx xs x = s at *
    subst ej
    rw [ex, (evalSeg_continuous_at_node ys hs s (by omega)).1, evalSeg_left]
  · rw [heq]
  · have hx1 := b (by omega)
    have hx2 := h2 (by omega)
    have h3 : nth xs (j + 1) ≤ nth xs (segIdx xs x) := hs.le (by omega) (by omega)
    have ex : x = nth xs (j + 1) := le_antisymm hx2 (le_trans h3 hx1)
    have ej : segIdx xs x = j + 1 := by
      by_contra hne
      have : j + 1 < segIdx xs x := by omega
      have := hs _ _ this (by omega)
      exact absurd (lt_of_lt_of_le this (le_trans hx1 hx2)) (lt_irrefl _)
    rw [ej, ex, evalSeg_left, (evalSeg_continuous_at_node ys hs j hj).1]

end field

/-! ### over ℝ -/

/-- The line of one segment has the segment's slope as derivative, everywhere. -/
theorem evalSeg_hasDerivAt (xs ys : List ℝ) (i : Nat) (x : ℝ) :
    HasDerivAt (fun z => evalSeg xs ys i z) (derivSeg xs ys i) x := by
  have e : (fun z => evalSeg xs ys i z) = fun z => nth ys i + derivSeg xs ys i * (z - nth xs i) := by
    funext z; exact evalSeg_affine xs ys i z
  rw [e]
  have h := (((hasDerivAt_id x).sub_const (nth xs i)).const_mul (derivSeg xs ys i)).const_add (nth ys i)
  simpa using h

theorem evalSeg_continuous (xs ys : List ℝ) (i : Nat) : Continuous (fun z => evalSeg xs ys i z) := by
  have e : (fun z => evalSeg xs ys i z) = fun z => nth ys i + derivSeg xs ys i * (z - nth xs i) := by
    funext z; exact evalSeg_affine xs ys i z
  rw [e]
  exact continuous_const.add (continuous_const.mul (continuous_id.sub continuous_const))

/-- **HasDerivAt inside a segment.** For strictly increasing sample positions (any length ≥ 2)
and every `x` strictly inside table segment `i`, the interpolant `z ↦ eval(z)` is
differentiable at `x` with derivative the chord slope `(y[i+1]-y[i])/(x[i+1]-x[i])`, and that
is the value `evalDerivative(x)` returns. -/
theorem evalX_hasDerivAt {xs : List ℝ} (ys : List ℝ) (hs : StrictInc xs) (hn : 2 ≤ xs.length)
    (i : Nat) (hi : i + 1 < xs.length) (x : ℝ) (h1 : nth xs i < x) (h2 : x < nth xs (i + 1)) :
    HasDerivAt (fun z => evalX xs ys z) (derivX xs ys x) x ∧
    derivX xs ys x = (nth ys (i + 1) - nth ys i) / (nth xs (i + 1) - nth xs i) := by
  have hd : derivX xs ys x = derivSeg xs ys i := by
    unfold derivX; rw [segIdx_of_mem_open hs hn x i hi h1 h2]
  refine ⟨?_, by rw [hd]; rfl⟩
  rw [hd]
  refine (evalSeg_hasDerivAt xs ys i x).congr_of_eventuallyEq ?_
  refine Filter.eventually_of_mem (Ioo_mem_nhds h1 h2) ?_
  intro z hz
  show evalX xs ys z = evalSeg xs ys i z
  unfold evalX; rw [segIdx_of_mem_open hs hn z i hi hz.1 hz.2]

/-- Left of the second sample (first segment and the ray extrapolated from it, the first node
included) the derivative is the slope of segment 0. -/
theorem evalX_hasDerivAt_left (xs ys : List ℝ) (x : ℝ) (h : x < nth xs 1) :
    HasDerivAt (fun z => evalX xs ys z) (derivX xs ys x) x ∧ derivX xs ys x = derivSeg xs ys 0 := by
  have hd : derivX xs ys x = derivSeg xs ys 0 := by
    unfold derivX segIdx; rw [if_pos (le_of_lt h)]
  refine ⟨?_, hd⟩
  rw [hd]
  refine (evalSeg_hasDerivAt xs ys 0 x).congr_of_eventuallyEq ?_
  refine Filter.eventually_of_mem (Iio_mem_nhds h) ?_
  intro z hz
  show evalX xs ys z = evalSeg xs ys 0 z
  unfold evalX segIdx; rw [if_pos (le_of_lt hz)]

/-- Right of the last-but-one sample (last segment and its extrapolated ray, the last node
included) the derivative is the slope of the last segment. -/
theorem evalX_hasDerivAt_right {xs : List ℝ} (ys : List ℝ) (hs : StrictInc xs) (hn : 2 ≤ xs.length)
    (x : ℝ) (h : nth xs (xs.length - 2) < x) :
    HasDerivAt (fun z => evalX xs ys z) (derivX xs ys x) x ∧
    derivX xs ys x = derivSeg xs ys (xs.length - 2) := by
  have hseg : ∀ z, nth xs (xs.length - 2) < z → segIdx xs z = xs.length - 2 := by
    intro z hz
    unfold segIdx
    by_cases h1 : z ≤ nth xs 1
    · rw [if_pos h1]
      have : nth xs (xs.length - 2) < nth xs 1 := lt_of_lt_of_le hz h1
      have := (hs.lt_iff (by omega) (by omega)).mp this
      omega
    · rw [if_neg h1, if_pos (le_of_lt hz)]
  have hd : derivX xs ys x = derivSeg xs ys (xs.length - 2) := by
    unfold derivX; rw [hseg x h]
  refine ⟨?_, hd⟩
  rw [hd]
  refine (evalSeg_hasDerivAt xs ys _ x).congr_of_eventuallyEq ?_
  refine Filter.eventually_of_mem (Ioi_mem_nhds h) ?_
  intro z hz
  show evalX xs ys z = evalSeg xs ys (xs.length - 2) z
  unfold evalX; rw [hseg z hz]

/-- **Continuity at an interior node**: left of node `k` the function is the line of segment
`k-1`, right of it the line of segment `k`, and both pass through `(x[k], y[k])`. -/
theorem evalX_continuousAt_node {xs : List ℝ} (ys : List ℝ) (hs : StrictInc xs) (hn : 2 ≤ xs.length)
    (k : Nat) (hk0 : 0 < k) (hk : k + 1 < xs.length) :
    ContinuousAt (fun z => evalX xs ys z) (nth xs k) := by
  obtain ⟨j, rfl⟩ : ∃ j, k = j + 1 := ⟨k - 1, by omega⟩
  have hlt1 : nth xs j < nth xs (j + 1) := hs _ _ (Nat.lt_succ_self _) (by omega)
  have hlt2 : nth xs (j + 1) < nth xs (j + 2) := hs _ _ (Nat.lt_succ_self _) (by omega)
  have hc : Continuous (fun z : ℝ => if z ≤ nth xs (j + 1) then evalSeg xs ys j z else evalSeg xs ys (j + 1) z) := by
    refine Continuous.if_le (evalSeg_continuous xs ys j) (evalSeg_continuous xs ys (j + 1))
      continuous_id continuous_const ?_
    intro z hz
    have hz' : z = nth xs (j + 1) := hz
    rw [hz', (evalSeg_continuous_at_node ys hs j (by omega)).1, evalSeg_left]
  refine hc.continuousAt.congr ?_
  refine Filter.eventually_of_mem (Ioo_mem_nhds hlt1 hlt2) ?_
  intro z hz
  show (if z ≤ nth xs (j + 1) then evalSeg xs ys j z else evalSeg xs ys (j + 1) z) = evalX xs ys z
  by_cases hz1 : z ≤ nth xs (j + 1)
  · rw [if_pos hz1]
    exact (evalX_eq_evalSeg_of_mem ys hs hn z j (by omega) (fun _ => le_of_lt hz.1) (fun _ => hz1)).symm
  · rw [if_neg hz1]
    exact (evalX_eq_evalSeg_of_mem ys hs hn z (j + 1) (by omega) (fun _ => le_of_lt (not_le.mp hz1))
      (fun _ => le_of_lt hz.2)).symm

/-- **The interpolant is continuous**, on the whole real line (nodes, segment interiors and
both extrapolated rays). -/
theorem evalX_continuous {xs : List ℝ} (ys : List ℝ) (hs : StrictInc xs) (hn : 2 ≤ xs.length) :
    Continuous (fun z => evalX xs ys z) := by
  rw [continuous_iff_continuousAt]
  intro x
  by_cases hl : x < nth xs 1
  · exact (evalX_hasDerivAt_left xs ys x hl).1.continuousAt
  by_cases hr : nth xs (xs.length - 2) < x
  · exact (evalX_hasDerivAt_right ys hs hn x hr).1.continuousAt
  have hl' : nth xs 1 ≤ x := not_lt.mp hl
  have hr' : x ≤ nth xs (xs.length - 2) := not_lt.mp hr
  have hlo : nth xs 0 ≤ x := le_trans (hs.le (by omega) (by omega)) hl'
  have hhi : x ≤ nth xs (xs.length - 1) := le_trans hr' (hs.le (by omega) (by omega))
  obtain ⟨i, _, hi, hi1, hi2⟩ := bisect_correct hs hn x hlo hhi true
  rcases eq_or_lt_of_le hi1 with e1 | l1
  · -- x = xs[i]; then 1 ≤ i ≤ n-2
    have h0 : 0 < i := by
      by_contra h; have : i = 0 := by omega
      subst this
      have : nth xs 0 < nth xs 1 := hs _ _ (by omega) (by omega)
      rw [e1] at this; exact absurd (lt_of_lt_of_le this hl') (lt_irrefl _)
    rw [← e1]; exact evalX_continuousAt_node ys hs hn i h0 hi
  · rcases eq_or_lt_of_le hi2 with e2 | l2
    · -- x = xs[i+1] ≤ xs[n-2]
      have : i + 1 ≤ xs.length - 2 := by
        by_contra h
        have h' : xs.length - 2 < i + 1 := by omega
        have := hs _ _ h' hi
        rw [← e2] at this; exact absurd (lt_of_lt_of_le this hr') (lt_irrefl _)
      rw [e2]; exact evalX_continuousAt_node ys hs hn (i + 1) (by omega) (by omega)
    · exact (evalX_hasDerivAt ys hs hn i hi x l1 l2).1.continuousAt

end OpmVerif.Tab1D
