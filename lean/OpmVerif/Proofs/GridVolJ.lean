/-
  Additivity of the generated volume formula under j-subdivision, at coefficient level
  (separate file so that Lake checks the three heavy `ring` identities in parallel).
-/
import Mathlib.Tactic.Ring
import Mathlib.Tactic.FieldSimp
import Mathlib.Tactic.NormNum
import Mathlib.Algebra.Order.Field.Basic
import OpmVerif.Gen.CellVol

namespace OpmVerif.Grid
open OpmVerif.Gen.CellVol

variable {K : Type} [Field K] [CharZero K]

/-- Coefficients of the half cell keeping the `j = 0` face. -/
def lowerCJ (c : Nat → Nat → Nat → K) : Nat → Nat → Nat → K :=
  fun a b g => if b = 0 then c a 0 g else c a 1 g / 2

/-- Coefficients of the half cell keeping the `j = 1` face. -/
def upperCJ (c : Nat → Nat → Nat → K) : Nat → Nat → Nat → K :=
  fun a b g => if b = 0 then c a 0 g + c a 1 g / 2 else c a 1 g / 2

set_option maxHeartbeats 40000000 in
set_option maxRecDepth 100000 in
theorem signedVolOf_splitJ (cX cY cZ : Nat → Nat → Nat → K) :
    signedVolOf (lowerCJ cX) (lowerCJ cY) (lowerCJ cZ) + signedVolOf (upperCJ cX) (upperCJ cY) (upperCJ cZ)
      = signedVolOf cX cY cZ := by
  simp only [signedVolOf, innerLoop, permutation, pqrArray, cprodOf, denom, lowerCJ, upperCJ,
    List.foldl_cons, List.foldl_nil]
  norm_num
  ring

end OpmVerif.Grid
