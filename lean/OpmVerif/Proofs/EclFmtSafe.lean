/-
  Termination of the formatted index loop: the fuel of `loadIndex` is never what stops it —
  every round of `EclFile::load` consumes at least one character of a formatted file.
-/
import OpmVerif.Model.EclFmtRead

namespace OpmVerif.EclFmt
open OpmVerif.Ecl

theorem length_dropWhile_le' (p : Char → Bool) : ∀ (s : List Char), (s.dropWhile p).length ≤ s.length := by
  intro s
  induction s with
  | nil => simp
  | cons c s ih => rw [List.dropWhile_cons]; split <;> simp <;> omega

theorem getline_rest_shorter (s : List Char) (h : s ≠ []) :
    ((s.dropWhile (· ≠ '\n')).drop 1).length < s.length := by
  have h1 : (s.dropWhile (· ≠ '\n')).length ≤ s.length := length_dropWhile_le' _ s
  cases hd : s.dropWhile (· ≠ '\n') with
  | nil => simp; exact List.length_pos_iff.mpr h
  | cons c r => rw [hd] at h1; simp at h1 ⊢; omega

theorem loadIndex_fuel_irrelevant : ∀ (fuel : Nat) (s : List Char) (off : Nat), s.length < fuel →
    ∀ fuel', s.length < fuel' → loadIndex fuel off s = loadIndex fuel' off s := by
  intro fuel
  induction fuel with
  | zero => intro s off h; omega
  | succ fuel ih =>
    intro s off hf fuel' hf'
    obtain ⟨f', rfl⟩ : ∃ f, fuel' = f + 1 := ⟨fuel' - 1, by omega⟩
    unfold loadIndex
    by_cases h4 : s.length < 4
    · simp [h4]
    · simp only [h4, if_false]
      have hne : s ≠ [] := by intro h; rw [h] at h4; simp at h4
      have hsh := getline_rest_shorter s hne
      cases parseHeaderLine (s.takeWhile (· ≠ '\n')) with
      | none => rfl
      | some r =>
        obtain ⟨name, num, t⟩ := r
        simp only []
        split
        · rfl
        · have hd : ∀ k, (((s.dropWhile (· ≠ '\n')).drop 1).drop k).length < s.length := by
            intro k; rw [List.length_drop]; omega
          rw [ih _ _ (by have := hd (if 0 < num then sizeOnDiskFormatted num.toNat t else 0); omega) f'
            (by have := hd (if 0 < num then sizeOnDiskFormatted num.toNat t else 0); omega)]

/-- with the fuel the reader model uses (`length + 1`), more fuel changes nothing. -/
theorem loadIndex_enough (s : List Char) (off extra : Nat) :
    loadIndex (s.length + 1 + extra) off s = loadIndex (s.length + 1) off s :=
  loadIndex_fuel_irrelevant _ s off (by omega) _ (by omega)

end OpmVerif.EclFmt
