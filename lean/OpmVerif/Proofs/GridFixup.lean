/-
  Theorems about `ZcornMapper::fixupZCORN` in the gather form of `Model/GridFixup.lean`
  (C13, second round), over an ordered field.

  Line level: the adjusted line has no inversion in the direction of `sign`, is the running
  maximum (`sign = 1`) / running minimum (`sign = -1`) of the input line, a line without
  inversion is left alone and counted 0, the count is 0 exactly when nothing changes, and the
  adjustment is idempotent.
  Array level (`nx, ny, nz ≥ 1`): the lines of the adjusted array are the adjusted lines, the
  direction `sign` of the adjusted array is that of the input, and `fixupZCORN` is idempotent on
  whole arrays — the hypothesis `hidem` of `Props.C13.save_writes_current_geometry`.
-/
import Mathlib.Tactic.Ring
import Mathlib.Tactic.Linarith
import Mathlib.Algebra.Order.Field.Basic
import OpmVerif.Model.GridFixup
import OpmVerif.Proofs.Grid

namespace OpmVerif.Grid

section Line
variable {K : Type} [Field K] [LinearOrder K] [IsStrictOrderedRing K]

/-- "No inversion between neighbours `a`, `b` in direction `sign`." -/
def NoInv (sign a b : K) : Prop := ¬ (b - a) * sign < ((0 : Nat) : K)

theorem clamp_noInv (sign p x : K) : NoInv sign p (clamp sign p x) := by
  unfold NoInv clamp
  split
  · simp
  · assumption

theorem clamp_eq_of_noInv {sign p x : K} (h : NoInv sign p x) : clamp sign p x = x := by
  unfold clamp; rw [if_neg h]

theorem clamp_one (p x : K) : clamp ((1 : Nat) : K) p x = max p x := by
  unfold clamp
  simp only [Nat.cast_one, mul_one, Nat.cast_zero, sub_neg]
  split
  · rename_i h; exact (max_eq_left (le_of_lt h)).symm
  · rename_i h; exact (max_eq_right (not_lt.1 h)).symm

theorem clamp_neg_one (p x : K) : clamp (-((1 : Nat) : K)) p x = min p x := by
  unfold clamp
  simp only [Nat.cast_one, mul_neg, mul_one, Nat.cast_zero, Left.neg_neg_iff, sub_pos]
  split
  · rename_i h; exact (min_eq_left (le_of_lt h)).symm
  · rename_i h; exact (min_eq_right (not_lt.1 h)).symm

theorem clampList_length (sign p : K) (l : List K) : (clampList sign p l).length = l.length := by
  induction l generalizing p with
  | nil => rfl
  | cons x xs ih => simp [clampList, ih]

theorem fixLine_length (sign : K) (l : List K) : (fixLine sign l).length = l.length := by
  cases l with
  | nil => rfl
  | cons x xs => simp [fixLine, clampList_length]

/-- `p :: l` has no inversion between neighbours. -/
def ChainNoInv (sign : K) : K → List K → Prop
  | _, [] => True
  | p, x :: xs => NoInv sign p x ∧ ChainNoInv sign x xs

theorem clampList_chain (sign p : K) (l : List K) : ChainNoInv sign p (clampList sign p l) := by
  induction l generalizing p with
  | nil => trivial
  | cons x xs ih => exact ⟨clamp_noInv sign p x, ih _⟩

theorem clampList_eq_of_chain {sign p : K} {l : List K} (h : ChainNoInv sign p l) :
    clampList sign p l = l := by
  induction l generalizing p with
  | nil => rfl
  | cons x xs ih =>
    obtain ⟨h1, h2⟩ := h
    simp only [clampList, clamp_eq_of_noInv h1, ih h2]

theorem clampCount_eq_zero_of_chain {sign p : K} {l : List K} (h : ChainNoInv sign p l) :
    clampCount sign p l = 0 := by
  induction l generalizing p with
  | nil => rfl
  | cons x xs ih =>
    obtain ⟨h1, h2⟩ := h
    have h1' : ¬ (x - p) * sign < ((0 : Nat) : K) := h1
    simp only [clampCount, if_neg h1', clamp_eq_of_noInv h1, ih h2]

theorem chain_of_clampList_eq {sign p : K} {l : List K} (h : clampList sign p l = l) :
    ChainNoInv sign p l := by
  rw [← h]; exact clampList_chain sign p l

/-- The count is zero exactly when no slot changes. -/
theorem clampCount_eq_zero_iff (sign p : K) (l : List K) :
    clampCount sign p l = 0 ↔ clampList sign p l = l := by
  constructor
  · intro h
    induction l generalizing p with
    | nil => rfl
    | cons x xs ih =>
      simp only [clampCount] at h
      have hc : ¬ (x - p) * sign < ((0 : Nat) : K) := by
        intro hlt; rw [if_pos hlt] at h; omega
      rw [if_neg hc] at h
      have hx : clamp sign p x = x := clamp_eq_of_noInv hc
      simp only [clampList, hx]
      rw [hx] at h
      rw [ih x (by omega)]
  · intro h
    exact clampCount_eq_zero_of_chain (chain_of_clampList_eq h)

/-- The adjusted line has no inversion. -/
theorem fixLine_chain (sign x : K) (xs : List K) :
    ∃ ys, fixLine sign (x :: xs) = x :: ys ∧ ChainNoInv sign x ys :=
  ⟨clampList sign x xs, rfl, clampList_chain sign x xs⟩

/-- A line without inversion is left alone … -/
theorem fixLine_eq_of_chain {sign x : K} {xs : List K} (h : ChainNoInv sign x xs) :
    fixLine sign (x :: xs) = x :: xs := by
  simp only [fixLine, clampList_eq_of_chain h]

/-- … hence the adjustment is idempotent. -/
theorem fixLine_idem (sign : K) (l : List K) : fixLine sign (fixLine sign l) = fixLine sign l := by
  cases l with
  | nil => rfl
  | cons x xs =>
    show fixLine sign (x :: clampList sign x xs) = x :: clampList sign x xs
    exact fixLine_eq_of_chain (clampList_chain sign x xs)

/-- `sign = 1`: every adjusted slot is at least its (adjusted) predecessor, hence at least the
first slot. -/
theorem clampList_one_ge (p : K) (l : List K) : ∀ y ∈ clampList ((1 : Nat) : K) p l, p ≤ y := by
  induction l generalizing p with
  | nil => intro y hy; cases hy
  | cons x xs ih =>
    intro y hy
    simp only [clampList, List.mem_cons] at hy
    rcases hy with rfl | hy
    · rw [clamp_one]; exact le_max_left _ _
    · have := ih _ y hy
      rw [clamp_one] at this
      exact le_trans (le_max_left _ _) this

/-- `sign = -1`: every adjusted slot is at most the input slot. -/
theorem clampList_neg_one_le (p : K) (l : List K) (n : Nat) (y : K)
    (h : (clampList (-((1 : Nat) : K)) p l)[n]? = some y) : ∃ x, l[n]? = some x ∧ y ≤ x := by
  induction l generalizing p n with
  | nil => simp [clampList] at h
  | cons x xs ih =>
    cases n with
    | zero =>
      simp only [clampList, List.getElem?_cons_zero, Option.some.injEq] at h
      subst h
      exact ⟨x, rfl, by rw [clamp_neg_one]; exact min_le_right _ _⟩
    | succ n =>
      simp only [clampList, List.getElem?_cons_succ] at h
      simpa using ih _ n h

end Line

section Array
variable {K : Type} [Field K] [LinearOrder K] [IsStrictOrderedRing K]

/-- `zcornDecode` is also a right inverse of the slot arithmetic (for every position, `k`
unbounded), with components in range. -/
theorem zcornIdx_zcornDecode (d : Dims) (hx : 0 < d.nx) (hy : 0 < d.ny) (idx : Nat) :
    zcornIdx d (zcornDecode d idx).1 (zcornDecode d idx).2.1 (zcornDecode d idx).2.2.1
        (zcornDecode d idx).2.2.2 = idx ∧
      (zcornDecode d idx).1 < d.nx ∧ (zcornDecode d idx).2.1 < d.ny ∧ (zcornDecode d idx).2.2.2 < 8 := by
  have hc0 : idx % 2 < 2 := Nat.mod_lt _ (by decide)
  have hc1 : idx / 2 / d.nx % 2 < 2 := Nat.mod_lt _ (by decide)
  have hc2 : idx / 2 / d.nx / 2 / d.ny % 2 < 2 := Nat.mod_lt _ (by decide)
  have hc : idx % 2 + 2 * (idx / 2 / d.nx % 2) + 4 * (idx / 2 / d.nx / 2 / d.ny % 2) < 8 := by omega
  refine ⟨?_, Nat.mod_lt _ hx, Nat.mod_lt _ hy, hc⟩
  simp only [zcornDecode]
  rw [zcornIdx_eq d _ _ _ _ hc]
  have e0 : (idx % 2 + 2 * (idx / 2 / d.nx % 2) + 4 * (idx / 2 / d.nx / 2 / d.ny % 2)) % 2 = idx % 2 := by omega
  have e1 : (idx % 2 + 2 * (idx / 2 / d.nx % 2) + 4 * (idx / 2 / d.nx / 2 / d.ny % 2)) / 2 % 2
      = idx / 2 / d.nx % 2 := by omega
  have e2 : (idx % 2 + 2 * (idx / 2 / d.nx % 2) + 4 * (idx / 2 / d.nx / 2 / d.ny % 2)) / 4
      = idx / 2 / d.nx / 2 / d.ny % 2 := by omega
  rw [e0, e1, e2, Nat.mod_add_div (idx / 2 / d.nx / 2 / d.ny) 2, Nat.mod_add_div (idx / 2 / d.nx / 2) d.ny,
    Nat.mod_add_div (idx / 2 / d.nx) 2, Nat.mod_add_div (idx / 2) d.nx, Nat.mod_add_div idx 2]

theorem lineSlots_length (d : Dims) (i j c : Nat) : (lineSlots d i j c).length = 2 * d.nz := by
  simp [lineSlots]

theorem lineSlots_getElem (d : Dims) (i j c n : Nat) (hn : n < (lineSlots d i j c).length) :
    (lineSlots d i j c)[n] = zcornIdx d i j (n / 2) (c + 4 * (n % 2)) := by
  simp [lineSlots]

/-- The adjusted array at slot `n` of a line is entry `n` of the adjusted line. -/
theorem fixupEntry_lineSlot (d : Dims) (z : Nat → K) {i j c n : Nat} (hi : i < d.nx) (hj : j < d.ny)
    (hc : c < 4) :
    fixupEntry d z (zcornIdx d i j (n / 2) (c + 4 * (n % 2))) =
      (fixLine (fixSign d z) ((lineSlots d i j c).map z)).getD n (z (zcornIdx d i j (n / 2) (c + 4 * (n % 2)))) := by
  have hn2 : n % 2 < 2 := Nat.mod_lt _ (by decide)
  unfold fixupEntry
  rw [zcornDecode_zcornIdx d hi hj (by omega : c + 4 * (n % 2) < 8)]
  simp only []
  have e1 : (c + 4 * (n % 2)) % 4 = c := by omega
  have e2 : 2 * (n / 2) + (c + 4 * (n % 2)) / 4 = n := by omega
  rw [e1, e2]

/-- The lines of the adjusted array are the adjusted lines. -/
theorem lineMap_fixupEntry (d : Dims) (z : Nat → K) {i j c : Nat} (hi : i < d.nx) (hj : j < d.ny)
    (hc : c < 4) :
    (lineSlots d i j c).map (fixupEntry d z) = fixLine (fixSign d z) ((lineSlots d i j c).map z) := by
  apply List.ext_getElem
  · simp [fixLine_length]
  · intro n h1 h2
    have hn : n < (lineSlots d i j c).length := by simpa using h1
    rw [List.getElem_map, lineSlots_getElem d i j c n hn, fixupEntry_lineSlot d z hi hj hc,
      List.getD_eq_getElem?_getD, List.getElem?_eq_getElem h2]
    rfl

/-- The direction `sign` computed on the adjusted array is that of the input. -/
theorem fixSign_fixupEntry (d : Dims) (hx : 0 < d.nx) (hy : 0 < d.ny) (hz : 0 < d.nz) (z : Nat → K) :
    fixSign d (fixupEntry d z) = fixSign d z := by
  -- the two slots looked at are slots 0 and 2nz-1 of line (0, 0, 0)
  have hlen : (lineSlots d 0 0 0).length = 2 * d.nz := lineSlots_length d 0 0 0
  have s0 : zcornIdx d 0 0 0 0 = zcornIdx d 0 0 (0 / 2) (0 + 4 * (0 % 2)) := rfl
  have sL : zcornIdx d 0 0 (d.nz - 1) 4 = zcornIdx d 0 0 ((2 * d.nz - 1) / 2) (0 + 4 * ((2 * d.nz - 1) % 2)) := by
    have a : (2 * d.nz - 1) / 2 = d.nz - 1 := by omega
    have b : (2 * d.nz - 1) % 2 = 1 := by omega
    rw [a, b]
  have hmap := lineMap_fixupEntry d z hx hy (by decide : 0 < 4)
  -- shape of the line
  obtain ⟨x, xs, hL⟩ : ∃ x xs, (lineSlots d 0 0 0).map z = x :: xs := by
    cases h : (lineSlots d 0 0 0).map z with
    | nil => have := congrArg List.length h; simp [hlen] at this; omega
    | cons x xs => exact ⟨x, xs, rfl⟩
  have hxs : xs.length = 2 * d.nz - 1 := by
    have := congrArg List.length hL; simp [hlen] at this; omega
  have hx0 : z (zcornIdx d 0 0 0 0) = x := by
    have : ((lineSlots d 0 0 0).map z)[0]? = some x := by rw [hL]; rfl
    rw [List.getElem?_map, List.getElem?_eq_getElem (by omega : 0 < (lineSlots d 0 0 0).length),
      lineSlots_getElem] at this
    simpa using this
  have hxL : z (zcornIdx d 0 0 (d.nz - 1) 4) = xs[2 * d.nz - 2]'(by omega) := by
    have : ((lineSlots d 0 0 0).map z)[2 * d.nz - 1]? = some (xs[2 * d.nz - 2]'(by omega)) := by
      rw [hL]
      have : 2 * d.nz - 1 = (2 * d.nz - 2) + 1 := by omega
      rw [this, List.getElem?_cons_succ, List.getElem?_eq_getElem]
    rw [List.getElem?_map, List.getElem?_eq_getElem (by omega : 2 * d.nz - 1 < (lineSlots d 0 0 0).length),
      lineSlots_getElem, ← sL] at this
    simpa using this
  -- values of the adjusted array at the two slots
  have hF0 : fixupEntry d z (zcornIdx d 0 0 0 0) = x := by
    rw [s0, fixupEntry_lineSlot d z hx hy (by decide : 0 < 4), hL]
    rfl
  have hFL : ∃ y, (clampList (fixSign d z) x xs)[2 * d.nz - 2]? = some y ∧
      fixupEntry d z (zcornIdx d 0 0 (d.nz - 1) 4) = y := by
    have hl : 2 * d.nz - 2 < (clampList (fixSign d z) x xs).length := by rw [clampList_length]; omega
    refine ⟨(clampList (fixSign d z) x xs)[2 * d.nz - 2], List.getElem?_eq_getElem hl, ?_⟩
    rw [sL, fixupEntry_lineSlot d z hx hy (by decide : 0 < 4), hL]
    have : 2 * d.nz - 1 = (2 * d.nz - 2) + 1 := by omega
    rw [this, fixLine, List.getD_cons_succ, List.getD_eq_getElem?_getD, List.getElem?_eq_getElem hl]
    rfl
  obtain ⟨y, hy1, hy2⟩ := hFL
  unfold fixSign
  rw [hF0, hy2, hx0, hxL]
  by_cases hle : x ≤ xs[2 * d.nz - 2]'(by omega)
  · -- sign = 1: running maximum, at least the first slot
    have hs : fixSign d z = ((1 : Nat) : K) := by unfold fixSign; rw [hx0, hxL, if_pos hle]
    rw [hs] at hy1
    have : x ≤ y := clampList_one_ge x xs y (List.mem_of_getElem? hy1)
    rw [if_pos hle, if_pos this]
  · -- sign = -1: running minimum, at most the last input slot, which is below the first
    have hs : fixSign d z = -((1 : Nat) : K) := by unfold fixSign; rw [hx0, hxL, if_neg hle]
    rw [hs] at hy1
    obtain ⟨w, hw1, hw2⟩ := clampList_neg_one_le x xs _ y hy1
    rw [List.getElem?_eq_getElem (by omega : 2 * d.nz - 2 < xs.length)] at hw1
    cases hw1
    have : ¬ x ≤ y := by
      intro h; exact hle (le_trans h hw2)
    rw [if_neg hle, if_neg this]

/-- **`fixupZCORN` is idempotent** on whole ZCORN arrays (`nx, ny, nz ≥ 1`). -/
theorem fixupEntry_idem (d : Dims) (hx : 0 < d.nx) (hy : 0 < d.ny) (hz : 0 < d.nz) (z : Nat → K) :
    fixupEntry d (fixupEntry d z) = fixupEntry d z := by
  funext idx
  obtain ⟨_, hi, hj, hc⟩ := zcornIdx_zcornDecode d hx hy idx
  have hc4 : (zcornDecode d idx).2.2.2 % 4 < 4 := Nat.mod_lt _ (by decide)
  have key : fixupEntry d (fixupEntry d z) idx =
      (fixLine (fixSign d (fixupEntry d z))
        ((lineSlots d (zcornDecode d idx).1 (zcornDecode d idx).2.1 ((zcornDecode d idx).2.2.2 % 4)).map
          (fixupEntry d z))).getD
        (2 * (zcornDecode d idx).2.2.1 + (zcornDecode d idx).2.2.2 / 4) (fixupEntry d z idx) := rfl
  rw [key, fixSign_fixupEntry d hx hy hz z, lineMap_fixupEntry d z hi hj hc4, fixLine_idem]
  generalize hL : fixLine (fixSign d z)
    ((lineSlots d (zcornDecode d idx).1 (zcornDecode d idx).2.1 ((zcornDecode d idx).2.2.2 % 4)).map z) = L
  generalize hp : 2 * (zcornDecode d idx).2.2.1 + (zcornDecode d idx).2.2.2 / 4 = pos
  have hdef : fixupEntry d z idx = L.getD pos (z idx) := by
    unfold fixupEntry; simp only []; rw [hL, hp]
  by_cases hlt : pos < L.length
  · rw [hdef, List.getD_eq_getElem?_getD, List.getD_eq_getElem?_getD, List.getElem?_eq_getElem hlt]
    rfl
  · rw [List.getD_eq_getElem?_getD, List.getElem?_eq_none (by omega)]
    rfl

theorem nat_list_sum_eq_zero (l : List Nat) (h : ∀ x ∈ l, x = 0) : l.sum = 0 := by
  induction l with
  | nil => rfl
  | cons x xs ih =>
    rw [List.sum_cons, h x (by simp), ih fun y hy => h y (by simp [hy])]

/-- A second `fixupZCORN` adjusts nothing (`cells_adjusted = 0`). -/
theorem fixupCount_fixupEntry (d : Dims) (hx : 0 < d.nx) (hy : 0 < d.ny) (hz : 0 < d.nz) (z : Nat → K) :
    fixupCount d (fixupEntry d z) = 0 := by
  unfold fixupCount
  apply nat_list_sum_eq_zero
  intro v hv
  simp only [List.mem_flatMap, List.mem_map, List.mem_range] at hv
  obtain ⟨j, hj, i, hi, c, hc, rfl⟩ := hv
  rw [fixSign_fixupEntry d hx hy hz z, lineMap_fixupEntry d z hi hj hc]
  cases hL : (lineSlots d i j c).map z with
  | nil => rfl
  | cons x xs =>
    show clampCount (fixSign d z) x (clampList (fixSign d z) x xs) = 0
    exact clampCount_eq_zero_of_chain (clampList_chain _ x xs)

/-- `fixupG` satisfies the idempotence hypothesis of the object model's save theorem. -/
theorem fixupG_idem (d : Dims) (hx : 0 < d.nx) (hy : 0 < d.ny) (hz : 0 < d.nz) (z : Nat → K) :
    (fixupG d (fixupG d z).2).2 = (fixupG d z).2 :=
  fixupEntry_idem d hx hy hz z

end Array

end OpmVerif.Grid
