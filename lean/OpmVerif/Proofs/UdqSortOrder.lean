/-
  SORTA / SORTD, the order clause for the model's ranks: with a comparison that is transitive and
  asymmetric (`<`, `>` on doubles without NaN) an element strictly `before` another gets the
  smaller rank.  Together with `sortRanks_perm` this makes `sortRanks` an instance of the
  specification `isSortRank`.
-/
import OpmVerif.Proofs.UdqSort

namespace OpmVerif.Udq

variable {α : Type}

/-- later elements are never strictly before earlier ones -/
def SortedBy (before : α → α → Bool) (l : List (Nat × α)) : Prop :=
  l.Pairwise (fun a b => before b.2 a.2 = false)

theorem insertBy_sorted (before : α → α → Bool)
    (htrans : ∀ a b c, before a b = true → before b c = true → before a c = true)
    (hasym : ∀ a b, before a b = true → before b a = false)
    (x : Nat × α) (l : List (Nat × α)) (h : SortedBy before l) : SortedBy before (insertBy before x l) := by
  induction l with
  | nil => simp [insertBy, SortedBy]
  | cons y ys ih =>
    unfold SortedBy at h ⊢
    have hy := (List.pairwise_cons.mp h)
    unfold insertBy
    by_cases hb : before x.2 y.2 = true
    · simp only [hb, if_true]
      refine List.pairwise_cons.mpr ⟨?_, h⟩
      intro b hbm
      rcases List.mem_cons.mp hbm with rfl | hbm
      · exact hasym _ _ hb
      · have h1 := hy.1 b hbm
        cases hbx : before b.2 x.2 with
        | false => rfl
        | true => rw [htrans _ _ _ hbx hb] at h1; exact absurd h1 (by simp)
    · have hb' : before x.2 y.2 = false := by simpa using hb
      simp only [hb', Bool.false_eq_true, if_false]
      refine List.pairwise_cons.mpr ⟨?_, ih hy.2⟩
      intro b hbm
      have : b ∈ x :: ys := (insertBy_perm before x ys).mem_iff.mp hbm
      rcases List.mem_cons.mp this with rfl | hbm
      · exact hb'
      · exact hy.1 b hbm

theorem sortBy_sorted (before : α → α → Bool)
    (htrans : ∀ a b c, before a b = true → before b c = true → before a c = true)
    (hasym : ∀ a b, before a b = true → before b a = false)
    (l : List (Nat × α)) : SortedBy before (sortBy before l) := by
  have : ∀ (l acc : List (Nat × α)), SortedBy before acc →
      SortedBy before (l.foldl (fun acc x => insertBy before x acc) acc) := by
    intro l
    induction l with
    | nil => intro acc h; simpa using h
    | cons x l ih => intro acc h; exact ih _ (insertBy_sorted before htrans hasym x acc h)
  exact this l [] (by simp [SortedBy])

theorem rankOf_ge (i : Nat) (l : List (Nat × α)) : ∀ k a, rankOf i k l = some a → k ≤ a := by
  induction l with
  | nil => intro k a h; simp [rankOf] at h
  | cons y r ih =>
    intro k a h
    obtain ⟨j, z⟩ := y
    by_cases hij : i = j
    · simp [rankOf, hij] at h; omega
    · simp only [rankOf, hij, if_false] at h
      have := ih (k + 1) a h; omega

/-- in a sorted list with distinct keys, an element strictly before another has the smaller rank -/
theorem rankOf_lt_of_sorted (before : α → α → Bool)
    (hasym : ∀ a b, before a b = true → before b a = false)
    (l : List (Nat × α)) :
    ∀ k, (l.map (·.1)).Nodup → SortedBy before l →
      ∀ i j x y a b, (i, x) ∈ l → (j, y) ∈ l → before x y = true →
        rankOf i k l = some a → rankOf j k l = some b → a < b := by
  induction l with
  | nil => intro k _ _ i j x y a b hi; cases hi
  | cons hd r ih =>
    intro k hnd hs i j x y a b hi hj hxy ha hb
    obtain ⟨h, z⟩ := hd
    simp only [List.map_cons, List.nodup_cons] at hnd
    have hs' := List.pairwise_cons.mp hs
    by_cases hih : i = h
    · -- (i, x) is the head
      have hjh : j ≠ h := by
        intro hjh
        -- both have key h: both are the head, x = y = z
        have hx : x = z := by
          rcases List.mem_cons.mp hi with e | e
          · exact (Prod.mk.inj e).2
          · exact absurd (List.mem_map_of_mem (f := (·.1)) e) (by simpa [hih] using hnd.1)
        have hy : y = z := by
          rcases List.mem_cons.mp hj with e | e
          · exact (Prod.mk.inj e).2
          · exact absurd (List.mem_map_of_mem (f := (·.1)) e) (by simpa [hjh] using hnd.1)
        subst hx; subst hy
        have := hasym _ _ hxy
        rw [hxy] at this; exact absurd this (by simp)
      simp only [rankOf, hih, if_true] at ha
      simp only [rankOf, hjh, if_false] at hb
      have := rankOf_ge j r (k + 1) b hb
      have : a = k := by injection ha with ha; exact ha.symm
      omega
    · have hir : (i, x) ∈ r := by
        rcases List.mem_cons.mp hi with e | e
        · exact absurd (Prod.mk.inj e).1 hih
        · exact e
      by_cases hjh : j = h
      · -- (j, y) is the head, (i, x) comes later: sortedness forbids `before x y`
        have hy : y = z := by
          rcases List.mem_cons.mp hj with e | e
          · exact (Prod.mk.inj e).2
          · exact absurd (List.mem_map_of_mem (f := (·.1)) e) (by simpa [hjh] using hnd.1)
        have := hs'.1 (i, x) hir
        simp only [← hy] at this
        rw [hxy] at this; exact absurd this (by simp)
      · have hjr : (j, y) ∈ r := by
          rcases List.mem_cons.mp hj with e | e
          · exact absurd (Prod.mk.inj e).1 hjh
          · exact e
        simp only [rankOf, hih, if_false] at ha
        simp only [rankOf, hjh, if_false] at hb
        exact ih (k + 1) hnd.2 hs'.2 i j x y a b hir hjr hxy ha hb

theorem enumFrom_getElem? (vs : List β) : ∀ k i, (enumFrom k vs)[i]? = vs[i]?.map (fun v => (k + i, v)) := by
  induction vs with
  | nil => intro k i; simp [enumFrom]
  | cons v r ih =>
    intro k i
    cases i with
    | zero => simp [enumFrom]
    | succ n =>
      simp only [enumFrom, List.getElem?_cons_succ, ih (k + 1) n]
      cases r[n]? <;> simp <;> omega

/-- SORTA / SORTD, every set: with a transitive, asymmetric comparison (`std::less`, `std::greater`
on the defined values) an entry whose value is strictly before another entry's gets the smaller
rank. -/
theorem sortRanks_ordered (before : α → α → Bool)
    (htrans : ∀ a b c, before a b = true → before b c = true → before a c = true)
    (hasym : ∀ a b, before a b = true → before b a = false)
    (vs : List (Option α)) (i j : Nat) (x y : α) (a b : Nat)
    (hi : vs[i]? = some (some x)) (hj : vs[j]? = some (some y))
    (ha : (sortRanks before vs)[i]? = some (some a)) (hb : (sortRanks before vs)[j]? = some (some b))
    (hxy : before x y = true) : a < b := by
  unfold sortRanks at ha hb
  have ei : (enumFrom 0 vs)[i]? = some (i, some x) := by rw [enumFrom_getElem?, hi]; simp
  have ej : (enumFrom 0 vs)[j]? = some (j, some y) := by rw [enumFrom_getElem?, hj]; simp
  rw [List.getElem?_map, ei] at ha
  rw [List.getElem?_map, ej] at hb
  simp only [Option.map_some, rankAt, Option.some.injEq] at ha hb
  have hp := sortBy_perm before (definedIdx (enumFrom 0 vs))
  have hnd : ((sortBy before (definedIdx (enumFrom 0 vs))).map (·.1)).Nodup :=
    (hp.map (·.1)).nodup_iff.mpr (definedIdx_keys_nodup vs 0)
  have mem : ∀ (n : Nat) (v : α), (enumFrom 0 vs)[n]? = some (n, some v) →
      (n, v) ∈ sortBy before (definedIdx (enumFrom 0 vs)) := by
    intro n v h
    apply hp.mem_iff.mpr
    unfold definedIdx
    exact List.mem_filterMap.mpr ⟨(n, some v), List.mem_of_getElem? h, rfl⟩
  exact rankOf_lt_of_sorted before hasym _ 1 hnd (sortBy_sorted before htrans hasym _)
    i j x y a b (mem i x ei) (mem j y ej) hxy ha hb

/-- non-vacuity: `<` on naturals, ties and an undefined entry -/
example : sortRanks (fun a b : Nat => decide (a < b)) [some 5, none, some 2, some 5, some 1] =
    [some 3, none, some 2, some 4, some 1] := by decide

end OpmVerif.Udq
