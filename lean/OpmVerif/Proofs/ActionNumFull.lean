/-
  The value of a decimal literal is correctly rounded, without a range hypothesis: the digit count
  that `parseDec` hands to `ofDec` really is the number of significant digits of the mantissa, so
  the two cut-offs of `ofDec` are exact (`Proofs/ActionCutoff.lean`).
-/
import OpmVerif.Proofs.ActionCutoff
import OpmVerif.Proofs.ActionNumVal
import OpmVerif.Proofs.ActionFmt

namespace OpmVerif.Act
open OpmVerif

/-! ### digit values -/

theorem isDig_toNat (c : Char) (h : isDig c = true) : 48 ≤ c.toNat ∧ c.toNat ≤ 57 := by
  unfold isDig at h
  have h' := of_decide_eq_true h
  obtain ⟨a, b⟩ := h'
  rw [Char.le_def] at a b
  exact ⟨a, b⟩

theorem toNat_48 (c : Char) (h : c.toNat = 48) : c = '0' := by
  apply Char.ext
  apply UInt32.toNat_inj.mp
  exact h

/-! ### 1. leading zeros do not change the value -/

theorem dval_dropZeros : ∀ ds : List Char,
    Strtod.dval (ds.dropWhile (· = '0')) = Strtod.dval ds
  | [] => rfl
  | c :: r => by
    by_cases hc : c = '0'
    · subst hc
      rw [List.dropWhile_cons_of_pos (by simp), dval_dropZeros r, dval_cons]
      simp
    · rw [List.dropWhile_cons_of_neg (by simpa using hc)]

/-! ### 2. bounds -/

theorem dval_lt : ∀ ds : List Char, Digits ds → Strtod.dval ds < 10 ^ ds.length
  | [], _ => by decide
  | c :: r, h => by
    have ih := dval_lt r (fun d hd => h d (List.mem_cons_of_mem _ hd))
    obtain ⟨_, h9⟩ := isDig_toNat c (h c List.mem_cons_self)
    rw [dval_cons, List.length_cons, Nat.pow_succ]
    have : (c.toNat - 48) * 10 ^ r.length ≤ 9 * 10 ^ r.length := Nat.mul_le_mul_right _ (by omega)
    omega

theorem dval_bounds (ds : List Char) (h : Digits ds) (hne : ds ≠ []) (h0 : ds.head? ≠ some '0') :
    10 ^ (ds.length - 1) ≤ Strtod.dval ds ∧ Strtod.dval ds < 10 ^ ds.length := by
  refine ⟨?_, dval_lt ds h⟩
  cases ds with
  | nil => exact absurd rfl hne
  | cons c r =>
    obtain ⟨h48, _⟩ := isDig_toNat c (h c List.mem_cons_self)
    have hc : c ≠ '0' := by
      intro e; apply h0; rw [e]; rfl
    have hne48 : c.toNat ≠ 48 := fun e => hc (toNat_48 c e)
    rw [dval_cons]
    simp only [List.length_cons, Nat.add_sub_cancel]
    have : 1 * 10 ^ r.length ≤ (c.toNat - 48) * 10 ^ r.length := Nat.mul_le_mul_right _ (by omega)
    omega

/-! ### 3. the digit count handed to `ofDec` -/

theorem head_dropZeros : ∀ ds : List Char, (ds.dropWhile (· = '0')).head? ≠ some '0'
  | [] => by simp
  | c :: r => by
    by_cases hc : c = '0'
    · subst hc
      rw [List.dropWhile_cons_of_pos (by simp)]
      exact head_dropZeros r
    · rw [List.dropWhile_cons_of_neg (by simpa using hc)]
      intro e
      apply hc
      simpa using e

theorem digits_dropWhile (p : Char → Bool) (ds : List Char) (h : Digits ds) :
    Digits (ds.dropWhile p) :=
  fun c hc => h c ((List.dropWhile_sublist p).subset hc)

theorem dval_sigdigits (ds : List Char) (h : Digits ds) (hm : Strtod.dval ds ≠ 0) :
    10 ^ ((ds.dropWhile (· = '0')).length - 1) ≤ Strtod.dval ds ∧
      Strtod.dval ds < 10 ^ (ds.dropWhile (· = '0')).length := by
  have hne : ds.dropWhile (· = '0') ≠ [] := by
    intro e
    apply hm
    rw [← dval_dropZeros, e]
    rfl
  have := dval_bounds _ (digits_dropWhile _ ds h) hne (head_dropZeros ds)
  rwa [dval_dropZeros] at this

/-! ### 4. the value of a decimal literal, unconditionally -/

theorem digits_append (a b : List Char) (ha : Digits a) (hb : Digits b) : Digits (a ++ b) := by
  intro c hc
  rcases List.mem_append.mp hc with h | h
  · exact ha c h
  · exact hb c h

/-- `ofDecRounding` is the encoding of `roundCore` of `m · 10^e10` -/
theorem resBits_ofDecRounding (neg : Bool) (m : Nat) (e10 : Int) :
    resBits (ofDecRounding neg m e10) =
      some (encBits neg (Strtod.roundCore (decNum m e10) (decDen e10)).1
        (Strtod.roundCore (decNum m e10) (decDen e10)).2) := by
  unfold ofDecRounding decNum decDen
  by_cases h : 0 ≤ e10
  · simp only [h, if_true]; exact resBits_roundRatio neg _ _
  · simp only [h, if_false]; exact resBits_roundRatio neg _ _

/-- **the value of a decimal literal is correctly rounded** — `decLit_value_correctly_rounded`
without the range hypothesis -/
theorem decLit_value_full (sg ip : List Char) (frac : Option (List Char))
    (ex : Option (Char × List Char × List Char))
    (hsg : SignG sg) (hip : Digits ip) (hfp : Digits (fracDigits frac))
    (hne : ip ++ fracDigits frac ≠ []) (hex : ExpOk ex)
    (hm : Strtod.dval (ip ++ fracDigits frac) ≠ 0) :
    let m := Strtod.dval (ip ++ fracDigits frac)
    let e10 : Int := expVal ex - (fracDigits frac).length
    let num := decNum m e10
    let den := decDen e10
    let q := (Strtod.roundCore num den).1
    let eo := (Strtod.roundCore num den).2
    numBits (decLit sg ip frac ex) = some (encBits (decide (sg = ['-'])) q eo) ∧
      q < 2 ^ 53 ∧ (eo = 0 ∨ 2 ^ 52 ≤ q) ∧
      2 * (num * 2 ^ 1074 - q * (den * 2 ^ eo)) ≤ den * 2 ^ eo ∧
      2 * (q * (den * 2 ^ eo) - num * 2 ^ 1074) ≤ den * 2 ^ eo := by
  intro m e10 num den q eo
  refine ⟨?_, Strtod.roundCore_correct num den (decNum_pos m e10 hm) (decDen_pos e10)⟩
  rw [numBits_decLit sg ip frac ex hsg hip hfp hne hex]
  obtain ⟨hlo, hhi⟩ := dval_sigdigits (ip ++ fracDigits frac) (digits_append _ _ hip hfp) hm
  rw [ofDec_eq_rounding _ _ _ _ hm hlo hhi]
  exact resBits_ofDecRounding _ m e10

/-- the zero mantissa: `±0` -/
theorem decLit_value_zero (sg ip : List Char) (frac : Option (List Char))
    (ex : Option (Char × List Char × List Char))
    (hsg : SignG sg) (hip : Digits ip) (hfp : Digits (fracDigits frac))
    (hne : ip ++ fracDigits frac ≠ []) (hex : ExpOk ex)
    (hm : Strtod.dval (ip ++ fracDigits frac) = 0) :
    numBits (decLit sg ip frac ex) = some (if sg = ['-'] then 2 ^ 63 else 0) := by
  rw [numBits_decLit sg ip frac ex hsg hip hfp hne hex, hm]
  unfold Strtod.ofDec
  simp only [if_true, resBits]
  by_cases h : sg = ['-'] <;> simp [h]

end OpmVerif.Act
