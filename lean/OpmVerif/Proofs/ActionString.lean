/-
  STRING-level round trip of ACTIONX conditions: print a condition tree as the list of token strings
  the restart reader produces (`condStrings`: names, arguments, `comparator_as_string` spellings,
  "(" ")" "AND" "OR", constants through `format_double`), lex every string with the model's lexer
  (`mkTok` = `classify` + `numBits`, `get_func` code supplied by `gf`), parse: the same tree comes back.
-/
import OpmVerif.Proofs.ActionParseKit
import OpmVerif.Model.ActionIO
import OpmVerif.Model.ActionFmt

namespace OpmVerif.Act

def numStr (b : UInt64) : String :=
  match fmtDouble b.toNat with
  | some s => String.ofList s
  | none => "0"

/-- the constant survives printing and re-reading -/
def NumRT (b : UInt64) : Prop :=
  ∃ s, fmtDouble b.toNat = some s ∧ classify s = .number ∧ numBits s = some b.toNat

/-- tokens that carry their raw spelling in `text` -/
def rawKit : TokKit where
  lp := { ty := .lp, text := "(" }
  rp := { ty := .rp, text := ")" }
  and_ := { ty := .and, text := "AND" }
  or_ := { ty := .or, text := "OR" }
  cmp := fun o => { ty := .cmp o, text := cmpString o }
  num := fun b => { ty := .number, text := numStr b, bits := b }
  head := fun f ft => { ty := .expr, text := f, func := ft }
  rhead := fun f => { ty := .expr, text := f }
  arg := argTok
  lp_ty := rfl
  rp_ty := rfl
  and_ty := rfl
  or_ty := rfl
  cmp_ty := fun _ => rfl
  num_ty := fun _ => rfl
  num_bits := fun _ => rfl
  head_ty := fun _ _ => rfl
  head_text := fun _ _ => rfl
  head_func := fun _ _ => rfl
  rhead_ty := fun _ => rfl
  rhead_text := fun _ => rfl
  arg_ty := fun _ => rfl
  arg_text := fun _ => rfl

def condStrings (c : Cond) : List String := (renderK rawKit c).map (·.text)

def lexS (gf : String → Nat) (s : String) : Tok := mkTok s 0 (gf s)

/-- names and arguments are identifiers for `get_type`, left-hand function types are `get_func`'s,
constants survive -/
def LeafOK (gf : String → Nat) (left : Bool) : Leaf → Prop
  | .expr f ft args =>
    classify f.toList = .expr ∧ (if left then ft = gf f else ft = 0) ∧
      (∀ a ∈ args, classify a.toList = .expr ∧ stripQuotes a = a)
  | .num b => left = false ∧ NumRT b

def StrOK (gf : String → Nat) : Cond → Prop
  | .cmp _ l r => LeafOK gf true l ∧ LeafOK gf false r
  | .and c1 c2 rest => StrOK gf c1 ∧ StrOK gf c2 ∧ StrOKs gf rest
  | .or l r => StrOK gf l ∧ StrOK gf r
where
  StrOKs (gf : String → Nat) : List Cond → Prop
    | [] => True
    | c :: cs => StrOK gf c ∧ StrOKs gf cs

/-! ### 1. the fixed spellings lex as intended -/

theorem classify_cmpString (o : CmpOp) : classify (cmpString o).toList = .cmp o := by
  cases o <;> decide

theorem classify_lp : classify "(".toList = .lp := by decide
theorem classify_rp : classify ")".toList = .rp := by decide
theorem classify_and : classify "AND".toList = .and := by decide
theorem classify_or : classify "OR".toList = .or := by decide

/-! ### 2. `StrOK` trees are well formed -/

theorem strOK_wfc_both (gf : String → Nat) :
    (∀ c : Cond, StrOK gf c → WFC c) ∧ (∀ cs : List Cond, StrOK.StrOKs gf cs → WFC.WFCs cs) := by
  let m1 : Cond → Prop := fun c => StrOK gf c → WFC c
  let m2 : List Cond → Prop := fun cs => StrOK.StrOKs gf cs → WFC.WFCs cs
  have hcmp : ∀ o l r, m1 (.cmp o l r) := by
    intro o l r hs
    have hs' : LeafOK gf true l ∧ LeafOK gf false r := hs
    obtain ⟨hl, hr⟩ := hs'
    cases l with
    | num b =>
      have : true = false ∧ NumRT b := hl
      exact absurd this.1 (by decide)
    | expr f ft args =>
      have hl' : classify f.toList = .expr ∧ (if true = true then ft = gf f else ft = 0) ∧
        (∀ a ∈ args, classify a.toList = .expr ∧ stripQuotes a = a) := hl
      have hpl : plainArgs args := fun a ha => (hl'.2.2 a ha).2
      cases r with
      | num b => exact ⟨hpl, trivial⟩
      | expr g gt gargs =>
        have hr' : classify g.toList = .expr ∧ (if false = true then gt = gf g else gt = 0) ∧
          (∀ a ∈ gargs, classify a.toList = .expr ∧ stripQuotes a = a) := hr
        have h0 : gt = 0 := by simpa using hr'.2.1
        have hpr : plainArgs gargs := fun a ha => (hr'.2.2 a ha).2
        exact ⟨hpl, h0, hpr⟩
  have hand : ∀ c1 c2 rest, m1 c1 → m1 c2 → m2 rest → m1 (.and c1 c2 rest) := by
    intro c1 c2 rest ih1 ih2 ih3 hs
    have hs' : StrOK gf c1 ∧ StrOK gf c2 ∧ StrOK.StrOKs gf rest := by simpa [StrOK] using hs
    show WFC (.and c1 c2 rest)
    simp only [WFC]
    exact ⟨ih1 hs'.1, ih2 hs'.2.1, ih3 hs'.2.2⟩
  have hor : ∀ l r, m1 l → m1 r → m1 (.or l r) := by
    intro l r ihl ihr hs
    have hs' : StrOK gf l ∧ StrOK gf r := by simpa [StrOK] using hs
    show WFC (.or l r)
    simp only [WFC]
    exact ⟨ihl hs'.1, ihr hs'.2⟩
  have hnil : m2 [] := fun _ => by simp only [WFC.WFCs]
  have hcons : ∀ c cs, m1 c → m2 cs → m2 (c :: cs) := by
    intro c cs ih1 ih2 hs
    have hs' : StrOK gf c ∧ StrOK.StrOKs gf cs := by simpa [StrOK.StrOKs] using hs
    show WFC.WFCs (c :: cs)
    simp only [WFC.WFCs]
    exact ⟨ih1 hs'.1, ih2 hs'.2⟩
  exact ⟨fun c => Cond.rec (motive_1 := m1) (motive_2 := m2) hcmp hand hor hnil hcons c,
         fun cs => Cond.rec_1 (motive_1 := m1) (motive_2 := m2) hcmp hand hor hnil hcons cs⟩

theorem strOK_wfc {gf : String → Nat} {c : Cond} (h : StrOK gf c) : WFC c :=
  (strOK_wfc_both gf).1 c h

/-! ### 3. the kit of lexed strings -/

theorem mkTok_expr {s : String} (bv fv : Nat) (h : classify s.toList = .expr) :
    mkTok s bv fv = { ty := .expr, text := s, bits := 0, func := fv } := by
  unfold mkTok
  simp only [h]

theorem mkTok_number {s : String} (bv fv : Nat) (h : classify s.toList = .number) :
    mkTok s bv fv =
      { ty := .number, text := s, bits := ((numBits s.toList).getD bv).toUInt64, func := 0 } := by
  unfold mkTok
  simp only [h]

theorem mkTok_ty (s : String) (bv fv : Nat) : (mkTok s bv fv).ty = classify s.toList := rfl

theorem lexS_ty (gf : String → Nat) (s : String) : (lexS gf s).ty = classify s.toList := rfl

theorem lexS_expr {gf : String → Nat} {s : String} (h : (lexS gf s).ty = .expr) :
    lexS gf s = { ty := .expr, text := s, bits := 0, func := gf s } :=
  mkTok_expr 0 (gf s) h

/-- the lexed raw strings; where a string does not lex as intended the raw token is used, so the kit
laws hold unconditionally (`lex_render` shows the fallback is never taken on `StrOK` trees) -/
def lexKit (gf : String → Nat) : TokKit where
  lp := lexS gf "("
  rp := lexS gf ")"
  and_ := lexS gf "AND"
  or_ := lexS gf "OR"
  cmp := fun o => lexS gf (cmpString o)
  num := fun b =>
    if (lexS gf (numStr b)).ty = .number ∧ (lexS gf (numStr b)).bits = b then lexS gf (numStr b)
    else rawKit.num b
  head := fun f ft => if (lexS gf f).ty = .expr ∧ gf f = ft then lexS gf f else rawKit.head f ft
  rhead := fun f => if (lexS gf f).ty = .expr then lexS gf f else rawKit.rhead f
  arg := fun a => if (lexS gf a).ty = .expr then lexS gf a else argTok a
  lp_ty := classify_lp
  rp_ty := classify_rp
  and_ty := classify_and
  or_ty := classify_or
  cmp_ty := fun o => classify_cmpString o
  num_ty := by
    intro b
    by_cases h : (lexS gf (numStr b)).ty = .number ∧ (lexS gf (numStr b)).bits = b
    · simp only [if_pos h]; exact h.1
    · simp only [if_neg h]; rfl
  num_bits := by
    intro b
    by_cases h : (lexS gf (numStr b)).ty = .number ∧ (lexS gf (numStr b)).bits = b
    · simp only [if_pos h]; exact h.2
    · simp only [if_neg h]; rfl
  head_ty := by
    intro f ft
    by_cases h : (lexS gf f).ty = .expr ∧ gf f = ft
    · simp only [if_pos h]; exact h.1
    · simp only [if_neg h]; rfl
  head_text := by
    intro f ft
    by_cases h : (lexS gf f).ty = .expr ∧ gf f = ft
    · simp only [if_pos h]; rw [lexS_expr h.1]
    · simp only [if_neg h]; rfl
  head_func := by
    intro f ft
    by_cases h : (lexS gf f).ty = .expr ∧ gf f = ft
    · simp only [if_pos h]; rw [lexS_expr h.1]; exact h.2
    · simp only [if_neg h]; rfl
  rhead_ty := by
    intro f
    by_cases h : (lexS gf f).ty = .expr
    · simp only [if_pos h]; exact h
    · simp only [if_neg h]; rfl
  rhead_text := by
    intro f
    by_cases h : (lexS gf f).ty = .expr
    · simp only [if_pos h]; rw [lexS_expr h]
    · simp only [if_neg h]; rfl
  arg_ty := by
    intro a
    by_cases h : (lexS gf a).ty = .expr
    · simp only [if_pos h]; exact h
    · simp only [if_neg h]; rfl
  arg_text := by
    intro a
    by_cases h : (lexS gf a).ty = .expr
    · simp only [if_pos h]; rw [lexS_expr h]
    · simp only [if_neg h]; rfl

/-! ### 4. lexing the printed strings gives the kit print-out -/

/-- lex the spelling a raw token carries -/
def relex (gf : String → Nat) (t : Tok) : Tok := lexS gf t.text

theorem lexKit_num {gf : String → Nat} {b : UInt64} (h : NumRT b) :
    (lexKit gf).num b = lexS gf (numStr b) := by
  obtain ⟨s, hf, hc, hn⟩ := h
  have hs : numStr b = String.ofList s := by
    unfold numStr
    rw [hf]
  have hl : (numStr b).toList = s := by rw [hs]; exact String.toList_ofList
  have hc' : classify (numStr b).toList = .number := by rw [hl]; exact hc
  have hty : (lexS gf (numStr b)).ty = .number := hc'
  have hbits : (lexS gf (numStr b)).bits = b := by
    unfold lexS
    rw [mkTok_number 0 (gf (numStr b)) hc']
    show ((numBits (numStr b).toList).getD 0).toUInt64 = b
    rw [hl, hn]
    exact UInt64.ofNat_toNat
  show (if (lexS gf (numStr b)).ty = .number ∧ (lexS gf (numStr b)).bits = b then lexS gf (numStr b)
    else rawKit.num b) = _
  rw [if_pos ⟨hty, hbits⟩]

theorem lexKit_head {gf : String → Nat} {f : String} (h : classify f.toList = .expr) :
    (lexKit gf).head f (gf f) = lexS gf f := by
  show (if (lexS gf f).ty = .expr ∧ gf f = gf f then lexS gf f else rawKit.head f (gf f)) = _
  rw [if_pos ⟨h, rfl⟩]

theorem lexKit_rhead {gf : String → Nat} {f : String} (h : classify f.toList = .expr) :
    (lexKit gf).rhead f = lexS gf f := by
  show (if (lexS gf f).ty = .expr then lexS gf f else rawKit.rhead f) = _
  have h' : (lexS gf f).ty = .expr := h
  rw [if_pos h']

theorem lexKit_arg {gf : String → Nat} {a : String} (h : classify a.toList = .expr) :
    (lexKit gf).arg a = lexS gf a := by
  show (if (lexS gf a).ty = .expr then lexS gf a else argTok a) = _
  have h' : (lexS gf a).ty = .expr := h
  rw [if_pos h']

theorem relex_args (gf : String → Nat) (args : List String)
    (h : ∀ a ∈ args, classify a.toList = .expr ∧ stripQuotes a = a) :
    (args.map rawKit.arg).map (relex gf) = args.map (lexKit gf).arg := by
  rw [List.map_map]
  apply List.map_congr_left
  intro a ha
  show lexS gf a = (lexKit gf).arg a
  rw [lexKit_arg (h a ha).1]

theorem relex_leaf (gf : String → Nat) (left : Bool) (l : Leaf) (h : LeafOK gf left l) :
    (leafK rawKit left l).map (relex gf) = leafK (lexKit gf) left l := by
  cases l with
  | num b =>
    have h' : left = false ∧ NumRT b := h
    show [lexS gf (numStr b)] = [(lexKit gf).num b]
    rw [lexKit_num h'.2]
  | expr f ft args =>
    have h' : classify f.toList = .expr ∧ (if left = true then ft = gf f else ft = 0) ∧
      (∀ a ∈ args, classify a.toList = .expr ∧ stripQuotes a = a) := h
    obtain ⟨hc, hft, hargs⟩ := h'
    cases left with
    | true =>
      have hft' : ft = gf f := by simpa using hft
      show relex gf (rawKit.head f ft) :: (args.map rawKit.arg).map (relex gf)
        = (lexKit gf).head f ft :: args.map (lexKit gf).arg
      rw [relex_args gf args hargs, hft', lexKit_head hc]
      rfl
    | false =>
      show relex gf (rawKit.rhead f) :: (args.map rawKit.arg).map (relex gf)
        = (lexKit gf).rhead f :: args.map (lexKit gf).arg
      rw [relex_args gf args hargs, lexKit_rhead hc]
      rfl

theorem relex_wrap (gf : String → Nat) (lvl : Nat) (c : Cond) (body : List Tok) :
    (wrapK rawKit lvl c body).map (relex gf) = wrapK (lexKit gf) lvl c (body.map (relex gf)) := by
  unfold wrapK
  by_cases h : lvl ≤ c.level
  · simp only [if_pos h]
  · simp only [if_neg h, List.map_cons, List.map_append, List.map_nil]
    rfl

theorem relex_body (gf : String → Nat) :
    (∀ c : Cond, StrOK gf c → (renderBodyK rawKit c).map (relex gf) = renderBodyK (lexKit gf) c) ∧
    (∀ cs : List Cond, StrOK.StrOKs gf cs →
      (renderBodyK.renderTailK rawKit cs).map (relex gf) = renderBodyK.renderTailK (lexKit gf) cs) := by
  let m1 : Cond → Prop := fun c =>
    StrOK gf c → (renderBodyK rawKit c).map (relex gf) = renderBodyK (lexKit gf) c
  let m2 : List Cond → Prop := fun cs => StrOK.StrOKs gf cs →
    (renderBodyK.renderTailK rawKit cs).map (relex gf) = renderBodyK.renderTailK (lexKit gf) cs
  have hcmp : ∀ o l r, m1 (.cmp o l r) := by
    intro o l r hs
    have hs' : LeafOK gf true l ∧ LeafOK gf false r := hs
    show (renderBodyK rawKit (.cmp o l r)).map (relex gf) = renderBodyK (lexKit gf) (.cmp o l r)
    simp only [renderBodyK, List.map_append, List.map_cons, relex_leaf gf true l hs'.1,
      relex_leaf gf false r hs'.2]
    rfl
  have hand : ∀ c1 c2 rest, m1 c1 → m1 c2 → m2 rest → m1 (.and c1 c2 rest) := by
    intro c1 c2 rest ih1 ih2 ih3 hs
    have hs' : StrOK gf c1 ∧ StrOK gf c2 ∧ StrOK.StrOKs gf rest := by simpa [StrOK] using hs
    show (renderBodyK rawKit (.and c1 c2 rest)).map (relex gf) = renderBodyK (lexKit gf) (.and c1 c2 rest)
    simp only [renderBodyK, List.map_append, List.map_cons, relex_wrap, ih1 hs'.1, ih2 hs'.2.1,
      ih3 hs'.2.2]
    rfl
  have hor : ∀ l r, m1 l → m1 r → m1 (.or l r) := by
    intro l r ihl ihr hs
    have hs' : StrOK gf l ∧ StrOK gf r := by simpa [StrOK] using hs
    show (renderBodyK rawKit (.or l r)).map (relex gf) = renderBodyK (lexKit gf) (.or l r)
    simp only [renderBodyK, List.map_append, List.map_cons, relex_wrap, ihl hs'.1, ihr hs'.2]
    rfl
  have hnil : m2 [] := fun _ => rfl
  have hcons : ∀ c cs, m1 c → m2 cs → m2 (c :: cs) := by
    intro c cs ih1 ih2 hs
    have hs' : StrOK gf c ∧ StrOK.StrOKs gf cs := by simpa [StrOK.StrOKs] using hs
    show (renderBodyK.renderTailK rawKit (c :: cs)).map (relex gf)
      = renderBodyK.renderTailK (lexKit gf) (c :: cs)
    simp only [renderBodyK.renderTailK, List.map_append, List.map_cons, relex_wrap, ih1 hs'.1,
      ih2 hs'.2]
    rfl
  exact ⟨fun c => Cond.rec (motive_1 := m1) (motive_2 := m2) hcmp hand hor hnil hcons c,
         fun cs => Cond.rec_1 (motive_1 := m1) (motive_2 := m2) hcmp hand hor hnil hcons cs⟩

/-- lexing the printed strings one by one gives the print-out with the kit of lexed tokens -/
theorem lex_render (gf : String → Nat) (c : Cond) (h : StrOK gf c) :
    (condStrings c).map (lexS gf) = renderK (lexKit gf) c := by
  unfold condStrings
  rw [List.map_map]
  show (wrapK rawKit 0 c (renderBodyK rawKit c)).map (relex gf)
    = wrapK (lexKit gf) 0 c (renderBodyK (lexKit gf) c)
  rw [relex_wrap, (relex_body gf).1 c h]

/-! ### 5. the string-level round trip -/

/-- print the tree as token strings, lex each string with the model's lexer, parse: the same tree -/
theorem string_roundtrip (gf : String → Nat) (c : Cond) (h : StrOK gf c) :
    parse ((condStrings c).map (lexS gf)) = .tree c := by
  rw [lex_render gf c h]
  exact parse_renderK _ c (strOK_wfc h)

/-! ### 6. non-vacuity -/

example : condStrings (.cmp .gt (.expr "WOPR" 2 ["P1"]) (.num 0x4024000000000000))
    = ["WOPR", "P1", ">", "10"] := by decide +kernel

/-- the hypothesis of `string_roundtrip` holds for a concrete tree (`WOPR P1 > 10`) -/
example : StrOK (fun s => if s = "WOPR" then 2 else 0)
    (.cmp .gt (.expr "WOPR" 2 ["P1"]) (.num 0x4024000000000000)) := by
  refine ⟨⟨by decide +kernel, by decide +kernel, ?_⟩, rfl, ⟨"10".toList, by decide +kernel, by decide +kernel, by decide +kernel⟩⟩
  intro a ha
  have : a = "P1" := by simpa using ha
  subst this
  exact ⟨by decide +kernel, by decide +kernel⟩

end OpmVerif.Act
