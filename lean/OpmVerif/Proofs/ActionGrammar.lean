/-
  Fifth round: the number grammar of `Parser::get_type` as an explicit grammar.

  `get_type` lower-cases the token, looks it up in the operator table and otherwise calls it a number
  iff `strtod` consumes the whole token (the empty token included).  `LowerNumG` spells out the strings
  `strtod` consumes completely (on lower-case input, "C" locale, glibc):

      [white space] [+|-] ( d+ | d+ . d* | . d+ ) [ e [+|-] d+ ]
      [white space] [+|-] 0x ( h+ | h+ . h* | . h+ ) [ p [+|-] d+ ]
      [white space] [+|-] ( inf | infinity | nan | nan( [A-Za-z0-9_]* ) )
      the empty token

  The theorems (`Proofs/ActionGrammarFwd.lean`, `Proofs/ActionGrammarConv.lean`) tie it to the staged
  `strtodLen` of `Model/ActionTok.lean` in both directions.
-/
import OpmVerif.Model.ActionTok

namespace OpmVerif.Act

/-- every character of `l` satisfies `p` -/
def AllP (p : Char → Bool) (l : List Char) : Prop := ∀ c ∈ l, p c = true

/-- optional sign -/
inductive SignG : List Char → Prop
  | none : SignG []
  | plus : SignG ['+']
  | minus : SignG ['-']

/-- optional exponent: the mark (`e` / `p`), an optional sign, at least one DECIMAL digit -/
inductive ExpG (mark : Char) : List Char → Prop
  | none : ExpG mark []
  | some (sg ds : List Char) : SignG sg → ds ≠ [] → AllP isDig ds → ExpG mark (mark :: (sg ++ ds))

/-- mantissa over a digit class: `d+`, `d+ . d*`, `. d+` (at least one digit in total) -/
inductive MantG (dig : Char → Bool) : List Char → Prop
  | int (d1 : List Char) : d1 ≠ [] → AllP dig d1 → MantG dig d1
  | frac (d1 d2 : List Char) : d1 ++ d2 ≠ [] → AllP dig d1 → AllP dig d2 → MantG dig (d1 ++ '.' :: d2)

/-- the unsigned part of a subject sequence -/
inductive BodyG : List Char → Prop
  | dec (m e : List Char) : MantG isDig m → ExpG 'e' e → BodyG (m ++ e)
  | hex (m e : List Char) : MantG isHexDig m → ExpG 'p' e → BodyG ('0' :: 'x' :: (m ++ e))
  | inf : BodyG ['i', 'n', 'f']
  | infinity : BodyG ['i', 'n', 'f', 'i', 'n', 'i', 't', 'y']
  | nan : BodyG ['n', 'a', 'n']
  | nanChars (cs : List Char) : AllP isAlnumU cs → BodyG ('n' :: 'a' :: 'n' :: '(' :: (cs ++ [')']))

/-- the (lower-case) tokens `strtod` consumes completely -/
inductive LowerNumG : List Char → Prop
  | empty : LowerNumG []
  | mk (ws sg b : List Char) : AllP isSpaceC ws → SignG sg → BodyG b → LowerNumG (ws ++ (sg ++ b))

/-- **the number grammar of ACTIONX condition tokens**: the lower-cased token is in `LowerNumG` -/
def NumberGrammar (tok : List Char) : Prop := LowerNumG (lowerL tok)

end OpmVerif.Act
