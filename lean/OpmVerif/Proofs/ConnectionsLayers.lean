/-
  C06 — a COMPDAT record that spans several layers (K1 < K2).

  The model's `compdatLoop` runs the body of the `for (k = K1; k <= K2; ++k)` loop of
  `WellConnections::loadCOMPDAT` once per layer, every time with the *same* record items and
  with the cell of *that* layer.  Two facts follow, for every scalar type, every grid, every
  list of connections already present and every K range:

  * `loadCompdat_eq_per_layer` — the record K1..K2 has exactly the effect of the one-layer
    records K1..K1, (K1+1)..(K1+1), …, K2..K2 entered in this order;
  * `loadCompdat_layer_own_cell` — afterwards the connection of layer k carries
    `ctfOf F inp (cell of layer k)`: nothing computed for another layer of the record enters
    (in particular no Peaceman radius of a layer above), whatever the other cells are
    (`loadCompdat_layer_local`).

  Over ℝ this composes with the text-book formulas of `Proofs/Peaceman.lean`:
  `layer_defaults_X/Y/Z`.
-/
import OpmVerif.Proofs.Peaceman
import OpmVerif.Proofs.Connections
import OpmVerif.Proofs.PeacemanExamples

namespace OpmVerif.Conns
open OpmVerif.Peaceman

variable {α : Type}

/-! ### `layers` -/

theorem layers_single (k : Int) : layers (k + 1) (k + 1) = [k] := by
  unfold layers
  have h : (k + 1 - (k + 1) + 1).toNat = 1 := by
    have : k + 1 - (k + 1) + 1 = 1 := by omega
    rw [this]; rfl
  rw [h]
  simp [List.range_succ]

theorem mem_layers (k1 k2 k : Int) : k ∈ layers k1 k2 ↔ k1 - 1 ≤ k ∧ k ≤ k2 - 1 := by
  unfold layers
  simp only [List.mem_map, List.mem_range, Int.ofNat_eq_natCast]
  constructor
  · rintro ⟨n, hn, rfl⟩
    constructor <;> omega
  · rintro ⟨h1, h2⟩
    refine ⟨(k - (k1 - 1)).toNat, ?_, ?_⟩ <;> omega

theorem layers_nodup (k1 k2 : Int) : (layers k1 k2).Nodup := by
  unfold layers
  refine List.Nodup.map_on ?_ List.nodup_range
  intro a _ b _ h
  simp only [Int.ofNat_eq_natCast] at h
  omega

/-! ### `find?` through `replaceFirst` / `upsert` -/

/-- Rewriting the first `p`-element by an `f` that keeps `p`: the first `p`-element of the
result is `f` of the old one. -/
theorem find?_replaceFirst_same {β : Type} (p : β → Bool) (f : β → β) (l : List β)
    (hf : ∀ c, p c = true → p (f c) = true) :
    (replaceFirst p f l).find? p = (l.find? p).map f := by
  induction l with
  | nil => rfl
  | cons c cs ih =>
    unfold replaceFirst
    by_cases hp : p c = true
    · rw [if_pos hp]
      simp [List.find?, hp, hf c hp]
    · rw [if_neg hp]
      have hp' : p c = false := by simpa using hp
      simp only [List.find?, hp']
      exact ih

/-- Rewriting the first `q`-element leaves the first `p`-element alone when neither the
`q`-elements nor their images satisfy `p`. -/
theorem find?_replaceFirst_other {β : Type} (p q : β → Bool) (f : β → β) (l : List β)
    (h1 : ∀ c, q c = true → p c = false) (h2 : ∀ c, q c = true → p (f c) = false) :
    (replaceFirst q f l).find? p = l.find? p := by
  induction l with
  | nil => rfl
  | cons c cs ih =>
    unfold replaceFirst
    by_cases hq : q c = true
    · rw [if_pos hq]
      simp [List.find?, h1 c hq, h2 c hq]
    · rw [if_neg hq]
      cases hp : p c
      · simp only [List.find?, hp]
        exact ih
      · simp [List.find?, hp]

theorem replaceWith_at (one : α) (n : NewConn α) (prev : Conn α) (i j k : Int) :
    (replaceWith one n prev).at i j k = (n.i == i && n.j == j && n.k == k) := rfl

theorem freshConn_at (one : α) (n : NewConn α) (size : Nat) (i j k : Int) :
    (freshConn one n size).at i j k = (n.i == i && n.j == j && n.k == k) := rfl

/-- What `loadCOMPDAT` has just written for a cell: the record's state and direction, the
connection factors computed in this iteration, the cell's depth. -/
def Conn.carries (c : Conn α) (n : NewConn α) : Prop :=
  c.i = n.i ∧ c.j = n.j ∧ c.k = n.k ∧ c.ctf = n.ctf ∧ c.state = n.state ∧ c.dir = n.dir ∧
  c.fromDeck = n.fromDeck ∧ c.depth = n.depth

theorem upsert_find?_same (one : α) (cs : List (Conn α)) (n : NewConn α) :
    ∃ c, (upsert one cs n).find? (fun c => c.at n.i n.j n.k) = some c ∧ c.carries n := by
  unfold upsert
  by_cases hany : cs.any (fun c => c.at n.i n.j n.k) = true
  · rw [if_pos hany]
    rw [find?_replaceFirst_same _ _ _ (fun c _ => by rw [replaceWith_at]; simp)]
    obtain ⟨d, hd, hdp⟩ := List.any_eq_true.mp hany
    cases hfind : cs.find? (fun c => c.at n.i n.j n.k) with
    | none =>
      have := List.find?_eq_none.mp hfind d hd
      exact absurd hdp (by simpa using this)
    | some e =>
      exact ⟨replaceWith one n e, rfl, rfl, rfl, rfl, rfl, rfl, rfl, rfl, rfl⟩
  · rw [if_neg hany]
    refine ⟨freshConn one n cs.length, ?_, rfl, rfl, rfl, rfl, rfl, rfl, rfl, rfl⟩
    rw [List.find?_append]
    have hnone : cs.find? (fun c => c.at n.i n.j n.k) = none := by
      rw [List.find?_eq_none]
      intro x hx hpx
      exact hany (List.any_eq_true.mpr ⟨x, hx, hpx⟩)
    rw [hnone]
    simp [List.find?, freshConn_at]

theorem upsert_find?_other (one : α) (cs : List (Conn α)) (n : NewConn α) (i j k : Int)
    (hne : (n.i == i && n.j == j && n.k == k) = false) :
    (upsert one cs n).find? (fun c => c.at i j k) = cs.find? (fun c => c.at i j k) := by
  unfold upsert
  split
  · apply find?_replaceFirst_other
    · intro c hc
      obtain ⟨h1, h2, h3⟩ := at_eq_true hc
      unfold Conn.at
      rw [h1, h2, h3]
      exact hne
    · intro c _
      rw [replaceWith_at]
      exact hne
  · rw [List.find?_append]
    have : [freshConn one n cs.length].find? (fun c => c.at i j k) = none := by
      simp [List.find?, freshConn_at, hne]
    rw [this]
    simp

section compdat
variable [Add α] [Sub α] [Mul α] [Div α] [LT α] [DecidableLT α]

/-! ### The loop = one iteration after the other -/

theorem compdatLoop_cons (F : Fns α) (one : α) (grid : Grid α) (I J : Int) (st : State) (inp : Input α)
    (k : Int) (ks : List Int) (cs : List (Conn α)) :
    compdatLoop F one grid I J st inp (k :: ks) cs =
      compdatLoop F one grid I J st inp ks (compdatLoop F one grid I J st inp [k] cs) := by
  conv => lhs; unfold compdatLoop
  conv => rhs; rw [show compdatLoop F one grid I J st inp [k] cs =
    (match grid I J k with
      | none => cs
      | some (cell, depth) =>
        upsert one cs { i := I, j := J, k := k, state := st, dir := inp.dir,
                        ctf := ctfOf F inp cell, fromDeck := ctfFromDeck F inp, depth := depth }) by
    unfold compdatLoop
    cases grid I J k with
    | none => simp [compdatLoop]
    | some p => simp [compdatLoop]]
  cases grid I J k with
  | none => rfl
  | some p => rfl

theorem compdatLoop_eq_foldl (F : Fns α) (one : α) (grid : Grid α) (I J : Int) (st : State) (inp : Input α)
    (ks : List Int) (cs : List (Conn α)) :
    compdatLoop F one grid I J st inp ks cs =
      ks.foldl (fun acc k => compdatLoop F one grid I J st inp [k] acc) cs := by
  induction ks generalizing cs with
  | nil => rfl
  | cons k ks ih =>
    rw [compdatLoop_cons, List.foldl_cons]
    exact ih _

/-- The record restricted to the single (0-based) layer `k`: K1 = K2 = k + 1, every other item
as in `r`. -/
def CompdatRec.layer (r : CompdatRec α) (k : Int) : CompdatRec α := { r with k1 := k + 1, k2 := k + 1 }

theorem loadCompdat_layer (F : Fns α) (one : α) (grid : Grid α) (headI headJ : Int) (r : CompdatRec α)
    (k : Int) (cs : List (Conn α)) :
    loadCompdat F one grid headI headJ (r.layer k) cs =
      compdatLoop F one grid (if r.iRaw = 0 then headI else r.iRaw - 1) (if r.jRaw = 0 then headJ else r.jRaw - 1)
        r.state r.inp [k] cs := by
  unfold loadCompdat CompdatRec.layer
  simp only [layers_single]

/-- **A record K1..K2 has the same effect as the per-layer records in order.** -/
theorem loadCompdat_eq_per_layer (F : Fns α) (one : α) (grid : Grid α) (headI headJ : Int) (r : CompdatRec α)
    (cs : List (Conn α)) :
    loadCompdat F one grid headI headJ r cs =
      (layers r.k1 r.k2).foldl (fun acc k => loadCompdat F one grid headI headJ (r.layer k) acc) cs := by
  have h : (fun acc k => loadCompdat F one grid headI headJ (r.layer k) acc) =
      (fun acc k => compdatLoop F one grid (if r.iRaw = 0 then headI else r.iRaw - 1)
        (if r.jRaw = 0 then headJ else r.jRaw - 1) r.state r.inp [k] acc) := by
    funext acc k
    exact loadCompdat_layer F one grid headI headJ r k acc
  rw [h]
  unfold loadCompdat
  exact compdatLoop_eq_foldl _ _ _ _ _ _ _ _ _

/-! ### Every layer gets the values of its own cell -/

theorem compdatLoop_find?_other (F : Fns α) (one : α) (grid : Grid α) (I J : Int) (st : State) (inp : Input α)
    (ks : List Int) (cs : List (Conn α)) (k : Int) (hk : k ∉ ks) :
    (compdatLoop F one grid I J st inp ks cs).find? (fun c => c.at I J k) = cs.find? (fun c => c.at I J k) := by
  induction ks generalizing cs with
  | nil => rfl
  | cons k0 ks ih =>
    have hk0 : k0 ≠ k := fun h => hk (h ▸ List.mem_cons_self)
    have hks : k ∉ ks := fun h => hk (List.mem_cons_of_mem _ h)
    unfold compdatLoop
    split
    · exact ih cs hks
    · rw [ih _ hks]
      apply upsert_find?_other
      simp [hk0]

/-- The connection the loop leaves in an active cell (I, J, k), k one of the layers. -/
theorem compdatLoop_layer_own_cell (F : Fns α) (one : α) (grid : Grid α) (I J : Int) (st : State) (inp : Input α)
    (ks : List Int) (hnd : ks.Nodup) (cs : List (Conn α)) (k : Int) (hk : k ∈ ks)
    (cell : Cell α) (depth : α) (hg : grid I J k = some (cell, depth)) :
    ∃ c, (compdatLoop F one grid I J st inp ks cs).find? (fun c => c.at I J k) = some c ∧
      c.carries { i := I, j := J, k := k, state := st, dir := inp.dir, ctf := ctfOf F inp cell,
                  fromDeck := ctfFromDeck F inp, depth := depth } := by
  induction ks generalizing cs with
  | nil => exact absurd hk (by simp)
  | cons k0 ks ih =>
    have hnd' := (List.nodup_cons.mp hnd)
    by_cases h0 : k0 = k
    · subst h0
      unfold compdatLoop
      rw [hg]
      simp only []
      rw [compdatLoop_find?_other F one grid I J st inp ks _ k0 hnd'.1]
      exact upsert_find?_same one cs ⟨I, J, k0, st, inp.dir, ctfOf F inp cell, ctfFromDeck F inp, depth⟩
    · have hk' : k ∈ ks := by
        rcases List.mem_cons.mp hk with h | h
        · exact absurd h.symm h0
        · exact h
      unfold compdatLoop
      split
      · exact ih hnd'.2 cs hk'
      · exact ih hnd'.2 _ hk'

/-- **Each layer's values depend on that layer's cell only**: after a COMPDAT record
K1..K2, the connection in the active cell of layer `k` (K1 − 1 ≤ k ≤ K2 − 1) carries the
connection factors `ctfOf F r.inp cell` of the record's items and *this* cell, the depth of
this cell, the record's state and direction — whatever connections existed before and whatever
the other cells of the column are. -/
theorem loadCompdat_layer_own_cell (F : Fns α) (one : α) (grid : Grid α) (headI headJ : Int) (r : CompdatRec α)
    (cs : List (Conn α)) (k : Int) (hk : k ∈ layers r.k1 r.k2) (cell : Cell α) (depth : α)
    (hg : grid (if r.iRaw = 0 then headI else r.iRaw - 1) (if r.jRaw = 0 then headJ else r.jRaw - 1) k
            = some (cell, depth)) :
    ∃ c, (loadCompdat F one grid headI headJ r cs).find?
            (fun c => c.at (if r.iRaw = 0 then headI else r.iRaw - 1) (if r.jRaw = 0 then headJ else r.jRaw - 1) k)
          = some c ∧
      c.ctf = ctfOf F r.inp cell ∧ c.depth = depth ∧ c.state = r.state ∧ c.dir = r.inp.dir ∧
      c.fromDeck = ctfFromDeck F r.inp := by
  obtain ⟨c, hc, h⟩ := compdatLoop_layer_own_cell F one grid _ _ r.state r.inp (layers r.k1 r.k2)
    (layers_nodup _ _) cs k hk cell depth hg
  refine ⟨c, ?_, h.2.2.2.1, h.2.2.2.2.2.2.2, h.2.2.2.2.1, h.2.2.2.2.2.1, h.2.2.2.2.2.2.1⟩
  unfold loadCompdat
  exact hc

/-- The same as a locality statement: two grids that agree in the cell of layer `k` (and are
arbitrary elsewhere — other layers, other columns) and two arbitrary previous connection
lists give layer `k` the same connection factors. -/
theorem loadCompdat_layer_local (F : Fns α) (one : α) (grid grid' : Grid α) (headI headJ : Int) (r : CompdatRec α)
    (cs cs' : List (Conn α)) (k : Int) (hk : k ∈ layers r.k1 r.k2) (cell : Cell α) (depth : α)
    (hg : grid (if r.iRaw = 0 then headI else r.iRaw - 1) (if r.jRaw = 0 then headJ else r.jRaw - 1) k
            = some (cell, depth))
    (hg' : grid' (if r.iRaw = 0 then headI else r.iRaw - 1) (if r.jRaw = 0 then headJ else r.jRaw - 1) k
            = some (cell, depth)) :
    ∃ c c', (loadCompdat F one grid headI headJ r cs).find?
              (fun c => c.at (if r.iRaw = 0 then headI else r.iRaw - 1) (if r.jRaw = 0 then headJ else r.jRaw - 1) k)
            = some c ∧
          (loadCompdat F one grid' headI headJ r cs').find?
              (fun c => c.at (if r.iRaw = 0 then headI else r.iRaw - 1) (if r.jRaw = 0 then headJ else r.jRaw - 1) k)
            = some c' ∧
          c.ctf = c'.ctf ∧ c.depth = c'.depth := by
  obtain ⟨c, hc, h1, h2, _⟩ := loadCompdat_layer_own_cell F one grid headI headJ r cs k hk cell depth hg
  obtain ⟨c', hc', h1', h2', _⟩ := loadCompdat_layer_own_cell F one grid' headI headJ r cs' k hk cell depth hg'
  exact ⟨c, c', hc, hc', h1.trans h1'.symm, h2.trans h2'.symm⟩

end compdat

/-! ### Over ℝ: every layer of a fully defaulted record gets the text-book values of its own cell -/

/-- Vertical record over layers K1..K2, CF, Kh, r0 defaulted: the connection of layer `k` has
`Kh = √(kx·ky)·dz·NTG` and the Peaceman radius of the cell of layer `k`. -/
theorem layer_defaults_Z (grid : Grid ℝ) (headI headJ : Int) (r : CompdatRec ℝ) (cs : List (Conn ℝ))
    (k : Int) (hk : k ∈ layers r.k1 r.k2) (dx dy dz kx ky kz ntg depth : ℝ)
    (hg : grid (if r.iRaw = 0 then headI else r.iRaw - 1) (if r.jRaw = 0 then headJ else r.jRaw - 1) k
            = some (⟨⟨dx, dy, dz⟩, ⟨kx, ky, kz⟩, ntg⟩, depth))
    (hdir : r.inp.dir = .Z) (hdef : AllDefaulted r.inp) (hkx : 0 ≤ kx) (hky : 0 ≤ ky) :
    ∃ c, (loadCompdat realFns 1 grid headI headJ r cs).find?
            (fun c => c.at (if r.iRaw = 0 then headI else r.iRaw - 1) (if r.jRaw = 0 then headJ else r.jRaw - 1) k)
          = some c ∧
      c.ctf.Kh = Real.sqrt (kx * ky) * (dz * ntg) ∧
      c.ctf.r0 = 0.28 * Real.sqrt (Real.sqrt (ky / kx) * dx ^ 2 + Real.sqrt (kx / ky) * dy ^ 2) /
                   ((kx / ky) ^ (1 / 4 : ℝ) + (ky / kx) ^ (1 / 4 : ℝ)) := by
  obtain ⟨c, hc, hctf, _⟩ := loadCompdat_layer_own_cell realFns 1 grid headI headJ r cs k hk _ depth hg
  refine ⟨c, hc, ?_⟩
  rw [hctf]
  exact defaults_Z r.inp dx dy dz kx ky kz ntg hdir hdef hkx hky

/-- Record along X over layers K1..K2 (one connection per layer, each penetrating its cell
in X): `Kh = √(ky·kz)·dx`, radius from (dy, dz·NTG, ky, kz) of the cell of layer `k`. -/
theorem layer_defaults_X (grid : Grid ℝ) (headI headJ : Int) (r : CompdatRec ℝ) (cs : List (Conn ℝ))
    (k : Int) (hk : k ∈ layers r.k1 r.k2) (dx dy dz kx ky kz ntg depth : ℝ)
    (hg : grid (if r.iRaw = 0 then headI else r.iRaw - 1) (if r.jRaw = 0 then headJ else r.jRaw - 1) k
            = some (⟨⟨dx, dy, dz⟩, ⟨kx, ky, kz⟩, ntg⟩, depth))
    (hdir : r.inp.dir = .X) (hdef : AllDefaulted r.inp) (hky : 0 ≤ ky) (hkz : 0 ≤ kz) :
    ∃ c, (loadCompdat realFns 1 grid headI headJ r cs).find?
            (fun c => c.at (if r.iRaw = 0 then headI else r.iRaw - 1) (if r.jRaw = 0 then headJ else r.jRaw - 1) k)
          = some c ∧
      c.ctf.Kh = Real.sqrt (ky * kz) * dx ∧
      c.ctf.r0 = 0.28 * Real.sqrt (Real.sqrt (kz / ky) * dy ^ 2 + Real.sqrt (ky / kz) * (dz * ntg) ^ 2) /
                   ((ky / kz) ^ (1 / 4 : ℝ) + (kz / ky) ^ (1 / 4 : ℝ)) := by
  obtain ⟨c, hc, hctf, _⟩ := loadCompdat_layer_own_cell realFns 1 grid headI headJ r cs k hk _ depth hg
  refine ⟨c, hc, ?_⟩
  rw [hctf]
  exact defaults_X r.inp dx dy dz kx ky kz ntg hdir hdef hky hkz

/-- Record along Y over layers K1..K2: `Kh = √(kx·kz)·dy`, radius from (dx, dz·NTG, kx, kz)
of the cell of layer `k`. -/
theorem layer_defaults_Y (grid : Grid ℝ) (headI headJ : Int) (r : CompdatRec ℝ) (cs : List (Conn ℝ))
    (k : Int) (hk : k ∈ layers r.k1 r.k2) (dx dy dz kx ky kz ntg depth : ℝ)
    (hg : grid (if r.iRaw = 0 then headI else r.iRaw - 1) (if r.jRaw = 0 then headJ else r.jRaw - 1) k
            = some (⟨⟨dx, dy, dz⟩, ⟨kx, ky, kz⟩, ntg⟩, depth))
    (hdir : r.inp.dir = .Y) (hdef : AllDefaulted r.inp) (hkx : 0 ≤ kx) (hkz : 0 ≤ kz) :
    ∃ c, (loadCompdat realFns 1 grid headI headJ r cs).find?
            (fun c => c.at (if r.iRaw = 0 then headI else r.iRaw - 1) (if r.jRaw = 0 then headJ else r.jRaw - 1) k)
          = some c ∧
      c.ctf.Kh = Real.sqrt (kx * kz) * dy ∧
      c.ctf.r0 = 0.28 * Real.sqrt (Real.sqrt (kz / kx) * dx ^ 2 + Real.sqrt (kx / kz) * (dz * ntg) ^ 2) /
                   ((kx / kz) ^ (1 / 4 : ℝ) + (kz / kx) ^ (1 / 4 : ℝ)) := by
  obtain ⟨c, hc, hctf, _⟩ := loadCompdat_layer_own_cell realFns 1 grid headI headJ r cs k hk _ depth hg
  refine ⟨c, hc, ?_⟩
  rw [hctf]
  exact defaults_Y r.inp dx dy dz kx ky kz ntg hdir hdef hkx hkz

end OpmVerif.Conns

/-! ### Examples (non-vacuity) -/

namespace OpmVerif.Conns.Ex
open OpmVerif.Peaceman

/-- integer stand-ins for the functions with a non-zero radius constant, so that the radius
really depends on the cell -/
def fnsLayers : Fns Int := { fnsInt with c028 := 28, quarter := 1 }

/-- a column whose cells differ from layer to layer (DX, DZ, PERMX and the depth grow with k);
layer 1 is inactive -/
def gridVar : Grid Int := fun _ _ k =>
  if k = 1 then none else some (⟨⟨3 + k, 4, 2 + k⟩, ⟨1 + k, 2, 3⟩, 1⟩, 100 + 10 * k)

/-- the same column with other cells in layers 0 and 3 -/
def gridVar' : Grid Int := fun _ _ k =>
  if k = 2 then gridVar 0 0 2 else some (⟨⟨7, 7, 7⟩, ⟨5, 5, 5⟩, 1⟩, 0)

/-- CF, Kh and r0 defaulted -/
def inpDflt : Input Int :=
  { dir := .Z, cf := none, kh := -1, khDefaulted := true, diam := none, r0 := none, skin := 1 }

/-- COMPDAT over layers 1..4 of the head column -/
def rec14 : CompdatRec Int := { iRaw := 0, jRaw := 0, k1 := 1, k2 := 4, state := .OPEN, inp := inpDflt }

/-- a real column with layer-dependent DZ, PERMX and depth -/
noncomputable def gridRVar : Grid ℝ := fun _ _ k =>
  some (⟨⟨3, 4, 2 + (k : ℝ)⟩, ⟨1 + (k : ℝ), 1, 1⟩, 1⟩, 100 + 10 * (k : ℝ))

end OpmVerif.Conns.Ex
