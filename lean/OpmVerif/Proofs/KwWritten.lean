/-
  From the bytes `DeckKeyword::write_data` puts on the stream to the cleaned lines the
  keyword assembly sees (second round): every record, with or without the line split every
  `columns = 7` entries, cleans to `recLines` of its chunks; a record without tokens (` /`)
  to the single line `/`.
-/
import OpmVerif.Proofs.KwAssemble

namespace OpmVerif.RawKw
open OpmVerif.Lex OpmVerif.Tok OpmVerif.Scan OpmVerif.DeckWrite

/-! ### the lines `layout` writes -/

/-- the tokens of a record grouped by output line; the head chunk continues the current
line (it is empty when the first token starts a new line, or when there is no token). -/
def chunksFrom : Nat → List Bytes → List (List Bytes)
  | _, [] => [[]]
  | rc, t :: ts =>
    match chunksFrom (rowAfter true rc) ts with
    | [] => [[t]]
    | c :: cs => if 0 < rc ∧ rc % columns = 0 then [] :: (t :: c) :: cs else (t :: c) :: cs

/-- every token preceded by a blank, every further line by '\n'. -/
def render : List (List Bytes) → Bytes
  | [] => []
  | c :: cs => (c.flatMap fun t => 32 :: t) ++ (cs.flatMap fun c => 10 :: c.flatMap fun t => 32 :: t)

theorem chunksFrom_ne_nil : ∀ (ts : List Bytes) (rc : Nat), chunksFrom rc ts ≠ [] := by
  intro ts
  induction ts with
  | nil => intro rc; simp [chunksFrom]
  | cons t ts ih =>
    intro rc
    simp only [chunksFrom]
    cases h : chunksFrom (rowAfter true rc) ts with
    | nil => simp
    | cons c cs => simp only; split <;> simp

theorem layout_true_render : ∀ (ts : List Bytes) (rc : Nat), layout true rc ts = render (chunksFrom rc ts) := by
  intro ts
  induction ts with
  | nil => intro rc; simp [layout, chunksFrom, render]
  | cons t ts ih =>
    intro rc
    simp only [layout, chunksFrom, ih]
    cases h : chunksFrom (rowAfter true rc) ts with
    | nil => exact absurd h (chunksFrom_ne_nil ts _)
    | cons c cs =>
      simp only
      by_cases hb : 0 < rc ∧ rc % columns = 0
      · simp [sepBefore, hb, render, List.append_assoc]
      · simp [sepBefore, hb, render, List.append_assoc]

theorem chunksFrom_flatten : ∀ (ts : List Bytes) (rc : Nat), (chunksFrom rc ts).flatten = ts := by
  intro ts
  induction ts with
  | nil => intro rc; simp [chunksFrom]
  | cons t ts ih =>
    intro rc
    simp only [chunksFrom]
    have := ih (rowAfter true rc)
    cases h : chunksFrom (rowAfter true rc) ts with
    | nil => exact absurd h (chunksFrom_ne_nil ts _)
    | cons c cs =>
      rw [h] at this
      simp only
      split <;> simpa using this

theorem chunksFrom_tail_ne_nil : ∀ (ts : List Bytes) (rc : Nat), ∀ c ∈ (chunksFrom rc ts).tail, c ≠ [] := by
  intro ts
  induction ts with
  | nil => intro rc c hc; simp [chunksFrom] at hc
  | cons t ts ih =>
    intro rc c hc
    simp only [chunksFrom] at hc
    have := ih (rowAfter true rc)
    cases h : chunksFrom (rowAfter true rc) ts with
    | nil => exact absurd h (chunksFrom_ne_nil ts _)
    | cons d ds =>
      rw [h] at this hc
      simp only [List.tail_cons] at this
      simp only at hc
      split at hc
      · simp only [List.tail_cons, List.mem_cons] at hc
        rcases hc with rfl | hc
        · simp
        · exact this c hc
      · simp only [List.tail_cons] at hc
        exact this c hc

/-- the chunks of a record written from the start of a line (`rc = 0`). -/
def chunksOf (split : Bool) (ts : List Bytes) : List (List Bytes) :=
  if ts.isEmpty then [] else if split then chunksFrom 0 ts else [ts]

theorem chunksOf_flatten (split : Bool) (ts : List Bytes) : (chunksOf split ts).flatten = ts := by
  unfold chunksOf
  cases ts with
  | nil => simp
  | cons t ts =>
    cases split with
    | true => simpa using chunksFrom_flatten (t :: ts) 0
    | false => simp

theorem chunksOf_ne (split : Bool) (ts : List Bytes) : ∀ c ∈ chunksOf split ts, c ≠ [] := by
  unfold chunksOf
  cases ts with
  | nil => intro c hc; simp at hc
  | cons t ts =>
    cases split with
    | false => intro c hc; simp at hc; subst hc; simp
    | true =>
      simp only [List.isEmpty_cons, Bool.false_eq_true, ↓reduceIte]
      intro c hc
      have htl := chunksFrom_tail_ne_nil (t :: ts) 0
      cases hcf : chunksFrom 0 (t :: ts) with
      | nil => rw [hcf] at hc; cases hc
      | cons d ds =>
        rw [hcf] at hc htl
        rcases List.mem_cons.mp hc with rfl | hc
        · -- the head chunk holds the first token: no break before it at rc = 0
          simp only [chunksFrom] at hcf
          cases h : chunksFrom (rowAfter true 0) ts with
          | nil => exact absurd h (chunksFrom_ne_nil ts _)
          | cons e es =>
            rw [h] at hcf
            simp at hcf
            rw [← hcf.1]; simp
        · exact htl c (by simpa using hc)

theorem chunksOf_mem (split : Bool) (ts : List Bytes) : ∀ c ∈ chunksOf split ts, ∀ t ∈ c, t ∈ ts := by
  intro c hc t ht
  have := chunksOf_flatten split ts
  rw [← this]
  exact List.mem_flatten.mpr ⟨c, hc, ht⟩

theorem chunksOf_length (ts : List Bytes) : (chunksOf false ts).length ≤ 1 := by
  unfold chunksOf; cases ts <;> simp

/-- text of the lines of a record: one blank before every token, lines joined by '\n'. -/
def renderLines : List (List Bytes) → Bytes
  | [] => []
  | [c] => 32 :: joinBlank c
  | c :: cs => 32 :: joinBlank c ++ 10 :: renderLines cs

theorem flatMap_blank (c : List Bytes) (h : c ≠ []) : (c.flatMap fun t => 32 :: t) = 32 :: joinBlank c := by
  induction c with
  | nil => exact absurd rfl h
  | cons t ts ih =>
    cases ts with
    | nil => simp [joinBlank]
    | cons u us =>
      have := ih (by simp)
      simp only [List.flatMap_cons] at this ⊢
      rw [this]
      simp [joinBlank]

theorem render_eq_renderLines : ∀ (cs : List (List Bytes)), (∀ c ∈ cs, c ≠ []) → render cs = renderLines cs := by
  intro cs
  induction cs with
  | nil => intro _; rfl
  | cons c cs ih =>
    intro h
    have hc := h c (by simp)
    cases cs with
    | nil => simp [render, renderLines, flatMap_blank c hc]
    | cons d ds =>
      have ih' := ih (fun x hx => h x (by simp [hx]))
      simp only [render, List.flatMap_cons] at ih' ⊢
      rw [flatMap_blank c hc]
      simp only [renderLines]
      rw [← ih']
      simp [List.append_assoc]

theorem layout_eq_renderLines (split : Bool) (ts : List Bytes) (h : ts ≠ []) :
    layout split 0 ts = renderLines (chunksOf split ts) := by
  have hne := chunksOf_ne split ts
  cases split with
  | false =>
    rw [layout_nosplit ts 0 h]
    unfold chunksOf
    cases ts with
    | nil => exact absurd rfl h
    | cons t ts => simp [renderLines]
  | true =>
    rw [layout_true_render, ← render_eq_renderLines _ hne]
    unfold chunksOf
    cases ts with
    | nil => exact absurd rfl h
    | cons t ts => simp

/-! ### cleaning the written lines -/

theorem atomic_last_not_sep {t : Bytes} (h : Atomic t) : ∀ c, t.getLast? = some c → isSep c = false := by
  intro c hc
  rcases h with ⟨_, hs, _⟩ | ⟨body, rfl, _⟩
  · exact hs c (List.mem_of_getLast? hc)
  · have : (39 :: body ++ [39]).getLast? = some 39 := by
      rw [show (39 :: body ++ [39]) = (39 :: body) ++ [39] from rfl, List.getLast?_append]; simp
    rw [this] at hc
    cases hc
    decide

theorem joinBlank_getLast : ∀ (c : List Bytes), c ≠ [] → (∀ t ∈ c, t ≠ []) →
    ∃ t ∈ c, (joinBlank c).getLast? = t.getLast? := by
  intro c
  induction c with
  | nil => intro h; exact absurd rfl h
  | cons t ts ih =>
    intro _ hne
    cases ts with
    | nil => exact ⟨t, by simp, by simp [joinBlank]⟩
    | cons u us =>
      obtain ⟨x, hx, hl⟩ := ih (by simp) (fun y hy => hne y (by simp [hy]))
      refine ⟨x, by simp [List.mem_cons] at hx ⊢; right; exact hx, ?_⟩
      have hjn : joinBlank (u :: us) ≠ [] := joinBlank_ne_nil _ (by simp) (fun y hy => hne y (by simp [hy]))
      have e : joinBlank (t :: u :: us) = (t ++ [32]) ++ joinBlank (u :: us) := by simp [joinBlank]
      rw [e, getLast_append_ne_nil _ _ hjn, hl]

/-- a token the cleaning leaves alone. -/
def CleanSafe (t : Bytes) : Prop := Atomic t ∧ endState isCommentAt none t = some none

theorem cleanSafe_of_tokSafe {raw : Bool} {t : Bytes} (h : TokSafe raw t) : CleanSafe t := ⟨h.1, h.2.2.1⟩

theorem cleanLine_text (x : Bytes) (hcs : endState isCommentAt none x = some none)
    (hh : ∀ c r, x = c :: r → isSep c = false) (hl : ∀ c, x.getLast? = some c → isSep c = false) :
    cleanLine ([32] ++ x ++ []) = x := by
  rw [cleanLine_sep [32] x [] (by decide) (by simp)]
  unfold cleanLine stripComments
  rw [cutAt_of_endState _ none none hcs]
  exact trim_id x hh hl

theorem joinBlank_commentSafe (c : List Bytes) (h : ∀ t ∈ c, CleanSafe t) :
    endState isCommentAt none (joinBlank c) = some none :=
  endState_joinBlank local2_comment (isT := isCommentAt)
    (by intro x m _; simp [isCommentAt]) (by intro m; cases m <;> simp [isCommentAt]) c (fun t ht => (h t ht).2)

theorem joinBlank_head_not_sep (c : List Bytes) (hne : c ≠ []) (h : ∀ t ∈ c, Atomic t) :
    ∀ x r, joinBlank c = x :: r → isSep x = false := by
  intro x r hxr
  cases c with
  | nil => exact absurd rfl hne
  | cons t ts =>
    have hat := h t (by simp)
    cases ht : t with
    | nil => exact absurd ht (atomic_ne_nil hat)
    | cons c0 r0 =>
      obtain ⟨r', hr'⟩ := joinBlank_head t ts c0 r0 ht
      rw [hr'] at hxr
      simp only [List.cons.injEq] at hxr
      rw [← hxr.1]
      exact atomic_head_not_sep hat c0 r0 ht

/-- a line of a record that is not its last one cleans to its tokens joined by blanks. -/
theorem cleanLine_chunk (c : List Bytes) (hne : c ≠ []) (h : ∀ t ∈ c, CleanSafe t) :
    cleanLine (32 :: joinBlank c) = joinBlank c := by
  have := cleanLine_text (joinBlank c) (joinBlank_commentSafe c h)
    (joinBlank_head_not_sep c hne (fun t ht => (h t ht).1))
    (by
      intro x hx
      obtain ⟨t, ht, hl⟩ := joinBlank_getLast c hne (fun t ht => atomic_ne_nil (h t ht).1)
      rw [hl] at hx
      exact atomic_last_not_sep (h t ht).1 x hx)
  simpa using this

/-- the last line of a record: `t1 … tn /`. -/
theorem cleanLine_lastChunk (c : List Bytes) (hne : c ≠ []) (h : ∀ t ∈ c, CleanSafe t) :
    cleanLine (32 :: joinBlank c ++ [32, 47]) = recordLine c := by
  have hcs : endState isCommentAt none (recordLine c) = some none := by
    unfold recordLine
    rw [endState_append local2_comment [32, 47] _ none none (joinBlank_commentSafe c h)
      (by intro x _ _; simp [isCommentAt])]
    decide
  have := cleanLine_text (recordLine c) hcs
    (by
      intro x r hxr
      have hj := joinBlank_head_not_sep c hne (fun t ht => (h t ht).1)
      unfold recordLine at hxr
      cases hjb : joinBlank c with
      | nil => exact absurd hjb (joinBlank_ne_nil c hne (fun t ht => atomic_ne_nil (h t ht).1))
      | cons y ys =>
        rw [hjb] at hxr
        simp only [List.cons_append, List.cons.injEq] at hxr
        rw [← hxr.1]
        exact hj y ys hjb)
    (by
      intro x hx
      have : (recordLine c).getLast? = some 47 := by
        rw [recordLine_eq, List.getLast?_append]; simp
      rw [this] at hx
      cases hx
      decide)
  simpa [recordLine] using this

/-- **cleaning a written record**: the bytes of its lines followed by ` /` and the newline
give the lines `recLines`; what follows is cleaned on its own. -/
theorem lines_rendered : ∀ (cs : List (List Bytes)), cs ≠ [] → (∀ c ∈ cs, c ≠ [] ∧ ∀ t ∈ c, CleanSafe t ∧ NoNL t) →
    ∀ (R : Bytes), splitLines (fastClean (renderLines cs ++ [32, 47, 10] ++ R)) =
      recLines cs ++ splitLines (fastClean R) := by
  intro cs
  induction cs with
  | nil => intro h; exact absurd rfl h
  | cons c cs ih =>
    intro _ h R
    obtain ⟨hcne, hc⟩ := h c (by simp)
    have hsafe : ∀ t ∈ c, CleanSafe t := fun t ht => (hc t ht).1
    have hnl : ∀ t ∈ c, NoNL t := fun t ht => (hc t ht).2
    cases cs with
    | nil =>
      have hline : ∀ b ∈ (32 :: joinBlank c ++ [32, 47]), b ≠ 10 := by
        intro b hb
        simp only [List.cons_append, List.mem_cons, List.mem_append, List.mem_nil_iff, or_false] at hb
        rcases hb with rfl | hb | rfl | rfl
        · decide
        · exact joinBlank_noNL c hnl b hb
        · decide
        · decide
      have e : renderLines [c] ++ [32, 47, 10] ++ R = (32 :: joinBlank c ++ [32, 47]) ++ 10 :: R := by
        simp [renderLines, List.append_assoc]
      rw [e, fastClean_line _ _ hline, cleanLine_lastChunk c hcne hsafe,
        splitLines_line _ _ (recordLine_noNL c hnl)]
      rfl
    | cons d ds =>
      have hline : ∀ b ∈ (32 :: joinBlank c), b ≠ 10 := by
        intro b hb
        rcases List.mem_cons.mp hb with rfl | hb
        · decide
        · exact joinBlank_noNL c hnl b hb
      have e : renderLines (c :: d :: ds) ++ [32, 47, 10] ++ R =
          (32 :: joinBlank c) ++ 10 :: (renderLines (d :: ds) ++ [32, 47, 10] ++ R) := by
        simp [renderLines, List.append_assoc]
      rw [e, fastClean_line _ _ hline, cleanLine_chunk c hcne hsafe,
        splitLines_line _ _ (joinBlank_noNL c hnl), ih (by simp) (fun x hx => h x (by simp [hx])) R]
      rfl

/-- what `DeckRecord::write` puts on the stream for the tokens `ts`, as text. -/
def recordText (split : Bool) (ts : List Bytes) : Bytes := layout split 0 ts ++ [32, 47, 10]

/-- **one written record, cleaned**: with or without the 7-column split, with or without
tokens. -/
theorem lines_recordText (split : Bool) (ts : List Bytes) (h : ∀ t ∈ ts, CleanSafe t ∧ NoNL t) (R : Bytes) :
    splitLines (fastClean (recordText split ts ++ R)) =
      recLines (chunksOf split ts) ++ splitLines (fastClean R) := by
  unfold recordText
  cases hts : ts with
  | nil =>
    have e : layout split 0 [] ++ [32, 47, 10] ++ R = [32, 47] ++ 10 :: R := by simp [layout]
    have hcl : cleanLine [32, 47] = [47] := by decide
    rw [e, fastClean_line [32, 47] R (by decide), hcl, splitLines_line [47] _ (by decide)]
    simp [chunksOf, recLines]
  | cons t ts' =>
    rw [← hts]
    have hne : ts ≠ [] := by rw [hts]; simp
    rw [layout_eq_renderLines split ts hne]
    have hcne : chunksOf split ts ≠ [] := by
      unfold chunksOf
      rw [hts]
      cases split with
      | false => simp
      | true => simpa using chunksFrom_ne_nil (t :: ts') 0
    exact lines_rendered (chunksOf split ts) hcne
      (fun c hc => ⟨chunksOf_ne split ts c hc, fun x hx => h x (chunksOf_mem split ts c hc x hx)⟩) R

/-- all records of a keyword. -/
theorem lines_records (split : Bool) : ∀ (tss : List (List Bytes)), (∀ ts ∈ tss, ∀ t ∈ ts, CleanSafe t ∧ NoNL t) →
    ∀ (R : Bytes), splitLines (fastClean ((tss.flatMap (recordText split)) ++ R)) =
      (tss.map (chunksOf split)).flatMap recLines ++ splitLines (fastClean R) := by
  intro tss
  induction tss with
  | nil => intro _ R; simp
  | cons ts tss ih =>
    intro h R
    simp only [List.flatMap_cons, List.map_cons, List.append_assoc]
    rw [lines_recordText split ts (h ts (by simp)), ih (fun x hx => h x (by simp [hx])) R]

/-- a line holding just a word (keyword name, the closing `/`). -/
theorem lines_word (w : Bytes) (hnl : ∀ b ∈ w, b ≠ 10) (hcl : cleanLine w = w) (R : Bytes) :
    splitLines (fastClean (w ++ 10 :: R)) = w :: splitLines (fastClean R) := by
  rw [fastClean_line w R hnl, hcl, splitLines_line w _ hnl]

end OpmVerif.RawKw
