/-
  Proofs about the formatted reader model (`Model/EclFmtRead.lean`): what the writer lays
  out is read back, for every array length.
-/
import OpmVerif.Model.EclFmtRead
import OpmVerif.Proofs.EclFmt
import OpmVerif.Proofs.Unrst

namespace OpmVerif.EclFmt
open OpmVerif.Ecl

/-- pointwise relation of two lists (core Lean has no `Forall₂`). -/
inductive All2 {α β : Type} (R : α → β → Prop) : List α → List β → Prop
  | nil : All2 R [] []
  | cons {a b as bs} : R a b → All2 R as bs → All2 R (a :: as) (b :: bs)

/-! ### blanks and tokens -/

def NoSp (s : List Char) : Prop := ∀ c ∈ s, c ≠ ' '

theorem dropSp_replicate (k : Nat) (s : List Char) : dropSp (List.replicate k ' ' ++ s) = dropSp s := by
  induction k with
  | zero => simp
  | succ k ih => simp [List.replicate_succ, dropSp] at ih ⊢

theorem dropSp_of_head {c : Char} {s : List Char} (h : c ≠ ' ') : dropSp (c :: s) = c :: s := by
  simp [dropSp, List.dropWhile_cons, h]

theorem dropSp_idem (s : List Char) : dropSp (dropSp s) = dropSp s := by
  induction s with
  | nil => rfl
  | cons c s ih =>
    by_cases h : c = ' '
    · subst h; simpa [dropSp, List.dropWhile_cons] using ih
    · rw [dropSp_of_head h, dropSp_of_head h]

theorem tokOf_append {b : List Char} (hb : NoSp b) (r : List Char) : tokOf (b ++ r) = b ++ tokOf r := by
  induction b with
  | nil => rfl
  | cons c b ih =>
    have hc : c ≠ ' ' := hb c (by simp)
    have hb' : NoSp b := fun x hx => hb x (by simp [hx])
    simp [tokOf, List.takeWhile_cons, hc] at ih ⊢
    exact ih hb'

theorem afterTok_append {b : List Char} (hb : NoSp b) (r : List Char) : afterTok (b ++ r) = afterTok r := by
  induction b with
  | nil => rfl
  | cons c b ih =>
    have hc : c ≠ ' ' := hb c (by simp)
    have hb' : NoSp b := fun x hx => hb x (by simp [hx])
    simp [afterTok, List.dropWhile_cons, hc] at ih ⊢
    exact ih hb'

theorem readToks_dropSp (n : Nat) (s : List Char) : readToks n (dropSp s) = readToks n s := by
  cases n with
  | zero => rfl
  | succ n => simp only [readToks, dropSp_idem]


theorem exists_replicate_dropSp (s : List Char) : ∃ k, s = List.replicate k ' ' ++ dropSp s := by
  induction s with
  | nil => exact ⟨0, rfl⟩
  | cons c s ih =>
    by_cases h : c = ' '
    · subst h
      obtain ⟨k, hk⟩ := ih
      refine ⟨k + 1, ?_⟩
      have : dropSp (' ' :: s) = dropSp s := by simp [dropSp]
      rw [this, List.replicate_succ, List.cons_append, ← hk]
    · exact ⟨0, by rw [dropSp_of_head h]; rfl⟩

/-- a rendered numeric field: at least one leading blank, then a blank-free non-empty body. -/
structure GoodField (f : List Char) : Prop where
  lead : f.head? = some ' '
  body_ne : dropSp f ≠ []
  body_nosp : NoSp (dropSp f)

/-- what the reader's token may carry behind the field's body: nothing, or text that begins
with the newline the writer put behind the field. -/
def TokRel (f tok : List Char) : Prop :=
  ∃ extra, tok = dropSp f ++ extra ∧ (extra = [] ∨ extra.head? = some '\n')

theorem dropSp_head_ne (s : List Char) : ∀ c r, dropSp s = c :: r → c ≠ ' ' := by
  induction s with
  | nil => intro c r h; simp [dropSp] at h
  | cons a s ih =>
    intro c r h
    by_cases ha : a = ' '
    · subst ha; exact ih c r (by simpa [dropSp] using h)
    · rw [dropSp_of_head ha] at h
      cases h; exact ha

theorem dropSp_field_append {f : List Char} (hf : GoodField f) (R : List Char) :
    dropSp (f ++ R) = dropSp f ++ R := by
  obtain ⟨k, hk⟩ := exists_replicate_dropSp f
  cases hb : dropSp f with
  | nil => exact absurd hb hf.body_ne
  | cons c r =>
    have hc := dropSp_head_ne f c r hb
    rw [hb] at hk
    conv => lhs; rw [hk, List.append_assoc, dropSp_replicate, List.cons_append, dropSp_of_head hc]
    rfl

theorem fmtLoop_last (cols mb n1 : Nat) :
    (if n1 % cols = 0 ∨ n1 % mb = 0 then ['\n'] else []) ++
      Smry.fmtLoop cols mb (if n1 % mb = 0 then 0 else n1) [] = ['\n'] := by
  unfold Smry.fmtLoop
  by_cases h1 : n1 % mb = 0
  · simp [h1]
  · by_cases h2 : n1 % cols = 0
    · simp [h1, h2]
    · simp [h1, h2]

theorem readToks_fmtLoop (cols mb : Nat) : ∀ (fs : List (List Char)) (n : Nat) (tail : List Char),
    (∀ f ∈ fs, GoodField f) →
    ∃ toks, readToks fs.length (Smry.fmtLoop cols mb n fs ++ tail) = some toks ∧
      All2 TokRel fs toks := by
  intro fs
  induction fs with
  | nil => intro n tail _; exact ⟨[], rfl, All2.nil⟩
  | cons f fs ih =>
    intro n tail hg
    have hf : GoodField f := hg f (by simp)
    have hg' : ∀ g ∈ fs, GoodField g := fun g hgm => hg g (by simp [hgm])
    -- the text behind the field
    generalize hR : (if (n + 1) % cols = 0 ∨ (n + 1) % mb = 0 then ['\n'] else []) ++
        (Smry.fmtLoop cols mb (if (n + 1) % mb = 0 then 0 else (n + 1)) fs ++ tail) = R
    have htext : Smry.fmtLoop cols mb n (f :: fs) ++ tail = f ++ R := by
      rw [← hR]; simp [Smry.fmtLoop, List.append_assoc]
    rw [htext, List.length_cons]
    have hd := dropSp_field_append hf R
    cases hb : dropSp f with
    | nil => exact absurd hb hf.body_ne
    | cons c r =>
      have hns : NoSp (c :: r) := hb ▸ hf.body_nosp
      rw [hb] at hd
      simp only [readToks, hd, List.cons_append]
      rw [← List.cons_append, tokOf_append hns, afterTok_append hns]
      cases fs with
      | nil =>
        have hR' : R = '\n' :: tail := by
          rw [← hR, ← List.append_assoc, fmtLoop_last]; rfl
        refine ⟨[c :: r ++ tokOf R], ?_, ?_⟩
        · simp [readToks]
        · refine All2.cons ⟨tokOf R, by rw [hb], Or.inr ?_⟩ All2.nil
          rw [hR']; simp [tokOf]
      | cons f2 fs' =>
        have hf2 : GoodField f2 := hg' f2 (by simp)
        obtain ⟨x, hx⟩ : ∃ x, f2 = ' ' :: x := by
          cases f2 with
          | nil => have := hf2.lead; simp at this
          | cons a x => have := hf2.lead; simp at this; exact ⟨x, by rw [this]⟩
        obtain ⟨toks, ht, hrel⟩ := ih (if (n + 1) % mb = 0 then 0 else (n + 1)) tail hg'
        generalize hY : Smry.fmtLoop cols mb (if (n + 1) % mb = 0 then 0 else (n + 1)) (f2 :: fs') ++ tail = Y at ht hR
        obtain ⟨y, hy⟩ : ∃ y, Y = ' ' :: y := by
          rw [← hY, hx]; simp [Smry.fmtLoop]
        have hnl : NoSp (if (n + 1) % cols = 0 ∨ (n + 1) % mb = 0 then ['\n'] else []) := by
          intro ch hch; split at hch <;> simp at hch; subst hch; decide
        have htok : tokOf R = (if (n + 1) % cols = 0 ∨ (n + 1) % mb = 0 then ['\n'] else []) := by
          rw [← hR, tokOf_append hnl, hy]; simp [tokOf]
        have haft : afterTok R = Y := by
          rw [← hR, afterTok_append hnl, hy]; simp [afterTok]
        refine ⟨(c :: r ++ tokOf R) :: toks, ?_, ?_⟩
        · rw [haft, readToks_dropSp, ht]
        · refine All2.cons ⟨tokOf R, by rw [hb], ?_⟩ hrel
          rw [htok]; split
          · right; rfl
          · left; rfl


/-- the sharper form of `TokRel`: behind the body comes nothing, the line break, or (last
field only) the line break and what follows the array up to the next blank. -/
def TokRelP (tail f tok : List Char) : Prop :=
  ∃ extra, tok = dropSp f ++ extra ∧ (extra = [] ∨ extra = ['\n'] ∨ extra = '\n' :: tokOf tail)

theorem readToks_fmtLoop_plain (cols mb : Nat) : ∀ (fs : List (List Char)) (n : Nat) (tail : List Char),
    (∀ f ∈ fs, GoodField f) →
    ∃ toks, readToks fs.length (Smry.fmtLoop cols mb n fs ++ tail) = some toks ∧
      All2 (TokRelP tail) fs toks := by
  intro fs
  induction fs with
  | nil => intro n tail _; exact ⟨[], rfl, All2.nil⟩
  | cons f fs ih =>
    intro n tail hg
    have hf : GoodField f := hg f (by simp)
    have hg' : ∀ g ∈ fs, GoodField g := fun g hgm => hg g (by simp [hgm])
    -- the text behind the field
    generalize hR : (if (n + 1) % cols = 0 ∨ (n + 1) % mb = 0 then ['\n'] else []) ++
        (Smry.fmtLoop cols mb (if (n + 1) % mb = 0 then 0 else (n + 1)) fs ++ tail) = R
    have htext : Smry.fmtLoop cols mb n (f :: fs) ++ tail = f ++ R := by
      rw [← hR]; simp [Smry.fmtLoop, List.append_assoc]
    rw [htext, List.length_cons]
    have hd := dropSp_field_append hf R
    cases hb : dropSp f with
    | nil => exact absurd hb hf.body_ne
    | cons c r =>
      have hns : NoSp (c :: r) := hb ▸ hf.body_nosp
      rw [hb] at hd
      simp only [readToks, hd, List.cons_append]
      rw [← List.cons_append, tokOf_append hns, afterTok_append hns]
      cases fs with
      | nil =>
        have hR' : R = '\n' :: tail := by
          rw [← hR, ← List.append_assoc, fmtLoop_last]; rfl
        refine ⟨[c :: r ++ tokOf R], ?_, ?_⟩
        · simp [readToks]
        · refine All2.cons ⟨tokOf R, by rw [hb], Or.inr (Or.inr ?_)⟩ All2.nil
          rw [hR']; simp [tokOf, List.takeWhile_cons]
      | cons f2 fs' =>
        have hf2 : GoodField f2 := hg' f2 (by simp)
        obtain ⟨x, hx⟩ : ∃ x, f2 = ' ' :: x := by
          cases f2 with
          | nil => have := hf2.lead; simp at this
          | cons a x => have := hf2.lead; simp at this; exact ⟨x, by rw [this]⟩
        obtain ⟨toks, ht, hrel⟩ := ih (if (n + 1) % mb = 0 then 0 else (n + 1)) tail hg'
        generalize hY : Smry.fmtLoop cols mb (if (n + 1) % mb = 0 then 0 else (n + 1)) (f2 :: fs') ++ tail = Y at ht hR
        obtain ⟨y, hy⟩ : ∃ y, Y = ' ' :: y := by
          rw [← hY, hx]; simp [Smry.fmtLoop]
        have hnl : NoSp (if (n + 1) % cols = 0 ∨ (n + 1) % mb = 0 then ['\n'] else []) := by
          intro ch hch; split at hch <;> simp at hch; subst hch; decide
        have htok : tokOf R = (if (n + 1) % cols = 0 ∨ (n + 1) % mb = 0 then ['\n'] else []) := by
          rw [← hR, tokOf_append hnl, hy]; simp [tokOf]
        have haft : afterTok R = Y := by
          rw [← hR, afterTok_append hnl, hy]; simp [afterTok]
        refine ⟨(c :: r ++ tokOf R) :: toks, ?_, ?_⟩
        · rw [haft, readToks_dropSp, ht]
        · refine All2.cons ⟨tokOf R, by rw [hb], ?_⟩ hrel
          rw [htok]; split
          · right; left; rfl
          · left; rfl


/-! ### decimal digits: `os << int` against `std::stoi` -/

theorem digit_toNat : ∀ d, d < 10 → (Char.ofNat (48 + d)).toNat - 48 = d := by decide

theorem digit_isDigit : ∀ d, d < 10 → isDigitC (Char.ofNat (48 + d)) = true := by decide

theorem decVal_append_singleton (xs : List Char) (c : Char) :
    decVal (xs ++ [c]) = decVal xs * 10 + (c.toNat - 48) := by
  simp [decVal, List.foldl_append]

theorem decDigits_spec : ∀ (fuel n : Nat), 0 < fuel → n < 10 ^ fuel →
    decVal (Unrst.decDigits fuel n) = n ∧ (∀ c ∈ Unrst.decDigits fuel n, isDigitC c = true) ∧
      Unrst.decDigits fuel n ≠ [] := by
  intro fuel
  induction fuel with
  | zero => intro n h; omega
  | succ fuel ih =>
    intro n _ hn
    unfold Unrst.decDigits
    by_cases h10 : n < 10
    · simp only [h10, if_true]
      refine ⟨?_, ?_, by simp⟩
      · simp [decVal, digit_toNat n h10]
      · intro c hc; simp at hc; subst hc; exact digit_isDigit n h10
    · simp only [h10, if_false]
      have hlt : n / 10 < 10 ^ fuel := by
        rw [Nat.div_lt_iff_lt_mul (by omega)]; rw [Nat.pow_succ] at hn; exact hn
      have hf : 0 < fuel := by
        rcases fuel with _ | f
        · simp at hn; omega
        · omega
      obtain ⟨hv, hd, hne⟩ := ih (n / 10) hf hlt
      have hm : n % 10 < 10 := Nat.mod_lt _ (by omega)
      refine ⟨?_, ?_, by simp⟩
      · rw [decVal_append_singleton, hv, digit_toNat _ hm]; omega
      · intro c hc
        rw [List.mem_append] at hc
        rcases hc with hc | hc
        · exact hd c hc
        · simp at hc; subst hc; exact digit_isDigit _ hm

theorem digit_not_space : ∀ c, isDigitC c = true → isSpaceC c = false := by
  intro c h
  have h' : 48 ≤ c.toNat ∧ c.toNat ≤ 57 := by
    simp only [isDigitC, Bool.and_eq_true, decide_eq_true_eq] at h
    exact ⟨h.1, h.2⟩
  simp only [isSpaceC, Bool.or_eq_false_iff, decide_eq_false_iff_not]
  refine ⟨⟨⟨⟨⟨?_, ?_⟩, ?_⟩, ?_⟩, ?_⟩, ?_⟩ <;> (rintro rfl; revert h'; decide)

theorem digit_not_sign : ∀ c, isDigitC c = true → c ≠ '-' ∧ c ≠ '+' ∧ c ≠ ' ' := by
  intro c h
  have h' : 48 ≤ c.toNat ∧ c.toNat ≤ 57 := by
    simp only [isDigitC, Bool.and_eq_true, decide_eq_true_eq] at h
    exact ⟨h.1, h.2⟩
  refine ⟨?_, ?_, ?_⟩ <;> (rintro rfl; revert h'; decide)

/-- what follows the digits does not start with a digit. -/
def NonDigitHead (extra : List Char) : Prop := ∀ c, extra.head? = some c → isDigitC c = false

theorem nonDigitHead_of_nl {extra : List Char} (he : extra = [] ∨ extra.head? = some '\n') :
    NonDigitHead extra := by
  intro c hc
  rcases he with rfl | he
  · simp at hc
  · rw [he] at hc; cases hc; decide

theorem takeWhile_digits (ds extra : List Char) (hall : ∀ c ∈ ds, isDigitC c = true)
    (he : NonDigitHead extra) : (ds ++ extra).takeWhile isDigitC = ds := by
  induction ds with
  | nil =>
    cases extra with
    | nil => rfl
    | cons a x => simp [List.takeWhile_cons, he a rfl]
  | cons d ds ih =>
    have hd := hall d (by simp)
    simp only [List.cons_append, List.takeWhile_cons, hd, if_true]
    rw [ih (fun c hc => hall c (by simp [hc]))]

theorem strtolC_pos (bound : Nat) (ds extra : List Char) (hne : ds ≠ [])
    (hall : ∀ c ∈ ds, isDigitC c = true) (he : NonDigitHead extra)
    (hv : decVal ds < bound) : strtolC bound (ds ++ extra) = some (decVal ds : Int) := by
  cases ds with
  | nil => exact absurd rfl hne
  | cons d ds' =>
    have hd := hall d (by simp)
    have hsp := digit_not_space d hd
    obtain ⟨h1, h2, _⟩ := digit_not_sign d hd
    have hs1 : ((d :: ds') ++ extra).dropWhile isSpaceC = (d :: ds') ++ extra := by
      simp [List.dropWhile_cons, hsp]
    unfold strtolC
    simp only [hs1]
    have hh : ((d :: ds') ++ extra).head? = some d := rfl
    simp only [hh, Option.some.injEq, h1, h2, or_self, if_false, takeWhile_digits _ _ hall he]
    simp [hv]

theorem strtolC_neg (bound : Nat) (ds extra : List Char) (hne : ds ≠ [])
    (hall : ∀ c ∈ ds, isDigitC c = true) (he : NonDigitHead extra)
    (hv : decVal ds ≤ bound) : strtolC bound ('-' :: ds ++ extra) = some (-(decVal ds : Int)) := by
  have hs1 : ('-' :: ds ++ extra).dropWhile isSpaceC = '-' :: ds ++ extra := by
    simp [List.dropWhile_cons, isSpaceC]
  unfold strtolC
  simp only [hs1]
  have hh : ('-' :: (ds ++ extra)).head? = some '-' := rfl
  simp only [List.cons_append, hh, true_or, if_true, List.drop_succ_cons, List.drop_zero]
  rw [takeWhile_digits ds extra hall he]
  simp [hne, hv]


/-! ### INTE and LOGI fields -/

/-- sign and digits of `os << i`. -/
def intBody (i : Int) : List Char :=
  if i < 0 then '-' :: Unrst.decDigits 12 i.natAbs else Unrst.decDigits 12 i.natAbs

def InInt32 (i : Int) : Prop := -2147483648 ≤ i ∧ i ≤ 2147483647

theorem intBody_facts (i : Int) (hi : InInt32 i) :
    (intBody i).length ≤ 11 ∧ intBody i ≠ [] ∧ NoSp (intBody i) ∧ (intBody i).head? ≠ some ' ' := by
  have habs : i.natAbs < 10 ^ 10 := by unfold InInt32 at hi; omega
  have hlen := Unrst.decDigits_length_le 10 12 i.natAbs (by omega) habs (by omega)
  obtain ⟨_, hd, hne⟩ := decDigits_spec 12 i.natAbs (by omega) (by omega)
  have hns : NoSp (Unrst.decDigits 12 i.natAbs) := fun c hc => (digit_not_sign c (hd c hc)).2.2
  unfold intBody
  split
  · refine ⟨by simp; omega, by simp, ?_, by simp⟩
    intro c hc; simp at hc; rcases hc with rfl | hc
    · decide
    · exact hns c hc
  · refine ⟨by omega, hne, hns, ?_⟩
    cases hdd : Unrst.decDigits 12 i.natAbs with
    | nil => exact absurd hdd hne
    | cons a r =>
      have := hns a (by rw [hdd]; simp)
      simpa using this

theorem intField_eq (i : Int) (hi : InInt32 i) :
    ∃ k, intField i = List.replicate (k + 1) ' ' ++ intBody i := by
  obtain ⟨hl, _, _, _⟩ := intBody_facts i hi
  refine ⟨12 - (intBody i).length - 1, ?_⟩
  have : 12 - (intBody i).length - 1 + 1 = 12 - (intBody i).length := by omega
  rw [this]
  unfold intField intBody Unrst.setw
  simp only [Gen.EclIO.columnWidthInte]

theorem dropSp_of_body {b : List Char} (hne : b ≠ []) (hh : b.head? ≠ some ' ') (k : Nat) :
    dropSp (List.replicate k ' ' ++ b) = b := by
  rw [dropSp_replicate]
  cases b with
  | nil => exact absurd rfl hne
  | cons c r => exact dropSp_of_head (by simpa using hh)

theorem goodField_of_body {b : List Char} (hne : b ≠ []) (hh : b.head? ≠ some ' ') (hns : NoSp b)
    (k : Nat) : GoodField (List.replicate (k + 1) ' ' ++ b) ∧
      dropSp (List.replicate (k + 1) ' ' ++ b) = b := by
  have hd := dropSp_of_body hne hh (k + 1)
  exact ⟨⟨by simp [List.replicate_succ], by rw [hd]; exact hne, by rw [hd]; exact hns⟩, hd⟩

theorem intField_good (i : Int) (hi : InInt32 i) :
    GoodField (intField i) ∧ dropSp (intField i) = intBody i := by
  obtain ⟨k, hk⟩ := intField_eq i hi
  obtain ⟨_, hne, hns, hh⟩ := intBody_facts i hi
  rw [hk]; exact goodField_of_body hne hh hns k

theorem stoiC_intBody (i : Int) (hi : InInt32 i) (extra : List Char)
    (he : extra = [] ∨ extra.head? = some '\n') : stoiC (intBody i ++ extra) = some i := by
  obtain ⟨hv, hd, hne⟩ := decDigits_spec 12 i.natAbs (by omega)
    (by unfold InInt32 at hi; omega)
  unfold stoiC intBody
  split
  · rename_i hneg
    rw [strtolC_neg _ _ _ hne hd (nonDigitHead_of_nl he) (by rw [hv]; unfold InInt32 at hi; omega), hv]
    congr 1; omega
  · rename_i hpos
    rw [strtolC_pos _ _ _ hne hd (nonDigitHead_of_nl he) (by rw [hv]; unfold InInt32 at hi; omega), hv]
    congr 1; omega

theorem logiField_good (b : Bool) :
    GoodField (logiField b) ∧ dropSp (logiField b) = [if b then 'T' else 'F'] := by
  cases b <;> (refine ⟨⟨rfl, by decide, ?_⟩, by decide⟩; intro c hc; revert c; decide)

theorem mapM'_of_all2 {α β γ : Type} (R : β → γ → Prop) (g : γ → Option α) (h : α → β) :
    ∀ (xs : List α) (toks : List γ), All2 R (xs.map h) toks →
      (∀ x ∈ xs, ∀ tok, R (h x) tok → g tok = some x) → mapM' g toks = some xs := by
  intro xs
  induction xs with
  | nil => intro toks ha _; cases ha; rfl
  | cons x xs ih =>
    intro toks ha hg
    cases ha with
    | cons hr hrest =>
      simp only [mapM']
      rw [hg x (by simp) _ hr, ih _ hrest (fun y hy => hg y (by simp [hy]))]

/-- **INTE**: what `writeFormattedArray<int>` lays out is read back by
`readFormattedInteArray`, for every length and whatever follows the array. -/
theorem inte_roundtrip (xs : List Int) (hx : ∀ x ∈ xs, InInt32 x) (tail : List Char) :
    parseData .inte xs.length (numericBody .inte (xs.map intField) ++ tail) = some (.inte xs) := by
  have hg : ∀ f ∈ xs.map intField, GoodField f := by
    intro f hf; obtain ⟨x, hxm, rfl⟩ := List.mem_map.mp hf; exact (intField_good x (hx x hxm)).1
  obtain ⟨toks, ht, hrel⟩ := readToks_fmtLoop (fmtParams .inte).2.1 (fmtParams .inte).1
    (xs.map intField) 0 tail hg
  rw [List.length_map] at ht
  have hm : mapM' stoiC toks = some xs := by
    refine mapM'_of_all2 TokRel stoiC intField xs toks hrel ?_
    intro x hxm tok ⟨extra, htok, he⟩
    rw [htok, (intField_good x (hx x hxm)).2]
    exact stoiC_intBody x (hx x hxm) extra he
  simp only [parseData, numericBody]
  rw [ht]; simp [hm]

/-- **LOGI**. -/
theorem logi_roundtrip (xs : List Bool) (tail : List Char) :
    parseData .logi xs.length (numericBody .logi (xs.map logiField) ++ tail) = some (.logi xs) := by
  have hg : ∀ f ∈ xs.map logiField, GoodField f := by
    intro f hf; obtain ⟨x, _, rfl⟩ := List.mem_map.mp hf; exact (logiField_good x).1
  obtain ⟨toks, ht, hrel⟩ := readToks_fmtLoop (fmtParams .logi).2.1 (fmtParams .logi).1
    (xs.map logiField) 0 tail hg
  rw [List.length_map] at ht
  have hm : mapM' logiOf toks = some xs := by
    refine mapM'_of_all2 TokRel logiOf logiField xs toks hrel ?_
    intro x _ tok ⟨extra, htok, _⟩
    rw [htok, (logiField_good x).2]
    cases x <;> rfl
  simp only [parseData, numericBody]
  rw [ht]; simp [hm]

/-- **REAL / DOUB**: the tokens handed to `strtod` are the rendered fields without their
leading blanks (followed at most by the newline the writer put behind them). -/
theorem real_tokens (t : ArrType) (ht : t = .real ∨ t = .doub) (fs : List (List Char))
    (hg : ∀ f ∈ fs, GoodField f) (tail : List Char) :
    ∃ toks, readToks fs.length (numericBody t fs ++ tail) = some toks ∧ All2 TokRel fs toks := by
  rcases ht with rfl | rfl <;>
    exact readToks_fmtLoop _ _ fs 0 tail hg


/-! ### strings: `writeFormattedCharArray` against `readFormattedCharArray` -/

def NoQuote (s : List Char) : Prop := ∀ c ∈ s, c ≠ '\''

theorem dropWhile_noQuote {j : List Char} (hj : NoQuote j) (s : List Char) :
    (j ++ s).dropWhile (· ≠ '\'') = s.dropWhile (· ≠ '\'') := by
  induction j with
  | nil => rfl
  | cons c j ih =>
    have hc : c ≠ '\'' := hj c (by simp)
    simp only [List.cons_append, List.dropWhile_cons, ne_eq, hc, not_false_eq_true, decide_true, if_true]
    exact ih (fun x hx => hj x (by simp [hx]))

theorem readStrs_skip (esz m : Nat) {j : List Char} (hj : NoQuote j) (s : List Char) :
    readStrs esz m (j ++ s) = readStrs esz m s := by
  cases m with
  | zero => rfl
  | succ m => simp only [readStrs, dropWhile_noQuote hj]

/-- the element as `writeFormattedCharArray` pads it. -/
def padStr (w : Nat) (v : List Char) : List Char := v ++ List.replicate (w - v.length) ' '

theorem strField_eq (w : Nat) (v : List Char) : strField w v = ' ' :: '\'' :: (padStr w v ++ ['\'']) := by
  simp [strField, padStr]

theorem padStr_length (w : Nat) (v : List Char) (hv : v.length ≤ w) : (padStr w v).length = w := by
  simp [padStr]; omega

theorem readStrs_field (esz m : Nat) (v : List Char) (hv : v.length ≤ esz) (R : List Char) :
    readStrs esz (m + 1) (strField esz v ++ R) =
      (readStrs esz m R).map (fun vs => trimr (padStr esz v) :: vs) := by
  have hl := padStr_length esz v hv
  have hs1 : (strField esz v ++ R).dropWhile (· ≠ '\'') = '\'' :: (padStr esz v ++ ('\'' :: R)) := by
    rw [strField_eq]; simp [List.dropWhile_cons]
  have htake : (padStr esz v ++ '\'' :: R).take esz = padStr esz v := by
    rw [List.take_append_of_le_length (by omega), List.take_of_length_le (by omega)]
  have hdrop : (padStr esz v ++ '\'' :: R).drop (esz + 1) = R := by
    have : esz + 1 = (padStr esz v ++ ['\'']).length := by simp [hl]
    rw [this, show padStr esz v ++ '\'' :: R = (padStr esz v ++ ['\'']) ++ R by simp,
      List.drop_left]
  simp only [readStrs, hs1]
  have hlen : ¬ ((('\'' : Char) :: (padStr esz v ++ '\'' :: R)).length < 1 + esz) := by
    simp [hl]; omega
  rw [if_neg hlen]
  simp only [List.drop_succ_cons, List.drop_zero, htake, hdrop]
  cases readStrs esz m R <;> rfl

theorem nl_noQuote (b : Prop) [Decidable b] : NoQuote (if b then ['\n'] else []) := by
  intro c hc; split at hc <;> simp at hc; subst hc; decide

theorem readStrs_charBlock (esz cols : Nat) : ∀ (vs : List (List Char)) (i m : Nat) (tail : List Char),
    (∀ v ∈ vs, v.length ≤ esz) →
    readStrs esz (vs.length + m) (charBlock cols i (vs.map (strField esz)) ++ tail) =
      (readStrs esz m tail).map (fun r => vs.map (fun v => trimr (padStr esz v)) ++ r) := by
  intro vs
  induction vs with
  | nil =>
    intro i m tail _
    simp only [List.map_nil, charBlock, List.length_nil, Nat.zero_add, List.nil_append]
    rw [readStrs_skip esz m (nl_noQuote _)]
    cases readStrs esz m tail <;> rfl
  | cons v vs ih =>
    intro i m tail hv
    have hv' : ∀ x ∈ vs, x.length ≤ esz := fun x hx => hv x (by simp [hx])
    simp only [List.map_cons, charBlock, List.length_cons, List.append_assoc]
    rw [show vs.length + 1 + m = (vs.length + m) + 1 by omega,
      readStrs_field esz _ v (hv v (by simp)), readStrs_skip esz _ (nl_noQuote _), ih (i + 1) m tail hv']
    cases readStrs esz m tail <;> rfl

theorem readStrs_charBody (esz mb cols : Nat) (hmb : 0 < mb) : ∀ (fuel : Nat) (vs : List (List Char))
    (tail : List Char), vs.length < fuel → (∀ v ∈ vs, v.length ≤ esz) →
    readStrs esz vs.length (charBody mb cols fuel (vs.map (strField esz)) ++ tail) =
      some (vs.map (fun v => trimr (padStr esz v))) := by
  intro fuel
  induction fuel with
  | zero => intro vs _ h; omega
  | succ fuel ih =>
    intro vs tail hf hv
    cases vs with
    | nil => rfl
    | cons v vs' =>
      have hne : ((v :: vs').map (strField esz)) ≠ [] := by simp
      simp only [charBody, if_neg hne]
      rw [← List.map_take, ← List.map_drop, List.append_assoc]
      have hsplit : (v :: vs').length = ((v :: vs').take mb).length + ((v :: vs').drop mb).length := by
        rw [← List.length_append, List.take_append_drop]
      have hdl : ((v :: vs').drop mb).length < fuel := by
        simp only [List.length_drop, List.length_cons] at *; omega
      rw [hsplit, readStrs_charBlock esz cols _ 0 _ _
        (fun x hx => hv x (List.mem_of_mem_take hx)),
        ih _ tail hdl (fun x hx => hv x (List.mem_of_mem_drop hx))]
      simp only [Option.map_some, ← List.map_append, List.take_append_drop]

theorem trimr_padStr (w : Nat) (v : List Char) : trimr (padStr w v) = trimr v := by
  unfold trimr padStr
  rw [List.reverse_append, List.reverse_replicate]
  have := dropSp_replicate (w - v.length) v.reverse
  unfold dropSp at this
  rw [this]

/-- an element without trailing blanks (the reader trims them). -/
def NoTrail (v : List Char) : Prop := v.getLast? ≠ some ' '

theorem trimr_noTrail (v : List Char) (h : NoTrail v) : trimr v = v := by
  unfold trimr
  have : v.reverse.dropWhile (· = ' ') = v.reverse := by
    cases hr : v.reverse with
    | nil => rfl
    | cons c r =>
      have hc : c ≠ ' ' := by
        intro hc; apply h
        rw [List.getLast?_eq_head?_reverse, hr, hc]; rfl
      simp [List.dropWhile_cons, hc]
  rw [this, List.reverse_reverse]

/-- **CHAR / C0nn**: every element (of at most the element width) comes back without its
trailing blanks, for every array length — elements may contain quotes and newlines. -/
theorem strs_roundtrip (t : ArrType) (ht : t = .char ∨ ∃ k, t = .c0nn k) (vs : List (List Char))
    (hv : ∀ v ∈ vs, v.length ≤ strWidth t) (tail : List Char) :
    parseData t vs.length (stringBody t (vs.map (strField (strWidth t))) ++ tail) =
      some (.strs (vs.map trimr)) := by
  have hm : t ≠ .mess := by rcases ht with rfl | ⟨k, rfl⟩ <;> simp
  have hpos := fmtParams_pos t hm
  have key := readStrs_charBody (strWidth t) (fmtParams t).1 (fmtParams t).2.1 hpos.2
    (vs.length + 1) vs tail (by omega) hv
  have hmap : vs.map (fun v => trimr (padStr (strWidth t) v)) = vs.map trimr := by
    apply List.map_congr_left; intro v _; exact trimr_padStr _ v
  rw [hmap] at key
  rcases ht with rfl | ⟨k, rfl⟩
  · simp only [parseData, stringBody, List.length_map, strWidth]
    simp only [strWidth] at key
    rw [key]; rfl
  · simp only [parseData, stringBody, List.length_map, strWidth]
    simp only [strWidth] at key
    rw [key]; rfl

end OpmVerif.EclFmt
