/-
  Lemmas about the `EclipseGrid` object state machine (`Model/GridState.lean`), C13 second
  round.  Core Lean only.

  * `Inv`: ACTNUM has one entry per cell, the index maps are those of `resetACTNUM` on the
    current ACTNUM, and the volume cache — when present — is the list of geometric volumes of
    the *current* COORD/ZCORN at the *current* `m_active_to_global`.
  * `inv_runWith`: every operation sequence preserves `Inv`, provided both `resetACTNUM`
    forms drop the cache on every path (what `translate/gridcopy.py` reads off the source).
  * `getCellVolume_eq_geom`: under `Inv`, `getCellVolume(g)` is the geometric volume of cell
    `g`, whatever the cache and ACTNUM are.
  * `InputOK` / `savedGeometry`: what `save()` writes is (after the reader's fix-up) the
    current geometry, for every sequence — unless the ZCORN-replacing copy constructor keeps
    the source's `m_input_zcorn` (`copyZ_keep_breaks_save`).
-/
import OpmVerif.Model.GridState
import OpmVerif.Proofs.GridIndex

namespace OpmVerif.Grid

open Gen.GridCopy

/-! ### `resetACTNUM()` is `resetACTNUM(all ones)` -/

theorem globalToActive_replicate (n k : Nat) :
    globalToActive (List.replicate n (1 : Int)) k = (List.range' k n).map some := by
  induction n generalizing k with
  | zero => simp [globalToActive]
  | succ n ih =>
    simp only [List.replicate_succ, globalToActive, List.range'_succ, List.map_cons]
    rw [if_pos (by decide), ih]

theorem activeToGlobal_replicate (n g : Nat) :
    activeToGlobal (List.replicate n (1 : Int)) g = List.range' g n := by
  induction n generalizing g with
  | zero => simp [activeToGlobal]
  | succ n ih =>
    simp only [List.replicate_succ, activeToGlobal, List.range'_succ]
    rw [if_pos (by decide), ih]

theorem numActive_replicate (n : Nat) : numActive (List.replicate n (1 : Int)) = n := by
  induction n with
  | zero => simp [numActive]
  | succ n ih =>
    simp only [List.replicate_succ, numActive]
    rw [if_pos (by decide), ih]

/-- The iota maps of `resetACTNUM()` are exactly what the general loop produces on an
all-ones ACTNUM. -/
theorem iotaMaps_eq (n : Nat) : iotaMaps n = resetACTNUM (allActive n) := by
  simp only [iotaMaps, resetACTNUM, allActive, globalToActive_replicate, activeToGlobal_replicate,
    numActive_replicate, List.range_eq_range']

section
variable {α : Type} [Add α] [Sub α] [Mul α] [Div α] [Neg α] [NatCast α] [BEq α]

/-- The coherence invariant of the object. -/
structure GState.Inv (abs : α → α) (s : GState α) : Prop where
  len : s.actnum.length = s.d.size
  maps : s.maps = resetACTNUM s.actnum
  cache : ∀ c, s.cache = some c → c = s.freshVolumes abs

/-- Both `resetACTNUM` forms drop the cache on every path. -/
def Effects.DropsCache (e : Effects) : Prop := e.resetAll = .drop ∧ e.resetMask = .drop

instance (e : Effects) : Decidable e.DropsCache := by unfold Effects.DropsCache; infer_instance

theorem stepWith_d (e : Effects) (abs : α → α) (fix : Dims → (Nat → α) → Nat × (Nat → α))
    (s : GState α) (op : Op α) : (stepWith e abs fix s op).d = s.d := by
  cases op with
  | activeVolume => simp only [stepWith]; split <;> rfl
  | resetAll => rfl
  | reset mask => simp only [stepWith]; split <;> rfl
  | copyZ z mask => simp only [stepWith]; split <;> rfl
  | copyA mask => simp only [stepWith]; split <;> rfl
  | save => rfl

theorem stepWith_coord (e : Effects) (abs : α → α) (fix : Dims → (Nat → α) → Nat × (Nat → α))
    (s : GState α) (op : Op α) : (stepWith e abs fix s op).coord = s.coord := by
  cases op with
  | activeVolume => simp only [stepWith]; split <;> rfl
  | resetAll => rfl
  | reset mask => simp only [stepWith]; split <;> rfl
  | copyZ z mask => simp only [stepWith]; split <;> rfl
  | copyA mask => simp only [stepWith]; split <;> rfl
  | save => rfl

theorem runWith_coord (e : Effects) (abs : α → α) (fix : Dims → (Nat → α) → Nat × (Nat → α))
    (s : GState α) (ops : List (Op α)) : (runWith e abs fix s ops).coord = s.coord := by
  induction ops generalizing s with
  | nil => rfl
  | cons op ops ih =>
    simp only [runWith, List.foldl_cons] at ih ⊢
    rw [ih, stepWith_coord]

theorem runWith_d (e : Effects) (abs : α → α) (fix : Dims → (Nat → α) → Nat × (Nat → α))
    (s : GState α) (ops : List (Op α)) : (runWith e abs fix s ops).d = s.d := by
  induction ops generalizing s with
  | nil => rfl
  | cons op ops ih =>
    simp only [runWith, List.foldl_cons] at ih ⊢
    rw [ih, stepWith_d]

/-- Every operation preserves the invariant. -/
theorem inv_stepWith (e : Effects) (he : e.DropsCache) (abs : α → α)
    (fix : Dims → (Nat → α) → Nat × (Nat → α)) (s : GState α) (h : s.Inv abs) (op : Op α) :
    (stepWith e abs fix s op).Inv abs := by
  obtain ⟨hlen, hmaps, hcache⟩ := h
  obtain ⟨hA, hM⟩ := he
  cases op with
  | activeVolume =>
    simp only [stepWith]
    split
    · exact ⟨hlen, hmaps, hcache⟩
    · exact ⟨hlen, hmaps, fun c hc => by cases hc; rfl⟩
  | resetAll =>
    refine ⟨?_, ?_, ?_⟩
    · simp [stepWith, allActive]
    · simp only [stepWith]; exact iotaMaps_eq _
    · intro c hc; simp [stepWith, hA, cacheAfter] at hc
  | reset mask =>
    simp only [stepWith]
    split
    · exact ⟨hlen, hmaps, hcache⟩
    · rename_i hne
      refine ⟨?_, rfl, ?_⟩
      · simpa using hne
      · intro c hc; simp [hM, cacheAfter] at hc
  | copyZ z mask =>
    simp only [stepWith]
    split
    · exact ⟨hlen, hmaps, hcache⟩
    · rename_i hne
      refine ⟨?_, rfl, ?_⟩
      · simpa using hne
      · intro c hc; simp [hM, cacheAfter] at hc
  | copyA mask =>
    simp only [stepWith]
    split
    · exact ⟨hlen, hmaps, hcache⟩
    · rename_i hne
      refine ⟨?_, rfl, ?_⟩
      · simpa using hne
      · intro c hc; simp [hM, cacheAfter] at hc
  | save => exact ⟨hlen, hmaps, hcache⟩

/-- Every operation sequence preserves the invariant (induction over the sequence). -/
theorem inv_runWith (e : Effects) (he : e.DropsCache) (abs : α → α)
    (fix : Dims → (Nat → α) → Nat × (Nat → α)) (s : GState α) (h : s.Inv abs) (ops : List (Op α)) :
    (runWith e abs fix s ops).Inv abs := by
  induction ops generalizing s with
  | nil => exact h
  | cons op ops ih =>
    simp only [runWith, List.foldl_cons] at ih ⊢
    exact ih _ (inv_stepWith e he abs fix s h op)

/-- A freshly constructed corner-point grid satisfies the invariant. -/
theorem inv_initCornerPoint (abs : α → α) (fix : Dims → (Nat → α) → Nat × (Nat → α)) (d : Dims)
    (coord zcorn : Nat → α) (act : Option (List Int))
    (hact : ∀ a, act = some a → a.length = d.size) :
    (initCornerPoint fix d coord zcorn act).Inv abs := by
  cases act with
  | none =>
    refine ⟨?_, ?_, ?_⟩
    · simp [initCornerPoint, allActive]
    · simp only [initCornerPoint, Option.getD_none]; exact iotaMaps_eq _
    · intro c hc; simp [initCornerPoint] at hc
  | some a =>
    refine ⟨?_, rfl, ?_⟩
    · simpa [initCornerPoint] using hact a rfl
    · intro c hc; simp [initCornerPoint] at hc

/-- Under the invariant `getCellVolume(g)` is the geometric volume of cell `g` of the current
COORD/ZCORN — whatever the cache holds and whatever ACTNUM is. -/
theorem getCellVolume_eq_geom (abs : α → α) (s : GState α) (h : s.Inv abs) {g : Nat}
    (hg : g < s.d.size) : s.getCellVolume abs g = some (s.geomVolume abs g) := by
  obtain ⟨hlen, hmaps, hcache⟩ := h
  unfold GState.getCellVolume
  rw [if_neg (by omega)]
  cases hc : s.cache with
  | none => rfl
  | some c =>
    simp only []
    have hc' := hcache c hc
    have hgl : g < s.actnum.length := by omega
    have hv : s.actnum[g]? = some s.actnum[g] := List.getElem?_eq_getElem hgl
    by_cases hpos : s.actnum[g] > 0
    · have hact : s.cellActive g = true := by simp [GState.cellActive, hv, hpos]
      rw [if_pos hact]
      obtain ⟨a, h1, _, h3⟩ := globalOfActive_activeIndex s.actnum hv hpos
      rw [hmaps, h1]
      simp only []
      rw [hc', GState.freshVolumes, List.getElem?_map, hmaps]
      simp only [globalOfActive] at h3
      rw [h3]; rfl
    · have hact : ¬ s.cellActive g = true := by simp [GState.cellActive, hv, hpos]
      rw [if_neg hact]

/-- Out of range `getCellVolume` throws, in every state. -/
theorem getCellVolume_out_of_range (abs : α → α) (s : GState α) {g : Nat} (hg : s.d.size ≤ g) :
    s.getCellVolume abs g = none := by
  unfold GState.getCellVolume
  rw [if_pos hg]

/-- `activeVolume()` returns one entry per active cell, and entry `a` is the geometric volume
of the `a`-th active cell. -/
theorem activeVolumeResult_spec (abs : α → α) (s : GState α) (h : s.Inv abs) :
    (s.activeVolumeResult abs).length = s.maps.nactive ∧
    ∀ a g, globalOfActive s.maps a = some g →
      (s.activeVolumeResult abs)[a]? = some (s.geomVolume abs g) := by
  have hres : s.activeVolumeResult abs = s.freshVolumes abs := by
    unfold GState.activeVolumeResult
    cases hc : s.cache with
    | none => rfl
    | some c => exact h.cache c hc
  rw [hres]
  refine ⟨?_, ?_⟩
  · rw [GState.freshVolumes, List.length_map, h.maps]
    exact (resetACTNUM_lengths s.actnum).2.1
  · intro a g hag
    rw [GState.freshVolumes, List.getElem?_map]
    simp only [globalOfActive] at hag
    rw [hag]; rfl

/-! ### What `save()` writes -/

/-- The remembered input arrays, when present, still describe the object: the input ZCORN
fixes up to the current ZCORN, the input COORD is the current COORD; and the current ZCORN is
a fixed point of the fix-up. -/
structure GState.InputOK (fix : Dims → (Nat → α) → Nat × (Nat → α)) (s : GState α) : Prop where
  zin : ∀ z, s.inZcorn = some z → (fix s.d z).2 = s.zcorn
  cin : ∀ c, s.inCoord = some c → c = s.coord
  zfix : (fix s.d s.zcorn).2 = s.zcorn

def Op.isCopyZ : Op α → Bool
  | .copyZ _ _ => true
  | _ => false

theorem inputOK_stepWith (e : Effects) (abs : α → α) (fix : Dims → (Nat → α) → Nat × (Nat → α))
    (s : GState α) (hidem : ∀ z, (fix s.d (fix s.d z).2).2 = (fix s.d z).2)
    (h : s.InputOK fix) (op : Op α)
    (hop : e.copyZ = .keep → op.isCopyZ = false) : (stepWith e abs fix s op).InputOK fix := by
  obtain ⟨hz, hc, hf⟩ := h
  cases op with
  | activeVolume => simp only [stepWith]; split <;> exact ⟨hz, hc, hf⟩
  | resetAll => exact ⟨hz, hc, hf⟩
  | reset mask => simp only [stepWith]; split <;> exact ⟨hz, hc, hf⟩
  | copyA mask => simp only [stepWith]; split <;> exact ⟨hz, hc, hf⟩
  | save => exact ⟨fun z hz' => by simp [stepWith] at hz', fun c hc' => by simp [stepWith] at hc', hf⟩
  | copyZ z mask =>
    simp only [stepWith]
    split
    · exact ⟨hz, hc, hf⟩
    · refine ⟨?_, hc, hidem _⟩
      intro z' hz'
      cases hm : e.copyZ with
      | keep => simp [Op.isCopyZ] at hop; exact absurd hm hop
      | reset => simp [hm, copyInZcorn] at hz'
      | store =>
        simp only [hm, copyInZcorn, Option.some.injEq] at hz'
        subst hz'; rfl

theorem inputOK_runWith (e : Effects) (abs : α → α) (fix : Dims → (Nat → α) → Nat × (Nat → α))
    (s : GState α) (hidem : ∀ z, (fix s.d (fix s.d z).2).2 = (fix s.d z).2)
    (h : s.InputOK fix) (ops : List (Op α))
    (hops : e.copyZ = .keep → ∀ op ∈ ops, op.isCopyZ = false) :
    (runWith e abs fix s ops).InputOK fix := by
  induction ops generalizing s with
  | nil => exact h
  | cons op ops ih =>
    simp only [runWith, List.foldl_cons] at ih ⊢
    refine ih _ (by rw [stepWith_d]; exact hidem)
      (inputOK_stepWith e abs fix s hidem h op fun hk => hops hk op (by simp)) ?_
    intro hk op' hop'
    exact hops hk op' (by simp [hop'])

omit [Add α] [Sub α] [Mul α] [Div α] [Neg α] [NatCast α] [BEq α] in
theorem inputOK_initCornerPoint (fix : Dims → (Nat → α) → Nat × (Nat → α)) (d : Dims)
    (hidem : ∀ z, (fix d (fix d z).2).2 = (fix d z).2) (coord zcorn : Nat → α)
    (act : Option (List Int)) : (initCornerPoint fix d coord zcorn act).InputOK fix := by
  refine ⟨?_, ?_, hidem _⟩
  · intro z hz; simp only [initCornerPoint, Option.some.injEq] at hz; subst hz; rfl
  · intro c hc; simp only [initCornerPoint, Option.some.injEq] at hc; subst hc; rfl

omit [Add α] [Sub α] [Mul α] [Div α] [Neg α] [NatCast α] [BEq α] in
/-- Under `InputOK`, the arrays `save()` writes describe the current geometry: the written
COORD is the current COORD, and the written ZCORN becomes the current ZCORN under the fix-up
every reader (`EclipseGrid(filename)`) applies. -/
theorem saved_geometry (fix : Dims → (Nat → α) → Nat × (Nat → α)) (s : GState α)
    (h : s.InputOK fix) : s.savedCoord = s.coord ∧ (fix s.d s.savedZcorn).2 = s.zcorn := by
  obtain ⟨hz, hc, hf⟩ := h
  constructor
  · unfold GState.savedCoord
    cases hi : s.inCoord with
    | none => rfl
    | some c => exact hc c hi
  · unfold GState.savedZcorn
    cases hi : s.inZcorn with
    | none => exact hf
    | some z => exact hz z hi

end

/-! ### Witness: a copy constructor that keeps `m_input_zcorn` makes `save()` write the old
geometry (scalars `Int`, trivial fix-up) -/

def witnessFix : Dims → (Nat → Int) → Nat × (Nat → Int) := fun _ z => (0, z)

def witnessState : GState Int :=
  initCornerPoint witnessFix ⟨1, 1, 1⟩ (fun _ => 0) (fun i => if i < 4 then 0 else 1) none

def witnessOps : List (Op Int) := [.copyZ (fun i => if i < 4 then 0 else 2) [1]]

theorem copyZ_keep_breaks_save :
    let s := runWith { resetAll := .drop, resetMask := .drop, copyZ := .keep } (fun x => x) witnessFix
      witnessState witnessOps
    s.zcorn 4 = 2 ∧ s.savedZcorn 4 = 1 := by
  decide

theorem copyZ_reset_saves_current :
    let s := runWith { resetAll := .drop, resetMask := .drop, copyZ := .reset } (fun x => x) witnessFix
      witnessState witnessOps
    s.zcorn 4 = 2 ∧ s.savedZcorn 4 = 2 := by
  decide

end OpmVerif.Grid
