import OpmVerif.Proofs.EclBin
import OpmVerif.Model.Unrst
namespace OpmVerif.Unrst
open OpmVerif.Ecl

theorem length_le_encodeFile (as : List Arr) : as.length ≤ (encodeFile as).length := by
  induction as with
  | nil => simp
  | cons a as ih =>
    have : 1 ≤ (encodeArr a).length := by
      rw [encodeArr_eq]; simp [encodeHeader]; omega
    simp [encodeFile] at ih ⊢; omega

theorem encodeFile_append (xs ys : List Arr) : encodeFile (xs ++ ys) = encodeFile xs ++ encodeFile ys := by
  simp [encodeFile]

theorem encodeFile_cons (a : Arr) (as : List Arr) : encodeFile (a :: as) = encodeArr a ++ encodeFile as := by
  simp [encodeFile]

theorem expectedIndex_append (xs ys : List Arr) (pos : Nat) :
    expectedIndex pos (xs ++ ys) = expectedIndex pos xs ++ expectedIndex (pos + (encodeFile xs).length) ys := by
  induction xs generalizing pos with
  | nil => simp [expectedIndex, encodeFile]
  | cons a xs ih =>
    simp only [List.cons_append, expectedIndex, ih, encodeFile_cons, List.length_append]
    simp [Nat.add_assoc]

/-- Loading the entry of one array out of a larger file. -/
theorem loadEntry_enc (a : Arr) (h : a.WF) (pre post : Bytes) :
    loadEntry (pre ++ encodeArr a ++ post)
      { hdr := { name := a.name, num := a.elems.length, ty := a.ty }, pos := pre.length + 24 } = .ok a := by
  have hn := h.1.1
  unfold loadEntry
  have hdrop : List.drop (pre.length + 24) (pre ++ encodeArr a ++ post) =
      (if a.ty = .mess then [] else encodeData a.ty a.elems) ++ post := by
    rw [encodeArr_eq]
    have : pre ++ (encodeHeader a.name a.elems.length a.ty ++
        (if a.ty = .mess then [] else encodeData a.ty a.elems)) ++ post =
        (pre ++ encodeHeader a.name a.elems.length a.ty) ++
        ((if a.ty = .mess then [] else encodeData a.ty a.elems) ++ post) := by simp
    rw [this]
    exact List.drop_left' (by simp [encodeHeader_length _ _ _ hn])
  simp only [hdrop, readData_enc a h.1, h.2, if_true]

def stepArrs (s : Nat × List Arr) : List Arr := seqnumArr s.1 :: s.2
def allArrs (st : Steps) : List Arr := st.flatMap stepArrs

theorem fresh_eq (st : Steps) : fresh st = encodeFile (allArrs st) := by
  induction st with
  | nil => simp [fresh, allArrs, encodeFile]
  | cons s st ih =>
    simp only [fresh, List.flatMap_cons] at ih ⊢
    rw [ih]
    simp [allArrs, stepArrs, encodeFile]

theorem fresh_cons (s : Nat × List Arr) (st : Steps) :
    fresh (s :: st) = encodeFile (stepArrs s) ++ fresh st := by
  simp [fresh, stepArrs]

theorem fresh_append (a b : Steps) : fresh (a ++ b) = fresh a ++ fresh b := by
  simp [fresh]

/-- What a step may contain: well-formed arrays, none of them called SEQNUM. -/
def StepWF (s : Nat × List Arr) : Prop :=
  s.1 < 2147483648 ∧ ∀ a ∈ s.2, a.WF ∧ a.name ≠ seqnumName

theorem seqnumArr_WF {n : Nat} (h : n < 2147483648) : (seqnumArr n).WF := by
  simp [Arr.WF, Arr.WFcore, seqnumArr, seqnumName, ValidTy, elemSize, Gen.EclIO.sizeOfInte, elemsOk]

theorem stepArrs_WF {s : Nat × List Arr} (h : StepWF s) : ∀ a ∈ stepArrs s, a.WF := by
  intro a ha
  simp only [stepArrs, List.mem_cons] at ha
  rcases ha with rfl | ha
  · exact seqnumArr_WF h.1
  · exact (h.2 a ha).1

theorem allArrs_WF {st : Steps} (h : ∀ s ∈ st, StepWF s) : ∀ a ∈ allArrs st, a.WF := by
  intro a ha
  simp only [allArrs, List.mem_flatMap] at ha
  obtain ⟨s, hs, ha⟩ := ha
  exact stepArrs_WF (h s hs) a ha

/-- The (step number, write position) list the reader must find. -/
def stepOffsets : Nat → Steps → List (Int × Nat)
  | _, [] => []
  | pos, s :: st => ((s.1 : Int), pos) :: stepOffsets (pos + (encodeFile (stepArrs s)).length) st

theorem stepsOf_skip (file : Bytes) (as rest : List Arr) (pos : Nat)
    (hne : ∀ a ∈ as, a.name ≠ seqnumName) :
    stepsOf file (expectedIndex pos (as ++ rest)) =
      stepsOf file (expectedIndex (pos + (encodeFile as).length) rest) := by
  induction as generalizing pos with
  | nil => simp [encodeFile]
  | cons a as ih =>
    have h1 : a.name ≠ seqnumName := hne a (by simp)
    have h2 : ∀ x ∈ as, x.name ≠ seqnumName := fun x hx => hne x (by simp [hx])
    simp only [List.cons_append, expectedIndex, stepsOf, h1, if_false, ih _ h2, encodeFile_cons,
      List.length_append, Nat.add_assoc]

theorem seekPosition_add (p : Nat) : seekPosition (p + 24) = p := by
  unfold seekPosition headerSize Gen.EclFile.headerSizeBinary
  by_cases h : p + 24 ≤ 24
  · simp [h]; omega
  · simp [h]

theorem stepsOf_fresh (st : Steps) (hwf : ∀ s ∈ st, StepWF s) :
    ∀ (pre post : Bytes),
      stepsOf (pre ++ fresh st ++ post) (expectedIndex pre.length (allArrs st)) =
        .ok (stepOffsets pre.length st) := by
  induction st with
  | nil => intro pre post; simp [allArrs, expectedIndex, stepsOf, stepOffsets]
  | cons s st ih =>
    intro pre post
    have hs : StepWF s := hwf s (by simp)
    have hst : ∀ x ∈ st, StepWF x := fun x hx => hwf x (by simp [hx])
    have hall : allArrs (s :: st) = seqnumArr s.1 :: (s.2 ++ allArrs st) := by
      simp [allArrs, stepArrs]
    rw [hall]
    simp only [expectedIndex, stepsOf]
    have hname : (seqnumArr s.1).name = seqnumName := rfl
    simp only [hname, if_true]
    -- load the SEQNUM array
    have hfile : pre ++ fresh (s :: st) ++ post =
        pre ++ encodeArr (seqnumArr s.1) ++ (encodeFile s.2 ++ fresh st ++ post) := by
      rw [fresh_cons]; simp [stepArrs, encodeFile_cons]
    have hload := loadEntry_enc (seqnumArr s.1) (seqnumArr_WF hs.1) pre (encodeFile s.2 ++ fresh st ++ post)
    rw [← hfile] at hload
    have hload' : loadEntry (pre ++ fresh (s :: st) ++ post)
        { hdr := { name := seqnumName, num := ((seqnumArr s.1).elems.length : Int), ty := (seqnumArr s.1).ty },
          pos := pre.length + 24 } = .ok (seqnumArr s.1) := hload
    rw [hload']
    simp only [seqnumArr]
    rw [stepsOf_skip _ s.2 (allArrs st) _ (fun a ha => (hs.2 a ha).2)]
    have hpre : pre.length + (encodeArr { name := seqnumName, ty := .inte, elems := [be32 s.1] }).length +
        (encodeFile s.2).length = (pre ++ encodeFile (stepArrs s)).length := by
      simp [stepArrs, encodeFile_cons, seqnumArr, Nat.add_assoc]
    have hfile2 : pre ++ fresh (s :: st) ++ post = (pre ++ encodeFile (stepArrs s)) ++ fresh st ++ post := by
      rw [fresh_cons]; simp
    rw [hpre, hfile2, ih hst (pre ++ encodeFile (stepArrs s)) post]
    simp only [stepOffsets, rd32_be32 (show s.1 < 4294967296 by have := hs.1; omega), toI32_small hs.1,
      seekPosition_add, List.length_append]

/-- Strictly increasing report-step numbers. -/
def Sorted : Steps → Prop
  | [] => True
  | [_] => True
  | a :: b :: rest => a.1 < b.1 ∧ Sorted (b :: rest)

theorem Sorted.tail {a : Nat × List Arr} {st : Steps} (h : Sorted (a :: st)) : Sorted st := by
  cases st with
  | nil => trivial
  | cons b rest => exact h.2

theorem Sorted.head_lt {a : Nat × List Arr} {st : Steps} (h : Sorted (a :: st)) :
    ∀ s ∈ st, a.1 < s.1 := by
  induction st generalizing a with
  | nil => intro s hs; cases hs
  | cons b rest ih =>
    intro s hs
    simp only [List.mem_cons] at hs
    rcases hs with rfl | hs
    · exact h.1
    · have := ih h.2 s hs
      have := h.1
      omega

/-- On a file with strictly increasing step numbers `lower_bound n` finds the
first step ≥ n, whose write position is the length of everything before it. -/
theorem lowerBound_sorted (n : Nat) :
    ∀ (st : Steps) (pos : Nat), Sorted st →
      lowerBound (n : Int) (stepOffsets pos st) =
        match st.filter (fun s => ¬ s.1 < n) with
        | [] => none
        | s :: _ => some ((s.1 : Int), pos + (fresh (st.filter (fun s => s.1 < n))).length) := by
  intro st
  induction st with
  | nil => intro pos _; simp [stepOffsets, lowerBound]
  | cons a st ih =>
    intro pos hs
    have hlt := hs.head_lt
    simp only [stepOffsets, lowerBound]
    rw [ih _ hs.tail]
    by_cases ha : a.1 < n
    · -- `a` is below n: skip it
      simp only [List.filter_cons, ha, not_true_eq_false, decide_false, decide_true, if_true]
      have hk : ¬ ((a.1 : Int) ≥ (n : Int)) := by omega
      cases hf : st.filter (fun s => ¬ s.1 < n) with
      | nil => simp [hk]
      | cons b rest =>
        simp only [hk, false_and, if_false, fresh_cons, List.length_append]
        simp [Nat.add_assoc]
    · -- `a` is the first step ≥ n; everything after is larger
      have hall : ∀ s ∈ st, ¬ s.1 < n := fun s hs' => by have := hlt s hs'; omega
      have hf1 : st.filter (fun s => s.1 < n) = [] := by
        rw [List.filter_eq_nil_iff]; intro s hs'; simpa using hall s hs'
      have hf2 : st.filter (fun s => ¬ s.1 < n) = st := by
        rw [List.filter_eq_self]; intro s hs'; simpa using hall s hs'
      simp only [List.filter_cons, ha, not_false_eq_true, decide_true, decide_false, if_true, hf1, hf2]
      have hk : (a.1 : Int) ≥ (n : Int) := by omega
      cases st with
      | nil => simp [hk, fresh]
      | cons b rest =>
        have : a.1 < b.1 := hlt b (by simp)
        have hk2 : (a.1 : Int) < (b.1 : Int) := by omega
        simp [hk, hk2, fresh]

theorem filter_split_sorted (n : Nat) (st : Steps) (hs : Sorted st) :
    st = st.filter (fun s => s.1 < n) ++ st.filter (fun s => ¬ s.1 < n) := by
  induction st with
  | nil => simp
  | cons a st ih =>
    by_cases ha : a.1 < n
    · simp only [List.filter_cons, ha, decide_true, if_true, not_true_eq_false, decide_false,
        List.cons_append]
      exact congrArg _ (ih hs.tail)
    · have hall : ∀ s ∈ st, ¬ s.1 < n := fun s hs' => by have := hs.head_lt s hs'; omega
      have hf1 : st.filter (fun s => s.1 < n) = [] := by
        rw [List.filter_eq_nil_iff]; intro s hs'; simpa using hall s hs'
      have hf2 : st.filter (fun s => ¬ s.1 < n) = st := by
        rw [List.filter_eq_self]; intro s hs'; simpa using hall s hs'
      simp only [List.filter_cons, ha, decide_false, not_false_eq_true, decide_true, if_true, hf1, hf2,
        List.nil_append, Bool.false_eq_true, if_false]

theorem any_seqnum (st : Steps) (hne : st ≠ []) (pos : Nat) :
    (expectedIndex pos (allArrs st)).any (fun e => e.hdr.name = seqnumName) = true := by
  cases st with
  | nil => exact absurd rfl hne
  | cons s st => simp [allArrs, stepArrs, expectedIndex, seqnumArr]

/-- One report-step write on a well-formed unified restart file produces exactly the
fresh file of the surviving steps. -/
theorem writeStep_refines (st : Steps) (hne : st ≠ []) (hwf : ∀ s ∈ st, StepWF s) (hs : Sorted st)
    (n : Nat) (as : List Arr) (hnew : StepWF (n, as)) :
    writeStep (some (fresh st)) n as = .ok (fresh (specStep st n as)) := by
  unfold writeStep
  simp only []
  have hidx := indexFile_encodeFile (allArrs st) [] ((fresh st).length + 1) (allArrs_WF hwf) (by
    have := length_le_encodeFile (allArrs st); rw [← fresh_eq] at this; omega)
  simp only [List.nil_append, List.length_nil, ← fresh_eq] at hidx
  rw [hidx]
  simp only [any_seqnum st hne 0, not_true_eq_false, if_false]
  have hsteps := stepsOf_fresh st hwf [] []
  simp only [List.nil_append, List.append_nil, List.length_nil] at hsteps
  rw [hsteps]
  simp only [lowerBound_sorted n st 0 hs]
  have hpay : encodeFile (seqnumArr n :: as) = fresh [(n, as)] := by simp [fresh]
  rw [hpay]
  cases hf : st.filter (fun s => ¬ s.1 < n) with
  | nil =>
    simp only []
    have hall : st.filter (fun s => s.1 < n) = st := by
      have := filter_split_sorted n st hs
      rw [hf, List.append_nil] at this
      exact this.symm
    simp [specStep, hall, fresh_append]
  | cons b rest =>
    simp only [Nat.zero_add]
    have hsplit := filter_split_sorted n st hs
    have : fresh st = fresh (st.filter (fun s => s.1 < n)) ++ fresh (st.filter (fun s => ¬ s.1 < n)) := by
      rw [← fresh_append, ← hsplit]
    rw [this, List.take_left' rfl]
    simp [specStep, fresh_append]

theorem specStep_ne (st : Steps) (n : Nat) (as : List Arr) : specStep st n as ≠ [] := by
  simp [specStep]

theorem specStep_wf {st : Steps} (hwf : ∀ s ∈ st, StepWF s) {n : Nat} {as : List Arr}
    (hnew : StepWF (n, as)) : ∀ s ∈ specStep st n as, StepWF s := by
  intro s hs
  simp only [specStep, List.mem_append, List.mem_filter, List.mem_singleton] at hs
  rcases hs with ⟨h, _⟩ | rfl
  · exact hwf s h
  · exact hnew

theorem sorted_append_singleton (st : Steps) (x : Nat × List Arr) (hs : Sorted st)
    (hlt : ∀ s ∈ st, s.1 < x.1) : Sorted (st ++ [x]) := by
  induction st with
  | nil => trivial
  | cons a st ih =>
    cases st with
    | nil => exact ⟨hlt a (by simp), trivial⟩
    | cons b rest =>
      exact ⟨hs.1, ih hs.2 (fun s hs' => hlt s (by simp [hs']))⟩

theorem sorted_filter (p : Nat × List Arr → Bool) (st : Steps) (hs : Sorted st) : Sorted (st.filter p) := by
  induction st with
  | nil => trivial
  | cons a st ih =>
    by_cases hp : p a
    · simp only [List.filter_cons, hp, if_true]
      have ih' := ih hs.tail
      cases hf : st.filter p with
      | nil => trivial
      | cons b rest =>
        rw [hf] at ih'
        have hb : b ∈ st := by
          have : b ∈ st.filter p := by rw [hf]; simp
          exact (List.mem_filter.mp this).1
        exact ⟨hs.head_lt b hb, ih'⟩
    · simp only [List.filter_cons, hp]
      exact ih hs.tail

theorem specStep_sorted {st : Steps} (hs : Sorted st) (n : Nat) (as : List Arr) :
    Sorted (specStep st n as) := by
  unfold specStep
  apply sorted_append_singleton _ _ (sorted_filter _ _ hs)
  intro s hs'
  have := (List.mem_filter.mp hs').2
  simpa using this

/-- Every history of report-step writes (including rewinds) on a file that does not
exist at first leaves exactly the fresh file of the surviving steps. -/
theorem runHistory_refines :
    ∀ (h : List (Nat × List Arr)) (st : Steps), st ≠ [] → (∀ s ∈ st, StepWF s) → Sorted st →
      (∀ s ∈ h, StepWF s) →
      runHistory (some (fresh st)) h = .ok (some (fresh (specRun st h))) := by
  intro h
  induction h with
  | nil => intro st _ _ _ _; rfl
  | cons x h ih =>
    intro st hne hwf hs hh
    obtain ⟨n, as⟩ := x
    have hx : StepWF (n, as) := hh (n, as) (by simp)
    have hh' : ∀ s ∈ h, StepWF s := fun s hs' => hh s (by simp [hs'])
    simp only [runHistory, writeStep_refines st hne hwf hs n as hx, specRun]
    exact ih _ (specStep_ne st n as) (specStep_wf hwf hx) (specStep_sorted hs n as) hh'

theorem runHistory_from_nothing (n : Nat) (as : List Arr) (h : List (Nat × List Arr))
    (hx : StepWF (n, as)) (hh : ∀ s ∈ h, StepWF s) :
    runHistory none ((n, as) :: h) = .ok (some (fresh (specRun [] ((n, as) :: h)))) := by
  have h1 : writeStep none n as = .ok (fresh [(n, as)]) := by simp [writeStep, fresh]
  simp only [runHistory, h1, specRun]
  have : specStep [] n as = [(n, as)] := by simp [specStep]
  rw [this]
  exact runHistory_refines h [(n, as)] (by simp) (by intro s hs; simp at hs; rw [hs]; exact hx) trivial hh

/-! ### Formatted header length -/

theorem decDigits_length_le (k : Nat) : ∀ (fuel n : Nat), k ≤ fuel → n < 10 ^ k → 1 ≤ k →
    (decDigits fuel n).length ≤ k := by
  induction k with
  | zero => intro _ _ _ _ h; omega
  | succ k ih =>
    intro fuel n hf hn _
    obtain ⟨fuel, rfl⟩ : ∃ f, fuel = f + 1 := ⟨fuel - 1, by omega⟩
    unfold decDigits
    by_cases h10 : n < 10
    · simp [h10]
    · simp only [h10, if_false, List.length_append, List.length_singleton]
      have hk : 1 ≤ k := by
        rcases k with _ | k
        · simp at hn; omega
        · omega
      have : n / 10 < 10 ^ k := by
        rw [Nat.div_lt_iff_lt_mul (by omega)]
        rw [Nat.pow_succ] at hn; exact hn
      have := ih fuel (n / 10) (by omega) this hk
      omega

/-- The formatted header line is `headerSizeFormatted` bytes long for every count that a
32-bit header can carry: this is the number `seekPosition` must subtract. -/
theorem fmtHeader_length (name tag : List Char) (n : Nat) (hn : name.length = 8) (ht : tag.length = 4)
    (hlt : n < 2147483648) :
    (fmtHeader name n tag).length = Gen.EclFile.headerSizeFormatted := by
  have hd : (decDigits 12 n).length ≤ 11 :=
    decDigits_length_le 11 12 n (by omega) (by omega) (by omega)
  simp only [fmtHeader, setw, List.length_append, List.length_cons, List.length_nil,
    List.length_replicate, hn, ht, Gen.EclFile.headerSizeFormatted]
  omega
