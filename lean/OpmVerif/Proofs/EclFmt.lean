/-
  Formatted layout: the size arithmetic used for seeking (sizeOnDiskFormatted) equals the number of
  characters writeFormattedArray / writeFormattedCharArray emit, for every type and every length.
-/
import OpmVerif.Proofs.Smry
import OpmVerif.Model.EclFmt
namespace OpmVerif.EclFmt
open OpmVerif.Ecl OpmVerif.Smry

def ceilDiv (a b : Nat) : Nat := a / b + (if a % b > 0 then 1 else 0)

/-- newline count of `fmtLoop` started at counter `n` with `k` fields to go -/
def nlCount (cols mb : Nat) : Nat → Nat → Nat
  | n, 0 => if n % cols ≠ 0 ∧ n % mb ≠ 0 then 1 else 0
  | n, k + 1 =>
    (if (n + 1) % cols = 0 ∨ (n + 1) % mb = 0 then 1 else 0) +
      nlCount cols mb (if (n + 1) % mb = 0 then 0 else n + 1) k

theorem length_fmtLoop (cols mb w : Nat) : ∀ (fs : List (List Char)) (n : Nat), (∀ f ∈ fs, f.length = w) →
    (fmtLoop cols mb n fs).length = fs.length * w + nlCount cols mb n fs.length := by
  intro fs
  induction fs with
  | nil => intro n _; simp only [fmtLoop, nlCount, List.length_nil, Nat.zero_mul, Nat.zero_add]; split <;> rfl
  | cons f fs ih =>
    intro n hw
    have hf : f.length = w := hw f (by simp)
    have := ih (if (n + 1) % mb = 0 then 0 else n + 1) (fun x hx => hw x (by simp [hx]))
    simp only [fmtLoop, nlCount, List.length_append, List.length_cons, hf, this]
    have hnl : (if (n + 1) % cols = 0 ∨ (n + 1) % mb = 0 then ['\n'] else ([] : List Char)).length =
        (if (n + 1) % cols = 0 ∨ (n + 1) % mb = 0 then 1 else 0) := by split <;> rfl
    rw [hnl, Nat.add_mul]; omega

/-- total newlines for `t` fields from a fresh start -/
def G (cols mb t : Nat) : Nat := (t / mb) * ceilDiv mb cols + ceilDiv (t % mb) cols

theorem succ_div_ite (n c : Nat) (hc : 0 < c) : (n + 1) / c = n / c + (if (n + 1) % c = 0 then 1 else 0) := by
  rw [Nat.succ_div]
  by_cases h : c ∣ n + 1
  · simp [h, Nat.mod_eq_zero_of_dvd h]
  · have : (n + 1) % c ≠ 0 := fun h0 => h (Nat.dvd_of_mod_eq_zero h0)
    simp [h, this]

theorem ceilDiv_succ (n c : Nat) (hc : 0 < c) :
    ceilDiv (n + 1) c = ceilDiv n c + (if n % c = 0 then 1 else 0) := by
  unfold ceilDiv
  have h1 := succ_div_ite n c hc
  have hm : (n + 1) % c = if n % c + 1 = c then 0 else n % c + 1 := by
    have hlt : n % c < c := Nat.mod_lt n hc
    rw [Nat.add_mod]
    by_cases h : n % c + 1 = c
    · simp only [h, if_true]
      by_cases hc1 : c = 1
      · subst hc1; simp [Nat.mod_one]
      · have : 1 % c = 1 := Nat.mod_eq_of_lt (by omega)
        rw [this, h]; simp
    · simp only [h, if_false]
      by_cases hc1 : c = 1
      · subst hc1; omega
      · have : 1 % c = 1 := Nat.mod_eq_of_lt (by omega)
        rw [this]; exact Nat.mod_eq_of_lt (by omega)
  rw [h1, hm]
  by_cases h : n % c + 1 = c
  · simp only [h, if_true]
    by_cases h0 : n % c = 0
    · simp [h0] <;> omega
    · simp [h0] <;> omega
  · simp only [h, if_false]
    by_cases h0 : n % c = 0
    · simp [h0]
    · simp [h0] <;> omega

theorem nlCount_closed (cols mb : Nat) (hc : 0 < cols) (hmb : 0 < mb) :
    ∀ (k n : Nat), n < mb → nlCount cols mb n k + n / cols = G cols mb (n + k) := by
  intro k
  induction k with
  | zero =>
    intro n hn
    simp only [nlCount, Nat.add_zero, G, Nat.div_eq_of_lt hn, Nat.zero_mul, Nat.zero_add, Nat.mod_eq_of_lt hn, ceilDiv]
    by_cases h : n % cols = 0
    · simp [h]
    · have hn0 : n ≠ 0 := by intro h0; subst h0; simp at h
      have : 0 < n % cols := Nat.pos_of_ne_zero h
      simp [h, hn0, this]; omega
  | succ k ih =>
    intro n hn
    simp only [nlCount]
    by_cases hfull : n + 1 = mb
    · -- block completed: reset
      have hm : (n + 1) % mb = 0 := by rw [hfull]; simp
      simp only [hm, or_true, if_true]
      have := ih 0 hmb
      simp only [Nat.zero_div, Nat.add_zero, Nat.zero_add] at this
      rw [this]
      -- G (n + (k+1)) = G (mb + k) = G k + ceilDiv mb cols
      have hsum : n + (k + 1) = mb + k := by omega
      rw [hsum]
      unfold G
      rw [Nat.add_div_left _ hmb, Nat.add_mod_left, Nat.succ_mul]
      -- ceilDiv mb cols = n / cols + 1
      have hcd : ceilDiv mb cols = n / cols + 1 := by
        rw [← hfull, ceilDiv_succ n cols hc]
        unfold ceilDiv
        by_cases h0 : n % cols = 0
        · simp [h0]
        · have : 0 < n % cols := Nat.pos_of_ne_zero h0
          simp [h0, this]
      rw [hcd]; omega
    · have hlt : n + 1 < mb := by omega
      have hm : (n + 1) % mb ≠ 0 := by rw [Nat.mod_eq_of_lt hlt]; omega
      simp only [hm, or_false, if_false]
      have := ih (n + 1) hlt
      have hdiv := succ_div_ite n cols hc
      have hsum : n + 1 + k = n + (k + 1) := by omega
      rw [hsum] at this
      omega

theorem sizeOnDiskFormatted_eq (t : ArrType) (hm : t ≠ .mess) (k : Nat) :
    sizeOnDiskFormatted k t = k * (fmtParams t).2.2 + G (fmtParams t).2.1 (fmtParams t).1 k := by
  rcases hp : fmtParams t with ⟨mb, cols, w⟩
  have hdef : sizeOnDiskFormatted k t =
      (if k / mb > 0 then k / mb * (mb * w + (mb / cols + (if mb % cols > 0 then 1 else 0))) else 0) +
        k % mb * w + k % mb / cols + (if k % mb % cols > 0 then 1 else 0) := by
    unfold sizeOnDiskFormatted
    cases t <;> first | exact absurd rfl hm | (simp only [hp])
  rw [hdef]
  simp only [G, ceilDiv]
  have hk := Nat.div_add_mod k mb
  have hkw : k * w = k / mb * (mb * w) + k % mb * w := by
    have : k * w = (mb * (k / mb) + k % mb) * w := by rw [hk]
    rw [this, Nat.add_mul, Nat.mul_assoc, Nat.mul_comm mb (k / mb * w), Nat.mul_assoc]
    congr 1
    rw [Nat.mul_comm w mb]
  by_cases h0 : k / mb > 0
  · rw [if_pos h0, Nat.mul_add]; omega
  · have : k / mb = 0 := Nat.eq_zero_of_not_pos h0
    rw [if_neg h0]
    simp only [this, Nat.zero_mul] at hkw ⊢
    omega

/-- Numeric formatted arrays (INTE, REAL, DOUB, LOGI): the size arithmetic used for seeking equals
the number of characters the writer emits, for every length. -/
theorem numericBody_length (t : ArrType) (hm : t ≠ .mess) (hc : 0 < (fmtParams t).2.1) (hmb : 0 < (fmtParams t).1)
    (fs : List (List Char)) (hw : ∀ f ∈ fs, f.length = (fmtParams t).2.2) :
    (numericBody t fs).length = sizeOnDiskFormatted fs.length t := by
  rw [sizeOnDiskFormatted_eq t hm]
  unfold numericBody
  rcases hp : fmtParams t with ⟨mb, cols, w⟩
  simp only [hp] at hc hmb hw ⊢
  rw [length_fmtLoop cols mb w fs 0 hw]
  have := nlCount_closed cols mb hc hmb fs.length 0 hmb
  simp only [Nat.zero_div, Nat.add_zero, Nat.zero_add] at this
  rw [this]

theorem length_charBlock (cols w : Nat) (hc : 0 < cols) : ∀ (fs : List (List Char)) (i : Nat),
    (∀ f ∈ fs, f.length = w) →
    (charBlock cols i fs).length + i / cols = fs.length * w + ceilDiv (i + fs.length) cols := by
  intro fs
  induction fs with
  | nil =>
    intro i _
    simp only [charBlock, List.length_nil, Nat.zero_mul, Nat.zero_add, Nat.add_zero, ceilDiv]
    by_cases h : i % cols = 0
    · simp [h]
    · have : 0 < i % cols := Nat.pos_of_ne_zero h
      simp [h, this]; omega
  | cons f fs ih =>
    intro i hw
    have hf : f.length = w := hw f (by simp)
    have := ih (i + 1) (fun x hx => hw x (by simp [hx]))
    have hdiv := succ_div_ite i cols hc
    simp only [charBlock, List.length_append, List.length_cons, hf]
    have hnl : (if (i + 1) % cols = 0 then ['\n'] else ([] : List Char)).length =
        (if (i + 1) % cols = 0 then 1 else 0) := by split <;> rfl
    rw [hnl, Nat.add_mul]
    have hs : i + 1 + fs.length = i + (fs.length + 1) := by omega
    rw [hs] at this
    omega

theorem length_charBody (mb cols w : Nat) (hc : 0 < cols) (hmb : 0 < mb) :
    ∀ (fuel : Nat) (fs : List (List Char)), (∀ f ∈ fs, f.length = w) → fs.length < fuel →
      (charBody mb cols fuel fs).length = fs.length * w + G cols mb fs.length := by
  intro fuel
  induction fuel with
  | zero => intro fs _ h; omega
  | succ fuel ih =>
    intro fs hw hf
    unfold charBody
    by_cases hnil : fs = []
    · subst hnil; simp [G, ceilDiv]
    · simp only [hnil, if_false, List.length_append]
      have hlen : 0 < fs.length := by cases fs with | nil => exact absurd rfl hnil | cons a b => simp
      have htw : ∀ f ∈ fs.take mb, f.length = w := fun f hf' => hw f (List.mem_of_mem_take hf')
      have hdw : ∀ f ∈ fs.drop mb, f.length = w := fun f hf' => hw f (List.mem_of_mem_drop hf')
      have hb := length_charBlock cols w hc (fs.take mb) 0 htw
      simp only [Nat.zero_div, Nat.add_zero, Nat.zero_add] at hb
      rw [hb, ih (fs.drop mb) hdw (by simp; omega)]
      simp only [List.length_take, List.length_drop]
      by_cases hge : mb ≤ fs.length
      · rw [Nat.min_eq_left hge]
        have h1 : fs.length / mb = (fs.length - mb) / mb + 1 := Nat.div_eq_sub_div hmb hge
        have h2 : fs.length % mb = (fs.length - mb) % mb := Nat.mod_eq_sub_mod hge
        unfold G
        rw [h1, h2, Nat.add_mul, Nat.one_mul]
        have : fs.length * w = mb * w + (fs.length - mb) * w := by rw [← Nat.add_mul]; congr 1; omega
        omega
      · have hlt : fs.length < mb := by omega
        rw [Nat.min_eq_right (by omega)]
        have : fs.length - mb = 0 := by omega
        simp only [this, Nat.zero_mul, G, Nat.zero_div, Nat.zero_mod, ceilDiv, Nat.div_eq_of_lt hlt,
          Nat.mod_eq_of_lt hlt, Nat.lt_irrefl, if_false, Nat.add_zero, Nat.zero_add]

/-- String formatted arrays (CHAR, C0nn): the same for `writeFormattedCharArray`. -/
theorem stringBody_length (t : ArrType) (hm : t ≠ .mess) (hc : 0 < (fmtParams t).2.1) (hmb : 0 < (fmtParams t).1)
    (fs : List (List Char)) (hw : ∀ f ∈ fs, f.length = (fmtParams t).2.2) :
    (stringBody t fs).length = sizeOnDiskFormatted fs.length t := by
  rw [sizeOnDiskFormatted_eq t hm]
  unfold stringBody
  rcases hp : fmtParams t with ⟨mb, cols, w⟩
  simp only [hp] at hc hmb hw ⊢
  exact length_charBody mb cols w hc hmb _ fs hw (by omega)

theorem fmtParams_pos (t : ArrType) (hm : t ≠ .mess) : 0 < (fmtParams t).2.1 ∧ 0 < (fmtParams t).1 := by
  cases t <;> first | exact absurd rfl hm | (simp [fmtParams, Gen.EclIO.MaxNumBlockInte, Gen.EclIO.numColumnsInte,
    Gen.EclIO.MaxNumBlockReal, Gen.EclIO.numColumnsReal, Gen.EclIO.MaxNumBlockDoub, Gen.EclIO.numColumnsDoub,
    Gen.EclIO.MaxNumBlockLogi, Gen.EclIO.numColumnsLogi, Gen.EclIO.MaxNumBlockChar, Gen.EclIO.numColumnsChar]) <;> omega

end OpmVerif.EclFmt
