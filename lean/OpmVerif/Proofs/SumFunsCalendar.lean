/-
  Calendar vectors (DAY, MONTH, YEAR): the date function of the model, `civilFromDays`, is a
  right inverse of the day count `daysFromCivil` of the proleptic Gregorian calendar, and always
  returns a valid date — for every day number (no finite check of an era: linear integer
  arithmetic after a split over the 400 years of an era).
-/
import OpmVerif.Model.SumFuns
import Mathlib.Tactic.IntervalCases

namespace OpmVerif.SumFuns.Calendar
open OpmVerif.SumFuns

theorem yoe_bounds (doe : Int) (h0 : 0 ≤ doe) (h1 : doe ≤ 146096) :
    0 ≤ (doe - doe / 1460 + doe / 36524 - doe / 146096) / 365 ∧
    (doe - doe / 1460 + doe / 36524 - doe / 146096) / 365 ≤ 399 := by
  omega

set_option maxHeartbeats 8000000 in
/-- the day of the (March-based) year is in range, and day 365 exists only before a leap February -/
theorem doy_bounds (doe yoe : Int) (h0 : 0 ≤ doe) (h1 : doe ≤ 146096)
    (hy : yoe = (doe - doe / 1460 + doe / 36524 - doe / 146096) / 365) :
    0 ≤ doe - (365 * yoe + yoe / 4 - yoe / 100) ∧
    doe - (365 * yoe + yoe / 4 - yoe / 100) ≤ 365 ∧
    (doe - (365 * yoe + yoe / 4 - yoe / 100) = 365 →
      (yoe + 1) % 4 = 0 ∧ ((yoe + 1) % 100 ≠ 0 ∨ (yoe + 1) % 400 = 0)) := by
  have hb := yoe_bounds doe h0 h1
  rw [← hy] at hb
  obtain ⟨hb0, hb1⟩ := hb
  interval_cases yoe <;> omega

/-- Gregorian leap year -/
def isLeap (y : Int) : Bool := y % 4 == 0 && (y % 100 != 0 || y % 400 == 0)

/-- days of month `m` in year `y` -/
def daysInMonth (y m : Int) : Int :=
  if m = 2 then (if isLeap y then 29 else 28)
  else if m = 4 ∨ m = 6 ∨ m = 9 ∨ m = 11 then 30 else 31

/-- a valid civil date -/
def Valid (y m d : Int) : Prop := 1 ≤ m ∧ m ≤ 12 ∧ 1 ≤ d ∧ d ≤ daysInMonth y m

/-- the components of `civilFromDays z` in terms of the era decomposition -/
theorem civil_spec (z : Int) :
    ∃ era doe yoe doy mp : Int,
      z + 719468 = era * 146097 + doe ∧ 0 ≤ doe ∧ doe ≤ 146096 ∧
      yoe = (doe - doe / 1460 + doe / 36524 - doe / 146096) / 365 ∧
      doy = doe - (365 * yoe + yoe / 4 - yoe / 100) ∧ mp = (5 * doy + 2) / 153 ∧
      civilFromDays z =
        (if (if mp < 10 then mp + 3 else mp - 9) ≤ 2 then yoe + era * 400 + 1 else yoe + era * 400,
         if mp < 10 then mp + 3 else mp - 9, doy - (153 * mp + 2) / 5 + 1) := by
  refine ⟨(z + 719468) / 146097, (z + 719468) - (z + 719468) / 146097 * 146097, _, _, _, ?_, ?_, ?_, rfl, rfl, rfl, ?_⟩
  · omega
  · omega
  · omega
  · rfl

/-- the day count of a date given by era, year of era and March-based month -/
theorem days_of_parts (era yoe mp d : Int) (hy0 : 0 ≤ yoe) (hy1 : yoe ≤ 399) (hm0 : 0 ≤ mp) (hm1 : mp ≤ 11) :
    daysFromCivil (if (if mp < 10 then mp + 3 else mp - 9) ≤ 2 then yoe + era * 400 + 1 else yoe + era * 400)
        (if mp < 10 then mp + 3 else mp - 9) d =
      era * 146097 + (yoe * 365 + yoe / 4 - yoe / 100 + ((153 * mp + 2) / 5 + d - 1)) - 719468 := by
  simp only [daysFromCivil]
  by_cases hlt : mp < 10
  · have hm2 : ¬ (mp + 3 ≤ 2) := by omega
    have hgt : mp + 3 > 2 := by omega
    simp only [if_pos hlt, if_neg hm2, if_pos hgt]
    have e1 : (yoe + era * 400) / 400 = era := by omega
    have e2 : mp + 3 - 3 = mp := by omega
    rw [e1, e2]
    have e3 : yoe + era * 400 - era * 400 = yoe := by omega
    rw [e3]
  · have hm2 : mp - 9 ≤ 2 := by omega
    have hgt : ¬ (mp - 9 > 2) := by omega
    simp only [if_neg hlt, if_pos hm2, if_neg hgt]
    have e0 : yoe + era * 400 + 1 - 1 = yoe + era * 400 := by omega
    have e1 : (yoe + era * 400) / 400 = era := by omega
    have e2 : mp - 9 + 9 = mp := by omega
    rw [e0, e1, e2]
    have e3 : yoe + era * 400 - era * 400 = yoe := by omega
    rw [e3]

/-- **round trip**: the day count of the date the model computes for day number `z` is `z`. -/
theorem civil_roundtrip (z : Int) :
    daysFromCivil (civilFromDays z).1 (civilFromDays z).2.1 (civilFromDays z).2.2 = z := by
  obtain ⟨era, doe, yoe, doy, mp, hz, h0, h1, hy, hdoy, hmp, hc⟩ := civil_spec z
  obtain ⟨hd0, hd1, _⟩ := doy_bounds doe yoe h0 h1 hy
  obtain ⟨hy0, hy1⟩ := yoe_bounds doe h0 h1
  rw [← hy] at hy0 hy1
  rw [← hdoy] at hd0 hd1
  have hmp0 : 0 ≤ mp := by omega
  have hmp1 : mp ≤ 11 := by omega
  rw [hc]
  show daysFromCivil _ _ (doy - (153 * mp + 2) / 5 + 1) = z
  rw [days_of_parts era yoe mp _ hy0 hy1 hmp0 hmp1]
  omega

/-- the date the model computes is a valid date (month 1…12, day 1…length of that month, with
the Gregorian leap rule) — for every day number -/
theorem civil_valid (z : Int) :
    Valid (civilFromDays z).1 (civilFromDays z).2.1 (civilFromDays z).2.2 := by
  obtain ⟨era, doe, yoe, doy, mp, hz, h0, h1, hy, hdoy, hmp, hc⟩ := civil_spec z
  obtain ⟨hd0, hd1, hleap⟩ := doy_bounds doe yoe h0 h1 hy
  obtain ⟨hy0, hy1⟩ := yoe_bounds doe h0 h1
  rw [← hy] at hy0 hy1
  rw [← hdoy] at hd0 hd1 hleap
  rw [hc]
  have hmp0 : 0 ≤ mp := by omega
  have hmp1 : mp ≤ 11 := by omega
  unfold Valid daysInMonth isLeap
  by_cases hlt : mp < 10
  · have hm2 : ¬ (mp + 3 ≤ 2) := by omega
    simp only [if_pos hlt, if_neg hm2]
    have hne : ¬ (mp + 3 = 2) := by omega
    simp only [if_neg hne]
    refine ⟨by omega, by omega, by omega, ?_⟩
    interval_cases mp <;> simp <;> omega
  · simp only [if_neg hlt]
    have hm2 : mp - 9 ≤ 2 := by omega
    simp only [if_pos hm2]
    refine ⟨by omega, by omega, by omega, ?_⟩
    have hcases : mp = 10 ∨ mp = 11 := by omega
    rcases hcases with h10 | h11
    · subst h10; simp; omega
    · subst h11
      simp only [show (11 : Int) - 9 = 2 from rfl, if_true]
      by_cases h365 : doy = 365
      · obtain ⟨l4, l100⟩ := hleap h365
        have e4 : (yoe + era * 400 + 1) % 4 = 0 := by omega
        have e100 : (yoe + era * 400 + 1) % 100 ≠ 0 ∨ (yoe + era * 400 + 1) % 400 = 0 := by omega
        have : ((yoe + era * 400 + 1) % 4 == 0 && ((yoe + era * 400 + 1) % 100 != 0 || (yoe + era * 400 + 1) % 400 == 0)) = true := by
          rcases e100 with e | e <;> simp [e4, e]
        simp only [this, if_true]; omega
      · split <;> omega

/-- 1970-01-01 is day 0; one era (400 years) is 146 097 days -/
theorem epoch : civilFromDays 0 = (1970, 1, 1) ∧ daysFromCivil 1970 1 1 = 0 ∧
    daysFromCivil 2370 1 1 = 146097 := by decide

end OpmVerif.SumFuns.Calendar
