/-
  The rewrite rules of C01 on the text of one record generate a relation `Relayout`;
  every derivation — i.e. every composition of rewrites, in any order, any number of
  times, forwards or backwards — leaves the parsed record unchanged.
-/
import OpmVerif.Proofs.Tok
import OpmVerif.Proofs.Scan

namespace OpmVerif.Tok
open OpmVerif.Lex

/-- a bare word between two separator runs, outside quotes, is one token of the record. -/
theorem tokenize_word_between (a s1 t s2 rest : Bytes)
    (hout : OutsideP a) (hs1 : s1 ≠ []) (hsep1 : ∀ x ∈ s1, isSep x = true)
    (hs2 : s2 ≠ []) (hsep2 : ∀ x ∈ s2, isSep x = true) (ht : BareWord t) :
    tokenize (a ++ s1 ++ (t ++ s2 ++ rest)) = tokP .gap a ++ t :: tokenize rest := by
  unfold tokenize
  rw [tok_append_sep s1 _ hs1 hsep1 a .gap hout]
  congr 1
  have hss : SepStart (s2 ++ rest) := by
    cases s2 with
    | nil => exact absurd rfl hs2
    | cons c r => exact Or.inr ⟨c, r ++ rest, rfl, hsep2 c (by simp)⟩
  rw [List.append_assoc, tok_bare_word t _ ht hss]
  congr 1
  exact tokenize_sep_prefix s2 rest hsep2

/-- tokens joined by single blanks. -/
def joinBlank : List Bytes → Bytes
  | [] => []
  | [t] => t
  | t :: ts => t ++ 32 :: joinBlank ts

theorem tok_joinBlank : ∀ (ex : List Bytes) (rest : Bytes), (∀ t ∈ ex, Atomic t) →
    SepStart rest → ex ≠ [] → tok .gap (joinBlank ex ++ rest) = ex ++ tok .gap rest := by
  intro ex
  induction ex with
  | nil => intro _ _ _ h; exact absurd rfl h
  | cons t ts ih =>
    intro rest hb hr _
    cases ts with
    | nil =>
      simp only [joinBlank, List.singleton_append]
      exact tok_atomic t rest (hb t (by simp)) hr
    | cons u us =>
      have e : joinBlank (t :: u :: us) ++ rest = t ++ (32 :: (joinBlank (u :: us) ++ rest)) := by
        simp [joinBlank]
      rw [e, tok_atomic t _ (hb t (by simp)) (Or.inr ⟨32, _, rfl, by decide⟩)]
      have h32 : tok .gap (32 :: (joinBlank (u :: us) ++ rest)) = tok .gap (joinBlank (u :: us) ++ rest) := by
        have := tokenize_sep_prefix [32] (joinBlank (u :: us) ++ rest) (by decide)
        simpa [tokenize] using this
      rw [h32, ih rest (fun x hx => hb x (by simp [hx])) hr (by simp)]
      rfl

end OpmVerif.Tok

namespace OpmVerif.Scan
open OpmVerif.Lex OpmVerif.Tok

/-- **`Relayout`**: the closure of the C01 rewrite rules on the text of one record
(schema `items`).  `sep`: any separator run outside quotes may be replaced by any other
(blank ↔ tabs ↔ commas ↔ line breaks); `star`: a repeat token standing between separators
may be written out (`n*v ↦ v … v`, `n* ↦ 1* … 1*`); `starq`: the same for a quoted value,
blanks inside allowed (`n*'A B' ↦ 'A B' … 'A B'`); `trail`: `1*` may be appended for SINGLE
items the record does not reach; and back (`symm`), and composed (`trans`). -/
inductive Relayout (items : List Item) : Bytes → Bytes → Prop where
  | refl (x : Bytes) : Relayout items x x
  | symm {x y : Bytes} : Relayout items x y → Relayout items y x
  | trans {x y z : Bytes} : Relayout items x y → Relayout items y z → Relayout items x z
  | sep (a s s' rest : Bytes) : s ≠ [] → s' ≠ [] → (∀ c ∈ s, isSep c = true) → (∀ c ∈ s', isSep c = true) →
      OutsideP a → Relayout items (a ++ s ++ rest) (a ++ s' ++ rest)
  | star (a s1 t s2 rest : Bytes) (ex : List Bytes) : OutsideP a →
      s1 ≠ [] → (∀ c ∈ s1, isSep c = true) → s2 ≠ [] → (∀ c ∈ s2, isSep c = true) →
      BareWord t → StarExp t ex → (∀ e ∈ ex, BareWord e) →
      Relayout items (a ++ s1 ++ (t ++ s2 ++ rest)) (a ++ s1 ++ (joinBlank ex ++ s2 ++ rest))
  | starq (a s1 ds body s2 rest : Bytes) (n : Nat) : OutsideP a →
      s1 ≠ [] → (∀ c ∈ s1, isSep c = true) → s2 ≠ [] → (∀ c ∈ s2, isSep c = true) →
      ds ≠ [] → (∀ d ∈ ds, isDigit d = true) → (∀ c ∈ body, c ≠ 39) →
      StarExp (ds ++ 42 :: 39 :: body ++ [39]) (List.replicate n (39 :: body ++ [39])) →
      Relayout items (a ++ s1 ++ ((ds ++ 42 :: 39 :: body ++ [39]) ++ s2 ++ rest))
        (a ++ s1 ++ (joinBlank (List.replicate n (39 :: body ++ [39])) ++ s2 ++ rest))
  | trail (x : Bytes) (k : Nat) : OutsideP x →
      (∀ t ∈ tokenize x, Simple t) → totalWeight (tokenize x) + k ≤ singlePrefix items →
      Relayout items x (x ++ 32 :: joinBlank (List.replicate k oneStar))

theorem evenQuotes_congr_sep (a s s' rest : Bytes) (hsep : ∀ c ∈ s, isSep c = true) (hsep' : ∀ c ∈ s', isSep c = true) :
    evenQuotes (a ++ s ++ rest) = evenQuotes (a ++ s' ++ rest) := by
  have f : ∀ (u : Bytes), (∀ c ∈ u, isSep c = true) → u.filter (· == 39) = [] := by
    intro u hu
    rw [List.filter_eq_nil_iff]
    intro c hc h
    have e : c = 39 := by simpa using h
    subst e
    have := hu 39 hc
    revert this; decide
  unfold evenQuotes
  simp only [List.filter_append, f s hsep, f s' hsep', List.append_nil]

theorem filter39_nil (u : Bytes) (h : ∀ c ∈ u, c ≠ 39) : u.filter (· == 39) = [] := by
  rw [List.filter_eq_nil_iff]
  intro c hc hh
  exact h c hc (by simpa using hh)

/-- number of `'` in a text. -/
def nq (u : Bytes) : Nat := (u.filter (· == 39)).length

theorem nq_append (a b : Bytes) : nq (a ++ b) = nq a + nq b := by simp [nq]

theorem nq_joinBlank_replicate (t : Bytes) : ∀ (n : Nat), nq (joinBlank (List.replicate n t)) = n * nq t := by
  intro n
  induction n with
  | zero => simp [joinBlank, nq]
  | succ n ih =>
    cases n with
    | zero => simp [joinBlank]
    | succ m =>
      have e : joinBlank (List.replicate (m + 1 + 1) t) = t ++ 32 :: joinBlank (List.replicate (m + 1) t) := by
        simp [List.replicate_succ, joinBlank]
      rw [e, nq_append]
      have h32 : nq (32 :: joinBlank (List.replicate (m + 1) t)) = nq (joinBlank (List.replicate (m + 1) t)) := by
        simp [nq, List.filter_cons]
      rw [h32, ih, Nat.succ_mul (m + 1) (nq t)]
      omega

theorem nq_quoted (body : Bytes) (hb : ∀ c ∈ body, c ≠ 39) : nq (39 :: body ++ [39]) = 2 := by
  simp [nq, List.filter_cons, List.filter_append, filter39_nil body hb]

theorem joinBlank_no_quote : ∀ (ex : List Bytes), (∀ e ∈ ex, ∀ c ∈ e, c ≠ 39) → ∀ c ∈ joinBlank ex, c ≠ 39 := by
  intro ex
  induction ex with
  | nil => intro _ c hc; cases hc
  | cons t ts ih =>
    intro h c hc
    cases ts with
    | nil => exact h t (by simp) c (by simpa [joinBlank] using hc)
    | cons u us =>
      simp only [joinBlank, List.mem_append, List.mem_cons] at hc
      rcases hc with hc | rfl | hc
      · exact h t (by simp) c hc
      · decide
      · exact ih (fun e he => h e (by simp [he])) c hc

theorem bareWord_oneStar : BareWord oneStar := by
  refine ⟨by decide, by decide, by decide⟩

theorem tokenize_joinBlank_replicate (k : Nat) :
    tok .gap (joinBlank (List.replicate k oneStar)) = List.replicate k oneStar := by
  cases k with
  | zero => rfl
  | succ k =>
    have := tok_joinBlank (List.replicate (k + 1) oneStar) [] (by
      intro t ht; rw [(List.mem_replicate.mp ht).2]; exact Or.inl bareWord_oneStar) (Or.inl rfl) (by simp)
    simpa [tok] using this

theorem sepStart_append (s rest : Bytes) (hs : s ≠ []) (hsep : ∀ c ∈ s, isSep c = true) : SepStart (s ++ rest) := by
  cases s with
  | nil => exact absurd rfl hs
  | cons c r => exact Or.inr ⟨c, r ++ rest, rfl, hsep c (by simp)⟩

/-- **`relayout_compose`** — every derivation of `Relayout`, i.e. every composition of
separator / line-break changes, star expansions and contractions (of bare and of quoted
values), and trailing-default changes, gives a text that parses to the same record: the
same items, values and default flags, or the same error. -/
theorem relayout_compose (cv : Conv) (items : List Item) (hraw : ∀ it ∈ items, it.raw = false)
    {x y : Bytes} (h : Relayout items x y) :
    parseRecord cv items x = parseRecord cv items y := by
  induction h with
  | refl x => rfl
  | symm _ ih => exact ih.symm
  | trans _ _ ih1 ih2 => exact ih1.trans ih2
  | sep a s s' rest hs hs' hsep hsep' hout =>
    unfold parseRecord rawRecord
    rw [evenQuotes_congr_sep a s s' rest hsep hsep', split_sep_congr a s s' rest hs hs' hsep hsep' hout]
  | star a s1 t s2 rest ex hout hs1 hsep1 hs2 hsep2 ht hexp hexb =>
    unfold parseRecord rawRecord
    have he : evenQuotes (a ++ s1 ++ (t ++ s2 ++ rest)) = evenQuotes (a ++ s1 ++ (joinBlank ex ++ s2 ++ rest)) := by
      unfold evenQuotes
      simp only [List.filter_append, filter39_nil t ht.2.2,
        filter39_nil _ (joinBlank_no_quote ex (fun e he => (hexb e he).2.2))]
    have hL := tokenize_word_between a s1 t s2 rest hout hs1 hsep1 hs2 hsep2 ht
    have hR : tokenize (a ++ s1 ++ (joinBlank ex ++ s2 ++ rest)) = tokP .gap a ++ ex ++ tokenize rest := by
      unfold tokenize
      rw [tok_append_sep s1 _ hs1 hsep1 a .gap hout, List.append_assoc (joinBlank ex)]
      rw [tok_joinBlank ex _ (fun e he => Or.inl (hexb e he)) (sepStart_append s2 rest hs2 hsep2) (starExp_ne_nil hexp)]
      have := tokenize_sep_prefix s2 rest hsep2
      unfold tokenize at this
      rw [this, List.append_assoc]
    rw [he, hL, hR]
    by_cases hev : evenQuotes (a ++ s1 ++ (joinBlank ex ++ s2 ++ rest)) = true
    · simp only [hev, ↓reduceIte]
      exact parseItems_starExp cv t ex hexp (tokenize rest) items hraw (tokP .gap a)
    · simp only [hev, Bool.false_eq_true, ↓reduceIte]
  | starq a s1 ds body s2 rest n hout hs1 hsep1 hs2 hsep2 hdne hd hb hexp =>
    unfold parseRecord rawRecord
    have hn := starExp_ne_nil hexp
    have he : evenQuotes (a ++ s1 ++ ((ds ++ 42 :: 39 :: body ++ [39]) ++ s2 ++ rest)) =
        evenQuotes (a ++ s1 ++ (joinBlank (List.replicate n (39 :: body ++ [39])) ++ s2 ++ rest)) := by
      have hds : nq ds = 0 := by
        have : ds.filter (· == 39) = [] := filter39_nil ds (fun c hc => (isDigit_props c (hd c hc)).2.1)
        simp [nq, this]
      have ht : nq (ds ++ 42 :: 39 :: body ++ [39]) = 2 := by
        have e : ds ++ 42 :: 39 :: body ++ [39] = ds ++ ([42] ++ (39 :: body ++ [39])) := by simp
        rw [e, nq_append, nq_append, hds, nq_quoted body hb]; simp [nq]
      have hx := nq_joinBlank_replicate (39 :: body ++ [39]) n
      rw [nq_quoted body hb] at hx
      show ((nq _ % 2) == 0) = ((nq _ % 2) == 0)
      simp only [nq_append, ht, hx]
      congr 1
      omega
    have hss := sepStart_append s2 rest hs2 hsep2
    have hL : tokenize (a ++ s1 ++ ((ds ++ 42 :: 39 :: body ++ [39]) ++ s2 ++ rest)) =
        tokP .gap a ++ (ds ++ 42 :: 39 :: body ++ [39]) :: tokenize rest := by
      unfold tokenize
      rw [tok_append_sep s1 _ hs1 hsep1 a .gap hout]
      congr 1
      have e : (ds ++ 42 :: 39 :: body ++ [39]) ++ s2 ++ rest = ds ++ 42 :: 39 :: body ++ 39 :: (s2 ++ rest) := by simp
      rw [e, tok_star_quoted ds body (s2 ++ rest) hdne hd hb hss]
      congr 1
      exact tokenize_sep_prefix s2 rest hsep2
    have hR : tokenize (a ++ s1 ++ (joinBlank (List.replicate n (39 :: body ++ [39])) ++ s2 ++ rest)) =
        tokP .gap a ++ List.replicate n (39 :: body ++ [39]) ++ tokenize rest := by
      unfold tokenize
      rw [tok_append_sep s1 _ hs1 hsep1 a .gap hout, List.append_assoc (joinBlank _)]
      rw [tok_joinBlank _ _ (by
        intro e he; rw [(List.mem_replicate.mp he).2]; exact Or.inr ⟨body, rfl, hb⟩) hss hn]
      have := tokenize_sep_prefix s2 rest hsep2
      unfold tokenize at this
      rw [this, List.append_assoc]
    rw [he, hL, hR]
    by_cases hev : evenQuotes (a ++ s1 ++ (joinBlank (List.replicate n (39 :: body ++ [39])) ++ s2 ++ rest)) = true
    · simp only [hev, ↓reduceIte]
      exact parseItems_starExp cv _ _ hexp (tokenize rest) items hraw (tokP .gap a)
    · simp only [hev, Bool.false_eq_true, ↓reduceIte]
  | trail x k hout hsimple hw =>
    unfold parseRecord rawRecord
    have he : evenQuotes (x ++ 32 :: joinBlank (List.replicate k oneStar)) = evenQuotes x := by
      unfold evenQuotes
      have : (32 :: joinBlank (List.replicate k oneStar)).filter (· == 39) = [] := by
        apply filter39_nil
        intro c hc
        rcases List.mem_cons.mp hc with rfl | hc
        · decide
        · exact joinBlank_no_quote _ (by
            intro e he c hc
            rw [(List.mem_replicate.mp he).2] at hc
            revert hc; revert c; decide) c hc
      simp only [List.filter_append, this, List.append_nil]
    have ht : tokenize (x ++ 32 :: joinBlank (List.replicate k oneStar)) =
        tokenize x ++ List.replicate k oneStar := by
      rw [tokenize_eq_tokP x hout]
      unfold tokenize
      have := tok_append_sep [32] (joinBlank (List.replicate k oneStar)) (by simp) (by decide) x .gap hout
      simp only [List.append_assoc, List.singleton_append] at this
      rw [this, tokenize_joinBlank_replicate]
    rw [he, ht]
    by_cases hev : evenQuotes x = true
    · simp only [hev, ↓reduceIte]
      exact (parseItems_trailing_default cv items hraw _ k hsimple hw).symm
    · simp only [hev, Bool.false_eq_true, ↓reduceIte]

end OpmVerif.Scan
