/-
  The rewrite rules of C01 on the text of one record generate a relation `Relayout`;
  every derivation — i.e. every composition of rewrites, in any order, any number of
  times, forwards or backwards — leaves the parsed record unchanged.
-/
import OpmVerif.Proofs.Tok
import OpmVerif.Proofs.Scan
import OpmVerif.Proofs.LexSafe

namespace OpmVerif.Tok
open OpmVerif.Lex

theorem tok_some_ne_nil (next : UInt8) : ∀ (l : Bytes) (q : Bool), tok next (some q) l ≠ [] := by
  intro l
  induction l with
  | nil => intro q; cases q <;> simp [tok]
  | cons c r ih =>
    intro q
    rw [tok_cons]
    cases q with
    | false =>
      by_cases hc : isSep c = true
      · simp [emit, hc]
      · simp only [emit, hc, Bool.false_eq_true, ↓reduceIte, tokStep]
        have := ih false
        cases h : tok next (some false) r with
        | nil => exact absurd h this
        | cons _ _ => simp [consHead]
    | true =>
      by_cases hc : c = 39
      · simp [emit, hc, consHead]
      · simp only [emit, hc, ↓reduceIte, tokStep]
        have := ih true
        cases h : tok next (some true) r with
        | nil => exact absurd h this
        | cons _ _ => simp [consHead]

theorem consHead_append (c : UInt8) (X Y : List Bytes) (h : X ≠ []) : consHead c (X ++ Y) = consHead c X ++ Y := by
  cases X with
  | nil => exact absurd rfl h
  | cons x xs => rfl

/-- a separator run outside quotes splits the token list. -/
theorem tok_append_sep (next : UInt8) (s rest : Bytes) (hs : s ≠ []) (hsep : ∀ x ∈ s, isSep x = true) :
    ∀ (a : Bytes) (st : TState), tokState st a ≠ some true →
      tok next st (a ++ s ++ rest) = tok next st a ++ tok next none rest := by
  intro a
  induction a with
  | nil =>
    intro st h
    have hst : st ≠ some true := by simpa [tokState] using h
    rw [List.nil_append, tok_sep_run next rest s st hs hsep hst]
    cases st with
    | none => rfl
    | some q => cases q with
      | false => rfl
      | true => exact absurd rfl hst
  | cons c a ih =>
    intro st h
    have h' : tokState (tokStep st c) a ≠ some true := by simpa [tokState] using h
    rw [List.cons_append, List.cons_append, tok_cons, tok_cons, ih _ h']
    cases st with
    | none =>
      by_cases hc : isSep c = true
      · simp [emit, hc]
      · have hne : tok next (tokStep none c) a ≠ [] := by
          simp only [tokStep, hc, Bool.false_eq_true, ↓reduceIte]
          split <;> exact tok_some_ne_nil next a _
        simp only [emit, hc, Bool.false_eq_true, ↓reduceIte]
        exact consHead_append c _ _ hne
    | some q =>
      cases q with
      | false =>
        by_cases hc : isSep c = true
        · simp [emit, hc]
        · have hne : tok next (tokStep (some false) c) a ≠ [] := by
            simp only [tokStep, hc, Bool.false_eq_true, ↓reduceIte]
            exact tok_some_ne_nil next a _
          simp only [emit, hc, Bool.false_eq_true, ↓reduceIte]
          exact consHead_append c _ _ hne
      | true =>
        by_cases hc : c = 39
        · simp [emit, hc, consHead]
        · have hne : tok next (tokStep (some true) c) a ≠ [] := by
            simp only [tokStep, hc, ↓reduceIte]
            exact tok_some_ne_nil next a _
          simp only [emit, hc, ↓reduceIte]
          exact consHead_append c _ _ hne

/-- a bare word between two separator runs, outside quotes, is one token of the record. -/
theorem tokenize_word_between (next : UInt8) (a s1 t s2 rest : Bytes)
    (hout : tokState none a ≠ some true) (hs1 : s1 ≠ []) (hsep1 : ∀ x ∈ s1, isSep x = true)
    (hs2 : s2 ≠ []) (hsep2 : ∀ x ∈ s2, isSep x = true) (ht : BareWord t) :
    tokenize (a ++ s1 ++ (t ++ s2 ++ rest)) next =
      tokenize a next ++ t :: tokenize rest next := by
  unfold tokenize
  rw [tok_append_sep next s1 _ hs1 hsep1 a none hout]
  congr 1
  have hss : SepStart (s2 ++ rest) := by
    cases s2 with
    | nil => exact absurd rfl hs2
    | cons c r => exact Or.inr ⟨c, r ++ rest, rfl, hsep2 c (by simp)⟩
  rw [List.append_assoc, tok_bare_word next t _ ht hss]
  congr 1
  exact tokenize_sep_prefix s2 rest next hsep2

/-- tokens joined by single blanks. -/
def joinBlank : List Bytes → Bytes
  | [] => []
  | [t] => t
  | t :: ts => t ++ 32 :: joinBlank ts

theorem tok_joinBlank (next : UInt8) : ∀ (ex : List Bytes) (rest : Bytes), (∀ t ∈ ex, BareWord t) →
    SepStart rest → ex ≠ [] → tok next none (joinBlank ex ++ rest) = ex ++ tok next none rest := by
  intro ex
  induction ex with
  | nil => intro _ _ _ h; exact absurd rfl h
  | cons t ts ih =>
    intro rest hb hr _
    cases ts with
    | nil =>
      simp only [joinBlank, List.singleton_append]
      exact tok_bare_word next t rest (hb t (by simp)) hr
    | cons u us =>
      have e : joinBlank (t :: u :: us) ++ rest = t ++ (32 :: (joinBlank (u :: us) ++ rest)) := by
        simp [joinBlank]
      rw [e, tok_bare_word next t _ (hb t (by simp)) (Or.inr ⟨32, _, rfl, by decide⟩)]
      have h32 : tok next none (32 :: (joinBlank (u :: us) ++ rest)) = tok next none (joinBlank (u :: us) ++ rest) := by
        have := tokenize_sep_prefix [32] (joinBlank (u :: us) ++ rest) next (by decide)
        simpa [tokenize] using this
      rw [h32, ih rest (fun x hx => hb x (by simp [hx])) hr (by simp)]
      rfl

end OpmVerif.Tok

namespace OpmVerif.Scan
open OpmVerif.Lex OpmVerif.Tok

/-- **`Relayout`**: the closure of the C01 rewrite rules on the text of one record
(schema `items`).  `sep`: any separator run outside quotes may be replaced by any other
(blank ↔ tabs ↔ commas ↔ line breaks); `star`: a repeat token standing between separators
may be written out (`n*v ↦ v … v`, `n* ↦ 1* … 1*`); `trail`: `1*` may be appended for
SINGLE items the record does not reach; and back (`symm`), and composed (`trans`). -/
inductive Relayout (items : List Item) : Bytes → Bytes → Prop where
  | refl (x : Bytes) : Relayout items x x
  | symm {x y : Bytes} : Relayout items x y → Relayout items y x
  | trans {x y z : Bytes} : Relayout items x y → Relayout items y z → Relayout items x z
  | sep (a s s' rest : Bytes) : s ≠ [] → s' ≠ [] → (∀ c ∈ s, isSep c = true) → (∀ c ∈ s', isSep c = true) →
      tokState none a ≠ some true → Relayout items (a ++ s ++ rest) (a ++ s' ++ rest)
  | star (a s1 t s2 rest : Bytes) (ex : List Bytes) : tokState none a ≠ some true →
      s1 ≠ [] → (∀ c ∈ s1, isSep c = true) → s2 ≠ [] → (∀ c ∈ s2, isSep c = true) →
      BareWord t → StarExp t ex → (∀ e ∈ ex, BareWord e) →
      (∀ c ∈ t, c ≠ 39) → (∀ e ∈ ex, ∀ c ∈ e, c ≠ 39) →
      Relayout items (a ++ s1 ++ (t ++ s2 ++ rest)) (a ++ s1 ++ (joinBlank ex ++ s2 ++ rest))
  | trail (x : Bytes) (k : Nat) (next : UInt8) : tokState none x ≠ some true →
      (∀ t ∈ tokenize x next, Simple t) → totalWeight (tokenize x next) + k ≤ singlePrefix items →
      Relayout items x (x ++ 32 :: joinBlank (List.replicate k oneStar))

theorem evenQuotes_congr_sep (a s s' rest : Bytes) (hsep : ∀ c ∈ s, isSep c = true) (hsep' : ∀ c ∈ s', isSep c = true) :
    evenQuotes (a ++ s ++ rest) = evenQuotes (a ++ s' ++ rest) := by
  have f : ∀ (u : Bytes), (∀ c ∈ u, isSep c = true) → u.filter (· == 39) = [] := by
    intro u hu
    rw [List.filter_eq_nil_iff]
    intro c hc h
    have e : c = 39 := by simpa using h
    subst e
    have := hu 39 hc
    revert this; decide
  unfold evenQuotes
  simp only [List.filter_append, f s hsep, f s' hsep', List.append_nil]

theorem filter39_nil (u : Bytes) (h : ∀ c ∈ u, c ≠ 39) : u.filter (· == 39) = [] := by
  rw [List.filter_eq_nil_iff]
  intro c hc hh
  exact h c hc (by simpa using hh)

theorem joinBlank_no_quote : ∀ (ex : List Bytes), (∀ e ∈ ex, ∀ c ∈ e, c ≠ 39) → ∀ c ∈ joinBlank ex, c ≠ 39 := by
  intro ex
  induction ex with
  | nil => intro _ c hc; cases hc
  | cons t ts ih =>
    intro h c hc
    cases ts with
    | nil => exact h t (by simp) c (by simpa [joinBlank] using hc)
    | cons u us =>
      simp only [joinBlank, List.mem_append, List.mem_cons] at hc
      rcases hc with hc | rfl | hc
      · exact h t (by simp) c hc
      · decide
      · exact ih (fun e he => h e (by simp [he])) c hc

theorem bareWord_oneStar : BareWord oneStar := by
  refine ⟨by decide, by decide, by decide⟩

theorem tokenize_joinBlank_replicate (next : UInt8) (k : Nat) :
    tok next none (joinBlank (List.replicate k oneStar)) = List.replicate k oneStar := by
  cases k with
  | zero => rfl
  | succ k =>
    have := tok_joinBlank next (List.replicate (k + 1) oneStar) [] (by
      intro t ht; rw [(List.mem_replicate.mp ht).2]; exact bareWord_oneStar) (Or.inl rfl) (by simp)
    simpa [tok] using this

/-- **`relayout_compose`** — every derivation of `Relayout`, i.e. every composition of
separator / line-break changes, star expansions and contractions, and trailing-default
changes, gives a text that parses to the same record: the same items, values and default
flags, or the same error. -/
theorem relayout_compose (cv : Conv) (items : List Item) (hraw : ∀ it ∈ items, it.raw = false)
    (next : UInt8) {x y : Bytes} (h : Relayout items x y) :
    parseRecord cv items x next = parseRecord cv items y next := by
  induction h with
  | refl x => rfl
  | symm _ ih => exact ih.symm
  | trans _ _ ih1 ih2 => exact ih1.trans ih2
  | sep a s s' rest hs hs' hsep hsep' hout =>
    unfold parseRecord rawRecord
    rw [evenQuotes_congr_sep a s s' rest hsep hsep', split_sep_congr a s s' rest next hs hs' hsep hsep' hout]
  | star a s1 t s2 rest ex hout hs1 hsep1 hs2 hsep2 ht hexp hexb hq hqe =>
    unfold parseRecord rawRecord
    have he : evenQuotes (a ++ s1 ++ (t ++ s2 ++ rest)) = evenQuotes (a ++ s1 ++ (joinBlank ex ++ s2 ++ rest)) := by
      unfold evenQuotes
      simp only [List.filter_append, filter39_nil t hq, filter39_nil _ (joinBlank_no_quote ex hqe)]
    have hL := tokenize_word_between next a s1 t s2 rest hout hs1 hsep1 hs2 hsep2 ht
    have hR : tokenize (a ++ s1 ++ (joinBlank ex ++ s2 ++ rest)) next = tokenize a next ++ ex ++ tokenize rest next := by
      unfold tokenize
      rw [tok_append_sep next s1 _ hs1 hsep1 a none hout, List.append_assoc (joinBlank ex)]
      have hss : SepStart (s2 ++ rest) := by
        cases s2 with
        | nil => exact absurd rfl hs2
        | cons c r => exact Or.inr ⟨c, r ++ rest, rfl, hsep2 c (by simp)⟩
      rw [tok_joinBlank next ex _ hexb hss (starExp_ne_nil hexp)]
      have := tokenize_sep_prefix s2 rest next hsep2
      unfold tokenize at this
      rw [this, List.append_assoc]
    rw [he, hL, hR]
    by_cases hev : evenQuotes (a ++ s1 ++ (joinBlank ex ++ s2 ++ rest)) = true
    · simp only [hev, ↓reduceIte]
      exact parseItems_starExp cv t ex hexp (tokenize rest next) items hraw (tokenize a next)
    · simp only [hev, Bool.false_eq_true, ↓reduceIte]
  | trail x k next0 hout hsimple hw =>
    unfold parseRecord rawRecord
    have he : evenQuotes (x ++ 32 :: joinBlank (List.replicate k oneStar)) = evenQuotes x := by
      unfold evenQuotes
      have : (32 :: joinBlank (List.replicate k oneStar)).filter (· == 39) = [] := by
        apply filter39_nil
        intro c hc
        rcases List.mem_cons.mp hc with rfl | hc
        · decide
        · exact joinBlank_no_quote _ (by
            intro e he c hc
            rw [(List.mem_replicate.mp he).2] at hc
            revert hc; revert c; decide) c hc
      simp only [List.filter_append, this, List.append_nil]
    have ht : tokenize (x ++ 32 :: joinBlank (List.replicate k oneStar)) next =
        tokenize x next ++ List.replicate k oneStar := by
      unfold tokenize
      have := tok_append_sep next [32] (joinBlank (List.replicate k oneStar)) (by simp) (by decide) x none hout
      simp only [List.append_assoc, List.singleton_append] at this
      rw [this, tokenize_joinBlank_replicate]
    have hx : tokenize x next = tokenize x next0 := tokenize_inbounds x next next0 hout
    rw [he, ht, hx]
    by_cases hev : evenQuotes x = true
    · simp only [hev, ↓reduceIte]
      exact (parseItems_trailing_default cv items hraw _ k hsimple hw).symm
    · simp only [hev, Bool.false_eq_true, ↓reduceIte]

end OpmVerif.Scan
