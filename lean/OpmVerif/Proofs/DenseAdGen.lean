/- Instantiated from the template `obligations()` of translate/densead.py — regenerate with
   `python3 -m translate.densead --obligations`.  One obligation per (size, operator):
   the unrolled specialisation Evaluation<N>.hpp computes, slot by slot, the very expression of the
   generic loop form (Evaluation.hpp) at n = N.  A wrong index / sign / operand in one slot of one
   header makes exactly that `rfl` fail. -/
import OpmVerif.Gen.DenseAd
import Mathlib.Tactic.FinCases
import Mathlib.Data.Fintype.Basic
import Mathlib.Tactic.Ring
import Mathlib.Tactic.FieldSimp
import Mathlib.Algebra.Field.Basic

set_option linter.unusedSectionVars false
set_option linter.unusedTactic false
set_option linter.unreachableTactic false
set_option linter.unusedSimpArgs false

namespace OpmVerif.DenseAd.GenProofs
open OpmVerif.DenseAd.Gen

variable {α : Type} [Add α] [Sub α] [Mul α] [Div α] [Neg α] [OfNat α 0] [OfNat α 1] [OfNat α 2]

/-! ### Evaluation1.hpp -/
theorem U1_add_eq_loop (a b : Fin (2) → α) : U1.add a b = L.add (n := 1) a b := by
  funext i; fin_cases i <;> rfl
theorem U1_sub_eq_loop (a b : Fin (2) → α) : U1.sub a b = L.sub (n := 1) a b := by
  funext i; fin_cases i <;> rfl
theorem U1_mul_eq_loop (a b : Fin (2) → α) : U1.mul a b = L.mul (n := 1) a b := by
  funext i; fin_cases i <;> rfl
theorem U1_div_eq_loop (a b : Fin (2) → α) : U1.div a b = L.div (n := 1) a b := by
  funext i; fin_cases i <;> rfl
theorem U1_copyDerivatives_eq_loop (a b : Fin (2) → α) : U1.copyDerivatives a b = L.copyDerivatives (n := 1) a b := by
  funext i; fin_cases i <;> rfl
theorem U1_adds_eq_loop (a : Fin (2) → α) (c : α) : U1.adds a c = L.adds (n := 1) a c := by
  funext i; fin_cases i <;> rfl
theorem U1_subs_eq_loop (a : Fin (2) → α) (c : α) : U1.subs a c = L.subs (n := 1) a c := by
  funext i; fin_cases i <;> rfl
theorem U1_muls_eq_loop (a : Fin (2) → α) (c : α) : U1.muls a c = L.muls (n := 1) a c := by
  funext i; fin_cases i <;> rfl
theorem U1_divs_eq_loop (a : Fin (2) → α) (c : α) : U1.divs a c = L.divs (n := 1) a c := by
  funext i; fin_cases i <;> rfl
theorem U1_assign_eq_loop (a : Fin (2) → α) (c : α) : U1.assign a c = L.assign (n := 1) a c := by
  funext i; fin_cases i <;> rfl
theorem U1_neg_eq_loop (a : Fin (2) → α) : U1.neg a = L.neg (n := 1) a := by
  funext i; fin_cases i <;> rfl
theorem U1_clearDerivatives_eq_loop (a : Fin (2) → α) : U1.clearDerivatives a = L.clearDerivatives (n := 1) a := by
  funext i; fin_cases i <;> rfl
theorem U1_sadd_eq_loop (c : α) (a : Fin (2) → α) : U1.sadd c a = L.sadd (n := 1) c a := by
  funext i; fin_cases i <;> rfl
theorem U1_ssub_eq_loop (c : α) (a : Fin (2) → α) : U1.ssub c a = L.ssub (n := 1) c a := by
  funext i; fin_cases i <;> rfl
theorem U1_smul_eq_loop (c : α) (a : Fin (2) → α) : U1.smul c a = L.smul (n := 1) c a := by
  funext i; fin_cases i <;> rfl
theorem U1_sdiv_eq_loop (c : α) (a : Fin (2) → α) : U1.sdiv c a = L.sdiv (n := 1) c a := by
  funext i; fin_cases i <;> rfl
theorem U1_const_eq_loop (c : α) : U1.const c = L.const (n := 1) c := by
  funext i; fin_cases i <;> rfl
theorem U1_varBase_eq_loop (c : α) : U1.varBase c = L.varBase (n := 1) c := by
  funext i; fin_cases i <;> rfl
theorem U1_ops_eq_loop : (U1.ops : ADOps α 1) = L.ops := by
  unfold U1.ops L.ops
  congr 1 <;> (repeat (apply funext; intro)) <;> rename_i i <;> fin_cases i <;> rfl

/-! ### Evaluation2.hpp -/
theorem U2_add_eq_loop (a b : Fin (3) → α) : U2.add a b = L.add (n := 2) a b := by
  funext i; fin_cases i <;> rfl
theorem U2_sub_eq_loop (a b : Fin (3) → α) : U2.sub a b = L.sub (n := 2) a b := by
  funext i; fin_cases i <;> rfl
theorem U2_mul_eq_loop (a b : Fin (3) → α) : U2.mul a b = L.mul (n := 2) a b := by
  funext i; fin_cases i <;> rfl
theorem U2_div_eq_loop (a b : Fin (3) → α) : U2.div a b = L.div (n := 2) a b := by
  funext i; fin_cases i <;> rfl
theorem U2_copyDerivatives_eq_loop (a b : Fin (3) → α) : U2.copyDerivatives a b = L.copyDerivatives (n := 2) a b := by
  funext i; fin_cases i <;> rfl
theorem U2_adds_eq_loop (a : Fin (3) → α) (c : α) : U2.adds a c = L.adds (n := 2) a c := by
  funext i; fin_cases i <;> rfl
theorem U2_subs_eq_loop (a : Fin (3) → α) (c : α) : U2.subs a c = L.subs (n := 2) a c := by
  funext i; fin_cases i <;> rfl
theorem U2_muls_eq_loop (a : Fin (3) → α) (c : α) : U2.muls a c = L.muls (n := 2) a c := by
  funext i; fin_cases i <;> rfl
theorem U2_divs_eq_loop (a : Fin (3) → α) (c : α) : U2.divs a c = L.divs (n := 2) a c := by
  funext i; fin_cases i <;> rfl
theorem U2_assign_eq_loop (a : Fin (3) → α) (c : α) : U2.assign a c = L.assign (n := 2) a c := by
  funext i; fin_cases i <;> rfl
theorem U2_neg_eq_loop (a : Fin (3) → α) : U2.neg a = L.neg (n := 2) a := by
  funext i; fin_cases i <;> rfl
theorem U2_clearDerivatives_eq_loop (a : Fin (3) → α) : U2.clearDerivatives a = L.clearDerivatives (n := 2) a := by
  funext i; fin_cases i <;> rfl
theorem U2_sadd_eq_loop (c : α) (a : Fin (3) → α) : U2.sadd c a = L.sadd (n := 2) c a := by
  funext i; fin_cases i <;> rfl
theorem U2_ssub_eq_loop (c : α) (a : Fin (3) → α) : U2.ssub c a = L.ssub (n := 2) c a := by
  funext i; fin_cases i <;> rfl
theorem U2_smul_eq_loop (c : α) (a : Fin (3) → α) : U2.smul c a = L.smul (n := 2) c a := by
  funext i; fin_cases i <;> rfl
theorem U2_sdiv_eq_loop (c : α) (a : Fin (3) → α) : U2.sdiv c a = L.sdiv (n := 2) c a := by
  funext i; fin_cases i <;> rfl
theorem U2_const_eq_loop (c : α) : U2.const c = L.const (n := 2) c := by
  funext i; fin_cases i <;> rfl
theorem U2_varBase_eq_loop (c : α) : U2.varBase c = L.varBase (n := 2) c := by
  funext i; fin_cases i <;> rfl
theorem U2_ops_eq_loop : (U2.ops : ADOps α 2) = L.ops := by
  unfold U2.ops L.ops
  congr 1 <;> (repeat (apply funext; intro)) <;> rename_i i <;> fin_cases i <;> rfl

/-! ### Evaluation3.hpp -/
theorem U3_add_eq_loop (a b : Fin (4) → α) : U3.add a b = L.add (n := 3) a b := by
  funext i; fin_cases i <;> rfl
theorem U3_sub_eq_loop (a b : Fin (4) → α) : U3.sub a b = L.sub (n := 3) a b := by
  funext i; fin_cases i <;> rfl
theorem U3_mul_eq_loop (a b : Fin (4) → α) : U3.mul a b = L.mul (n := 3) a b := by
  funext i; fin_cases i <;> rfl
theorem U3_div_eq_loop (a b : Fin (4) → α) : U3.div a b = L.div (n := 3) a b := by
  funext i; fin_cases i <;> rfl
theorem U3_copyDerivatives_eq_loop (a b : Fin (4) → α) : U3.copyDerivatives a b = L.copyDerivatives (n := 3) a b := by
  funext i; fin_cases i <;> rfl
theorem U3_adds_eq_loop (a : Fin (4) → α) (c : α) : U3.adds a c = L.adds (n := 3) a c := by
  funext i; fin_cases i <;> rfl
theorem U3_subs_eq_loop (a : Fin (4) → α) (c : α) : U3.subs a c = L.subs (n := 3) a c := by
  funext i; fin_cases i <;> rfl
theorem U3_muls_eq_loop (a : Fin (4) → α) (c : α) : U3.muls a c = L.muls (n := 3) a c := by
  funext i; fin_cases i <;> rfl
theorem U3_divs_eq_loop (a : Fin (4) → α) (c : α) : U3.divs a c = L.divs (n := 3) a c := by
  funext i; fin_cases i <;> rfl
theorem U3_assign_eq_loop (a : Fin (4) → α) (c : α) : U3.assign a c = L.assign (n := 3) a c := by
  funext i; fin_cases i <;> rfl
theorem U3_neg_eq_loop (a : Fin (4) → α) : U3.neg a = L.neg (n := 3) a := by
  funext i; fin_cases i <;> rfl
theorem U3_clearDerivatives_eq_loop (a : Fin (4) → α) : U3.clearDerivatives a = L.clearDerivatives (n := 3) a := by
  funext i; fin_cases i <;> rfl
theorem U3_sadd_eq_loop (c : α) (a : Fin (4) → α) : U3.sadd c a = L.sadd (n := 3) c a := by
  funext i; fin_cases i <;> rfl
theorem U3_ssub_eq_loop (c : α) (a : Fin (4) → α) : U3.ssub c a = L.ssub (n := 3) c a := by
  funext i; fin_cases i <;> rfl
theorem U3_smul_eq_loop (c : α) (a : Fin (4) → α) : U3.smul c a = L.smul (n := 3) c a := by
  funext i; fin_cases i <;> rfl
theorem U3_sdiv_eq_loop (c : α) (a : Fin (4) → α) : U3.sdiv c a = L.sdiv (n := 3) c a := by
  funext i; fin_cases i <;> rfl
theorem U3_const_eq_loop (c : α) : U3.const c = L.const (n := 3) c := by
  funext i; fin_cases i <;> rfl
theorem U3_varBase_eq_loop (c : α) : U3.varBase c = L.varBase (n := 3) c := by
  funext i; fin_cases i <;> rfl
theorem U3_ops_eq_loop : (U3.ops : ADOps α 3) = L.ops := by
  unfold U3.ops L.ops
  congr 1 <;> (repeat (apply funext; intro)) <;> rename_i i <;> fin_cases i <;> rfl

/-! ### Evaluation4.hpp -/
theorem U4_add_eq_loop (a b : Fin (5) → α) : U4.add a b = L.add (n := 4) a b := by
  funext i; fin_cases i <;> rfl
theorem U4_sub_eq_loop (a b : Fin (5) → α) : U4.sub a b = L.sub (n := 4) a b := by
  funext i; fin_cases i <;> rfl
theorem U4_mul_eq_loop (a b : Fin (5) → α) : U4.mul a b = L.mul (n := 4) a b := by
  funext i; fin_cases i <;> rfl
theorem U4_div_eq_loop (a b : Fin (5) → α) : U4.div a b = L.div (n := 4) a b := by
  funext i; fin_cases i <;> rfl
theorem U4_copyDerivatives_eq_loop (a b : Fin (5) → α) : U4.copyDerivatives a b = L.copyDerivatives (n := 4) a b := by
  funext i; fin_cases i <;> rfl
theorem U4_adds_eq_loop (a : Fin (5) → α) (c : α) : U4.adds a c = L.adds (n := 4) a c := by
  funext i; fin_cases i <;> rfl
theorem U4_subs_eq_loop (a : Fin (5) → α) (c : α) : U4.subs a c = L.subs (n := 4) a c := by
  funext i; fin_cases i <;> rfl
theorem U4_muls_eq_loop (a : Fin (5) → α) (c : α) : U4.muls a c = L.muls (n := 4) a c := by
  funext i; fin_cases i <;> rfl
theorem U4_divs_eq_loop (a : Fin (5) → α) (c : α) : U4.divs a c = L.divs (n := 4) a c := by
  funext i; fin_cases i <;> rfl
theorem U4_assign_eq_loop (a : Fin (5) → α) (c : α) : U4.assign a c = L.assign (n := 4) a c := by
  funext i; fin_cases i <;> rfl
theorem U4_neg_eq_loop (a : Fin (5) → α) : U4.neg a = L.neg (n := 4) a := by
  funext i; fin_cases i <;> rfl
theorem U4_clearDerivatives_eq_loop (a : Fin (5) → α) : U4.clearDerivatives a = L.clearDerivatives (n := 4) a := by
  funext i; fin_cases i <;> rfl
theorem U4_sadd_eq_loop (c : α) (a : Fin (5) → α) : U4.sadd c a = L.sadd (n := 4) c a := by
  funext i; fin_cases i <;> rfl
theorem U4_ssub_eq_loop (c : α) (a : Fin (5) → α) : U4.ssub c a = L.ssub (n := 4) c a := by
  funext i; fin_cases i <;> rfl
theorem U4_smul_eq_loop (c : α) (a : Fin (5) → α) : U4.smul c a = L.smul (n := 4) c a := by
  funext i; fin_cases i <;> rfl
theorem U4_sdiv_eq_loop (c : α) (a : Fin (5) → α) : U4.sdiv c a = L.sdiv (n := 4) c a := by
  funext i; fin_cases i <;> rfl
theorem U4_const_eq_loop (c : α) : U4.const c = L.const (n := 4) c := by
  funext i; fin_cases i <;> rfl
theorem U4_varBase_eq_loop (c : α) : U4.varBase c = L.varBase (n := 4) c := by
  funext i; fin_cases i <;> rfl
theorem U4_ops_eq_loop : (U4.ops : ADOps α 4) = L.ops := by
  unfold U4.ops L.ops
  congr 1 <;> (repeat (apply funext; intro)) <;> rename_i i <;> fin_cases i <;> rfl

/-! ### Evaluation5.hpp -/
theorem U5_add_eq_loop (a b : Fin (6) → α) : U5.add a b = L.add (n := 5) a b := by
  funext i; fin_cases i <;> rfl
theorem U5_sub_eq_loop (a b : Fin (6) → α) : U5.sub a b = L.sub (n := 5) a b := by
  funext i; fin_cases i <;> rfl
theorem U5_mul_eq_loop (a b : Fin (6) → α) : U5.mul a b = L.mul (n := 5) a b := by
  funext i; fin_cases i <;> rfl
theorem U5_div_eq_loop (a b : Fin (6) → α) : U5.div a b = L.div (n := 5) a b := by
  funext i; fin_cases i <;> rfl
theorem U5_copyDerivatives_eq_loop (a b : Fin (6) → α) : U5.copyDerivatives a b = L.copyDerivatives (n := 5) a b := by
  funext i; fin_cases i <;> rfl
theorem U5_adds_eq_loop (a : Fin (6) → α) (c : α) : U5.adds a c = L.adds (n := 5) a c := by
  funext i; fin_cases i <;> rfl
theorem U5_subs_eq_loop (a : Fin (6) → α) (c : α) : U5.subs a c = L.subs (n := 5) a c := by
  funext i; fin_cases i <;> rfl
theorem U5_muls_eq_loop (a : Fin (6) → α) (c : α) : U5.muls a c = L.muls (n := 5) a c := by
  funext i; fin_cases i <;> rfl
theorem U5_divs_eq_loop (a : Fin (6) → α) (c : α) : U5.divs a c = L.divs (n := 5) a c := by
  funext i; fin_cases i <;> rfl
theorem U5_assign_eq_loop (a : Fin (6) → α) (c : α) : U5.assign a c = L.assign (n := 5) a c := by
  funext i; fin_cases i <;> rfl
theorem U5_neg_eq_loop (a : Fin (6) → α) : U5.neg a = L.neg (n := 5) a := by
  funext i; fin_cases i <;> rfl
theorem U5_clearDerivatives_eq_loop (a : Fin (6) → α) : U5.clearDerivatives a = L.clearDerivatives (n := 5) a := by
  funext i; fin_cases i <;> rfl
theorem U5_sadd_eq_loop (c : α) (a : Fin (6) → α) : U5.sadd c a = L.sadd (n := 5) c a := by
  funext i; fin_cases i <;> rfl
theorem U5_ssub_eq_loop (c : α) (a : Fin (6) → α) : U5.ssub c a = L.ssub (n := 5) c a := by
  funext i; fin_cases i <;> rfl
theorem U5_smul_eq_loop (c : α) (a : Fin (6) → α) : U5.smul c a = L.smul (n := 5) c a := by
  funext i; fin_cases i <;> rfl
theorem U5_sdiv_eq_loop (c : α) (a : Fin (6) → α) : U5.sdiv c a = L.sdiv (n := 5) c a := by
  funext i; fin_cases i <;> rfl
theorem U5_const_eq_loop (c : α) : U5.const c = L.const (n := 5) c := by
  funext i; fin_cases i <;> rfl
theorem U5_varBase_eq_loop (c : α) : U5.varBase c = L.varBase (n := 5) c := by
  funext i; fin_cases i <;> rfl
theorem U5_ops_eq_loop : (U5.ops : ADOps α 5) = L.ops := by
  unfold U5.ops L.ops
  congr 1 <;> (repeat (apply funext; intro)) <;> rename_i i <;> fin_cases i <;> rfl

/-! ### Evaluation6.hpp -/
theorem U6_add_eq_loop (a b : Fin (7) → α) : U6.add a b = L.add (n := 6) a b := by
  funext i; fin_cases i <;> rfl
theorem U6_sub_eq_loop (a b : Fin (7) → α) : U6.sub a b = L.sub (n := 6) a b := by
  funext i; fin_cases i <;> rfl
theorem U6_mul_eq_loop (a b : Fin (7) → α) : U6.mul a b = L.mul (n := 6) a b := by
  funext i; fin_cases i <;> rfl
theorem U6_div_eq_loop (a b : Fin (7) → α) : U6.div a b = L.div (n := 6) a b := by
  funext i; fin_cases i <;> rfl
theorem U6_copyDerivatives_eq_loop (a b : Fin (7) → α) : U6.copyDerivatives a b = L.copyDerivatives (n := 6) a b := by
  funext i; fin_cases i <;> rfl
theorem U6_adds_eq_loop (a : Fin (7) → α) (c : α) : U6.adds a c = L.adds (n := 6) a c := by
  funext i; fin_cases i <;> rfl
theorem U6_subs_eq_loop (a : Fin (7) → α) (c : α) : U6.subs a c = L.subs (n := 6) a c := by
  funext i; fin_cases i <;> rfl
theorem U6_muls_eq_loop (a : Fin (7) → α) (c : α) : U6.muls a c = L.muls (n := 6) a c := by
  funext i; fin_cases i <;> rfl
theorem U6_divs_eq_loop (a : Fin (7) → α) (c : α) : U6.divs a c = L.divs (n := 6) a c := by
  funext i; fin_cases i <;> rfl
theorem U6_assign_eq_loop (a : Fin (7) → α) (c : α) : U6.assign a c = L.assign (n := 6) a c := by
  funext i; fin_cases i <;> rfl
theorem U6_neg_eq_loop (a : Fin (7) → α) : U6.neg a = L.neg (n := 6) a := by
  funext i; fin_cases i <;> rfl
theorem U6_clearDerivatives_eq_loop (a : Fin (7) → α) : U6.clearDerivatives a = L.clearDerivatives (n := 6) a := by
  funext i; fin_cases i <;> rfl
theorem U6_sadd_eq_loop (c : α) (a : Fin (7) → α) : U6.sadd c a = L.sadd (n := 6) c a := by
  funext i; fin_cases i <;> rfl
theorem U6_ssub_eq_loop (c : α) (a : Fin (7) → α) : U6.ssub c a = L.ssub (n := 6) c a := by
  funext i; fin_cases i <;> rfl
theorem U6_smul_eq_loop (c : α) (a : Fin (7) → α) : U6.smul c a = L.smul (n := 6) c a := by
  funext i; fin_cases i <;> rfl
theorem U6_sdiv_eq_loop (c : α) (a : Fin (7) → α) : U6.sdiv c a = L.sdiv (n := 6) c a := by
  funext i; fin_cases i <;> rfl
theorem U6_const_eq_loop (c : α) : U6.const c = L.const (n := 6) c := by
  funext i; fin_cases i <;> rfl
theorem U6_varBase_eq_loop (c : α) : U6.varBase c = L.varBase (n := 6) c := by
  funext i; fin_cases i <;> rfl
theorem U6_ops_eq_loop : (U6.ops : ADOps α 6) = L.ops := by
  unfold U6.ops L.ops
  congr 1 <;> (repeat (apply funext; intro)) <;> rename_i i <;> fin_cases i <;> rfl

/-! ### Evaluation7.hpp -/
theorem U7_add_eq_loop (a b : Fin (8) → α) : U7.add a b = L.add (n := 7) a b := by
  funext i; fin_cases i <;> rfl
theorem U7_sub_eq_loop (a b : Fin (8) → α) : U7.sub a b = L.sub (n := 7) a b := by
  funext i; fin_cases i <;> rfl
theorem U7_mul_eq_loop (a b : Fin (8) → α) : U7.mul a b = L.mul (n := 7) a b := by
  funext i; fin_cases i <;> rfl
theorem U7_div_eq_loop (a b : Fin (8) → α) : U7.div a b = L.div (n := 7) a b := by
  funext i; fin_cases i <;> rfl
theorem U7_copyDerivatives_eq_loop (a b : Fin (8) → α) : U7.copyDerivatives a b = L.copyDerivatives (n := 7) a b := by
  funext i; fin_cases i <;> rfl
theorem U7_adds_eq_loop (a : Fin (8) → α) (c : α) : U7.adds a c = L.adds (n := 7) a c := by
  funext i; fin_cases i <;> rfl
theorem U7_subs_eq_loop (a : Fin (8) → α) (c : α) : U7.subs a c = L.subs (n := 7) a c := by
  funext i; fin_cases i <;> rfl
theorem U7_muls_eq_loop (a : Fin (8) → α) (c : α) : U7.muls a c = L.muls (n := 7) a c := by
  funext i; fin_cases i <;> rfl
theorem U7_divs_eq_loop (a : Fin (8) → α) (c : α) : U7.divs a c = L.divs (n := 7) a c := by
  funext i; fin_cases i <;> rfl
theorem U7_assign_eq_loop (a : Fin (8) → α) (c : α) : U7.assign a c = L.assign (n := 7) a c := by
  funext i; fin_cases i <;> rfl
theorem U7_neg_eq_loop (a : Fin (8) → α) : U7.neg a = L.neg (n := 7) a := by
  funext i; fin_cases i <;> rfl
theorem U7_clearDerivatives_eq_loop (a : Fin (8) → α) : U7.clearDerivatives a = L.clearDerivatives (n := 7) a := by
  funext i; fin_cases i <;> rfl
theorem U7_sadd_eq_loop (c : α) (a : Fin (8) → α) : U7.sadd c a = L.sadd (n := 7) c a := by
  funext i; fin_cases i <;> rfl
theorem U7_ssub_eq_loop (c : α) (a : Fin (8) → α) : U7.ssub c a = L.ssub (n := 7) c a := by
  funext i; fin_cases i <;> rfl
theorem U7_smul_eq_loop (c : α) (a : Fin (8) → α) : U7.smul c a = L.smul (n := 7) c a := by
  funext i; fin_cases i <;> rfl
theorem U7_sdiv_eq_loop (c : α) (a : Fin (8) → α) : U7.sdiv c a = L.sdiv (n := 7) c a := by
  funext i; fin_cases i <;> rfl
theorem U7_const_eq_loop (c : α) : U7.const c = L.const (n := 7) c := by
  funext i; fin_cases i <;> rfl
theorem U7_varBase_eq_loop (c : α) : U7.varBase c = L.varBase (n := 7) c := by
  funext i; fin_cases i <;> rfl
theorem U7_ops_eq_loop : (U7.ops : ADOps α 7) = L.ops := by
  unfold U7.ops L.ops
  congr 1 <;> (repeat (apply funext; intro)) <;> rename_i i <;> fin_cases i <;> rfl

/-! ### Evaluation8.hpp -/
theorem U8_add_eq_loop (a b : Fin (9) → α) : U8.add a b = L.add (n := 8) a b := by
  funext i; fin_cases i <;> rfl
theorem U8_sub_eq_loop (a b : Fin (9) → α) : U8.sub a b = L.sub (n := 8) a b := by
  funext i; fin_cases i <;> rfl
theorem U8_mul_eq_loop (a b : Fin (9) → α) : U8.mul a b = L.mul (n := 8) a b := by
  funext i; fin_cases i <;> rfl
theorem U8_div_eq_loop (a b : Fin (9) → α) : U8.div a b = L.div (n := 8) a b := by
  funext i; fin_cases i <;> rfl
theorem U8_copyDerivatives_eq_loop (a b : Fin (9) → α) : U8.copyDerivatives a b = L.copyDerivatives (n := 8) a b := by
  funext i; fin_cases i <;> rfl
theorem U8_adds_eq_loop (a : Fin (9) → α) (c : α) : U8.adds a c = L.adds (n := 8) a c := by
  funext i; fin_cases i <;> rfl
theorem U8_subs_eq_loop (a : Fin (9) → α) (c : α) : U8.subs a c = L.subs (n := 8) a c := by
  funext i; fin_cases i <;> rfl
theorem U8_muls_eq_loop (a : Fin (9) → α) (c : α) : U8.muls a c = L.muls (n := 8) a c := by
  funext i; fin_cases i <;> rfl
theorem U8_divs_eq_loop (a : Fin (9) → α) (c : α) : U8.divs a c = L.divs (n := 8) a c := by
  funext i; fin_cases i <;> rfl
theorem U8_assign_eq_loop (a : Fin (9) → α) (c : α) : U8.assign a c = L.assign (n := 8) a c := by
  funext i; fin_cases i <;> rfl
theorem U8_neg_eq_loop (a : Fin (9) → α) : U8.neg a = L.neg (n := 8) a := by
  funext i; fin_cases i <;> rfl
theorem U8_clearDerivatives_eq_loop (a : Fin (9) → α) : U8.clearDerivatives a = L.clearDerivatives (n := 8) a := by
  funext i; fin_cases i <;> rfl
theorem U8_sadd_eq_loop (c : α) (a : Fin (9) → α) : U8.sadd c a = L.sadd (n := 8) c a := by
  funext i; fin_cases i <;> rfl
theorem U8_ssub_eq_loop (c : α) (a : Fin (9) → α) : U8.ssub c a = L.ssub (n := 8) c a := by
  funext i; fin_cases i <;> rfl
theorem U8_smul_eq_loop (c : α) (a : Fin (9) → α) : U8.smul c a = L.smul (n := 8) c a := by
  funext i; fin_cases i <;> rfl
theorem U8_sdiv_eq_loop (c : α) (a : Fin (9) → α) : U8.sdiv c a = L.sdiv (n := 8) c a := by
  funext i; fin_cases i <;> rfl
theorem U8_const_eq_loop (c : α) : U8.const c = L.const (n := 8) c := by
  funext i; fin_cases i <;> rfl
theorem U8_varBase_eq_loop (c : α) : U8.varBase c = L.varBase (n := 8) c := by
  funext i; fin_cases i <;> rfl
theorem U8_ops_eq_loop : (U8.ops : ADOps α 8) = L.ops := by
  unfold U8.ops L.ops
  congr 1 <;> (repeat (apply funext; intro)) <;> rename_i i <;> fin_cases i <;> rfl

/-! ### Evaluation9.hpp -/
theorem U9_add_eq_loop (a b : Fin (10) → α) : U9.add a b = L.add (n := 9) a b := by
  funext i; fin_cases i <;> rfl
theorem U9_sub_eq_loop (a b : Fin (10) → α) : U9.sub a b = L.sub (n := 9) a b := by
  funext i; fin_cases i <;> rfl
theorem U9_mul_eq_loop (a b : Fin (10) → α) : U9.mul a b = L.mul (n := 9) a b := by
  funext i; fin_cases i <;> rfl
theorem U9_div_eq_loop (a b : Fin (10) → α) : U9.div a b = L.div (n := 9) a b := by
  funext i; fin_cases i <;> rfl
theorem U9_copyDerivatives_eq_loop (a b : Fin (10) → α) : U9.copyDerivatives a b = L.copyDerivatives (n := 9) a b := by
  funext i; fin_cases i <;> rfl
theorem U9_adds_eq_loop (a : Fin (10) → α) (c : α) : U9.adds a c = L.adds (n := 9) a c := by
  funext i; fin_cases i <;> rfl
theorem U9_subs_eq_loop (a : Fin (10) → α) (c : α) : U9.subs a c = L.subs (n := 9) a c := by
  funext i; fin_cases i <;> rfl
theorem U9_muls_eq_loop (a : Fin (10) → α) (c : α) : U9.muls a c = L.muls (n := 9) a c := by
  funext i; fin_cases i <;> rfl
theorem U9_divs_eq_loop (a : Fin (10) → α) (c : α) : U9.divs a c = L.divs (n := 9) a c := by
  funext i; fin_cases i <;> rfl
theorem U9_assign_eq_loop (a : Fin (10) → α) (c : α) : U9.assign a c = L.assign (n := 9) a c := by
  funext i; fin_cases i <;> rfl
theorem U9_neg_eq_loop (a : Fin (10) → α) : U9.neg a = L.neg (n := 9) a := by
  funext i; fin_cases i <;> rfl
theorem U9_clearDerivatives_eq_loop (a : Fin (10) → α) : U9.clearDerivatives a = L.clearDerivatives (n := 9) a := by
  funext i; fin_cases i <;> rfl
theorem U9_sadd_eq_loop (c : α) (a : Fin (10) → α) : U9.sadd c a = L.sadd (n := 9) c a := by
  funext i; fin_cases i <;> rfl
theorem U9_ssub_eq_loop (c : α) (a : Fin (10) → α) : U9.ssub c a = L.ssub (n := 9) c a := by
  funext i; fin_cases i <;> rfl
theorem U9_smul_eq_loop (c : α) (a : Fin (10) → α) : U9.smul c a = L.smul (n := 9) c a := by
  funext i; fin_cases i <;> rfl
theorem U9_sdiv_eq_loop (c : α) (a : Fin (10) → α) : U9.sdiv c a = L.sdiv (n := 9) c a := by
  funext i; fin_cases i <;> rfl
theorem U9_const_eq_loop (c : α) : U9.const c = L.const (n := 9) c := by
  funext i; fin_cases i <;> rfl
theorem U9_varBase_eq_loop (c : α) : U9.varBase c = L.varBase (n := 9) c := by
  funext i; fin_cases i <;> rfl
theorem U9_ops_eq_loop : (U9.ops : ADOps α 9) = L.ops := by
  unfold U9.ops L.ops
  congr 1 <;> (repeat (apply funext; intro)) <;> rename_i i <;> fin_cases i <;> rfl

/-! ### Evaluation10.hpp -/
theorem U10_add_eq_loop (a b : Fin (11) → α) : U10.add a b = L.add (n := 10) a b := by
  funext i; fin_cases i <;> rfl
theorem U10_sub_eq_loop (a b : Fin (11) → α) : U10.sub a b = L.sub (n := 10) a b := by
  funext i; fin_cases i <;> rfl
theorem U10_mul_eq_loop (a b : Fin (11) → α) : U10.mul a b = L.mul (n := 10) a b := by
  funext i; fin_cases i <;> rfl
theorem U10_div_eq_loop (a b : Fin (11) → α) : U10.div a b = L.div (n := 10) a b := by
  funext i; fin_cases i <;> rfl
theorem U10_copyDerivatives_eq_loop (a b : Fin (11) → α) : U10.copyDerivatives a b = L.copyDerivatives (n := 10) a b := by
  funext i; fin_cases i <;> rfl
theorem U10_adds_eq_loop (a : Fin (11) → α) (c : α) : U10.adds a c = L.adds (n := 10) a c := by
  funext i; fin_cases i <;> rfl
theorem U10_subs_eq_loop (a : Fin (11) → α) (c : α) : U10.subs a c = L.subs (n := 10) a c := by
  funext i; fin_cases i <;> rfl
theorem U10_muls_eq_loop (a : Fin (11) → α) (c : α) : U10.muls a c = L.muls (n := 10) a c := by
  funext i; fin_cases i <;> rfl
theorem U10_divs_eq_loop (a : Fin (11) → α) (c : α) : U10.divs a c = L.divs (n := 10) a c := by
  funext i; fin_cases i <;> rfl
theorem U10_assign_eq_loop (a : Fin (11) → α) (c : α) : U10.assign a c = L.assign (n := 10) a c := by
  funext i; fin_cases i <;> rfl
theorem U10_neg_eq_loop (a : Fin (11) → α) : U10.neg a = L.neg (n := 10) a := by
  funext i; fin_cases i <;> rfl
theorem U10_clearDerivatives_eq_loop (a : Fin (11) → α) : U10.clearDerivatives a = L.clearDerivatives (n := 10) a := by
  funext i; fin_cases i <;> rfl
theorem U10_sadd_eq_loop (c : α) (a : Fin (11) → α) : U10.sadd c a = L.sadd (n := 10) c a := by
  funext i; fin_cases i <;> rfl
theorem U10_ssub_eq_loop (c : α) (a : Fin (11) → α) : U10.ssub c a = L.ssub (n := 10) c a := by
  funext i; fin_cases i <;> rfl
theorem U10_smul_eq_loop (c : α) (a : Fin (11) → α) : U10.smul c a = L.smul (n := 10) c a := by
  funext i; fin_cases i <;> rfl
theorem U10_sdiv_eq_loop (c : α) (a : Fin (11) → α) : U10.sdiv c a = L.sdiv (n := 10) c a := by
  funext i; fin_cases i <;> rfl
theorem U10_const_eq_loop (c : α) : U10.const c = L.const (n := 10) c := by
  funext i; fin_cases i <;> rfl
theorem U10_varBase_eq_loop (c : α) : U10.varBase c = L.varBase (n := 10) c := by
  funext i; fin_cases i <;> rfl
theorem U10_ops_eq_loop : (U10.ops : ADOps α 10) = L.ops := by
  unfold U10.ops L.ops
  congr 1 <;> (repeat (apply funext; intro)) <;> rename_i i <;> fin_cases i <;> rfl

/-! ### Evaluation11.hpp -/
theorem U11_add_eq_loop (a b : Fin (12) → α) : U11.add a b = L.add (n := 11) a b := by
  funext i; fin_cases i <;> rfl
theorem U11_sub_eq_loop (a b : Fin (12) → α) : U11.sub a b = L.sub (n := 11) a b := by
  funext i; fin_cases i <;> rfl
theorem U11_mul_eq_loop (a b : Fin (12) → α) : U11.mul a b = L.mul (n := 11) a b := by
  funext i; fin_cases i <;> rfl
theorem U11_div_eq_loop (a b : Fin (12) → α) : U11.div a b = L.div (n := 11) a b := by
  funext i; fin_cases i <;> rfl
theorem U11_copyDerivatives_eq_loop (a b : Fin (12) → α) : U11.copyDerivatives a b = L.copyDerivatives (n := 11) a b := by
  funext i; fin_cases i <;> rfl
theorem U11_adds_eq_loop (a : Fin (12) → α) (c : α) : U11.adds a c = L.adds (n := 11) a c := by
  funext i; fin_cases i <;> rfl
theorem U11_subs_eq_loop (a : Fin (12) → α) (c : α) : U11.subs a c = L.subs (n := 11) a c := by
  funext i; fin_cases i <;> rfl
theorem U11_muls_eq_loop (a : Fin (12) → α) (c : α) : U11.muls a c = L.muls (n := 11) a c := by
  funext i; fin_cases i <;> rfl
theorem U11_divs_eq_loop (a : Fin (12) → α) (c : α) : U11.divs a c = L.divs (n := 11) a c := by
  funext i; fin_cases i <;> rfl
theorem U11_assign_eq_loop (a : Fin (12) → α) (c : α) : U11.assign a c = L.assign (n := 11) a c := by
  funext i; fin_cases i <;> rfl
theorem U11_neg_eq_loop (a : Fin (12) → α) : U11.neg a = L.neg (n := 11) a := by
  funext i; fin_cases i <;> rfl
theorem U11_clearDerivatives_eq_loop (a : Fin (12) → α) : U11.clearDerivatives a = L.clearDerivatives (n := 11) a := by
  funext i; fin_cases i <;> rfl
theorem U11_sadd_eq_loop (c : α) (a : Fin (12) → α) : U11.sadd c a = L.sadd (n := 11) c a := by
  funext i; fin_cases i <;> rfl
theorem U11_ssub_eq_loop (c : α) (a : Fin (12) → α) : U11.ssub c a = L.ssub (n := 11) c a := by
  funext i; fin_cases i <;> rfl
theorem U11_smul_eq_loop (c : α) (a : Fin (12) → α) : U11.smul c a = L.smul (n := 11) c a := by
  funext i; fin_cases i <;> rfl
theorem U11_sdiv_eq_loop (c : α) (a : Fin (12) → α) : U11.sdiv c a = L.sdiv (n := 11) c a := by
  funext i; fin_cases i <;> rfl
theorem U11_const_eq_loop (c : α) : U11.const c = L.const (n := 11) c := by
  funext i; fin_cases i <;> rfl
theorem U11_varBase_eq_loop (c : α) : U11.varBase c = L.varBase (n := 11) c := by
  funext i; fin_cases i <;> rfl
theorem U11_ops_eq_loop : (U11.ops : ADOps α 11) = L.ops := by
  unfold U11.ops L.ops
  congr 1 <;> (repeat (apply funext; intro)) <;> rename_i i <;> fin_cases i <;> rfl

/-! ### Evaluation12.hpp -/
theorem U12_add_eq_loop (a b : Fin (13) → α) : U12.add a b = L.add (n := 12) a b := by
  funext i; fin_cases i <;> rfl
theorem U12_sub_eq_loop (a b : Fin (13) → α) : U12.sub a b = L.sub (n := 12) a b := by
  funext i; fin_cases i <;> rfl
theorem U12_mul_eq_loop (a b : Fin (13) → α) : U12.mul a b = L.mul (n := 12) a b := by
  funext i; fin_cases i <;> rfl
theorem U12_div_eq_loop (a b : Fin (13) → α) : U12.div a b = L.div (n := 12) a b := by
  funext i; fin_cases i <;> rfl
theorem U12_copyDerivatives_eq_loop (a b : Fin (13) → α) : U12.copyDerivatives a b = L.copyDerivatives (n := 12) a b := by
  funext i; fin_cases i <;> rfl
theorem U12_adds_eq_loop (a : Fin (13) → α) (c : α) : U12.adds a c = L.adds (n := 12) a c := by
  funext i; fin_cases i <;> rfl
theorem U12_subs_eq_loop (a : Fin (13) → α) (c : α) : U12.subs a c = L.subs (n := 12) a c := by
  funext i; fin_cases i <;> rfl
theorem U12_muls_eq_loop (a : Fin (13) → α) (c : α) : U12.muls a c = L.muls (n := 12) a c := by
  funext i; fin_cases i <;> rfl
theorem U12_divs_eq_loop (a : Fin (13) → α) (c : α) : U12.divs a c = L.divs (n := 12) a c := by
  funext i; fin_cases i <;> rfl
theorem U12_assign_eq_loop (a : Fin (13) → α) (c : α) : U12.assign a c = L.assign (n := 12) a c := by
  funext i; fin_cases i <;> rfl
theorem U12_neg_eq_loop (a : Fin (13) → α) : U12.neg a = L.neg (n := 12) a := by
  funext i; fin_cases i <;> rfl
theorem U12_clearDerivatives_eq_loop (a : Fin (13) → α) : U12.clearDerivatives a = L.clearDerivatives (n := 12) a := by
  funext i; fin_cases i <;> rfl
theorem U12_sadd_eq_loop (c : α) (a : Fin (13) → α) : U12.sadd c a = L.sadd (n := 12) c a := by
  funext i; fin_cases i <;> rfl
theorem U12_ssub_eq_loop (c : α) (a : Fin (13) → α) : U12.ssub c a = L.ssub (n := 12) c a := by
  funext i; fin_cases i <;> rfl
theorem U12_smul_eq_loop (c : α) (a : Fin (13) → α) : U12.smul c a = L.smul (n := 12) c a := by
  funext i; fin_cases i <;> rfl
theorem U12_sdiv_eq_loop (c : α) (a : Fin (13) → α) : U12.sdiv c a = L.sdiv (n := 12) c a := by
  funext i; fin_cases i <;> rfl
theorem U12_const_eq_loop (c : α) : U12.const c = L.const (n := 12) c := by
  funext i; fin_cases i <;> rfl
theorem U12_varBase_eq_loop (c : α) : U12.varBase c = L.varBase (n := 12) c := by
  funext i; fin_cases i <;> rfl
theorem U12_ops_eq_loop : (U12.ops : ADOps α 12) = L.ops := by
  unfold U12.ops L.ops
  congr 1 <;> (repeat (apply funext; intro)) <;> rename_i i <;> fin_cases i <;> rfl

/-! ### the same over a field, robust against algebraically neutral rewrites of a header:
    slot by slot `rfl`, else `ring` after unfolding -/
section field
variable {K : Type} [Field K]
macro "slot_eq" : tactic => `(tactic| first | rfl | (simp [L.add, L.sub, L.mul, L.div, L.copyDerivatives, L.adds, L.subs, L.muls, L.divs, L.assign, L.neg, L.clearDerivatives, L.sadd, L.ssub, L.smul, L.sdiv, L.const, L.varBase] <;> ring1) | (field_simp [L.add, L.sub, L.mul, L.div, L.copyDerivatives, L.adds, L.subs, L.muls, L.divs, L.assign, L.neg, L.clearDerivatives, L.sadd, L.ssub, L.smul, L.sdiv, L.const, L.varBase] <;> ring1))
theorem U1_ops_eq_loop_field : (U1.ops : ADOps K 1) = L.ops := by
  unfold U1.ops L.ops
  congr 1 <;> (repeat (apply funext; intro)) <;> rename_i i <;> fin_cases i <;>
    first | rfl | (simp [U1.add, U1.sub, U1.mul, U1.div, U1.copyDerivatives, U1.adds, U1.subs, U1.muls, U1.divs, U1.assign, U1.neg, U1.clearDerivatives, U1.sadd, U1.ssub, U1.smul, U1.sdiv, U1.const, U1.varBase, L.add, L.sub, L.mul, L.div, L.copyDerivatives, L.adds, L.subs, L.muls, L.divs, L.assign, L.neg, L.clearDerivatives, L.sadd, L.ssub, L.smul, L.sdiv, L.const, L.varBase] <;> ring1)
theorem U2_ops_eq_loop_field : (U2.ops : ADOps K 2) = L.ops := by
  unfold U2.ops L.ops
  congr 1 <;> (repeat (apply funext; intro)) <;> rename_i i <;> fin_cases i <;>
    first | rfl | (simp [U2.add, U2.sub, U2.mul, U2.div, U2.copyDerivatives, U2.adds, U2.subs, U2.muls, U2.divs, U2.assign, U2.neg, U2.clearDerivatives, U2.sadd, U2.ssub, U2.smul, U2.sdiv, U2.const, U2.varBase, L.add, L.sub, L.mul, L.div, L.copyDerivatives, L.adds, L.subs, L.muls, L.divs, L.assign, L.neg, L.clearDerivatives, L.sadd, L.ssub, L.smul, L.sdiv, L.const, L.varBase] <;> ring1)
theorem U3_ops_eq_loop_field : (U3.ops : ADOps K 3) = L.ops := by
  unfold U3.ops L.ops
  congr 1 <;> (repeat (apply funext; intro)) <;> rename_i i <;> fin_cases i <;>
    first | rfl | (simp [U3.add, U3.sub, U3.mul, U3.div, U3.copyDerivatives, U3.adds, U3.subs, U3.muls, U3.divs, U3.assign, U3.neg, U3.clearDerivatives, U3.sadd, U3.ssub, U3.smul, U3.sdiv, U3.const, U3.varBase, L.add, L.sub, L.mul, L.div, L.copyDerivatives, L.adds, L.subs, L.muls, L.divs, L.assign, L.neg, L.clearDerivatives, L.sadd, L.ssub, L.smul, L.sdiv, L.const, L.varBase] <;> ring1)
theorem U4_ops_eq_loop_field : (U4.ops : ADOps K 4) = L.ops := by
  unfold U4.ops L.ops
  congr 1 <;> (repeat (apply funext; intro)) <;> rename_i i <;> fin_cases i <;>
    first | rfl | (simp [U4.add, U4.sub, U4.mul, U4.div, U4.copyDerivatives, U4.adds, U4.subs, U4.muls, U4.divs, U4.assign, U4.neg, U4.clearDerivatives, U4.sadd, U4.ssub, U4.smul, U4.sdiv, U4.const, U4.varBase, L.add, L.sub, L.mul, L.div, L.copyDerivatives, L.adds, L.subs, L.muls, L.divs, L.assign, L.neg, L.clearDerivatives, L.sadd, L.ssub, L.smul, L.sdiv, L.const, L.varBase] <;> ring1)
theorem U5_ops_eq_loop_field : (U5.ops : ADOps K 5) = L.ops := by
  unfold U5.ops L.ops
  congr 1 <;> (repeat (apply funext; intro)) <;> rename_i i <;> fin_cases i <;>
    first | rfl | (simp [U5.add, U5.sub, U5.mul, U5.div, U5.copyDerivatives, U5.adds, U5.subs, U5.muls, U5.divs, U5.assign, U5.neg, U5.clearDerivatives, U5.sadd, U5.ssub, U5.smul, U5.sdiv, U5.const, U5.varBase, L.add, L.sub, L.mul, L.div, L.copyDerivatives, L.adds, L.subs, L.muls, L.divs, L.assign, L.neg, L.clearDerivatives, L.sadd, L.ssub, L.smul, L.sdiv, L.const, L.varBase] <;> ring1)
theorem U6_ops_eq_loop_field : (U6.ops : ADOps K 6) = L.ops := by
  unfold U6.ops L.ops
  congr 1 <;> (repeat (apply funext; intro)) <;> rename_i i <;> fin_cases i <;>
    first | rfl | (simp [U6.add, U6.sub, U6.mul, U6.div, U6.copyDerivatives, U6.adds, U6.subs, U6.muls, U6.divs, U6.assign, U6.neg, U6.clearDerivatives, U6.sadd, U6.ssub, U6.smul, U6.sdiv, U6.const, U6.varBase, L.add, L.sub, L.mul, L.div, L.copyDerivatives, L.adds, L.subs, L.muls, L.divs, L.assign, L.neg, L.clearDerivatives, L.sadd, L.ssub, L.smul, L.sdiv, L.const, L.varBase] <;> ring1)
theorem U7_ops_eq_loop_field : (U7.ops : ADOps K 7) = L.ops := by
  unfold U7.ops L.ops
  congr 1 <;> (repeat (apply funext; intro)) <;> rename_i i <;> fin_cases i <;>
    first | rfl | (simp [U7.add, U7.sub, U7.mul, U7.div, U7.copyDerivatives, U7.adds, U7.subs, U7.muls, U7.divs, U7.assign, U7.neg, U7.clearDerivatives, U7.sadd, U7.ssub, U7.smul, U7.sdiv, U7.const, U7.varBase, L.add, L.sub, L.mul, L.div, L.copyDerivatives, L.adds, L.subs, L.muls, L.divs, L.assign, L.neg, L.clearDerivatives, L.sadd, L.ssub, L.smul, L.sdiv, L.const, L.varBase] <;> ring1)
theorem U8_ops_eq_loop_field : (U8.ops : ADOps K 8) = L.ops := by
  unfold U8.ops L.ops
  congr 1 <;> (repeat (apply funext; intro)) <;> rename_i i <;> fin_cases i <;>
    first | rfl | (simp [U8.add, U8.sub, U8.mul, U8.div, U8.copyDerivatives, U8.adds, U8.subs, U8.muls, U8.divs, U8.assign, U8.neg, U8.clearDerivatives, U8.sadd, U8.ssub, U8.smul, U8.sdiv, U8.const, U8.varBase, L.add, L.sub, L.mul, L.div, L.copyDerivatives, L.adds, L.subs, L.muls, L.divs, L.assign, L.neg, L.clearDerivatives, L.sadd, L.ssub, L.smul, L.sdiv, L.const, L.varBase] <;> ring1)
theorem U9_ops_eq_loop_field : (U9.ops : ADOps K 9) = L.ops := by
  unfold U9.ops L.ops
  congr 1 <;> (repeat (apply funext; intro)) <;> rename_i i <;> fin_cases i <;>
    first | rfl | (simp [U9.add, U9.sub, U9.mul, U9.div, U9.copyDerivatives, U9.adds, U9.subs, U9.muls, U9.divs, U9.assign, U9.neg, U9.clearDerivatives, U9.sadd, U9.ssub, U9.smul, U9.sdiv, U9.const, U9.varBase, L.add, L.sub, L.mul, L.div, L.copyDerivatives, L.adds, L.subs, L.muls, L.divs, L.assign, L.neg, L.clearDerivatives, L.sadd, L.ssub, L.smul, L.sdiv, L.const, L.varBase] <;> ring1)
theorem U10_ops_eq_loop_field : (U10.ops : ADOps K 10) = L.ops := by
  unfold U10.ops L.ops
  congr 1 <;> (repeat (apply funext; intro)) <;> rename_i i <;> fin_cases i <;>
    first | rfl | (simp [U10.add, U10.sub, U10.mul, U10.div, U10.copyDerivatives, U10.adds, U10.subs, U10.muls, U10.divs, U10.assign, U10.neg, U10.clearDerivatives, U10.sadd, U10.ssub, U10.smul, U10.sdiv, U10.const, U10.varBase, L.add, L.sub, L.mul, L.div, L.copyDerivatives, L.adds, L.subs, L.muls, L.divs, L.assign, L.neg, L.clearDerivatives, L.sadd, L.ssub, L.smul, L.sdiv, L.const, L.varBase] <;> ring1)
theorem U11_ops_eq_loop_field : (U11.ops : ADOps K 11) = L.ops := by
  unfold U11.ops L.ops
  congr 1 <;> (repeat (apply funext; intro)) <;> rename_i i <;> fin_cases i <;>
    first | rfl | (simp [U11.add, U11.sub, U11.mul, U11.div, U11.copyDerivatives, U11.adds, U11.subs, U11.muls, U11.divs, U11.assign, U11.neg, U11.clearDerivatives, U11.sadd, U11.ssub, U11.smul, U11.sdiv, U11.const, U11.varBase, L.add, L.sub, L.mul, L.div, L.copyDerivatives, L.adds, L.subs, L.muls, L.divs, L.assign, L.neg, L.clearDerivatives, L.sadd, L.ssub, L.smul, L.sdiv, L.const, L.varBase] <;> ring1)
theorem U12_ops_eq_loop_field : (U12.ops : ADOps K 12) = L.ops := by
  unfold U12.ops L.ops
  congr 1 <;> (repeat (apply funext; intro)) <;> rename_i i <;> fin_cases i <;>
    first | rfl | (simp [U12.add, U12.sub, U12.mul, U12.div, U12.copyDerivatives, U12.adds, U12.subs, U12.muls, U12.divs, U12.assign, U12.neg, U12.clearDerivatives, U12.sadd, U12.ssub, U12.smul, U12.sdiv, U12.const, U12.varBase, L.add, L.sub, L.mul, L.div, L.copyDerivatives, L.adds, L.subs, L.muls, L.divs, L.assign, L.neg, L.clearDerivatives, L.sadd, L.ssub, L.smul, L.sdiv, L.const, L.varBase] <;> ring1)
theorem D_ops_eq_loop_field {n : Nat} : (D.ops : ADOps K n) = L.ops := by
  unfold D.ops L.ops
  congr 1 <;> (repeat (apply funext; intro)) <;> rename_i i <;>
    first | rfl | (by_cases h : i.val = 0 <;> simp [D.add, D.sub, D.mul, D.div, D.copyDerivatives, D.adds, D.subs, D.muls, D.divs, D.assign, D.neg, D.clearDerivatives, D.sadd, D.ssub, D.smul, D.sdiv, D.const, D.varBase, L.add, L.sub, L.mul, L.div, L.copyDerivatives, L.adds, L.subs, L.muls, L.divs, L.assign, L.neg, L.clearDerivatives, L.sadd, L.ssub, L.smul, L.sdiv, L.const, L.varBase, h] <;> ring1)
end field

/-! ### DynamicEvaluation.hpp: the same expressions as the generic loop form, for every n -/
theorem D_add_eq_loop {n : Nat} (a b : Fin (n + 1) → α) : D.add (n := n) a b = L.add a b := rfl
theorem D_sub_eq_loop {n : Nat} (a b : Fin (n + 1) → α) : D.sub (n := n) a b = L.sub a b := rfl
theorem D_mul_eq_loop {n : Nat} (a b : Fin (n + 1) → α) : D.mul (n := n) a b = L.mul a b := rfl
theorem D_div_eq_loop {n : Nat} (a b : Fin (n + 1) → α) : D.div (n := n) a b = L.div a b := rfl
theorem D_copyDerivatives_eq_loop {n : Nat} (a b : Fin (n + 1) → α) : D.copyDerivatives (n := n) a b = L.copyDerivatives a b := rfl
theorem D_adds_eq_loop {n : Nat} (a : Fin (n + 1) → α) (c : α) : D.adds (n := n) a c = L.adds a c := rfl
theorem D_subs_eq_loop {n : Nat} (a : Fin (n + 1) → α) (c : α) : D.subs (n := n) a c = L.subs a c := rfl
theorem D_muls_eq_loop {n : Nat} (a : Fin (n + 1) → α) (c : α) : D.muls (n := n) a c = L.muls a c := rfl
theorem D_divs_eq_loop {n : Nat} (a : Fin (n + 1) → α) (c : α) : D.divs (n := n) a c = L.divs a c := rfl
theorem D_assign_eq_loop {n : Nat} (a : Fin (n + 1) → α) (c : α) : D.assign (n := n) a c = L.assign a c := rfl
theorem D_neg_eq_loop {n : Nat} (a : Fin (n + 1) → α) : D.neg (n := n) a = L.neg a := rfl
theorem D_clearDerivatives_eq_loop {n : Nat} (a : Fin (n + 1) → α) : D.clearDerivatives (n := n) a = L.clearDerivatives a := rfl
theorem D_sadd_eq_loop {n : Nat} (c : α) (a : Fin (n + 1) → α) : D.sadd (n := n) c a = L.sadd c a := rfl
theorem D_ssub_eq_loop {n : Nat} (c : α) (a : Fin (n + 1) → α) : D.ssub (n := n) c a = L.ssub c a := rfl
theorem D_smul_eq_loop {n : Nat} (c : α) (a : Fin (n + 1) → α) : D.smul (n := n) c a = L.smul c a := rfl
theorem D_sdiv_eq_loop {n : Nat} (c : α) (a : Fin (n + 1) → α) : D.sdiv (n := n) c a = L.sdiv c a := rfl
theorem D_const_eq_loop {n : Nat} (c : α) : D.const (n := n) c = L.const c := rfl
theorem D_varBase_eq_loop {n : Nat} (c : α) : D.varBase (n := n) c = L.varBase c := rfl
theorem D_ops_eq_loop {n : Nat} : (D.ops : ADOps α n) = L.ops := rfl

end OpmVerif.DenseAd.GenProofs
