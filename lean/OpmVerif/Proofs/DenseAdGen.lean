/- Instantiated from the template `obligations()` of translate/densead.py — regenerate with
   `python3 -m translate.densead --obligations`.  One obligation per (size, operator):
   the unrolled specialisation Evaluation<N>.hpp computes, slot by slot, the very expression of the
   generic loop form (Evaluation.hpp) at n = N.  A wrong index / sign / operand in one slot of one
   header makes exactly that `rfl` fail. -/
import OpmVerif.Gen.DenseAd
import Mathlib.Tactic.FinCases
import Mathlib.Data.Fintype.Basic
import Mathlib.Tactic.Ring
import Mathlib.Tactic.FieldSimp
import Mathlib.Algebra.Field.Basic

set_option linter.unusedSectionVars false
set_option linter.unusedTactic false
set_option linter.unreachableTactic false
set_option linter.unusedSimpArgs false

namespace OpmVerif.DenseAd.GenProofs
open OpmVerif.DenseAd.Gen

variable {α : Type} [Add α] [Sub α] [Mul α] [Div α] [Neg α] [OfNat α 0] [OfNat α 1] [OfNat α 2]

/-! ### Evaluation1.hpp -/
theorem U1_add_eq_loop (a b : Fin (2) → α) : U1.add a b = L.add (n := 1) a b := by
  funext i; fin_cases i <;> rfl
theorem U1_sub_eq_loop (a b : Fin (2) → α) : U1.sub a b = L.sub (n := 1) a b := by
  funext i; fin_cases i <;> rfl
theorem U1_mul_eq_loop (a b : Fin (2) → α) : U1.mul a b = L.mul (n := 1) a b := by
  funext i; fin_cases i <;> rfl
theorem U1_div_eq_loop (a b : Fin (2) → α) : U1.div a b = L.div (n := 1) a b := by
  funext i; fin_cases i <;> rfl
theorem U1_copyDerivatives_eq_loop (a b : Fin (2) → α) : U1.copyDerivatives a b = L.copyDerivatives (n := 1) a b := by
  funext i; fin_cases i <;> rfl
theorem U1_adds_eq_loop (a : Fin (2) → α) (c : α) : U1.adds a c = L.adds (n := 1) a c := by
  funext i; fin_cases i <;> rfl
theorem U1_subs_eq_loop (a : Fin (2) → α) (c : α) : U1.subs a c = L.subs (n := 1) a c := by
  funext i; fin_cases i <;> rfl
theorem U1_muls_eq_loop (a : Fin (2) → α) (c : α) : U1.muls a c = L.muls (n := 1) a c := by
  funext i; fin_cases i <;> rfl
theorem U1_divs_eq_loop (a : Fin (2) → α) (c : α) : U1.divs a c = L.divs (n := 1) a c := by
  funext i; fin_cases i <;> rfl
theorem U1_assign_eq_loop (a : Fin (2) → α) (c : α) : U1.assign a c = L.assign (n := 1) a c := by
  funext i; fin_cases i <;> rfl
theorem U1_neg_eq_loop (a : Fin (2) → α) : U1.neg a = L.neg (n := 1) a := by
  funext i; fin_cases i <;> rfl
theorem U1_clearDerivatives_eq_loop (a : Fin (2) → α) : U1.clearDerivatives a = L.clearDerivatives (n := 1) a := by
  funext i; fin_cases i <;> rfl
theorem U1_sadd_eq_loop (c : α) (a : Fin (2) → α) : U1.sadd c a = L.sadd (n := 1) c a := by
  funext i; fin_cases i <;> rfl
theorem U1_ssub_eq_loop (c : α) (a : Fin (2) → α) : U1.ssub c a = L.ssub (n := 1) c a := by
  funext i; fin_cases i <;> rfl
theorem U1_smul_eq_loop (c : α) (a : Fin (2) → α) : U1.smul c a = L.smul (n := 1) c a := by
  funext i; fin_cases i <;> rfl
theorem U1_sdiv_eq_loop (c : α) (a : Fin (2) → α) : U1.sdiv c a = L.sdiv (n := 1) c a := by
  funext i; fin_cases i <;> rfl
theorem U1_const_eq_loop (c : α) : U1.const c = L.const (n := 1) c := by
  funext i; fin_cases i <;> rfl
theorem U1_varBase_eq_loop (c : α) : U1.varBase c = L.varBase (n := 1) c := by
  funext i; fin_cases i <;> rfl
theorem U1_ops_eq_loop : (U1.ops : ADOps α 1) = L.ops := by
  unfold U1.ops L.ops
  congr 1 <;> (repeat (apply funext; intro)) <;> rename_i i <;> fin_cases i <;> rfl

/-! ### Evaluation2.hpp -/
theorem U2_add_eq_loop (a b : Fin (3) → α) : U2.add a b = L.add (n := 2) a b := by
  funext i; fin_cases i <;> rfl
theorem U2_sub_eq_loop (a b : Fin (3) → α) : U2.sub a b = L.sub (n := 2) a b := by
  funext i; fin_cases i <;> rfl
theorem U2_mul_eq_loop (a b : Fin (3) → α) : U2.mul a b = L.mul (n := 2) a b := by
  funext i; fin_cases i <;> rfl
theorem U2_div_eq_loop (a b : Fin (3) → α) : U2.div a b = L.div (n := 2) a b := by
  funext i; fin_cases i <;> rfl
theorem U2_copyDerivatives_eq_loop (a b : Fin (3) → α) : U2.copyDerivatives a b = L.copyDerivatives (n := 2) a b := by
  funext i; fin_cases i <;> rfl
theorem U2_adds_eq_loop (a : Fin (3) → α) (c : α) : U2.adds a c = L.adds (n := 2) a c := by
  funext i; fin_cases i <;> rfl
theorem U2_subs_eq_loop (a : Fin (3) → α) (c : α) : U2.subs a c = L.subs (n := 2) a c := by
  funext i; fin_cases i <;> rfl
theorem U2_muls_eq_loop (a : Fin (3) → α) (c : α) : U2.muls a c = L.muls (n := 2) a c := by
  funext i; fin_cases i <;> rfl
theorem U2_divs_eq_loop (a : Fin (3) → α) (c : α) : U2.divs a c = L.divs (n := 2) a c := by
  funext i; fin_cases i <;> rfl
theorem U2_assign_eq_loop (a : Fin (3) → α) (c : α) : U2.assign a c = L.assign (n := 2) a c := by
  funext i; fin_cases i <;> rfl
theorem U2_neg_eq_loop (a : Fin (3) → α) : U2.neg a = L.neg (n := 2) a := by
  funext i; fin_cases i <;> rfl
theorem U2_clearDerivatives_eq_loop (a : Fin (3) → α) : U2.clearDerivatives a = L.clearDerivatives (n := 2) a := by
  funext i; fin_cases i <;> rfl
theorem U2_sadd_eq_loop (c : α) (a : Fin (3) → α) : U2.sadd c a = L.sadd (n := 2) c a := by
  funext i; fin_cases i <;> rfl
theorem U2_ssub_eq_loop (c : α) (a : Fin (3) → α) : U2.ssub c a = L.ssub (n := 2) c a := by
  funext i; fin_cases i <;> rfl
theorem U2_smul_eq_loop (c : α) (a : Fin (3) → α) : U2.smul c a = L.smul (n := 2) c a := by
  funext i; fin_cases i <;> rfl
theorem U2_sdiv_eq_loop (c : α) (a : Fin (3) → α) : U2.sdiv c a = L.sdiv (n := 2) c a := by
  funext i; fin_cases i <;> rfl
theorem U2_const_eq_loop (c : α) : U2.const c = L.const (n := 2) c := by
  funext i; fin_cases i <;> rfl
theorem U2_varBase_eq_loop (c : α) : U2.varBase c = L.varBase (n := 2) c := by
  funext i; fin_cases i <;> rfl
theorem U2_ops_eq_loop : (U2.ops : ADOps α 2) = L.ops := by
  unfold U2.ops L.ops
  congr 1 <;> (repeat (apply funext; intro)) <;> rename_i i <;> fin_cases i <;> rfl

/-! ### Evaluation3.hpp -/
theorem U3_add_eq_loop (a b : Fin (4) → α) : U3.add a b = L.add (n := 3) a b := by
  funext i; fin_cases i <;> rfl
theorem U3_sub_eq_loop (a b : Fin (4) → α) : U3.sub a b = L.sub (n := 3) a b := by
  funext i; fin_cases i <;> rfl
theorem U3_mul_eq_loop (a b : Fin (4) → α) : U3.mul a b = L.mul (n := 3) a b := by
  funext i; fin_cases i <;> rfl
theorem U3_div_eq_loop (a b : Fin (4) → α) : U3.div a b = L.div (n := 3) a b := by
  funext i; fin_cases i <;> rfl
theorem U3_copyDerivatives_eq_loop (a b : Fin (4) → α) : U3.copyDerivatives a b = L.copyDerivatives (n := 3) a b := by
  funext i; fin_cases i <;> rfl
theorem U3_adds_eq_loop (a : Fin (4) → α) (c : α) : U3.adds a c = L.adds (n := 3) a c := by
  funext i; fin_cases i <;> rfl
theorem U3_subs_eq_loop (a : Fin (4) → α) (c : α) : U3.subs a c = L.subs (n := 3) a c := by
  funext i; fin_cases i <;> rfl
theorem U3_muls_eq_loop (a : Fin (4) → α) (c : α) : U3.muls a c = L.muls (n := 3) a c := by
  funext i; fin_cases i <;> rfl
theorem U3_divs_eq_loop (a : Fin (4) → α) (c : α) : U3.divs a c = L.divs (n := 3) a c := by
  funext i; fin_cases i <;> rfl
theorem U3_assign_eq_loop (a : Fin (4) → α) (c : α) : U3.assign a c = L.assign (n := 3) a c := by
  funext i; fin_cases i <;> rfl
theorem U3_neg_eq_loop (a : Fin (4) → α) : U3.neg a = L.neg (n := 3) a := by
  funext i; fin_cases i <;> rfl
theorem U3_clearDerivatives_eq_loop (a : Fin (4) → α) : U3.clearDerivatives a = L.clearDerivatives (n := 3) a := by
  funext i; fin_cases i <;> rfl
theorem U3_sadd_eq_loop (c : α) (a : Fin (4) → α) : U3.sadd c a = L.sadd (n := 3) c a := by
  funext i; fin_cases i <;> rfl
theorem U3_ssub_eq_loop (c : α) (a : Fin (4) → α) : U3.ssub c a = L.ssub (n := 3) c a := by
  funext i; fin_cases i <;> rfl
theorem U3_smul_eq_loop (c : α) (a : Fin (4) → α) : U3.smul c a = L.smul (n := 3) c a := by
  funext i; fin_cases i <;> rfl
theorem U3_sdiv_eq_loop (c : α) (a : Fin (4) → α) : U3.sdiv c a = L.sdiv (n := 3) c a := by
  funext i; fin_cases i <;> rfl
theorem U3_const_eq_loop (c : α) : U3.const c = L.const (n := 3) c := by
  funext i; fin_cases i <;> rfl
theorem U3_varBase_eq_loop (c : α) : U3.varBase c = L.varBase (n := 3) c := by
  funext i; fin_cases i <;> rfl
theorem U3_ops_eq_loop : (U3.ops : ADOps α 3) = L.ops := by
  unfold U3.ops L.ops
  congr 1 <;> (repeat (apply funext; intro)) <;> rename_i i <;> fin_cases i <;> rfl

/-! ### Evaluation4.hpp -/
theorem U4_add_eq_loop (a b : Fin (5) → α) : U4.add a b = L.add (n := 4) a b := by
  funext i; fin_cases i <;> rfl
theorem U4_sub_eq_loop (a b : Fin (5) → α) : U4.sub a b = L.sub (n := 4) a b := by
  funext i; fin_cases i <;> rfl
theorem U4_mul_eq_loop (a b : Fin (5) → α) : U4.mul a b = L.mul (n := 4) a b := by
  funext i; fin_cases i <;> rfl
theorem U4_div_eq_loop (a b : Fin (5) → α) : U4.div a b = L.div (n := 4) a b := by
  funext i; fin_cases i <;> rfl
theorem U4_copyDerivatives_eq_loop (a b : Fin (5) → α) : U4.copyDerivatives a b = L.copyDerivatives (n := 4) a b := by
  funext i; fin_cases i <;> rfl
theorem U4_adds_eq_loop (a : Fin (5) → α) (c : α) : U4.adds a c = L.adds (n := 4) a c := by
  funext i; fin_cases i <;> rfl
theorem U4_subs_eq_loop (a : Fin (5) → α) (c : α) : U4.subs a c = L.subs (n := 4) a c := by
  funext i; fin_cases i <;> rfl
theorem U4_muls_eq_loop (a : Fin (5) → α) (c : α) : U4.muls a c = L.muls (n := 4) a c := by
  funext i; fin_cases i <;> rfl
theorem U4_divs_eq_loop (a : Fin (5) → α) (c : α) : U4.divs a c = L.divs (n := 4) a c := by
  funext i; fin_cases i <;> rfl
theorem U4_assign_eq_loop (a : Fin (5) → α) (c : α) : U4.assign a c = L.assign (n := 4) a c := by
  funext i; fin_cases i <;> rfl
theorem U4_neg_eq_loop (a : Fin (5) → α) : U4.neg a = L.neg (n := 4) a := by
  funext i; fin_cases i <;> rfl
theorem U4_clearDerivatives_eq_loop (a : Fin (5) → α) : U4.clearDerivatives a = L.clearDerivatives (n := 4) a := by
  funext i; fin_cases i <;> rfl
theorem U4_sadd_eq_loop (c : α) (a : Fin (5) → α) : U4.sadd c a = L.sadd (n := 4) c a := by
  funext i; fin_cases i <;> rfl
theorem U4_ssub_eq_loop (c : α) (a : Fin (5) → α) : U4.ssub c a = L.ssub (n := 4) c a := by
  funext i; fin_cases i <;> rfl
theorem U4_smul_eq_loop (c : α) (a : Fin (5) → α) : U4.smul c a = L.smul (n := 4) c a := by
  funext i; fin_cases i <;> rfl
theorem U4_sdiv_eq_loop (c : α) (a : Fin (5) → α) : U4.sdiv c a = L.sdiv (n := 4) c a := by
  funext i; fin_cases i <;> rfl
theorem U4_const_eq_loop (c : α) : U4.const c = L.const (n := 4) c := by
  funext i; fin_cases i <;> rfl
theorem U4_varBase_eq_loop (c : α) : U4.varBase c = L.varBase (n := 4) c := by
  funext i; fin_cases i <;> rfl
theorem U4_ops_eq_loop : (U4.ops : ADOps α 4) = L.ops := by
  unfold U4.ops L.ops
  congr 1 <;> (repeat (apply funext; intro)) <;> rename_i i <;> fin_cases i <;> rfl

/-! ### Evaluation5.hpp -/
theorem U5_add_eq_loop (a b : Fin (6) → α) : U5.add a b = L.add (n := 5) a b := by
  funext i; fin_cases i <;> rfl
theorem U5_sub_eq_loop (a b : Fin (6) → α) : U5.sub a b = L.sub (n := 5) a b := by
  funext i; fin_cases i <;> rfl
theorem U5_mul_eq_loop (a b : Fin (6) → α) : U5.mul a b = L.mul (n := 5) a b := by
  funext i; fin_cases i <;> rfl
theorem U5_div_eq_loop (a b : Fin (6) → α) : U5.div a b = L.div (n := 5) a b := by
  funext i; fin_cases i <;> rfl
theorem U5_copyDerivatives_eq_loop (a b : Fin (6) → α) : U5.copyDerivatives a b = L.copyDerivatives (n := 5) a b := by
  funext i; fin_cases i <;> rfl
theorem U5_adds_eq_loop (a : Fin (6) → α) (c : α) : U5.adds a c = L.adds (n := 5) a c := by
  funext i; fin_cases i <;> rfl
theorem U5_subs_eq_loop (a : Fin (6) → α) (c : α) : U5.subs a c = L.subs (n := 5) a c := by
  funext i; fin_cases i <;> rfl
theorem U5_muls_eq_loop (a : Fin (6) → α) (c : α) : U5.muls a c = L.muls (n := 5) a c := by
  funext i; fin_cases i <;> rfl
theorem U5_divs_eq_loop (a : Fin (6) → α) (c : α) : U5.divs a c = L.divs (n := 5) a c := by
  funext i; fin_cases i <;> rfl
theorem U5_assign_eq_loop (a : Fin (6) → α) (c : α) : U5.assign a c = L.assign (n := 5) a c := by
  funext i; fin_cases i <;> rfl
theorem U5_neg_eq_loop (a : Fin (6) → α) : U5.neg a = L.neg (n := 5) a := by
  funext i; fin_cases i <;> rfl
theorem U5_clearDerivatives_eq_loop (a : Fin (6) → α) : U5.clearDerivatives a = L.clearDerivatives (n := 5) a := by
  funext i; fin_cases i <;> rfl
theorem U5_sadd_eq_loop (c : α) (a : Fin (6) → α) : U5.sadd c a = L.sadd (n := 5) c a := by
  funext i; fin_cases i <;> rfl
theorem U5_ssub_eq_loop (c : α) (a : Fin (6) → α) : U5.ssub c a = L.ssub (n := 5) c a := by
  funext i; fin_cases i <;> rfl
theorem U5_smul_eq_loop (c : α) (a : Fin (6) → α) : U5.smul c a = L.smul (n := 5) c a := by
  funext i; fin_cases i <;> rfl
theorem U5_sdiv_eq_loop (c : α) (a : Fin (6) → α) : U5.sdiv c a = L.sdiv (n := 5) c a := by
  funext i; fin_cases i <;> rfl
theorem U5_const_eq_loop (c : α) : U5.const c = L.const (n := 5) c := by
  funext i; fin_cases i <;> rfl
theorem U5_varBase_eq_loop (c : α) : U5.varBase c = L.varBase (n := 5) c := by
  funext i; fin_cases i <;> rfl
theorem U5_ops_eq_loop : (U5.ops : ADOps α 5) = L.ops := by
  unfold U5.ops L.ops
  congr 1 <;> (repeat (apply funext; intro)) <;> rename_i i <;> fin_cases i <;> rfl

/-! ### Evaluation6.hpp -/
theorem U6_add_eq_loop (a b : Fin (7) → α) : U6.add a b = L.add (n := 6) a b := by
  funext i; fin_cases i <;> rfl
theorem U6_sub_eq_loop (a b : Fin (7) → α) : U6.sub a b = L.sub (n := 6) a b := by
  funext i; fin_cases i <;> rfl
theorem U6_mul_eq_loop (a b : Fin (7) → α) : U6.mul a b = L.mul (n := 6) a b := by
  funext i; fin_cases i <;> rfl
theorem U6_div_eq_loop (a b : Fin (7) → α) : U6.div a b = L.div (n := 6) a b := by
  funext i; fin_cases i <;> rfl
theorem U6_copyDerivatives_eq_loop (a b : Fin (7) → α) : U6.copyDerivatives a b = L.copyDerivatives (n := 6) a b := by
  funext i; fin_cases i <;> rfl
theorem U6_adds_eq_loop (a : Fin (7) → α) (c : α) : U6.adds a c = L.adds (n := 6) a c := by
  funext i; fin_cases i <;> rfl
theorem U6_subs_eq_loop (a : Fin (7) → α) (c : α) : U6.subs a c = L.subs (n := 6) a c := by
  funext i; fin_cases i <;> rfl
theorem U6_muls_eq_loop (a : Fin (7) → α) (c : α) : U6.muls a c = L.muls (n := 6) a c := by
  funext i; fin_cases i <;> rfl
theorem U6_divs_eq_loop (a : Fin (7) → α) (c : α) : U6.divs a c = L.divs (n := 6) a c := by
  funext i; fin_cases i <;> rfl
theorem U6_assign_eq_loop (a : Fin (7) → α) (c : α) : U6.assign a c = L.assign (n := 6) a c := by
  funext i; fin_cases i <;> rfl
theorem U6_neg_eq_loop (a : Fin (7) → α) : U6.neg a = L.neg (n := 6) a := by
  funext i; fin_cases i <;> rfl
theorem U6_clearDerivatives_eq_loop (a : Fin (7) → α) : U6.clearDerivatives a = L.clearDerivatives (n := 6) a := by
  funext i; fin_cases i <;> rfl
theorem U6_sadd_eq_loop (c : α) (a : Fin (7) → α) : U6.sadd c a = L.sadd (n := 6) c a := by
  funext i; fin_cases i <;> rfl
theorem U6_ssub_eq_loop (c : α) (a : Fin (7) → α) : U6.ssub c a = L.ssub (n := 6) c a := by
  funext i; fin_cases i <;> rfl
theorem U6_smul_eq_loop (c : α) (a : Fin (7) → α) : U6.smul c a = L.smul (n := 6) c a := by
  funext i; fin_cases i <;> rfl
theorem U6_sdiv_eq_loop (c : α) (a : Fin (7) → α) : U6.sdiv c a = L.sdiv (n := 6) c a := by
  funext i; fin_cases i <;> rfl
theorem U6_const_eq_loop (c : α) : U6.const c = L.const (n := 6) c := by
  funext i; fin_cases i <;> rfl
theorem U6_varBase_eq_loop (c : α) : U6.varBase c = L.varBase (n := 6) c := by
  funext i; fin_cases i <;> rfl
theorem U6_ops_eq_loop : (U6.ops : ADOps α 6) = L.ops := by
  unfold U6.ops L.ops
  congr 1 <;> (repeat (apply funext; intro)) <;> rename_i i <;> fin_cases i <;> rfl

/-! ### Evaluation7.hpp -/
theorem U7_add_eq_loop (a b : Fin (8) → α) : U7.add a b = L.add (n := 7) a b := by
  funext i; fin_cases i <;> rfl
theorem U7_sub_eq_loop (a b : Fin (8) → α) : U7.sub a b = L.sub (n := 7) a b := by
  funext i; fin_cases i <;> rfl
theorem U7_mul_eq_loop (a b : Fin (8) → α) : U7.mul a b = L.mul (n := 7) a b := by
  funext i; fin_cases i <;> rfl
theorem U7_div_eq_loop (a b : Fin (8) → α) : U7.div a b = L.div (n := 7) a b := by
  funext i; fin_cases i <;> rfl
theorem U7_copyDerivatives_eq_loop (a b : Fin (8) → α) : U7.copyDerivatives a b = L.copyDerivatives (n := 7) a b := by
  funext i; fin_cases i <;> rfl
theorem U7_adds_eq_loop (a : Fin (8) → α) (c : α) : U7.adds a c = L.adds (n := 7) a c := by
  funext i; fin_cases i <;> rfl
theorem U7_subs_eq_loop (a : Fin (8) → α) (c : α) : U7.subs a c = L.subs (n := 7) a c := by
  funext i; fin_cases i <;> rfl
theorem U7_muls_eq_loop (a : Fin (8) → α) (c : α) : U7.muls a c = L.muls (n := 7) a c := by
  funext i; fin_cases i <;> rfl
theorem U7_divs_eq_loop (a : Fin (8) → α) (c : α) : U7.divs a c = L.divs (n := 7) a c := by
  funext i; fin_cases i <;> rfl
theorem U7_assign_eq_loop (a : Fin (8) → α) (c : α) : U7.assign a c = L.assign (n := 7) a c := by
  funext i; fin_cases i <;> rfl
theorem U7_neg_eq_loop (a : Fin (8) → α) : U7.neg a = L.neg (n := 7) a := by
  funext i; fin_cases i <;> rfl
theorem U7_clearDerivatives_eq_loop (a : Fin (8) → α) : U7.clearDerivatives a = L.clearDerivatives (n := 7) a := by
  funext i; fin_cases i <;> rfl
theorem U7_sadd_eq_loop (c : α) (a : Fin (8) → α) : U7.sadd c a = L.sadd (n := 7) c a := by
  funext i; fin_cases i <;> rfl
theorem U7_ssub_eq_loop (c : α) (a : Fin (8) → α) : U7.ssub c a = L.ssub (n := 7) c a := by
  funext i; fin_cases i <;> rfl
theorem U7_smul_eq_loop (c : α) (a : Fin (8) → α) : U7.smul c a = L.smul (n := 7) c a := by
  funext i; fin_cases i <;> rfl
theorem U7_sdiv_eq_loop (c : α) (a : Fin (8) → α) : U7.sdiv c a = L.sdiv (n := 7) c a := by
  funext i; fin_cases i <;> rfl
theorem U7_const_eq_loop (c : α) : U7.const c = L.const (n := 7) c := by
  funext i; fin_cases i <;> rfl
theorem U7_varBase_eq_loop (c : α) : U7.varBase c = L.varBase (n := 7) c := by
  funext i; fin_cases i <;> rfl
theorem U7_ops_eq_loop : (U7.ops : ADOps α 7) = L.ops := by
  unfold U7.ops L.ops
  congr 1 <;> (repeat (apply funext; intro)) <;> rename_i i <;> fin_cases i <;> rfl

/-! ### Evaluation8.hpp -/
theorem U8_add_eq_loop (a b : Fin (9) → α) : U8.add a b = L.add (n := 8) a b := by
  funext i; fin_cases i <;> rfl
theorem U8_sub_eq_loop (a b : Fin (9) → α) : U8.sub a b = L.sub (n := 8) a b := by
  funext i; fin_cases i <;> rfl
theorem U8_mul_eq_loop (a b : Fin (9) → α) : U8.mul a b = L.mul (n := 8) a b := by
  funext i; fin_cases i <;> rfl
theorem U8_div_eq_loop (a b : Fin (9) → α) : U8.div a b = L.div (n := 8) a b := by
  funext i; fin_cases i <;> rfl
theorem U8_copyDerivatives_eq_loop (a b : Fin (9) → α) : U8.copyDerivatives a b = L.copyDerivatives (n := 8) a b := by
  funext i; fin_cases i <;> rfl
theorem U8_adds_eq_loop (a : Fin (9) → α) (c : α) : U8.adds a c = L.adds (n := 8) a c := by
  funext i; fin_cases i <;> rfl
theorem U8_subs_eq_loop (a : Fin (9) → α) (c : α) : U8.subs a c = L.subs (n := 8) a c := by
  funext i; fin_cases i <;> rfl
theorem U8_muls_eq_loop (a : Fin (9) → α) (c : α) : U8.muls a c = L.muls (n := 8) a c := by
  funext i; fin_cases i <;> rfl
theorem U8_divs_eq_loop (a : Fin (9) → α) (c : α) : U8.divs a c = L.divs (n := 8) a c := by
  funext i; fin_cases i <;> rfl
theorem U8_assign_eq_loop (a : Fin (9) → α) (c : α) : U8.assign a c = L.assign (n := 8) a c := by
  funext i; fin_cases i <;> rfl
theorem U8_neg_eq_loop (a : Fin (9) → α) : U8.neg a = L.neg (n := 8) a := by
  funext i; fin_cases i <;> rfl
theorem U8_clearDerivatives_eq_loop (a : Fin (9) → α) : U8.clearDerivatives a = L.clearDerivatives (n := 8) a := by
  funext i; fin_cases i <;> rfl
theorem U8_sadd_eq_loop (c : α) (a : Fin (9) → α) : U8.sadd c a = L.sadd (n := 8) c a := by
  funext i; fin_cases i <;> rfl
theorem U8_ssub_eq_loop (c : α) (a : Fin (9) → α) : U8.ssub c a = L.ssub (n := 8) c a := by
  funext i; fin_cases i <;> rfl
theorem U8_smul_eq_loop (c : α) (a : Fin (9) → α) : U8.smul c a = L.smul (n := 8) c a := by
  funext i; fin_cases i <;> rfl
theorem U8_sdiv_eq_loop (c : α) (a : Fin (9) → α) : U8.sdiv c a = L.sdiv (n := 8) c a := by
  funext i; fin_cases i <;> rfl
theorem U8_const_eq_loop (c : α) : U8.const c = L.const (n := 8) c := by
  funext i; fin_cases i <;> rfl
theorem U8_varBase_eq_loop (c : α) : U8.varBase c = L.varBase (n := 8) c := by
  funext i; fin_cases i <;> rfl
theorem U8_ops_eq_loop : (U8.ops : ADOps α 8) = L.ops := by
  unfold U8.ops L.ops
  congr 1 <;> (repeat (apply funext; intro)) <;> rename_i i <;> fin_cases i <;> rfl

/-! ### Evaluation9.hpp -/
theorem U9_add_eq_loop (a b : Fin (10) → α) : U9.add a b = L.add (n := 9) a b := by
  funext i; fin_cases i <;> rfl
theorem U9_sub_eq_loop (a b : Fin (10) → α) : U9.sub a b = L.sub (n := 9) a b := by
  funext i; fin_cases i <;> rfl
theorem U9_mul_eq_loop (a b : Fin (10) → α) : U9.mul a b = L.mul (n := 9) a b := by
  funext i; fin_cases i <;> rfl
theorem U9_div_eq_loop (a b : Fin (10) → α) : U9.div a b = L.div (n := 9) a b := by
  funext i; fin_cases i <;> rfl
theorem U9_copyDerivatives_eq_loop (a b : Fin (10) → α) : U9.copyDerivatives a b = L.copyDerivatives (n := 9) a b := by
  funext i; fin_cases i <;> rfl
theorem U9_adds_eq_loop (a : Fin (10) → α) (c : α) : U9.adds a c = L.adds (n := 9) a c := by
  funext i; fin_cases i <;> rfl
theorem U9_subs_eq_loop (a : Fin (10) → α) (c : α) : U9.subs a c = L.subs (n := 9) a c := by
  funext i; fin_cases i <;> rfl
theorem U9_muls_eq_loop (a : Fin (10) → α) (c : α) : U9.muls a c = L.muls (n := 9) a c := by
  funext i; fin_cases i <;> rfl
theorem U9_divs_eq_loop (a : Fin (10) → α) (c : α) : U9.divs a c = L.divs (n := 9) a c := by
  funext i; fin_cases i <;> rfl
theorem U9_assign_eq_loop (a : Fin (10) → α) (c : α) : U9.assign a c = L.assign (n := 9) a c := by
  funext i; fin_cases i <;> rfl
theorem U9_neg_eq_loop (a : Fin (10) → α) : U9.neg a = L.neg (n := 9) a := by
  funext i; fin_cases i <;> rfl
theorem U9_clearDerivatives_eq_loop (a : Fin (10) → α) : U9.clearDerivatives a = L.clearDerivatives (n := 9) a := by
  funext i; fin_cases i <;> rfl
theorem U9_sadd_eq_loop (c : α) (a : Fin (10) → α) : U9.sadd c a = L.sadd (n := 9) c a := by
  funext i; fin_cases i <;> rfl
theorem U9_ssub_eq_loop (c : α) (a : Fin (10) → α) : U9.ssub c a = L.ssub (n := 9) c a := by
  funext i; fin_cases i <;> rfl
theorem U9_smul_eq_loop (c : α) (a : Fin (10) → α) : U9.smul c a = L.smul (n := 9) c a := by
  funext i; fin_cases i <;> rfl
theorem U9_sdiv_eq_loop (c : α) (a : Fin (10) → α) : U9.sdiv c a = L.sdiv (n := 9) c a := by
  funext i; fin_cases i <;> rfl
theorem U9_const_eq_loop (c : α) : U9.const c = L.const (n := 9) c := by
  funext i; fin_cases i <;> rfl
theorem U9_varBase_eq_loop (c : α) : U9.varBase c = L.varBase (n := 9) c := by
  funext i; fin_cases i <;> rfl
theorem U9_ops_eq_loop : (U9.ops : ADOps α 9) = L.ops := by
  unfold U9.ops L.ops
  congr 1 <;> (repeat (apply funext; intro)) <;> rename_i i <;> fin_cases i <;> rfl

/-! ### Evaluation10.hpp -/
theorem U10_add_eq_loop (a b : Fin (11) → α) : U10.add a b = L.add (n := 10) a b := by
  funext i; fin_cases i <;> rfl
theorem U10_sub_eq_loop (a b : Fin (11) → α) : U10.sub a b = L.sub (n := 10) a b := by
  funext i; fin_cases i <;> rfl
theorem U10_mul_eq_loop (a b : Fin (11) → α) : U10.mul a b = L.mul (n := 10) a b := by
  funext i; fin_cases i <;> rfl
theorem U10_div_eq_loop (a b : Fin (11) → α) : U10.div a b = L.div (n := 10) a b := by
  funext i; fin_cases i <;> rfl
theorem U10_copyDerivatives_eq_loop (a b : Fin (11) → α) : U10.copyDerivatives a b = L.copyDerivatives (n := 10) a b := by
  funext i; fin_cases i <;> rfl
theorem U10_adds_eq_loop (a : Fin (11) → α) (c : α) : U10.adds a c = L.adds (n := 10) a c := by
  funext i; fin_cases i <;> rfl
theorem U10_subs_eq_loop (a : Fin (11) → α) (c : α) : U10.subs a c = L.subs (n := 10) a c := by
  funext i; fin_cases i <;> rfl
theorem U10_muls_eq_loop (a : Fin (11) → α) (c : α) : U10.muls a c = L.muls (n := 10) a c := by
  funext i; fin_cases i <;> rfl
theorem U10_divs_eq_loop (a : Fin (11) → α) (c : α) : U10.divs a c = L.divs (n := 10) a c := by
  funext i; fin_cases i <;> rfl
theorem U10_assign_eq_loop (a : Fin (11) → α) (c : α) : U10.assign a c = L.assign (n := 10) a c := by
  funext i; fin_cases i <;> rfl
theorem U10_neg_eq_loop (a : Fin (11) → α) : U10.neg a = L.neg (n := 10) a := by
  funext i; fin_cases i <;> rfl
theorem U10_clearDerivatives_eq_loop (a : Fin (11) → α) : U10.clearDerivatives a = L.clearDerivatives (n := 10) a := by
  funext i; fin_cases i <;> rfl
theorem U10_sadd_eq_loop (c : α) (a : Fin (11) → α) : U10.sadd c a = L.sadd (n := 10) c a := by
  funext i; fin_cases i <;> rfl
theorem U10_ssub_eq_loop (c : α) (a : Fin (11) → α) : U10.ssub c a = L.ssub (n := 10) c a := by
  funext i; fin_cases i <;> rfl
theorem U10_smul_eq_loop (c : α) (a : Fin (11) → α) : U10.smul c a = L.smul (n := 10) c a := by
  funext i; fin_cases i <;> rfl
theorem U10_sdiv_eq_loop (c : α) (a : Fin (11) → α) : U10.sdiv c a = L.sdiv (n := 10) c a := by
  funext i; fin_cases i <;> rfl
theorem U10_const_eq_loop (c : α) : U10.const c = L.const (n := 10) c := by
  funext i; fin_cases i <;> rfl
theorem U10_varBase_eq_loop (c : α) : U10.varBase c = L.varBase (n := 10) c := by
  funext i; fin_cases i <;> rfl
theorem U10_ops_eq_loop : (U10.ops : ADOps α 10) = L.ops := by
  unfold U10.ops L.ops
  congr 1 <;> (repeat (apply funext; intro)) <;> rename_i i <;> fin_cases i <;> rfl

/-! ### Evaluation11.hpp -/
theorem U11_add_eq_loop (a b : Fin (12) → α) : U11.add a b = L.add (n := 11) a b := by
  funext i; fin_cases i <;> rfl
theorem U11_sub_eq_loop (a b : Fin (12) → α) : U11.sub a b = L.sub (n := 11) a b := by
  funext i; fin_cases i <;> rfl
theorem U11_mul_eq_loop (a b : Fin (12) → α) : U11.mul a b = L.mul (n := 11) a b := by
  funext i; fin_cases i <;> rfl
theorem U11_div_eq_loop (a b : Fin (12) → α) : U11.div a b = L.div (n := 11) a b := by
  funext i; fin_cases i <;> rfl
theorem U11_copyDerivatives_eq_loop (a b : Fin (12) → α) : U11.copyDerivatives a b = L.copyDerivatives (n := 11) a b := by
  funext i; fin_cases i <;> rfl
theorem U11_adds_eq_loop (a : Fin (12) → α) (c : α) : U11.adds a c = L.adds (n := 11) a c := by
  funext i; fin_cases i <;> rfl
theorem U11_subs_eq_loop (a : Fin (12) → α) (c : α) : U11.subs a c = L.subs (n := 11) a c := by
  funext i; fin_cases i <;> rfl
theorem U11_muls_eq_loop (a : Fin (12) → α) (c : α) : U11.muls a c = L.muls (n := 11) a c := by
  funext i; fin_cases i <;> rfl
theorem U11_divs_eq_loop (a : Fin (12) → α) (c : α) : U11.divs a c = L.divs (n := 11) a c := by
  funext i; fin_cases i <;> rfl
theorem U11_assign_eq_loop (a : Fin (12) → α) (c : α) : U11.assign a c = L.assign (n := 11) a c := by
  funext i; fin_cases i <;> rfl
theorem U11_neg_eq_loop (a : Fin (12) → α) : U11.neg a = L.neg (n := 11) a := by
  funext i; fin_cases i <;> rfl
theorem U11_clearDerivatives_eq_loop (a : Fin (12) → α) : U11.clearDerivatives a = L.clearDerivatives (n := 11) a := by
  funext i; fin_cases i <;> rfl
theorem U11_sadd_eq_loop (c : α) (a : Fin (12) → α) : U11.sadd c a = L.sadd (n := 11) c a := by
  funext i; fin_cases i <;> rfl
theorem U11_ssub_eq_loop (c : α) (a : Fin (12) → α) : U11.ssub c a = L.ssub (n := 11) c a := by
  funext i; fin_cases i <;> rfl
theorem U11_smul_eq_loop (c : α) (a : Fin (12) → α) : U11.smul c a = L.smul (n := 11) c a := by
  funext i; fin_cases i <;> rfl
theorem U11_sdiv_eq_loop (c : α) (a : Fin (12) → α) : U11.sdiv c a = L.sdiv (n := 11) c a := by
  funext i; fin_cases i <;> rfl
theorem U11_const_eq_loop (c : α) : U11.const c = L.const (n := 11) c := by
  funext i; fin_cases i <;> rfl
theorem U11_varBase_eq_loop (c : α) : U11.varBase c = L.varBase (n := 11) c := by
  funext i; fin_cases i <;> rfl
theorem U11_ops_eq_loop : (U11.ops : ADOps α 11) = L.ops := by
  unfold U11.ops L.ops
  congr 1 <;> (repeat (apply funext; intro)) <;> rename_i i <;> fin_cases i <;> rfl

/-! ### Evaluation12.hpp -/
theorem U12_add_eq_loop (a b : Fin (13) → α) : U12.add a b = L.add (n := 12) a b := by
  funext i; fin_cases i <;> rfl
theorem U12_sub_eq_loop (a b : Fin (13) → α) : U12.sub a b = L.sub (n := 12) a b := by
  funext i; fin_cases i <;> rfl
theorem U12_mul_eq_loop (a b : Fin (13) → α) : U12.mul a b = L.mul (n := 12) a b := by
  funext i; fin_cases i <;> rfl
theorem U12_div_eq_loop (a b : Fin (13) → α) : U12.div a b = L.div (n := 12) a b := by
  funext i; fin_cases i <;> rfl
theorem U12_copyDerivatives_eq_loop (a b : Fin (13) → α) : U12.copyDerivatives a b = L.copyDerivatives (n := 12) a b := by
  funext i; fin_cases i <;> rfl
theorem U12_adds_eq_loop (a : Fin (13) → α) (c : α) : U12.adds a c = L.adds (n := 12) a c := by
  funext i; fin_cases i <;> rfl
theorem U12_subs_eq_loop (a : Fin (13) → α) (c : α) : U12.subs a c = L.subs (n := 12) a c := by
  funext i; fin_cases i <;> rfl
theorem U12_muls_eq_loop (a : Fin (13) → α) (c : α) : U12.muls a c = L.muls (n := 12) a c := by
  funext i; fin_cases i <;> rfl
theorem U12_divs_eq_loop (a : Fin (13) → α) (c : α) : U12.divs a c = L.divs (n := 12) a c := by
  funext i; fin_cases i <;> rfl
theorem U12_assign_eq_loop (a : Fin (13) → α) (c : α) : U12.assign a c = L.assign (n := 12) a c := by
  funext i; fin_cases i <;> rfl
theorem U12_neg_eq_loop (a : Fin (13) → α) : U12.neg a = L.neg (n := 12) a := by
  funext i; fin_cases i <;> rfl
theorem U12_clearDerivatives_eq_loop (a : Fin (13) → α) : U12.clearDerivatives a = L.clearDerivatives (n := 12) a := by
  funext i; fin_cases i <;> rfl
theorem U12_sadd_eq_loop (c : α) (a : Fin (13) → α) : U12.sadd c a = L.sadd (n := 12) c a := by
  funext i; fin_cases i <;> rfl
theorem U12_ssub_eq_loop (c : α) (a : Fin (13) → α) : U12.ssub c a = L.ssub (n := 12) c a := by
  funext i; fin_cases i <;> rfl
theorem U12_smul_eq_loop (c : α) (a : Fin (13) → α) : U12.smul c a = L.smul (n := 12) c a := by
  funext i; fin_cases i <;> rfl
theorem U12_sdiv_eq_loop (c : α) (a : Fin (13) → α) : U12.sdiv c a = L.sdiv (n := 12) c a := by
  funext i; fin_cases i <;> rfl
theorem U12_const_eq_loop (c : α) : U12.const c = L.const (n := 12) c := by
  funext i; fin_cases i <;> rfl
theorem U12_varBase_eq_loop (c : α) : U12.varBase c = L.varBase (n := 12) c := by
  funext i; fin_cases i <;> rfl
theorem U12_ops_eq_loop : (U12.ops : ADOps α 12) = L.ops := by
  unfold U12.ops L.ops
  congr 1 <;> (repeat (apply funext; intro)) <;> rename_i i <;> fin_cases i <;> rfl

/-! ### the same over a field, robust against algebraically neutral rewrites of a header:
    slot by slot `rfl`, else `ring` after unfolding -/
section field
variable {K : Type} [Field K]
macro "slot_eq" : tactic => `(tactic| first | rfl | (simp [L.add, L.sub, L.mul, L.div, L.copyDerivatives, L.adds, L.subs, L.muls, L.divs, L.assign, L.neg, L.clearDerivatives, L.sadd, L.ssub, L.smul, L.sdiv, L.const, L.varBase] <;> ring1) | (field_simp [L.add, L.sub, L.mul, L.div, L.copyDerivatives, L.adds, L.subs, L.muls, L.divs, L.assign, L.neg, L.clearDerivatives, L.sadd, L.ssub, L.smul, L.sdiv, L.const, L.varBase] <;> ring1))
theorem U1_ops_eq_loop_field : (U1.ops : ADOps K 1) = L.ops := by
  unfold U1.ops L.ops
  congr 1 <;> (repeat (apply funext; intro)) <;> rename_i i <;> fin_cases i <;>
    first | rfl | (simp [U1.add, U1.sub, U1.mul, U1.div, U1.copyDerivatives, U1.adds, U1.subs, U1.muls, U1.divs, U1.assign, U1.neg, U1.clearDerivatives, U1.sadd, U1.ssub, U1.smul, U1.sdiv, U1.const, U1.varBase, L.add, L.sub, L.mul, L.div, L.copyDerivatives, L.adds, L.subs, L.muls, L.divs, L.assign, L.neg, L.clearDerivatives, L.sadd, L.ssub, L.smul, L.sdiv, L.const, L.varBase] <;> ring1)
theorem U2_ops_eq_loop_field : (U2.ops : ADOps K 2) = L.ops := by
  unfold U2.ops L.ops
  congr 1 <;> (repeat (apply funext; intro)) <;> rename_i i <;> fin_cases i <;>
    first | rfl | (simp [U2.add, U2.sub, U2.mul, U2.div, U2.copyDerivatives, U2.adds, U2.subs, U2.muls, U2.divs, U2.assign, U2.neg, U2.clearDerivatives, U2.sadd, U2.ssub, U2.smul, U2.sdiv, U2.const, U2.varBase, L.add, L.sub, L.mul, L.div, L.copyDerivatives, L.adds, L.subs, L.muls, L.divs, L.assign, L.neg, L.clearDerivatives, L.sadd, L.ssub, L.smul, L.sdiv, L.const, L.varBase] <;> ring1)
theorem U3_ops_eq_loop_field : (U3.ops : ADOps K 3) = L.ops := by
  unfold U3.ops L.ops
  congr 1 <;> (repeat (apply funext; intro)) <;> rename_i i <;> fin_cases i <;>
    first | rfl | (simp [U3.add, U3.sub, U3.mul, U3.div, U3.copyDerivatives, U3.adds, U3.subs, U3.muls, U3.divs, U3.assign, U3.neg, U3.clearDerivatives, U3.sadd, U3.ssub, U3.smul, U3.sdiv, U3.const, U3.varBase, L.add, L.sub, L.mul, L.div, L.copyDerivatives, L.adds, L.subs, L.muls, L.divs, L.assign, L.neg, L.clearDerivatives, L.sadd, L.ssub, L.smul, L.sdiv, L.const, L.varBase] <;> ring1)
theorem U4_ops_eq_loop_field : (U4.ops : ADOps K 4) = L.ops := by
  unfold U4.ops L.ops
  congr 1 <;> (repeat (apply funext; intro)) <;> rename_i i <;> fin_cases i <;>
    first | rfl | (simp [U4.add, U4.sub, U4.mul, U4.div, U4.copyDerivatives, U4.adds, U4.subs, U4.muls, U4.divs, U4.assign, U4.neg, U4.clearDerivatives, U4.sadd, U4.ssub, U4.smul, U4.sdiv, U4.const, U4.varBase, L.add, L.sub, L.mul, L.div, L.copyDerivatives, L.adds, L.subs, L.muls, L.divs, L.assign, L.neg, L.clearDerivatives, L.sadd, L.ssub, L.smul, L.sdiv, L.const, L.varBase] <;> ring1)
theorem U5_ops_eq_loop_field : (U5.ops : ADOps K 5) = L.ops := by
  unfold U5.ops L.ops
  congr 1 <;> (repeat (apply funext; intro)) <;> rename_i i <;> fin_cases i <;>
    first | rfl | (simp [U5.add, U5.sub, U5.mul, U5.div, U5.copyDerivatives, U5.adds, U5.subs, U5.muls, U5.divs, U5.assign, U5.neg, U5.clearDerivatives, U5.sadd, U5.ssub, U5.smul, U5.sdiv, U5.const, U5.varBase, L.add, L.sub, L.mul, L.div, L.copyDerivatives, L.adds, L.subs, L.muls, L.divs, L.assign, L.neg, L.clearDerivatives, L.sadd, L.ssub, L.smul, L.sdiv, L.const, L.varBase] <;> ring1)
theorem U6_ops_eq_loop_field : (U6.ops : ADOps K 6) = L.ops := by
  unfold U6.ops L.ops
  congr 1 <;> (repeat (apply funext; intro)) <;> rename_i i <;> fin_cases i <;>
    first | rfl | (simp [U6.add, U6.sub, U6.mul, U6.div, U6.copyDerivatives, U6.adds, U6.subs, U6.muls, U6.divs, U6.assign, U6.neg, U6.clearDerivatives, U6.sadd, U6.ssub, U6.smul, U6.sdiv, U6.const, U6.varBase, L.add, L.sub, L.mul, L.div, L.copyDerivatives, L.adds, L.subs, L.muls, L.divs, L.assign, L.neg, L.clearDerivatives, L.sadd, L.ssub, L.smul, L.sdiv, L.const, L.varBase] <;> ring1)
theorem U7_ops_eq_loop_field : (U7.ops : ADOps K 7) = L.ops := by
  unfold U7.ops L.ops
  congr 1 <;> (repeat (apply funext; intro)) <;> rename_i i <;> fin_cases i <;>
    first | rfl | (simp [U7.add, U7.sub, U7.mul, U7.div, U7.copyDerivatives, U7.adds, U7.subs, U7.muls, U7.divs, U7.assign, U7.neg, U7.clearDerivatives, U7.sadd, U7.ssub, U7.smul, U7.sdiv, U7.const, U7.varBase, L.add, L.sub, L.mul, L.div, L.copyDerivatives, L.adds, L.subs, L.muls, L.divs, L.assign, L.neg, L.clearDerivatives, L.sadd, L.ssub, L.smul, L.sdiv, L.const, L.varBase] <;> ring1)
theorem U8_ops_eq_loop_field : (U8.ops : ADOps K 8) = L.ops := by
  unfold U8.ops L.ops
  congr 1 <;> (repeat (apply funext; intro)) <;> rename_i i <;> fin_cases i <;>
    first | rfl | (simp [U8.add, U8.sub, U8.mul, U8.div, U8.copyDerivatives, U8.adds, U8.subs, U8.muls, U8.divs, U8.assign, U8.neg, U8.clearDerivatives, U8.sadd, U8.ssub, U8.smul, U8.sdiv, U8.const, U8.varBase, L.add, L.sub, L.mul, L.div, L.copyDerivatives, L.adds, L.subs, L.muls, L.divs, L.assign, L.neg, L.clearDerivatives, L.sadd, L.ssub, L.smul, L.sdiv, L.const, L.varBase] <;> ring1)
theorem U9_ops_eq_loop_field : (U9.ops : ADOps K 9) = L.ops := by
  unfold U9.ops L.ops
  congr 1 <;> (repeat (apply funext; intro)) <;> rename_i i <;> fin_cases i <;>
    first | rfl | (simp [U9.add, U9.sub, U9.mul, U9.div, U9.copyDerivatives, U9.adds, U9.subs, U9.muls, U9.divs, U9.assign, U9.neg, U9.clearDerivatives, U9.sadd, U9.ssub, U9.smul, U9.sdiv, U9.const, U9.varBase, L.add, L.sub, L.mul, L.div, L.copyDerivatives, L.adds, L.subs, L.muls, L.divs, L.assign, L.neg, L.clearDerivatives, L.sadd, L.ssub, L.smul, L.sdiv, L.const, L.varBase] <;> ring1)
theorem U10_ops_eq_loop_field : (U10.ops : ADOps K 10) = L.ops := by
  unfold U10.ops L.ops
  congr 1 <;> (repeat (apply funext; intro)) <;> rename_i i <;> fin_cases i <;>
    first | rfl | (simp [U10.add, U10.sub, U10.mul, U10.div, U10.copyDerivatives, U10.adds, U10.subs, U10.muls, U10.divs, U10.assign, U10.neg, U10.clearDerivatives, U10.sadd, U10.ssub, U10.smul, U10.sdiv, U10.const, U10.varBase, L.add, L.sub, L.mul, L.div, L.copyDerivatives, L.adds, L.subs, L.muls, L.divs, L.assign, L.neg, L.clearDerivatives, L.sadd, L.ssub, L.smul, L.sdiv, L.const, L.varBase] <;> ring1)
theorem U11_ops_eq_loop_field : (U11.ops : ADOps K 11) = L.ops := by
  unfold U11.ops L.ops
  congr 1 <;> (repeat (apply funext; intro)) <;> rename_i i <;> fin_cases i <;>
    first | rfl | (simp [U11.add, U11.sub, U11.mul, U11.div, U11.copyDerivatives, U11.adds, U11.subs, U11.muls, U11.divs, U11.assign, U11.neg, U11.clearDerivatives, U11.sadd, U11.ssub, U11.smul, U11.sdiv, U11.const, U11.varBase, L.add, L.sub, L.mul, L.div, L.copyDerivatives, L.adds, L.subs, L.muls, L.divs, L.assign, L.neg, L.clearDerivatives, L.sadd, L.ssub, L.smul, L.sdiv, L.const, L.varBase] <;> ring1)
theorem U12_ops_eq_loop_field : (U12.ops : ADOps K 12) = L.ops := by
  unfold U12.ops L.ops
  congr 1 <;> (repeat (apply funext; intro)) <;> rename_i i <;> fin_cases i <;>
    first | rfl | (simp [U12.add, U12.sub, U12.mul, U12.div, U12.copyDerivatives, U12.adds, U12.subs, U12.muls, U12.divs, U12.assign, U12.neg, U12.clearDerivatives, U12.sadd, U12.ssub, U12.smul, U12.sdiv, U12.const, U12.varBase, L.add, L.sub, L.mul, L.div, L.copyDerivatives, L.adds, L.subs, L.muls, L.divs, L.assign, L.neg, L.clearDerivatives, L.sadd, L.ssub, L.smul, L.sdiv, L.const, L.varBase] <;> ring1)
theorem D_ops_eq_loop_field {n : Nat} : (D.ops : ADOps K n) = L.ops := by
  unfold D.ops L.ops
  congr 1 <;> (repeat (apply funext; intro)) <;> rename_i i <;>
    first | rfl | (by_cases h : i.val = 0 <;> simp [D.add, D.sub, D.mul, D.div, D.copyDerivatives, D.adds, D.subs, D.muls, D.divs, D.assign, D.neg, D.clearDerivatives, D.sadd, D.ssub, D.smul, D.sdiv, D.const, D.varBase, L.add, L.sub, L.mul, L.div, L.copyDerivatives, L.adds, L.subs, L.muls, L.divs, L.assign, L.neg, L.clearDerivatives, L.sadd, L.ssub, L.smul, L.sdiv, L.const, L.varBase, h] <;> ring1)
end field

/-! ### DynamicEvaluation.hpp: the same expressions as the generic loop form, for every n -/
theorem D_add_eq_loop {n : Nat} (a b : Fin (n + 1) → α) : D.add (n := n) a b = L.add a b := rfl
theorem D_sub_eq_loop {n : Nat} (a b : Fin (n + 1) → α) : D.sub (n := n) a b = L.sub a b := rfl
theorem D_mul_eq_loop {n : Nat} (a b : Fin (n + 1) → α) : D.mul (n := n) a b = L.mul a b := rfl
theorem D_div_eq_loop {n : Nat} (a b : Fin (n + 1) → α) : D.div (n := n) a b = L.div a b := rfl
theorem D_copyDerivatives_eq_loop {n : Nat} (a b : Fin (n + 1) → α) : D.copyDerivatives (n := n) a b = L.copyDerivatives a b := rfl
theorem D_adds_eq_loop {n : Nat} (a : Fin (n + 1) → α) (c : α) : D.adds (n := n) a c = L.adds a c := rfl
theorem D_subs_eq_loop {n : Nat} (a : Fin (n + 1) → α) (c : α) : D.subs (n := n) a c = L.subs a c := rfl
theorem D_muls_eq_loop {n : Nat} (a : Fin (n + 1) → α) (c : α) : D.muls (n := n) a c = L.muls a c := rfl
theorem D_divs_eq_loop {n : Nat} (a : Fin (n + 1) → α) (c : α) : D.divs (n := n) a c = L.divs a c := rfl
theorem D_assign_eq_loop {n : Nat} (a : Fin (n + 1) → α) (c : α) : D.assign (n := n) a c = L.assign a c := rfl
theorem D_neg_eq_loop {n : Nat} (a : Fin (n + 1) → α) : D.neg (n := n) a = L.neg a := rfl
theorem D_clearDerivatives_eq_loop {n : Nat} (a : Fin (n + 1) → α) : D.clearDerivatives (n := n) a = L.clearDerivatives a := rfl
theorem D_sadd_eq_loop {n : Nat} (c : α) (a : Fin (n + 1) → α) : D.sadd (n := n) c a = L.sadd c a := rfl
theorem D_ssub_eq_loop {n : Nat} (c : α) (a : Fin (n + 1) → α) : D.ssub (n := n) c a = L.ssub c a := rfl
theorem D_smul_eq_loop {n : Nat} (c : α) (a : Fin (n + 1) → α) : D.smul (n := n) c a = L.smul c a := rfl
theorem D_sdiv_eq_loop {n : Nat} (c : α) (a : Fin (n + 1) → α) : D.sdiv (n := n) c a = L.sdiv c a := rfl
theorem D_const_eq_loop {n : Nat} (c : α) : D.const (n := n) c = L.const c := rfl
theorem D_varBase_eq_loop {n : Nat} (c : α) : D.varBase (n := n) c = L.varBase c := rfl
theorem D_ops_eq_loop {n : Nat} : (D.ops : ADOps α n) = L.ops := rfl

/-! ### second operator set (`x op= x`, comparison operators, factories): every specialisation and the
    dynamic class compute the expressions of the generic loop form, for every carrier type -/
section second
variable [LT α] [DecidableLT α] [LE α] [DecidableLE α] [BEq α]

/-! #### Evaluation1.hpp -/
theorem U1_addSelf_eq_loop (a : Fin (2) → α) : U1.addSelf a = L.addSelf (n := 1) a := by
  funext i; fin_cases i <;> rfl
theorem U1_subSelf_eq_loop (a : Fin (2) → α) : U1.subSelf a = L.subSelf (n := 1) a := by
  funext i; fin_cases i <;> rfl
theorem U1_mulSelf_eq_loop (a : Fin (2) → α) : U1.mulSelf a = L.mulSelf (n := 1) a := by
  funext i; fin_cases i <;> rfl
theorem U1_divSelf_eq_loop (a : Fin (2) → α) : U1.divSelf a = L.divSelf (n := 1) a := by
  funext i; fin_cases i <;> rfl
theorem U1_eqE_eq_loop (a b : Fin (2) → α) : U1.eqE a b = L.eqE (n := 1) a b := by
  first | rfl | (unfold U1.eqE L.eqE; congr 2; funext i; fin_cases i <;> rfl) | (unfold U1.eqE L.eqE; congr 3; funext i; fin_cases i <;> rfl)
theorem U1_neE_eq_loop (a b : Fin (2) → α) : U1.neE a b = L.neE (n := 1) a b := by
  first | rfl | (unfold U1.neE L.neE; congr 2; funext i; fin_cases i <;> rfl) | (unfold U1.neE L.neE; congr 3; funext i; fin_cases i <;> rfl)
theorem U1_ltE_eq_loop (a b : Fin (2) → α) : U1.ltE a b = L.ltE (n := 1) a b := by
  first | rfl | (unfold U1.ltE L.ltE; congr 2; funext i; fin_cases i <;> rfl) | (unfold U1.ltE L.ltE; congr 3; funext i; fin_cases i <;> rfl)
theorem U1_gtE_eq_loop (a b : Fin (2) → α) : U1.gtE a b = L.gtE (n := 1) a b := by
  first | rfl | (unfold U1.gtE L.gtE; congr 2; funext i; fin_cases i <;> rfl) | (unfold U1.gtE L.gtE; congr 3; funext i; fin_cases i <;> rfl)
theorem U1_leE_eq_loop (a b : Fin (2) → α) : U1.leE a b = L.leE (n := 1) a b := by
  first | rfl | (unfold U1.leE L.leE; congr 2; funext i; fin_cases i <;> rfl) | (unfold U1.leE L.leE; congr 3; funext i; fin_cases i <;> rfl)
theorem U1_geE_eq_loop (a b : Fin (2) → α) : U1.geE a b = L.geE (n := 1) a b := by
  first | rfl | (unfold U1.geE L.geE; congr 2; funext i; fin_cases i <;> rfl) | (unfold U1.geE L.geE; congr 3; funext i; fin_cases i <;> rfl)
theorem U1_eqS_eq_loop (a : Fin (2) → α) (c : α) : U1.eqS a c = L.eqS (n := 1) a c := by
  first | rfl | (unfold U1.eqS L.eqS; congr 2; funext i; fin_cases i <;> rfl) | (unfold U1.eqS L.eqS; congr 3; funext i; fin_cases i <;> rfl)
theorem U1_neS_eq_loop (a : Fin (2) → α) (c : α) : U1.neS a c = L.neS (n := 1) a c := by
  first | rfl | (unfold U1.neS L.neS; congr 2; funext i; fin_cases i <;> rfl) | (unfold U1.neS L.neS; congr 3; funext i; fin_cases i <;> rfl)
theorem U1_ltS_eq_loop (a : Fin (2) → α) (c : α) : U1.ltS a c = L.ltS (n := 1) a c := by
  first | rfl | (unfold U1.ltS L.ltS; congr 2; funext i; fin_cases i <;> rfl) | (unfold U1.ltS L.ltS; congr 3; funext i; fin_cases i <;> rfl)
theorem U1_gtS_eq_loop (a : Fin (2) → α) (c : α) : U1.gtS a c = L.gtS (n := 1) a c := by
  first | rfl | (unfold U1.gtS L.gtS; congr 2; funext i; fin_cases i <;> rfl) | (unfold U1.gtS L.gtS; congr 3; funext i; fin_cases i <;> rfl)
theorem U1_leS_eq_loop (a : Fin (2) → α) (c : α) : U1.leS a c = L.leS (n := 1) a c := by
  first | rfl | (unfold U1.leS L.leS; congr 2; funext i; fin_cases i <;> rfl) | (unfold U1.leS L.leS; congr 3; funext i; fin_cases i <;> rfl)
theorem U1_geS_eq_loop (a : Fin (2) → α) (c : α) : U1.geS a c = L.geS (n := 1) a c := by
  first | rfl | (unfold U1.geS L.geS; congr 2; funext i; fin_cases i <;> rfl) | (unfold U1.geS L.geS; congr 3; funext i; fin_cases i <;> rfl)
theorem U1_sne_eq_loop (c : α) (a : Fin (2) → α) : U1.sne c a = L.sne (n := 1) c a := by
  first | rfl | (unfold U1.sne L.sne; congr 2; funext i; fin_cases i <;> rfl) | (unfold U1.sne L.sne; congr 3; funext i; fin_cases i <;> rfl)
theorem U1_slt_eq_loop (c : α) (a : Fin (2) → α) : U1.slt c a = L.slt (n := 1) c a := by
  first | rfl | (unfold U1.slt L.slt; congr 2; funext i; fin_cases i <;> rfl) | (unfold U1.slt L.slt; congr 3; funext i; fin_cases i <;> rfl)
theorem U1_sgt_eq_loop (c : α) (a : Fin (2) → α) : U1.sgt c a = L.sgt (n := 1) c a := by
  first | rfl | (unfold U1.sgt L.sgt; congr 2; funext i; fin_cases i <;> rfl) | (unfold U1.sgt L.sgt; congr 3; funext i; fin_cases i <;> rfl)
theorem U1_sle_eq_loop (c : α) (a : Fin (2) → α) : U1.sle c a = L.sle (n := 1) c a := by
  first | rfl | (unfold U1.sle L.sle; congr 2; funext i; fin_cases i <;> rfl) | (unfold U1.sle L.sle; congr 3; funext i; fin_cases i <;> rfl)
theorem U1_sge_eq_loop (c : α) (a : Fin (2) → α) : U1.sge c a = L.sge (n := 1) c a := by
  first | rfl | (unfold U1.sge L.sge; congr 2; funext i; fin_cases i <;> rfl) | (unfold U1.sge L.sge; congr 3; funext i; fin_cases i <;> rfl)
theorem U1_constZero_eq_loop : (U1.constZero : Fin (2) → α) = L.constZero (n := 1) := by
  funext i; fin_cases i <;> rfl
theorem U1_constOne_eq_loop : (U1.constOne : Fin (2) → α) = L.constOne (n := 1) := by
  funext i; fin_cases i <;> rfl
theorem U1_constX_eq_loop (c : α) : U1.constX c = L.constX (n := 1) c := by
  funext i; fin_cases i <;> rfl
theorem U1_varXBase_eq_loop (c : α) : U1.varXBase c = L.varXBase (n := 1) c := by
  funext i; fin_cases i <;> rfl
theorem U1_ops2_eq_loop : (U1.ops2 : ADOps2 α 1) = L.ops2 :=
  ADOps2.ext (funext fun a => U1_addSelf_eq_loop a) (funext fun a => U1_subSelf_eq_loop a) (funext fun a => U1_mulSelf_eq_loop a) (funext fun a => U1_divSelf_eq_loop a) (funext fun a => funext fun b => U1_eqE_eq_loop a b) (funext fun a => funext fun b => U1_neE_eq_loop a b) (funext fun a => funext fun b => U1_ltE_eq_loop a b) (funext fun a => funext fun b => U1_gtE_eq_loop a b) (funext fun a => funext fun b => U1_leE_eq_loop a b) (funext fun a => funext fun b => U1_geE_eq_loop a b) (funext fun a => funext fun c => U1_eqS_eq_loop a c) (funext fun a => funext fun c => U1_neS_eq_loop a c) (funext fun a => funext fun c => U1_ltS_eq_loop a c) (funext fun a => funext fun c => U1_gtS_eq_loop a c) (funext fun a => funext fun c => U1_leS_eq_loop a c) (funext fun a => funext fun c => U1_geS_eq_loop a c) (funext fun c => funext fun a => U1_sne_eq_loop c a) (funext fun c => funext fun a => U1_slt_eq_loop c a) (funext fun c => funext fun a => U1_sgt_eq_loop c a) (funext fun c => funext fun a => U1_sle_eq_loop c a) (funext fun c => funext fun a => U1_sge_eq_loop c a) (U1_constZero_eq_loop) (U1_constOne_eq_loop) (funext fun c => U1_constX_eq_loop c) (funext fun c => U1_varXBase_eq_loop c)

/-! #### Evaluation2.hpp -/
theorem U2_addSelf_eq_loop (a : Fin (3) → α) : U2.addSelf a = L.addSelf (n := 2) a := by
  funext i; fin_cases i <;> rfl
theorem U2_subSelf_eq_loop (a : Fin (3) → α) : U2.subSelf a = L.subSelf (n := 2) a := by
  funext i; fin_cases i <;> rfl
theorem U2_mulSelf_eq_loop (a : Fin (3) → α) : U2.mulSelf a = L.mulSelf (n := 2) a := by
  funext i; fin_cases i <;> rfl
theorem U2_divSelf_eq_loop (a : Fin (3) → α) : U2.divSelf a = L.divSelf (n := 2) a := by
  funext i; fin_cases i <;> rfl
theorem U2_eqE_eq_loop (a b : Fin (3) → α) : U2.eqE a b = L.eqE (n := 2) a b := by
  first | rfl | (unfold U2.eqE L.eqE; congr 2; funext i; fin_cases i <;> rfl) | (unfold U2.eqE L.eqE; congr 3; funext i; fin_cases i <;> rfl)
theorem U2_neE_eq_loop (a b : Fin (3) → α) : U2.neE a b = L.neE (n := 2) a b := by
  first | rfl | (unfold U2.neE L.neE; congr 2; funext i; fin_cases i <;> rfl) | (unfold U2.neE L.neE; congr 3; funext i; fin_cases i <;> rfl)
theorem U2_ltE_eq_loop (a b : Fin (3) → α) : U2.ltE a b = L.ltE (n := 2) a b := by
  first | rfl | (unfold U2.ltE L.ltE; congr 2; funext i; fin_cases i <;> rfl) | (unfold U2.ltE L.ltE; congr 3; funext i; fin_cases i <;> rfl)
theorem U2_gtE_eq_loop (a b : Fin (3) → α) : U2.gtE a b = L.gtE (n := 2) a b := by
  first | rfl | (unfold U2.gtE L.gtE; congr 2; funext i; fin_cases i <;> rfl) | (unfold U2.gtE L.gtE; congr 3; funext i; fin_cases i <;> rfl)
theorem U2_leE_eq_loop (a b : Fin (3) → α) : U2.leE a b = L.leE (n := 2) a b := by
  first | rfl | (unfold U2.leE L.leE; congr 2; funext i; fin_cases i <;> rfl) | (unfold U2.leE L.leE; congr 3; funext i; fin_cases i <;> rfl)
theorem U2_geE_eq_loop (a b : Fin (3) → α) : U2.geE a b = L.geE (n := 2) a b := by
  first | rfl | (unfold U2.geE L.geE; congr 2; funext i; fin_cases i <;> rfl) | (unfold U2.geE L.geE; congr 3; funext i; fin_cases i <;> rfl)
theorem U2_eqS_eq_loop (a : Fin (3) → α) (c : α) : U2.eqS a c = L.eqS (n := 2) a c := by
  first | rfl | (unfold U2.eqS L.eqS; congr 2; funext i; fin_cases i <;> rfl) | (unfold U2.eqS L.eqS; congr 3; funext i; fin_cases i <;> rfl)
theorem U2_neS_eq_loop (a : Fin (3) → α) (c : α) : U2.neS a c = L.neS (n := 2) a c := by
  first | rfl | (unfold U2.neS L.neS; congr 2; funext i; fin_cases i <;> rfl) | (unfold U2.neS L.neS; congr 3; funext i; fin_cases i <;> rfl)
theorem U2_ltS_eq_loop (a : Fin (3) → α) (c : α) : U2.ltS a c = L.ltS (n := 2) a c := by
  first | rfl | (unfold U2.ltS L.ltS; congr 2; funext i; fin_cases i <;> rfl) | (unfold U2.ltS L.ltS; congr 3; funext i; fin_cases i <;> rfl)
theorem U2_gtS_eq_loop (a : Fin (3) → α) (c : α) : U2.gtS a c = L.gtS (n := 2) a c := by
  first | rfl | (unfold U2.gtS L.gtS; congr 2; funext i; fin_cases i <;> rfl) | (unfold U2.gtS L.gtS; congr 3; funext i; fin_cases i <;> rfl)
theorem U2_leS_eq_loop (a : Fin (3) → α) (c : α) : U2.leS a c = L.leS (n := 2) a c := by
  first | rfl | (unfold U2.leS L.leS; congr 2; funext i; fin_cases i <;> rfl) | (unfold U2.leS L.leS; congr 3; funext i; fin_cases i <;> rfl)
theorem U2_geS_eq_loop (a : Fin (3) → α) (c : α) : U2.geS a c = L.geS (n := 2) a c := by
  first | rfl | (unfold U2.geS L.geS; congr 2; funext i; fin_cases i <;> rfl) | (unfold U2.geS L.geS; congr 3; funext i; fin_cases i <;> rfl)
theorem U2_sne_eq_loop (c : α) (a : Fin (3) → α) : U2.sne c a = L.sne (n := 2) c a := by
  first | rfl | (unfold U2.sne L.sne; congr 2; funext i; fin_cases i <;> rfl) | (unfold U2.sne L.sne; congr 3; funext i; fin_cases i <;> rfl)
theorem U2_slt_eq_loop (c : α) (a : Fin (3) → α) : U2.slt c a = L.slt (n := 2) c a := by
  first | rfl | (unfold U2.slt L.slt; congr 2; funext i; fin_cases i <;> rfl) | (unfold U2.slt L.slt; congr 3; funext i; fin_cases i <;> rfl)
theorem U2_sgt_eq_loop (c : α) (a : Fin (3) → α) : U2.sgt c a = L.sgt (n := 2) c a := by
  first | rfl | (unfold U2.sgt L.sgt; congr 2; funext i; fin_cases i <;> rfl) | (unfold U2.sgt L.sgt; congr 3; funext i; fin_cases i <;> rfl)
theorem U2_sle_eq_loop (c : α) (a : Fin (3) → α) : U2.sle c a = L.sle (n := 2) c a := by
  first | rfl | (unfold U2.sle L.sle; congr 2; funext i; fin_cases i <;> rfl) | (unfold U2.sle L.sle; congr 3; funext i; fin_cases i <;> rfl)
theorem U2_sge_eq_loop (c : α) (a : Fin (3) → α) : U2.sge c a = L.sge (n := 2) c a := by
  first | rfl | (unfold U2.sge L.sge; congr 2; funext i; fin_cases i <;> rfl) | (unfold U2.sge L.sge; congr 3; funext i; fin_cases i <;> rfl)
theorem U2_constZero_eq_loop : (U2.constZero : Fin (3) → α) = L.constZero (n := 2) := by
  funext i; fin_cases i <;> rfl
theorem U2_constOne_eq_loop : (U2.constOne : Fin (3) → α) = L.constOne (n := 2) := by
  funext i; fin_cases i <;> rfl
theorem U2_constX_eq_loop (c : α) : U2.constX c = L.constX (n := 2) c := by
  funext i; fin_cases i <;> rfl
theorem U2_varXBase_eq_loop (c : α) : U2.varXBase c = L.varXBase (n := 2) c := by
  funext i; fin_cases i <;> rfl
theorem U2_ops2_eq_loop : (U2.ops2 : ADOps2 α 2) = L.ops2 :=
  ADOps2.ext (funext fun a => U2_addSelf_eq_loop a) (funext fun a => U2_subSelf_eq_loop a) (funext fun a => U2_mulSelf_eq_loop a) (funext fun a => U2_divSelf_eq_loop a) (funext fun a => funext fun b => U2_eqE_eq_loop a b) (funext fun a => funext fun b => U2_neE_eq_loop a b) (funext fun a => funext fun b => U2_ltE_eq_loop a b) (funext fun a => funext fun b => U2_gtE_eq_loop a b) (funext fun a => funext fun b => U2_leE_eq_loop a b) (funext fun a => funext fun b => U2_geE_eq_loop a b) (funext fun a => funext fun c => U2_eqS_eq_loop a c) (funext fun a => funext fun c => U2_neS_eq_loop a c) (funext fun a => funext fun c => U2_ltS_eq_loop a c) (funext fun a => funext fun c => U2_gtS_eq_loop a c) (funext fun a => funext fun c => U2_leS_eq_loop a c) (funext fun a => funext fun c => U2_geS_eq_loop a c) (funext fun c => funext fun a => U2_sne_eq_loop c a) (funext fun c => funext fun a => U2_slt_eq_loop c a) (funext fun c => funext fun a => U2_sgt_eq_loop c a) (funext fun c => funext fun a => U2_sle_eq_loop c a) (funext fun c => funext fun a => U2_sge_eq_loop c a) (U2_constZero_eq_loop) (U2_constOne_eq_loop) (funext fun c => U2_constX_eq_loop c) (funext fun c => U2_varXBase_eq_loop c)

/-! #### Evaluation3.hpp -/
theorem U3_addSelf_eq_loop (a : Fin (4) → α) : U3.addSelf a = L.addSelf (n := 3) a := by
  funext i; fin_cases i <;> rfl
theorem U3_subSelf_eq_loop (a : Fin (4) → α) : U3.subSelf a = L.subSelf (n := 3) a := by
  funext i; fin_cases i <;> rfl
theorem U3_mulSelf_eq_loop (a : Fin (4) → α) : U3.mulSelf a = L.mulSelf (n := 3) a := by
  funext i; fin_cases i <;> rfl
theorem U3_divSelf_eq_loop (a : Fin (4) → α) : U3.divSelf a = L.divSelf (n := 3) a := by
  funext i; fin_cases i <;> rfl
theorem U3_eqE_eq_loop (a b : Fin (4) → α) : U3.eqE a b = L.eqE (n := 3) a b := by
  first | rfl | (unfold U3.eqE L.eqE; congr 2; funext i; fin_cases i <;> rfl) | (unfold U3.eqE L.eqE; congr 3; funext i; fin_cases i <;> rfl)
theorem U3_neE_eq_loop (a b : Fin (4) → α) : U3.neE a b = L.neE (n := 3) a b := by
  first | rfl | (unfold U3.neE L.neE; congr 2; funext i; fin_cases i <;> rfl) | (unfold U3.neE L.neE; congr 3; funext i; fin_cases i <;> rfl)
theorem U3_ltE_eq_loop (a b : Fin (4) → α) : U3.ltE a b = L.ltE (n := 3) a b := by
  first | rfl | (unfold U3.ltE L.ltE; congr 2; funext i; fin_cases i <;> rfl) | (unfold U3.ltE L.ltE; congr 3; funext i; fin_cases i <;> rfl)
theorem U3_gtE_eq_loop (a b : Fin (4) → α) : U3.gtE a b = L.gtE (n := 3) a b := by
  first | rfl | (unfold U3.gtE L.gtE; congr 2; funext i; fin_cases i <;> rfl) | (unfold U3.gtE L.gtE; congr 3; funext i; fin_cases i <;> rfl)
theorem U3_leE_eq_loop (a b : Fin (4) → α) : U3.leE a b = L.leE (n := 3) a b := by
  first | rfl | (unfold U3.leE L.leE; congr 2; funext i; fin_cases i <;> rfl) | (unfold U3.leE L.leE; congr 3; funext i; fin_cases i <;> rfl)
theorem U3_geE_eq_loop (a b : Fin (4) → α) : U3.geE a b = L.geE (n := 3) a b := by
  first | rfl | (unfold U3.geE L.geE; congr 2; funext i; fin_cases i <;> rfl) | (unfold U3.geE L.geE; congr 3; funext i; fin_cases i <;> rfl)
theorem U3_eqS_eq_loop (a : Fin (4) → α) (c : α) : U3.eqS a c = L.eqS (n := 3) a c := by
  first | rfl | (unfold U3.eqS L.eqS; congr 2; funext i; fin_cases i <;> rfl) | (unfold U3.eqS L.eqS; congr 3; funext i; fin_cases i <;> rfl)
theorem U3_neS_eq_loop (a : Fin (4) → α) (c : α) : U3.neS a c = L.neS (n := 3) a c := by
  first | rfl | (unfold U3.neS L.neS; congr 2; funext i; fin_cases i <;> rfl) | (unfold U3.neS L.neS; congr 3; funext i; fin_cases i <;> rfl)
theorem U3_ltS_eq_loop (a : Fin (4) → α) (c : α) : U3.ltS a c = L.ltS (n := 3) a c := by
  first | rfl | (unfold U3.ltS L.ltS; congr 2; funext i; fin_cases i <;> rfl) | (unfold U3.ltS L.ltS; congr 3; funext i; fin_cases i <;> rfl)
theorem U3_gtS_eq_loop (a : Fin (4) → α) (c : α) : U3.gtS a c = L.gtS (n := 3) a c := by
  first | rfl | (unfold U3.gtS L.gtS; congr 2; funext i; fin_cases i <;> rfl) | (unfold U3.gtS L.gtS; congr 3; funext i; fin_cases i <;> rfl)
theorem U3_leS_eq_loop (a : Fin (4) → α) (c : α) : U3.leS a c = L.leS (n := 3) a c := by
  first | rfl | (unfold U3.leS L.leS; congr 2; funext i; fin_cases i <;> rfl) | (unfold U3.leS L.leS; congr 3; funext i; fin_cases i <;> rfl)
theorem U3_geS_eq_loop (a : Fin (4) → α) (c : α) : U3.geS a c = L.geS (n := 3) a c := by
  first | rfl | (unfold U3.geS L.geS; congr 2; funext i; fin_cases i <;> rfl) | (unfold U3.geS L.geS; congr 3; funext i; fin_cases i <;> rfl)
theorem U3_sne_eq_loop (c : α) (a : Fin (4) → α) : U3.sne c a = L.sne (n := 3) c a := by
  first | rfl | (unfold U3.sne L.sne; congr 2; funext i; fin_cases i <;> rfl) | (unfold U3.sne L.sne; congr 3; funext i; fin_cases i <;> rfl)
theorem U3_slt_eq_loop (c : α) (a : Fin (4) → α) : U3.slt c a = L.slt (n := 3) c a := by
  first | rfl | (unfold U3.slt L.slt; congr 2; funext i; fin_cases i <;> rfl) | (unfold U3.slt L.slt; congr 3; funext i; fin_cases i <;> rfl)
theorem U3_sgt_eq_loop (c : α) (a : Fin (4) → α) : U3.sgt c a = L.sgt (n := 3) c a := by
  first | rfl | (unfold U3.sgt L.sgt; congr 2; funext i; fin_cases i <;> rfl) | (unfold U3.sgt L.sgt; congr 3; funext i; fin_cases i <;> rfl)
theorem U3_sle_eq_loop (c : α) (a : Fin (4) → α) : U3.sle c a = L.sle (n := 3) c a := by
  first | rfl | (unfold U3.sle L.sle; congr 2; funext i; fin_cases i <;> rfl) | (unfold U3.sle L.sle; congr 3; funext i; fin_cases i <;> rfl)
theorem U3_sge_eq_loop (c : α) (a : Fin (4) → α) : U3.sge c a = L.sge (n := 3) c a := by
  first | rfl | (unfold U3.sge L.sge; congr 2; funext i; fin_cases i <;> rfl) | (unfold U3.sge L.sge; congr 3; funext i; fin_cases i <;> rfl)
theorem U3_constZero_eq_loop : (U3.constZero : Fin (4) → α) = L.constZero (n := 3) := by
  funext i; fin_cases i <;> rfl
theorem U3_constOne_eq_loop : (U3.constOne : Fin (4) → α) = L.constOne (n := 3) := by
  funext i; fin_cases i <;> rfl
theorem U3_constX_eq_loop (c : α) : U3.constX c = L.constX (n := 3) c := by
  funext i; fin_cases i <;> rfl
theorem U3_varXBase_eq_loop (c : α) : U3.varXBase c = L.varXBase (n := 3) c := by
  funext i; fin_cases i <;> rfl
theorem U3_ops2_eq_loop : (U3.ops2 : ADOps2 α 3) = L.ops2 :=
  ADOps2.ext (funext fun a => U3_addSelf_eq_loop a) (funext fun a => U3_subSelf_eq_loop a) (funext fun a => U3_mulSelf_eq_loop a) (funext fun a => U3_divSelf_eq_loop a) (funext fun a => funext fun b => U3_eqE_eq_loop a b) (funext fun a => funext fun b => U3_neE_eq_loop a b) (funext fun a => funext fun b => U3_ltE_eq_loop a b) (funext fun a => funext fun b => U3_gtE_eq_loop a b) (funext fun a => funext fun b => U3_leE_eq_loop a b) (funext fun a => funext fun b => U3_geE_eq_loop a b) (funext fun a => funext fun c => U3_eqS_eq_loop a c) (funext fun a => funext fun c => U3_neS_eq_loop a c) (funext fun a => funext fun c => U3_ltS_eq_loop a c) (funext fun a => funext fun c => U3_gtS_eq_loop a c) (funext fun a => funext fun c => U3_leS_eq_loop a c) (funext fun a => funext fun c => U3_geS_eq_loop a c) (funext fun c => funext fun a => U3_sne_eq_loop c a) (funext fun c => funext fun a => U3_slt_eq_loop c a) (funext fun c => funext fun a => U3_sgt_eq_loop c a) (funext fun c => funext fun a => U3_sle_eq_loop c a) (funext fun c => funext fun a => U3_sge_eq_loop c a) (U3_constZero_eq_loop) (U3_constOne_eq_loop) (funext fun c => U3_constX_eq_loop c) (funext fun c => U3_varXBase_eq_loop c)

/-! #### Evaluation4.hpp -/
theorem U4_addSelf_eq_loop (a : Fin (5) → α) : U4.addSelf a = L.addSelf (n := 4) a := by
  funext i; fin_cases i <;> rfl
theorem U4_subSelf_eq_loop (a : Fin (5) → α) : U4.subSelf a = L.subSelf (n := 4) a := by
  funext i; fin_cases i <;> rfl
theorem U4_mulSelf_eq_loop (a : Fin (5) → α) : U4.mulSelf a = L.mulSelf (n := 4) a := by
  funext i; fin_cases i <;> rfl
theorem U4_divSelf_eq_loop (a : Fin (5) → α) : U4.divSelf a = L.divSelf (n := 4) a := by
  funext i; fin_cases i <;> rfl
theorem U4_eqE_eq_loop (a b : Fin (5) → α) : U4.eqE a b = L.eqE (n := 4) a b := by
  first | rfl | (unfold U4.eqE L.eqE; congr 2; funext i; fin_cases i <;> rfl) | (unfold U4.eqE L.eqE; congr 3; funext i; fin_cases i <;> rfl)
theorem U4_neE_eq_loop (a b : Fin (5) → α) : U4.neE a b = L.neE (n := 4) a b := by
  first | rfl | (unfold U4.neE L.neE; congr 2; funext i; fin_cases i <;> rfl) | (unfold U4.neE L.neE; congr 3; funext i; fin_cases i <;> rfl)
theorem U4_ltE_eq_loop (a b : Fin (5) → α) : U4.ltE a b = L.ltE (n := 4) a b := by
  first | rfl | (unfold U4.ltE L.ltE; congr 2; funext i; fin_cases i <;> rfl) | (unfold U4.ltE L.ltE; congr 3; funext i; fin_cases i <;> rfl)
theorem U4_gtE_eq_loop (a b : Fin (5) → α) : U4.gtE a b = L.gtE (n := 4) a b := by
  first | rfl | (unfold U4.gtE L.gtE; congr 2; funext i; fin_cases i <;> rfl) | (unfold U4.gtE L.gtE; congr 3; funext i; fin_cases i <;> rfl)
theorem U4_leE_eq_loop (a b : Fin (5) → α) : U4.leE a b = L.leE (n := 4) a b := by
  first | rfl | (unfold U4.leE L.leE; congr 2; funext i; fin_cases i <;> rfl) | (unfold U4.leE L.leE; congr 3; funext i; fin_cases i <;> rfl)
theorem U4_geE_eq_loop (a b : Fin (5) → α) : U4.geE a b = L.geE (n := 4) a b := by
  first | rfl | (unfold U4.geE L.geE; congr 2; funext i; fin_cases i <;> rfl) | (unfold U4.geE L.geE; congr 3; funext i; fin_cases i <;> rfl)
theorem U4_eqS_eq_loop (a : Fin (5) → α) (c : α) : U4.eqS a c = L.eqS (n := 4) a c := by
  first | rfl | (unfold U4.eqS L.eqS; congr 2; funext i; fin_cases i <;> rfl) | (unfold U4.eqS L.eqS; congr 3; funext i; fin_cases i <;> rfl)
theorem U4_neS_eq_loop (a : Fin (5) → α) (c : α) : U4.neS a c = L.neS (n := 4) a c := by
  first | rfl | (unfold U4.neS L.neS; congr 2; funext i; fin_cases i <;> rfl) | (unfold U4.neS L.neS; congr 3; funext i; fin_cases i <;> rfl)
theorem U4_ltS_eq_loop (a : Fin (5) → α) (c : α) : U4.ltS a c = L.ltS (n := 4) a c := by
  first | rfl | (unfold U4.ltS L.ltS; congr 2; funext i; fin_cases i <;> rfl) | (unfold U4.ltS L.ltS; congr 3; funext i; fin_cases i <;> rfl)
theorem U4_gtS_eq_loop (a : Fin (5) → α) (c : α) : U4.gtS a c = L.gtS (n := 4) a c := by
  first | rfl | (unfold U4.gtS L.gtS; congr 2; funext i; fin_cases i <;> rfl) | (unfold U4.gtS L.gtS; congr 3; funext i; fin_cases i <;> rfl)
theorem U4_leS_eq_loop (a : Fin (5) → α) (c : α) : U4.leS a c = L.leS (n := 4) a c := by
  first | rfl | (unfold U4.leS L.leS; congr 2; funext i; fin_cases i <;> rfl) | (unfold U4.leS L.leS; congr 3; funext i; fin_cases i <;> rfl)
theorem U4_geS_eq_loop (a : Fin (5) → α) (c : α) : U4.geS a c = L.geS (n := 4) a c := by
  first | rfl | (unfold U4.geS L.geS; congr 2; funext i; fin_cases i <;> rfl) | (unfold U4.geS L.geS; congr 3; funext i; fin_cases i <;> rfl)
theorem U4_sne_eq_loop (c : α) (a : Fin (5) → α) : U4.sne c a = L.sne (n := 4) c a := by
  first | rfl | (unfold U4.sne L.sne; congr 2; funext i; fin_cases i <;> rfl) | (unfold U4.sne L.sne; congr 3; funext i; fin_cases i <;> rfl)
theorem U4_slt_eq_loop (c : α) (a : Fin (5) → α) : U4.slt c a = L.slt (n := 4) c a := by
  first | rfl | (unfold U4.slt L.slt; congr 2; funext i; fin_cases i <;> rfl) | (unfold U4.slt L.slt; congr 3; funext i; fin_cases i <;> rfl)
theorem U4_sgt_eq_loop (c : α) (a : Fin (5) → α) : U4.sgt c a = L.sgt (n := 4) c a := by
  first | rfl | (unfold U4.sgt L.sgt; congr 2; funext i; fin_cases i <;> rfl) | (unfold U4.sgt L.sgt; congr 3; funext i; fin_cases i <;> rfl)
theorem U4_sle_eq_loop (c : α) (a : Fin (5) → α) : U4.sle c a = L.sle (n := 4) c a := by
  first | rfl | (unfold U4.sle L.sle; congr 2; funext i; fin_cases i <;> rfl) | (unfold U4.sle L.sle; congr 3; funext i; fin_cases i <;> rfl)
theorem U4_sge_eq_loop (c : α) (a : Fin (5) → α) : U4.sge c a = L.sge (n := 4) c a := by
  first | rfl | (unfold U4.sge L.sge; congr 2; funext i; fin_cases i <;> rfl) | (unfold U4.sge L.sge; congr 3; funext i; fin_cases i <;> rfl)
theorem U4_constZero_eq_loop : (U4.constZero : Fin (5) → α) = L.constZero (n := 4) := by
  funext i; fin_cases i <;> rfl
theorem U4_constOne_eq_loop : (U4.constOne : Fin (5) → α) = L.constOne (n := 4) := by
  funext i; fin_cases i <;> rfl
theorem U4_constX_eq_loop (c : α) : U4.constX c = L.constX (n := 4) c := by
  funext i; fin_cases i <;> rfl
theorem U4_varXBase_eq_loop (c : α) : U4.varXBase c = L.varXBase (n := 4) c := by
  funext i; fin_cases i <;> rfl
theorem U4_ops2_eq_loop : (U4.ops2 : ADOps2 α 4) = L.ops2 :=
  ADOps2.ext (funext fun a => U4_addSelf_eq_loop a) (funext fun a => U4_subSelf_eq_loop a) (funext fun a => U4_mulSelf_eq_loop a) (funext fun a => U4_divSelf_eq_loop a) (funext fun a => funext fun b => U4_eqE_eq_loop a b) (funext fun a => funext fun b => U4_neE_eq_loop a b) (funext fun a => funext fun b => U4_ltE_eq_loop a b) (funext fun a => funext fun b => U4_gtE_eq_loop a b) (funext fun a => funext fun b => U4_leE_eq_loop a b) (funext fun a => funext fun b => U4_geE_eq_loop a b) (funext fun a => funext fun c => U4_eqS_eq_loop a c) (funext fun a => funext fun c => U4_neS_eq_loop a c) (funext fun a => funext fun c => U4_ltS_eq_loop a c) (funext fun a => funext fun c => U4_gtS_eq_loop a c) (funext fun a => funext fun c => U4_leS_eq_loop a c) (funext fun a => funext fun c => U4_geS_eq_loop a c) (funext fun c => funext fun a => U4_sne_eq_loop c a) (funext fun c => funext fun a => U4_slt_eq_loop c a) (funext fun c => funext fun a => U4_sgt_eq_loop c a) (funext fun c => funext fun a => U4_sle_eq_loop c a) (funext fun c => funext fun a => U4_sge_eq_loop c a) (U4_constZero_eq_loop) (U4_constOne_eq_loop) (funext fun c => U4_constX_eq_loop c) (funext fun c => U4_varXBase_eq_loop c)

/-! #### Evaluation5.hpp -/
theorem U5_addSelf_eq_loop (a : Fin (6) → α) : U5.addSelf a = L.addSelf (n := 5) a := by
  funext i; fin_cases i <;> rfl
theorem U5_subSelf_eq_loop (a : Fin (6) → α) : U5.subSelf a = L.subSelf (n := 5) a := by
  funext i; fin_cases i <;> rfl
theorem U5_mulSelf_eq_loop (a : Fin (6) → α) : U5.mulSelf a = L.mulSelf (n := 5) a := by
  funext i; fin_cases i <;> rfl
theorem U5_divSelf_eq_loop (a : Fin (6) → α) : U5.divSelf a = L.divSelf (n := 5) a := by
  funext i; fin_cases i <;> rfl
theorem U5_eqE_eq_loop (a b : Fin (6) → α) : U5.eqE a b = L.eqE (n := 5) a b := by
  first | rfl | (unfold U5.eqE L.eqE; congr 2; funext i; fin_cases i <;> rfl) | (unfold U5.eqE L.eqE; congr 3; funext i; fin_cases i <;> rfl)
theorem U5_neE_eq_loop (a b : Fin (6) → α) : U5.neE a b = L.neE (n := 5) a b := by
  first | rfl | (unfold U5.neE L.neE; congr 2; funext i; fin_cases i <;> rfl) | (unfold U5.neE L.neE; congr 3; funext i; fin_cases i <;> rfl)
theorem U5_ltE_eq_loop (a b : Fin (6) → α) : U5.ltE a b = L.ltE (n := 5) a b := by
  first | rfl | (unfold U5.ltE L.ltE; congr 2; funext i; fin_cases i <;> rfl) | (unfold U5.ltE L.ltE; congr 3; funext i; fin_cases i <;> rfl)
theorem U5_gtE_eq_loop (a b : Fin (6) → α) : U5.gtE a b = L.gtE (n := 5) a b := by
  first | rfl | (unfold U5.gtE L.gtE; congr 2; funext i; fin_cases i <;> rfl) | (unfold U5.gtE L.gtE; congr 3; funext i; fin_cases i <;> rfl)
theorem U5_leE_eq_loop (a b : Fin (6) → α) : U5.leE a b = L.leE (n := 5) a b := by
  first | rfl | (unfold U5.leE L.leE; congr 2; funext i; fin_cases i <;> rfl) | (unfold U5.leE L.leE; congr 3; funext i; fin_cases i <;> rfl)
theorem U5_geE_eq_loop (a b : Fin (6) → α) : U5.geE a b = L.geE (n := 5) a b := by
  first | rfl | (unfold U5.geE L.geE; congr 2; funext i; fin_cases i <;> rfl) | (unfold U5.geE L.geE; congr 3; funext i; fin_cases i <;> rfl)
theorem U5_eqS_eq_loop (a : Fin (6) → α) (c : α) : U5.eqS a c = L.eqS (n := 5) a c := by
  first | rfl | (unfold U5.eqS L.eqS; congr 2; funext i; fin_cases i <;> rfl) | (unfold U5.eqS L.eqS; congr 3; funext i; fin_cases i <;> rfl)
theorem U5_neS_eq_loop (a : Fin (6) → α) (c : α) : U5.neS a c = L.neS (n := 5) a c := by
  first | rfl | (unfold U5.neS L.neS; congr 2; funext i; fin_cases i <;> rfl) | (unfold U5.neS L.neS; congr 3; funext i; fin_cases i <;> rfl)
theorem U5_ltS_eq_loop (a : Fin (6) → α) (c : α) : U5.ltS a c = L.ltS (n := 5) a c := by
  first | rfl | (unfold U5.ltS L.ltS; congr 2; funext i; fin_cases i <;> rfl) | (unfold U5.ltS L.ltS; congr 3; funext i; fin_cases i <;> rfl)
theorem U5_gtS_eq_loop (a : Fin (6) → α) (c : α) : U5.gtS a c = L.gtS (n := 5) a c := by
  first | rfl | (unfold U5.gtS L.gtS; congr 2; funext i; fin_cases i <;> rfl) | (unfold U5.gtS L.gtS; congr 3; funext i; fin_cases i <;> rfl)
theorem U5_leS_eq_loop (a : Fin (6) → α) (c : α) : U5.leS a c = L.leS (n := 5) a c := by
  first | rfl | (unfold U5.leS L.leS; congr 2; funext i; fin_cases i <;> rfl) | (unfold U5.leS L.leS; congr 3; funext i; fin_cases i <;> rfl)
theorem U5_geS_eq_loop (a : Fin (6) → α) (c : α) : U5.geS a c = L.geS (n := 5) a c := by
  first | rfl | (unfold U5.geS L.geS; congr 2; funext i; fin_cases i <;> rfl) | (unfold U5.geS L.geS; congr 3; funext i; fin_cases i <;> rfl)
theorem U5_sne_eq_loop (c : α) (a : Fin (6) → α) : U5.sne c a = L.sne (n := 5) c a := by
  first | rfl | (unfold U5.sne L.sne; congr 2; funext i; fin_cases i <;> rfl) | (unfold U5.sne L.sne; congr 3; funext i; fin_cases i <;> rfl)
theorem U5_slt_eq_loop (c : α) (a : Fin (6) → α) : U5.slt c a = L.slt (n := 5) c a := by
  first | rfl | (unfold U5.slt L.slt; congr 2; funext i; fin_cases i <;> rfl) | (unfold U5.slt L.slt; congr 3; funext i; fin_cases i <;> rfl)
theorem U5_sgt_eq_loop (c : α) (a : Fin (6) → α) : U5.sgt c a = L.sgt (n := 5) c a := by
  first | rfl | (unfold U5.sgt L.sgt; congr 2; funext i; fin_cases i <;> rfl) | (unfold U5.sgt L.sgt; congr 3; funext i; fin_cases i <;> rfl)
theorem U5_sle_eq_loop (c : α) (a : Fin (6) → α) : U5.sle c a = L.sle (n := 5) c a := by
  first | rfl | (unfold U5.sle L.sle; congr 2; funext i; fin_cases i <;> rfl) | (unfold U5.sle L.sle; congr 3; funext i; fin_cases i <;> rfl)
theorem U5_sge_eq_loop (c : α) (a : Fin (6) → α) : U5.sge c a = L.sge (n := 5) c a := by
  first | rfl | (unfold U5.sge L.sge; congr 2; funext i; fin_cases i <;> rfl) | (unfold U5.sge L.sge; congr 3; funext i; fin_cases i <;> rfl)
theorem U5_constZero_eq_loop : (U5.constZero : Fin (6) → α) = L.constZero (n := 5) := by
  funext i; fin_cases i <;> rfl
theorem U5_constOne_eq_loop : (U5.constOne : Fin (6) → α) = L.constOne (n := 5) := by
  funext i; fin_cases i <;> rfl
theorem U5_constX_eq_loop (c : α) : U5.constX c = L.constX (n := 5) c := by
  funext i; fin_cases i <;> rfl
theorem U5_varXBase_eq_loop (c : α) : U5.varXBase c = L.varXBase (n := 5) c := by
  funext i; fin_cases i <;> rfl
theorem U5_ops2_eq_loop : (U5.ops2 : ADOps2 α 5) = L.ops2 :=
  ADOps2.ext (funext fun a => U5_addSelf_eq_loop a) (funext fun a => U5_subSelf_eq_loop a) (funext fun a => U5_mulSelf_eq_loop a) (funext fun a => U5_divSelf_eq_loop a) (funext fun a => funext fun b => U5_eqE_eq_loop a b) (funext fun a => funext fun b => U5_neE_eq_loop a b) (funext fun a => funext fun b => U5_ltE_eq_loop a b) (funext fun a => funext fun b => U5_gtE_eq_loop a b) (funext fun a => funext fun b => U5_leE_eq_loop a b) (funext fun a => funext fun b => U5_geE_eq_loop a b) (funext fun a => funext fun c => U5_eqS_eq_loop a c) (funext fun a => funext fun c => U5_neS_eq_loop a c) (funext fun a => funext fun c => U5_ltS_eq_loop a c) (funext fun a => funext fun c => U5_gtS_eq_loop a c) (funext fun a => funext fun c => U5_leS_eq_loop a c) (funext fun a => funext fun c => U5_geS_eq_loop a c) (funext fun c => funext fun a => U5_sne_eq_loop c a) (funext fun c => funext fun a => U5_slt_eq_loop c a) (funext fun c => funext fun a => U5_sgt_eq_loop c a) (funext fun c => funext fun a => U5_sle_eq_loop c a) (funext fun c => funext fun a => U5_sge_eq_loop c a) (U5_constZero_eq_loop) (U5_constOne_eq_loop) (funext fun c => U5_constX_eq_loop c) (funext fun c => U5_varXBase_eq_loop c)

/-! #### Evaluation6.hpp -/
theorem U6_addSelf_eq_loop (a : Fin (7) → α) : U6.addSelf a = L.addSelf (n := 6) a := by
  funext i; fin_cases i <;> rfl
theorem U6_subSelf_eq_loop (a : Fin (7) → α) : U6.subSelf a = L.subSelf (n := 6) a := by
  funext i; fin_cases i <;> rfl
theorem U6_mulSelf_eq_loop (a : Fin (7) → α) : U6.mulSelf a = L.mulSelf (n := 6) a := by
  funext i; fin_cases i <;> rfl
theorem U6_divSelf_eq_loop (a : Fin (7) → α) : U6.divSelf a = L.divSelf (n := 6) a := by
  funext i; fin_cases i <;> rfl
theorem U6_eqE_eq_loop (a b : Fin (7) → α) : U6.eqE a b = L.eqE (n := 6) a b := by
  first | rfl | (unfold U6.eqE L.eqE; congr 2; funext i; fin_cases i <;> rfl) | (unfold U6.eqE L.eqE; congr 3; funext i; fin_cases i <;> rfl)
theorem U6_neE_eq_loop (a b : Fin (7) → α) : U6.neE a b = L.neE (n := 6) a b := by
  first | rfl | (unfold U6.neE L.neE; congr 2; funext i; fin_cases i <;> rfl) | (unfold U6.neE L.neE; congr 3; funext i; fin_cases i <;> rfl)
theorem U6_ltE_eq_loop (a b : Fin (7) → α) : U6.ltE a b = L.ltE (n := 6) a b := by
  first | rfl | (unfold U6.ltE L.ltE; congr 2; funext i; fin_cases i <;> rfl) | (unfold U6.ltE L.ltE; congr 3; funext i; fin_cases i <;> rfl)
theorem U6_gtE_eq_loop (a b : Fin (7) → α) : U6.gtE a b = L.gtE (n := 6) a b := by
  first | rfl | (unfold U6.gtE L.gtE; congr 2; funext i; fin_cases i <;> rfl) | (unfold U6.gtE L.gtE; congr 3; funext i; fin_cases i <;> rfl)
theorem U6_leE_eq_loop (a b : Fin (7) → α) : U6.leE a b = L.leE (n := 6) a b := by
  first | rfl | (unfold U6.leE L.leE; congr 2; funext i; fin_cases i <;> rfl) | (unfold U6.leE L.leE; congr 3; funext i; fin_cases i <;> rfl)
theorem U6_geE_eq_loop (a b : Fin (7) → α) : U6.geE a b = L.geE (n := 6) a b := by
  first | rfl | (unfold U6.geE L.geE; congr 2; funext i; fin_cases i <;> rfl) | (unfold U6.geE L.geE; congr 3; funext i; fin_cases i <;> rfl)
theorem U6_eqS_eq_loop (a : Fin (7) → α) (c : α) : U6.eqS a c = L.eqS (n := 6) a c := by
  first | rfl | (unfold U6.eqS L.eqS; congr 2; funext i; fin_cases i <;> rfl) | (unfold U6.eqS L.eqS; congr 3; funext i; fin_cases i <;> rfl)
theorem U6_neS_eq_loop (a : Fin (7) → α) (c : α) : U6.neS a c = L.neS (n := 6) a c := by
  first | rfl | (unfold U6.neS L.neS; congr 2; funext i; fin_cases i <;> rfl) | (unfold U6.neS L.neS; congr 3; funext i; fin_cases i <;> rfl)
theorem U6_ltS_eq_loop (a : Fin (7) → α) (c : α) : U6.ltS a c = L.ltS (n := 6) a c := by
  first | rfl | (unfold U6.ltS L.ltS; congr 2; funext i; fin_cases i <;> rfl) | (unfold U6.ltS L.ltS; congr 3; funext i; fin_cases i <;> rfl)
theorem U6_gtS_eq_loop (a : Fin (7) → α) (c : α) : U6.gtS a c = L.gtS (n := 6) a c := by
  first | rfl | (unfold U6.gtS L.gtS; congr 2; funext i; fin_cases i <;> rfl) | (unfold U6.gtS L.gtS; congr 3; funext i; fin_cases i <;> rfl)
theorem U6_leS_eq_loop (a : Fin (7) → α) (c : α) : U6.leS a c = L.leS (n := 6) a c := by
  first | rfl | (unfold U6.leS L.leS; congr 2; funext i; fin_cases i <;> rfl) | (unfold U6.leS L.leS; congr 3; funext i; fin_cases i <;> rfl)
theorem U6_geS_eq_loop (a : Fin (7) → α) (c : α) : U6.geS a c = L.geS (n := 6) a c := by
  first | rfl | (unfold U6.geS L.geS; congr 2; funext i; fin_cases i <;> rfl) | (unfold U6.geS L.geS; congr 3; funext i; fin_cases i <;> rfl)
theorem U6_sne_eq_loop (c : α) (a : Fin (7) → α) : U6.sne c a = L.sne (n := 6) c a := by
  first | rfl | (unfold U6.sne L.sne; congr 2; funext i; fin_cases i <;> rfl) | (unfold U6.sne L.sne; congr 3; funext i; fin_cases i <;> rfl)
theorem U6_slt_eq_loop (c : α) (a : Fin (7) → α) : U6.slt c a = L.slt (n := 6) c a := by
  first | rfl | (unfold U6.slt L.slt; congr 2; funext i; fin_cases i <;> rfl) | (unfold U6.slt L.slt; congr 3; funext i; fin_cases i <;> rfl)
theorem U6_sgt_eq_loop (c : α) (a : Fin (7) → α) : U6.sgt c a = L.sgt (n := 6) c a := by
  first | rfl | (unfold U6.sgt L.sgt; congr 2; funext i; fin_cases i <;> rfl) | (unfold U6.sgt L.sgt; congr 3; funext i; fin_cases i <;> rfl)
theorem U6_sle_eq_loop (c : α) (a : Fin (7) → α) : U6.sle c a = L.sle (n := 6) c a := by
  first | rfl | (unfold U6.sle L.sle; congr 2; funext i; fin_cases i <;> rfl) | (unfold U6.sle L.sle; congr 3; funext i; fin_cases i <;> rfl)
theorem U6_sge_eq_loop (c : α) (a : Fin (7) → α) : U6.sge c a = L.sge (n := 6) c a := by
  first | rfl | (unfold U6.sge L.sge; congr 2; funext i; fin_cases i <;> rfl) | (unfold U6.sge L.sge; congr 3; funext i; fin_cases i <;> rfl)
theorem U6_constZero_eq_loop : (U6.constZero : Fin (7) → α) = L.constZero (n := 6) := by
  funext i; fin_cases i <;> rfl
theorem U6_constOne_eq_loop : (U6.constOne : Fin (7) → α) = L.constOne (n := 6) := by
  funext i; fin_cases i <;> rfl
theorem U6_constX_eq_loop (c : α) : U6.constX c = L.constX (n := 6) c := by
  funext i; fin_cases i <;> rfl
theorem U6_varXBase_eq_loop (c : α) : U6.varXBase c = L.varXBase (n := 6) c := by
  funext i; fin_cases i <;> rfl
theorem U6_ops2_eq_loop : (U6.ops2 : ADOps2 α 6) = L.ops2 :=
  ADOps2.ext (funext fun a => U6_addSelf_eq_loop a) (funext fun a => U6_subSelf_eq_loop a) (funext fun a => U6_mulSelf_eq_loop a) (funext fun a => U6_divSelf_eq_loop a) (funext fun a => funext fun b => U6_eqE_eq_loop a b) (funext fun a => funext fun b => U6_neE_eq_loop a b) (funext fun a => funext fun b => U6_ltE_eq_loop a b) (funext fun a => funext fun b => U6_gtE_eq_loop a b) (funext fun a => funext fun b => U6_leE_eq_loop a b) (funext fun a => funext fun b => U6_geE_eq_loop a b) (funext fun a => funext fun c => U6_eqS_eq_loop a c) (funext fun a => funext fun c => U6_neS_eq_loop a c) (funext fun a => funext fun c => U6_ltS_eq_loop a c) (funext fun a => funext fun c => U6_gtS_eq_loop a c) (funext fun a => funext fun c => U6_leS_eq_loop a c) (funext fun a => funext fun c => U6_geS_eq_loop a c) (funext fun c => funext fun a => U6_sne_eq_loop c a) (funext fun c => funext fun a => U6_slt_eq_loop c a) (funext fun c => funext fun a => U6_sgt_eq_loop c a) (funext fun c => funext fun a => U6_sle_eq_loop c a) (funext fun c => funext fun a => U6_sge_eq_loop c a) (U6_constZero_eq_loop) (U6_constOne_eq_loop) (funext fun c => U6_constX_eq_loop c) (funext fun c => U6_varXBase_eq_loop c)

/-! #### Evaluation7.hpp -/
theorem U7_addSelf_eq_loop (a : Fin (8) → α) : U7.addSelf a = L.addSelf (n := 7) a := by
  funext i; fin_cases i <;> rfl
theorem U7_subSelf_eq_loop (a : Fin (8) → α) : U7.subSelf a = L.subSelf (n := 7) a := by
  funext i; fin_cases i <;> rfl
theorem U7_mulSelf_eq_loop (a : Fin (8) → α) : U7.mulSelf a = L.mulSelf (n := 7) a := by
  funext i; fin_cases i <;> rfl
theorem U7_divSelf_eq_loop (a : Fin (8) → α) : U7.divSelf a = L.divSelf (n := 7) a := by
  funext i; fin_cases i <;> rfl
theorem U7_eqE_eq_loop (a b : Fin (8) → α) : U7.eqE a b = L.eqE (n := 7) a b := by
  first | rfl | (unfold U7.eqE L.eqE; congr 2; funext i; fin_cases i <;> rfl) | (unfold U7.eqE L.eqE; congr 3; funext i; fin_cases i <;> rfl)
theorem U7_neE_eq_loop (a b : Fin (8) → α) : U7.neE a b = L.neE (n := 7) a b := by
  first | rfl | (unfold U7.neE L.neE; congr 2; funext i; fin_cases i <;> rfl) | (unfold U7.neE L.neE; congr 3; funext i; fin_cases i <;> rfl)
theorem U7_ltE_eq_loop (a b : Fin (8) → α) : U7.ltE a b = L.ltE (n := 7) a b := by
  first | rfl | (unfold U7.ltE L.ltE; congr 2; funext i; fin_cases i <;> rfl) | (unfold U7.ltE L.ltE; congr 3; funext i; fin_cases i <;> rfl)
theorem U7_gtE_eq_loop (a b : Fin (8) → α) : U7.gtE a b = L.gtE (n := 7) a b := by
  first | rfl | (unfold U7.gtE L.gtE; congr 2; funext i; fin_cases i <;> rfl) | (unfold U7.gtE L.gtE; congr 3; funext i; fin_cases i <;> rfl)
theorem U7_leE_eq_loop (a b : Fin (8) → α) : U7.leE a b = L.leE (n := 7) a b := by
  first | rfl | (unfold U7.leE L.leE; congr 2; funext i; fin_cases i <;> rfl) | (unfold U7.leE L.leE; congr 3; funext i; fin_cases i <;> rfl)
theorem U7_geE_eq_loop (a b : Fin (8) → α) : U7.geE a b = L.geE (n := 7) a b := by
  first | rfl | (unfold U7.geE L.geE; congr 2; funext i; fin_cases i <;> rfl) | (unfold U7.geE L.geE; congr 3; funext i; fin_cases i <;> rfl)
theorem U7_eqS_eq_loop (a : Fin (8) → α) (c : α) : U7.eqS a c = L.eqS (n := 7) a c := by
  first | rfl | (unfold U7.eqS L.eqS; congr 2; funext i; fin_cases i <;> rfl) | (unfold U7.eqS L.eqS; congr 3; funext i; fin_cases i <;> rfl)
theorem U7_neS_eq_loop (a : Fin (8) → α) (c : α) : U7.neS a c = L.neS (n := 7) a c := by
  first | rfl | (unfold U7.neS L.neS; congr 2; funext i; fin_cases i <;> rfl) | (unfold U7.neS L.neS; congr 3; funext i; fin_cases i <;> rfl)
theorem U7_ltS_eq_loop (a : Fin (8) → α) (c : α) : U7.ltS a c = L.ltS (n := 7) a c := by
  first | rfl | (unfold U7.ltS L.ltS; congr 2; funext i; fin_cases i <;> rfl) | (unfold U7.ltS L.ltS; congr 3; funext i; fin_cases i <;> rfl)
theorem U7_gtS_eq_loop (a : Fin (8) → α) (c : α) : U7.gtS a c = L.gtS (n := 7) a c := by
  first | rfl | (unfold U7.gtS L.gtS; congr 2; funext i; fin_cases i <;> rfl) | (unfold U7.gtS L.gtS; congr 3; funext i; fin_cases i <;> rfl)
theorem U7_leS_eq_loop (a : Fin (8) → α) (c : α) : U7.leS a c = L.leS (n := 7) a c := by
  first | rfl | (unfold U7.leS L.leS; congr 2; funext i; fin_cases i <;> rfl) | (unfold U7.leS L.leS; congr 3; funext i; fin_cases i <;> rfl)
theorem U7_geS_eq_loop (a : Fin (8) → α) (c : α) : U7.geS a c = L.geS (n := 7) a c := by
  first | rfl | (unfold U7.geS L.geS; congr 2; funext i; fin_cases i <;> rfl) | (unfold U7.geS L.geS; congr 3; funext i; fin_cases i <;> rfl)
theorem U7_sne_eq_loop (c : α) (a : Fin (8) → α) : U7.sne c a = L.sne (n := 7) c a := by
  first | rfl | (unfold U7.sne L.sne; congr 2; funext i; fin_cases i <;> rfl) | (unfold U7.sne L.sne; congr 3; funext i; fin_cases i <;> rfl)
theorem U7_slt_eq_loop (c : α) (a : Fin (8) → α) : U7.slt c a = L.slt (n := 7) c a := by
  first | rfl | (unfold U7.slt L.slt; congr 2; funext i; fin_cases i <;> rfl) | (unfold U7.slt L.slt; congr 3; funext i; fin_cases i <;> rfl)
theorem U7_sgt_eq_loop (c : α) (a : Fin (8) → α) : U7.sgt c a = L.sgt (n := 7) c a := by
  first | rfl | (unfold U7.sgt L.sgt; congr 2; funext i; fin_cases i <;> rfl) | (unfold U7.sgt L.sgt; congr 3; funext i; fin_cases i <;> rfl)
theorem U7_sle_eq_loop (c : α) (a : Fin (8) → α) : U7.sle c a = L.sle (n := 7) c a := by
  first | rfl | (unfold U7.sle L.sle; congr 2; funext i; fin_cases i <;> rfl) | (unfold U7.sle L.sle; congr 3; funext i; fin_cases i <;> rfl)
theorem U7_sge_eq_loop (c : α) (a : Fin (8) → α) : U7.sge c a = L.sge (n := 7) c a := by
  first | rfl | (unfold U7.sge L.sge; congr 2; funext i; fin_cases i <;> rfl) | (unfold U7.sge L.sge; congr 3; funext i; fin_cases i <;> rfl)
theorem U7_constZero_eq_loop : (U7.constZero : Fin (8) → α) = L.constZero (n := 7) := by
  funext i; fin_cases i <;> rfl
theorem U7_constOne_eq_loop : (U7.constOne : Fin (8) → α) = L.constOne (n := 7) := by
  funext i; fin_cases i <;> rfl
theorem U7_constX_eq_loop (c : α) : U7.constX c = L.constX (n := 7) c := by
  funext i; fin_cases i <;> rfl
theorem U7_varXBase_eq_loop (c : α) : U7.varXBase c = L.varXBase (n := 7) c := by
  funext i; fin_cases i <;> rfl
theorem U7_ops2_eq_loop : (U7.ops2 : ADOps2 α 7) = L.ops2 :=
  ADOps2.ext (funext fun a => U7_addSelf_eq_loop a) (funext fun a => U7_subSelf_eq_loop a) (funext fun a => U7_mulSelf_eq_loop a) (funext fun a => U7_divSelf_eq_loop a) (funext fun a => funext fun b => U7_eqE_eq_loop a b) (funext fun a => funext fun b => U7_neE_eq_loop a b) (funext fun a => funext fun b => U7_ltE_eq_loop a b) (funext fun a => funext fun b => U7_gtE_eq_loop a b) (funext fun a => funext fun b => U7_leE_eq_loop a b) (funext fun a => funext fun b => U7_geE_eq_loop a b) (funext fun a => funext fun c => U7_eqS_eq_loop a c) (funext fun a => funext fun c => U7_neS_eq_loop a c) (funext fun a => funext fun c => U7_ltS_eq_loop a c) (funext fun a => funext fun c => U7_gtS_eq_loop a c) (funext fun a => funext fun c => U7_leS_eq_loop a c) (funext fun a => funext fun c => U7_geS_eq_loop a c) (funext fun c => funext fun a => U7_sne_eq_loop c a) (funext fun c => funext fun a => U7_slt_eq_loop c a) (funext fun c => funext fun a => U7_sgt_eq_loop c a) (funext fun c => funext fun a => U7_sle_eq_loop c a) (funext fun c => funext fun a => U7_sge_eq_loop c a) (U7_constZero_eq_loop) (U7_constOne_eq_loop) (funext fun c => U7_constX_eq_loop c) (funext fun c => U7_varXBase_eq_loop c)

/-! #### Evaluation8.hpp -/
theorem U8_addSelf_eq_loop (a : Fin (9) → α) : U8.addSelf a = L.addSelf (n := 8) a := by
  funext i; fin_cases i <;> rfl
theorem U8_subSelf_eq_loop (a : Fin (9) → α) : U8.subSelf a = L.subSelf (n := 8) a := by
  funext i; fin_cases i <;> rfl
theorem U8_mulSelf_eq_loop (a : Fin (9) → α) : U8.mulSelf a = L.mulSelf (n := 8) a := by
  funext i; fin_cases i <;> rfl
theorem U8_divSelf_eq_loop (a : Fin (9) → α) : U8.divSelf a = L.divSelf (n := 8) a := by
  funext i; fin_cases i <;> rfl
theorem U8_eqE_eq_loop (a b : Fin (9) → α) : U8.eqE a b = L.eqE (n := 8) a b := by
  first | rfl | (unfold U8.eqE L.eqE; congr 2; funext i; fin_cases i <;> rfl) | (unfold U8.eqE L.eqE; congr 3; funext i; fin_cases i <;> rfl)
theorem U8_neE_eq_loop (a b : Fin (9) → α) : U8.neE a b = L.neE (n := 8) a b := by
  first | rfl | (unfold U8.neE L.neE; congr 2; funext i; fin_cases i <;> rfl) | (unfold U8.neE L.neE; congr 3; funext i; fin_cases i <;> rfl)
theorem U8_ltE_eq_loop (a b : Fin (9) → α) : U8.ltE a b = L.ltE (n := 8) a b := by
  first | rfl | (unfold U8.ltE L.ltE; congr 2; funext i; fin_cases i <;> rfl) | (unfold U8.ltE L.ltE; congr 3; funext i; fin_cases i <;> rfl)
theorem U8_gtE_eq_loop (a b : Fin (9) → α) : U8.gtE a b = L.gtE (n := 8) a b := by
  first | rfl | (unfold U8.gtE L.gtE; congr 2; funext i; fin_cases i <;> rfl) | (unfold U8.gtE L.gtE; congr 3; funext i; fin_cases i <;> rfl)
theorem U8_leE_eq_loop (a b : Fin (9) → α) : U8.leE a b = L.leE (n := 8) a b := by
  first | rfl | (unfold U8.leE L.leE; congr 2; funext i; fin_cases i <;> rfl) | (unfold U8.leE L.leE; congr 3; funext i; fin_cases i <;> rfl)
theorem U8_geE_eq_loop (a b : Fin (9) → α) : U8.geE a b = L.geE (n := 8) a b := by
  first | rfl | (unfold U8.geE L.geE; congr 2; funext i; fin_cases i <;> rfl) | (unfold U8.geE L.geE; congr 3; funext i; fin_cases i <;> rfl)
theorem U8_eqS_eq_loop (a : Fin (9) → α) (c : α) : U8.eqS a c = L.eqS (n := 8) a c := by
  first | rfl | (unfold U8.eqS L.eqS; congr 2; funext i; fin_cases i <;> rfl) | (unfold U8.eqS L.eqS; congr 3; funext i; fin_cases i <;> rfl)
theorem U8_neS_eq_loop (a : Fin (9) → α) (c : α) : U8.neS a c = L.neS (n := 8) a c := by
  first | rfl | (unfold U8.neS L.neS; congr 2; funext i; fin_cases i <;> rfl) | (unfold U8.neS L.neS; congr 3; funext i; fin_cases i <;> rfl)
theorem U8_ltS_eq_loop (a : Fin (9) → α) (c : α) : U8.ltS a c = L.ltS (n := 8) a c := by
  first | rfl | (unfold U8.ltS L.ltS; congr 2; funext i; fin_cases i <;> rfl) | (unfold U8.ltS L.ltS; congr 3; funext i; fin_cases i <;> rfl)
theorem U8_gtS_eq_loop (a : Fin (9) → α) (c : α) : U8.gtS a c = L.gtS (n := 8) a c := by
  first | rfl | (unfold U8.gtS L.gtS; congr 2; funext i; fin_cases i <;> rfl) | (unfold U8.gtS L.gtS; congr 3; funext i; fin_cases i <;> rfl)
theorem U8_leS_eq_loop (a : Fin (9) → α) (c : α) : U8.leS a c = L.leS (n := 8) a c := by
  first | rfl | (unfold U8.leS L.leS; congr 2; funext i; fin_cases i <;> rfl) | (unfold U8.leS L.leS; congr 3; funext i; fin_cases i <;> rfl)
theorem U8_geS_eq_loop (a : Fin (9) → α) (c : α) : U8.geS a c = L.geS (n := 8) a c := by
  first | rfl | (unfold U8.geS L.geS; congr 2; funext i; fin_cases i <;> rfl) | (unfold U8.geS L.geS; congr 3; funext i; fin_cases i <;> rfl)
theorem U8_sne_eq_loop (c : α) (a : Fin (9) → α) : U8.sne c a = L.sne (n := 8) c a := by
  first | rfl | (unfold U8.sne L.sne; congr 2; funext i; fin_cases i <;> rfl) | (unfold U8.sne L.sne; congr 3; funext i; fin_cases i <;> rfl)
theorem U8_slt_eq_loop (c : α) (a : Fin (9) → α) : U8.slt c a = L.slt (n := 8) c a := by
  first | rfl | (unfold U8.slt L.slt; congr 2; funext i; fin_cases i <;> rfl) | (unfold U8.slt L.slt; congr 3; funext i; fin_cases i <;> rfl)
theorem U8_sgt_eq_loop (c : α) (a : Fin (9) → α) : U8.sgt c a = L.sgt (n := 8) c a := by
  first | rfl | (unfold U8.sgt L.sgt; congr 2; funext i; fin_cases i <;> rfl) | (unfold U8.sgt L.sgt; congr 3; funext i; fin_cases i <;> rfl)
theorem U8_sle_eq_loop (c : α) (a : Fin (9) → α) : U8.sle c a = L.sle (n := 8) c a := by
  first | rfl | (unfold U8.sle L.sle; congr 2; funext i; fin_cases i <;> rfl) | (unfold U8.sle L.sle; congr 3; funext i; fin_cases i <;> rfl)
theorem U8_sge_eq_loop (c : α) (a : Fin (9) → α) : U8.sge c a = L.sge (n := 8) c a := by
  first | rfl | (unfold U8.sge L.sge; congr 2; funext i; fin_cases i <;> rfl) | (unfold U8.sge L.sge; congr 3; funext i; fin_cases i <;> rfl)
theorem U8_constZero_eq_loop : (U8.constZero : Fin (9) → α) = L.constZero (n := 8) := by
  funext i; fin_cases i <;> rfl
theorem U8_constOne_eq_loop : (U8.constOne : Fin (9) → α) = L.constOne (n := 8) := by
  funext i; fin_cases i <;> rfl
theorem U8_constX_eq_loop (c : α) : U8.constX c = L.constX (n := 8) c := by
  funext i; fin_cases i <;> rfl
theorem U8_varXBase_eq_loop (c : α) : U8.varXBase c = L.varXBase (n := 8) c := by
  funext i; fin_cases i <;> rfl
theorem U8_ops2_eq_loop : (U8.ops2 : ADOps2 α 8) = L.ops2 :=
  ADOps2.ext (funext fun a => U8_addSelf_eq_loop a) (funext fun a => U8_subSelf_eq_loop a) (funext fun a => U8_mulSelf_eq_loop a) (funext fun a => U8_divSelf_eq_loop a) (funext fun a => funext fun b => U8_eqE_eq_loop a b) (funext fun a => funext fun b => U8_neE_eq_loop a b) (funext fun a => funext fun b => U8_ltE_eq_loop a b) (funext fun a => funext fun b => U8_gtE_eq_loop a b) (funext fun a => funext fun b => U8_leE_eq_loop a b) (funext fun a => funext fun b => U8_geE_eq_loop a b) (funext fun a => funext fun c => U8_eqS_eq_loop a c) (funext fun a => funext fun c => U8_neS_eq_loop a c) (funext fun a => funext fun c => U8_ltS_eq_loop a c) (funext fun a => funext fun c => U8_gtS_eq_loop a c) (funext fun a => funext fun c => U8_leS_eq_loop a c) (funext fun a => funext fun c => U8_geS_eq_loop a c) (funext fun c => funext fun a => U8_sne_eq_loop c a) (funext fun c => funext fun a => U8_slt_eq_loop c a) (funext fun c => funext fun a => U8_sgt_eq_loop c a) (funext fun c => funext fun a => U8_sle_eq_loop c a) (funext fun c => funext fun a => U8_sge_eq_loop c a) (U8_constZero_eq_loop) (U8_constOne_eq_loop) (funext fun c => U8_constX_eq_loop c) (funext fun c => U8_varXBase_eq_loop c)

/-! #### Evaluation9.hpp -/
theorem U9_addSelf_eq_loop (a : Fin (10) → α) : U9.addSelf a = L.addSelf (n := 9) a := by
  funext i; fin_cases i <;> rfl
theorem U9_subSelf_eq_loop (a : Fin (10) → α) : U9.subSelf a = L.subSelf (n := 9) a := by
  funext i; fin_cases i <;> rfl
theorem U9_mulSelf_eq_loop (a : Fin (10) → α) : U9.mulSelf a = L.mulSelf (n := 9) a := by
  funext i; fin_cases i <;> rfl
theorem U9_divSelf_eq_loop (a : Fin (10) → α) : U9.divSelf a = L.divSelf (n := 9) a := by
  funext i; fin_cases i <;> rfl
theorem U9_eqE_eq_loop (a b : Fin (10) → α) : U9.eqE a b = L.eqE (n := 9) a b := by
  first | rfl | (unfold U9.eqE L.eqE; congr 2; funext i; fin_cases i <;> rfl) | (unfold U9.eqE L.eqE; congr 3; funext i; fin_cases i <;> rfl)
theorem U9_neE_eq_loop (a b : Fin (10) → α) : U9.neE a b = L.neE (n := 9) a b := by
  first | rfl | (unfold U9.neE L.neE; congr 2; funext i; fin_cases i <;> rfl) | (unfold U9.neE L.neE; congr 3; funext i; fin_cases i <;> rfl)
theorem U9_ltE_eq_loop (a b : Fin (10) → α) : U9.ltE a b = L.ltE (n := 9) a b := by
  first | rfl | (unfold U9.ltE L.ltE; congr 2; funext i; fin_cases i <;> rfl) | (unfold U9.ltE L.ltE; congr 3; funext i; fin_cases i <;> rfl)
theorem U9_gtE_eq_loop (a b : Fin (10) → α) : U9.gtE a b = L.gtE (n := 9) a b := by
  first | rfl | (unfold U9.gtE L.gtE; congr 2; funext i; fin_cases i <;> rfl) | (unfold U9.gtE L.gtE; congr 3; funext i; fin_cases i <;> rfl)
theorem U9_leE_eq_loop (a b : Fin (10) → α) : U9.leE a b = L.leE (n := 9) a b := by
  first | rfl | (unfold U9.leE L.leE; congr 2; funext i; fin_cases i <;> rfl) | (unfold U9.leE L.leE; congr 3; funext i; fin_cases i <;> rfl)
theorem U9_geE_eq_loop (a b : Fin (10) → α) : U9.geE a b = L.geE (n := 9) a b := by
  first | rfl | (unfold U9.geE L.geE; congr 2; funext i; fin_cases i <;> rfl) | (unfold U9.geE L.geE; congr 3; funext i; fin_cases i <;> rfl)
theorem U9_eqS_eq_loop (a : Fin (10) → α) (c : α) : U9.eqS a c = L.eqS (n := 9) a c := by
  first | rfl | (unfold U9.eqS L.eqS; congr 2; funext i; fin_cases i <;> rfl) | (unfold U9.eqS L.eqS; congr 3; funext i; fin_cases i <;> rfl)
theorem U9_neS_eq_loop (a : Fin (10) → α) (c : α) : U9.neS a c = L.neS (n := 9) a c := by
  first | rfl | (unfold U9.neS L.neS; congr 2; funext i; fin_cases i <;> rfl) | (unfold U9.neS L.neS; congr 3; funext i; fin_cases i <;> rfl)
theorem U9_ltS_eq_loop (a : Fin (10) → α) (c : α) : U9.ltS a c = L.ltS (n := 9) a c := by
  first | rfl | (unfold U9.ltS L.ltS; congr 2; funext i; fin_cases i <;> rfl) | (unfold U9.ltS L.ltS; congr 3; funext i; fin_cases i <;> rfl)
theorem U9_gtS_eq_loop (a : Fin (10) → α) (c : α) : U9.gtS a c = L.gtS (n := 9) a c := by
  first | rfl | (unfold U9.gtS L.gtS; congr 2; funext i; fin_cases i <;> rfl) | (unfold U9.gtS L.gtS; congr 3; funext i; fin_cases i <;> rfl)
theorem U9_leS_eq_loop (a : Fin (10) → α) (c : α) : U9.leS a c = L.leS (n := 9) a c := by
  first | rfl | (unfold U9.leS L.leS; congr 2; funext i; fin_cases i <;> rfl) | (unfold U9.leS L.leS; congr 3; funext i; fin_cases i <;> rfl)
theorem U9_geS_eq_loop (a : Fin (10) → α) (c : α) : U9.geS a c = L.geS (n := 9) a c := by
  first | rfl | (unfold U9.geS L.geS; congr 2; funext i; fin_cases i <;> rfl) | (unfold U9.geS L.geS; congr 3; funext i; fin_cases i <;> rfl)
theorem U9_sne_eq_loop (c : α) (a : Fin (10) → α) : U9.sne c a = L.sne (n := 9) c a := by
  first | rfl | (unfold U9.sne L.sne; congr 2; funext i; fin_cases i <;> rfl) | (unfold U9.sne L.sne; congr 3; funext i; fin_cases i <;> rfl)
theorem U9_slt_eq_loop (c : α) (a : Fin (10) → α) : U9.slt c a = L.slt (n := 9) c a := by
  first | rfl | (unfold U9.slt L.slt; congr 2; funext i; fin_cases i <;> rfl) | (unfold U9.slt L.slt; congr 3; funext i; fin_cases i <;> rfl)
theorem U9_sgt_eq_loop (c : α) (a : Fin (10) → α) : U9.sgt c a = L.sgt (n := 9) c a := by
  first | rfl | (unfold U9.sgt L.sgt; congr 2; funext i; fin_cases i <;> rfl) | (unfold U9.sgt L.sgt; congr 3; funext i; fin_cases i <;> rfl)
theorem U9_sle_eq_loop (c : α) (a : Fin (10) → α) : U9.sle c a = L.sle (n := 9) c a := by
  first | rfl | (unfold U9.sle L.sle; congr 2; funext i; fin_cases i <;> rfl) | (unfold U9.sle L.sle; congr 3; funext i; fin_cases i <;> rfl)
theorem U9_sge_eq_loop (c : α) (a : Fin (10) → α) : U9.sge c a = L.sge (n := 9) c a := by
  first | rfl | (unfold U9.sge L.sge; congr 2; funext i; fin_cases i <;> rfl) | (unfold U9.sge L.sge; congr 3; funext i; fin_cases i <;> rfl)
theorem U9_constZero_eq_loop : (U9.constZero : Fin (10) → α) = L.constZero (n := 9) := by
  funext i; fin_cases i <;> rfl
theorem U9_constOne_eq_loop : (U9.constOne : Fin (10) → α) = L.constOne (n := 9) := by
  funext i; fin_cases i <;> rfl
theorem U9_constX_eq_loop (c : α) : U9.constX c = L.constX (n := 9) c := by
  funext i; fin_cases i <;> rfl
theorem U9_varXBase_eq_loop (c : α) : U9.varXBase c = L.varXBase (n := 9) c := by
  funext i; fin_cases i <;> rfl
theorem U9_ops2_eq_loop : (U9.ops2 : ADOps2 α 9) = L.ops2 :=
  ADOps2.ext (funext fun a => U9_addSelf_eq_loop a) (funext fun a => U9_subSelf_eq_loop a) (funext fun a => U9_mulSelf_eq_loop a) (funext fun a => U9_divSelf_eq_loop a) (funext fun a => funext fun b => U9_eqE_eq_loop a b) (funext fun a => funext fun b => U9_neE_eq_loop a b) (funext fun a => funext fun b => U9_ltE_eq_loop a b) (funext fun a => funext fun b => U9_gtE_eq_loop a b) (funext fun a => funext fun b => U9_leE_eq_loop a b) (funext fun a => funext fun b => U9_geE_eq_loop a b) (funext fun a => funext fun c => U9_eqS_eq_loop a c) (funext fun a => funext fun c => U9_neS_eq_loop a c) (funext fun a => funext fun c => U9_ltS_eq_loop a c) (funext fun a => funext fun c => U9_gtS_eq_loop a c) (funext fun a => funext fun c => U9_leS_eq_loop a c) (funext fun a => funext fun c => U9_geS_eq_loop a c) (funext fun c => funext fun a => U9_sne_eq_loop c a) (funext fun c => funext fun a => U9_slt_eq_loop c a) (funext fun c => funext fun a => U9_sgt_eq_loop c a) (funext fun c => funext fun a => U9_sle_eq_loop c a) (funext fun c => funext fun a => U9_sge_eq_loop c a) (U9_constZero_eq_loop) (U9_constOne_eq_loop) (funext fun c => U9_constX_eq_loop c) (funext fun c => U9_varXBase_eq_loop c)

/-! #### Evaluation10.hpp -/
theorem U10_addSelf_eq_loop (a : Fin (11) → α) : U10.addSelf a = L.addSelf (n := 10) a := by
  funext i; fin_cases i <;> rfl
theorem U10_subSelf_eq_loop (a : Fin (11) → α) : U10.subSelf a = L.subSelf (n := 10) a := by
  funext i; fin_cases i <;> rfl
theorem U10_mulSelf_eq_loop (a : Fin (11) → α) : U10.mulSelf a = L.mulSelf (n := 10) a := by
  funext i; fin_cases i <;> rfl
theorem U10_divSelf_eq_loop (a : Fin (11) → α) : U10.divSelf a = L.divSelf (n := 10) a := by
  funext i; fin_cases i <;> rfl
theorem U10_eqE_eq_loop (a b : Fin (11) → α) : U10.eqE a b = L.eqE (n := 10) a b := by
  first | rfl | (unfold U10.eqE L.eqE; congr 2; funext i; fin_cases i <;> rfl) | (unfold U10.eqE L.eqE; congr 3; funext i; fin_cases i <;> rfl)
theorem U10_neE_eq_loop (a b : Fin (11) → α) : U10.neE a b = L.neE (n := 10) a b := by
  first | rfl | (unfold U10.neE L.neE; congr 2; funext i; fin_cases i <;> rfl) | (unfold U10.neE L.neE; congr 3; funext i; fin_cases i <;> rfl)
theorem U10_ltE_eq_loop (a b : Fin (11) → α) : U10.ltE a b = L.ltE (n := 10) a b := by
  first | rfl | (unfold U10.ltE L.ltE; congr 2; funext i; fin_cases i <;> rfl) | (unfold U10.ltE L.ltE; congr 3; funext i; fin_cases i <;> rfl)
theorem U10_gtE_eq_loop (a b : Fin (11) → α) : U10.gtE a b = L.gtE (n := 10) a b := by
  first | rfl | (unfold U10.gtE L.gtE; congr 2; funext i; fin_cases i <;> rfl) | (unfold U10.gtE L.gtE; congr 3; funext i; fin_cases i <;> rfl)
theorem U10_leE_eq_loop (a b : Fin (11) → α) : U10.leE a b = L.leE (n := 10) a b := by
  first | rfl | (unfold U10.leE L.leE; congr 2; funext i; fin_cases i <;> rfl) | (unfold U10.leE L.leE; congr 3; funext i; fin_cases i <;> rfl)
theorem U10_geE_eq_loop (a b : Fin (11) → α) : U10.geE a b = L.geE (n := 10) a b := by
  first | rfl | (unfold U10.geE L.geE; congr 2; funext i; fin_cases i <;> rfl) | (unfold U10.geE L.geE; congr 3; funext i; fin_cases i <;> rfl)
theorem U10_eqS_eq_loop (a : Fin (11) → α) (c : α) : U10.eqS a c = L.eqS (n := 10) a c := by
  first | rfl | (unfold U10.eqS L.eqS; congr 2; funext i; fin_cases i <;> rfl) | (unfold U10.eqS L.eqS; congr 3; funext i; fin_cases i <;> rfl)
theorem U10_neS_eq_loop (a : Fin (11) → α) (c : α) : U10.neS a c = L.neS (n := 10) a c := by
  first | rfl | (unfold U10.neS L.neS; congr 2; funext i; fin_cases i <;> rfl) | (unfold U10.neS L.neS; congr 3; funext i; fin_cases i <;> rfl)
theorem U10_ltS_eq_loop (a : Fin (11) → α) (c : α) : U10.ltS a c = L.ltS (n := 10) a c := by
  first | rfl | (unfold U10.ltS L.ltS; congr 2; funext i; fin_cases i <;> rfl) | (unfold U10.ltS L.ltS; congr 3; funext i; fin_cases i <;> rfl)
theorem U10_gtS_eq_loop (a : Fin (11) → α) (c : α) : U10.gtS a c = L.gtS (n := 10) a c := by
  first | rfl | (unfold U10.gtS L.gtS; congr 2; funext i; fin_cases i <;> rfl) | (unfold U10.gtS L.gtS; congr 3; funext i; fin_cases i <;> rfl)
theorem U10_leS_eq_loop (a : Fin (11) → α) (c : α) : U10.leS a c = L.leS (n := 10) a c := by
  first | rfl | (unfold U10.leS L.leS; congr 2; funext i; fin_cases i <;> rfl) | (unfold U10.leS L.leS; congr 3; funext i; fin_cases i <;> rfl)
theorem U10_geS_eq_loop (a : Fin (11) → α) (c : α) : U10.geS a c = L.geS (n := 10) a c := by
  first | rfl | (unfold U10.geS L.geS; congr 2; funext i; fin_cases i <;> rfl) | (unfold U10.geS L.geS; congr 3; funext i; fin_cases i <;> rfl)
theorem U10_sne_eq_loop (c : α) (a : Fin (11) → α) : U10.sne c a = L.sne (n := 10) c a := by
  first | rfl | (unfold U10.sne L.sne; congr 2; funext i; fin_cases i <;> rfl) | (unfold U10.sne L.sne; congr 3; funext i; fin_cases i <;> rfl)
theorem U10_slt_eq_loop (c : α) (a : Fin (11) → α) : U10.slt c a = L.slt (n := 10) c a := by
  first | rfl | (unfold U10.slt L.slt; congr 2; funext i; fin_cases i <;> rfl) | (unfold U10.slt L.slt; congr 3; funext i; fin_cases i <;> rfl)
theorem U10_sgt_eq_loop (c : α) (a : Fin (11) → α) : U10.sgt c a = L.sgt (n := 10) c a := by
  first | rfl | (unfold U10.sgt L.sgt; congr 2; funext i; fin_cases i <;> rfl) | (unfold U10.sgt L.sgt; congr 3; funext i; fin_cases i <;> rfl)
theorem U10_sle_eq_loop (c : α) (a : Fin (11) → α) : U10.sle c a = L.sle (n := 10) c a := by
  first | rfl | (unfold U10.sle L.sle; congr 2; funext i; fin_cases i <;> rfl) | (unfold U10.sle L.sle; congr 3; funext i; fin_cases i <;> rfl)
theorem U10_sge_eq_loop (c : α) (a : Fin (11) → α) : U10.sge c a = L.sge (n := 10) c a := by
  first | rfl | (unfold U10.sge L.sge; congr 2; funext i; fin_cases i <;> rfl) | (unfold U10.sge L.sge; congr 3; funext i; fin_cases i <;> rfl)
theorem U10_constZero_eq_loop : (U10.constZero : Fin (11) → α) = L.constZero (n := 10) := by
  funext i; fin_cases i <;> rfl
theorem U10_constOne_eq_loop : (U10.constOne : Fin (11) → α) = L.constOne (n := 10) := by
  funext i; fin_cases i <;> rfl
theorem U10_constX_eq_loop (c : α) : U10.constX c = L.constX (n := 10) c := by
  funext i; fin_cases i <;> rfl
theorem U10_varXBase_eq_loop (c : α) : U10.varXBase c = L.varXBase (n := 10) c := by
  funext i; fin_cases i <;> rfl
theorem U10_ops2_eq_loop : (U10.ops2 : ADOps2 α 10) = L.ops2 :=
  ADOps2.ext (funext fun a => U10_addSelf_eq_loop a) (funext fun a => U10_subSelf_eq_loop a) (funext fun a => U10_mulSelf_eq_loop a) (funext fun a => U10_divSelf_eq_loop a) (funext fun a => funext fun b => U10_eqE_eq_loop a b) (funext fun a => funext fun b => U10_neE_eq_loop a b) (funext fun a => funext fun b => U10_ltE_eq_loop a b) (funext fun a => funext fun b => U10_gtE_eq_loop a b) (funext fun a => funext fun b => U10_leE_eq_loop a b) (funext fun a => funext fun b => U10_geE_eq_loop a b) (funext fun a => funext fun c => U10_eqS_eq_loop a c) (funext fun a => funext fun c => U10_neS_eq_loop a c) (funext fun a => funext fun c => U10_ltS_eq_loop a c) (funext fun a => funext fun c => U10_gtS_eq_loop a c) (funext fun a => funext fun c => U10_leS_eq_loop a c) (funext fun a => funext fun c => U10_geS_eq_loop a c) (funext fun c => funext fun a => U10_sne_eq_loop c a) (funext fun c => funext fun a => U10_slt_eq_loop c a) (funext fun c => funext fun a => U10_sgt_eq_loop c a) (funext fun c => funext fun a => U10_sle_eq_loop c a) (funext fun c => funext fun a => U10_sge_eq_loop c a) (U10_constZero_eq_loop) (U10_constOne_eq_loop) (funext fun c => U10_constX_eq_loop c) (funext fun c => U10_varXBase_eq_loop c)

/-! #### Evaluation11.hpp -/
theorem U11_addSelf_eq_loop (a : Fin (12) → α) : U11.addSelf a = L.addSelf (n := 11) a := by
  funext i; fin_cases i <;> rfl
theorem U11_subSelf_eq_loop (a : Fin (12) → α) : U11.subSelf a = L.subSelf (n := 11) a := by
  funext i; fin_cases i <;> rfl
theorem U11_mulSelf_eq_loop (a : Fin (12) → α) : U11.mulSelf a = L.mulSelf (n := 11) a := by
  funext i; fin_cases i <;> rfl
theorem U11_divSelf_eq_loop (a : Fin (12) → α) : U11.divSelf a = L.divSelf (n := 11) a := by
  funext i; fin_cases i <;> rfl
theorem U11_eqE_eq_loop (a b : Fin (12) → α) : U11.eqE a b = L.eqE (n := 11) a b := by
  first | rfl | (unfold U11.eqE L.eqE; congr 2; funext i; fin_cases i <;> rfl) | (unfold U11.eqE L.eqE; congr 3; funext i; fin_cases i <;> rfl)
theorem U11_neE_eq_loop (a b : Fin (12) → α) : U11.neE a b = L.neE (n := 11) a b := by
  first | rfl | (unfold U11.neE L.neE; congr 2; funext i; fin_cases i <;> rfl) | (unfold U11.neE L.neE; congr 3; funext i; fin_cases i <;> rfl)
theorem U11_ltE_eq_loop (a b : Fin (12) → α) : U11.ltE a b = L.ltE (n := 11) a b := by
  first | rfl | (unfold U11.ltE L.ltE; congr 2; funext i; fin_cases i <;> rfl) | (unfold U11.ltE L.ltE; congr 3; funext i; fin_cases i <;> rfl)
theorem U11_gtE_eq_loop (a b : Fin (12) → α) : U11.gtE a b = L.gtE (n := 11) a b := by
  first | rfl | (unfold U11.gtE L.gtE; congr 2; funext i; fin_cases i <;> rfl) | (unfold U11.gtE L.gtE; congr 3; funext i; fin_cases i <;> rfl)
theorem U11_leE_eq_loop (a b : Fin (12) → α) : U11.leE a b = L.leE (n := 11) a b := by
  first | rfl | (unfold U11.leE L.leE; congr 2; funext i; fin_cases i <;> rfl) | (unfold U11.leE L.leE; congr 3; funext i; fin_cases i <;> rfl)
theorem U11_geE_eq_loop (a b : Fin (12) → α) : U11.geE a b = L.geE (n := 11) a b := by
  first | rfl | (unfold U11.geE L.geE; congr 2; funext i; fin_cases i <;> rfl) | (unfold U11.geE L.geE; congr 3; funext i; fin_cases i <;> rfl)
theorem U11_eqS_eq_loop (a : Fin (12) → α) (c : α) : U11.eqS a c = L.eqS (n := 11) a c := by
  first | rfl | (unfold U11.eqS L.eqS; congr 2; funext i; fin_cases i <;> rfl) | (unfold U11.eqS L.eqS; congr 3; funext i; fin_cases i <;> rfl)
theorem U11_neS_eq_loop (a : Fin (12) → α) (c : α) : U11.neS a c = L.neS (n := 11) a c := by
  first | rfl | (unfold U11.neS L.neS; congr 2; funext i; fin_cases i <;> rfl) | (unfold U11.neS L.neS; congr 3; funext i; fin_cases i <;> rfl)
theorem U11_ltS_eq_loop (a : Fin (12) → α) (c : α) : U11.ltS a c = L.ltS (n := 11) a c := by
  first | rfl | (unfold U11.ltS L.ltS; congr 2; funext i; fin_cases i <;> rfl) | (unfold U11.ltS L.ltS; congr 3; funext i; fin_cases i <;> rfl)
theorem U11_gtS_eq_loop (a : Fin (12) → α) (c : α) : U11.gtS a c = L.gtS (n := 11) a c := by
  first | rfl | (unfold U11.gtS L.gtS; congr 2; funext i; fin_cases i <;> rfl) | (unfold U11.gtS L.gtS; congr 3; funext i; fin_cases i <;> rfl)
theorem U11_leS_eq_loop (a : Fin (12) → α) (c : α) : U11.leS a c = L.leS (n := 11) a c := by
  first | rfl | (unfold U11.leS L.leS; congr 2; funext i; fin_cases i <;> rfl) | (unfold U11.leS L.leS; congr 3; funext i; fin_cases i <;> rfl)
theorem U11_geS_eq_loop (a : Fin (12) → α) (c : α) : U11.geS a c = L.geS (n := 11) a c := by
  first | rfl | (unfold U11.geS L.geS; congr 2; funext i; fin_cases i <;> rfl) | (unfold U11.geS L.geS; congr 3; funext i; fin_cases i <;> rfl)
theorem U11_sne_eq_loop (c : α) (a : Fin (12) → α) : U11.sne c a = L.sne (n := 11) c a := by
  first | rfl | (unfold U11.sne L.sne; congr 2; funext i; fin_cases i <;> rfl) | (unfold U11.sne L.sne; congr 3; funext i; fin_cases i <;> rfl)
theorem U11_slt_eq_loop (c : α) (a : Fin (12) → α) : U11.slt c a = L.slt (n := 11) c a := by
  first | rfl | (unfold U11.slt L.slt; congr 2; funext i; fin_cases i <;> rfl) | (unfold U11.slt L.slt; congr 3; funext i; fin_cases i <;> rfl)
theorem U11_sgt_eq_loop (c : α) (a : Fin (12) → α) : U11.sgt c a = L.sgt (n := 11) c a := by
  first | rfl | (unfold U11.sgt L.sgt; congr 2; funext i; fin_cases i <;> rfl) | (unfold U11.sgt L.sgt; congr 3; funext i; fin_cases i <;> rfl)
theorem U11_sle_eq_loop (c : α) (a : Fin (12) → α) : U11.sle c a = L.sle (n := 11) c a := by
  first | rfl | (unfold U11.sle L.sle; congr 2; funext i; fin_cases i <;> rfl) | (unfold U11.sle L.sle; congr 3; funext i; fin_cases i <;> rfl)
theorem U11_sge_eq_loop (c : α) (a : Fin (12) → α) : U11.sge c a = L.sge (n := 11) c a := by
  first | rfl | (unfold U11.sge L.sge; congr 2; funext i; fin_cases i <;> rfl) | (unfold U11.sge L.sge; congr 3; funext i; fin_cases i <;> rfl)
theorem U11_constZero_eq_loop : (U11.constZero : Fin (12) → α) = L.constZero (n := 11) := by
  funext i; fin_cases i <;> rfl
theorem U11_constOne_eq_loop : (U11.constOne : Fin (12) → α) = L.constOne (n := 11) := by
  funext i; fin_cases i <;> rfl
theorem U11_constX_eq_loop (c : α) : U11.constX c = L.constX (n := 11) c := by
  funext i; fin_cases i <;> rfl
theorem U11_varXBase_eq_loop (c : α) : U11.varXBase c = L.varXBase (n := 11) c := by
  funext i; fin_cases i <;> rfl
theorem U11_ops2_eq_loop : (U11.ops2 : ADOps2 α 11) = L.ops2 :=
  ADOps2.ext (funext fun a => U11_addSelf_eq_loop a) (funext fun a => U11_subSelf_eq_loop a) (funext fun a => U11_mulSelf_eq_loop a) (funext fun a => U11_divSelf_eq_loop a) (funext fun a => funext fun b => U11_eqE_eq_loop a b) (funext fun a => funext fun b => U11_neE_eq_loop a b) (funext fun a => funext fun b => U11_ltE_eq_loop a b) (funext fun a => funext fun b => U11_gtE_eq_loop a b) (funext fun a => funext fun b => U11_leE_eq_loop a b) (funext fun a => funext fun b => U11_geE_eq_loop a b) (funext fun a => funext fun c => U11_eqS_eq_loop a c) (funext fun a => funext fun c => U11_neS_eq_loop a c) (funext fun a => funext fun c => U11_ltS_eq_loop a c) (funext fun a => funext fun c => U11_gtS_eq_loop a c) (funext fun a => funext fun c => U11_leS_eq_loop a c) (funext fun a => funext fun c => U11_geS_eq_loop a c) (funext fun c => funext fun a => U11_sne_eq_loop c a) (funext fun c => funext fun a => U11_slt_eq_loop c a) (funext fun c => funext fun a => U11_sgt_eq_loop c a) (funext fun c => funext fun a => U11_sle_eq_loop c a) (funext fun c => funext fun a => U11_sge_eq_loop c a) (U11_constZero_eq_loop) (U11_constOne_eq_loop) (funext fun c => U11_constX_eq_loop c) (funext fun c => U11_varXBase_eq_loop c)

/-! #### Evaluation12.hpp -/
theorem U12_addSelf_eq_loop (a : Fin (13) → α) : U12.addSelf a = L.addSelf (n := 12) a := by
  funext i; fin_cases i <;> rfl
theorem U12_subSelf_eq_loop (a : Fin (13) → α) : U12.subSelf a = L.subSelf (n := 12) a := by
  funext i; fin_cases i <;> rfl
theorem U12_mulSelf_eq_loop (a : Fin (13) → α) : U12.mulSelf a = L.mulSelf (n := 12) a := by
  funext i; fin_cases i <;> rfl
theorem U12_divSelf_eq_loop (a : Fin (13) → α) : U12.divSelf a = L.divSelf (n := 12) a := by
  funext i; fin_cases i <;> rfl
theorem U12_eqE_eq_loop (a b : Fin (13) → α) : U12.eqE a b = L.eqE (n := 12) a b := by
  first | rfl | (unfold U12.eqE L.eqE; congr 2; funext i; fin_cases i <;> rfl) | (unfold U12.eqE L.eqE; congr 3; funext i; fin_cases i <;> rfl)
theorem U12_neE_eq_loop (a b : Fin (13) → α) : U12.neE a b = L.neE (n := 12) a b := by
  first | rfl | (unfold U12.neE L.neE; congr 2; funext i; fin_cases i <;> rfl) | (unfold U12.neE L.neE; congr 3; funext i; fin_cases i <;> rfl)
theorem U12_ltE_eq_loop (a b : Fin (13) → α) : U12.ltE a b = L.ltE (n := 12) a b := by
  first | rfl | (unfold U12.ltE L.ltE; congr 2; funext i; fin_cases i <;> rfl) | (unfold U12.ltE L.ltE; congr 3; funext i; fin_cases i <;> rfl)
theorem U12_gtE_eq_loop (a b : Fin (13) → α) : U12.gtE a b = L.gtE (n := 12) a b := by
  first | rfl | (unfold U12.gtE L.gtE; congr 2; funext i; fin_cases i <;> rfl) | (unfold U12.gtE L.gtE; congr 3; funext i; fin_cases i <;> rfl)
theorem U12_leE_eq_loop (a b : Fin (13) → α) : U12.leE a b = L.leE (n := 12) a b := by
  first | rfl | (unfold U12.leE L.leE; congr 2; funext i; fin_cases i <;> rfl) | (unfold U12.leE L.leE; congr 3; funext i; fin_cases i <;> rfl)
theorem U12_geE_eq_loop (a b : Fin (13) → α) : U12.geE a b = L.geE (n := 12) a b := by
  first | rfl | (unfold U12.geE L.geE; congr 2; funext i; fin_cases i <;> rfl) | (unfold U12.geE L.geE; congr 3; funext i; fin_cases i <;> rfl)
theorem U12_eqS_eq_loop (a : Fin (13) → α) (c : α) : U12.eqS a c = L.eqS (n := 12) a c := by
  first | rfl | (unfold U12.eqS L.eqS; congr 2; funext i; fin_cases i <;> rfl) | (unfold U12.eqS L.eqS; congr 3; funext i; fin_cases i <;> rfl)
theorem U12_neS_eq_loop (a : Fin (13) → α) (c : α) : U12.neS a c = L.neS (n := 12) a c := by
  first | rfl | (unfold U12.neS L.neS; congr 2; funext i; fin_cases i <;> rfl) | (unfold U12.neS L.neS; congr 3; funext i; fin_cases i <;> rfl)
theorem U12_ltS_eq_loop (a : Fin (13) → α) (c : α) : U12.ltS a c = L.ltS (n := 12) a c := by
  first | rfl | (unfold U12.ltS L.ltS; congr 2; funext i; fin_cases i <;> rfl) | (unfold U12.ltS L.ltS; congr 3; funext i; fin_cases i <;> rfl)
theorem U12_gtS_eq_loop (a : Fin (13) → α) (c : α) : U12.gtS a c = L.gtS (n := 12) a c := by
  first | rfl | (unfold U12.gtS L.gtS; congr 2; funext i; fin_cases i <;> rfl) | (unfold U12.gtS L.gtS; congr 3; funext i; fin_cases i <;> rfl)
theorem U12_leS_eq_loop (a : Fin (13) → α) (c : α) : U12.leS a c = L.leS (n := 12) a c := by
  first | rfl | (unfold U12.leS L.leS; congr 2; funext i; fin_cases i <;> rfl) | (unfold U12.leS L.leS; congr 3; funext i; fin_cases i <;> rfl)
theorem U12_geS_eq_loop (a : Fin (13) → α) (c : α) : U12.geS a c = L.geS (n := 12) a c := by
  first | rfl | (unfold U12.geS L.geS; congr 2; funext i; fin_cases i <;> rfl) | (unfold U12.geS L.geS; congr 3; funext i; fin_cases i <;> rfl)
theorem U12_sne_eq_loop (c : α) (a : Fin (13) → α) : U12.sne c a = L.sne (n := 12) c a := by
  first | rfl | (unfold U12.sne L.sne; congr 2; funext i; fin_cases i <;> rfl) | (unfold U12.sne L.sne; congr 3; funext i; fin_cases i <;> rfl)
theorem U12_slt_eq_loop (c : α) (a : Fin (13) → α) : U12.slt c a = L.slt (n := 12) c a := by
  first | rfl | (unfold U12.slt L.slt; congr 2; funext i; fin_cases i <;> rfl) | (unfold U12.slt L.slt; congr 3; funext i; fin_cases i <;> rfl)
theorem U12_sgt_eq_loop (c : α) (a : Fin (13) → α) : U12.sgt c a = L.sgt (n := 12) c a := by
  first | rfl | (unfold U12.sgt L.sgt; congr 2; funext i; fin_cases i <;> rfl) | (unfold U12.sgt L.sgt; congr 3; funext i; fin_cases i <;> rfl)
theorem U12_sle_eq_loop (c : α) (a : Fin (13) → α) : U12.sle c a = L.sle (n := 12) c a := by
  first | rfl | (unfold U12.sle L.sle; congr 2; funext i; fin_cases i <;> rfl) | (unfold U12.sle L.sle; congr 3; funext i; fin_cases i <;> rfl)
theorem U12_sge_eq_loop (c : α) (a : Fin (13) → α) : U12.sge c a = L.sge (n := 12) c a := by
  first | rfl | (unfold U12.sge L.sge; congr 2; funext i; fin_cases i <;> rfl) | (unfold U12.sge L.sge; congr 3; funext i; fin_cases i <;> rfl)
theorem U12_constZero_eq_loop : (U12.constZero : Fin (13) → α) = L.constZero (n := 12) := by
  funext i; fin_cases i <;> rfl
theorem U12_constOne_eq_loop : (U12.constOne : Fin (13) → α) = L.constOne (n := 12) := by
  funext i; fin_cases i <;> rfl
theorem U12_constX_eq_loop (c : α) : U12.constX c = L.constX (n := 12) c := by
  funext i; fin_cases i <;> rfl
theorem U12_varXBase_eq_loop (c : α) : U12.varXBase c = L.varXBase (n := 12) c := by
  funext i; fin_cases i <;> rfl
theorem U12_ops2_eq_loop : (U12.ops2 : ADOps2 α 12) = L.ops2 :=
  ADOps2.ext (funext fun a => U12_addSelf_eq_loop a) (funext fun a => U12_subSelf_eq_loop a) (funext fun a => U12_mulSelf_eq_loop a) (funext fun a => U12_divSelf_eq_loop a) (funext fun a => funext fun b => U12_eqE_eq_loop a b) (funext fun a => funext fun b => U12_neE_eq_loop a b) (funext fun a => funext fun b => U12_ltE_eq_loop a b) (funext fun a => funext fun b => U12_gtE_eq_loop a b) (funext fun a => funext fun b => U12_leE_eq_loop a b) (funext fun a => funext fun b => U12_geE_eq_loop a b) (funext fun a => funext fun c => U12_eqS_eq_loop a c) (funext fun a => funext fun c => U12_neS_eq_loop a c) (funext fun a => funext fun c => U12_ltS_eq_loop a c) (funext fun a => funext fun c => U12_gtS_eq_loop a c) (funext fun a => funext fun c => U12_leS_eq_loop a c) (funext fun a => funext fun c => U12_geS_eq_loop a c) (funext fun c => funext fun a => U12_sne_eq_loop c a) (funext fun c => funext fun a => U12_slt_eq_loop c a) (funext fun c => funext fun a => U12_sgt_eq_loop c a) (funext fun c => funext fun a => U12_sle_eq_loop c a) (funext fun c => funext fun a => U12_sge_eq_loop c a) (U12_constZero_eq_loop) (U12_constOne_eq_loop) (funext fun c => U12_constX_eq_loop c) (funext fun c => U12_varXBase_eq_loop c)

/-! #### DynamicEvaluation.hpp -/
variable {n : Nat}
theorem D_addSelf_eq_loop (a : Fin (n + 1) → α) : D.addSelf a = L.addSelf (n := n) a := by
  rfl
theorem D_subSelf_eq_loop (a : Fin (n + 1) → α) : D.subSelf a = L.subSelf (n := n) a := by
  rfl
theorem D_mulSelf_eq_loop (a : Fin (n + 1) → α) : D.mulSelf a = L.mulSelf (n := n) a := by
  rfl
theorem D_divSelf_eq_loop (a : Fin (n + 1) → α) : D.divSelf a = L.divSelf (n := n) a := by
  rfl
theorem D_eqE_eq_loop (a b : Fin (n + 1) → α) : D.eqE a b = L.eqE (n := n) a b := by
  first | rfl | (unfold D.eqE L.eqE; congr 2; funext i; rfl) | (unfold D.eqE L.eqE; congr 3; funext i; rfl)
theorem D_neE_eq_loop (a b : Fin (n + 1) → α) : D.neE a b = L.neE (n := n) a b := by
  first | rfl | (unfold D.neE L.neE; congr 2; funext i; rfl) | (unfold D.neE L.neE; congr 3; funext i; rfl)
theorem D_ltE_eq_loop (a b : Fin (n + 1) → α) : D.ltE a b = L.ltE (n := n) a b := by
  first | rfl | (unfold D.ltE L.ltE; congr 2; funext i; rfl) | (unfold D.ltE L.ltE; congr 3; funext i; rfl)
theorem D_gtE_eq_loop (a b : Fin (n + 1) → α) : D.gtE a b = L.gtE (n := n) a b := by
  first | rfl | (unfold D.gtE L.gtE; congr 2; funext i; rfl) | (unfold D.gtE L.gtE; congr 3; funext i; rfl)
theorem D_leE_eq_loop (a b : Fin (n + 1) → α) : D.leE a b = L.leE (n := n) a b := by
  first | rfl | (unfold D.leE L.leE; congr 2; funext i; rfl) | (unfold D.leE L.leE; congr 3; funext i; rfl)
theorem D_geE_eq_loop (a b : Fin (n + 1) → α) : D.geE a b = L.geE (n := n) a b := by
  first | rfl | (unfold D.geE L.geE; congr 2; funext i; rfl) | (unfold D.geE L.geE; congr 3; funext i; rfl)
theorem D_eqS_eq_loop (a : Fin (n + 1) → α) (c : α) : D.eqS a c = L.eqS (n := n) a c := by
  first | rfl | (unfold D.eqS L.eqS; congr 2; funext i; rfl) | (unfold D.eqS L.eqS; congr 3; funext i; rfl)
theorem D_neS_eq_loop (a : Fin (n + 1) → α) (c : α) : D.neS a c = L.neS (n := n) a c := by
  first | rfl | (unfold D.neS L.neS; congr 2; funext i; rfl) | (unfold D.neS L.neS; congr 3; funext i; rfl)
theorem D_ltS_eq_loop (a : Fin (n + 1) → α) (c : α) : D.ltS a c = L.ltS (n := n) a c := by
  first | rfl | (unfold D.ltS L.ltS; congr 2; funext i; rfl) | (unfold D.ltS L.ltS; congr 3; funext i; rfl)
theorem D_gtS_eq_loop (a : Fin (n + 1) → α) (c : α) : D.gtS a c = L.gtS (n := n) a c := by
  first | rfl | (unfold D.gtS L.gtS; congr 2; funext i; rfl) | (unfold D.gtS L.gtS; congr 3; funext i; rfl)
theorem D_leS_eq_loop (a : Fin (n + 1) → α) (c : α) : D.leS a c = L.leS (n := n) a c := by
  first | rfl | (unfold D.leS L.leS; congr 2; funext i; rfl) | (unfold D.leS L.leS; congr 3; funext i; rfl)
theorem D_geS_eq_loop (a : Fin (n + 1) → α) (c : α) : D.geS a c = L.geS (n := n) a c := by
  first | rfl | (unfold D.geS L.geS; congr 2; funext i; rfl) | (unfold D.geS L.geS; congr 3; funext i; rfl)
theorem D_sne_eq_loop (c : α) (a : Fin (n + 1) → α) : D.sne c a = L.sne (n := n) c a := by
  first | rfl | (unfold D.sne L.sne; congr 2; funext i; rfl) | (unfold D.sne L.sne; congr 3; funext i; rfl)
theorem D_slt_eq_loop (c : α) (a : Fin (n + 1) → α) : D.slt c a = L.slt (n := n) c a := by
  first | rfl | (unfold D.slt L.slt; congr 2; funext i; rfl) | (unfold D.slt L.slt; congr 3; funext i; rfl)
theorem D_sgt_eq_loop (c : α) (a : Fin (n + 1) → α) : D.sgt c a = L.sgt (n := n) c a := by
  first | rfl | (unfold D.sgt L.sgt; congr 2; funext i; rfl) | (unfold D.sgt L.sgt; congr 3; funext i; rfl)
theorem D_sle_eq_loop (c : α) (a : Fin (n + 1) → α) : D.sle c a = L.sle (n := n) c a := by
  first | rfl | (unfold D.sle L.sle; congr 2; funext i; rfl) | (unfold D.sle L.sle; congr 3; funext i; rfl)
theorem D_sge_eq_loop (c : α) (a : Fin (n + 1) → α) : D.sge c a = L.sge (n := n) c a := by
  first | rfl | (unfold D.sge L.sge; congr 2; funext i; rfl) | (unfold D.sge L.sge; congr 3; funext i; rfl)
theorem D_constZero_eq_loop : (D.constZero : Fin (n + 1) → α) = L.constZero (n := n) := by
  rfl
theorem D_constOne_eq_loop : (D.constOne : Fin (n + 1) → α) = L.constOne (n := n) := by
  rfl
theorem D_constX_eq_loop (c : α) : D.constX c = L.constX (n := n) c := by
  rfl
theorem D_varXBase_eq_loop (c : α) : D.varXBase c = L.varXBase (n := n) c := by
  rfl
theorem D_ops2_eq_loop : (D.ops2 : ADOps2 α n) = L.ops2 :=
  ADOps2.ext (funext fun a => D_addSelf_eq_loop a) (funext fun a => D_subSelf_eq_loop a) (funext fun a => D_mulSelf_eq_loop a) (funext fun a => D_divSelf_eq_loop a) (funext fun a => funext fun b => D_eqE_eq_loop a b) (funext fun a => funext fun b => D_neE_eq_loop a b) (funext fun a => funext fun b => D_ltE_eq_loop a b) (funext fun a => funext fun b => D_gtE_eq_loop a b) (funext fun a => funext fun b => D_leE_eq_loop a b) (funext fun a => funext fun b => D_geE_eq_loop a b) (funext fun a => funext fun c => D_eqS_eq_loop a c) (funext fun a => funext fun c => D_neS_eq_loop a c) (funext fun a => funext fun c => D_ltS_eq_loop a c) (funext fun a => funext fun c => D_gtS_eq_loop a c) (funext fun a => funext fun c => D_leS_eq_loop a c) (funext fun a => funext fun c => D_geS_eq_loop a c) (funext fun c => funext fun a => D_sne_eq_loop c a) (funext fun c => funext fun a => D_slt_eq_loop c a) (funext fun c => funext fun a => D_sgt_eq_loop c a) (funext fun c => funext fun a => D_sle_eq_loop c a) (funext fun c => funext fun a => D_sge_eq_loop c a) (D_constZero_eq_loop) (D_constOne_eq_loop) (funext fun c => D_constX_eq_loop c) (funext fun c => D_varXBase_eq_loop c)

/-! #### `x op= x` (the argument aliases `*this`) computes `x op x`, in the loop form -/
theorem L_addSelf_eq (a : Fin (n + 1) → α) : L.addSelf a = L.add a a := rfl
theorem L_subSelf_eq (a : Fin (n + 1) → α) : L.subSelf a = L.sub a a := rfl
theorem L_mulSelf_eq (a : Fin (n + 1) → α) : L.mulSelf a = L.mul a a := rfl
theorem L_divSelf_eq (a : Fin (n + 1) → α) : L.divSelf a = L.div a a := rfl
end second

end OpmVerif.DenseAd.GenProofs
