/-
  C16 — second part: what the remaining members of the Evaluation classes compute.

  * `Exact2 o`          : `x op= x` (argument aliases `*this`) is `x op x` in dual-number arithmetic; the six
                          comparison operators in their member (Evaluation / scalar right-hand side) and friend
                          (`scalar ∘ Evaluation`) forms are the comparisons of the VALUES (ties included), `==`
                          between Evaluations is equality of every slot, `!=` its negation; the factories
                          `createConstantZero/One`, `createConstant(x, c)`, `createVariable(x, c, k)` are the
                          constants / the variable seed.
  * `loop_exact2`, `dynamic_exact2`, `unrolled_exact2_N` : for every n / N = 1…12.
  * `loop_ring_exact`   : the division-free operators are the derivation rules over ANY commutative ring.
  * `min_select … abs_select`, `minmax_abs_value`, `pow_zero_base`, `pows_int_exact` : Math.hpp at ties, at
                          the kink of abs, at the special-cased base 0 and for negative bases with integer exponents.
-/
import OpmVerif.Proofs.DenseAdMath
import Mathlib.Analysis.SpecialFunctions.Pow.Deriv

namespace OpmVerif.DenseAd
open Gen

theorem allSlots_iff : ∀ {k : Nat} (p : Fin k → Bool), allSlots k p = true ↔ ∀ i, p i = true
  | 0, p => by simp [allSlots]
  | k + 1, p => by
    rw [allSlots, Bool.and_eq_true, allSlots_iff (fun i => p i.succ)]
    constructor
    · rintro ⟨h0, hs⟩ i
      rcases Fin.eq_zero_or_eq_succ i with h | ⟨j, hj⟩
      · rw [h]; exact h0
      · rw [hj]; exact hs j
    · intro h; exact ⟨h 0, fun j => h j.succ⟩

/-! ### MathToolbox<Evaluation>::isSame / isfinite / isnan: every slot is looked at, for every n -/
section preds
variable {α : Type} {n : Nat}

theorem isSame_iff (P : Preds α) (a b : Fin (n + 1) → α) (tol : α) :
    M.isSame P a b tol = true ↔ ∀ i, P.isSame (a i) (b i) tol = true := by
  unfold M.isSame
  by_cases h0 : P.isSame (a 0) (b 0) tol = true
  · simp only [h0, Bool.not_true, Bool.false_eq_true, if_false, Bool.and_true, allSlots_iff]
    constructor
    · intro h i
      by_cases hi : i.val = 0
      · have : i = 0 := Fin.ext hi
        subst this; exact h0
      · simpa [hi] using h i
    · intro h i; by_cases hi : i.val = 0 <;> simp [hi, h i]
  · have : ¬ ∀ i, P.isSame (a i) (b i) tol = true := fun h => h0 (h 0)
    simp [h0, this]

theorem isfinite_iff (P : Preds α) (a : Fin (n + 1) → α) :
    M.isfinite P a = true ↔ ∀ i, P.isfinite (a i) = true := by
  unfold M.isfinite
  by_cases h0 : P.isfinite (a 0) = true
  · simp only [h0, Bool.not_true, Bool.false_eq_true, if_false, Bool.and_true, allSlots_iff]
    constructor
    · intro h i
      by_cases hi : i.val = 0
      · have : i = 0 := Fin.ext hi
        subst this; exact h0
      · simpa [hi] using h i
    · intro h i; by_cases hi : i.val = 0 <;> simp [hi, h i]
  · have : ¬ ∀ i, P.isfinite (a i) = true := fun h => h0 (h 0)
    simp [h0, this]

theorem isnan_iff (P : Preds α) (a : Fin (n + 1) → α) :
    M.isnan P a = true ↔ ∃ i, P.isnan (a i) = true := by
  unfold M.isnan
  by_cases h0 : P.isnan (a 0) = true
  · simp only [h0, if_true, true_iff]; exact ⟨0, h0⟩
  · simp only [h0, Bool.false_eq_true, if_false, Bool.and_true, Bool.or_false, Bool.not_eq_true', ← Bool.not_eq_true, allSlots_iff]
    constructor
    · intro h
      by_contra hne
      apply h
      intro i
      by_cases hi : i.val = 0
      · simp [hi]
      · have : ¬ P.isnan (a i) = true := fun hh => hne ⟨i, hh⟩
        simp [hi, this]
    · rintro ⟨i, hi⟩ hall
      have h := hall i
      by_cases hz : i.val = 0
      · have : i = 0 := Fin.ext hz
        subst this; exact h0 hi
      · simp [hz, hi] at h
end preds

section field
variable {K : Type} [Field K] [LinearOrder K] {n : Nat}

/-- what the second operator set has to compute -/
structure Exact2 (o : ADOps2 K n) : Prop where
  addSelf : ∀ a, toDual (o.addSelf a) = Dual.add (toDual a) (toDual a)
  subSelf : ∀ a, toDual (o.subSelf a) = Dual.sub (toDual a) (toDual a)
  mulSelf : ∀ a, toDual (o.mulSelf a) = Dual.mul (toDual a) (toDual a)
  divSelf : ∀ a, toDual (o.divSelf a) = Dual.div (toDual a) (toDual a)
  eqE : ∀ a b, o.eqE a b = true ↔ a = b
  neE : ∀ a b, o.neE a b = !o.eqE a b
  ltE : ∀ a b, o.ltE a b = decide (a 0 < b 0)
  gtE : ∀ a b, o.gtE a b = decide (b 0 < a 0)
  leE : ∀ a b, o.leE a b = decide (a 0 ≤ b 0)
  geE : ∀ a b, o.geE a b = decide (b 0 ≤ a 0)
  eqS : ∀ a c, o.eqS a c = decide (a 0 = c)
  neS : ∀ a c, o.neS a c = decide (a 0 ≠ c)
  ltS : ∀ a c, o.ltS a c = decide (a 0 < c)
  gtS : ∀ a c, o.gtS a c = decide (c < a 0)
  leS : ∀ a c, o.leS a c = decide (a 0 ≤ c)
  geS : ∀ a c, o.geS a c = decide (c ≤ a 0)
  sne : ∀ c a, o.sne c a = decide (c ≠ a 0)
  slt : ∀ c a, o.slt c a = decide (c < a 0)
  sgt : ∀ c a, o.sgt c a = decide (a 0 < c)
  sle : ∀ c a, o.sle c a = decide (c ≤ a 0)
  sge : ∀ c a, o.sge c a = decide (a 0 ≤ c)
  constZero : toDual o.constZero = Dual.const 0
  constOne : toDual o.constOne = Dual.const 1
  constX : ∀ c, toDual (o.constX c) = Dual.const c
  varXBase : ∀ c, toDual (o.varXBase c) = Dual.const c

theorem L_eqE_iff (a b : Fin (n + 1) → K) : (L.ops2 : ADOps2 K n).eqE a b = true ↔ a = b := by
  simp only [L.ops2, L.eqE, Bool.and_true, allSlots_iff]
  constructor
  · intro h; funext i
    have := h i
    by_cases hi : i.val = 0
    · have h0 : i = 0 := Fin.ext hi
      subst h0; simpa using this
    · simpa [hi] using this
  · rintro rfl i; by_cases hi : i.val = 0 <;> simp [hi]

theorem loop_exact2 : Exact2 (L.ops2 : ADOps2 K n) where
  addSelf a := by rw [show (L.ops2 : ADOps2 K n).addSelf a = (L.ops : ADOps K n).add a a from rfl]; exact loop_exact.add a a
  subSelf a := by rw [show (L.ops2 : ADOps2 K n).subSelf a = (L.ops : ADOps K n).sub a a from rfl]; exact loop_exact.sub a a
  mulSelf a := by rw [show (L.ops2 : ADOps2 K n).mulSelf a = (L.ops : ADOps K n).mul a a from rfl]; exact loop_exact.mul a a
  divSelf a := by rw [show (L.ops2 : ADOps2 K n).divSelf a = (L.ops : ADOps K n).div a a from rfl]; exact loop_exact.div a a
  eqE := L_eqE_iff
  neE a b := rfl
  ltE a b := rfl
  gtE a b := rfl
  leE a b := rfl
  geE a b := rfl
  eqS a c := by simp only [L.ops2, L.eqS]; exact beq_eq_decide _ _
  neS a c := by simp only [L.ops2, L.neS, decide_not]; exact congrArg _ (beq_eq_decide _ _)
  ltS a c := rfl
  gtS a c := rfl
  leS a c := rfl
  geS a c := rfl
  sne c a := by simp only [L.ops2, L.sne, decide_not, bne]; exact congrArg _ (beq_eq_decide _ _)
  slt c a := rfl
  sgt c a := rfl
  sle c a := rfl
  sge c a := rfl
  constZero := by apply Dual.ext' <;> (try intro j) <;> simp [L.ops2, L.constZero, toDual, Dual.const]
  constOne := by apply Dual.ext' <;> (try intro j) <;> simp [L.ops2, L.constOne, toDual, Dual.const]
  constX c := by apply Dual.ext' <;> (try intro j) <;> simp [L.ops2, L.constX, toDual, Dual.const]
  varXBase c := by apply Dual.ext' <;> (try intro j) <;> simp [L.ops2, L.varXBase, toDual, Dual.const]


theorem dynamic_exact2 : Exact2 (D.ops2 : ADOps2 K n) := by rw [GenProofs.D_ops2_eq_loop]; exact loop_exact2
theorem unrolled_exact2_1 : Exact2 (U1.ops2 : ADOps2 K 1) := by rw [GenProofs.U1_ops2_eq_loop]; exact loop_exact2
theorem unrolled_exact2_2 : Exact2 (U2.ops2 : ADOps2 K 2) := by rw [GenProofs.U2_ops2_eq_loop]; exact loop_exact2
theorem unrolled_exact2_3 : Exact2 (U3.ops2 : ADOps2 K 3) := by rw [GenProofs.U3_ops2_eq_loop]; exact loop_exact2
theorem unrolled_exact2_4 : Exact2 (U4.ops2 : ADOps2 K 4) := by rw [GenProofs.U4_ops2_eq_loop]; exact loop_exact2
theorem unrolled_exact2_5 : Exact2 (U5.ops2 : ADOps2 K 5) := by rw [GenProofs.U5_ops2_eq_loop]; exact loop_exact2
theorem unrolled_exact2_6 : Exact2 (U6.ops2 : ADOps2 K 6) := by rw [GenProofs.U6_ops2_eq_loop]; exact loop_exact2
theorem unrolled_exact2_7 : Exact2 (U7.ops2 : ADOps2 K 7) := by rw [GenProofs.U7_ops2_eq_loop]; exact loop_exact2
theorem unrolled_exact2_8 : Exact2 (U8.ops2 : ADOps2 K 8) := by rw [GenProofs.U8_ops2_eq_loop]; exact loop_exact2
theorem unrolled_exact2_9 : Exact2 (U9.ops2 : ADOps2 K 9) := by rw [GenProofs.U9_ops2_eq_loop]; exact loop_exact2
theorem unrolled_exact2_10 : Exact2 (U10.ops2 : ADOps2 K 10) := by rw [GenProofs.U10_ops2_eq_loop]; exact loop_exact2
theorem unrolled_exact2_11 : Exact2 (U11.ops2 : ADOps2 K 11) := by rw [GenProofs.U11_ops2_eq_loop]; exact loop_exact2
theorem unrolled_exact2_12 : Exact2 (U12.ops2 : ADOps2 K 12) := by rw [GenProofs.U12_ops2_eq_loop]; exact loop_exact2

/-- comparisons with a scalar are the comparisons with the lifted constant (`==`/`!=` excepted: the
scalar form looks at the value only, the Evaluation form at every slot) -/
theorem cmp_mixed_eq_lifted {ops : ADOps K n} {o : ADOps2 K n} (hx : Exact ops) (h2 : Exact2 o) (a : Fin (n + 1) → K) (c : K) :
    o.ltS a c = o.ltE a (ops.const c) ∧ o.gtS a c = o.gtE a (ops.const c) ∧
    o.leS a c = o.leE a (ops.const c) ∧ o.geS a c = o.geE a (ops.const c) ∧
    o.slt c a = o.ltE (ops.const c) a ∧ o.sgt c a = o.gtE (ops.const c) a ∧
    o.sle c a = o.leE (ops.const c) a ∧ o.sge c a = o.geE (ops.const c) a ∧
    o.slt c a = o.gtS a c ∧ o.sgt c a = o.ltS a c ∧ o.sle c a = o.geS a c ∧ o.sge c a = o.leS a c := by
  have hc : ops.const c 0 = c := congrArg Dual.val (hx.const c)
  simp only [h2.ltS, h2.gtS, h2.leS, h2.geS, h2.ltE, h2.gtE, h2.leE, h2.geE, h2.slt, h2.sgt, h2.sle, h2.sge, hc, and_self]

/-- `x == c` is the value comparison; it agrees with `x == Evaluation(c)` exactly when all derivatives of x vanish -/
theorem eqS_vs_eqE {ops : ADOps K n} {o : ADOps2 K n} (hx : Exact ops) (h2 : Exact2 o) (a : Fin (n + 1) → K) (c : K) :
    (o.eqE a (ops.const c) = true ↔ o.eqS a c = true ∧ ∀ j : Fin n, a j.succ = 0) := by
  have hc : ops.const c 0 = c := congrArg Dual.val (hx.const c)
  have hg : ∀ j : Fin n, ops.const c j.succ = 0 := fun j => congrFun (congrArg Dual.grad (hx.const c)) j
  rw [h2.eqE, h2.eqS, decide_eq_true_iff]
  constructor
  · rintro rfl; exact ⟨hc, hg⟩
  · rintro ⟨h0, hj⟩; funext i
    rcases Fin.eq_zero_or_eq_succ i with h | ⟨j, rfl⟩
    · rw [h, h0, hc]
    · rw [hj, hg]

end field


/-! ### the division-free operators over an arbitrary commutative ring -/
section ring
variable {R : Type} [CommRing R] [Div R] {n : Nat}

/-- sum, difference, product (Leibniz rule), negation, the scalar forms in both orders, constants and
`x op= x` of the generic loop form are the derivation rules over ANY commutative ring, for every n -/
theorem loop_ring_exact (a b : Fin (n + 1) → R) (c : R) :
    toDual ((L.ops : ADOps R n).add a b) = Dual.add (toDual a) (toDual b) ∧
    toDual ((L.ops : ADOps R n).sub a b) = Dual.sub (toDual a) (toDual b) ∧
    toDual ((L.ops : ADOps R n).mul a b) = Dual.mul (toDual a) (toDual b) ∧
    toDual ((L.ops : ADOps R n).neg a) = Dual.neg (toDual a) ∧
    toDual ((L.ops : ADOps R n).adds a c) = Dual.add (toDual a) (Dual.const c) ∧
    toDual ((L.ops : ADOps R n).subs a c) = Dual.sub (toDual a) (Dual.const c) ∧
    toDual ((L.ops : ADOps R n).muls a c) = Dual.mul (toDual a) (Dual.const c) ∧
    toDual ((L.ops : ADOps R n).sadd c a) = Dual.add (Dual.const c) (toDual a) ∧
    toDual ((L.ops : ADOps R n).ssub c a) = Dual.sub (Dual.const c) (toDual a) ∧
    toDual ((L.ops : ADOps R n).smul c a) = Dual.mul (Dual.const c) (toDual a) ∧
    toDual ((L.ops : ADOps R n).const c) = Dual.const c ∧
    toDual (L.mulSelf a) = Dual.mul (toDual a) (toDual a) := by
  refine ⟨?_, ?_, ?_, ?_, ?_, ?_, ?_, ?_, ?_, ?_, ?_, ?_⟩ <;>
    (apply Dual.ext' <;> (try intro j) <;>
      simp [L.ops, toDual, Dual.add, Dual.sub, Dual.mul, Dual.neg, Dual.const,
        L.add, L.sub, L.mul, L.adds, L.subs, L.muls, L.neg, L.const, L.sadd, L.ssub, L.smul, L.mulSelf] <;> try ring1)
end ring

/-! ### Math.hpp at ties, kinks and the special-cased base 0 -/
section ties
variable {n : Nat}

theorem min_select (a b : Fin (n + 1) → ℝ) : M.min RF a b = if a 0 < b 0 then a else b := by
  funext i; by_cases h : a 0 < b 0 <;> by_cases hi : i.val = 0 <;> simp [M.min, h, hi]
  all_goals (have : i = 0 := Fin.ext hi; subst this; rfl)
theorem max_select (a b : Fin (n + 1) → ℝ) : M.max RF a b = if a 0 > b 0 then a else b := by
  funext i; by_cases h : a 0 > b 0 <;> by_cases hi : i.val = 0 <;> simp [M.max, h, hi]
  all_goals (have : i = 0 := Fin.ext hi; subst this; rfl)

theorem smin_select (c : ℝ) (a : Fin (n + 1) → ℝ) : M.smin RF c a = if c < a 0 then L.const c else a := by
  funext i; by_cases h : c < a 0 <;> by_cases hi : i.val = 0 <;> simp [M.smin, L.const, h, hi]
  all_goals (have : i = 0 := Fin.ext hi; subst this; rfl)
theorem smax_select (c : ℝ) (a : Fin (n + 1) → ℝ) : M.smax RF c a = if c > a 0 then L.const c else a := by
  funext i; by_cases h : c > a 0 <;> by_cases hi : i.val = 0 <;> simp [M.smax, L.const, h, hi]
  all_goals (have : i = 0 := Fin.ext hi; subst this; rfl)
theorem abs_select (a : Fin (n + 1) → ℝ) : M.abs RF a = if a 0 > 0 then a else L.neg a := by
  funext i; by_cases h : a 0 > 0 <;> by_cases hi : i.val = 0 <;> simp [M.abs, L.neg, h, hi]
  all_goals (have : i = 0 := Fin.ext hi; subst this; rfl)

/-- value slot at EVERY input, ties and the kink included -/
theorem minmax_abs_value (a b : Fin (n + 1) → ℝ) (c : ℝ) :
    M.min RF a b 0 = min (a 0) (b 0) ∧ M.max RF a b 0 = max (a 0) (b 0) ∧
    M.smin RF c a 0 = min c (a 0) ∧ M.smax RF c a 0 = max c (a 0) ∧ M.abs RF a 0 = |a 0| := by
  refine ⟨?_, ?_, ?_, ?_, ?_⟩
  · rw [min_select]; split <;> rename_i h
    · exact (min_eq_left h.le).symm
    · exact (min_eq_right (not_lt.mp h)).symm
  · rw [max_select]; split <;> rename_i h
    · exact (max_eq_left (le_of_lt h)).symm
    · exact (max_eq_right (not_lt.mp h)).symm
  · rw [smin_select]; split <;> rename_i h
    · simpa [L.const] using (min_eq_left h.le).symm
    · exact (min_eq_right (not_lt.mp h)).symm
  · rw [smax_select]; split <;> rename_i h
    · simpa [L.const] using (max_eq_left (le_of_lt h)).symm
    · exact (max_eq_right (not_lt.mp h)).symm
  · rw [abs_select]; split <;> rename_i h
    · exact (abs_of_pos h).symm
    · simpa [L.neg] using (abs_of_nonpos (not_lt.mp h)).symm

/-- the special-cased base 0: every form of `pow` returns the constant 0 (value and all derivatives),
whatever the exponent -/
theorem pow_zero_base (a b : Fin (n + 1) → ℝ) (c : ℝ) :
    (a 0 = 0 → M.pow RF a b = L.const 0) ∧ (a 0 = 0 → M.pows RF a c = L.const 0) ∧ M.spow RF 0 a = L.const 0 := by
  refine ⟨fun h => ?_, fun h => ?_, ?_⟩ <;> funext i <;> by_cases hi : i.val = 0 <;> simp [M.pow, M.pows, M.spow, L.const, *]

/-- `pow(x, m)` with an integer exponent and a non-zero (possibly negative) base: value xᵐ, derivative
m·xᵐ⁻¹ in chain-rule form -/
theorem pows_int_exact (a : Fin (n + 1) → ℝ) (m : ℤ) (h : a 0 ≠ 0) :
    ∃ d, HasDerivAt (fun t : ℝ => t ^ m) d (a 0) ∧
      toDual (M.pows RF a (m : ℝ)) = Dual.chain ((a 0) ^ m) d (toDual a) := by
  refine ⟨(a 0) ^ m / a 0 * m, ?_, ?_⟩
  · have := hasDerivAt_zpow m (a 0) (Or.inl h)
    refine this.congr_deriv ?_
    rw [zpow_sub_one₀ h]; field_simp
  · apply Dual.ext' <;> (try intro j) <;> simp [toDual, Dual.chain, M.pows, RF, h, Real.rpow_intCast]
end ties
end OpmVerif.DenseAd
