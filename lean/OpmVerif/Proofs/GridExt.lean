/-
  Lemmas for the third-round extension of C13 (`Model/GridExt.lean`): MINPV activity rule and the
  mask it produces, the active ↔ global bijection, identities between getCellDepth /
  getCellCenter / getCellThickness / getCellDims for arbitrary (distorted) cells and under
  subdivision, radial (cylindrical) cell volumes, GRIDUNIT rescaling, MapAxes.
-/
import Mathlib.Tactic.Ring
import Mathlib.Tactic.Linarith
import Mathlib.Tactic.FieldSimp
import Mathlib.Algebra.Order.Field.Basic
import Mathlib.Algebra.Order.AbsoluteValue.Basic
import OpmVerif.Model.GridExt
import OpmVerif.Proofs.Grid
import OpmVerif.Proofs.GridState
import OpmVerif.Proofs.GridPos

set_option linter.unusedSectionVars false

namespace OpmVerif.GridExt
open OpmVerif.Grid
open OpmVerif.Gen.CellVol

/-! ## MINPV -/

section MinpvProofs
variable {α : Type} [LE α] [DecidableLE α]

theorem keeps_pos {mode : MinpvMode} {a : Int} {m p : α} (h : keeps mode a m p = true) : a > 0 := by
  unfold keeps at h
  simp only [Bool.and_eq_true, decide_eq_true_eq] at h
  exact h.1

/-- The rule itself: a cell is kept iff it was active and (MINPV is not in use or its pore
volume reaches the threshold). -/
theorem keeps_iff (mode : MinpvMode) (a : Int) (m p : α) :
    keeps mode a m p = true ↔ a > 0 ∧ (mode = .inactive ∨ m ≤ p) := by
  unfold keeps
  simp only [Bool.and_eq_true, decide_eq_true_eq, Bool.or_eq_true, beq_iff_eq]

theorem maskEntry_pos_iff (mode : MinpvMode) (a : Int) (m p : α) :
    (if keeps mode a m p then a else 0) > 0 ↔ keeps mode a m p = true := by
  by_cases h : keeps mode a m p = true
  · simp only [h, if_true, iff_true]; exact keeps_pos h
  · simp only [h]; simp

theorem maskGo_length (mode : MinpvMode) :
    ∀ (a : List Int) (m p : List α), a.length = m.length → a.length = p.length →
      (maskGo mode a m p).length = a.length
  | [], _, _, _, _ => by cases ‹List α› <;> simp [maskGo]
  | _ :: _, [], _, h, _ => by simp at h
  | _ :: _, _ :: _, [], _, h => by simp at h
  | a :: as, m :: ms, p :: ps, h1, h2 => by
    simp only [maskGo, List.length_cons]
    rw [maskGo_length mode as ms ps (by simpa using h1) (by simpa using h2)]

theorem maskGo_getElem? (mode : MinpvMode) :
    ∀ (a : List Int) (m p : List α) (g : Nat) (av : Int) (mv pv : α),
      a[g]? = some av → m[g]? = some mv → p[g]? = some pv →
      (maskGo mode a m p)[g]? = some (if keeps mode av mv pv then av else 0)
  | [], _, _, _, _, _, _, h, _, _ => by simp at h
  | _ :: _, [], _, _, _, _, _, _, h, _ => by simp at h
  | _ :: _, _ :: _, [], _, _, _, _, _, _, h => by simp at h
  | a :: as, m :: ms, p :: ps, 0, av, mv, pv, h1, h2, h3 => by
    simp only [List.getElem?_cons_zero, Option.some.injEq] at h1 h2 h3
    subst h1; subst h2; subst h3
    simp [maskGo]
  | a :: as, m :: ms, p :: ps, g + 1, av, mv, pv, h1, h2, h3 => by
    simp only [List.getElem?_cons_succ] at h1 h2 h3
    simp only [maskGo, List.getElem?_cons_succ]
    exact maskGo_getElem? mode as ms ps g av mv pv h1 h2 h3

theorem numActive_cons_le (a : Int) (as : List Int) : numActive as ≤ numActive (a :: as) := by
  simp only [numActive]; split <;> omega

/-- A MINPV pass never activates a cell. -/
theorem maskGo_numActive_le (mode : MinpvMode) :
    ∀ (a : List Int) (m p : List α), numActive (maskGo mode a m p) ≤ numActive a
  | [], m, p => by cases m <;> cases p <;> simp [maskGo, numActive]
  | _ :: _, [], _ => by simp [maskGo, numActive]
  | _ :: _, _ :: _, [] => by simp [maskGo, numActive]
  | a :: as, m :: ms, p :: ps => by
    have ih := maskGo_numActive_le mode as ms ps
    simp only [maskGo]
    by_cases h : keeps mode a m p = true
    · simp only [h, if_true, numActive]; split <;> omega
    · simp only [h]
      have : numActive ((0 : Int) :: maskGo mode as ms ps) = numActive (maskGo mode as ms ps) := by
        simp [numActive]
      simp only [Bool.false_eq_true, if_false]
      rw [this]
      exact Nat.le_trans ih (numActive_cons_le a as)

/-- Applying the same pass again changes nothing. -/
theorem maskGo_idem (mode : MinpvMode) :
    ∀ (a : List Int) (m p : List α), maskGo mode (maskGo mode a m p) m p = maskGo mode a m p
  | [], m, p => by cases m <;> cases p <;> simp [maskGo]
  | _ :: _, [], _ => by simp [maskGo]
  | _ :: _, _ :: _, [] => by simp [maskGo]
  | a :: as, m :: ms, p :: ps => by
    simp only [maskGo]
    rw [maskGo_idem mode as ms ps]
    by_cases h : keeps mode a m p = true
    · simp [h]
    · have h0 : keeps mode 0 m p = false := by simp [keeps]
      simp [h, h0]

/-- With `MinpvMode::Inactive` the pass leaves the active maps as they are. -/
theorem maskGo_inactive_g2a :
    ∀ (a : List Int) (m p : List α) (n : Nat), a.length = m.length → a.length = p.length →
      globalToActive (maskGo .inactive a m p) n = globalToActive a n
  | [], m, p, _, _, _ => by cases m <;> cases p <;> simp [maskGo, globalToActive]
  | _ :: _, [], _, _, h, _ => by simp at h
  | _ :: _, _ :: _, [], _, _, h => by simp at h
  | a :: as, m :: ms, p :: ps, n, h1, h2 => by
    have e : keeps .inactive a m p = decide (a > 0) := by simp [keeps]
    simp only [maskGo, e]
    by_cases h : a > 0
    · simp only [h, decide_true, if_true, globalToActive]
      rw [maskGo_inactive_g2a as ms ps _ (by simpa using h1) (by simpa using h2)]
    · have ih := maskGo_inactive_g2a as ms ps n (by simpa using h1) (by simpa using h2)
      simp [h, globalToActive, ih]

theorem maskGo_inactive_a2g :
    ∀ (a : List Int) (m p : List α) (g : Nat), a.length = m.length → a.length = p.length →
      activeToGlobal (maskGo .inactive a m p) g = activeToGlobal a g
  | [], m, p, _, _, _ => by cases m <;> cases p <;> simp [maskGo, activeToGlobal]
  | _ :: _, [], _, _, h, _ => by simp at h
  | _ :: _, _ :: _, [], _, _, h => by simp at h
  | a :: as, m :: ms, p :: ps, g, h1, h2 => by
    have e : keeps .inactive a m p = decide (a > 0) := by simp [keeps]
    simp only [maskGo, e]
    by_cases h : a > 0
    · simp only [h, decide_true, if_true, activeToGlobal]
      rw [maskGo_inactive_a2g as ms ps _ (by simpa using h1) (by simpa using h2)]
    · have ih := maskGo_inactive_a2g as ms ps (g + 1) (by simpa using h1) (by simpa using h2)
      simp [h, activeToGlobal, ih]

theorem maskGo_inactive_num :
    ∀ (a : List Int) (m p : List α), a.length = m.length → a.length = p.length →
      numActive (maskGo .inactive a m p) = numActive a
  | [], m, p, _, _ => by cases m <;> cases p <;> simp [maskGo, numActive]
  | _ :: _, [], _, h, _ => by simp at h
  | _ :: _, _ :: _, [], _, h => by simp at h
  | a :: as, m :: ms, p :: ps, h1, h2 => by
    have e : keeps .inactive a m p = decide (a > 0) := by simp [keeps]
    simp only [maskGo, e]
    by_cases h : a > 0
    · simp only [h, decide_true, if_true, numActive]
      rw [maskGo_inactive_num as ms ps (by simpa using h1) (by simpa using h2)]
    · have ih := maskGo_inactive_num as ms ps (by simpa using h1) (by simpa using h2)
      simp [h, numActive, ih]

theorem cellActiveAfterMINPV_eq (n : Nat) (actnum : List Int) (s : Minpv α) (g : Nat) (porv : α)
    (hg : g < n) {a : Int} {m : α} (ha : actnum[g]? = some a) (hm : s.vec[g]? = some m) :
    cellActiveAfterMINPV n actnum s g porv = some (keeps s.mode a m porv) := by
  unfold cellActiveAfterMINPV keeps
  rw [if_neg (by omega), ha, hm]
  by_cases h : a > 0 <;> simp [h]

end MinpvProofs

/-! ### The pass on the object model: activity changes, geometry does not -/

section MinpvObject
variable {α : Type} [Add α] [Sub α] [Mul α] [Div α] [Neg α] [NatCast α] [BEq α]
variable [LE α] [DecidableLE α]

theorem reset_geometry (e : Effects) (abs : α → α) (fix : Dims → (Nat → α) → Nat × (Nat → α))
    (s : GState α) (mask : List Int) :
    let s' := stepWith e abs fix s (.reset mask)
    s'.d = s.d ∧ s'.coord = s.coord ∧ s'.zcorn = s.zcorn := by
  simp only [stepWith]
  split <;> exact ⟨rfl, rfl, rfl⟩

theorem geomVolume_congr (abs : α → α) (s s' : GState α) (hd : s'.d = s.d)
    (hc : s'.coord = s.coord) (hz : s'.zcorn = s.zcorn) (g : Nat) :
    s'.geomVolume abs g = s.geomVolume abs g := by
  unfold GState.geomVolume; rw [hd, hc, hz]

/-- **MINPV pass on one object.**  After `resetACTNUM(minpvMask …)`: dims, COORD and ZCORN are
untouched, the object invariant holds again, `getCellVolume` of *every* cell (kept or removed)
is what it was, and cell `g` is active iff it was active and (MINPV not in use or
`porv[g] ≥ minpv[g]`). -/
theorem minpv_pass (e : Effects) (he : e.DropsCache) (abs : α → α)
    (fix : Dims → (Nat → α) → Nat × (Nat → α)) (s : GState α) (h : s.Inv abs)
    (mp : Minpv α) (porv : List α) (hm : mp.vec.length = s.d.size) (hp : porv.length = s.d.size) :
    let s' := stepWith e abs fix s (.reset (minpvMask s.actnum mp porv))
    s'.d = s.d ∧ s'.coord = s.coord ∧ s'.zcorn = s.zcorn ∧ s'.Inv abs ∧
    (∀ g, s'.getCellVolume abs g = s.getCellVolume abs g) ∧
    (∀ g a m p, s.actnum[g]? = some a → mp.vec[g]? = some m → porv[g]? = some p →
      (s'.cellActive g = true ↔ a > 0 ∧ (mp.mode = .inactive ∨ m ≤ p))) ∧
    s'.maps.nactive ≤ s.maps.nactive := by
  intro s'
  have hlen : (minpvMask s.actnum mp porv).length = s.d.size := by
    unfold minpvMask
    rw [maskGo_length _ _ _ _ (by rw [h.len, hm]) (by rw [h.len, hp]), h.len]
  obtain ⟨hd, hc, hz⟩ := reset_geometry e abs fix s (minpvMask s.actnum mp porv)
  have hinv : s'.Inv abs := inv_stepWith e he abs fix s h _
  have hact : s'.actnum = minpvMask s.actnum mp porv := by
    show (stepWith e abs fix s (.reset _)).actnum = _
    simp only [stepWith]; rw [if_neg (by rw [hlen]; simp)]
  refine ⟨hd, hc, hz, hinv, ?_, ?_, ?_⟩
  · intro g
    rcases Nat.lt_or_ge g s.d.size with hg | hg
    · rw [getCellVolume_eq_geom abs s' hinv (by rw [hd]; exact hg), getCellVolume_eq_geom abs s h hg,
        geomVolume_congr abs s s' hd hc hz]
    · rw [getCellVolume_out_of_range abs s' (by rw [hd]; exact hg), getCellVolume_out_of_range abs s hg]
  · intro g a m p ha hmv hpv
    unfold GState.cellActive
    rw [hact]; unfold minpvMask
    rw [maskGo_getElem? _ _ _ _ g a m p ha hmv hpv]
    simp only [decide_eq_true_eq]
    rw [maskEntry_pos_iff, keeps_iff]
  · rw [hinv.maps, h.maps, hact]
    exact maskGo_numActive_le _ _ _ _

end MinpvObject

/-! ## active ↔ global: a bijection for every ACTNUM -/

/-- For every ACTNUM list: `a ↦ m_active_to_global[a]` is a bijection from `[0, nactive)` onto
the cells with ACTNUM > 0 — defined exactly on `[0, nactive)`, into the active cells, injective,
onto — with `activeIndex` as its inverse. -/
theorem active_map_bijection (act : List Int) :
    let m := resetACTNUM act
    (∀ a, a < m.nactive ↔ ∃ g, globalOfActive m a = some g) ∧
    (∀ a g, globalOfActive m a = some g → g < act.length ∧ (∃ v, act[g]? = some v ∧ v > 0) ∧
        activeIndex m g = some a) ∧
    (∀ a b g, globalOfActive m a = some g → globalOfActive m b = some g → a = b) ∧
    (∀ g v, act[g]? = some v → v > 0 → ∃ a, a < m.nactive ∧ globalOfActive m a = some g) := by
  intro m
  have hl := (resetACTNUM_lengths act).2.1
  have hdef : ∀ a, a < m.nactive ↔ ∃ g, globalOfActive m a = some g := by
    intro a
    constructor
    · intro ha
      obtain ⟨g, h1, _⟩ := activeIndex_globalOfActive act ha
      exact ⟨g, h1⟩
    · rintro ⟨g, hg⟩
      simp only [globalOfActive] at hg
      rcases Nat.lt_or_ge a m.a2g.length with h | h
      · rw [← hl]; exact h
      · rw [List.getElem?_eq_none h] at hg; cases hg
  refine ⟨hdef, ?_, ?_, ?_⟩
  · intro a g hg
    have ha : a < m.nactive := (hdef a).2 ⟨g, hg⟩
    obtain ⟨g', h1, h2, h3, h4⟩ := activeIndex_globalOfActive act ha
    have : g' = g := by rw [hg] at h1; cases h1; rfl
    subst this
    exact ⟨h2, h4, h3⟩
  · intro a b g ha hb
    rcases Nat.lt_trichotomy a b with h | h | h
    · exact absurd (globalOfActive_strictMono act h ha hb) (Nat.lt_irrefl _)
    · exact h
    · exact absurd (globalOfActive_strictMono act h hb ha) (Nat.lt_irrefl _)
  · intro g v hv hpos
    obtain ⟨a, _, h1, h2⟩ := globalOfActive_activeIndex act hv hpos
    exact ⟨a, h1, h2⟩

/-! ## Identities between the cell queries for arbitrary (distorted) cells -/

section Identities
variable {K : Type} [Field K] [CharZero K]

/-- `getCellDepth` (mean of the two face means) is the z-component of `getCellCenter` (mean of
the eight corners), whatever the corners. -/
theorem depth_eq_center_z (c : Corners K) : cellDepth c = (cellCenter c).2.2 := by
  simp only [cellDepth, cellCenter, sum8]
  push_cast
  ring

/-- `getCellDims(g)[2] = getCellThickness(g)` (same expression). -/
theorem dims_z_eq_thickness (sqrt : K → K) (c : Corners K) : (cellDims sqrt c).2.2 = cellThickness c := rfl

/-- Thickness is additive, depth and centre are the means, under k-subdivision. -/
theorem thickness_additive_k (c : Corners K) :
    cellThickness (splitLower c) + cellThickness (splitUpper c) = cellThickness c := by
  simp only [cellThickness, splitLower, splitUpper, midCorner]
  norm_num

theorem depth_split_k (c : Corners K) :
    cellDepth c = (cellDepth (splitLower c) + cellDepth (splitUpper c)) / 2 := by
  simp only [cellDepth, splitLower, splitUpper, midCorner]
  norm_num
  ring

theorem center_split_k (c : Corners K) :
    cellCenter c =
      (((cellCenter (splitLower c)).1 + (cellCenter (splitUpper c)).1) / 2,
       ((cellCenter (splitLower c)).2.1 + (cellCenter (splitUpper c)).2.1) / 2,
       ((cellCenter (splitLower c)).2.2 + (cellCenter (splitUpper c)).2.2) / 2) := by
  simp only [cellCenter, sum8, splitLower, splitUpper, midCorner]
  norm_num
  refine ⟨?_, ?_, ?_⟩ <;> ring

theorem center_split_i (c : Corners K) :
    cellCenter c =
      (((cellCenter (splitLowerI c)).1 + (cellCenter (splitUpperI c)).1) / 2,
       ((cellCenter (splitLowerI c)).2.1 + (cellCenter (splitUpperI c)).2.1) / 2,
       ((cellCenter (splitLowerI c)).2.2 + (cellCenter (splitUpperI c)).2.2) / 2) := by
  simp only [cellCenter, sum8, splitLowerI, splitUpperI, midCornerI]
  norm_num
  refine ⟨?_, ?_, ?_⟩ <;> ring

theorem center_split_j (c : Corners K) :
    cellCenter c =
      (((cellCenter (splitLowerJ c)).1 + (cellCenter (splitUpperJ c)).1) / 2,
       ((cellCenter (splitLowerJ c)).2.1 + (cellCenter (splitUpperJ c)).2.1) / 2,
       ((cellCenter (splitLowerJ c)).2.2 + (cellCenter (splitUpperJ c)).2.2) / 2) := by
  simp only [cellCenter, sum8, splitLowerJ, splitUpperJ, midCornerJ]
  norm_num
  refine ⟨?_, ?_, ?_⟩ <;> ring

/-- Under i- or j-subdivision the thickness (and depth) of the parent is the mean of the halves. -/
theorem thickness_split_i (c : Corners K) :
    cellThickness c = (cellThickness (splitLowerI c) + cellThickness (splitUpperI c)) / 2 := by
  simp only [cellThickness, splitLowerI, splitUpperI, midCornerI]
  norm_num
  ring

theorem thickness_split_j (c : Corners K) :
    cellThickness c = (cellThickness (splitLowerJ c) + cellThickness (splitUpperJ c)) / 2 := by
  simp only [cellThickness, splitLowerJ, splitUpperJ, midCornerJ]
  norm_num
  ring

end Identities

/-! ## GRIDUNIT: scaling all coordinates by `s` scales the volume by `s³` -/

section Scale
variable {K : Type} [Field K] [CharZero K]

theorem tet0_scale (s : K) (X Y Z : Nat → K) (a b c : Nat) :
    tet0 (fun n => X n * s) (fun n => Y n * s) (fun n => Z n * s) a b c = s ^ 3 * tet0 X Y Z a b c := by
  simp only [tet0, det3]; ring

theorem signedVol_scale (s : K) (X Y Z : Nat → K) :
    signedVol (fun n => X n * s) (fun n => Y n * s) (fun n => Z n * s) = s ^ 3 * signedVol X Y Z := by
  rw [signedVol_eq_cornerTets, signedVol_eq_cornerTets]
  simp only [cornerTets, tet0_scale, List.sum_cons, List.sum_nil]
  ring

theorem signedVolume_scaleCorners (s : K) (c : Corners K) :
    signedVolume (scaleCorners s c) = s ^ 3 * signedVolume c := by
  unfold signedVolume scaleCorners
  exact signedVol_scale s c.X c.Y c.Z

end Scale

section ScaleCorners
variable {K : Type} [Field K] [DecidableEq K]

theorem onPillar_scale {s : K} (hs : s ≠ 0) (t b zt zb z : K) :
    onPillar (t * s) (b * s) (zt * s) (zb * s) (z * s) = onPillar t b zt zb z * s := by
  unfold onPillar
  by_cases h : zt = zb
  · subst h; simp
  · have h' : ¬ zt * s = zb * s := fun e => h (mul_right_cancel₀ hs e)
    have hne : zt - zb ≠ 0 := sub_ne_zero.mpr h
    simp only [beq_iff_eq, h, h', if_false]
    field_simp

/-- `getCellCorners` commutes with the rescaling of COORD and ZCORN (`s ≠ 0`). -/
theorem cellCorners_applyGridunit {s : K} (hs : s ≠ 0) (d : Dims) (coord zcorn : Nat → K)
    (i j k : Nat) :
    let c := cellCorners d (applyGridunit s coord) (applyGridunit s zcorn) i j k
    let c0 := scaleCorners s (cellCorners d coord zcorn i j k)
    (∀ n, c.X n = c0.X n) ∧ (∀ n, c.Y n = c0.Y n) ∧ (∀ n, c.Z n = c0.Z n) := by
  refine ⟨fun n => ?_, fun n => ?_, fun n => ?_⟩
  · simp only [cellCorners, applyGridunit, scaleCorners]; exact onPillar_scale hs _ _ _ _ _
  · simp only [cellCorners, applyGridunit, scaleCorners]; exact onPillar_scale hs _ _ _ _ _
  · simp only [cellCorners, applyGridunit, scaleCorners]

end ScaleCorners

/-! ## Radial grids -/

section RadialProofs
variable {K : Type} [Field K] [LinearOrder K] [IsStrictOrderedRing K]

theorem cylVol_of_nonneg (pi ri ro dth dz : K) (h1 : ri ≤ ro) (h0 : 0 ≤ ri) (h2 : 0 ≤ dth) (h3 : 0 ≤ dz) :
    cylVol pi (fun x => |x|) ri ro dth dz = pi * ((ro * ro - ri * ri) * dth * dz) / 360 := by
  unfold cylVol
  have : 0 ≤ (ro * ro - ri * ri) * dth * dz := by
    have : 0 ≤ ro * ro - ri * ri := by nlinarith
    positivity
  simp only [abs_of_nonneg this]; norm_num

theorem cylVol_nonneg (pi ri ro dth dz : K) (hpi : 0 ≤ pi) :
    0 ≤ cylVol pi (fun x => |x|) ri ro dth dz := by
  unfold cylVol
  simp only []
  have : (0 : K) ≤ |(ro * ro - ri * ri) * dth * dz| := abs_nonneg _
  have h360 : (0 : K) < ((360 : Nat) : K) := by norm_num
  exact div_nonneg (mul_nonneg hpi this) h360.le

theorem radii_mono (inrad : K) (drv : Nat → K) (hd : ∀ n, 0 ≤ drv n) (n : Nat) :
    radii inrad drv n ≤ radii inrad drv (n + 1) := by
  simp only [radii]; linarith [hd n]

theorem radii_nonneg (inrad : K) (drv : Nat → K) (h0 : 0 ≤ inrad) (hd : ∀ n, 0 ≤ drv n) (n : Nat) :
    0 ≤ radii inrad drv n := by
  induction n with
  | zero => simpa [radii] using h0
  | succ n ih => simp only [radii]; linarith [hd n]

/-- Additivity of the cylindrical cell volume under subdivision in r, θ and z. -/
theorem cylVol_additive_r (pi ri rm ro dth dz : K) (h0 : 0 ≤ ri) (h1 : ri ≤ rm) (h2 : rm ≤ ro)
    (ht : 0 ≤ dth) (hz : 0 ≤ dz) :
    cylVol pi (fun x => |x|) ri rm dth dz + cylVol pi (fun x => |x|) rm ro dth dz =
      cylVol pi (fun x => |x|) ri ro dth dz := by
  rw [cylVol_of_nonneg pi ri rm dth dz h1 h0 ht hz,
    cylVol_of_nonneg pi rm ro dth dz h2 (le_trans h0 h1) ht hz,
    cylVol_of_nonneg pi ri ro dth dz (le_trans h1 h2) h0 ht hz]
  ring

theorem cylVol_additive_theta (pi ri ro t1 t2 dz : K) (h0 : 0 ≤ ri) (h1 : ri ≤ ro)
    (ht1 : 0 ≤ t1) (ht2 : 0 ≤ t2) (hz : 0 ≤ dz) :
    cylVol pi (fun x => |x|) ri ro t1 dz + cylVol pi (fun x => |x|) ri ro t2 dz =
      cylVol pi (fun x => |x|) ri ro (t1 + t2) dz := by
  rw [cylVol_of_nonneg pi ri ro t1 dz h1 h0 ht1 hz, cylVol_of_nonneg pi ri ro t2 dz h1 h0 ht2 hz,
    cylVol_of_nonneg pi ri ro (t1 + t2) dz h1 h0 (by linarith) hz]
  ring

theorem cylVol_additive_z (pi ri ro dth z1 z2 : K) (h0 : 0 ≤ ri) (h1 : ri ≤ ro)
    (ht : 0 ≤ dth) (hz1 : 0 ≤ z1) (hz2 : 0 ≤ z2) :
    cylVol pi (fun x => |x|) ri ro dth z1 + cylVol pi (fun x => |x|) ri ro dth z2 =
      cylVol pi (fun x => |x|) ri ro dth (z1 + z2) := by
  rw [cylVol_of_nonneg pi ri ro dth z1 h1 h0 ht hz1, cylVol_of_nonneg pi ri ro dth z2 h1 h0 ht hz2,
    cylVol_of_nonneg pi ri ro dth (z1 + z2) h1 h0 ht (by linarith)]
  ring

/-- One ring of sectors: `Σ_j vol(i, j) = π (r_{i+1}² − r_i²) (Σ_j Δθ_j) Δz / 360`. -/
theorem ring_total (pi ri ro dz : K) (dth : Nat → K) (h0 : 0 ≤ ri) (h1 : ri ≤ ro)
    (ht : ∀ j, 0 ≤ dth j) (hz : 0 ≤ dz) (ny : Nat) :
    runSum (fun j => cylVol pi (fun x => |x|) ri ro (dth j) dz) ny =
      pi * ((ro * ro - ri * ri) * totalAngle dth ny * dz) / 360 := by
  induction ny with
  | zero => simp [runSum, totalAngle]
  | succ n ih =>
    simp only [runSum, totalAngle] at ih ⊢
    rw [ih, cylVol_of_nonneg pi ri ro (dth n) dz h1 h0 (ht n) hz]
    ring

/-- **A whole layer of a radial grid**: the cell volumes of `nx` rings × `ny` sectors add up to
`π (R² − r₀²) (ΣΔθ / 360) Δz` — the exact volume of the annulus sector (`ΣΔθ = 360`: the full
annulus `π (R² − r₀²) Δz`). -/
theorem layer_total (pi inrad dz : K) (drv dth : Nat → K) (h0 : 0 ≤ inrad) (hd : ∀ n, 0 ≤ drv n)
    (ht : ∀ j, 0 ≤ dth j) (hz : 0 ≤ dz) (nx ny : Nat) :
    runSum (fun i => runSum (fun j =>
        cylVol pi (fun x => |x|) (radii inrad drv i) (radii inrad drv (i + 1)) (dth j) dz) ny) nx =
      pi * ((radii inrad drv nx * radii inrad drv nx - inrad * inrad) * totalAngle dth ny * dz) / 360 := by
  induction nx with
  | zero => simp [runSum, radii]
  | succ n ih =>
    rw [runSum, ih, ring_total pi _ _ dz dth (radii_nonneg inrad drv h0 hd n) (radii_mono inrad drv hd n) ht hz]
    ring

end RadialProofs

section RadialCorners
variable {K : Type} [Field K] [DecidableEq K]

/-- The thickness `Z[4] - Z[0]` the radial branch of `getCellVolume` uses is the cell's DZ:
for the ZCORN array of `initSpiderwebOrCylindricalGrid`, read back through the real corner index
arithmetic. -/
theorem radial_cell_dz (d : Dims) (coord dz tops : Nat → K) {i j k : Nat} (hi : i < d.nx) (hj : j < d.ny) :
    let c := cellCorners d coord (zcornRadial d dz tops) i j k
    c.Z 4 - c.Z 0 = dz (i + j * d.nx + k * d.nx * d.ny) := by
  simp only [cellCorners, zcornRadial, zcornDTops]
  rw [cornerZind_eq d i j k 4 (by decide), cornerZind_eq d i j k 0 (by decide)]
  unfold zcornOfCells
  simp only [zcornDecode_zcornIdx d hi hj (by decide : 4 < 8), zcornDecode_zcornIdx d hi hj (by decide : 0 < 8)]
  simp [zcornCellDTops, zTopsAt]

/-- `getCellVolume(g)` of a radial grid is the cylinder-sector volume of ring `i`, sector `j`
and the cell's own DZ. -/
theorem radialCellVolume_eq (pi : K) (abs : K → K) (d : Dims) (rv thetav coord dz tops : Nat → K)
    {i j k : Nat} (hi : i < d.nx) (hj : j < d.ny) :
    radialCellVolume pi abs d rv thetav coord (zcornRadial d dz tops) (getGlobalIndex d i j k) =
      cylVol pi abs (rv i) (rv (i + 1)) (thetav j) (dz (i + j * d.nx + k * d.nx * d.ny)) := by
  unfold radialCellVolume cellCornersG
  rw [getIJK_getGlobalIndex d hi hj]
  simp only []
  rw [radial_cell_dz d coord dz tops hi hj]

end RadialCorners

/-! ## MapAxes -/

section MapAxesProofs
variable {K : Type} [Field K]

/-- `inv_transform ∘ transform = id` and `transform ∘ inv_transform = id` whenever the two unit
vectors are not parallel (`inv_norm` is then a genuine reciprocal). -/
theorem mapaxes_inverse (m : MapAxes K) (hdet : m.uxx * m.uyy - m.uxy * m.uyx ≠ 0)
    (hinv : m.invNorm = 1 / (m.uxx * m.uyy - m.uxy * m.uyx)) (x y : K) :
    m.invTransform (m.transform x y).1 (m.transform x y).2 = (x, y) ∧
    m.transform (m.invTransform x y).1 (m.invTransform x y).2 = (x, y) := by
  simp only [MapAxes.transform, MapAxes.invTransform, hinv]
  constructor
  · refine Prod.ext ?_ ?_ <;> (simp only []; field_simp; ring)
  · refine Prod.ext ?_ ?_ <;> (simp only []; field_simp; ring)

/-- The object built by `MapAxes::init` satisfies the hypothesis of `mapaxes_inverse` iff the
three MAPAXES points are not collinear (and the two norms are non-zero). -/
theorem mapaxes_init_det (lf x1 y1 x2 y2 x3 y3 hx hy : K) (hhx : hx ≠ 0) (hhy : hy ≠ 0) :
    let m := MapAxes.init lf x1 y1 x2 y2 x3 y3 hx hy
    m.invNorm = 1 / (m.uxx * m.uyy - m.uxy * m.uyx) ∧
    m.uxx * m.uyy - m.uxy * m.uyx = ((x3 - x2) * (y1 - y2) - (y3 - y2) * (x1 - x2)) / (hx * hy) := by
  simp only [MapAxes.init]
  constructor
  · norm_num
  · push_cast; field_simp

theorem mapaxes_init_inverse (lf x1 y1 x2 y2 x3 y3 hx hy : K) (hhx : hx ≠ 0) (hhy : hy ≠ 0)
    (hcol : (x3 - x2) * (y1 - y2) - (y3 - y2) * (x1 - x2) ≠ 0) (x y : K) :
    let m := MapAxes.init lf x1 y1 x2 y2 x3 y3 hx hy
    m.invTransform (m.transform x y).1 (m.transform x y).2 = (x, y) ∧
    m.transform (m.invTransform x y).1 (m.invTransform x y).2 = (x, y) := by
  intro m
  obtain ⟨h1, h2⟩ := mapaxes_init_det lf x1 y1 x2 y2 x3 y3 hx hy hhx hhy
  refine mapaxes_inverse m ?_ h1 x y
  rw [h2]
  exact div_ne_zero hcol (mul_ne_zero hhx hhy)

end MapAxesProofs

end OpmVerif.GridExt
