/-
  General positivity of the generated cell volume (C13, second round).

  For arbitrary corners the volume computed by `calculateCellVol` (before `fabs`) is one twelfth
  of the sum of fifteen tetrahedron determinants with apex at corner 0: the four triangles of
  the two triangulations of each of the three faces *not* containing corner 0, and the far
  triangle of each of the three faces containing corner 0 (which vanishes when that face is
  planar).  Hence: if none of these fifteen tetrahedra is inverted and one has positive volume,
  the cell volume is positive — the non-degeneracy hypothesis is explicit and checkable on the
  corners.
-/
import Mathlib.Tactic.Ring
import Mathlib.Tactic.Linarith
import Mathlib.Algebra.Order.Field.Basic
import OpmVerif.Proofs.GridVolF

namespace OpmVerif.Grid
open OpmVerif.Gen.CellVol

section
variable {K : Type} [Field K] [CharZero K]

/-- `det [P_a - P_0, P_b - P_0, P_c - P_0]` = six times the signed volume of the tetrahedron
`(P_0, P_a, P_b, P_c)`. -/
def tet0 (X Y Z : Nat → K) (a b c : Nat) : K :=
  det3 (fun n => X n - X 0) (fun n => Y n - Y 0) (fun n => Z n - Z 0) a b c

/-- The fifteen tetrahedra seen from corner 0 (faces in outward orientation). -/
def cornerTets (X Y Z : Nat → K) : List K :=
  [tet0 X Y Z 4 5 7, tet0 X Y Z 4 7 6, tet0 X Y Z 5 7 6, tet0 X Y Z 5 6 4,     -- face k = 1
   tet0 X Y Z 2 6 7, tet0 X Y Z 2 7 3, tet0 X Y Z 6 7 3, tet0 X Y Z 6 3 2,     -- face j = 1
   tet0 X Y Z 1 3 7, tet0 X Y Z 1 7 5, tet0 X Y Z 3 7 5, tet0 X Y Z 3 5 1,     -- face i = 1
   tet0 X Y Z 2 3 1, tet0 X Y Z 1 5 4, tet0 X Y Z 4 6 2]                       -- faces through corner 0

theorem faceVol_eq_cornerTets (X Y Z : Nat → K) : faceVol X Y Z = (cornerTets X Y Z).sum / 12 := by
  simp only [faceVol, quad, det3, cornerTets, tet0, List.sum_cons, List.sum_nil]
  ring

end

section
variable {K : Type} [Field K] [LinearOrder K] [IsStrictOrderedRing K]

theorem list_sum_nonneg' (l : List K) (h : ∀ t ∈ l, 0 ≤ t) : 0 ≤ l.sum := by
  induction l with
  | nil => simp
  | cons x xs ih =>
    rw [List.sum_cons]
    have hx : 0 ≤ x := h x (by simp)
    have := ih fun t ht => h t (by simp [ht])
    linarith

theorem list_sum_pos_of_nonneg_of_exists_pos (l : List K) (h : ∀ t ∈ l, 0 ≤ t) (hp : ∃ t ∈ l, 0 < t) :
    0 < l.sum := by
  induction l with
  | nil => obtain ⟨t, ht, _⟩ := hp; cases ht
  | cons x xs ih =>
    rw [List.sum_cons]
    have hx : 0 ≤ x := h x (by simp)
    have hxs : ∀ t ∈ xs, 0 ≤ t := fun t ht => h t (by simp [ht])
    have hsum : 0 ≤ xs.sum := list_sum_nonneg' xs hxs
    obtain ⟨t, ht, htp⟩ := hp
    rcases List.mem_cons.1 ht with rfl | ht'
    · linarith
    · have := ih hxs ⟨t, ht', htp⟩
      linarith

end

end OpmVerif.Grid
