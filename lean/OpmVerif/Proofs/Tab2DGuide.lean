/-
  `undersat_meets_sat` at the level of the 2-D table: under the LeftExtreme guide, if the guide
  points `yPos` are the saturated ordinates (strictly increasing, as the saturated pressures of
  PVTO are) then along the whole saturated curve — at the nodes, between them and on the
  extrapolated ends — the 2-D function equals the 1-D interpolation of the columns' values at
  their guide points.  Over a linearly ordered field.
-/
import OpmVerif.Proofs.Pvt
import OpmVerif.Proofs.Tab1DDeriv

namespace OpmVerif.Tab2D
open OpmVerif.Tab1D

set_option linter.unusedSectionVars false
set_option linter.unusedSimpArgs false

variable {K : Type} [Field K] [LinearOrder K] [IsStrictOrderedRing K]

/-- **The under-saturated surface meets the saturated curve, everywhere.**
`t.xPos` = the keys (Rs), `t.yPos` = the guide points (saturated pressures), both strictly
increasing, `sv[k]` = the value of column `k` at its guide point.  For every `p`:
`t(Rs_sat(p), p) = sat(p)`, where `Rs_sat = evalX yPos xPos` is the saturated 1-D relation and
`sat = evalX yPos sv` the saturated 1-D table of the values. -/
theorem eval_meets_saturated (t : Table K) (hg : t.guide = .leftExtreme)
    (hx : StrictInc t.xPos) (hy : StrictInc t.yPos) (hn : 2 ≤ t.xPos.length)
    (hl : t.yPos.length = t.xPos.length) (sv : List K)
    (hsv : ∀ k, k < t.xPos.length → colEval t k (nth t.yPos k) = nth sv k) (p : K) :
    eval t (evalX t.yPos t.xPos p) p = evalX t.yPos sv p := by
  have hny : 2 ≤ t.yPos.length := by omega
  have hxY : StrictIncY t.xPos := hx
  obtain ⟨a, b, c⟩ := segIdx_spec hx hn (evalX t.yPos t.xPos p)
  -- p lies on the closed segment i of the guide points
  have hp1 : 0 < segIdx t.xPos (evalX t.yPos t.xPos p) →
      nth t.yPos (segIdx t.xPos (evalX t.yPos t.xPos p)) ≤ p := by
    intro h0
    by_contra hlt
    have hlt' := not_le.mp hlt
    have := evalX_strictMono hy hny hl.symm hxY hlt'
    rw [evalX_node t.xPos hy hny _ (by omega)] at this
    exact absurd (lt_of_lt_of_le this (b h0)) (lt_irrefl _)
  have hp2 : segIdx t.xPos (evalX t.yPos t.xPos p) + 2 < t.yPos.length →
      p ≤ nth t.yPos (segIdx t.xPos (evalX t.yPos t.xPos p) + 1) := by
    intro h0
    by_contra hlt
    have hlt' := not_le.mp hlt
    have := evalX_strictMono hy hny hl.symm hxY hlt'
    rw [evalX_node t.xPos hy hny _ (by omega)] at this
    exact absurd (lt_of_le_of_lt (c (by omega)) this) (lt_irrefl _)
  have e1 := evalX_eq_evalSeg_of_mem t.xPos hy hny p _ (by omega) hp1 hp2
  have e2 := evalX_eq_evalSeg_of_mem sv hy hny p _ (by omega) hp1 hp2
  generalize hi : segIdx t.xPos (evalX t.yPos t.xPos p) = i at *
  have dX : nth t.xPos (i + 1) - nth t.xPos i ≠ 0 :=
    sub_ne_zero.mpr (ne_of_gt (hx _ _ (Nat.lt_succ_self _) (by omega)))
  have dY : nth t.yPos (i + 1) - nth t.yPos i ≠ 0 :=
    sub_ne_zero.mpr (ne_of_gt (hy _ _ (Nat.lt_succ_self _) (by omega)))
  -- alpha of the 2-D evaluation = relative position of p between the two guide points
  have ha : xToAlpha t (evalX t.yPos t.xPos p) i = (p - nth t.yPos i) / (nth t.yPos (i + 1) - nth t.yPos i) := by
    unfold xToAlpha
    rw [e1]
    unfold evalSeg
    field_simp
    ring
  have hpt : p = nth t.yPos i * (1 - xToAlpha t (evalX t.yPos t.xPos p) i) +
      nth t.yPos (i + 1) * xToAlpha t (evalX t.yPos t.xPos p) i := by
    rw [ha]; field_simp; ring
  have hguide := eval_on_guide t (evalX t.yPos t.xPos p) (Or.inl hg)
  rw [hi] at hguide
  rw [← hpt] at hguide
  rw [hguide, hsv i (by omega), hsv (i + 1) (by omega), e2, ha]
  unfold evalSeg
  field_simp
  ring

end OpmVerif.Tab2D
