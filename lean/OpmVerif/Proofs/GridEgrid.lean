/-
  EGRID file image of `EclipseGrid::save` (model in `Model/GridIO.lean`) on top of the C07 codec:
  every array written is well formed, hence the C07 round-trip theorem applies to the whole file.
-/
import OpmVerif.Proofs.EclBin
import OpmVerif.Model.GridIO
namespace OpmVerif.Grid
open OpmVerif.Ecl

theorem name8_length (s : String) : (name8 s).length = 8 := by
  unfold name8
  simp only [List.length_take, List.length_append, List.length_replicate, List.length_map]
  omega

theorem inteArr_WF (name : String) (xs : List Int) (h : xs.length < 2147483648) : (inteArr name xs).WF := by
  refine ⟨⟨name8_length _, trivial, ?_, by simpa [inteArr] using h, by simp [inteArr]⟩, rfl⟩
  intro e he
  simp only [inteArr, List.mem_map] at he
  obtain ⟨x, _, rfl⟩ := he
  simp [be32, elemSize, Gen.EclIO.sizeOfInte, inteArr]

theorem realArr_WF (name : String) (xs : List Float32) (h : xs.length < 2147483648) : (realArr name xs).WF := by
  refine ⟨⟨name8_length _, trivial, ?_, by simpa [realArr] using h, by simp [realArr]⟩, rfl⟩
  intro e he
  simp only [realArr, List.mem_map] at he
  obtain ⟨x, _, rfl⟩ := he
  simp [be32, elemSize, Gen.EclIO.sizeOfReal, realArr]

theorem charArr_WF (name : String) (xs : List String) (h : xs.length < 2147483648) : (charArr name xs).WF := by
  refine ⟨⟨name8_length _, trivial, ?_, by simpa [charArr] using h, by simp [charArr]⟩, rfl⟩
  intro e he
  simp only [charArr, List.mem_map] at he
  obtain ⟨x, _, rfl⟩ := he
  simp [name8_length, elemSize, Gen.EclIO.sizeOfChar, charArr]

theorem egridArrays_WF (d : Dims) (unitName : String) (coordF zcornF : List Float32) (actnum : List Int)
    (mapaxes : Option (List Float32)) (mapunits : Option String) (nnc : List (Int × Int))
    (hc : coordF.length < 2147483648) (hz : zcornF.length < 2147483648) (ha : actnum.length < 2147483648)
    (hm : ∀ m, mapaxes = some m → m.length < 2147483648) (hn : nnc.length < 2147483648) :
    ∀ a ∈ egridArrays d unitName coordF zcornF actnum mapaxes mapunits nnc, a.WF := by
  have h100 : (100 : Nat) < 2147483648 := by decide
  cases mapaxes with
  | none =>
    by_cases hnn : nnc.length > 0 <;>
      simp [egridArrays, hnn, inteArr_WF, realArr_WF, charArr_WF, hc, hz, ha, hn, setAt]
  | some m =>
    have hm' := hm m rfl
    cases mapunits <;> by_cases hnn : nnc.length > 0 <;>
      simp [egridArrays, hnn, inteArr_WF, realArr_WF, charArr_WF, hc, hz, ha, hn, hm', setAt]

end OpmVerif.Grid
