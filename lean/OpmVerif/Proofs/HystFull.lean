/-
  Lemmas about the complete hysteresis object (`Model/HystFull.lean`) over a linearly ordered field:

  A. bookkeeping of `update(pcSw, krwSw, krnSw)`: the three reversal saturations are running
     minima / maxima; a saturation triple that has been seen changes nothing when seen again
     (`update_self`), neither does a whole repeated history (`run_repeat`);
  B. the derived members are functions of `krnSwMdc_` after every history (`Consistent`);
  C. Land's trapped saturations stay within `[Scrd, Shy]`;
  D. scanning curves: end points, continuity at the reversal point and range — non-wetting phase,
     wetting phase (model 4) and capillary pressure (Killough).
-/
import Mathlib.Tactic.Ring
import Mathlib.Tactic.Linarith
import Mathlib.Tactic.FieldSimp
import Mathlib.Tactic.NormNum
import Mathlib.Algebra.Order.Field.Rat
import OpmVerif.Proofs.Satfunc3
import OpmVerif.Model.HystFull

set_option linter.unusedSectionVars false
set_option linter.unusedSimpArgs false
set_option linter.unusedVariables false

namespace OpmVerif.HystFull
open OpmVerif.Eps (maxA)

variable {K : Type} [Field K] [LinearOrder K] [IsStrictOrderedRing K]

/-! ## A. bookkeeping -/

section bookkeeping
variable (c : Cfg K) (l : Lits K) (f : Laws K) (p : Static K)

@[simp] theorem dyn_pcMdc (st : State K) : (dyn c f p st).pcMdc = st.pcMdc := by
  by_cases h : c.krModel = 4 <;> simp [dyn, h]
@[simp] theorem dyn_pcMic (st : State K) : (dyn c f p st).pcMic = st.pcMic := by
  by_cases h : c.krModel = 4 <;> simp [dyn, h]
@[simp] theorem dyn_initialImb (st : State K) : (dyn c f p st).initialImb = st.initialImb := by
  by_cases h : c.krModel = 4 <;> simp [dyn, h]
@[simp] theorem dyn_krnMdc (st : State K) : (dyn c f p st).krnMdc = st.krnMdc := by
  by_cases h : c.krModel = 4 <;> simp [dyn, h]
@[simp] theorem dyn_krwMdc (st : State K) : (dyn c f p st).krwMdc = st.krwMdc := by
  by_cases h : c.krModel = 4 <;> simp [dyn, h]
@[simp] theorem dyn_KrndHy (st : State K) : (dyn c f p st).KrndHy = st.KrndHy := by
  by_cases h : c.krModel = 4 <;> simp [dyn, h]
@[simp] theorem dyn_KrwdHy (st : State K) : (dyn c f p st).KrwdHy = st.KrwdHy := by
  by_cases h : c.krModel = 4 <;> simp [dyn, h]

/-! the later blocks do not touch the members of the earlier ones -/
@[simp] theorem stepKrw_pcMdc (st : State K) (s : Triple K) : (stepKrw st s).pcMdc = st.pcMdc := by
  unfold stepKrw; split <;> rfl
@[simp] theorem stepKrw_pcMic (st : State K) (s : Triple K) : (stepKrw st s).pcMic = st.pcMic := by
  unfold stepKrw; split <;> rfl
@[simp] theorem stepKrw_initialImb (st : State K) (s : Triple K) : (stepKrw st s).initialImb = st.initialImb := by
  unfold stepKrw; split <;> rfl
@[simp] theorem stepKrw_krnMdc (st : State K) (s : Triple K) : (stepKrw st s).krnMdc = st.krnMdc := by
  unfold stepKrw; split <;> rfl
@[simp] theorem stepKrw_KrndHy (st : State K) (s : Triple K) : (stepKrw st s).KrndHy = st.KrndHy := by
  unfold stepKrw; split <;> rfl
@[simp] theorem stepKrw_KrwdHy (st : State K) (s : Triple K) : (stepKrw st s).KrwdHy = st.KrwdHy := by
  unfold stepKrw; split <;> rfl
@[simp] theorem stepKrn_pcMdc (st : State K) (s : Triple K) : (stepKrn c f st s).pcMdc = st.pcMdc := by
  unfold stepKrn; split <;> rfl
@[simp] theorem stepKrn_pcMic (st : State K) (s : Triple K) : (stepKrn c f st s).pcMic = st.pcMic := by
  unfold stepKrn; split <;> rfl
@[simp] theorem stepKrn_initialImb (st : State K) (s : Triple K) : (stepKrn c f st s).initialImb = st.initialImb := by
  unfold stepKrn; split <;> rfl
@[simp] theorem stepKrn_krwMdc (st : State K) (s : Triple K) : (stepKrn c f st s).krwMdc = st.krwMdc := by
  unfold stepKrn; split <;> rfl
@[simp] theorem stepMic_pcMdc (st : State K) (s : Triple K) : (stepMic st s).pcMdc = st.pcMdc := by
  unfold stepMic; split <;> rfl
@[simp] theorem stepMic_initialImb (st : State K) (s : Triple K) : (stepMic st s).initialImb = st.initialImb := by
  unfold stepMic; split <;> rfl
@[simp] theorem stepMic_krnMdc (st : State K) (s : Triple K) : (stepMic st s).krnMdc = st.krnMdc := by
  unfold stepMic; split <;> rfl
@[simp] theorem stepMic_krwMdc (st : State K) (s : Triple K) : (stepMic st s).krwMdc = st.krwMdc := by
  unfold stepMic; split <;> rfl
@[simp] theorem stepMic_KrndHy (st : State K) (s : Triple K) : (stepMic st s).KrndHy = st.KrndHy := by
  unfold stepMic; split <;> rfl
@[simp] theorem stepMic_KrwdHy (st : State K) (s : Triple K) : (stepMic st s).KrwdHy = st.KrwdHy := by
  unfold stepMic; split <;> rfl
@[simp] theorem stepPc_pcMic (st : State K) (s : Triple K) : (stepPc c l p st s).pcMic = st.pcMic := by
  unfold stepPc; split <;> rfl
@[simp] theorem stepPc_krnMdc (st : State K) (s : Triple K) : (stepPc c l p st s).krnMdc = st.krnMdc := by
  unfold stepPc; split <;> rfl
@[simp] theorem stepPc_krwMdc (st : State K) (s : Triple K) : (stepPc c l p st s).krwMdc = st.krwMdc := by
  unfold stepPc; split <;> rfl
@[simp] theorem stepPc_KrndHy (st : State K) (s : Triple K) : (stepPc c l p st s).KrndHy = st.KrndHy := by
  unfold stepPc; split <;> rfl
@[simp] theorem stepPc_KrwdHy (st : State K) (s : Triple K) : (stepPc c l p st s).KrwdHy = st.KrwdHy := by
  unfold stepPc; split <;> rfl

/-- `krnSwMdc_` after one `update`: the minimum. -/
theorem update_krnMdc (st : State K) (s : Triple K) : (update c l f p st s).krnMdc = min st.krnMdc s.krn := by
  have h : (stepAll c l f p st s).krnMdc = min st.krnMdc s.krn := by
    simp only [stepAll, stepKrw_krnMdc]
    unfold stepKrn
    simp only [stepMic_krnMdc, stepPc_krnMdc]
    split
    · rename_i h; simp [min_eq_right (le_of_lt h)]
    · rename_i h; simp [min_eq_left (not_lt.mp h)]
  unfold update; split <;> simp [h]

/-- `krwSwMdc_` after one `update`: the maximum. -/
theorem update_krwMdc (st : State K) (s : Triple K) : (update c l f p st s).krwMdc = max st.krwMdc s.krw := by
  have h : (stepAll c l f p st s).krwMdc = max st.krwMdc s.krw := by
    unfold stepAll stepKrw
    simp only [stepKrn_krwMdc, stepMic_krwMdc, stepPc_krwMdc]
    split
    · rename_i h; simp [max_eq_right (le_of_lt h)]
    · rename_i h; simp [max_eq_left (not_lt.mp h)]
  unfold update; split <;> simp [h]

/-- `pcSwMdc_` after one `update`: the minimum when capillary-pressure hysteresis is on, else unchanged. -/
theorem update_pcMdc (st : State K) (s : Triple K) :
    (update c l f p st s).pcMdc = if c.pcModel = 0 then min st.pcMdc s.pc else st.pcMdc := by
  have h : (stepAll c l f p st s).pcMdc = if c.pcModel = 0 then min st.pcMdc s.pc else st.pcMdc := by
    simp only [stepAll, stepKrw_pcMdc, stepKrn_pcMdc, stepMic_pcMdc]
    unfold stepPc
    by_cases h0 : c.pcModel = 0
    · by_cases h1 : s.pc < st.pcMdc
      · simp [h0, h1, min_eq_right (le_of_lt h1)]
      · simp [h0, h1, min_eq_left (not_lt.mp h1)]
    · simp [h0]
  unfold update; split <;> simp [h]

theorem update_initialImb (st : State K) (s : Triple K) :
    (update c l f p st s).initialImb = (stepPc c l p st s).initialImb := by
  unfold update; split <;> simp [stepAll]

theorem stepPc_initialImb_mono (st : State K) (s : Triple K) (h : st.initialImb = true) :
    (stepPc c l p st s).initialImb = true := by
  unfold stepPc; split <;> simp [h]

/-- `initialImb_` can only be switched on while `pcSwMdc_` still has its start value. -/
theorem stepPc_initialImb_flip (st : State K) (s : Triple K) (h : st.initialImb = false)
    (h' : (stepPc c l p st s).initialImb = true) : c.pcModel = 0 ∧ s.pc < st.pcMdc ∧ st.pcMdc = l.two := by
  unfold stepPc at h'
  split at h'
  · rename_i hc
    simp [h, flips] at h'
    exact ⟨hc.1, hc.2, le_antisymm h'.1.1 h'.1.2⟩
  · rw [h] at h'; exact absurd h' (by simp)

theorem update_pcMic (st : State K) (s : Triple K) :
    (update c l f p st s).pcMic =
      if (stepPc c l p st s).initialImb = true ∧ st.pcMic < s.pc then s.pc else st.pcMic := by
  have h : (stepAll c l f p st s).pcMic =
      if (stepPc c l p st s).initialImb = true ∧ st.pcMic < s.pc then s.pc else st.pcMic := by
    simp only [stepAll, stepKrw_pcMic, stepKrn_pcMic]
    unfold stepMic
    simp only [stepPc_pcMic]
    split <;> simp
  unfold update; split <;> simp [h]

/-- "nothing to do": none of the four blocks of `update` fires. -/
def Quiet (st : State K) (s : Triple K) : Prop :=
  ¬ (c.pcModel = 0 ∧ s.pc < st.pcMdc) ∧ ¬ (st.initialImb = true ∧ st.pcMic < s.pc) ∧
  ¬ (s.krn < st.krnMdc) ∧ ¬ (st.krwMdc < s.krw)

/-- Then `update` returns the object unchanged (and reports `false`). -/
theorem quiet_update (st : State K) (s : Triple K) (h : Quiet c st s) :
    update c l f p st s = st ∧ changed c l p st s = false := by
  obtain ⟨h1, h2, h3, h4⟩ := h
  have e1 : stepPc c l p st s = st := by unfold stepPc; rw [if_neg h1]
  have e2 : stepMic st s = st := by unfold stepMic; rw [if_neg h2]
  have e3 : stepKrn c f st s = st := by unfold stepKrn; rw [if_neg h3]
  have e4 : stepKrw st s = st := by unfold stepKrw; rw [if_neg h4]
  have hf : ¬ flag c l p st s := by
    unfold flag; rw [e1]; tauto
  constructor
  · unfold update; rw [if_neg hf]; unfold stepAll; rw [e1, e2, e3, e4]
  · unfold changed; simp [hf]

/-- A saturation triple that has just been seen is quiet. -/
theorem quiet_after_update (st : State K) (s : Triple K) : Quiet c (update c l f p st s) s := by
  refine ⟨?_, ?_, ?_, ?_⟩
  · rw [update_pcMdc]
    rintro ⟨h0, h⟩
    rw [if_pos h0] at h
    exact absurd (min_le_right _ _) (not_le.mpr h)
  · rw [update_pcMic, update_initialImb]
    rintro ⟨hi, h⟩
    by_cases hc : (stepPc c l p st s).initialImb = true ∧ st.pcMic < s.pc
    · rw [if_pos hc] at h; exact lt_irrefl _ h
    · rw [if_neg hc] at h; exact hc ⟨hi, h⟩
  · rw [update_krnMdc]; exact not_lt.mpr (min_le_right _ _)
  · rw [update_krwMdc]; exact not_lt.mpr (le_max_right _ _)

/-- Quietness of a triple with `pcSw` below the start value 2.0 survives any further `update`. -/
theorem quiet_preserved (st : State K) (s s' : Triple K) (h : Quiet c st s) (h2 : s.pc < l.two) :
    Quiet c (update c l f p st s') s := by
  obtain ⟨q1, q2, q3, q4⟩ := h
  refine ⟨?_, ?_, ?_, ?_⟩
  · rw [update_pcMdc]
    rintro ⟨h0, h⟩
    rw [if_pos h0] at h
    exact q1 ⟨h0, lt_of_lt_of_le h (min_le_left _ _)⟩
  · rw [update_pcMic, update_initialImb]
    rintro ⟨hi, h⟩
    have hlt : st.pcMic < s.pc := by
      by_cases hc : (stepPc c l p st s').initialImb = true ∧ st.pcMic < s'.pc
      · rw [if_pos hc] at h; exact lt_trans hc.2 h
      · rw [if_neg hc] at h; exact h
    cases hb : st.initialImb with
    | true => exact q2 ⟨hb, hlt⟩
    | false =>
      obtain ⟨h0, _, he⟩ := stepPc_initialImb_flip c l p st s' hb hi
      exact q1 ⟨h0, by rw [he]; exact h2⟩
  · rw [update_krnMdc]
    intro h
    exact q3 (lt_of_lt_of_le h (min_le_left _ _))
  · rw [update_krwMdc]
    intro h
    exact q4 (lt_of_le_of_lt (le_max_left _ _) h)

theorem quiet_preserved_run (h : List (Triple K)) (st : State K) (s : Triple K) (hq : Quiet c st s) (h2 : s.pc < l.two) :
    Quiet c (run c l f p st h) s := by
  induction h generalizing st with
  | nil => exact hq
  | cons a t ih => exact ih _ (quiet_preserved c l f p st s a hq h2)

/-- After a history every triple of the history is quiet. -/
theorem quiet_after_run (h : List (Triple K)) (st : State K) (h2 : ∀ s ∈ h, s.pc < l.two) :
    ∀ s ∈ h, Quiet c (run c l f p st h) s := by
  induction h generalizing st with
  | nil => intro s hs; cases hs
  | cons a t ih =>
    intro s hs
    rcases List.mem_cons.mp hs with rfl | hs'
    · exact quiet_preserved_run c l f p t _ _ (quiet_after_update c l f p st s) (h2 _ (List.mem_cons_self ..))
    · exact ih _ (fun x hx => h2 x (List.mem_cons_of_mem _ hx)) s hs'

theorem run_quiet (h : List (Triple K)) (st : State K) (hq : ∀ s ∈ h, Quiet c st s) : run c l f p st h = st := by
  induction h with
  | nil => rfl
  | cons a t ih =>
    have e : update c l f p st a = st := (quiet_update c l f p st a (hq a (List.mem_cons_self ..))).1
    show run c l f p (update c l f p st a) t = st
    rw [e]
    exact ih (fun x hx => hq x (List.mem_cons_of_mem _ hx))

/-- **Idempotent update**: seeing the same saturations twice is the same as seeing them once. -/
theorem update_self (st : State K) (s : Triple K) :
    update c l f p (update c l f p st s) s = update c l f p st s :=
  (quiet_update c l f p _ s (quiet_after_update c l f p st s)).1

/-- **Repeated history**: running a saturation history a second time changes nothing
(saturations below the start value 2.0 of `pcSwMdc_`). -/
theorem run_repeat (h : List (Triple K)) (st : State K) (h2 : ∀ s ∈ h, s.pc < l.two) :
    run c l f p (run c l f p st h) h = run c l f p st h :=
  run_quiet c l f p h _ (quiet_after_run c l f p h st h2)

/-- `krnSwMdc_` after a history: the minimum of the start value and every `krnSw`. -/
theorem run_krnMdc (h : List (Triple K)) (st : State K) :
    (run c l f p st h).krnMdc = (h.map Triple.krn).foldl min st.krnMdc := by
  induction h generalizing st with
  | nil => rfl
  | cons a t ih =>
    show (run c l f p (update c l f p st a) t).krnMdc = _
    rw [ih, update_krnMdc]; rfl

theorem run_krwMdc (h : List (Triple K)) (st : State K) :
    (run c l f p st h).krwMdc = (h.map Triple.krw).foldl max st.krwMdc := by
  induction h generalizing st with
  | nil => rfl
  | cons a t ih =>
    show (run c l f p (update c l f p st a) t).krwMdc = _
    rw [ih, update_krwMdc]; rfl

theorem run_pcMdc (h : List (Triple K)) (st : State K) (h0 : c.pcModel = 0) :
    (run c l f p st h).pcMdc = (h.map Triple.pc).foldl min st.pcMdc := by
  induction h generalizing st with
  | nil => rfl
  | cons a t ih =>
    show (run c l f p (update c l f p st a) t).pcMdc = _
    rw [ih, update_pcMdc, if_pos h0]; rfl

end bookkeeping

/-! ## B. the derived members are functions of `krnSwMdc_` -/

section consistent
variable (c : Cfg K) (l : Lits K) (f : Laws K) (p : Static K)

/-- After `finalize()` and after every `update` the derived dynamic members are what
`updateDynamicParams_()` computes from the current `krnSwMdc_`; `KrndHy_` / `KrwdHy_` are either
still at their initialiser 0 or the drainage values at `krnSwMdc_`. -/
def Consistent (st : State K) : Prop :=
  ((c.krModel = 0 ∨ c.krModel = 1) → st.delta = f.krnIInv (f.krnD st.krnMdc) - st.krnMdc) ∧
  (c.killough = true → st.Sncrt = landN c p st.krnMdc) ∧
  (c.krModel = 4 → st.Swcrt = landW c p st.krnMdc ∧ st.Krwd_sncrt = f.krwD (1 - st.Sncrt)) ∧
  (st.KrndHy = 0 ∨ st.KrndHy = f.krnD st.krnMdc) ∧
  (st.KrwdHy = 0 ∨ (c.krModel = 4 ∧ st.KrwdHy = f.krwD st.krnMdc))

theorem dyn_consistent (st : State K) (h1 : st.KrndHy = 0 ∨ st.KrndHy = f.krnD st.krnMdc)
    (h2 : st.KrwdHy = 0 ∨ (c.krModel = 4 ∧ st.KrwdHy = f.krwD st.krnMdc)) : Consistent c f p (dyn c f p st) := by
  refine ⟨?_, ?_, ?_, ?_, ?_⟩
  · intro h
    by_cases h4 : c.krModel = 4
    · exfalso; omega
    · simp [dyn, h4, h]
  · intro h; by_cases h4 : c.krModel = 4 <;> simp [dyn, h4, h]
  · intro h4; simp [dyn, h4]
  · rw [dyn_KrndHy, dyn_krnMdc]; exact h1
  · rw [dyn_KrwdHy, dyn_krnMdc]; exact h2

theorem init_consistent (he : c.enabled = true) : Consistent c f p (init c l f p) := by
  unfold init; rw [if_pos he]
  exact dyn_consistent c f p _ (Or.inl rfl) (Or.inl rfl)

theorem stepAll_krnMdc (st : State K) (s : Triple K) :
    (stepAll c l f p st s).krnMdc = if s.krn < st.krnMdc then s.krn else st.krnMdc := by
  simp only [stepAll, stepKrw_krnMdc]
  unfold stepKrn
  simp only [stepMic_krnMdc, stepPc_krnMdc]
  split <;> simp

theorem stepAll_KrndHy (st : State K) (s : Triple K) :
    (stepAll c l f p st s).KrndHy = if s.krn < st.krnMdc then f.krnD s.krn else st.KrndHy := by
  simp only [stepAll, stepKrw_KrndHy]
  unfold stepKrn
  simp only [stepMic_krnMdc, stepPc_krnMdc, stepMic_KrndHy, stepPc_KrndHy]
  split <;> simp

theorem stepAll_KrwdHy (st : State K) (s : Triple K) :
    (stepAll c l f p st s).KrwdHy =
      if s.krn < st.krnMdc then (if c.krModel = 4 then f.krwD s.krn else st.KrwdHy) else st.KrwdHy := by
  simp only [stepAll, stepKrw_KrwdHy]
  unfold stepKrn
  simp only [stepMic_krnMdc, stepPc_krnMdc, stepMic_KrwdHy, stepPc_KrwdHy]
  split <;> simp

theorem stepKrw_consistent (st : State K) (s : Triple K) (h : Consistent c f p st) : Consistent c f p (stepKrw st s) := by
  unfold stepKrw; split
  · exact h
  · exact h

theorem update_consistent (st : State K) (s : Triple K) (h : Consistent c f p st) :
    Consistent c f p (update c l f p st s) := by
  unfold update
  split
  · apply dyn_consistent
    · rw [stepAll_KrndHy, stepAll_krnMdc]
      split
      · exact Or.inr rfl
      · exact h.2.2.2.1
    · rw [stepAll_KrwdHy, stepAll_krnMdc]
      by_cases hk : s.krn < st.krnMdc
      · simp only [hk, if_true]
        by_cases h4 : c.krModel = 4
        · simp [h4]
        · simp only [h4, if_false]
          rcases h.2.2.2.2 with h0 | ⟨h4', _⟩
          · exact Or.inl h0
          · exact absurd h4' h4
      · simp only [hk, if_false]; exact h.2.2.2.2
  · rename_i hf
    have h1 : ¬ (c.pcModel = 0 ∧ s.pc < st.pcMdc) := fun hh => hf (Or.inl hh)
    have e1 : stepPc c l p st s = st := by unfold stepPc; rw [if_neg h1]
    have h2 : ¬ (st.initialImb = true ∧ st.pcMic < s.pc) := fun hh => hf (Or.inr (Or.inl (by rw [e1]; exact hh)))
    have h3 : ¬ (s.krn < st.krnMdc) := fun hh => hf (Or.inr (Or.inr hh))
    have e2 : stepMic st s = st := by unfold stepMic; rw [if_neg h2]
    have e3 : stepKrn c f st s = st := by unfold stepKrn; rw [if_neg h3]
    unfold stepAll; rw [e1, e2, e3]
    exact stepKrw_consistent c f p st s h

/-- … for every history. -/
theorem run_consistent (h : List (Triple K)) (st : State K) (hc : Consistent c f p st) :
    Consistent c f p (run c l f p st h) := by
  induction h generalizing st with
  | nil => exact hc
  | cons a t ih => exact ih _ (update_consistent c l f p st a hc)

/-- `initialImb_` is never switched on outside the oil-water system. -/
theorem run_initialImb_false (h : List (Triple K)) (st : State K) (how : p.ow = false) (hi : st.initialImb = false) :
    (run c l f p st h).initialImb = false := by
  induction h generalizing st with
  | nil => exact hi
  | cons a t ih =>
    apply ih
    rw [update_initialImb]
    unfold stepPc; split
    · simp [hi, flips, how]
    · exact hi

end consistent

/-! ## C. Land's trapped saturations -/

section land
variable (c : Cfg K) (l : Lits K) (f : Laws K) (p : Static K)

/-- the statics of the earlier model `Model/Killough.lean` -/
def toK : Killough.Static K :=
  { Sncrd := p.Sncrd, Sncri := p.Sncri, Snmaxd := p.Snmaxd, KrndMax := p.KrndMax, modParam := c.modParam,
    krnD := f.krnD, krnI := f.krnI }

theorem landN_eq (hC : p.C = 1 / (p.Sncri - p.Sncrd + l.tiny) - 1 / (p.Snmaxd - p.Sncrd)) (mdc : K) :
    landN c p mdc = Killough.land (toK c f p) l.tiny (1 - mdc) := by
  unfold landN Killough.land Killough.landC toK
  simp only [hC]

/-- The trapped non-wetting saturation lies between the drainage critical saturation and the
historical maximum `Snhy = 1 − krnSwMdc_`, after every history. -/
theorem sncrt_bounds (st : State K) (hcons : Consistent c f p st) (hk : c.killough = true)
    (hC : p.C = 1 / (p.Sncri - p.Sncrd + l.tiny) - 1 / (p.Snmaxd - p.Sncrd))
    (h2 : 1 - st.krnMdc ≤ p.Snmaxd) (h3 : 0 < p.Sncri - p.Sncrd + l.tiny)
    (h4 : p.Sncri + l.tiny ≤ p.Snmaxd) (h5 : 0 ≤ c.modParam) :
    p.Sncrd ≤ st.Sncrt ∧ st.Sncrt ≤ max p.Sncrd (1 - st.krnMdc) := by
  rw [hcons.2.1 hk]
  by_cases h1 : p.Sncrd < 1 - st.krnMdc
  · rw [landN_eq c l f p hC]
    have := Killough.killough_land_bounds_partial (toK c f p) l.tiny (1 - st.krnMdc) h1 h2 h3 h4 h5
    exact ⟨le_of_lt this.1, le_trans this.2 (le_max_right _ _)⟩
  · unfold landN
    simp only [h1, if_false]
    exact ⟨le_refl _, le_max_left _ _⟩

end land

/-! ## D. scanning curves -/

section scanning
variable (c : Cfg K) (l : Lits K) (f : Laws K) (p : Static K)

/-- At the reversal point the normalised saturation is `Snmaxd` … -/
theorem snorm_reversal (st : State K) (hd : (1 - st.krnMdc) - st.Sncrt ≠ 0) : snorm p st st.krnMdc = p.Snmaxd := by
  unfold snorm
  field_simp
  ring

/-- … at the trapped end `Sw = 1 − Sncrt` it is the imbibition critical saturation. -/
theorem snorm_trapped (st : State K) : snorm p st (1 - st.Sncrt) = p.Sncri := by
  unfold snorm
  have : (1 : K) - (1 - st.Sncrt) - st.Sncrt = 0 := by ring
  rw [this]; simp

/-- In between it stays between the two: the imbibition curve is only ever read on
`[1 − Snmaxd, 1 − Sncri]`. -/
theorem snorm_range (st : State K) (sw : K) (hi : p.Sncri ≤ p.Snmaxd) (hd : st.Sncrt < 1 - st.krnMdc)
    (h1 : st.krnMdc ≤ sw) (h2 : sw ≤ 1 - st.Sncrt) : p.Sncri ≤ snorm p st sw ∧ snorm p st sw ≤ p.Snmaxd := by
  unfold snorm
  have hpos : 0 < (1 - st.krnMdc) - st.Sncrt := by linarith
  have ht0 : 0 ≤ (1 - sw - st.Sncrt) * (p.Snmaxd - p.Sncri) / ((1 - st.krnMdc) - st.Sncrt) :=
    div_nonneg (mul_nonneg (by linarith) (by linarith)) (le_of_lt hpos)
  have ht1 : (1 - sw - st.Sncrt) * (p.Snmaxd - p.Sncri) / ((1 - st.krnMdc) - st.Sncrt) ≤ p.Snmaxd - p.Sncri := by
    rw [div_le_iff₀ hpos]
    have : (1 - sw - st.Sncrt) ≤ (1 - st.krnMdc) - st.Sncrt := by linarith
    nlinarith [mul_le_mul_of_nonneg_right this (by linarith : (0 : K) ≤ p.Snmaxd - p.Sncri)]
  constructor <;> linarith

/-- Killough scanning curve of the non-wetting phase: within `[0, max]`. -/
theorem krnScan_range (st : State K) (sw M : K) (h0 : 0 ≤ st.KrndHy) (h1 : st.KrndHy ≤ p.KrndMax) (hm : 0 < p.KrndMax)
    (hI : ∀ x, 0 ≤ f.krnI x ∧ f.krnI x ≤ M) : 0 ≤ krnScan f p st sw ∧ krnScan f p st sw ≤ M := by
  unfold krnScan
  have hw0 : 0 ≤ st.KrndHy / p.KrndMax := div_nonneg h0 (le_of_lt hm)
  have hw1 : st.KrndHy / p.KrndMax ≤ 1 := (div_le_one hm).mpr h1
  have hx := hI (1 - snorm p st sw)
  constructor
  · exact mul_nonneg hw0 hx.1
  · calc st.KrndHy / p.KrndMax * f.krnI (1 - snorm p st sw) ≤ 1 * f.krnI (1 - snorm p st sw) :=
          mul_le_mul_of_nonneg_right hw1 hx.1
      _ ≤ M := by rw [one_mul]; exact hx.2

/-- **Range for every history and every model**: the hysteretic non-wetting relperm stays within
`[0, max]` when both input curves do (drainage maximum at `Snmaxd`). -/
theorem krn_range (st : State K) (hcons : Consistent c f p st) (sw M : K) (hm : 0 < p.KrndMax)
    (hD : ∀ x, 0 ≤ f.krnD x ∧ f.krnD x ≤ p.KrndMax) (hI : ∀ x, 0 ≤ f.krnI x ∧ f.krnI x ≤ M) :
    0 ≤ krn c f p st sw ∧ krn c f p st sw ≤ max p.KrndMax M := by
  unfold krn
  split
  · exact ⟨(hD sw).1, le_trans (hD sw).2 (le_max_left _ _)⟩
  · split
    · exact ⟨(hD sw).1, le_trans (hD sw).2 (le_max_left _ _)⟩
    · split
      · exact ⟨(hI _).1, le_trans (hI _).2 (le_max_right _ _)⟩
      · have hh : 0 ≤ st.KrndHy ∧ st.KrndHy ≤ p.KrndMax := by
          rcases hcons.2.2.2.1 with h0 | h0
          · rw [h0]; exact ⟨le_refl _, le_of_lt hm⟩
          · rw [h0]; exact hD _
        have := krnScan_range f p st sw M hh.1 hh.2 hm hI
        exact ⟨this.1, le_trans this.2 (le_max_right _ _)⟩

/-- Non-wetting scanning curve, continuity at the reversal point (the two input curves meet at
`Snmaxd`). -/
theorem krnScan_continuous (st : State K) (hc : st.KrndHy = f.krnD st.krnMdc) (hd : (1 - st.krnMdc) - st.Sncrt ≠ 0)
    (hm : p.KrndMax ≠ 0) (hmeet : f.krnI (1 - p.Snmaxd) = p.KrndMax) :
    krnScan f p st st.krnMdc = f.krnD st.krnMdc := by
  unfold krnScan
  rw [snorm_reversal p st hd, hmeet, hc]
  field_simp

/-- … and its other end: zero at the trapped saturation. -/
theorem krnScan_trapped (st : State K) (hz : f.krnI (1 - p.Sncri) = 0) : krnScan f p st (1 - st.Sncrt) = 0 := by
  unfold krnScan
  rw [snorm_trapped, hz, mul_zero]

/-- Wetting phase, model 4: the scanning curve starts on the drainage curve at the reversal point
(no hypothesis on the curves: `Krwi_snmax_` is by construction the imbibition value at `Snmaxd`). -/
theorem krwScan_continuous (st : State K) (hd : (1 - st.krnMdc) - st.Sncrt ≠ 0)
    (hs : p.Krwi_snmax = f.krwI (1 - p.Snmaxd)) : krwScan l f p st st.krnMdc = st.KrwdHy := by
  unfold krwScan
  rw [snorm_reversal p st hd, hs]
  ring

/-- … and ends at Killough's interpolated end-point value `Krwi_snr` at the trapped saturation. -/
theorem krwScan_trapped (st : State K) (hs : p.Krwi_snrmax = f.krwI (1 - p.Sncri))
    (hne : p.Krwi_snrmax - p.Krwi_snmax ≠ 0) : krwScan l f p st (1 - st.Sncrt) = krwiSnr l p st := by
  unfold krwScan krwWght
  rw [snorm_trapped, ← hs]
  field_simp
  ring

/-- `twoPhaseSatKrw`: drainage curve up to the reversal point for every model that has one, and
continuous there for model 4. -/
theorem krw_reversal (st : State K) (he : c.enabled = true) (h4 : c.krModel = 4) (hcons : Consistent c f p st)
    (hset : st.KrwdHy = f.krwD st.krnMdc) (hd : (1 - st.krnMdc) - st.Sncrt ≠ 0)
    (hs : p.Krwi_snmax = f.krwI (1 - p.Snmaxd)) :
    krw c l f p st st.krnMdc = f.krwD st.krnMdc ∧ krwScan l f p st st.krnMdc = f.krwD st.krnMdc := by
  constructor
  · unfold krw; simp [he, h4]
  · rw [krwScan_continuous l f p st hd hs, hset]

/-! ### capillary pressure (Killough) -/

theorem kF_zero (cv d : K) : kF cv 0 d = 0 := by
  unfold kF; simp

theorem kF_one (cv d : K) (h : 1 / (d + cv) - 1 / cv ≠ 0) : kF cv d d = 1 := by
  unfold kF; exact div_self h

theorem kF_closed (cv x d : K) (hc : 0 < cv) (hx : 0 ≤ x) (hd : 0 < d) :
    kF cv x d = x * (d + cv) / (d * (x + cv)) := by
  unfold kF
  have h1 : x + cv ≠ 0 := by positivity
  have h2 : d + cv ≠ 0 := by positivity
  have h3 : cv ≠ 0 := ne_of_gt hc
  have h4 : d ≠ 0 := ne_of_gt hd
  have hden : 1 / (d + cv) - 1 / cv ≠ 0 := by
    have : 1 / (d + cv) - 1 / cv = -d / ((d + cv) * cv) := by field_simp; ring
    rw [this]; exact div_ne_zero (neg_ne_zero.mpr h4) (mul_ne_zero h2 h3)
  rw [div_eq_div_iff hden (mul_ne_zero h4 h1)]
  field_simp
  ring

/-- Killough's interpolation factor runs from 0 (reversal point) to 1 (end of the scanning curve). -/
theorem kF_range (cv x d : K) (hc : 0 < cv) (hx : 0 ≤ x) (hxd : x ≤ d) (hd : 0 < d) :
    0 ≤ kF cv x d ∧ kF cv x d ≤ 1 := by
  rw [kF_closed cv x d hc hx hd]
  have hpos : 0 < d * (x + cv) := by positivity
  constructor
  · exact div_nonneg (by positivity) (le_of_lt hpos)
  · rw [div_le_one hpos]; nlinarith

/-- Capillary pressure follows the drainage curve up to the reversal saturation `pcSwMdc_`
(no initial imbibition) … -/
theorem pcnw_drainage (st : State K) (sw : K) (hi : st.initialImb = false) (h : sw ≤ st.pcMdc) :
    pcnw c l f p st sw = f.pcD sw := by
  unfold pcnw
  split
  · rfl
  · simp [hi, h]

/-- … beyond the trapped saturation it is the imbibition curve … -/
theorem pcnw_imbibition (st : State K) (sw : K) (he : c.enabled = true) (h0 : c.pcModel = 0) (hi : st.initialImb = false)
    (h : st.pcMdc < sw) (h2 : 1 - st.Sncrt ≤ sw) : pcnw c l f p st sw = f.pcI sw := by
  unfold pcnw
  simp [he, h0, hi, not_le.mpr h, h2]

/-- … and in between Killough's scanning curve: drainage value plus `F` times the distance to the
(aligned) imbibition value, with `F ∈ [0,1]`, `F = 0` at the reversal point — so the scanning curve
starts continuously and stays between the two bounding curves. -/
theorem pcnw_scanning (st : State K) (sw : K) (he : c.enabled = true) (h0 : c.pcModel = 0) (hi : st.initialImb = false)
    (h : st.pcMdc < sw) (h2 : sw < 1 - st.Sncrt) (hcv : 0 < p.curv) :
    ∃ F, 0 ≤ F ∧ F ≤ 1 ∧ F = kF p.curv (sw - st.pcMdc) ((1 - st.Sncrt) - st.pcMdc) ∧
      pcnw c l f p st sw = f.pcD sw + F * (pcWght l f p * f.pcI sw - f.pcD sw) ∧
      min (f.pcD sw) (pcWght l f p * f.pcI sw) ≤ pcnw c l f p st sw ∧
      pcnw c l f p st sw ≤ max (f.pcD sw) (pcWght l f p * f.pcI sw) := by
  have hr := kF_range p.curv (sw - st.pcMdc) ((1 - st.Sncrt) - st.pcMdc) hcv (by linarith) (by linarith) (by linarith)
  set F := kF p.curv (sw - st.pcMdc) ((1 - st.Sncrt) - st.pcMdc) with hF
  set a := f.pcD sw with ha
  set b := pcWght l f p * f.pcI sw with hb
  have hval : pcnw c l f p st sw = a + F * (b - a) := by
    unfold pcnw
    simp only [he, h0, hi, not_le.mpr h, not_le.mpr h2]
    simp only [← ha, ← hb, ← hF]
    by_cases hab : b ≤ a ∧ a ≤ b
    · have : a = b := le_antisymm hab.2 hab.1
      simp [hab, this]
    · simp [hab]
  refine ⟨F, hr.1, hr.2, rfl, hval, ?_, ?_⟩
  · rw [hval]
    rcases le_total a b with hab | hab
    · rw [min_eq_left hab]; nlinarith [mul_nonneg hr.1 (sub_nonneg.mpr hab)]
    · rw [min_eq_right hab]; nlinarith [mul_nonneg (sub_nonneg.mpr hr.2) (sub_nonneg.mpr hab)]
  · rw [hval]
    rcases le_total a b with hab | hab
    · rw [max_eq_right hab]; nlinarith [mul_nonneg (sub_nonneg.mpr hr.2) (sub_nonneg.mpr hab)]
    · rw [max_eq_left hab]; nlinarith [mul_nonneg hr.1 (sub_nonneg.mpr hab)]

end scanning

/-! ## E. the complete object refines the earlier single-purpose models -/

section refinement
variable (c : Cfg K) (l : Lits K) (f : Laws K) (p : Static K)

def toCurves : Hyst.Curves K := { krnD := f.krnD, krnI := f.krnI, krnIInv := f.krnIInv }
/-- the Carlson members of the complete state -/
def carl (st : State K) : Hyst.State K := { mdc := st.krnMdc, delta := st.delta }
/-- the Killough (non-wetting) members of the complete state -/
def kill (st : State K) : Killough.State K := { mdc := st.krnMdc, KrndHy := st.KrndHy, Sncrt := st.Sncrt }

theorem krn_carlson (he : c.enabled = true) (hm : c.krModel = 0 ∨ c.krModel = 1) (st : State K) (sw : K) :
    krn c f p st sw = Hyst.krn (toCurves f) (carl st) sw := by
  unfold krn Hyst.krn toCurves carl
  have h1 : ¬ (¬ c.enabled = true ∨ c.krModel < 0) := by rintro (h | h); exact h he; omega
  have h2 : c.krModel ≤ 1 := by omega
  simp only [h1, h2, if_true, if_false]

theorem update_carlson (hm : c.krModel = 0 ∨ c.krModel = 1) (st : State K) (hc : Consistent c f p st) (s : Triple K) :
    carl (update c l f p st s) = Hyst.update (toCurves f) (carl st) s.krn := by
  have hc' := (update_consistent c l f p st s hc).1 hm
  have hk := update_krnMdc c l f p st s
  unfold carl Hyst.update Hyst.refresh toCurves
  by_cases h : s.krn < st.krnMdc
  · simp only [h, if_true]
    rw [hc', hk, min_eq_right (le_of_lt h)]
  · simp only [h, if_false]
    rw [hc', hk, min_eq_left (not_lt.mp h), ← hc.1 hm]

theorem run_carlson (hm : c.krModel = 0 ∨ c.krModel = 1) (h : List (Triple K)) (st : State K) (hc : Consistent c f p st) :
    carl (run c l f p st h) = Hyst.run (toCurves f) (carl st) (h.map Triple.krn) := by
  induction h generalizing st with
  | nil => rfl
  | cons a t ih =>
    show carl (run c l f p (update c l f p st a) t) = Hyst.run (toCurves f) (Hyst.update (toCurves f) (carl st) a.krn) (t.map Triple.krn)
    rw [ih _ (update_consistent c l f p st a hc), update_carlson c l f p hm st hc a]

theorem init_carlson (he : c.enabled = true) (hm : c.krModel = 0 ∨ c.krModel = 1) :
    carl (init c l f p) = Hyst.init (toCurves f) l.two := by
  have h4 : ¬ c.krModel = 4 := by omega
  unfold init carl Hyst.init Hyst.refresh toCurves
  simp [he, dyn, h4, hm, raw]

/-- **Carlson identity for the complete object**: identical drainage and imbibition curves change
nothing, for every history of saturation triples and whatever the capillary-pressure setting. -/
theorem carlson_identity_full (he : c.enabled = true) (hm : c.krModel = 0 ∨ c.krModel = 1)
    (fn fInv : K → K) (hD : f.krnD = fn) (hI : f.krnI = fn) (hInv : f.krnIInv = fInv) (h : List (Triple K))
    (hinv : ∀ s, s = l.two ∨ s ∈ h.map Triple.krn → fInv (fn s) = s) (sw : K) :
    krn c f p (run c l f p (init c l f p) h) sw = fn sw := by
  rw [krn_carlson c f p he hm, run_carlson c l f p hm h _ (init_consistent c l f p he), init_carlson c l f p he hm]
  have : toCurves f = ⟨fn, fn, fInv⟩ := by unfold toCurves; rw [hD, hI, hInv]
  rw [this]
  exact Hyst.carlson_identity_history fn fInv l.two (h.map Triple.krn) hinv sw

theorem krn_killough (he : c.enabled = true) (hm : 2 ≤ c.krModel) (st : State K) (sw : K) :
    krn c f p st sw = Killough.krn (toK c f p) (kill st) sw := by
  unfold krn Killough.krn Killough.scan Killough.krnWght Killough.snorm Killough.snhy krnScan snorm toK kill
  have h1 : ¬ (¬ c.enabled = true ∨ c.krModel < 0) := by rintro (h | h); exact h he; omega
  have h2 : ¬ c.krModel ≤ 1 := by omega
  simp only [h1, h2, if_true, if_false]

/-- **Drainage until the first reversal, every model**: below every `krnSw` seen so far the
non-wetting relperm is the drainage curve. -/
theorem krn_drainage_until_reversal (st : State K) (h : List (Triple K)) (sw : K) (h0 : sw ≤ st.krnMdc)
    (hall : ∀ s ∈ h, sw ≤ s.krn) : krn c f p (run c l f p st h) sw = f.krnD sw := by
  have hm : sw ≤ (run c l f p st h).krnMdc := by
    rw [run_krnMdc]
    have : ∀ (xs : List K) (m : K), sw ≤ m → (∀ x ∈ xs, sw ≤ x) → sw ≤ xs.foldl min m := by
      intro xs
      induction xs with
      | nil => intro m hm _; exact hm
      | cons a t ih =>
        intro m hm hx
        exact ih (min m a) (le_min hm (hx a (List.mem_cons_self ..))) (fun x hx' => hx x (List.mem_cons_of_mem _ hx'))
    apply this _ _ h0
    intro x hx
    obtain ⟨s, hs, rfl⟩ := List.mem_map.mp hx
    exact hall s hs
  unfold krn
  split
  · rfl
  · simp [hm]

end refinement

section initial
variable (c : Cfg K) (l : Lits K) (f : Laws K) (p : Static K)

@[simp] theorem init_krnMdc : (init c l f p).krnMdc = l.two := by
  unfold init; split <;> simp [raw]
@[simp] theorem init_pcMdc : (init c l f p).pcMdc = l.two := by
  unfold init; split <;> simp [raw]
@[simp] theorem init_initialImb : (init c l f p).initialImb = false := by
  unfold init; split <;> simp [raw]

end initial

end OpmVerif.HystFull
