/-
  C04 at full strength: `end_report` (automatic shut-in of wells whose connections are all shut)
  and the deferred WPIMULT factors commute with every non-connection handler, hence applying an
  ACTIONX whose body has no connection keyword equals inlining it — and sequences of
  applications equal inlining all bodies in that order.

  States are compared with `Sim`: equal property channel, equal connection channel, equal well
  status of every well (`statusOf`; the status *association list* may list its keys in a
  different order, which nothing observes), marker ignored.
-/
import OpmVerif.Proofs.SchedAction

namespace OpmVerif.Sched

/-! ### association lists -/

theorem lookup_modify_const {α} (m : List (String × α)) (k w : String) (v : α) :
    lookup (modify m k (fun _ => v)) w = if w = k ∧ has m k then some v else lookup m w := by
  induction m with
  | nil => simp [modify, lookup, has]
  | cons x r ih =>
    obtain ⟨k', v'⟩ := x
    have ih' : lookup (List.map (fun x : String × α => if x.1 = k then (x.1, v) else (x.1, x.2)) r) w =
        if w = k ∧ has r k then some v else lookup r w := by
      have := ih; simp only [modify] at this; exact this
    simp only [modify, List.map_cons]
    by_cases hk : k' = k
    · subst hk
      simp only [if_true, lookup, has]
      by_cases hw : k' = w
      · subst hw; simp
      · have hw' : ¬ w = k' := fun h => hw h.symm
        simp only [hw, hw', if_false, false_and]
        rw [ih']; simp [hw']
    · simp only [hk, if_false, lookup, has]
      by_cases hw : k' = w
      · subst hw
        have : ¬ k' = k := hk
        simp [this]
      · simp only [hw, if_false]
        rw [ih']; rfl

theorem lookup_append_single {α} (m : List (String × α)) (k w : String) (v : α) :
    lookup (m ++ [(k, v)]) w = match lookup m w with
      | some x => some x
      | none => if k = w then some v else none := by
  induction m with
  | nil => simp [lookup]
  | cons x r ih =>
    obtain ⟨k', v'⟩ := x
    simp only [List.cons_append, lookup]
    by_cases hw : k' = w
    · simp [hw]
    · simp only [hw, if_false]; exact ih

theorem lookup_setKey {α} (m : List (String × α)) (k w : String) (v : α) :
    lookup (setKey m k v) w = if w = k then some v else lookup m w := by
  unfold setKey
  by_cases hh : has m k = true
  · simp only [hh, if_true]
    rw [lookup_modify_const]
    by_cases hw : w = k <;> simp [hw, hh]
  · have hh' : has m k = false := by simpa using hh
    simp only [hh', Bool.false_eq_true, if_false]
    rw [lookup_append_single]
    have hn : lookup m k = none := by
      cases h : lookup m k with
      | none => rfl
      | some x => simp [has, h] at hh'
    by_cases hw : w = k
    · subst hw; simp [hn]
    · have hw' : ¬ k = w := fun h => hw h.symm
      simp only [hw, hw', if_false]
      cases lookup m w <;> rfl

theorem statusOf_setKey (st : StatMap) (k w : String) (v : Status) :
    statusOf (setKey st k v) w = if w = k then v else statusOf st w := by
  unfold statusOf
  rw [lookup_setKey]
  by_cases hw : w = k <;> simp [hw]

/-- The status of `w` after a list of writes depends on the old map only through the old
status of `w`. -/
theorem statusOf_applyWrites_congr (a b : StatMap) (ws : List (String × Status)) (w : String)
    (h : statusOf a w = statusOf b w) : statusOf (applyWrites a ws) w = statusOf (applyWrites b ws) w := by
  induction ws generalizing a b with
  | nil => exact h
  | cons x r ih =>
    simp only [applyWrites, List.foldl_cons]
    apply ih
    rw [statusOf_setKey, statusOf_setKey, h]

/-- Writes that all carry the value `v`. -/
theorem statusOf_applyWrites_const (st : StatMap) (ws : List (String × Status)) (v : Status) (w : String)
    (hv : ∀ x ∈ ws, x.2 = v) :
    statusOf (applyWrites st ws) w = if w ∈ ws.map Prod.fst then v else statusOf st w := by
  induction ws generalizing st with
  | nil => simp [applyWrites]
  | cons x r ih =>
    simp only [applyWrites, List.foldl_cons]
    have := ih (setKey st x.1 x.2) (fun y hy => hv y (List.mem_cons_of_mem _ hy))
    simp only [applyWrites] at this
    rw [this, statusOf_setKey]
    have hx : x.2 = v := hv x (List.mem_cons_self ..)
    by_cases h1 : w ∈ r.map Prod.fst
    · simp [h1]
    · by_cases h2 : w = x.1
      · simp [h2, hx]
      · have h2' : ¬ x.1 = w := fun h => h2 h.symm
        simp [h1, h2, h2']

theorem mem_keys_endReportWrites (p : Props) (c : ConnMap) (w : String) :
    w ∈ (endReportWrites p c).map Prod.fst ↔ w ∈ names p.wells ∧ allShut (connsOf c w) = true := by
  unfold endReportWrites
  simp only [List.map_flatMap, List.mem_flatMap]
  constructor
  · rintro ⟨a, ha, hw⟩
    by_cases hs : allShut (connsOf c a) = true
    · simp only [hs, if_true, List.map_cons, List.map_nil, List.mem_singleton] at hw
      subst hw; exact ⟨ha, hs⟩
    · simp [hs] at hw
  · rintro ⟨ha, hs⟩
    exact ⟨w, ha, by simp [hs]⟩

theorem endReportWrites_shut (p : Props) (c : ConnMap) : ∀ x ∈ endReportWrites p c, x.2 = Status.shut := by
  intro x hx
  unfold endReportWrites at hx
  simp only [List.mem_flatMap] at hx
  obtain ⟨a, _, h⟩ := hx
  by_cases hs : allShut (connsOf c a) = true
  · simp only [hs, if_true, List.mem_singleton] at h; subst h; rfl
  · simp [hs] at h

theorem statusOf_endReport (s : State) (w : String) :
    statusOf (endReport s).st w =
      if w ∈ names s.p.wells ∧ allShut (connsOf s.c.m w) = true then Status.shut else statusOf s.st w := by
  unfold endReport
  simp only []
  rw [statusOf_applyWrites_const _ _ Status.shut w (endReportWrites_shut _ _)]
  by_cases h : w ∈ (endReportWrites s.p s.c.m).map Prod.fst
  · have := (mem_keys_endReportWrites _ _ _).1 h
    simp [h, this]
  · have : ¬ (w ∈ names s.p.wells ∧ allShut (connsOf s.c.m w) = true) := fun hh => h ((mem_keys_endReportWrites _ _ _).2 hh)
    simp [h, this]

/-! ### a property operation never removes a well -/

theorem names_modify {α} (m : List (String × α)) (k : String) (f : α → α) : names (modify m k f) = names m := by
  unfold names modify
  rw [List.map_map]
  apply List.map_congr_left
  intro x _
  obtain ⟨a, b⟩ := x
  by_cases h : a = k <;> simp [h]

theorem forWells_names (ws : List (String × WellP)) (f : String → WellP → Except Err WellP) (ns : List String)
    (ws' : List (String × WellP)) (h : forWells ws f ns = .ok ws') : names ws' = names ws := by
  induction ns generalizing ws with
  | nil => simp only [forWells, Except.ok.injEq] at h; subst h; rfl
  | cons n r ih =>
    simp only [forWells] at h
    cases hl : lookup ws n with
    | none => rw [hl] at h; cases h
    | some w =>
      rw [hl] at h; simp only [] at h
      cases hf : f n w with
      | error e => rw [hf] at h; cases h
      | ok w' =>
        rw [hf] at h; simp only [] at h
        rw [ih _ h, names_modify]

theorem regroup_names (e : String → Bool) (group : String) (i j : Option Nat) (wl : List (String × WellP))
    (gs : List (String × GroupP)) (ns : List String) (wl' : List (String × WellP)) (gs' : List (String × GroupP))
    (h : regroup e group i j wl gs ns = .ok (wl', gs')) : names wl' = names wl := by
  induction ns generalizing wl gs with
  | nil => simp only [regroup, Except.ok.injEq, Prod.mk.injEq] at h; rw [← h.1]
  | cons n r ih =>
    simp only [regroup] at h
    cases hl : lookup wl n with
    | none => rw [hl] at h; cases h
    | some w =>
      rw [hl] at h; simp only [] at h
      split at h
      · cases h
      · cases ha : addWellToGroup gs w.group group n with
        | error x => rw [ha] at h; cases h
        | ok g2 =>
          rw [ha] at h; simp only [] at h
          rw [ih _ _ h, names_modify]

/-- A property operation never removes a well from the well list. -/
theorem stepP_names (k : Consts) (m : List String) (e : String → Bool) (p : Props) (r : ROp) (p' : Props)
    (ws : List (String × Status)) (h : stepP k m e p r = .ok (p', ws)) :
    ∀ w, w ∈ names p.wells → w ∈ names p'.wells := by
  intro w hw
  cases r with
  | welspecs name group i j =>
    simp only [stepP] at h
    split at h
    · cases h
    · split at h
      · cases h
      · split at h
        · split at h
          · split at h
            · cases h
            · simp only [Except.ok.injEq, Prod.mk.injEq] at h
              rw [← h.1]; simp only [names, List.map_append, List.mem_append]; exact Or.inl hw
          · cases h
        · split at h
          · cases h
          · rename_i wl gs' hr
            simp only [Except.ok.injEq, Prod.mk.injEq] at h
            rw [← h.1]; simp only []
            rw [regroup_names (h := hr)]; exact hw
  | wconprod r =>
    simp only [stepP] at h
    split at h
    · cases h
    · split at h
      · cases h
      · rename_i wl hf
        simp only [Except.ok.injEq, Prod.mk.injEq] at h
        rw [← h.1]; simp only []
        rw [forWells_names _ _ _ _ hf]; exact hw
  | wconinje r =>
    simp only [stepP] at h
    split at h
    · cases h
    · split at h
      · cases h
      · rename_i wl hf
        simp only [Except.ok.injEq, Prod.mk.injEq] at h
        rw [← h.1]; simp only []
        rw [forWells_names _ _ _ _ hf]; exact hw
  | wconhist r =>
    simp only [stepP] at h
    split at h
    · cases h
    · split at h
      · cases h
      · rename_i wl hf
        simp only [Except.ok.injEq, Prod.mk.injEq] at h
        rw [← h.1]; simp only []
        rw [forWells_names _ _ _ _ hf]; exact hw
  | wconinjh r =>
    simp only [stepP] at h
    split at h
    · cases h
    · split at h
      · cases h
      · rename_i wl hf
        simp only [Except.ok.injEq, Prod.mk.injEq] at h
        rw [← h.1]; simp only []
        rw [forWells_names _ _ _ _ hf]; exact hw
  | weltarg pat mode v =>
    simp only [stepP] at h
    split at h
    · cases h
    · split at h
      · cases h
      · rename_i wl hf
        simp only [Except.ok.injEq, Prod.mk.injEq] at h
        rw [← h.1]; simp only []
        rw [forWells_names _ _ _ _ hf]; exact hw
  | wefac pat v =>
    simp only [stepP] at h
    split at h
    · cases h
    · split at h
      · cases h
      · rename_i wl hf
        simp only [Except.ok.injEq, Prod.mk.injEq] at h
        rw [← h.1]; simp only []
        rw [forWells_names _ _ _ _ hf]; exact hw
  | wecon pat o c wo =>
    simp only [stepP] at h
    split at h
    · cases h
    · split at h
      · cases h
      · rename_i wl hf
        simp only [Except.ok.injEq, Prod.mk.injEq] at h
        rw [← h.1]; simp only []
        rw [forWells_names _ _ _ _ hf]; exact hw
  | welopenW pat st =>
    simp only [stepP] at h
    split at h
    · cases h
    · simp only [Except.ok.injEq, Prod.mk.injEq] at h
      rw [← h.1]; exact hw
  | wtest pat i rs n su =>
    simp only [stepP] at h
    split at h
    · cases h
    · simp only [Except.ok.injEq, Prod.mk.injEq] at h
      rw [← h.1]; exact hw
  | gefac pat v =>
    simp only [stepP] at h
    split at h
    · cases h
    · simp only [Except.ok.injEq, Prod.mk.injEq] at h
      rw [← h.1]; exact hw
  | gconprod r =>
    simp only [stepP] at h
    split at h
    · cases h
    · simp only [Except.ok.injEq, Prod.mk.injEq] at h
      rw [← h.1]; exact hw
  | gconinje r =>
    simp only [stepP] at h
    split at h
    · cases h
    · simp only [Except.ok.injEq, Prod.mk.injEq] at h
      rw [← h.1]; exact hw
  | whistctl mode =>
    simp only [stepP, Except.ok.injEq, Prod.mk.injEq] at h
    rw [← h.1]
    simp only [names, List.map_map, List.mem_map, Function.comp] at hw ⊢
    obtain ⟨x, hx, hxw⟩ := hw
    refine ⟨x, hx, ?_⟩
    rw [← hxw]
    split
    · rfl
    · split <;> rfl
  | wlist name action wells =>
    simp only [stepP] at h
    split at h
    · cases h
    · split at h
      · cases h
      · simp only [Except.ok.injEq, Prod.mk.injEq] at h
        rw [← h.1]; exact hw
  | gruptree c pa =>
    simp only [stepP] at h
    split at h
    · cases h
    · split at h
      · cases h
      · split at h
        · cases h
        · simp only [Except.ok.injEq, Prod.mk.injEq] at h
          rw [← h.1]; exact hw
  | nextstep v a =>
    simp only [stepP, Except.ok.injEq, Prod.mk.injEq] at h
    rw [← h.1]; exact hw
  | udq act q d =>
    simp only [stepP] at h
    split at h
    · split at h
      · split at h
        · simp only [Except.ok.injEq, Prod.mk.injEq] at h
          rw [← h.1]; exact hw
        · cases h
      · simp only [Except.ok.injEq, Prod.mk.injEq] at h
        rw [← h.1]; exact hw
    · simp only [Except.ok.injEq, Prod.mk.injEq] at h
      rw [← h.1]; exact hw
    · simp only [Except.ok.injEq, Prod.mk.injEq] at h
      rw [← h.1]; exact hw
  | compdat pat i j k1 k2 st => simp [stepP] at h
  | welopenC pat cs i j kk c1 c2 => simp [stepP] at h
  | complump pat i j k1 k2 n => simp [stepP] at h
  | wpimultC pat f i j kk c1 c2 => simp [stepP] at h
  | wpimultG pat f => simp [stepP] at h

/-! ### observational equivalence of states -/

/-- Equal property and connection channels, equal status of every well; the marker channel is
ignored (it is the allowed difference at the action step). -/
structure Sim (a b : State) : Prop where
  p : a.p = b.p
  c : a.c = b.c
  st : ∀ w, statusOf a.st w = statusOf b.st w

theorem Sim.refl (a : State) : Sim a a := ⟨rfl, rfl, fun _ => rfl⟩
theorem Sim.symm {a b : State} (h : Sim a b) : Sim b a := ⟨h.p.symm, h.c.symm, fun w => (h.st w).symm⟩
theorem Sim.trans {a b c : State} (h : Sim a b) (h' : Sim b c) : Sim a c :=
  ⟨h.p.trans h'.p, h.c.trans h'.c, fun w => (h.st w).trans (h'.st w)⟩

/-- Pointwise relation of two lists of the same length. -/
inductive All2 {α : Type} (R : α → α → Prop) : List α → List α → Prop
  | nil : All2 R [] []
  | cons {a b : α} {as bs : List α} : R a b → All2 R as bs → All2 R (a :: as) (b :: bs)

theorem All2.length_eq {α : Type} {R : α → α → Prop} {l l' : List α} (h : All2 R l l') : l.length = l'.length := by
  induction h with
  | nil => rfl
  | cons _ _ ih => simp [ih]

theorem All2.append {α : Type} {R : α → α → Prop} {l l' m m' : List α} (h : All2 R l l') (h' : All2 R m m') :
    All2 R (l ++ m) (l' ++ m') := by
  induction h with
  | nil => exact h'
  | cons hab _ ih => exact All2.cons hab ih

theorem All2.take {α : Type} {R : α → α → Prop} {l l' : List α} (h : All2 R l l') (n : Nat) :
    All2 R (l.take n) (l'.take n) := by
  induction h generalizing n with
  | nil => simp; exact All2.nil
  | cons hab _ ih =>
    cases n with
    | zero => simp; exact All2.nil
    | succ n => simp only [List.take_succ_cons]; exact All2.cons hab (ih n)

theorem All2.drop {α : Type} {R : α → α → Prop} {l l' : List α} (h : All2 R l l') (n : Nat) :
    All2 R (l.drop n) (l'.drop n) := by
  induction h generalizing n with
  | nil => simp; exact All2.nil
  | cons hab hr ih =>
    cases n with
    | zero => simp; exact All2.cons hab hr
    | succ n => simp only [List.drop_succ_cons]; exact ih n

theorem All2.get {α : Type} {R : α → α → Prop} {l l' : List α} (h : All2 R l l') (n : Nat) (a : α)
    (ha : l[n]? = some a) : ∃ b, l'[n]? = some b ∧ R a b := by
  induction h generalizing n with
  | nil => simp at ha
  | cons hab _ ih =>
    cases n with
    | zero => simp at ha; subst ha; exact ⟨_, by simp, hab⟩
    | succ n => simp at ha; obtain ⟨b, hb, hr⟩ := ih n ha; exact ⟨b, by simpa using hb, hr⟩

theorem All2.refl {α : Type} {R : α → α → Prop} (hr : ∀ a, R a a) (l : List α) : All2 R l l := by
  induction l with
  | nil => exact All2.nil
  | cons a r ih => exact All2.cons (hr a) ih

/-- Both computations fail with the same error, or both succeed with related results. -/
def ExRel {α : Type} (R : α → α → Prop) : Except Err α → Except Err α → Prop
  | .ok a, .ok b => R a b
  | .error e, .error e' => e = e'
  | _, _ => False

theorem ExRel.ok_left {α : Type} {R : α → α → Prop} {x y : Except Err α} {a : α} (h : ExRel R x y) (hx : x = .ok a) :
    ∃ b, y = .ok b ∧ R a b := by
  subst hx
  cases y with
  | error e => exact h.elim
  | ok b => exact ⟨b, rfl, h⟩

theorem ExRel.ok_right {α : Type} {R : α → α → Prop} {x y : Except Err α} {b : α} (h : ExRel R x y) (hy : y = .ok b) :
    ∃ a, x = .ok a ∧ R a b := by
  subst hy
  cases x with
  | error e => exact h.elim
  | ok a => exact ⟨a, rfl, h⟩

/-- No handler reads the status channel (nor the marker): related states step to related states. -/
theorem stepR_sim (k : Consts) (m : List String) (a b : State) (r : ROp) (h : Sim a b) :
    ExRel Sim (stepR k m a r) (stepR k m b r) := by
  unfold stepR
  rw [h.p, h.c]
  by_cases hc : r.isConn = true
  · simp only [hc, if_true]
    cases stepC k m b.p b.c r with
    | error e => exact rfl
    | ok c' => exact ⟨rfl, rfl, h.st⟩
  · simp only [hc]
    cases hP : stepP k m (emp b.c) b.p r with
    | error e => exact rfl
    | ok v =>
      obtain ⟨p', ws⟩ := v
      exact ⟨rfl, rfl, fun w => statusOf_applyWrites_congr _ _ _ _ (h.st w)⟩

theorem runOps_sim (k : Consts) (m : List String) (rs : List ROp) (a b : State) (h : Sim a b) :
    ExRel Sim (runOps k m a rs) (runOps k m b rs) := by
  induction rs generalizing a b with
  | nil => exact h
  | cons r rs ih =>
    simp only [runOps]
    have := stepR_sim k m a b r h
    cases ha : stepR k m a r with
    | error e =>
      cases hb : stepR k m b r with
      | error e' => rw [ha, hb] at this; exact this
      | ok b' => rw [ha, hb] at this; exact this.elim
    | ok a' =>
      cases hb : stepR k m b r with
      | error e' => rw [ha, hb] at this; exact this.elim
      | ok b' => rw [ha, hb] at this; exact ih a' b' this

theorem handle_sim (k : Consts) (m : List String) (kw : CKw) (a b : State) (h : Sim a b) :
    ExRel Sim (handle k m a kw) (handle k m b kw) := by
  cases kw with
  | ops n rs => exact runOps_sim k m rs a b h
  | actionx x => exact h
  | endactio => exact h
  | compord c => exact h
  | msw o =>
    simp only [handle]
    rw [h.p]
    cases segStep b.p o with
    | error e => exact rfl
    | ok sm => exact ⟨rfl, h.c, h.st⟩

theorem addAction_sim (a b : State) (n : String) (body : List CKw) (h : Sim a b) : Sim (addAction a n body) (addAction b n body) :=
  ⟨by simp only [addAction, h.p], h.c, h.st⟩

theorem runKws_sim (k : Consts) (kws : List CKw) (acc : Option (String × List CKw)) (a b : State) (h : Sim a b) :
    ExRel Sim (runKws k acc a kws) (runKws k acc b kws) := by
  induction kws generalizing acc a b with
  | nil =>
    cases acc with
    | none => exact h
    | some v => exact rfl
  | cons kw r ih =>
    cases acc with
    | none =>
      cases kw with
      | actionx n => simp only [runKws]; exact ih _ a b h
      | ops n rs =>
        simp only [runKws]
        have := handle_sim k [] (.ops n rs) a b h
        cases ha : handle k [] a (.ops n rs) with
        | error e =>
          cases hb : handle k [] b (.ops n rs) with
          | error e' => rw [ha, hb] at this; exact this
          | ok b' => rw [ha, hb] at this; exact this.elim
        | ok a' =>
          cases hb : handle k [] b (.ops n rs) with
          | error e' => rw [ha, hb] at this; exact this.elim
          | ok b' => rw [ha, hb] at this; exact ih _ a' b' this
      | endactio =>
        simp only [runKws, handle]
        exact ih _ a b h
      | compord c =>
        simp only [runKws, handle]
        exact ih _ a b h
      | msw o =>
        simp only [runKws]
        have := handle_sim k [] (.msw o) a b h
        cases ha : handle k [] a (.msw o) with
        | error e =>
          cases hb : handle k [] b (.msw o) with
          | error e' => rw [ha, hb] at this; exact this
          | ok b' => rw [ha, hb] at this; exact this.elim
        | ok a' =>
          cases hb : handle k [] b (.msw o) with
          | error e' => rw [ha, hb] at this; exact this.elim
          | ok b' => rw [ha, hb] at this; exact ih _ a' b' this
    | some v =>
      obtain ⟨n, ac⟩ := v
      cases kw with
      | endactio => simp only [runKws]; exact ih _ _ _ (addAction_sim a b n ac h)
      | ops n' rs => simp only [runKws]; exact ih _ a b h
      | actionx n' => simp only [runKws]; exact ih _ a b h
      | compord c => simp only [runKws]; exact rfl
      | msw o => simp only [runKws]; exact ih _ a b h

theorem endReport_sim (a b : State) (h : Sim a b) : Sim (endReport a) (endReport b) := by
  refine ⟨h.p, h.c, fun w => ?_⟩
  rw [statusOf_endReport, statusOf_endReport, h.p, h.c, h.st w]

theorem closeBlock_sim (a b : State) (h : Sim a b) : Sim (closeBlock a) (closeBlock b) := by
  unfold closeBlock
  apply endReport_sim
  exact ⟨h.p, by simp only [h.c], h.st⟩

theorem createNext_sim (a b : State) (h : Sim a b) : Sim (createNext a) (createNext b) :=
  ⟨by simp only [createNext, h.p], by simp only [createNext, h.c], h.st⟩

theorem beginBlock_sim (a b : State) (blk : List CKw) (h : Sim a b) : Sim (beginBlock a blk) (beginBlock b blk) :=
  ⟨by simp only [beginBlock, createNext, h.p], by simp only [beginBlock, createNext, h.c], h.st⟩

theorem stepBlock_sim (k : Consts) (blk : List CKw) (a b : State) (h : Sim a b) :
    ExRel Sim (stepBlock k a blk) (stepBlock k b blk) := by
  unfold stepBlock
  have := runKws_sim k blk none _ _ (beginBlock_sim a b blk h)
  cases ha : runKws k none (beginBlock a blk) blk with
  | error e =>
    cases hb : runKws k none (beginBlock b blk) blk with
    | error e' => rw [ha, hb] at this; exact this
    | ok b' => rw [ha, hb] at this; exact this.elim
  | ok a' =>
    cases hb : runKws k none (beginBlock b blk) blk with
    | error e' => rw [ha, hb] at this; exact this.elim
    | ok b' => rw [ha, hb] at this; exact closeBlock_sim a' b' this

theorem runFrom_sim (k : Consts) (bs : List (List CKw)) (a b : State) (h : Sim a b) :
    ExRel (All2 Sim) (runFrom k a bs) (runFrom k b bs) := by
  induction bs generalizing a b with
  | nil => exact All2.nil
  | cons blk r ih =>
    simp only [runFrom]
    have := stepBlock_sim k blk a b h
    cases ha : stepBlock k a blk with
    | error e =>
      cases hb : stepBlock k b blk with
      | error e' => rw [ha, hb] at this; exact this
      | ok b' => rw [ha, hb] at this; exact this.elim
    | ok a' =>
      cases hb : stepBlock k b blk with
      | error e' => rw [ha, hb] at this; exact this.elim
      | ok b' =>
        rw [ha, hb] at this
        have ih' := ih a' b' this
        simp only []
        cases hra : runFrom k a' r with
        | error e =>
          cases hrb : runFrom k b' r with
          | error e' => rw [hra, hrb] at ih'; exact ih'
          | ok tb => rw [hra, hrb] at ih'; exact ih'.elim
        | ok ta =>
          cases hrb : runFrom k b' r with
          | error e' => rw [hra, hrb] at ih'; exact ih'.elim
          | ok tb =>
            rw [hra, hrb] at ih'
            have h2 : All2 Sim ta tb := ih'
            have h1 : Sim a' b' := this
            exact All2.cons h1 h2

/-! ### the commutation: closing a report step early -/

theorem lookup_modify {α} (m : List (String × α)) (k w : String) (f : α → α) :
    lookup (modify m k f) w = if w = k then (lookup m k).map f else lookup m w := by
  induction m with
  | nil => simp [modify, lookup]
  | cons x r ih =>
    obtain ⟨k', v'⟩ := x
    have ih' : lookup (List.map (fun x : String × α => if x.1 = k then (x.1, f x.2) else (x.1, x.2)) r) w =
        if w = k then (lookup r k).map f else lookup r w := by
      have := ih; simp only [modify] at this; exact this
    simp only [modify, List.map_cons]
    by_cases hk : k' = k
    · subst hk
      simp only [if_true, lookup]
      by_cases hw : k' = w
      · subst hw; simp
      · have hw' : ¬ w = k' := fun h => hw h.symm
        simp only [hw, hw', if_false]
        rw [ih']; simp [hw']
    · simp only [hk, if_false, lookup]
      by_cases hw : k' = w
      · subst hw
        have : ¬ k' = k := hk
        simp [this]
      · simp only [hw, if_false]
        rw [ih']

theorem connsOf_rebuild (c : ConnMap) (n w : String) (f : Conn → Conn) :
    connsOf (rebuild c n f) w = if w = n then (connsOf c n).map f else connsOf c w := by
  unfold connsOf rebuild
  rw [lookup_modify]
  by_cases hw : w = n
  · simp only [hw, if_true]
    cases lookup c n <;> rfl
  · simp [hw]

theorem rebuild_isEmpty (c : ConnMap) (n w : String) (f : Conn → Conn) :
    (connsOf (rebuild c n f) w).isEmpty = (connsOf c w).isEmpty := by
  rw [connsOf_rebuild]
  by_cases hw : w = n
  · subst hw; simp
  · simp [hw]

/-- Maps of the connection lists that act on different fields commute. -/
theorem rebuild_comm (c : ConnMap) (n m : String) (f g : Conn → Conn) (h : ∀ x, f (g x) = g (f x)) :
    rebuild (rebuild c n f) m g = rebuild (rebuild c m g) n f := by
  unfold rebuild modify
  rw [List.map_map, List.map_map]
  apply List.map_congr_left
  intro x _
  obtain ⟨k', v⟩ := x
  simp only [Function.comp]
  have hfg : List.map g (List.map f v) = List.map f (List.map g v) := by
    rw [List.map_map, List.map_map]; apply List.map_congr_left; intro y _; exact (h y).symm
  by_cases h1 : k' = n
  · by_cases h2 : k' = m
    · subst h1; subst h2; simp [hfg]
    · subst h1; simp [h2]
  · by_cases h2 : k' = m
    · subst h2; simp [h1]
    · simp [h1, h2]

theorem foldl_rebuild_comm {β : Type} (gs : List β) (key : β → String) (G : β → Conn → Conn) (c : ConnMap) (n : String)
    (f : Conn → Conn) (h : ∀ v x, f (G v x) = G v (f x)) :
    gs.foldl (fun cm v => rebuild cm (key v) (G v)) (rebuild c n f) =
      rebuild (gs.foldl (fun cm v => rebuild cm (key v) (G v)) c) n f := by
  induction gs generalizing c with
  | nil => rfl
  | cons x r ih =>
    simp only [List.foldl_cons]
    rw [rebuild_comm c n (key x) f (G x) (h x), ih]

theorem foldl_foldl_rebuild_comm {β : Type} (gs : List β) (key : β → String) (G : β → Conn → Conn) (ns : List String)
    (f : Conn → Conn) (c : ConnMap) (h : ∀ v x, f (G v x) = G v (f x)) :
    gs.foldl (fun cm v => rebuild cm (key v) (G v)) (ns.foldl (fun cm w => rebuild cm w f) c) =
      ns.foldl (fun cm w => rebuild cm w f) (gs.foldl (fun cm v => rebuild cm (key v) (G v)) c) := by
  induction ns generalizing c with
  | nil => rfl
  | cons w r ih =>
    simp only [List.foldl_cons]
    rw [ih (rebuild c w f), foldl_rebuild_comm gs key G c w f h]

theorem allShut_map (cs : List Conn) (f : Conn → Conn) (hf : ∀ x, (f x).state = x.state) : allShut (cs.map f) = allShut cs := by
  unfold allShut
  congr 1
  · simp
  · rw [List.all_map]
    apply List.all_congr rfl
    intro x; simp [Function.comp, hf x]

theorem allShut_foldl_rebuild (ns : List String) (f : Conn → Conn) (hf : ∀ x, (f x).state = x.state) (c : ConnMap) (w : String) :
    allShut (connsOf (ns.foldl (fun cm n => rebuild cm n f) c) w) = allShut (connsOf c w) := by
  induction ns generalizing c with
  | nil => rfl
  | cons n r ih =>
    simp only [List.foldl_cons]
    rw [ih, connsOf_rebuild]
    by_cases hw : w = n
    · subst hw; simp only [if_true]; exact allShut_map _ f hf
    · simp [hw]

/-- The deferred WPIMULT factors change no connection list from empty to non-empty or back. -/
theorem applyGlobal_isEmpty (c : ConnChan) (w : String) :
    (connsOf (applyGlobal c).m w).isEmpty = (connsOf c.m w).isEmpty := by
  unfold applyGlobal
  simp only []
  generalize c.g = g
  generalize c.m = cm
  induction g generalizing cm with
  | nil => rfl
  | cons x r ih =>
    simp only [List.foldl_cons]
    rw [ih, rebuild_isEmpty]

/-- `a` was reached from the snapshot of a report step that is already closed, `b` from the
same report step while it is still open: same properties; `a`'s connections are `b`'s with the
deferred WPIMULT factors applied; the well status agrees except possibly for wells all of whose
connections are shut (which `end_report` shuts anyway). -/
structure Rel (a b : State) : Prop where
  p : a.p = b.p
  cm : a.c.m = (applyGlobal b.c).m
  g : a.c.g = []
  st : ∀ w, statusOf a.st w = statusOf b.st w ∨ (w ∈ names a.p.wells ∧ allShut (connsOf a.c.m w) = true)

theorem Rel.emp_eq {a b : State} (h : Rel a b) : emp a.c = emp b.c := by
  funext w
  simp only [emp, h.cm, applyGlobal_isEmpty]

theorem closeBlock_p (s : State) : (closeBlock s).p = s.p := rfl
theorem closeBlock_c (s : State) : (closeBlock s).c = applyGlobal s.c := rfl
theorem applyGlobal_g (c : ConnChan) : (applyGlobal c).g = [] := rfl

theorem statusOf_closeBlock (s : State) (w : String) :
    statusOf (closeBlock s).st w =
      if w ∈ names s.p.wells ∧ allShut (connsOf (applyGlobal s.c).m w) = true then Status.shut else statusOf s.st w := by
  unfold closeBlock
  rw [statusOf_endReport]

/-- The stored snapshot of a closed report step versus the state just before closing it. -/
theorem Rel_of_sim_close {a s : State} (h : Sim a (closeBlock s)) : Rel a s := by
  refine ⟨h.p, by rw [h.c]; rfl, by rw [h.c]; rfl, fun w => ?_⟩
  rw [h.st w, statusOf_closeBlock, h.p, h.c, closeBlock_p, closeBlock_c]
  by_cases hc : w ∈ names s.p.wells ∧ allShut (connsOf (applyGlobal s.c).m w) = true
  · exact Or.inr hc
  · simp only [hc, if_false]; exact Or.inl trivial

/-- Records a body may contain: property-channel operations and COMPLUMP (which changes completion
numbers only).  Excluded is exactly the property's per-step exception: COMPDAT, WELOPEN on
connections (they open/shut connections) and WPIMULT. -/
def ROp.benign (r : ROp) : Bool := !r.isConn || r.isLump

theorem lump_comm (i j k1 k2 n : Nat) (v : String × Val) (x : Conn) :
    (fun x : Conn => if (matchCoord i x.i && matchCoord j x.j && (k1 = 0 || x.k + 1 ≥ k1) && (k2 = 0 || x.k + 1 ≤ k2)) = true
        then { x with complnum := n } else x) ((fun x : Conn => { x with pimult := vmul x.pimult v.2 }) x) =
    (fun x : Conn => { x with pimult := vmul x.pimult v.2 })
      ((fun x : Conn => if (matchCoord i x.i && matchCoord j x.j && (k1 = 0 || x.k + 1 ≥ k1) && (k2 = 0 || x.k + 1 ≤ k2)) = true
        then { x with complnum := n } else x) x) := by
  simp only []
  split <;> rfl

theorem Rel_stepR (k : Consts) (m : List String) (a b : State) (r : ROp) (hnc : r.benign = true) (h : Rel a b) :
    ExRel Rel (stepR k m a r) (stepR k m b r) := by
  by_cases hc : r.isConn = true
  · have hl : r.isLump = true := by simpa [ROp.benign, hc] using hnc
    cases r with
    | complump pat i j k1 k2 n =>
      unfold stepR
      simp only [ROp.isConn, if_true, stepC]
      rw [h.p]
      cases hn : wellNamesLst (names b.p.wells) b.p.wlists m pat with
      | error e => exact rfl
      | ok ns =>
        simp only []
        by_cases he : n = 0 ∧ (!ns.isEmpty) = true
        · simp only [he, and_self, if_true]; exact rfl
        · simp only [he, if_false]
          refine ⟨rfl, ?_, h.g, fun w => ?_⟩
          · show List.foldl _ a.c.m ns = (applyGlobal { b.c with m := List.foldl _ b.c.m ns }).m
            unfold applyGlobal
            simp only []
            rw [foldl_foldl_rebuild_comm b.c.g Prod.fst (fun v x => { x with pimult := vmul x.pimult v.2 }) ns _ b.c.m
              (fun v x => lump_comm i j k1 k2 n v x)]
            rw [h.cm]; rfl
          · rcases h.st w with he' | ⟨hn', hs⟩
            · exact Or.inl he'
            · refine Or.inr ⟨by rw [← h.p]; exact hn', ?_⟩
              show allShut (connsOf (List.foldl _ a.c.m ns) w) = true
              rw [allShut_foldl_rebuild ns _ (by intro x; split <;> rfl)]
              exact hs
    | _ => simp [ROp.isLump] at hl
  · have hnc' : r.isConn = false := by simpa using hc
    unfold stepR
    simp only [hnc', Bool.false_eq_true, if_false]
    rw [h.emp_eq, h.p]
    cases hP : stepP k m (emp b.c) b.p r with
    | error e => exact rfl
    | ok v =>
      obtain ⟨p', ws⟩ := v
      refine ⟨rfl, h.cm, h.g, fun w => ?_⟩
      simp only []
      rcases h.st w with he | ⟨hn, hs⟩
      · exact Or.inl (statusOf_applyWrites_congr _ _ _ _ he)
      · refine Or.inr ⟨stepP_names k m _ b.p r p' ws hP w ?_, hs⟩
        rw [← h.p]; exact hn

/-- A body keyword without records that open or shut connections and without WPIMULT. -/
def noConnKw : CKw → Bool
  | .ops _ rs => rs.all ROp.benign
  | _ => true

theorem Rel_runOps (k : Consts) (m : List String) (rs : List ROp) (hnc : rs.all ROp.benign = true) (a b : State)
    (h : Rel a b) : ExRel Rel (runOps k m a rs) (runOps k m b rs) := by
  induction rs generalizing a b with
  | nil => exact h
  | cons r rs ih =>
    simp only [List.all_cons, Bool.and_eq_true] at hnc
    simp only [runOps]
    have := Rel_stepR k m a b r hnc.1 h
    cases ha : stepR k m a r with
    | error e =>
      cases hb : stepR k m b r with
      | error e' => rw [ha, hb] at this; exact this
      | ok b' => rw [ha, hb] at this; exact this.elim
    | ok a' =>
      cases hb : stepR k m b r with
      | error e' => rw [ha, hb] at this; exact this.elim
      | ok b' => rw [ha, hb] at this; exact ih hnc.2 a' b' this

theorem Rel_handle (k : Consts) (m : List String) (kw : CKw) (hnc : noConnKw kw = true) (a b : State) (h : Rel a b) :
    ExRel Rel (handle k m a kw) (handle k m b kw) := by
  cases kw with
  | ops n rs => exact Rel_runOps k m rs hnc a b h
  | actionx x => exact h
  | endactio => exact h
  | compord c => exact h
  | msw o =>
    simp only [handle]
    rw [h.p]
    cases segStep b.p o with
    | error e => exact rfl
    | ok sm => exact ⟨rfl, h.cm, h.g, fun w => by have := h.st w; rw [h.p] at this; exact this⟩

theorem Rel_runBody (k : Consts) (body : List CKw) (hnc : body.all noConnKw = true) (a b : State) (h : Rel a b) :
    ExRel Rel (runBody k a body) (runBody k b body) := by
  induction body generalizing a b with
  | nil => exact h
  | cons kw r ih =>
    simp only [List.all_cons, Bool.and_eq_true] at hnc
    simp only [runBody]
    have := Rel_handle k [] kw hnc.1 a b h
    cases ha : handle k [] a kw with
    | error e =>
      cases hb : handle k [] b kw with
      | error e' => rw [ha, hb] at this; exact this
      | ok b' => rw [ha, hb] at this; exact this.elim
    | ok a' =>
      cases hb : handle k [] b kw with
      | error e' => rw [ha, hb] at this; exact this.elim
      | ok b' => rw [ha, hb] at this; exact ih hnc.2 a' b' this

/-- Closing both: `end_report` shuts exactly the wells on which the two states could differ. -/
theorem Rel_close {a b : State} (h : Rel a b) : Sim (closeBlock a) (closeBlock b) := by
  have hca : applyGlobal a.c = a.c := by
    have hg := h.g
    cases hc : a.c with
    | mk m g =>
      rw [hc] at hg
      simp only [] at hg
      subst hg
      rfl
  have hc : (closeBlock a).c = (closeBlock b).c := by
    rw [closeBlock_c, closeBlock_c, hca]
    cases hac : a.c with
    | mk m g =>
      have h1 := h.cm; have h2 := h.g
      rw [hac] at h1 h2
      simp only [] at h1 h2
      subst h2
      show ({ m := m, g := [] } : ConnChan) = applyGlobal b.c
      rw [h1]; rfl
  refine ⟨h.p, hc, fun w => ?_⟩
  rw [statusOf_closeBlock, statusOf_closeBlock, hca, ← h.cm, ← h.p]
  by_cases hw : w ∈ names a.p.wells ∧ allShut (connsOf a.c.m w) = true
  · simp only [hw, and_self, if_true]
  · simp only [hw, if_false]
    rcases h.st w with he | hx
    · exact he
    · exact (hw hx).elim

/-! ### one application equals inlining -/

theorem setPat_benign (w : String) (r : ROp) : (r.setPat w).benign = r.benign := by
  cases r <;> rfl

theorem substOp_noConn (ws : List String) (r : ROp) (h : r.benign = true) : ∀ x ∈ substOp ws r, x.benign = true := by
  intro x hx
  unfold substOp at hx
  split at hx
  · simp only [List.mem_map] at hx
    obtain ⟨w, _, hw⟩ := hx
    rw [← hw, setPat_benign]; exact h
  · simp only [List.mem_singleton] at hx; rw [hx]; exact h

theorem substBody_noConn (ws : List String) (body : List CKw) (h : body.all noConnKw = true) :
    (substBody ws body).all noConnKw = true := by
  induction body with
  | nil => rfl
  | cons kw r ih =>
    simp only [List.all_cons, Bool.and_eq_true] at h
    simp only [substBody, List.map_cons, List.all_cons, Bool.and_eq_true]
    refine ⟨?_, ih h.2⟩
    cases kw with
    | ops n rs =>
      simp only [substKw, noConnKw, List.all_eq_true, List.mem_flatMap] at h ⊢
      rintro x ⟨r0, hr0, hx⟩
      exact substOp_noConn ws r0 (h.1 r0 hr0) x hx
    | actionx a => rfl
    | endactio => rfl
    | compord c => rfl
    | msw o => rfl

/-- What the two variants of the apply-equals-inline argument need from the body: its handlers
succeed on the stored (closed) snapshot only if they succeed on the state before closing, and
closing the two results gives `Sim` states. -/
def BodyTransfer (k : Consts) (sn s1 : State) (body' : List CKw) : Prop :=
  ∀ t', runBody k sn body' = .ok t' → ∃ t, runBody k s1 body' = .ok t ∧ Sim (closeBlock t') (closeBlock t)

/-- Core of apply = inline, for any body whose handlers transfer (`BodyTransfer`): the apply side
may hold a snapshot `sn` at step n that is only `Sim` to the closed state of block n, snapshots
before n that are arbitrary (`saA`), and stored blocks that agree with the inlined deck after n
only. -/
theorem applyAction_sim_inline_core (k : Consts) (a : List (List CKw)) (blk : List CKw) (c : List (List CKw))
    (bsA : List (List CKw)) (sa saA : List State) (s1 sn : State) (tail0 : List State)
    (body : List CKw) (W : List String) (bs' : List (List CKw)) (ss' : List State)
    (ha : runFrom k (init k) a = .ok sa)
    (h1 : runKws k none (beginBlock (sa.getLastD (init k)) blk) blk = .ok s1)
    (hlen : saA.length = a.length)
    (hsn : Sim sn (closeBlock s1))
    (hdrop : bsA.drop (a.length + 1) = c)
    (hp : body.all plainKw = true)
    (hbody : BodyTransfer k sn s1 (substBody (sortW (names s1.p.wells) W) body))
    (happ : applyAction k bsA (saA ++ sn :: tail0) a.length body W = .ok (bs', ss')) :
    ∃ sn' tail x tail2, ss' = saA ++ sn' :: tail ∧
      run k (a ++ (blk ++ substBody (sortW (names s1.p.wells) W) body) :: c) = .ok (sa ++ x :: tail2) ∧
      Sim sn' x ∧ All2 Sim tail tail2 := by
  unfold applyAction at happ
  have hidx : (saA ++ sn :: tail0)[a.length]? = some sn := by rw [← hlen]; simp
  rw [hidx] at happ; simp only [] at happ
  cases hA : applyAtState k sn body W with
  | error e => rw [hA] at happ; cases happ
  | ok sn' =>
    rw [hA] at happ; simp only [] at happ
    rw [hdrop] at happ
    cases hT : runFrom k sn' c with
    | error e => rw [hT] at happ; cases happ
    | ok tail =>
      rw [hT] at happ
      simp only [Except.ok.injEq, Prod.mk.injEq] at happ
      obtain ⟨_, hss⟩ := happ
      have htake : (saA ++ sn :: tail0).take a.length = saA := by rw [← hlen]; simp
      rw [htake] at hss
      -- the handlers on the stored snapshot
      have hord : names sn.p.wells = names s1.p.wells := by rw [hsn.p, closeBlock_p]
      unfold applyAtState at hA
      simp only [hord] at hA
      split at hA
      · cases hA
      · cases hb : runBody k sn (substBody (sortW (names s1.p.wells) W) body) with
        | error e => rw [hb] at hA; cases hA
        | ok t' =>
          rw [hb] at hA
          simp only [Except.ok.injEq] at hA
          obtain ⟨t, ht, hrt⟩ := hbody t' hb
          have hsim : Sim sn' (closeBlock t) := by
            have h0 : Sim sn' (closeBlock t') := by rw [← hA]; exact ⟨rfl, rfl, fun _ => rfl⟩
            exact h0.trans hrt
          obtain ⟨tail2, hT2, hall⟩ := (runFrom_sim k c sn' (closeBlock t) hsim).ok_left hT
          refine ⟨sn', tail, closeBlock t, tail2, hss.symm, ?_, hsim, hall⟩
          unfold run
          rw [runFrom_append ha]
          have hk : runKws k none (beginBlock (sa.getLastD (init k)) (blk ++ substBody (sortW (names s1.p.wells) W) body))
              (blk ++ substBody (sortW (names s1.p.wells) W) body) = .ok t := by
            rw [beginBlock_append_plain _ blk _ (substBody_plain _ body hp),
              runKws_append k blk _ none _ s1 h1, runKws_plain k s1 _ (substBody_plain _ body hp), ht]
          simp only [runFrom, stepBlock, hk, hT2]

/-- Bodies without connection keywords transfer: the commutation invariant `Rel`. -/
theorem bodyTransfer_noConn (k : Consts) (sn s1 : State) (body' : List CKw) (hsn : Sim sn (closeBlock s1))
    (hnc : body'.all noConnKw = true) : BodyTransfer k sn s1 body' := by
  intro t' hb
  obtain ⟨t, ht, hrt⟩ := (Rel_runBody k body' hnc sn s1 (Rel_of_sim_close hsn)).ok_left hb
  exact ⟨t, ht, Rel_close hrt⟩

/-- General form (used for sequences): the apply side may hold a snapshot `sn` at step n that
is only `Sim` to the closed state of block n, snapshots before n that are arbitrary (`saA`), and
stored blocks that agree with the inlined deck after n only. -/
theorem applyAction_sim_inline (k : Consts) (a : List (List CKw)) (blk : List CKw) (c : List (List CKw))
    (bsA : List (List CKw)) (sa saA : List State) (s1 sn : State) (tail0 : List State)
    (body : List CKw) (W : List String) (bs' : List (List CKw)) (ss' : List State)
    (ha : runFrom k (init k) a = .ok sa)
    (h1 : runKws k none (beginBlock (sa.getLastD (init k)) blk) blk = .ok s1)
    (hlen : saA.length = a.length)
    (hsn : Sim sn (closeBlock s1))
    (hdrop : bsA.drop (a.length + 1) = c)
    (hp : body.all plainKw = true) (hnc : body.all noConnKw = true)
    (happ : applyAction k bsA (saA ++ sn :: tail0) a.length body W = .ok (bs', ss')) :
    ∃ sn' tail x tail2, ss' = saA ++ sn' :: tail ∧
      run k (a ++ (blk ++ substBody (sortW (names s1.p.wells) W) body) :: c) = .ok (sa ++ x :: tail2) ∧
      Sim sn' x ∧ All2 Sim tail tail2 :=
  applyAction_sim_inline_core k a blk c bsA sa saA s1 sn tail0 body W bs' ss' ha h1 hlen hsn hdrop hp
    (bodyTransfer_noConn k sn s1 _ hsn (substBody_noConn _ body hnc)) happ


/-- State-level core of `apply_eq_inline`: re-running the body's handlers on the *closed*
snapshot of block n and closing it again gives — up to the marker — the state that block n
with the substituted body appended produces. -/
theorem applyAtState_sim_inline (k : Consts) (s0 s1 sn : State) (blk body : List CKw) (W : List String) (sn' : State)
    (h1 : runKws k none s0 blk = .ok s1) (hsn : Sim sn (closeBlock s1))
    (hp : body.all plainKw = true) (hnc : body.all noConnKw = true)
    (hA : applyAtState k sn body W = .ok sn') :
    ∃ t, runKws k none s0 (blk ++ substBody (sortW (names s1.p.wells) W) body) = .ok t ∧ Sim sn' (closeBlock t) := by
  have hord : names sn.p.wells = names s1.p.wells := by rw [hsn.p, closeBlock_p]
  unfold applyAtState at hA
  simp only [hord] at hA
  split at hA
  · cases hA
  · cases hb : runBody k sn (substBody (sortW (names s1.p.wells) W) body) with
    | error e => rw [hb] at hA; cases hA
    | ok t' =>
      rw [hb] at hA
      simp only [Except.ok.injEq] at hA
      have hrel := Rel_runBody k (substBody (sortW (names s1.p.wells) W) body)
        (substBody_noConn (sortW (names s1.p.wells) W) body hnc) sn s1 (Rel_of_sim_close hsn)
      obtain ⟨t, ht, hrt⟩ := hrel.ok_left hb
      refine ⟨t, ?_, ?_⟩
      · rw [runKws_append k blk _ none _ s1 h1, runKws_plain k s1 _ (substBody_plain _ body hp), ht]
      · have h0 : Sim sn' (closeBlock t') := by rw [← hA]; exact ⟨rfl, rfl, fun _ => rfl⟩
        exact h0.trans (Rel_close hrt)

/-- The commutation itself: handlers of non-connection keywords run on an already closed report
step, followed by closing it again, equal the same handlers run before closing. -/
theorem close_commutes (k : Consts) (s t' : State) (body : List CKw) (hnc : body.all noConnKw = true)
    (h : runBody k (closeBlock s) body = .ok t') :
    ∃ t, runBody k s body = .ok t ∧ Sim (closeBlock t') (closeBlock t) := by
  have hrel := Rel_runBody k body hnc (closeBlock s) s (Rel_of_sim_close (Sim.refl _))
  obtain ⟨t, ht, hrt⟩ := hrel.ok_left h
  exact ⟨t, ht, Rel_close hrt⟩

/-! ### sequences of applications -/

theorem getElem?_split {α : Type} (l : List α) (n : Nat) (x : α) (h : l[n]? = some x) :
    l = l.take n ++ x :: l.drop (n + 1) := by
  induction l generalizing n with
  | nil => simp at h
  | cons y r ih =>
    cases n with
    | zero => simp at h; subst h; simp
    | succ n =>
      simp at h
      have := ih n h
      simp only [List.take_succ_cons, List.drop_succ_cons, List.cons_append]
      rw [← this]

theorem drop_modify_succ {α : Type} (l : List α) (n : Nat) (f : α → α) : (l.modify n f).drop (n + 1) = l.drop (n + 1) := by
  induction l generalizing n with
  | nil => simp
  | cons y r ih =>
    cases n with
    | zero => simp
    | succ n => simp [ih]

theorem drop_of_drop_eq {α : Type} (l l' : List α) (d n : Nat) (h : l.drop d = l'.drop d) (hd : d ≤ n) : l.drop n = l'.drop n := by
  have e : ∀ m : List α, m.drop n = (m.drop d).drop (n - d) := by
    intro m; rw [List.drop_drop]; congr 1; omega
  rw [e l, e l', h]

/-- Steps are non-decreasing (each at least `lo`). -/
def nonDecr : Nat → List App → Bool
  | _, [] => true
  | lo, (n, _, _) :: r => decide (lo ≤ n) && nonDecr n r

/-- Every applied body — looked up where `inlineList` looks it up, in the run of the deck inlined
so far — is a plain keyword list without connection keywords. -/
def bodiesOK (k : Consts) : List (List CKw) → List App → Bool
  | _, [] => true
  | bs, (n, a, W) :: r =>
    match run k bs with
    | .error _ => true
    | .ok ss =>
      match ss[n]? with
      | none => true
      | some sn =>
        match lookup sn.p.actions a with
        | none => true
        | some body => body.all plainKw && body.all noConnKw &&
            bodiesOK k (inlineAt bs n (substBody (sortW (names sn.p.wells) W) body)) r

/-- Decomposition of an accepted run at block n. -/
theorem run_decompose (k : Consts) (a : List (List CKw)) (blk : List CKw) (c : List (List CKw)) (ss : List State)
    (h : run k (a ++ blk :: c) = .ok ss) :
    ∃ sa s1 tl, runFrom k (init k) a = .ok sa ∧ runKws k none (beginBlock (sa.getLastD (init k)) blk) blk = .ok s1 ∧
      ss = sa ++ closeBlock s1 :: tl ∧ sa.length = a.length := by
  unfold run at h
  have ha := runFrom_prefix h
  have hl : (ss.take a.length).length = a.length := runFrom_length ha
  rw [runFrom_append ha] at h
  cases hb : runFrom k ((ss.take a.length).getLastD (init k)) (blk :: c) with
  | error e => rw [hb] at h; cases h
  | ok sb =>
    rw [hb] at h
    simp only [Except.ok.injEq] at h
    simp only [runFrom] at hb
    cases h1 : stepBlock k ((ss.take a.length).getLastD (init k)) blk with
    | error e => rw [h1] at hb; cases hb
    | ok s' =>
      rw [h1] at hb; simp only [] at hb
      cases h2 : runFrom k s' c with
      | error e => rw [h2] at hb; cases hb
      | ok tl =>
        rw [h2] at hb; simp only [Except.ok.injEq] at hb
        unfold stepBlock at h1
        cases h3 : runKws k none (beginBlock ((ss.take a.length).getLastD (init k)) blk) blk with
        | error e => rw [h3] at h1; cases h1
        | ok s1 =>
          rw [h3] at h1; simp only [Except.ok.injEq] at h1
          refine ⟨ss.take a.length, s1, tl, ha, h3, ?_, hl⟩
          rw [h1, hb]; exact h.symm

theorem applyList_sim_inline (k : Consts) (apps : List App) :
    ∀ (lo d : Nat) (bsA bsI : List (List CKw)) (ssA ssI : List State) (bs' : List (List CKw)) (ss' : List State),
      run k bsI = .ok ssI → All2 Sim ssA ssI → bsA.length = bsI.length → bsA.drop d = bsI.drop d → d ≤ lo + 1 →
      nonDecr lo apps = true → bodiesOK k bsI apps = true → applyList k bsA ssA apps = .ok (bs', ss') →
      ∃ bsI' ssI', inlineList k bsI apps = .ok bsI' ∧ run k bsI' = .ok ssI' ∧ All2 Sim ss' ssI' := by
  induction apps with
  | nil =>
    intro lo d bsA bsI ssA ssI bs' ss' hrun hsim _ _ _ _ _ happ
    simp only [applyList, Except.ok.injEq, Prod.mk.injEq] at happ
    exact ⟨bsI, ssI, rfl, hrun, by rw [← happ.2]; exact hsim⟩
  | cons app r ih =>
    intro lo d bsA bsI ssA ssI bs' ss' hrun hsim hlenB hdrop hd hnd hok happ
    obtain ⟨n, an, W⟩ := app
    simp only [nonDecr, Bool.and_eq_true, decide_eq_true_eq] at hnd
    simp only [applyList] at happ
    cases hnA : ssA[n]? with
    | none => rw [hnA] at happ; cases happ
    | some snA =>
      rw [hnA] at happ; simp only [] at happ
      cases hbA : lookup snA.p.actions an with
      | none => rw [hbA] at happ; cases happ
      | some body =>
        rw [hbA] at happ; simp only [] at happ
        cases hA : applyAction k bsA ssA n body W with
        | error e => rw [hA] at happ; cases happ
        | ok v =>
          obtain ⟨bs1, ss1⟩ := v
          rw [hA] at happ; simp only [] at happ
          obtain ⟨snI, hnI, hsn⟩ := hsim.get n snA hnA
          have hbI : lookup snI.p.actions an = some body := by rw [← hsn.p]; exact hbA
          -- the hypotheses on the body
          simp only [bodiesOK, hrun, hnI, hbI, Bool.and_eq_true] at hok
          obtain ⟨⟨hp, hnc⟩, hok'⟩ := hok
          -- shape of the inlined deck around block n
          have hlenI : ssI.length = bsI.length := runFrom_length hrun
          have hn : n < bsI.length := by
            rcases Nat.lt_or_ge n ssI.length with hl | hl
            · omega
            · rw [List.getElem?_eq_none hl] at hnI; cases hnI
          have hbsI : bsI = bsI.take n ++ bsI[n] :: bsI.drop (n + 1) :=
            getElem?_split bsI n bsI[n] (List.getElem?_eq_getElem hn)
          have hla : (bsI.take n).length = n := by rw [List.length_take]; omega
          rw [hbsI] at hrun
          obtain ⟨sa, s1, tl, ha, h1, hssI, hsal⟩ := run_decompose k _ _ _ _ hrun
          have hsal' : sa.length = n := by rw [hsal, hla]
          have hsnI : snI = closeBlock s1 := by
            rw [hssI] at hnI
            rw [← hsal'] at hnI
            simp at hnI
            exact hnI.symm
          have hssA : ssA = ssA.take n ++ snA :: ssA.drop (n + 1) := getElem?_split ssA n snA hnA
          have hlA : (ssA.take n).length = (bsI.take n).length := by
            rw [hla, List.length_take]
            have := hsim.length_eq
            have : n < ssA.length := by
              rcases Nat.lt_or_ge n ssA.length with hl | hl
              · exact hl
              · rw [List.getElem?_eq_none hl] at hnA; cases hnA
            omega
          have hdrop' : bsA.drop ((bsI.take n).length + 1) = bsI.drop (n + 1) := by
            rw [hla]; exact drop_of_drop_eq bsA bsI d (n + 1) hdrop (by omega)
          have hA' : applyAction k bsA (ssA.take n ++ snA :: ssA.drop (n + 1)) (bsI.take n).length body W = .ok (bs1, ss1) := by
            rw [← hssA, hla]; exact hA
          obtain ⟨sn', tail, x, tail2, hss1, hrunI', hsx, htl⟩ :=
            applyAction_sim_inline k (bsI.take n) bsI[n] (bsI.drop (n + 1)) bsA sa (ssA.take n) s1 snA (ssA.drop (n + 1))
              body W bs1 ss1 ha h1 hlA (by rw [← hsnI]; exact hsn) hdrop' hp hnc hA'
          -- the inlined deck after this application
          have hwn : names snI.p.wells = names s1.p.wells := by rw [hsnI, closeBlock_p]
          have hinl : inlineAt bsI n (substBody (sortW (names snI.p.wells) W) body) =
              bsI.take n ++ (bsI[n] ++ substBody (sortW (names s1.p.wells) W) body) :: bsI.drop (n + 1) := by
            rw [hwn]
            conv => lhs; rw [hbsI]
            unfold inlineAt appendAt
            have := modify_at_length (bsI.take n) bsI[n] (bsI.drop (n + 1)) (· ++ substBody (sortW (names s1.p.wells) W) body)
            rw [hla] at this
            exact this
          -- W names existing wells (else applyAction would have failed)
          have hW : (!(W.all fun w => (names snI.p.wells).contains w)) = false := by
            unfold applyAction at hA
            rw [hnA] at hA; simp only [] at hA
            cases hAS : applyAtState k snA body W with
            | error e => rw [hAS] at hA; cases hA
            | ok q =>
              unfold applyAtState at hAS
              simp only [] at hAS
              split at hAS
              · cases hAS
              · rename_i hc
                rw [← hsn.p]
                simpa using hc
          have hbl : bs1 = appendAt bsA n body := applyAction_blocks k bsA ssA n body W bs1 ss1 hA
          have hsim1 : All2 Sim ss1 (sa ++ x :: tail2) := by
            rw [hss1]
            refine All2.append ?_ (All2.cons hsx htl)
            have := hsim.take n
            rw [hssI] at this
            have e : (sa ++ closeBlock s1 :: tl).take n = sa := by rw [← hsal']; simp
            rw [e] at this
            exact this
          have hlen1 : bs1.length = (inlineAt bsI n (substBody (sortW (names snI.p.wells) W) body)).length := by
            rw [hbl]; simp [appendAt, inlineAt, hlenB]
          have hdrop1 : bs1.drop (n + 1) = (inlineAt bsI n (substBody (sortW (names snI.p.wells) W) body)).drop (n + 1) := by
            rw [hbl]; unfold inlineAt appendAt
            rw [drop_modify_succ, drop_modify_succ]
            exact drop_of_drop_eq bsA bsI d (n + 1) hdrop (by omega)
          have hrun1 : run k (inlineAt bsI n (substBody (sortW (names snI.p.wells) W) body)) = .ok (sa ++ x :: tail2) := by
            rw [hinl]; exact hrunI'
          obtain ⟨bsF, ssF, hiF, hrF, hsF⟩ := ih n (n + 1) bs1 _ ss1 _ bs' ss' hrun1 hsim1 hlen1 hdrop1 (Nat.le_refl _) hnd.2 hok' happ
          refine ⟨bsF, ssF, ?_, hrF, hsF⟩
          have hrun0 : run k bsI = .ok ssI := by rw [hbsI]; exact hrun
          simp only [inlineList, hrun0, hnI, hbI, hW]
          exact hiF

/-- `apply_sequence`: applying actions one after another (non-decreasing steps, bodies without
connection keywords) equals inlining all bodies in that order. -/
theorem applySeq_sim_inline (k : Consts) (bs : List (List CKw)) (apps : List App) (bs' : List (List CKw)) (ss' : List State)
    (hnd : nonDecr 0 apps = true) (hok : bodiesOK k bs apps = true) (h : applySeq k bs apps = .ok (bs', ss')) :
    ∃ bsI ssI, inlineSeq k bs apps = .ok bsI ∧ run k bsI = .ok ssI ∧ All2 Sim ss' ssI := by
  unfold applySeq at h
  cases hr : run k bs with
  | error e => rw [hr] at h; cases h
  | ok ss =>
    rw [hr] at h; simp only [] at h
    exact applyList_sim_inline k apps 0 0 bs bs ss ss bs' ss' hr (All2.refl Sim.refl ss) rfl rfl (Nat.zero_le _) hnd hok h

/-! ### the marker channel: set by `applyAction` only -/

theorem handle_mark_eq (k : Consts) (u u' : State) (kw : CKw) (hh : handle k [] u kw = .ok u') : u'.mark = u.mark := by
  have := handle_mark k [] u.mark u kw
  have hu : setMark u.mark u = u := rfl
  rw [hu, hh] at this
  simp only [Except.map, Except.ok.injEq] at this
  have := congrArg State.mark this
  simpa [setMark] using this

theorem runKws_mark_eq (k : Consts) (kws : List CKw) (acc : Option (String × List CKw)) (u v : State)
    (h : runKws k acc u kws = .ok v) : v.mark = u.mark := by
  induction kws generalizing acc u with
  | nil =>
    cases acc with
    | none => simp only [runKws, Except.ok.injEq] at h; subst h; rfl
    | some x => simp [runKws] at h
  | cons kw r ih =>
    cases acc with
    | none =>
      cases kw with
      | actionx n => simp only [runKws] at h; exact ih _ _ h
      | ops n rs =>
        simp only [runKws] at h
        cases hh : handle k [] u (.ops n rs) with
        | error e => rw [hh] at h; cases h
        | ok u' => rw [hh] at h; simp only [] at h; rw [ih _ _ h, handle_mark_eq k u u' _ hh]
      | endactio =>
        simp only [runKws, handle] at h
        exact ih _ _ h
      | compord c =>
        simp only [runKws, handle] at h
        exact ih _ _ h
      | msw o =>
        simp only [runKws] at h
        cases hh : handle k [] u (.msw o) with
        | error e => rw [hh] at h; cases h
        | ok u' => rw [hh] at h; simp only [] at h; rw [ih _ _ h, handle_mark_eq k u u' _ hh]
    | some x =>
      obtain ⟨n, ac⟩ := x
      cases kw with
      | endactio => simp only [runKws] at h; rw [ih _ _ h]; rfl
      | ops n' rs => simp only [runKws] at h; exact ih _ _ h
      | actionx n' => simp only [runKws] at h; exact ih _ _ h
      | compord c => simp only [runKws] at h; cases h
      | msw o => simp only [runKws] at h; exact ih _ _ h

theorem stepBlock_mark (k : Consts) (s s' : State) (b : List CKw) (h : stepBlock k s b = .ok s') : s'.mark = [] := by
  unfold stepBlock at h
  cases hk : runKws k none (beginBlock s b) b with
  | error e => rw [hk] at h; cases h
  | ok t =>
    rw [hk] at h; simp only [Except.ok.injEq] at h
    rw [← h]
    show t.mark = []
    rw [runKws_mark_eq k b none _ _ hk]; rfl

/-- Every snapshot produced by the schedule iteration has an empty marker. -/
theorem runFrom_marks (k : Consts) (bs : List (List CKw)) (s : State) (ss : List State) (h : runFrom k s bs = .ok ss) :
    ∀ x ∈ ss, x.mark = [] := by
  induction bs generalizing s ss with
  | nil => simp only [runFrom, Except.ok.injEq] at h; subst h; simp
  | cons b r ih =>
    simp only [runFrom] at h
    cases h1 : stepBlock k s b with
    | error e => rw [h1] at h; cases h
    | ok s1 =>
      rw [h1] at h; simp only [] at h
      cases h2 : runFrom k s1 r with
      | error e => rw [h2] at h; cases h
      | ok t =>
        rw [h2] at h; simp only [Except.ok.injEq] at h; subst h
        intro x hx
        simp only [List.mem_cons] at hx
        rcases hx with hx | hx
        · rw [hx]; exact stepBlock_mark k s s1 b h1
        · exact ih s1 t h2 x hx

end OpmVerif.Sched
