/-
  Fourth round: number tokens.  A non-empty string of decimal digits (any length) is classified as a
  number by `Parser::get_type`, and the value the parser stores for it is the correctly rounded binary64
  of the natural number it spells (`Strtod.ofDec`, rounding proved in `Proofs/Strtod.lean`).
-/
import OpmVerif.Proofs.ActionSim
import OpmVerif.Proofs.Strtod

namespace OpmVerif.Act
open OpmVerif

theorem lowerC_digit (c : Char) (h : isDig c = true) : lowerC c = c := by
  unfold lowerC
  simp only [isDig, decide_eq_true_eq] at h
  have h2 : ¬ ('A' ≤ c ∧ c ≤ 'Z') := by
    intro hh
    have a := h.2
    have b := hh.1
    simp only [Char.le_def] at a b
    exact absurd (Nat.le_trans b a) (by decide)
  rw [if_neg h2]

def Digits (ds : List Char) : Prop := ∀ c ∈ ds, isDig c = true

theorem lowerL_digits : ∀ ds : List Char, Digits ds → lowerL ds = ds
  | [], _ => rfl
  | c :: r, h => by
    have ih := lowerL_digits r (fun d hd => h d (List.mem_cons_of_mem _ hd))
    simp only [lowerL, List.map_cons] at ih ⊢
    rw [ih, lowerC_digit c (h c List.mem_cons_self)]

theorem spanLen_digits : ∀ ds : List Char, Digits ds → spanLen isDig ds = ds.length
  | [], _ => rfl
  | c :: r, h => by
    simp only [spanLen, h c List.mem_cons_self, if_true, List.length_cons,
      spanLen_digits r (fun d hd => h d (List.mem_cons_of_mem _ hd))]

theorem ofList_beq_false (c : Char) (r : List Char) (s : String) (x : Char) (hx : s.toList.head? = some x)
    (hne : x ≠ c) : (String.ofList (c :: r) == s) = false := by
  rw [beq_eq_false_iff_ne]
  intro e
  rw [← e] at hx
  simp at hx
  exact hne hx.symm

/-- no operator spelling starts with a digit -/
theorem opLookup_digit (c : Char) (r : List Char) (h : isDig c = true) :
    opTable.lookup (String.ofList (c :: r)) = none := by
  have key : ∀ x : Char, isDig x = false → x ≠ c := by
    intro x hx e; rw [e, h] at hx; exact absurd hx (by decide)
  have f := fun (s : String) (x : Char) (hx : s.toList.head? = some x) (hd : isDig x = false) =>
    ofList_beq_false c r s x hx (key x hd)
  simp only [opTable, List.lookup,
    f "and" 'a' (by decide) (by decide), f "or" 'o' (by decide) (by decide),
    f "(" '(' (by decide) (by decide), f ")" ')' (by decide) (by decide),
    f ">" '>' (by decide) (by decide), f ".gt." '.' (by decide) (by decide),
    f ">=" '>' (by decide) (by decide), f ".ge." '.' (by decide) (by decide),
    f "<" '<' (by decide) (by decide), f ".lt." '.' (by decide) (by decide),
    f "<=" '<' (by decide) (by decide), f ".le." '.' (by decide) (by decide),
    f "=" '=' (by decide) (by decide), f ".eq." '.' (by decide) (by decide),
    f "!=" '!' (by decide) (by decide), f ".ne." '.' (by decide) (by decide)]


theorem digit_facts (c : Char) (h : isDig c = true) :
    isSpaceC c = false ∧ c ≠ '+' ∧ c ≠ '-' ∧ c ≠ 'i' ∧ c ≠ 'n' ∧ c ≠ 'x' ∧ c ≠ '.' := by
  have key : ∀ x : Char, isDig x = false → c ≠ x := by
    intro x hx e; rw [← e, h] at hx; exact absurd hx (by decide)
  refine ⟨?_, key _ (by decide), key _ (by decide), key _ (by decide), key _ (by decide), key _ (by decide),
    key _ (by decide)⟩
  have := key ' ' (by decide); have := key '\t' (by decide); have := key '\n' (by decide)
  have := key '\x0b' (by decide); have := key '\x0c' (by decide); have := key '\r' (by decide)
  simp [isSpaceC, *]

/-- `strtod` consumes a non-empty digit string completely -/
theorem strtodLen_digits (c : Char) (r : List Char) (h : Digits (c :: r)) :
    strtodLen (c :: r) = (c :: r).length := by
  have hc := h c List.mem_cons_self
  obtain ⟨hsp, hp, hm, hi, hn, _, _⟩ := digit_facts c hc
  have hr : Digits r := fun d hd => h d (List.mem_cons_of_mem _ hd)
  have hb : bodyLen (c :: r) = (c :: r).length := by
    unfold bodyLen
    have e1 : startsWith "infinity".toList (c :: r) = false := by
      simp [startsWith, List.isPrefixOf, Ne.symm hi]
    have e2 : startsWith "inf".toList (c :: r) = false := by
      simp [startsWith, List.isPrefixOf, Ne.symm hi]
    have e3 : startsWith "nan".toList (c :: r) = false := by
      simp [startsWith, List.isPrefixOf, Ne.symm hn]
    have e4 : startsWith "0x".toList (c :: r) = false := by
      cases r with
      | nil => simp [startsWith, List.isPrefixOf]
      | cons d t =>
        have hd := (digit_facts d (hr d List.mem_cons_self)).2.2.2.2.2.1
        simp [startsWith, List.isPrefixOf, Ne.symm hd]
    simp only [e1, e2, e3, e4, Bool.false_eq_true, if_false]
    have hm : mantLen isDig (c :: r) = (c :: r).length := by
      unfold mantLen
      rw [spanLen_digits _ h]
      simp only [List.drop_length]
    rw [hm, List.drop_length]
    simp [expLen]
  unfold strtodLen
  rw [spanLen_zero hsp]
  simp only [List.drop_zero]
  split
  · rename_i heq; simp only [List.cons.injEq] at heq; exact absurd heq.1 hp
  · rename_i heq; simp only [List.cons.injEq] at heq; exact absurd heq.1 hm
  · simp [hb]

/-- **non-negative integer literals** (any number of digits): the token is a number -/
theorem classify_digits (ds : List Char) (hne : ds ≠ []) (h : Digits ds) : classify ds = .number := by
  cases ds with
  | nil => exact absurd rfl hne
  | cons c r =>
    unfold classify classifyLower
    rw [lowerL_digits _ h, opLookup_digit c r (h c List.mem_cons_self), strtodLen_digits c r h]
    simp


theorem strtod_isDig_eq (c : Char) : Strtod.isDig c = isDig c := by
  simp [Strtod.isDig, isDig, Bool.decide_and]

theorem strtod_isSp_eq (c : Char) : Strtod.isSp c = isSpaceC c := by
  simp only [Strtod.isSp, isSpaceC]
  cases decide (c = ' ') <;> cases decide (c = '\n') <;> cases decide (c = '\t') <;> rfl

theorem takeWhile_digits : ∀ ds : List Char, Digits ds → ds.takeWhile Strtod.isDig = ds
  | [], _ => rfl
  | c :: r, h => by
    rw [List.takeWhile_cons, strtod_isDig_eq, h c List.mem_cons_self]
    simp only [if_true]
    rw [takeWhile_digits r (fun d hd => h d (List.mem_cons_of_mem _ hd))]

theorem dropWhile_digits : ∀ ds : List Char, Digits ds → ds.dropWhile Strtod.isDig = []
  | [], _ => rfl
  | c :: r, h => by
    rw [List.dropWhile_cons, strtod_isDig_eq, h c List.mem_cons_self]
    simp only [if_true]
    exact dropWhile_digits r (fun d hd => h d (List.mem_cons_of_mem _ hd))

/-- the decimal reading of a non-empty digit string: the natural number it spells, exponent 0 -/
theorem parseDec_digits (c : Char) (r : List Char) (h : Digits (c :: r)) :
    Strtod.parseDec (c :: r) =
      .num false (Strtod.dval (c :: r)) 0 (((c :: r).dropWhile (· = '0')).length) := by
  have hc := h c List.mem_cons_self
  obtain ⟨hsp, hp, hm, _, _, _, _⟩ := digit_facts c hc
  have h1 : (c :: r).dropWhile Strtod.isSp = c :: r := by
    rw [List.dropWhile_cons, strtod_isSp_eq, hsp]; simp
  have h2 : Strtod.afterSign (c :: r) = c :: r := by
    simp [Strtod.afterSign, hp, hm]
  have h3 : Strtod.signOf (c :: r) = false := by
    simp [Strtod.signOf, hm]
  unfold Strtod.parseDec
  simp only [h1, h2, h3, takeWhile_digits _ h, dropWhile_digits _ h, Strtod.fracPart, Strtod.afterFrac,
    Strtod.expOf, List.append_nil, List.length_nil]
  simp

theorem ofDec_supported (neg : Bool) (m : Nat) (e : Int) (nd : Nat) :
    Strtod.ofDec neg m e nd ≠ .unsupported := by
  unfold Strtod.ofDec
  simp only []
  repeat' split
  all_goals simp

/-- … and its value: the correctly rounded binary64 of that natural number (`Strtod.ofDec`, whose
rounding is `roundCore_correct` / `roundCore_tie_even`), `+inf` beyond the range -/
theorem numBits_digits (ds : List Char) (hne : ds ≠ []) (h : Digits ds) :
    numBits ds = resBits (Strtod.ofDec false (Strtod.dval ds) 0 ((ds.dropWhile (· = '0')).length)) := by
  cases ds with
  | nil => exact absurd rfl hne
  | cons c r =>
    unfold numBits Strtod.strtod
    rw [parseDec_digits c r h]
    simp only []
    have hs := ofDec_supported false (Strtod.dval (c :: r)) 0 ((c :: r).dropWhile (· = '0')).length
    generalize Strtod.ofDec false (Strtod.dval (c :: r)) 0 ((c :: r).dropWhile (· = '0')).length = res at hs
    cases res with
    | unsupported => exact absurd rfl hs
    | _ => rfl

end OpmVerif.Act
