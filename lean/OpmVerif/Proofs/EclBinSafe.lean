/-
  Totality / safety of the unformatted reader on arbitrary bytes (C20, EclFile part).
-/
import OpmVerif.Proofs.EclBinExt
namespace OpmVerif.Ecl
open ArrType

/-- Types whose size arithmetic has no zero divisor. -/
def SafeTy (t : ArrType) : Prop := t = mess ∨ (1 ≤ elemSize t ∧ 1 ≤ maxNum t)

theorem safeTy_c0nn {n : Nat} (h : 1 ≤ n) : SafeTy (c0nn n) := by
  right
  refine ⟨h, ?_⟩
  simp only [maxNum, maxBlock, elemSize, Gen.EclIO.MaxBlockSizeChar, Gen.EclIO.sizeOfChar]
  have h1 : 840 / 8 * n = 105 * n := by omega
  have : 105 * n / n = 105 := Nat.mul_div_cancel 105 (by omega)
  rw [h1, this]; omega

/-- Whatever type tag the header carries, an accepted tag never yields element size 0
(or a zero `maxNumberOfElements`): no division by zero downstream (finding F3). -/
theorem parseTag_safe {tg : Bytes} {t : ArrType} (h : parseTag tg = .ok t) : SafeTy t := by
  unfold parseTag at h
  split at h
  · cases h; right; decide
  · split at h
    · cases h; right; decide
    · split at h
      · cases h; right; decide
      · split at h
        · cases h; right; decide
        · split at h
          · rename_i c r
            split at h
            · split at h
              · rename_i v hv
                split at h
                · cases h
                · rename_i hpos
                  cases h
                  exact safeTy_c0nn (by omega)
              · cases h
            · split at h
              · cases h; right; decide
              · split at h
                · cases h; left; rfl
                · cases h
          · cases h

theorem readBlocks_no_fuel (w mx : Nat) (hw : 1 ≤ w) (hmx : 1 ≤ mx) :
    ∀ (fuel : Nat) (rest : Int) (s : Bytes), rest.toNat < fuel ∨ rest ≤ 0 →
      readBlocks w mx fuel rest s ≠ .error .fuel := by
  intro fuel
  induction fuel with
  | zero =>
    intro rest s h
    unfold readBlocks
    have : ¬ rest > 0 := by omega
    simp [this]
  | succ fuel ih =>
    intro rest s h
    unfold readBlocks
    by_cases hr : rest > 0
    · simp only [hr, if_true]
      cases h1 : readN 4 s with
      | error e => simp only []; unfold readN at h1; split at h1 <;> simp at h1; rw [← h1]; simp
      | ok p =>
        obtain ⟨dh, s1⟩ := p
        simp only []
        split
        · simp
        · rename_i hc1
          cases h2 : readElems w (Int.tdiv (toI32 (rd32 dh)) (w : Int)).toNat s1 with
          | error e =>
            simp only []
            intro hcontra
            -- readElems only fails with eof
            have : ∀ k s e, readElems w k s = .error e → e = .eof := by
              intro k
              induction k with
              | zero => intro s e h; simp [readElems] at h
              | succ k ihk =>
                intro s e h
                unfold readElems at h
                cases hr1 : readN w s with
                | error e1 =>
                  rw [hr1] at h; simp only [Except.error.injEq] at h
                  unfold readN at hr1; split at hr1 <;> simp at hr1
                  rw [← h, ← hr1]
                | ok q =>
                  obtain ⟨a, s2⟩ := q
                  rw [hr1] at h; simp only [] at h
                  cases hr2 : readElems w k s2 with
                  | error e2 => rw [hr2] at h; simp only [Except.error.injEq] at h; rw [← h]; exact ihk s2 e2 hr2
                  | ok q2 => rw [hr2] at h; simp at h
            have := this _ _ _ h2
            simp only [Except.error.injEq] at hcontra
            rw [this] at hcontra; cases hcontra
          | ok q =>
            obtain ⟨es, s2⟩ := q
            simp only []
            split
            · simp
            · rename_i hc2
              cases h3 : readN 4 s2 with
              | error e => simp only []; unfold readN at h3; split at h3 <;> simp at h3; rw [← h3]; simp
              | ok q3 =>
                obtain ⟨dt, s3⟩ := q3
                simp only []
                split
                · simp
                · have hstep := ih (rest - Int.tdiv (toI32 (rd32 dh)) (w : Int)) s3 (by
                    -- progress: a block that is accepted carries at least one element unless rest is exhausted
                    by_cases hz : rest - Int.tdiv (toI32 (rd32 dh)) (w : Int) ≤ 0
                    · exact Or.inr hz
                    · left
                      have hnum0 : ¬ (Int.tdiv (toI32 (rd32 dh)) (w : Int) ≤ 0) := by
                        intro hle
                        apply hc2
                        left
                        constructor
                        · omega
                        · omega
                      omega)
                  cases h4 : readBlocks w mx fuel (rest - Int.tdiv (toI32 (rd32 dh)) (w : Int)) s3 with
                  | error e =>
                    simp only []
                    intro hcontra
                    simp only [Except.error.injEq] at hcontra
                    rw [hcontra] at h4
                    exact hstep h4
                  | ok q4 => simp
    · simp [hr]

theorem readRawHeader_err {s : Bytes} {e : Err} (h : readRawHeader s = .error e) : e ≠ .fuel := by
  unfold readRawHeader at h
  have rn : ∀ k s e, readN k s = .error e → e = .eof := by
    intro k s e h; unfold readN at h; split at h <;> simp at h; exact h.symm
  intro hf; subst hf
  split at h
  · rename_i e1 h1; simp only [Except.error.injEq] at h; subst h; cases rn _ _ _ h1
  · split at h
    · cases h
    · split at h
      · rename_i e1 h1; simp only [Except.error.injEq] at h; subst h; cases rn _ _ _ h1
      · split at h
        · rename_i e1 h1; simp only [Except.error.injEq] at h; subst h; cases rn _ _ _ h1
        · split at h
          · rename_i e1 h1; simp only [Except.error.injEq] at h; subst h; cases rn _ _ _ h1
          · split at h
            · rename_i e1 h1; simp only [Except.error.injEq] at h; subst h; cases rn _ _ _ h1
            · split at h
              · cases h
              · cases h

theorem parseTag_err {tg : Bytes} {e : Err} (h : parseTag tg = .error e) : e ≠ .fuel := by
  unfold parseTag at h
  intro hf; subst hf
  repeat' (split at h <;> try (first | cases h | skip))

theorem readHeader_err {s : Bytes} {e : Err} (h : readHeader s = .error e) : e ≠ .fuel := by
  unfold readHeader at h
  intro hf; subst hf
  cases h1 : readRawHeader s with
  | error e1 => rw [h1] at h; simp only [Except.error.injEq] at h; subst h; exact readRawHeader_err h1 rfl
  | ok p1 =>
    obtain ⟨⟨nm, cnt, tg⟩, s1⟩ := p1
    rw [h1] at h; simp only [] at h
    by_cases hx : tg = tagX231
    · simp only [hx, if_true] at h
      cases h2 : readRawHeader s1 with
      | error e2 => rw [h2] at h; simp only [Except.error.injEq] at h; subst h; exact readRawHeader_err h2 rfl
      | ok p2 =>
        obtain ⟨⟨nm2, cnt2, tg2⟩, s2⟩ := p2
        rw [h2] at h; simp only [] at h
        split at h
        · cases h
        · split at h
          · cases h
          · cases h3 : parseTag tg2 with
            | error e3 => rw [h3] at h; simp only [Except.error.injEq] at h; subst h; exact parseTag_err h3 rfl
            | ok ty => rw [h3] at h; cases h
    · simp only [hx, if_false] at h
      cases h3 : parseTag tg with
      | error e3 => rw [h3] at h; simp only [Except.error.injEq] at h; subst h; exact parseTag_err h3 rfl
      | ok ty => rw [h3] at h; cases h

theorem readHeader_safe {s : Bytes} {hd : Header} {r : Bytes} (h : readHeader s = .ok (hd, r)) :
    SafeTy hd.ty := by
  unfold readHeader at h
  cases h1 : readRawHeader s with
  | error e1 => rw [h1] at h; cases h
  | ok p1 =>
    obtain ⟨⟨nm, cnt, tg⟩, s1⟩ := p1
    rw [h1] at h; simp only [] at h
    by_cases hx : tg = tagX231
    · simp only [hx, if_true] at h
      cases h2 : readRawHeader s1 with
      | error e2 => rw [h2] at h; cases h
      | ok p2 =>
        obtain ⟨⟨nm2, cnt2, tg2⟩, s2⟩ := p2
        rw [h2] at h; simp only [] at h
        split at h
        · cases h
        · split at h
          · cases h
          · cases h3 : parseTag tg2 with
            | error e3 => rw [h3] at h; cases h
            | ok ty =>
              rw [h3] at h
              simp only [Except.ok.injEq, Prod.mk.injEq] at h
              rw [← h.1]; exact parseTag_safe h3
    · simp only [hx, if_false] at h
      cases h3 : parseTag tg with
      | error e3 => rw [h3] at h; cases h
      | ok ty =>
        rw [h3] at h
        simp only [Except.ok.injEq, Prod.mk.injEq] at h
        rw [← h.1]; exact parseTag_safe h3

/-- The indexing loop of `EclFile::load` terminates on every byte string (each accepted
header consumes at least 24 bytes), and every indexed array has a type with non-zero size
arithmetic. -/
theorem indexFile_total (file : Bytes) : ∀ (fuel pos : Nat), 1 ≤ fuel → file.length + 1 ≤ fuel + pos →
    (∃ idx, indexFile file fuel pos = .ok idx ∧ ∀ e ∈ idx, SafeTy e.hdr.ty) ∨
    (∃ err, indexFile file fuel pos = .error err ∧ err ≠ .fuel) := by
  intro fuel
  induction fuel with
  | zero => intro pos h; omega
  | succ fuel ih =>
    intro pos _ hf
    unfold indexFile
    simp only []
    by_cases hl : (file.drop pos).length < 4
    · left; exact ⟨[], by rw [if_pos hl], by intro e he; cases he⟩
    · rw [if_neg hl]
      have hpos : pos + 4 ≤ file.length := by simp only [List.length_drop] at hl; omega
      cases h1 : readHeader (file.drop pos) with
      | error e => right; exact ⟨e, rfl, readHeader_err h1⟩
      | ok p =>
        obtain ⟨hd, s'⟩ := p
        simp only []
        have hsafe := readHeader_safe h1
        cases hs : sizeOnDiskBinary hd.num hd.ty with
        | none => right; exact ⟨.messSize, rfl, by decide⟩
        | some skip =>
          simp only []
          -- the header took at least 24 bytes
          have hcons : s'.length + 24 ≤ (file.drop pos).length := by
            unfold readHeader at h1
            cases hr : readRawHeader (file.drop pos) with
            | error e => simp [hr] at h1
            | ok q =>
              obtain ⟨⟨nm, cnt, tg⟩, s1⟩ := q
              rw [hr] at h1; simp only [] at h1
              have l1 := readRawHeader_length hr
              by_cases hx : tg = tagX231
              · simp only [hx, if_true] at h1
                cases hr2 : readRawHeader s1 with
                | error e => simp [hr2] at h1
                | ok q2 =>
                  obtain ⟨⟨nm2, cnt2, tg2⟩, s2⟩ := q2
                  rw [hr2] at h1; simp only [] at h1
                  have l2 := readRawHeader_length hr2
                  split at h1
                  · cases h1
                  · split at h1
                    · cases h1
                    · split at h1
                      · cases h1
                      · simp only [Except.ok.injEq, Prod.mk.injEq] at h1
                        rw [← h1.2]; omega
              · simp only [hx, if_false] at h1
                split at h1
                · cases h1
                · simp only [Except.ok.injEq, Prod.mk.injEq] at h1
                  rw [← h1.2]; omega
          have hdl : (file.drop pos).length = file.length - pos := by simp
          have hnext : file.length + 1 ≤ fuel + (file.length - s'.length + if hd.num > 0 then skip else 0) := by
            split <;> omega
          have hfuel : 1 ≤ fuel := by omega
          rcases ih _ hfuel hnext with ⟨rest, hr, hsafeRest⟩ | ⟨err, hr, hne⟩
          · left
            refine ⟨{ hdr := hd, pos := file.length - s'.length } :: rest, by rw [hr], ?_⟩
            intro e he
            simp only [List.mem_cons] at he
            rcases he with rfl | he
            · exact hsafe
            · exact hsafeRest e he
          · right; exact ⟨err, by rw [hr], hne⟩

theorem readData_no_fuel {t : ArrType} (hs : SafeTy t) (size : Int) (s : Bytes) :
    readData t size s ≠ .error .fuel := by
  by_cases hm : t = mess
  · subst hm; simp [readData]
  · rw [readData_nonmess hm]
    rcases hs with h | ⟨hw, hmx⟩
    · exact absurd h hm
    · split
      · simp
      · exact readBlocks_no_fuel _ _ hw hmx _ _ _ (by omega)

theorem loadEntry_no_fuel (file : Bytes) (e : Entry) (hs : SafeTy e.hdr.ty) :
    loadEntry file e ≠ .error .fuel := by
  unfold loadEntry
  cases h : readData e.hdr.ty e.hdr.num (file.drop e.pos) with
  | error err =>
    simp only []
    intro hc; simp only [Except.error.injEq] at hc
    rw [hc] at h; exact readData_no_fuel hs _ _ h
  | ok p =>
    obtain ⟨es, r⟩ := p
    simp only []
    split <;> simp

theorem loadAll_no_fuel (file : Bytes) : ∀ (idx : List Entry), (∀ e ∈ idx, SafeTy e.hdr.ty) →
    loadAll file idx ≠ .error .fuel := by
  intro idx
  induction idx with
  | nil => intro _; simp [loadAll]
  | cons e es ih =>
    intro hs
    unfold loadAll
    cases h1 : loadEntry file e with
    | error err =>
      simp only []
      intro hc; simp only [Except.error.injEq] at hc
      rw [hc] at h1; exact loadEntry_no_fuel file e (hs e (by simp)) h1
    | ok a =>
      simp only []
      cases h2 : loadAll file es with
      | error err =>
        simp only []
        intro hc; simp only [Except.error.injEq] at hc
        rw [hc] at h2; exact ih (fun x hx => hs x (by simp [hx])) h2
      | ok as => simp

/-- Opening *any* byte string as an unformatted Eclipse file terminates with the arrays or
with one of the reader's own error conditions; the fuel of the model (= loop bound) is never
the reason, and no size computation divides by zero. -/
theorem decodeFile_total (file : Bytes) :
    (∃ as, decodeFile file = .ok as) ∨ (∃ err, decodeFile file = .error err ∧ err ≠ .fuel) := by
  unfold decodeFile
  rcases indexFile_total file (file.length + 1) 0 (by omega) (by omega) with ⟨idx, hi, hsafe⟩ | ⟨err, hi, hne⟩
  · rw [hi]; simp only []
    cases h : loadAll file idx with
    | ok as => left; exact ⟨as, rfl⟩
    | error err =>
      right; refine ⟨err, rfl, ?_⟩
      intro hc; rw [hc] at h; exact loadAll_no_fuel file idx hsafe h
  · rw [hi]; right; exact ⟨err, rfl, hne⟩

end OpmVerif.Ecl
