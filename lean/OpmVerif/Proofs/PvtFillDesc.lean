/-
  `fillTable` bookkeeping for records whose rows are handed over in *descending* order of y
  (PVTG: Rv from the saturated value downwards): after the first sample every further one takes
  the *prepend* branch of `appendSamplePoint`; the column ends up as the reversed row list.
  Node honouring of the wet-gas tables, extended branches included.
-/
import OpmVerif.Proofs.PvtFill

namespace OpmVerif.Pvt
open OpmVerif.Tab1D OpmVerif.Tab2D

set_option linter.unusedSectionVars false
set_option linter.unusedSimpArgs false

variable {K : Type} [Field K] [LinearOrder K] [IsStrictOrderedRing K]

theorem nth_append_right (a b : List K) (k : Nat) : nth (a ++ b) (a.length + k) = nth b k := by
  simp [nth, List.getD_eq_getElem?_getD, List.getElem?_append_right]

/-- In a strictly increasing list `front ++ y :: pre` with `pre` non-empty, `y` is below the first
element of `pre` and not above its last: the *prepend* branch is taken. -/
theorem strictInc_prepend_step (front : List K) (y : K) (pre : List K) (hne : pre ≠ [])
    (h : StrictInc (front ++ y :: pre)) :
    y < nth pre 0 ∧ ¬ (pre.isEmpty = true ∨ nth pre (pre.length - 1) < y) := by
  have hl : 0 < pre.length := List.length_pos_iff.mpr hne
  have e0 : nth (front ++ y :: pre) front.length = y := nth_append_cons front y pre
  have ek : ∀ k, nth (front ++ y :: pre) (front.length + (k + 1)) = nth pre k := by
    intro k
    rw [nth_append_right]
    simp [nth, List.getD_eq_getElem?_getD]
  have h1 := h front.length (front.length + (0 + 1)) (by omega) (by simp; omega)
  rw [e0, ek] at h1
  have h2 := h front.length (front.length + ((pre.length - 1) + 1)) (by omega) (by simp; omega)
  rw [e0, ek] at h2
  refine ⟨h1, ?_⟩
  intro hc
  rcases hc with hc | hc
  · exact hne (List.isEmpty_iff.mp hc)
  · exact absurd (lt_trans h2 hc) (lt_irrefl _)

/-- One `appendSamplePoint` on the last column, below its first sample (or into the empty column). -/
theorem appendSamplePoint_last_col_desc (fix : Bool) (t : Table K) (bY bV : List (List K)) (pY pV : List K)
    (y v : K) (hY : t.colY = bY ++ [pY]) (hV : t.colV = bV ++ [pV]) (hl : bV.length = bY.length)
    (hpv : pV = [] ↔ pY = [])
    (h : pY = [] ∨ (y < nth pY 0 ∧ ¬ (pY.isEmpty = true ∨ nth pY (pY.length - 1) < y))) :
    ∃ t', appendSamplePoint fix t bY.length y v = some t' ∧ t'.xPos = t.xPos ∧ t'.guide = t.guide ∧
      t'.colY = bY ++ [y :: pY] ∧ t'.colV = bV ++ [v :: pV] := by
  unfold appendSamplePoint
  have c1 : col t.colY bY.length = pY := by rw [hY]; exact col_snoc bY pY
  have c2 : col t.colV bY.length = pV := by rw [hV, ← hl]; exact col_snoc bV pV
  rw [c1, c2]
  rcases h with h | ⟨h1, h2⟩
  · have hv : pV = [] := hpv.mpr h
    subst h; subst hv
    have hc : (([] : List K).isEmpty = true ∨ nth ([] : List K) (([] : List K).length - 1) < y) := Or.inl rfl
    rw [if_pos hc]
    refine ⟨_, rfl, rfl, rfl, ?_, ?_⟩
    · show setAt t.colY bY.length ([] ++ [y]) = _
      rw [hY]; exact setAt_snoc bY [] _
    · show setAt t.colV bY.length ([] ++ [v]) = _
      rw [hV, ← hl]; exact setAt_snoc bV [] _
  · rw [if_neg h2, if_pos h1]
    refine ⟨_, rfl, rfl, rfl, ?_, ?_⟩
    · show setAt t.colY bY.length (y :: pY) = _
      rw [hY]; exact setAt_snoc bY pY _
    · show setAt t.colV bY.length (v :: pV) = _
      rw [hV, ← hl]; exact setAt_snoc bV pV _

/-- All rows of one record, handed over in descending order of y. -/
theorem appendAll_last_col_desc (fix : Bool) : ∀ (pts : List (K × K)) (t : Table K) (bY bV : List (List K))
    (pY pV : List K), t.colY = bY ++ [pY] → t.colV = bV ++ [pV] → bV.length = bY.length →
    (pV = [] ↔ pY = []) →
    StrictInc ((pts.map Prod.fst).reverse ++ pY) →
    ∃ t', appendAll fix t bY.length pts = some t' ∧ t'.xPos = t.xPos ∧ t'.guide = t.guide ∧
      t'.colY = bY ++ [(pts.map Prod.fst).reverse ++ pY] ∧ t'.colV = bV ++ [(pts.map Prod.snd).reverse ++ pV]
  | [], t, bY, bV, pY, pV, hY, hV, _, _, _ => ⟨t, rfl, rfl, rfl, by simpa using hY, by simpa using hV⟩
  | (y, v) :: r, t, bY, bV, pY, pV, hY, hV, hl, hpv, hs => by
    have hs' : StrictInc ((r.map Prod.fst).reverse ++ y :: pY) := by simpa using hs
    have hstep : pY = [] ∨ (y < nth pY 0 ∧ ¬ (pY.isEmpty = true ∨ nth pY (pY.length - 1) < y)) := by
      by_cases hne : pY = []
      · exact Or.inl hne
      · exact Or.inr (strictInc_prepend_step _ y pY hne hs')
    obtain ⟨t1, e1, x1, g1, y1, v1⟩ := appendSamplePoint_last_col_desc fix t bY bV pY pV y v hY hV hl hpv hstep
    obtain ⟨t2, e2, x2, g2, y2, v2⟩ := appendAll_last_col_desc fix r t1 bY bV (y :: pY) (v :: pV) y1 v1 hl
      (by simp) hs'
    refine ⟨t2, ?_, by rw [x2, x1], by rw [g2, g1], by simpa using y2, by simpa using v2⟩
    show (match appendSamplePoint fix t bY.length y v with
      | none => none
      | some t' => appendAll fix t' bY.length r) = some t2
    rw [e1]; exact e2

/-- **`fillTable` bookkeeping, descending rows** (PVTG): column `i+k` holds record `k`'s rows in
*reversed* order (ascending y), values likewise. -/
theorem fillTable_spec_desc (fix : Bool) (c : Consts K) (val : K × K × K → K) :
    ∀ (recs : List (Rec K)) (t : Table K), t.colV.length = t.colY.length →
    (∀ r ∈ recs, StrictInc (r.rows.map (fun row => row.1)).reverse) →
    ∃ t', fillTable fix c val t t.colY.length recs = some t' ∧ t'.guide = t.guide ∧
      t'.xPos = t.xPos ++ recs.map (fun r => r.key) ∧
      t'.colY = t.colY ++ recs.map (fun r => (r.rows.map (fun row => row.1)).reverse) ∧
      t'.colV = t.colV ++ recs.map (fun r => (r.rows.map val).reverse)
  | [], t, _, _ => ⟨t, rfl, rfl, by simp, by simp, by simp⟩
  | r :: rest, t, hl, hs => by
    have hr := hs r (by simp)
    obtain ⟨t1, e1, x1, g1, y1, v1⟩ := appendAll_last_col_desc fix (r.rows.map fun row => (row.1, val row))
      (appendXPos t r.key c.low) t.colY t.colV [] [] rfl rfl hl (by simp)
      (by simpa [List.map_map, Function.comp_def] using hr)
    have hl1 : t1.colV.length = t1.colY.length := by rw [y1, v1]; simp [hl]
    have hlen : t1.colY.length = t.colY.length + 1 := by rw [y1]; simp
    obtain ⟨t2, e2, g2, x2, y2, v2⟩ := fillTable_spec_desc fix c val rest t1 hl1
      (fun r' hr' => hs r' (List.mem_cons_of_mem _ hr'))
    refine ⟨t2, ?_, by rw [g2, g1]; rfl, ?_, ?_, ?_⟩
    · show (match appendAll fix (appendXPos t r.key c.low) t.colY.length
          (r.rows.map fun row => (row.1, val row)) with
        | none => none
        | some t' => fillTable fix c val t' (t.colY.length + 1) rest) = some t2
      rw [e1, ← hlen]; exact e2
    · rw [x2, x1]; simp [appendXPos]
    · rw [y2, y1]; simp [List.map_map, Function.comp_def]
    · rw [v2, v1]; simp [List.map_map, Function.comp_def]

/-- What `wetGas` puts into its `1/B` and `mu` tables. -/
theorem wetGas_tables (fix g : Bool) (c : Consts K) (recs : List (Rec K)) (L : Live K)
    (h : wetGas fix g c recs = some L) :
    ∃ ext, extendAll c recs = some ext ∧
      fillTable fix c (fun row => 1 / row.2.1) (emptyTable .rightExtreme) 0 ext = some L.invB ∧
      fillTable fix c (fun row => row.2.2) (emptyTable .rightExtreme) 0 ext = some L.muT := by
  unfold wetGas at h
  cases he : extendAll c recs with
  | none => rw [he] at h; simp at h
  | some ext =>
    rw [he] at h
    simp only [] at h
    cases h1 : fillTable fix c (fun row => 1 / row.2.1) (emptyTable .rightExtreme) 0 ext with
    | none => rw [h1] at h; simp at h
    | some invB =>
      cases h2 : fillTable fix c (fun row => row.2.2) (emptyTable .rightExtreme) 0 ext with
      | none => rw [h1, h2] at h; simp at h
      | some mu =>
        rw [h1, h2] at h
        simp only [] at h
        cases h3 : fillBMu fix c invB mu (emptyTable .rightExtreme) 0 mu.xPos.length with
        | none => rw [h3] at h; simp at h
        | some bm =>
          rw [h3] at h
          simp only [] at h
          have := Option.some.inj h
          subst this
          exact ⟨ext, rfl, h1, h2⟩

/-- **Node honouring of the wet-gas tables, extended branches included**: records after the
extension with strictly increasing keys (pg), every branch with ≥ 2 rows strictly *decreasing*
in Rv; at every row of every record `1/B(pg, Rv)` and the `mu` table return the row's numbers. -/
theorem wetGas_node_honour (fix g : Bool) (c : Consts K) (recs ext : List (Rec K)) (L : Live K)
    (h : wetGas fix g c recs = some L) (he : extendAll c recs = some ext)
    (hk : StrictInc (ext.map fun r => r.key)) (hn : 2 ≤ ext.length)
    (hrows : ∀ r ∈ ext, StrictInc (r.rows.map fun row => row.1).reverse ∧ 2 ≤ r.rows.length)
    (i : Nat) (r : Rec K) (hi : ext[i]? = some r) (j : Nat) (row : K × K × K) (hj : r.rows[j]? = some row) :
    L.invBAt r.key row.1 = 1 / row.2.1 ∧ Tab2D.eval L.muT r.key row.1 = row.2.2 := by
  obtain ⟨ext', he', hB, hM⟩ := wetGas_tables fix g c recs L h
  rw [he] at he'
  have : ext' = ext := (Option.some.inj he').symm
  subst this
  have hi' : i < ext'.length := by
    rcases Nat.lt_or_ge i ext'.length with h | h
    · exact h
    · rw [List.getElem?_eq_none h] at hi; simp at hi
  have hj' : j < r.rows.length := by
    rcases Nat.lt_or_ge j r.rows.length with h | h
    · exact h
    · rw [List.getElem?_eq_none h] at hj; simp at hj
  have hr := hrows r (List.mem_of_getElem? hi)
  have key : ∀ (val : K × K × K → K) (T : Table K),
      fillTable fix c val (emptyTable .rightExtreme) 0 ext' = some T →
      Tab2D.eval T r.key row.1 = val row := by
    intro val T hT
    obtain ⟨t', e, _, x, y, v⟩ := fillTable_spec_desc fix c val ext' (emptyTable .rightExtreme) rfl
      (fun r' hr' => (hrows r' hr').1)
    have e' : fillTable fix c val (emptyTable .rightExtreme) 0 ext' = some t' := e
    rw [hT] at e'
    have : T = t' := Option.some.inj e'
    subst this
    have hx : T.xPos = ext'.map fun r => r.key := by rw [x]; simp [emptyTable]
    have hy : T.colY = ext'.map fun r => (r.rows.map fun row => row.1).reverse := by rw [y]; simp [emptyTable]
    have hv : T.colV = ext'.map fun r => (r.rows.map val).reverse := by rw [v]; simp [emptyTable]
    have kx : nth T.xPos i = r.key := by
      rw [hx]; simp [nth, List.getD_eq_getElem?_getD, hi]
    have cy : col T.colY i = (r.rows.map fun row => row.1).reverse := by
      rw [hy]; simp [col, List.getD_eq_getElem?_getD, hi]
    have cv : col T.colV i = (r.rows.map val).reverse := by
      rw [hv]; simp [col, List.getD_eq_getElem?_getD, hi]
    -- row j of the record sits at position len-1-j of the column
    have ny : nth (col T.colY i) (r.rows.length - 1 - j) = row.1 := by
      rw [cy]; unfold nth
      have hidx : r.rows.length - 1 - (r.rows.length - 1 - j) = j := by omega
      rw [List.getD_eq_getElem?_getD, List.getElem?_reverse (by simp; omega)]
      simp only [List.length_map]
      rw [hidx]
      simp [hj]
    have nv : nth (col T.colV i) (r.rows.length - 1 - j) = val row := by
      rw [cv]; unfold nth
      have hidx : r.rows.length - 1 - (r.rows.length - 1 - j) = j := by omega
      rw [List.getD_eq_getElem?_getD, List.getElem?_reverse (by simp; omega)]
      simp only [List.length_map]
      rw [hidx]
      simp [hj]
    have := Tab2D.eval_node T (by rw [hx]; exact hk) (by rw [hx]; simpa using hn) i (by rw [hx]; simpa using hi')
      (by rw [cy]; exact hr.1) (by rw [cy]; simpa using hr.2) (r.rows.length - 1 - j) (by rw [cy]; simp; omega)
    rw [kx, ny, nv] at this
    exact this
  exact ⟨key _ _ hB, key _ _ hM⟩

end OpmVerif.Pvt
