/-
  The ESMRY reader's seek arithmetic lands on the header of `V<k>`: for every number of time
  steps, every number of vectors and every `k`.
-/
import OpmVerif.Proofs.EclBin
import OpmVerif.Proofs.Unrst
import OpmVerif.Model.ExtESmry

namespace OpmVerif.ExtESmry
open OpmVerif.Ecl

theorem validReal : ValidTy .real := by
  simp [ValidTy, elemSize, maxBlock, maxNum, Gen.EclIO.sizeOfReal, Gen.EclIO.MaxBlockSizeReal]

theorem validInte : ValidTy .inte := by
  simp [ValidTy, elemSize, maxBlock, maxNum, Gen.EclIO.sizeOfInte, Gen.EclIO.MaxBlockSizeInte]

/-- length of a REAL / INTE array on disk: 24-byte header record + `sizeOnDiskBinary`. -/
theorem arr_length (name : Bytes) (t : ArrType) (ht : t = .real ∨ t = .inte) (es : List Bytes)
    (hn : name.length = 8) (hes : ∀ e ∈ es, e.length = 4) :
    (encodeArr { name := name, ty := t, elems := es }).length = 24 + sizeOf es.length t := by
  have hm : t ≠ .mess := by rcases ht with rfl | rfl <;> simp
  have hv : ValidTy t := by rcases ht with rfl | rfl; exact validReal; exact validInte
  have hel : ∀ e ∈ es, e.length = elemSize t := by
    intro e he
    rcases ht with rfl | rfl <;> simpa [elemSize, Gen.EclIO.sizeOfReal, Gen.EclIO.sizeOfInte] using hes e he
  rw [encodeArr_eq, List.length_append, encodeHeader_length _ _ _ hn]
  simp only [hm, if_false]
  unfold sizeOf
  rw [sizeOnDisk_eq hm hv es hel]; rfl

/-- names of the vector arrays: any 8-character names (the position does not depend on them). -/
def vecArrsN (nm : Nat → Bytes) : Nat → List (List Bytes) → List Arr
  | _, [] => []
  | k, v :: vs => { name := nm k, ty := .real, elems := v } :: vecArrsN nm (k + 1) vs

theorem vecs_split (nm : Nat → Bytes) (hnm : ∀ k, (nm k).length = 8) (n : Nat) :
    ∀ (vs : List (List Bytes)) (k0 k : Nat), (∀ v ∈ vs, v.length = n ∧ ∀ e ∈ v, e.length = 4) →
      (hk : k < vs.length) →
      ∃ A B, encodeFile (vecArrsN nm k0 vs) =
          A ++ encodeArr { name := nm (k0 + k), ty := .real, elems := vs[k] } ++ B ∧
        A.length = k * (24 + sizeOf n .real) := by
  intro vs
  induction vs with
  | nil => intro k0 k _ hk; simp at hk
  | cons v vs ih =>
    intro k0 k hv hk
    cases k with
    | zero =>
      refine ⟨[], encodeFile (vecArrsN nm (k0 + 1) vs), ?_, by simp⟩
      simp [vecArrsN, Unrst.encodeFile_cons]
    | succ k =>
      obtain ⟨A, B, hAB, hlen⟩ := ih (k0 + 1) k (fun x hx => hv x (by simp [hx])) (by simpa using hk)
      have hidx : k0 + 1 + k = k0 + (k + 1) := by omega
      rw [hidx] at hAB
      refine ⟨encodeArr { name := nm k0, ty := .real, elems := v } ++ A, B, ?_, ?_⟩
      · simp only [vecArrsN, Unrst.encodeFile_cons, hAB, List.getElem_cons_succ, List.append_assoc]
      · rw [List.length_append, hlen, arr_length _ .real (Or.inl rfl) v (hnm k0) (hv v (by simp)).2,
          (hv v (by simp)).1, Nat.succ_mul]; omega

/-- **ESMRY**: the position `ExtESmry::load_esmry` computes for vector `k` is the first byte of
the header of `V<k>` — whatever precedes RSTEP in the file, for every number of time steps
(any number of 1000-element record blocks) and every number of vectors. -/
theorem vec_at_pos (nm : Nat → Bytes) (hnm : ∀ k, (nm k).length = 8) (pre : Bytes) (n : Nat)
    (rstep tstep : List Bytes) (vs : List (List Bytes))
    (hr : rstep.length = n ∧ ∀ e ∈ rstep, e.length = 4) (ht : tstep.length = n ∧ ∀ e ∈ tstep, e.length = 4)
    (hv : ∀ v ∈ vs, v.length = n ∧ ∀ e ∈ v, e.length = 4) (k : Nat) (hk : k < vs.length) :
    ∃ B, (pre ++ encodeFile ({ name := rstepName, ty := .inte, elems := rstep } ::
          { name := tstepName, ty := .inte, elems := tstep } :: vecArrsN nm 0 vs)).drop (vecPos pre.length n k) =
        encodeArr { name := nm k, ty := .real, elems := vs[k] } ++ B := by
  obtain ⟨A, B, hAB, hlen⟩ := vecs_split nm hnm n vs 0 k hv hk
  refine ⟨B, ?_⟩
  have h1 := arr_length rstepName .inte (Or.inr rfl) rstep (by decide) hr.2
  have h2 := arr_length tstepName .inte (Or.inr rfl) tstep (by decide) ht.2
  rw [hr.1] at h1; rw [ht.1] at h2
  simp only [Unrst.encodeFile_cons, hAB, Nat.zero_add]
  have hpos : vecPos pre.length n k =
      (pre ++ (encodeArr { name := rstepName, ty := .inte, elems := rstep } ++
        (encodeArr { name := tstepName, ty := .inte, elems := tstep } ++ A))).length := by
    simp only [List.length_append, h1, h2, hlen, vecPos, Gen.ExtESmrySeek.vecPos]
    rw [Nat.mul_add, Nat.mul_comm (sizeOf n .real) k]; omega
  rw [hpos]
  have hsplit : pre ++ (encodeArr { name := rstepName, ty := .inte, elems := rstep } ++
      (encodeArr { name := tstepName, ty := .inte, elems := tstep } ++
        (A ++ encodeArr { name := nm k, ty := .real, elems := vs[k] } ++ B))) =
      (pre ++ (encodeArr { name := rstepName, ty := .inte, elems := rstep } ++
        (encodeArr { name := tstepName, ty := .inte, elems := tstep } ++ A))) ++
      (encodeArr { name := nm k, ty := .real, elems := vs[k] } ++ B) := by simp
  rw [hsplit, List.drop_left]

end OpmVerif.ExtESmry
