/-
  Lemmas about the summary evaluator model (`Model/SumFuns.lean`) over an arbitrary linearly
  ordered field `K` (the driver runs the same definitions at `Float`).
  Property statements live in `Props/C09.lean`.
-/
import OpmVerif.Model.SumFuns
import OpmVerif.Proofs.SumFunsTable
import Mathlib.Tactic.Ring
import Mathlib.Tactic.Linarith
import Mathlib.Algebra.Order.Field.Basic
import Mathlib.Algebra.BigOperators.Group.List.Basic

set_option linter.unusedSectionVars false
set_option linter.unusedSimpArgs false
set_option linter.unusedVariables false

namespace OpmVerif.SumFuns.Proofs
open OpmVerif.SumFuns

variable {K : Type} [Field K] [LinearOrder K] [IsStrictOrderedRing K]

/-- The evaluator's arithmetic read in a linearly ordered field. -/
instance fieldScalar : Scalar K where
  zero := 0
  one := 1
  add := (· + ·)
  sub := (· - ·)
  mul := (· * ·)
  div := (· / ·)
  neg := Neg.neg
  pos := fun x => decide (0 < x)
  isZero := fun x => decide (x = 0)

@[simp] theorem s_zero : (Scalar.zero : K) = 0 := rfl
@[simp] theorem s_one : (Scalar.one : K) = 1 := rfl
@[simp] theorem s_add (a b : K) : Scalar.add a b = a + b := rfl
@[simp] theorem s_sub (a b : K) : Scalar.sub a b = a - b := rfl
@[simp] theorem s_mul (a b : K) : Scalar.mul a b = a * b := rfl
@[simp] theorem s_div (a b : K) : Scalar.div a b = a / b := rfl
@[simp] theorem s_neg (a : K) : Scalar.neg a = -a := rfl
@[simp] theorem s_pos (a : K) : Scalar.pos a = decide (0 < a) := rfl
@[simp] theorem s_isZero (a : K) : Scalar.isZero a = decide (a = 0) := rfl

/-! ## `rate<phase,injection>` -/

/-- present in the simulator results and not dynamically shut -/
def flowing (w : WellIn K) : Bool :=
  match w.dyn with
  | some d => !d.shut
  | none => false

/-- `q_w(p)`: the rate component of a flowing well (`Rates::get(p, 0.0)`), 0 for a well that
is absent or shut. -/
def q (p : Rt) (w : WellIn K) : K :=
  match w.dyn with
  | some d => if d.shut then 0 else lookupRate d.rates p
  | none => 0

/-- the sign rule: keep `x` when `(x > 0) == injection` -/
def keep (inj : Bool) (x : K) : K := if decide (0 < x) = inj then x else 0

/-- what one well adds to the sum of `rate<p,inj>` -/
def contrib (p : Rt) (inj : Bool) (efac : String → K) (w : WellIn K) : K :=
  keep inj (q p w * efac w.name)

theorem keep_zero (inj : Bool) : keep inj (0 : K) = 0 := by
  unfold keep; split <;> rfl

theorem rateLoop_eq (p : Rt) (inj : Bool) (efac : String → K) (ws : List (WellIn K)) (acc : K) :
    rateLoop p inj efac ws acc = acc + (ws.map (contrib p inj efac)).sum := by
  induction ws generalizing acc with
  | nil => simp [rateLoop]
  | cons w ws ih =>
    unfold rateLoop
    cases hd : w.dyn with
    | none =>
      simp only [List.map_cons, List.sum_cons]
      rw [ih]
      have : contrib p inj efac w = 0 := by simp [contrib, q, hd, keep_zero]
      rw [this]; ring
    | some d =>
      simp only [List.map_cons, List.sum_cons]
      by_cases hs : d.shut = true
      · simp only [hs, if_true]
        rw [ih]
        have : contrib p inj efac w = 0 := by simp [contrib, q, hd, hs, keep_zero]
        rw [this]; ring
      · have hs' : d.shut = false := by simpa using hs
        simp only [hs', Bool.false_eq_true, if_false]
        have hc : contrib p inj efac w = keep inj (lookupRate d.rates p * efac w.name) := by
          simp [contrib, q, hd, hs']
        by_cases hk : decide (0 < lookupRate d.rates p * efac w.name) = inj
        · have : contrib p inj efac w = lookupRate d.rates p * efac w.name := by
            rw [hc]; unfold keep; rw [if_pos hk]
          simp only [s_pos, s_mul, s_add, hk, if_true]
          rw [ih, this]; ring
        · have : contrib p inj efac w = 0 := by rw [hc]; unfold keep; rw [if_neg hk]
          simp only [s_pos, s_mul, s_add, hk, if_false]
          rw [ih, this]; ring

/-- `rate_sem`: the value of `rate<p,inj>` is the signed sum over the wells of the kept
`q·efac`, for any number of wells. -/
theorem evalRate_eq (p : Rt) (inj : Bool) (c : Ctx K) :
    evalRate p inj c =
      (if inj then 1 else -1) * (c.wells.map (contrib p inj c.efac)).sum := by
  unfold evalRate
  cases inj <;> simp [rateLoop_eq]

theorem contrib_not_flowing (p : Rt) (inj : Bool) (efac : String → K) (w : WellIn K)
    (h : flowing w = false) : contrib p inj efac w = 0 := by
  unfold contrib q
  unfold flowing at h
  cases hd : w.dyn with
  | none => simp [keep_zero]
  | some d =>
    rw [hd] at h
    have : d.shut = true := by simpa using h
    simp [this, keep_zero]

theorem sum_map_filter_flowing (f : WellIn K → K) (hf : ∀ w, flowing w = false → f w = 0)
    (ws : List (WellIn K)) :
    ((ws.filter flowing).map f).sum = (ws.map f).sum := by
  induction ws with
  | nil => rfl
  | cons w ws ih =>
    by_cases h : flowing w = true
    · simp [List.filter_cons, h, ih]
    · have h' : flowing w = false := by simpa using h
      simp [List.filter_cons, h', ih, hf w h']

/-- Shut and absent wells contribute nothing: removing them does not change any rate. -/
theorem evalRate_filter_flowing (p : Rt) (inj : Bool) (c : Ctx K) :
    evalRate p inj { c with wells := c.wells.filter flowing } = evalRate p inj c := by
  rw [evalRate_eq, evalRate_eq]
  simp only
  rw [sum_map_filter_flowing _ (fun w h => contrib_not_flowing p inj c.efac w h)]

/-- If no well flows every rate is zero. -/
theorem evalRate_all_shut (p : Rt) (inj : Bool) (c : Ctx K) (h : ∀ w ∈ c.wells, flowing w = false) :
    evalRate p inj c = 0 := by
  rw [evalRate_eq]
  have : (c.wells.map (contrib p inj c.efac)).sum = 0 := by
    have hz : ∀ l : List (WellIn K), (∀ w ∈ l, flowing w = false) → (l.map (contrib p inj c.efac)).sum = 0 := by
      intro l
      induction l with
      | nil => intro _; rfl
      | cons w l ih =>
        intro hl
        simp only [List.map_cons, List.sum_cons]
        rw [contrib_not_flowing p inj c.efac w (hl w (List.mem_cons_self ..)),
          ih (fun x hx => hl x (List.mem_cons_of_mem _ hx))]
        ring
    exact hz _ h
  rw [this]; ring

/-! ### the sign rule and positive factors -/

theorem keep_mul_of_nonneg (inj : Bool) (x e : K) (he : 0 ≤ e) : keep inj (x * e) = keep inj x * e := by
  rcases eq_or_lt_of_le he with h0 | hpos
  · subst h0; simp [keep_zero]
  · unfold keep
    have : (0 < x * e) ↔ (0 < x) := by
      constructor
      · intro h; exact (pos_iff_pos_of_mul_pos h).mpr hpos
      · intro h; exact mul_pos h hpos
    by_cases hx : 0 < x
    · have hxe : 0 < x * e := this.mpr hx
      simp only [hx, hxe, decide_true]
      split <;> ring
    · have hxe : ¬ 0 < x * e := fun h => hx (this.mp h)
      simp only [hx, hxe, decide_false]
      split <;> ring

/-- production part and injection part of a number: `keep true x = max x 0`,
`keep false x = min x 0`; together they are `x`. -/
theorem keep_split (x : K) : keep true x + keep false x = x := by
  unfold keep
  by_cases h : 0 < x <;> simp [h]

theorem keep_true_nonneg (x : K) : 0 ≤ keep true x := by
  unfold keep
  by_cases h : 0 < x <;> simp [h, le_of_lt]

theorem keep_false_nonpos (x : K) : keep false x ≤ 0 := by
  unfold keep
  by_cases h : 0 < x <;> simp [h, not_lt.mp]

/-- With non-negative efficiency factors the factor commutes with the sign rule:
`⟦rate p inj⟧ = ± Σ_w efac(w) · keep inj (q_w p)`. -/
theorem evalRate_factor (p : Rt) (inj : Bool) (c : Ctx K) (he : ∀ w ∈ c.wells, 0 ≤ c.efac w.name) :
    evalRate p inj c =
      (if inj then 1 else -1) * (c.wells.map (fun w => c.efac w.name * keep inj (q p w))).sum := by
  rw [evalRate_eq]
  congr 1
  have : ∀ l : List (WellIn K), (∀ w ∈ l, 0 ≤ c.efac w.name) →
      (l.map (contrib p inj c.efac)).sum = (l.map (fun w => c.efac w.name * keep inj (q p w))).sum := by
    intro l
    induction l with
    | nil => intro _; rfl
    | cons w l ih =>
      intro hl
      simp only [List.map_cons, List.sum_cons]
      rw [ih (fun x hx => hl x (List.mem_cons_of_mem _ hx))]
      unfold contrib
      rw [keep_mul_of_nonneg inj _ _ (hl w (List.mem_cons_self ..))]
      ring
  exact this _ he

theorem sum_map_add (f g : WellIn K → K) (l : List (WellIn K)) :
    (l.map (fun w => f w + g w)).sum = (l.map f).sum + (l.map g).sum := by
  induction l with
  | nil => simp
  | cons w l ih => simp only [List.map_cons, List.sum_cons, ih]; ring

theorem sum_map_nonneg (f : WellIn K → K) (l : List (WellIn K)) (h : ∀ w ∈ l, 0 ≤ f w) :
    0 ≤ (l.map f).sum := by
  induction l with
  | nil => simp
  | cons w l ih =>
    simp only [List.map_cons, List.sum_cons]
    exact add_nonneg (h w (List.mem_cons_self ..)) (ih (fun x hx => h x (List.mem_cons_of_mem _ hx)))

/-- Injection / production split by sign: injection rate minus production rate is the net
efficiency-weighted flow `Σ efac·q`. -/
theorem inj_minus_prod (p : Rt) (c : Ctx K) (he : ∀ w ∈ c.wells, 0 ≤ c.efac w.name) :
    evalRate p true c - evalRate p false c = (c.wells.map (fun w => c.efac w.name * q p w)).sum := by
  rw [evalRate_factor p true c he, evalRate_factor p false c he]
  simp only [if_true, Bool.false_eq_true, if_false]
  have : (c.wells.map (fun w => c.efac w.name * q p w)).sum =
      (c.wells.map (fun w => c.efac w.name * keep true (q p w) + c.efac w.name * keep false (q p w))).sum := by
    congr 1
    apply List.map_congr_left
    intro w _
    rw [← mul_add, keep_split]
  rw [this, sum_map_add]; ring

/-- Both the injection and the production rate are non-negative. -/
theorem evalRate_nonneg (p : Rt) (inj : Bool) (c : Ctx K) (he : ∀ w ∈ c.wells, 0 ≤ c.efac w.name) :
    0 ≤ evalRate p inj c := by
  rw [evalRate_factor p inj c he]
  cases inj
  · simp only [Bool.false_eq_true, if_false]
    have : (-1 : K) * (c.wells.map (fun w => c.efac w.name * keep false (q p w))).sum =
        (c.wells.map (fun w => c.efac w.name * (-keep false (q p w)))).sum := by
      have h2 : ∀ l : List (WellIn K), (-1 : K) * (l.map (fun w => c.efac w.name * keep false (q p w))).sum =
          (l.map (fun w => c.efac w.name * (-keep false (q p w)))).sum := by
        intro l
        induction l with
        | nil => simp
        | cons w l ih => simp only [List.map_cons, List.sum_cons, ← ih]; ring
      exact h2 _
    rw [this]
    apply sum_map_nonneg
    intro w hw
    exact mul_nonneg (he w hw) (by have := keep_false_nonpos (q p w); linarith)
  · simp only [if_true, one_mul]
    apply sum_map_nonneg
    intro w hw
    exact mul_nonneg (he w hw) (keep_true_nonneg _)


/-! ## history vectors -/

/-- what one well adds to `production_history<>` / `injection_history<>` -/
def hcontrib (obs : WellIn K → K) (efac : String → K) (w : WellIn K) : K :=
  if flowing w then obs w * efac w.name else 0

theorem histLoop_eq (obs : WellIn K → K) (efac : String → K) (ws : List (WellIn K)) (acc : K) :
    histLoop obs efac ws acc = acc + (ws.map (hcontrib obs efac)).sum := by
  induction ws generalizing acc with
  | nil => simp [histLoop]
  | cons w ws ih =>
    unfold histLoop
    simp only [List.map_cons, List.sum_cons]
    cases hd : w.dyn with
    | none =>
      simp only []
      rw [ih]
      have : hcontrib obs efac w = 0 := by simp [hcontrib, flowing, hd]
      rw [this]; ring
    | some d =>
      simp only []
      by_cases hs : d.shut = true
      · simp only [hs, if_true]
        rw [ih]
        have : hcontrib obs efac w = 0 := by simp [hcontrib, flowing, hd, hs]
        rw [this]; ring
      · have hs' : d.shut = false := by simpa using hs
        simp only [hs', Bool.false_eq_true, if_false]
        rw [ih]
        have : hcontrib obs efac w = obs w * efac w.name := by simp [hcontrib, flowing, hd, hs']
        rw [this]; simp only [s_add, s_mul]; ring

/-- History vectors echo the schedule's observed rates: the value is the efficiency-weighted
sum of the observed rates of the flowing wells (no sign rule). -/
theorem evalHist_eq (c : Ctx K) (ph : HPhase) :
    evalE c (.prodHist ph) = some ((c.wells.map (hcontrib (fun w => w.hprod ph) c.efac)).sum) ∧
    evalE c (.injHist ph) = some ((c.wells.map (hcontrib (fun w => w.hinj ph) c.efac)).sum) := by
  constructor <;> simp [evalE, histLoop_eq]

/-! ## combinators -/

theorem evalE_mul_duration (c : Ctx K) (r : E) (R : K) (h : evalE c r = some R) :
    evalE c (.mul r .duration) = some (R * c.dt) := by
  simp [evalE, h]

theorem evalE_sum (c : Ctx K) (a b : E) (x y : K) (ha : evalE c a = some x) (hb : evalE c b = some y) :
    evalE c (.sum a b) = some (x + y) := by
  simp [evalE, ha, hb]

theorem evalE_sub (c : Ctx K) (a b : E) (x y : K) (ha : evalE c a = some x) (hb : evalE c b = some y) :
    evalE c (.sub a b) = some (x - y) := by
  simp [evalE, ha, hb]

/-- `quantity::operator/`: zero when the denominator is zero, the quotient otherwise. -/
theorem evalE_div (c : Ctx K) (a b : E) (x y : K) (ha : evalE c a = some x) (hb : evalE c b = some y) :
    evalE c (.div a b) = some (if y = 0 then 0 else x / y) := by
  simp [evalE, ha, hb]

/-- Distributing `duration` over a difference does not change the value
(`WGPTF = sub (mul gas dt) (mul disgas dt)` versus `GGPTF = mul (sub gas disgas) dt`). -/
theorem evalE_distribute (c : Ctx K) (a b : E) :
    evalE c (.sub (.mul a .duration) (.mul b .duration)) = evalE c (.mul (.sub a b) .duration) := by
  cases ha : evalE c a <;> cases hb : evalE c b <;> simp [evalE, ha, hb]
  ring

/-! ## `EfficiencyFactor::setFactors`: the walk along `flow_group()` -/

/-- `chain` lists group names from a well's group upwards: each one's parent is the next one,
the last one has no parent (FIELD). -/
def IsChain (parent : String → Option String) : List String → Prop
  | [] => False
  | [g] => parent g = none
  | g :: h :: t => parent g = some h ∧ IsChain parent (h :: t)

/-- product of a list of factors -/
def prodL : List K → K
  | [] => 1
  | x :: xs => x * prodL xs

theorem prodL_append (a b : List K) : prodL (a ++ b) = prodL a * prodL b := by
  induction a with
  | nil => simp [prodL]
  | cons x xs ih => simp only [List.cons_append, prodL, ih]; ring

/-- `efac_sem`, the walk: for a chain of *any* depth the loop multiplies the group factors of
the chain members met before the stop group (all of them when there is no stop group or it is
not on the chain). -/
theorem walkUp_chain (parent : String → Option String) (gefac : String → K) (stop : Option String)
    (chain : List String) (g : String) (rest : List String) (hc : chain = g :: rest)
    (hch : IsChain parent chain) (fuel : Nat) (hf : chain.length ≤ fuel) (acc : K) :
    walkUp parent gefac stop fuel g acc =
      acc * prodL ((chain.takeWhile (fun x => decide (stop ≠ some x))).map gefac) := by
  induction rest generalizing g chain fuel acc with
  | nil =>
    subst hc
    cases fuel with
    | zero => simp at hf
    | succ n =>
      unfold walkUp
      by_cases hs : stop = some g
      · simp [hs, List.takeWhile, prodL]
      · have hp : parent g = none := hch
        simp [hs, hp, List.takeWhile, prodL]
  | cons h t ih =>
    subst hc
    cases fuel with
    | zero => simp at hf
    | succ n =>
      unfold walkUp
      by_cases hs : stop = some g
      · simp [hs, List.takeWhile, prodL]
      · obtain ⟨hp, hrest⟩ : parent g = some h ∧ IsChain parent (h :: t) := hch
        have hlen : (h :: t).length ≤ n := by simp at hf ⊢; omega
        have := ih (h :: t) h rfl hrest n hlen (acc * gefac g)
        simp only [hs, if_false, hp, s_mul]
        rw [this]
        have htw : (g :: h :: t).takeWhile (fun x => decide (stop ≠ some x)) =
            g :: (h :: t).takeWhile (fun x => decide (stop ≠ some x)) := by
          simp [List.takeWhile, hs]
        rw [htw]
        simp only [List.map_cons, prodL]
        ring

theorem takeWhile_all {α : Type} (p : α → Bool) (l : List α) (h : ∀ x ∈ l, p x = true) :
    l.takeWhile p = l := by
  induction l with
  | nil => rfl
  | cons a l ih =>
    simp only [List.takeWhile_cons]
    rw [if_pos (h a (List.mem_cons_self ..)), ih (fun x hx => h x (List.mem_cons_of_mem _ hx))]

theorem takeWhile_stop {α : Type} (p : α → Bool) (l : List α) (b : α) (r : List α)
    (h : ∀ x ∈ l, p x = true) (hb : p b = false) : (l ++ b :: r).takeWhile p = l := by
  induction l with
  | nil => simp only [List.nil_append, List.takeWhile_cons, hb]; rfl
  | cons a l ih =>
    simp only [List.cons_append, List.takeWhile_cons]
    rw [if_pos (h a (List.mem_cons_self ..)), ih (fun x hx => h x (List.mem_cons_of_mem _ hx))]

/-- no stop group (totals, field and region nodes): the whole chain. -/
theorem walkUp_all (parent : String → Option String) (gefac : String → K)
    (g : String) (rest : List String) (hch : IsChain parent (g :: rest)) (fuel : Nat)
    (hf : (g :: rest).length ≤ fuel) (acc : K) :
    walkUp parent gefac none fuel g acc = acc * prodL ((g :: rest).map gefac) := by
  rw [walkUp_chain parent gefac none (g :: rest) g rest rfl hch fuel hf acc]
  congr 2
  rw [takeWhile_all _ _ (fun x _ => by simp)]

/-- group *rates*: only the groups strictly below the node's own group. -/
theorem walkUp_below (parent : String → Option String) (gefac : String → K) (node : String)
    (below above : List String) (hn : node ∉ below) (g : String) (rest : List String)
    (hsplit : g :: rest = below ++ node :: above)
    (hch : IsChain parent (g :: rest)) (fuel : Nat) (hf : (g :: rest).length ≤ fuel) (acc : K) :
    walkUp parent gefac (some node) fuel g acc = acc * prodL (below.map gefac) := by
  rw [walkUp_chain parent gefac (some node) (g :: rest) g rest rfl hch fuel hf acc, hsplit]
  congr 2
  rw [takeWhile_stop _ below node above
    (fun x hx => by
      have : node ≠ x := fun h => hn (h ▸ hx)
      simp [this])
    (by simp)]

/-! ## accumulation -/

/-- Evaluate one key over a history of steps, storing through `SummaryState::update*`. -/
def accumulate (key : String) (f : K) (e : E) : List (Ctx K) → K → Option K
  | [], t => some t
  | c :: cs, t =>
    match evalE c e with
    | none => none
    | some v => accumulate key f e cs (stateUpdate key t (fromSi f v))

/-- One step of a total key: previous value plus (deck-unit factor ×) rate × step length. -/
theorem cumulative_one (key : String) (htot : stateIsTotal key = true) (f : K) (r : E) (c : Ctx K)
    (R prev : K) (hR : evalE c r = some R) :
    (evalE c (.mul r .duration)).map (fun v => stateUpdate key prev (fromSi f v)) =
      some (prev + f * (R * c.dt)) := by
  simp [evalE, hR, stateUpdate, htot, fromSi]

/-- `cumulative_step` for any number of steps: a total key whose entry is `mul r duration`
equals its initial value plus the sum over the steps of factor × rate × step length. -/
theorem cumulative_steps (key : String) (htot : stateIsTotal key = true) (f : K) (r : E)
    (cs : List (Ctx K)) (t0 : K) (hr : ∀ c ∈ cs, (evalE c r).isSome) :
    accumulate key f (.mul r .duration) cs t0 =
      some (t0 + (cs.map (fun c => f * (((evalE c r).getD 0) * c.dt))).sum) := by
  induction cs generalizing t0 with
  | nil => simp [accumulate]
  | cons c cs ih =>
    have hc := hr c (List.mem_cons_self ..)
    obtain ⟨R, hR⟩ := Option.isSome_iff_exists.mp hc
    unfold accumulate
    rw [evalE_mul_duration c r R hR]
    simp only []
    rw [ih _ (fun x hx => hr x (List.mem_cons_of_mem _ hx))]
    simp only [List.map_cons, List.sum_cons, hR, Option.getD_some, stateUpdate, htot, if_true, fromSi,
      s_add, s_mul]
    congr 1; ring

/-- A key that is not a total is simply the last value. -/
theorem non_total_last (key : String) (hnt : stateIsTotal key = false) (f : K) (e : E)
    (cs : List (Ctx K)) (c : Ctx K) (t0 : K) (hr : ∀ x ∈ cs ++ [c], (evalE x e).isSome) :
    accumulate key f e (cs ++ [c]) t0 = (evalE c e).map (fun v => f * v) := by
  induction cs generalizing t0 with
  | nil =>
    obtain ⟨v, hv⟩ := Option.isSome_iff_exists.mp (hr c (by simp))
    simp [accumulate, hv, stateUpdate, hnt, fromSi]
  | cons x cs ih =>
    obtain ⟨v, hv⟩ := Option.isSome_iff_exists.mp (hr x (by simp))
    simp only [List.cons_append, accumulate, hv]
    exact ih _ (fun y hy => hr y (by simp at hy ⊢; right; exact hy))


/-! ## group hierarchy

A group's content as a first-child / next-sibling forest: items are wells or sub-groups (with
their own content), to any depth. -/

inductive Forest (K : Type)
  | nil
  | well (w : WellIn K) (rest : Forest K)
  | group (name : String) (gefac : K) (kids : Forest K) (rest : Forest K)

/-- The wells of a forest, each with `acc ·` (product of the factors of the enclosing groups
*inside* the forest) `· wefac`. -/
def Forest.facs : Forest K → K → List (WellIn K × K)
  | .nil, _ => []
  | .well w rest, acc => (w, acc * w.wefac) :: rest.facs acc
  | .group _ g kids rest, acc => kids.facs (acc * g) ++ rest.facs acc

/-- `Σ factor · s(w)` over the wells of the forest -/
def Forest.value (s : WellIn K → K) (f : Forest K) (acc : K) : K :=
  ((f.facs acc).map (fun p => p.2 * s p.1)).sum

theorem Forest.value_scale (s : WellIn K → K) (f : Forest K) (acc : K) :
    f.value s acc = acc * f.value s 1 := by
  induction f generalizing acc with
  | nil => simp [Forest.value, Forest.facs]
  | well w rest ih =>
    have h1 := ih acc
    unfold Forest.value at h1 ih ⊢
    simp only [Forest.facs, List.map_cons, List.sum_cons, h1]
    ring
  | group n g kids rest ihk ihr =>
    have h1 := ihk (acc * g)
    have h2 := ihr acc
    have h3 := ihk (1 * g)
    unfold Forest.value at h1 h2 h3 ihk ihr ⊢
    simp only [Forest.facs, List.map_append, List.sum_append, h1, h2, h3]
    ring

/-- one term per top-level item: `wefac · s(w)` for a well, `gefac · (value of the sub-group)`
for a sub-group -/
def Forest.items (s : WellIn K → K) : Forest K → List K
  | .nil => []
  | .well w rest => w.wefac * s w :: rest.items s
  | .group _ g kids rest => g * kids.value s 1 :: rest.items s

/-- `group_additivity` (abstract form): the value of a node is the sum over its child groups of
`gefac(c) · value(c)` plus the sum over its own wells of `wefac(w) · s(w)` — induction on the
tree, any depth, any number of children. -/
theorem Forest.value_items (s : WellIn K → K) (f : Forest K) : f.value s 1 = (f.items s).sum := by
  induction f with
  | nil => simp [Forest.value, Forest.facs, Forest.items]
  | well w rest ih =>
    unfold Forest.value at ih ⊢
    simp only [Forest.facs, Forest.items, List.map_cons, List.sum_cons, ih]
    ring
  | group n g kids rest ihk ihr =>
    have hk := Forest.value_scale s kids (1 * g)
    unfold Forest.value at ihr hk ⊢
    simp only [Forest.facs, Forest.items, List.map_append, List.sum_append, List.sum_cons, hk, ihr]
    unfold Forest.value
    ring

/-! ### the model's evaluator on a forest -/

/-- the context `FunctionRelation::update` builds for a node whose content is `f`: the wells
of the sub-tree and the factor list of `setFactors` -/
def forestCtx (f : Forest K) (dt : K) : Ctx K :=
  { wells := (f.facs 1).map (·.1),
    efac := efacLookup ((f.facs 1).map (fun p => (p.1.name, p.2))),
    dt := dt }

/-- the context of a well-level rate: the well alone, empty factor list -/
def wellCtx (w : WellIn K) (dt : K) : Ctx K := { wells := [w], efac := efacLookup [], dt := dt }

def Forest.names (f : Forest K) : List String := (f.facs 1).map (·.1.name)

theorem efacLookup_self (l : List (WellIn K × K)) (hn : (l.map (·.1.name)).Nodup)
    (w : WellIn K) (e : K) (hm : (w, e) ∈ l) :
    efacLookup (l.map (fun p => (p.1.name, p.2))) w.name = e := by
  induction l with
  | nil => cases hm
  | cons a l ih =>
    obtain ⟨aw, ae⟩ := a
    simp only [List.map_cons, List.nodup_cons] at hn
    simp only [List.map_cons, efacLookup]
    rcases List.mem_cons.mp hm with h | h
    · cases h; simp
    · have hne : aw.name ≠ w.name := by
        intro heq
        apply hn.1
        rw [heq]
        exact List.mem_map.mpr ⟨(w, e), h, rfl⟩
      simp only [hne, if_false]
      exact ih hn.2 h

theorem sum_congr_mem {α : Type} (l : List α) (f g : α → K) (h : ∀ x ∈ l, f x = g x) :
    (l.map f).sum = (l.map g).sum := by
  induction l with
  | nil => rfl
  | cons a l ih =>
    simp only [List.map_cons, List.sum_cons]
    rw [h a (List.mem_cons_self ..), ih (fun x hx => h x (List.mem_cons_of_mem _ hx))]

/-- The model's `rate<>` at a node equals the forest value of the kept well rates. -/
theorem evalRate_forest (p : Rt) (inj : Bool) (f : Forest K) (dt : K)
    (hn : f.names.Nodup) (hpos : ∀ x ∈ f.facs 1, 0 ≤ x.2) :
    evalRate p inj (forestCtx f dt) =
      (if inj then 1 else -1) * f.value (fun w => keep inj (q p w)) 1 := by
  have he : ∀ w ∈ (forestCtx f dt).wells, 0 ≤ (forestCtx f dt).efac w.name := by
    intro w hw
    obtain ⟨x, hx, hxw⟩ := List.mem_map.mp hw
    obtain ⟨xw, xe⟩ := x
    simp only at hxw; subst hxw
    show 0 ≤ efacLookup _ xw.name
    rw [efacLookup_self (f.facs 1) hn xw xe hx]
    exact hpos _ hx
  rw [evalRate_factor p inj _ he]
  congr 1
  unfold Forest.value forestCtx
  simp only [List.map_map]
  apply sum_congr_mem
  intro x hx
  obtain ⟨xw, xe⟩ := x
  simp only [Function.comp]
  rw [efacLookup_self (f.facs 1) hn xw xe hx]

/-- a well-level rate: no efficiency factor at all -/
theorem evalRate_well (p : Rt) (inj : Bool) (w : WellIn K) (dt : K) :
    evalRate p inj (wellCtx w dt) = (if inj then 1 else -1) * keep inj (q p w) := by
  rw [evalRate_eq]
  simp [wellCtx, contrib, efacLookup]

/-- one term per top-level item, in terms of the model's own evaluations -/
def Forest.rateItems (p : Rt) (inj : Bool) (dt : K) : Forest K → List K
  | .nil => []
  | .well w rest => w.wefac * evalRate p inj (wellCtx w dt) :: rest.rateItems p inj dt
  | .group _ g kids rest => g * evalRate p inj (forestCtx kids dt) :: rest.rateItems p inj dt

theorem facs_sub_well (w : WellIn K) (rest : Forest K) :
    ∀ x ∈ rest.facs 1, x ∈ (Forest.well w rest).facs 1 := by
  intro x hx; simp [Forest.facs, hx]

theorem facs_mono_scale (f : Forest K) (a : K) :
    (f.facs a).map (·.1) = (f.facs 1).map (·.1) := by
  induction f generalizing a with
  | nil => rfl
  | well w rest ih => simp only [Forest.facs, List.map_cons, ih a]
  | group n g kids rest ihk ihr =>
    simp only [Forest.facs, List.map_append, ihk (a * g), ihk (1 * g), ihr a]

theorem facs_scale (f : Forest K) (a : K) :
    f.facs a = (f.facs 1).map (fun x => (x.1, a * x.2)) := by
  induction f generalizing a with
  | nil => rfl
  | well w rest ih =>
    simp only [Forest.facs, List.map_cons, ih a, one_mul]
  | group n g kids rest ihk ihr =>
    simp only [Forest.facs, List.map_append, ihr a]
    rw [ihk (a * g), ihk (1 * g)]
    simp only [List.map_map]
    congr 1
    apply List.map_congr_left
    intro x _
    simp only [Function.comp]
    congr 1
    ring

/-- all efficiency factors of the forest are non-negative -/
def Forest.NonNeg : Forest K → Prop
  | .nil => True
  | .well w rest => 0 ≤ w.wefac ∧ rest.NonNeg
  | .group _ g kids rest => 0 ≤ g ∧ kids.NonNeg ∧ rest.NonNeg

theorem Forest.facs_nonneg (f : Forest K) (h : f.NonNeg) (a : K) (ha : 0 ≤ a) :
    ∀ x ∈ f.facs a, 0 ≤ x.2 := by
  induction f generalizing a with
  | nil => intro x hx; cases hx
  | well w rest ih =>
    intro x hx
    simp only [Forest.facs, List.mem_cons] at hx
    rcases hx with rfl | hx
    · exact mul_nonneg ha h.1
    · exact ih h.2 a ha x hx
  | group n g kids rest ihk ihr =>
    intro x hx
    simp only [Forest.facs, List.mem_append] at hx
    rcases hx with hx | hx
    · exact ihk h.2.1 (a * g) (mul_nonneg ha h.1) x hx
    · exact ihr h.2.2 a ha x hx

theorem Forest.names_well (w : WellIn K) (rest : Forest K) :
    (Forest.well w rest).names = w.name :: rest.names := by
  simp [Forest.names, Forest.facs]

theorem Forest.names_group (n : String) (g : K) (kids rest : Forest K) :
    (Forest.group n g kids rest).names = kids.names ++ rest.names := by
  unfold Forest.names
  simp only [Forest.facs, List.map_append]
  congr 1
  have := facs_mono_scale kids (1 * g)
  have h2 : ∀ l : List (WellIn K × K), l.map (·.1.name) = (l.map (·.1)).map (·.name) := by
    intro l; simp [List.map_map]
  rw [h2, h2, this]

/-- `group_additivity` on the model's evaluator: for a node of any shape and depth,
`G·R(g) = Σ_{child groups c} gefac(c) · G·R(c) + Σ_{wells w of g} wefac(w) · W·R(w)`
(`rateItems` lists exactly these terms, each a model evaluation); the field is the same
statement for the content of FIELD. Hypotheses: distinct well names, non-negative factors. -/
theorem group_additivity_rate (p : Rt) (inj : Bool) (dt : K) (f : Forest K)
    (hn : f.names.Nodup) (hp : f.NonNeg) :
    evalRate p inj (forestCtx f dt) = (f.rateItems p inj dt).sum := by
  rw [evalRate_forest p inj f dt hn (f.facs_nonneg hp 1 zero_le_one), Forest.value_items]
  induction f with
  | nil => simp [Forest.items, Forest.rateItems]
  | well w rest ih =>
    rw [Forest.names_well] at hn
    have hn' := (List.nodup_cons.mp hn).2
    simp only [Forest.items, Forest.rateItems, List.sum_cons]
    rw [← ih hn' hp.2, evalRate_well]
    ring
  | group n g kids rest ihk ihr =>
    rw [Forest.names_group] at hn
    have hnk : kids.names.Nodup := (List.nodup_append.mp hn).1
    have hnr : rest.names.Nodup := (List.nodup_append.mp hn).2.1
    simp only [Forest.items, Forest.rateItems, List.sum_cons]
    rw [← ihr hnr hp.2.2, evalRate_forest p inj kids dt hnk (kids.facs_nonneg hp.2.1 1 zero_le_one)]
    ring

/-- A history whose group tree changes between evaluations: evaluation `i` sees the forest `h.1` of
its own report step (step length `h.2`).  The accumulated group / field total is the initial value
plus, per evaluation, factor × (Σ over the children in the tree *of that evaluation*) × step length —
nothing of an earlier tree enters a later step. -/
theorem group_total_changing_trees (key : String) (htot : stateIsTotal key = true) (f : K)
    (p : Rt) (inj : Bool) (hs : List (Forest K × K)) (t0 : K)
    (hn : ∀ h ∈ hs, h.1.names.Nodup) (hp : ∀ h ∈ hs, h.1.NonNeg) :
    accumulate key f (.mul (.rate p inj) .duration) (hs.map (fun h => forestCtx h.1 h.2)) t0 =
      some (t0 + (hs.map (fun h => f * ((h.1.rateItems p inj h.2).sum * h.2))).sum) := by
  rw [cumulative_steps key htot f (.rate p inj) _ t0 (by intro c _; simp [evalE])]
  rw [List.map_map]
  have hm : List.map ((fun c : Ctx K => f * (((evalE c (.rate p inj)).getD 0) * c.dt)) ∘
        fun h : Forest K × K => forestCtx h.1 h.2) hs =
      List.map (fun h : Forest K × K => f * ((h.1.rateItems p inj h.2).sum * h.2)) hs := by
    apply List.map_congr_left
    intro h hh
    simp only [Function.comp, evalE, Option.getD_some]
    rw [group_additivity_rate p inj h.2 h.1 (hn h hh) (hp h hh)]
    rfl
  rw [hm]

/-! ### the forest and the parent walk agree -/

/-- the wells of a forest with the (name, factor) of the enclosing groups, innermost first,
followed by `up` -/
def Forest.paths : Forest K → List (String × K) → List (WellIn K × List (String × K))
  | .nil, _ => []
  | .well w rest, up => (w, up) :: rest.paths up
  | .group n g kids rest, up => kids.paths ((n, g) :: up) ++ rest.paths up

theorem Forest.facs_paths (f : Forest K) (up : List (String × K)) :
    f.facs (prodL (up.map (·.2))) =
      (f.paths up).map (fun x => (x.1, prodL (x.2.map (·.2)) * x.1.wefac)) := by
  induction f generalizing up with
  | nil => rfl
  | well w rest ih => simp only [Forest.facs, Forest.paths, List.map_cons, ih up]
  | group n g kids rest ihk ihr =>
    simp only [Forest.facs, Forest.paths, List.map_append, ← ihr up]
    congr 1
    rw [← ihk ((n, g) :: up)]
    simp only [List.map_cons, prodL]
    congr 1; ring

/-- `efac_sem` for group rates, tied to the tree: if the parent pointers realise the path of a
well (`path` = the groups between the well and the node, then the node, then anything above)
the factor computed by the `setFactors` walk is the forest factor `wefac · Π gefac(path)`. -/
theorem walk_eq_forest_factor (parent : String → Option String) (gefac : String → K)
    (node : String) (above : List String) (w : WellIn K) (path : List (String × K))
    (hn : node ∉ path.map (·.1))
    (hg : ∀ x ∈ path, gefac x.1 = x.2)
    (g : String) (rest : List String) (hsplit : g :: rest = path.map (·.1) ++ node :: above)
    (hgrp : w.group = g)
    (hch : IsChain parent (g :: rest)) (fuel : Nat) (hf : (g :: rest).length ≤ fuel) :
    walkUp parent gefac (some node) fuel w.group w.wefac = prodL (path.map (·.2)) * w.wefac := by
  rw [hgrp, walkUp_below parent gefac node (path.map (·.1)) above hn g rest hsplit hch fuel hf]
  have : (path.map (·.1)).map gefac = path.map (·.2) := by
    rw [List.map_map]
    apply List.map_congr_left
    intro x hx
    exact hg x hx
  rw [this]; ring


/-! ## the whole evaluator update (`nodeValue`, what the driver runs) -/

/-- The factor the evaluator uses for a well of the node's well set is exactly the `setFactors`
walk (well-level non-totals: 1). -/
theorem nodeCtx_efac (gs : List (GroupIn K)) (ws : List (WellIn K)) (cat : Cat) (node key : String)
    (dt : K) (hn : ((findWells gs ws cat node).map (·.name)).Nodup)
    (w : WellIn K) (hw : w ∈ findWells gs ws cat node) :
    (nodeCtx gs ws cat node key dt).efac w.name =
      if cat = .well ∧ configIsTotal key = false then 1
      else walkUp (parentOf gs) (gefacOf gs)
        (if cat = .group ∧ configIsTotal key = false then some node else none)
        (gs.length + 1) w.group w.wefac := by
  unfold nodeCtx setFactors
  by_cases h : cat = .well ∧ configIsTotal key = false
  · simp only [h, and_self, if_true, Option.getD_none, efacLookup]
    rfl
  · simp only [h, if_false, Option.getD_some]
    generalize findWells gs ws cat node = l at hn hw
    induction l with
    | nil => cases hw
    | cons a l ih =>
      simp only [List.map_cons, List.nodup_cons] at hn
      simp only [List.map_cons, efacLookup]
      rcases List.mem_cons.mp hw with rfl | hm
      · simp
      · have hne : a.name ≠ w.name := by
          intro heq; apply hn.1; rw [heq]; exact List.mem_map.mpr ⟨w, hm, rfl⟩
        simp only [hne, if_false]
        exact ih hn.2 hm

/-- `cumulative_step` through the whole update: for a total key whose table entry is
`mul r duration`, the stored value becomes previous + factor × (rate expression evaluated in the
node's context) × dt. -/
theorem node_cumulative (gs : List (GroupIn K)) (ws : List (WellIn K)) (cat : Cat) (node key : String)
    (dt f prev R : K) (r : E) (u : String)
    (hk : lookupFun key = some (.mul r .duration)) (htot : stateIsTotal key = true)
    (hu : unitOf (.mul r .duration) = some u)
    (hR : evalE (nodeCtx gs ws cat node key dt) r = some R) :
    (nodeValue gs ws cat node key dt).map (fun vu => stateUpdate key prev (fromSi f vu.1)) =
      some (prev + f * (R * dt)) := by
  unfold nodeValue
  rw [hk]
  simp only [evalE_mul_duration _ r R hR, hu, Option.map_some, stateUpdate, htot, if_true, fromSi,
    s_add, s_mul]
  rfl

/-! ## derived vectors: table entry and value together -/

theorem liquid_value (c : Ctx K) :
    ∀ x ∈ Table.levels, (lookupFun (Table.lvl x "LPR")).bind (evalE c) =
      some (evalRate .wat false c + evalRate .oil false c) := by
  have h : ∀ x ∈ Table.levels, lookupFun (Table.lvl x "LPR") =
      some (.sum (.rate .wat false) (.rate .oil false)) := by
    unfold lookupFun; rw [Table.lookupK_eq]; decide +kernel
  intro x hx
  rw [h x hx]; simp [evalE]

theorem water_cut_value (c : Ctx K) :
    ∀ x ∈ Table.levels, (lookupFun (Table.lvl x "WCT")).bind (evalE c) =
      some (if evalRate .wat false c + evalRate .oil false c = 0 then 0
            else evalRate .wat false c / (evalRate .wat false c + evalRate .oil false c)) := by
  have h : ∀ x ∈ Table.levels, lookupFun (Table.lvl x "WCT") =
      some (.div (.rate .wat false) (.sum (.rate .wat false) (.rate .oil false))) := by
    unfold lookupFun; rw [Table.lookupK_eq]; decide +kernel
  intro x hx
  rw [h x hx]; simp [evalE]

theorem gor_value (c : Ctx K) :
    ∀ x ∈ Table.levels, (lookupFun (Table.lvl x "GOR")).bind (evalE c) =
      some (if evalRate .oil false c = 0 then 0 else evalRate .gas false c / evalRate .oil false c) := by
  have h : ∀ x ∈ Table.levels, lookupFun (Table.lvl x "GOR") =
      some (.div (.rate .gas false) (.rate .oil false)) := by
    unfold lookupFun; rw [Table.lookupK_eq]; decide +kernel
  intro x hx
  rw [h x hx]; simp [evalE]

theorem glr_value (c : Ctx K) :
    ∀ x ∈ Table.levels, (lookupFun (Table.lvl x "GLR")).bind (evalE c) =
      some (if evalRate .wat false c + evalRate .oil false c = 0 then 0
            else evalRate .gas false c / (evalRate .wat false c + evalRate .oil false c)) := by
  have h : ∀ x ∈ Table.levels, lookupFun (Table.lvl x "GLR") =
      some (.div (.rate .gas false) (.sum (.rate .wat false) (.rate .oil false))) := by
    unfold lookupFun; rw [Table.lookupK_eq]; decide +kernel
  intro x hx
  rw [h x hx]; simp [evalE]

/-- `WOGR`, `WWGR`: oil and water over gas (defined on the well level only). -/
theorem well_gas_ratio_value (c : Ctx K) :
    (lookupFun "WOGR").bind (evalE c) =
      some (if evalRate .gas false c = 0 then 0 else evalRate .oil false c / evalRate .gas false c) ∧
    (lookupFun "WWGR").bind (evalE c) =
      some (if evalRate .gas false c = 0 then 0 else evalRate .wat false c / evalRate .gas false c) := by
  have h1 : lookupFun "WOGR" = some (.div (.rate .oil false) (.rate .gas false)) := by
    unfold lookupFun; rw [Table.lookupK_eq]; decide +kernel
  have h2 : lookupFun "WWGR" = some (.div (.rate .wat false) (.rate .gas false)) := by
    unfold lookupFun; rw [Table.lookupK_eq]; decide +kernel
  rw [h1, h2]; simp [evalE]

/-- The observed (history) rate of a phase summed over the flowing wells, as `production_history<>` does. -/
def histProd (c : Ctx K) (ph : HPhase) : K := (c.wells.map (hcontrib (fun w => w.hprod ph) c.efac)).sum

/-- History ratios `XWCTH`, `XGORH`, `XGLRH` (X ∈ {W, G, F}) from the history rates. -/
theorem history_ratio_value (c : Ctx K) :
    ∀ x ∈ Table.levels,
      (lookupFun (Table.lvl x "WCTH")).bind (evalE c) =
        some (if histProd c .water + histProd c .oil = 0 then 0
              else histProd c .water / (histProd c .water + histProd c .oil)) ∧
      (lookupFun (Table.lvl x "GORH")).bind (evalE c) =
        some (if histProd c .oil = 0 then 0 else histProd c .gas / histProd c .oil) ∧
      (lookupFun (Table.lvl x "GLRH")).bind (evalE c) =
        some (if histProd c .water + histProd c .oil = 0 then 0
              else histProd c .gas / (histProd c .water + histProd c .oil)) := by
  have h : ∀ x ∈ Table.levels,
      lookupFun (Table.lvl x "WCTH") = some (.div (.prodHist .water) (.sum (.prodHist .water) (.prodHist .oil))) ∧
      lookupFun (Table.lvl x "GORH") = some (.div (.prodHist .gas) (.prodHist .oil)) ∧
      lookupFun (Table.lvl x "GLRH") = some (.div (.prodHist .gas) (.sum (.prodHist .water) (.prodHist .oil))) := by
    unfold lookupFun; rw [Table.lookupK_eq]; decide +kernel
  intro x hx
  obtain ⟨h1, h2, h3⟩ := h x hx
  have hw := (evalHist_eq c .water).1
  have ho := (evalHist_eq c .oil).1
  have hg := (evalHist_eq c .gas).1
  have hs := evalE_sum c _ _ _ _ hw ho
  rw [h1, h2, h3]
  exact ⟨evalE_div c _ _ _ _ hw hs, evalE_div c _ _ _ _ hg ho, evalE_div c _ _ _ _ hg hs⟩

/-- No threshold in `quantity::operator/`: for *every* non-zero denominator, however small, the
ratio times the denominator gives back the numerator. -/
theorem evalE_div_mul (c : Ctx K) (a b : E) (x y r : K) (ha : evalE c a = some x) (hb : evalE c b = some y)
    (hy : y ≠ 0) (hr : evalE c (.div a b) = some r) : r * y = x := by
  rw [evalE_div c a b x y ha hb, if_neg hy] at hr
  injection hr with hr
  rw [← hr]; exact div_mul_cancel₀ x hy

/-- A ratio vector is zero only if its numerator or its denominator is exactly zero. -/
theorem evalE_div_eq_zero (c : Ctx K) (a b : E) (x y : K) (ha : evalE c a = some x) (hb : evalE c b = some y) :
    evalE c (.div a b) = some 0 ↔ (y = 0 ∨ x = 0) := by
  rw [evalE_div c a b x y ha hb]
  by_cases hy : y = 0
  · simp [hy]
  · simp [hy]

theorem voidage_value (c : Ctx K) :
    ∀ x ∈ Table.levels, (lookupFun (Table.lvl x "VPR")).bind (evalE c) =
      some (evalRate .reservoir_water false c + evalRate .reservoir_oil false c +
            evalRate .reservoir_gas false c) := by
  have h : ∀ x ∈ Table.levels, lookupFun (Table.lvl x "VPR") =
      some (.sum (.sum (.rate .reservoir_water false) (.rate .reservoir_oil false))
        (.rate .reservoir_gas false)) := by
    unfold lookupFun; rw [Table.lookupK_eq]; decide +kernel
  intro x hx
  rw [h x hx]; simp [evalE]


/-! ## the visiting order of the wells is irrelevant -/

theorem insertBySeq_perm (w : WellIn K) (l : List (WellIn K)) : (insertBySeq w l).Perm (w :: l) := by
  induction l with
  | nil => exact List.Perm.refl _
  | cons x xs ih =>
    unfold insertBySeq
    split
    · exact List.Perm.refl _
    · exact (List.Perm.cons x ih).trans (List.Perm.swap w x xs)

theorem sortBySeq_perm (l : List (WellIn K)) : (sortBySeq l).Perm l := by
  unfold sortBySeq
  induction l with
  | nil => exact List.Perm.refl _
  | cons x xs ih =>
    simp only [List.foldr_cons]
    exact (insertBySeq_perm x _).trans (List.Perm.cons x ih)

/-- Over a field any permutation of the well list gives the same rate
(`sort_wells_by_insert_index` only fixes the floating-point summation order). -/
theorem evalRate_perm (p : Rt) (inj : Bool) (c : Ctx K) (ws : List (WellIn K)) (h : ws.Perm c.wells) :
    evalRate p inj { c with wells := ws } = evalRate p inj c := by
  rw [evalRate_eq, evalRate_eq]
  simp only
  rw [(h.map (contrib p inj c.efac)).sum_eq]

theorem evalRate_sorted (p : Rt) (inj : Bool) (c : Ctx K) :
    evalRate p inj { c with wells := sortBySeq c.wells } = evalRate p inj c :=
  evalRate_perm p inj c _ (sortBySeq_perm c.wells)


/-! ## calendar -/

/-- The date function is periodic with the 400-year Gregorian era (146 097 days). -/
theorem civilFromDays_era_shift (z : Int) : civilFromDays (z + 146097) =
    ((civilFromDays z).1 + 400, (civilFromDays z).2.1, (civilFromDays z).2.2) := by
  have h1 : (z + 146097 + 719468) / 146097 = (z + 719468) / 146097 + 1 := by omega
  have h2 : z + 146097 + 719468 - ((z + 719468) / 146097 + 1) * 146097 =
      z + 719468 - (z + 719468) / 146097 * 146097 := by omega
  simp only [civilFromDays, h1, h2]
  split <;> simp <;> omega

end OpmVerif.SumFuns.Proofs
