/-
  applyAction versus inlining: lemmas.
-/
import OpmVerif.Model.SchedAction
import OpmVerif.Proofs.SchedCore

namespace OpmVerif.Sched

def setMark (x : List String) (s : State) : State := { s with mark := x }

/-! ### no handler reads or writes the marker channel -/

theorem stepR_mark (k : Consts) (m : List String) (x : List String) (s : State) (r : ROp) :
    stepR k m (setMark x s) r = (stepR k m s r).map (setMark x) := by
  unfold stepR
  by_cases h : r.isConn
  · simp only [h, if_true]
    show (match stepC k m s.p s.c r with | .error e => _ | .ok c' => _) = _
    cases stepC k m s.p s.c r <;> rfl
  · simp only [h]
    show (match stepP k m (emp s.c) s.p r with | .error e => _ | .ok (p', ws) => _) = _
    cases hP : stepP k m (emp s.c) s.p r with
    | error e => rfl
    | ok v => cases v; rfl

theorem runOps_mark (k : Consts) (m x : List String) (s : State) (rs : List ROp) :
    runOps k m (setMark x s) rs = (runOps k m s rs).map (setMark x) := by
  induction rs generalizing s with
  | nil => rfl
  | cons r rs ih =>
    simp only [runOps, stepR_mark]
    cases stepR k m s r with
    | error e => rfl
    | ok s' => exact ih s'

theorem handle_mark (k : Consts) (m x : List String) (s : State) (kw : CKw) :
    handle k m (setMark x s) kw = (handle k m s kw).map (setMark x) := by
  cases kw with
  | ops n rs => exact runOps_mark k m x s rs
  | actionx a => rfl
  | endactio => rfl
  | compord c => rfl
  | msw o =>
    simp only [handle, setMark]
    cases segStep s.p o <;> rfl

theorem runBody_mark (k : Consts) (x : List String) (s : State) (body : List CKw) :
    runBody k (setMark x s) body = (runBody k s body).map (setMark x) := by
  induction body generalizing s with
  | nil => rfl
  | cons kw r ih =>
    simp only [runBody, handle_mark]
    cases handle k [] s kw with
    | error e => rfl
    | ok s' => exact ih s'

theorem createNext_setMark (x : List String) (s : State) : createNext (setMark x s) = createNext s := rfl

theorem beginBlock_setMark (x : List String) (s : State) (b : List CKw) : beginBlock (setMark x s) b = beginBlock s b := rfl

theorem stepBlock_setMark (k : Consts) (x : List String) (s : State) (b : List CKw) :
    stepBlock k (setMark x s) b = stepBlock k s b := by
  unfold stepBlock; rw [beginBlock_setMark]

theorem runFrom_setMark (k : Consts) (x : List String) (s : State) (bs : List (List CKw)) :
    runFrom k (setMark x s) bs = runFrom k s bs := by
  cases bs with
  | nil => rfl
  | cons b r => simp only [runFrom, stepBlock_setMark]

theorem endReport_setMark (x : List String) (s : State) : endReport (setMark x s) = setMark x (endReport s) := rfl

theorem closeBlock_setMark (x : List String) (s : State) : closeBlock (setMark x s) = setMark x (closeBlock s) := rfl

/-! ### the keyword loop over a concatenation -/

theorem runKws_append (k : Consts) (a b : List CKw) (acc : Option (String × List CKw)) (s s1 : State)
    (h : runKws k acc s a = .ok s1) : runKws k acc s (a ++ b) = runKws k none s1 b := by
  induction a generalizing acc s with
  | nil =>
    cases acc with
    | none => simp only [runKws, Except.ok.injEq] at h; subst h; rfl
    | some v => simp [runKws] at h
  | cons kw r ih =>
    cases acc with
    | none =>
      cases kw with
      | actionx n => simp only [List.cons_append, runKws] at h ⊢; exact ih _ _ h
      | ops n rs =>
        simp only [List.cons_append, runKws] at h ⊢
        cases hh : handle k [] s (.ops n rs) with
        | error e => rw [hh] at h; cases h
        | ok s' => rw [hh] at h; simp only [] at h ⊢; exact ih _ _ h
      | endactio =>
        simp only [List.cons_append, runKws] at h ⊢
        cases hh : handle k [] s .endactio with
        | error e => rw [hh] at h; cases h
        | ok s' => rw [hh] at h; simp only [] at h ⊢; exact ih _ _ h
      | compord c =>
        simp only [List.cons_append, runKws] at h ⊢
        cases hh : handle k [] s (.compord c) with
        | error e => rw [hh] at h; cases h
        | ok s' => rw [hh] at h; simp only [] at h ⊢; exact ih _ _ h
      | msw o =>
        simp only [List.cons_append, runKws] at h ⊢
        cases hh : handle k [] s (.msw o) with
        | error e => rw [hh] at h; cases h
        | ok s' => rw [hh] at h; simp only [] at h ⊢; exact ih _ _ h
    | some v =>
      obtain ⟨n, ac⟩ := v
      cases kw with
      | endactio => simp only [List.cons_append, runKws] at h ⊢; exact ih _ _ h
      | ops n' rs => simp only [List.cons_append, runKws] at h ⊢; exact ih _ _ h
      | actionx n' => simp only [List.cons_append, runKws] at h ⊢; exact ih _ _ h
      | compord c => simp only [runKws] at h; cases h
      | msw o => simp only [List.cons_append, runKws] at h ⊢; exact ih _ _ h

/-- A body without ACTIONX/ENDACTIO/COMPORD keywords (what `ActionX::valid_keyword` admits). -/
def plainKw : CKw → Bool
  | .ops _ _ => true
  | _ => false

theorem runKws_plain (k : Consts) (s : State) (body : List CKw) (hp : body.all plainKw = true) :
    runKws k none s body = runBody k s body := by
  induction body generalizing s with
  | nil => rfl
  | cons kw r ih =>
    simp only [List.all_cons, Bool.and_eq_true] at hp
    cases kw with
    | ops n rs =>
      simp only [runKws, runBody]
      cases handle k [] s (.ops n rs) with
      | error e => rfl
      | ok s' => exact ih s' hp.2
    | actionx a => simp [plainKw] at hp
    | endactio => simp [plainKw] at hp
    | compord c => simp [plainKw] at hp
    | msw o => simp [plainKw] at hp

/-- Keywords an action may contain do not change what `block.get("COMPORD")` finds. -/
theorem compordOf_append_plain (a b : List CKw) (hp : b.all plainKw = true) : compordOf (a ++ b) = compordOf a := by
  induction a with
  | nil =>
    induction b with
    | nil => rfl
    | cons kw r ih =>
      simp only [List.all_cons, Bool.and_eq_true] at hp
      cases kw with
      | ops n rs => simp only [List.nil_append, compordOf] at ih ⊢; exact ih hp.2
      | actionx x => simp [plainKw] at hp
      | endactio => simp [plainKw] at hp
      | compord c => simp [plainKw] at hp
      | msw o => simp [plainKw] at hp
  | cons kw r ih =>
    cases kw with
    | ops n rs => simp only [List.cons_append, compordOf]; exact ih
    | actionx x => simp only [List.cons_append, compordOf]; exact ih
    | endactio => simp only [List.cons_append, compordOf]; exact ih
    | compord c => rfl
    | msw o => simp only [List.cons_append, compordOf]; exact ih

theorem beginBlock_append_plain (s : State) (a b : List CKw) (hp : b.all plainKw = true) :
    beginBlock s (a ++ b) = beginBlock s a := by
  unfold beginBlock; rw [compordOf_append_plain a b hp]

theorem substBody_plain (ws : List String) (body : List CKw) (hp : body.all plainKw = true) :
    (substBody ws body).all plainKw = true := by
  induction body with
  | nil => rfl
  | cons kw r ih =>
    simp only [List.all_cons, Bool.and_eq_true] at hp
    cases kw with
    | ops n rs => simp only [substBody, List.map_cons, List.all_cons, substKw, plainKw, Bool.true_and]; exact ih hp.2
    | actionx a => simp [plainKw] at hp
    | endactio => simp [plainKw] at hp
    | compord c => simp [plainKw] at hp
    | msw o => simp [plainKw] at hp

/-- The handlers never touch the marker channel. -/
theorem runBody_mark_eq (k : Consts) (b : List CKw) (u v : State) (h : runBody k u b = .ok v) : v.mark = u.mark := by
  induction b generalizing u with
  | nil => simp only [runBody, Except.ok.injEq] at h; subst h; rfl
  | cons kw r ih =>
    simp only [runBody] at h
    cases hh : handle k [] u kw with
    | error e => rw [hh] at h; cases h
    | ok u' =>
      rw [hh] at h; simp only [] at h
      have e1 := ih u' h
      have e2 : u'.mark = u.mark := by
        have := handle_mark k [] u.mark u kw
        have hu : setMark u.mark u = u := rfl
        rw [hu, hh] at this
        simp only [Except.map, Except.ok.injEq] at this
        have := congrArg State.mark this
        simpa [setMark] using this
      rw [e1, e2]

end OpmVerif.Sched

namespace OpmVerif.Sched

/-- `apply_past_untouched`: snapshots before step n are literally the old ones. -/
theorem applyAction_past (k : Consts) (bs : List (List CKw)) (ss : List State) (n : Nat) (body : List CKw)
    (W : List String) (bs' : List (List CKw)) (ss' : List State)
    (h : applyAction k bs ss n body W = .ok (bs', ss')) : ss'.take n = ss.take n := by
  unfold applyAction at h
  cases hn : ss[n]? with
  | none => rw [hn] at h; cases h
  | some sn =>
    rw [hn] at h; simp only [] at h
    cases h1 : applyAtState k sn body W with
    | error e => rw [h1] at h; cases h
    | ok sn' =>
      rw [h1] at h; simp only [] at h
      cases h2 : runFrom k sn' (bs.drop (n + 1)) with
      | error e => rw [h2] at h; cases h
      | ok tail =>
        rw [h2] at h
        simp only [Except.ok.injEq, Prod.mk.injEq] at h
        obtain ⟨_, hss⟩ := h
        subst hss
        have hlt : n < ss.length := by
          rcases Nat.lt_or_ge n ss.length with hl | hl
          · exact hl
          · rw [List.getElem?_eq_none hl] at hn; cases hn
        rw [List.take_append_of_le_length (by rw [List.length_take]; omega)]
        simp [List.take_take]

/-- … and the snapshot count is unchanged. -/
theorem applyAction_length (k : Consts) (bs : List (List CKw)) (ss : List State) (n : Nat) (body : List CKw)
    (W : List String) (bs' : List (List CKw)) (ss' : List State) (hl : ss.length = bs.length)
    (h : applyAction k bs ss n body W = .ok (bs', ss')) : ss'.length = ss.length := by
  unfold applyAction at h
  cases hn : ss[n]? with
  | none => rw [hn] at h; cases h
  | some sn =>
    rw [hn] at h; simp only [] at h
    cases h1 : applyAtState k sn body W with
    | error e => rw [h1] at h; cases h
    | ok sn' =>
      rw [h1] at h; simp only [] at h
      cases h2 : runFrom k sn' (bs.drop (n + 1)) with
      | error e => rw [h2] at h; cases h
      | ok tail =>
        rw [h2] at h
        simp only [Except.ok.injEq, Prod.mk.injEq] at h
        obtain ⟨_, hss⟩ := h
        subst hss
        have hlt : n < ss.length := by
          rcases Nat.lt_or_ge n ss.length with hl' | hl'
          · exact hl'
          · rw [List.getElem?_eq_none hl'] at hn; cases hn
        have := runFrom_length h2
        simp only [List.length_append, List.length_take, List.length_cons, this, List.length_drop]
        omega

theorem applyAction_blocks (k : Consts) (bs : List (List CKw)) (ss : List State) (n : Nat) (body : List CKw)
    (W : List String) (bs' : List (List CKw)) (ss' : List State)
    (h : applyAction k bs ss n body W = .ok (bs', ss')) : bs' = appendAt bs n body := by
  unfold applyAction at h
  cases hn : ss[n]? with
  | none => rw [hn] at h; cases h
  | some sn =>
    rw [hn] at h; simp only [] at h
    cases h1 : applyAtState k sn body W with
    | error e => rw [h1] at h; cases h
    | ok sn' =>
      rw [h1] at h; simp only [] at h
      cases h2 : runFrom k sn' (bs.drop (n + 1)) with
      | error e => rw [h2] at h; cases h
      | ok tail =>
        rw [h2] at h
        simp only [Except.ok.injEq, Prod.mk.injEq] at h
        exact h.1.symm

/-- Sequences: whatever is applied at steps ≥ n0, in any number, snapshots before n0 stay. -/
theorem applyList_past (k : Consts) (n0 : Nat) (apps : List App) (bs : List (List CKw)) (ss : List State)
    (bs' : List (List CKw)) (ss' : List State) (hl : ss.length = bs.length)
    (hge : ∀ a ∈ apps, n0 ≤ a.1)
    (h : applyList k bs ss apps = .ok (bs', ss')) : ss'.take n0 = ss.take n0 := by
  induction apps generalizing bs ss with
  | nil => simp only [applyList, Except.ok.injEq, Prod.mk.injEq] at h; rw [h.2]
  | cons a r ih =>
    obtain ⟨n, an, W⟩ := a
    simp only [applyList] at h
    cases hn : ss[n]? with
    | none => rw [hn] at h; cases h
    | some sn =>
      rw [hn] at h; simp only [] at h
      cases hb : lookup sn.p.actions an with
      | none => rw [hb] at h; cases h
      | some body =>
        rw [hb] at h; simp only [] at h
        cases hA : applyAction k bs ss n body W with
        | error e => rw [hA] at h; cases h
        | ok v =>
          obtain ⟨bs1, ss1⟩ := v
          rw [hA] at h; simp only [] at h
          have hp := applyAction_past k bs ss n body W bs1 ss1 hA
          have hlen := applyAction_length k bs ss n body W bs1 ss1 hl hA
          have hbl := applyAction_blocks k bs ss n body W bs1 ss1 hA
          have hl1 : ss1.length = bs1.length := by rw [hlen, hl, hbl]; simp [appendAt]
          have hn0 : n0 ≤ n := hge (n, an, W) (List.mem_cons_self ..)
          have := ih bs1 ss1 hl1 (fun a ha => hge a (List.mem_cons_of_mem _ ha)) h
          rw [this]
          have e1 : ss1.take n0 = (ss1.take n).take n0 := by rw [List.take_take, Nat.min_eq_left hn0]
          have e2 : ss.take n0 = (ss.take n).take n0 := by rw [List.take_take, Nat.min_eq_left hn0]
          rw [e1, e2, hp]

/-! ### '?' substitution -/

theorem mem_sortW (order W : List String) (w : String) : w ∈ sortW order W ↔ w ∈ order ∧ w ∈ W := by
  simp [sortW, List.mem_filter]

theorem sortW_sublist (order W : List String) : (sortW order W).Sublist order := List.filter_sublist

theorem substOp_other (ws : List String) (r : ROp) (h : r.wpat ≠ some "?") : substOp ws r = [r] := by
  simp [substOp, h]

theorem substOp_q (ws : List String) (r : ROp) (h : r.wpat = some "?") :
    substOp ws r = ws.map fun w => r.setPat w := by
  simp [substOp, h]

theorem setPat_wpat (w : String) (r : ROp) (h : r.wpat = some "?") : (r.setPat w).wpat = some w := by
  cases r <;> simp [ROp.wpat, ROp.setPat] at h ⊢

end OpmVerif.Sched

namespace OpmVerif.Sched

theorem modify_at_length {α : Type} (a : List α) (x : α) (c : List α) (f : α → α) :
    (a ++ x :: c).modify a.length f = a ++ f x :: c := by
  induction a with
  | nil => simp
  | cons y r ih => simp [ih]

end OpmVerif.Sched
