/-
  C12 — lemmas: index lists, compress/rank, the generic refinement of one loop, the
  front end, whole programs, independence of inactive cells.
-/
import OpmVerif.Model.FieldProps

namespace OpmVerif.FieldProps

/-! ## rank / compress -/

theorem isActive_nil (g : Nat) : isActive [] g = false := by simp [isActive]
theorem isActive_cons_zero (b : Bool) (bs : List Bool) : isActive (b :: bs) 0 = b := by simp [isActive]
theorem isActive_cons_succ (b : Bool) (bs : List Bool) (g : Nat) :
    isActive (b :: bs) (g + 1) = isActive bs g := by simp [isActive]

theorem isActive_lt {A : List Bool} {g : Nat} (h : isActive A g = true) : g < A.length := by
  induction A generalizing g with
  | nil => simp [isActive] at h
  | cons b bs ih =>
    cases g with
    | zero => simp
    | succ g => rw [isActive_cons_succ] at h; have := ih h; simp; omega

theorem compress_length {β : Type} (A : List Bool) (x : List β) (h : x.length = A.length) :
    (compress A x).length = nactive A := by
  induction A generalizing x with
  | nil => simp [compress, nactive]
  | cons b bs ih =>
    cases x with
    | nil => simp at h
    | cons y ys =>
      simp at h
      cases b
      · simp [compress, nactive, ih ys h]
      · simp [compress, nactive, ih ys h]

/-- P1: the active cell `g` of a global array sits at position `rank A g` of its compression. -/
theorem getElem?_compress_rank {β : Type} (A : List Bool) (x : List β) (g : Nat)
    (hx : x.length = A.length) (ha : isActive A g = true) :
    (compress A x)[rank A g]? = x[g]? := by
  induction A generalizing x g with
  | nil => simp [isActive] at ha
  | cons b bs ih =>
    cases x with
    | nil => simp at hx
    | cons y ys =>
      simp at hx
      cases g with
      | zero =>
        rw [isActive_cons_zero] at ha
        subst ha
        simp [compress, rank]
      | succ g =>
        rw [isActive_cons_succ] at ha
        cases b
        · simp [compress, rank, ih ys g hx ha]
        · simp [compress, rank, Nat.add_comm 1, ih ys g hx ha]

/-- P2: every position of the compressed array is the rank of some active global cell. -/
theorem exists_active_of_lt {β : Type} (A : List Bool) (x : List β) (a : Nat)
    (hx : x.length = A.length) (ha : a < (compress A x).length) :
    ∃ g, isActive A g = true ∧ rank A g = a := by
  induction A generalizing x a with
  | nil => simp [compress] at ha
  | cons b bs ih =>
    cases x with
    | nil => simp at hx
    | cons y ys =>
      simp at hx
      cases b
      · simp [compress] at ha
        obtain ⟨g, hg, hr⟩ := ih ys a hx ha
        exact ⟨g + 1, by rw [isActive_cons_succ]; exact hg, by simp [rank, hr]⟩
      · cases a with
        | zero => exact ⟨0, by simp [isActive], by simp [rank]⟩
        | succ a =>
          simp [compress] at ha
          obtain ⟨g, hg, hr⟩ := ih ys a hx ha
          exact ⟨g + 1, by rw [isActive_cons_succ]; exact hg, by simp [rank, hr]; omega⟩

theorem rank_lt_nactive (A : List Bool) (g : Nat) (ha : isActive A g = true) : rank A g < nactive A := by
  have h := getElem?_compress_rank A (List.range A.length) g (by simp) ha
  have hg := isActive_lt ha
  rw [List.getElem?_range hg] at h
  have : rank A g < (compress A (List.range A.length)).length := by
    apply Classical.byContradiction
    intro hn
    rw [List.getElem?_eq_none (by omega)] at h
    cases h
  rwa [compress_length _ _ (by simp)] at this

/-- the active index determines the active cell -/
theorem rank_inj (A : List Bool) (g g' : Nat) (ha : isActive A g = true) (ha' : isActive A g' = true)
    (h : rank A g = rank A g') : g = g' := by
  have h1 := getElem?_compress_rank A (List.range A.length) g (by simp) ha
  have h2 := getElem?_compress_rank A (List.range A.length) g' (by simp) ha'
  rw [List.getElem?_range (isActive_lt ha)] at h1
  rw [List.getElem?_range (isActive_lt ha')] at h2
  rw [h] at h1
  rw [h1] at h2
  exact Option.some.inj h2

theorem cellAt_compress_rank [Scalar α] (A : List Bool) (x : Arr α) (g : Nat)
    (hx : x.length = A.length) (ha : isActive A g = true) :
    cellAt (compress A x) (rank A g) = cellAt x g := by
  simp only [cellAt, List.getD_eq_getElem?_getD, getElem?_compress_rank A x g hx ha]

/-! ## the implementation loop, pointwise -/

section Loop
variable {α : Type} [Scalar α]

theorem foldl_set_length (F : Idx → Cell α → Cell α) (L : List Idx) (t : Arr α) :
    (L.foldl (fun t e => t.set e.a (F e (cellAt t e.a))) t).length = t.length := by
  induction L generalizing t with
  | nil => rfl
  | cons e L ih => simp [List.foldl_cons, ih]

theorem foldl_set_get_not_mem (F : Idx → Cell α → Cell α) (L : List Idx) (t : Arr α) (i : Nat)
    (h : ∀ e ∈ L, e.a ≠ i) :
    (L.foldl (fun t e => t.set e.a (F e (cellAt t e.a))) t)[i]? = t[i]? := by
  induction L generalizing t with
  | nil => rfl
  | cons e L ih =>
    simp only [List.foldl_cons]
    rw [ih _ (fun e' he' => h e' (List.mem_cons_of_mem _ he'))]
    have : e.a ≠ i := h e (List.mem_cons_self ..)
    simp [List.getElem?_set, this]

theorem foldl_set_get_mem (F : Idx → Cell α → Cell α) (L : List Idx) (t : Arr α)
    (hnd : (L.map (·.a)).Nodup) (e : Idx) (he : e ∈ L) :
    (L.foldl (fun t e => t.set e.a (F e (cellAt t e.a))) t)[e.a]? = t[e.a]?.map (F e) := by
  induction L generalizing t with
  | nil => cases he
  | cons e0 L ih =>
    simp only [List.foldl_cons]
    simp only [List.map_cons, List.nodup_cons, List.mem_map, not_exists, not_and] at hnd
    rcases List.mem_cons.mp he with rfl | he'
    · rw [foldl_set_get_not_mem F L _ e.a (fun e' he' h => hnd.1 e' he' h)]
      simp only [List.getElem?_set, if_true]
      by_cases hl : e.a < t.length
      · simp [hl, cellAt, List.getD_eq_getElem?_getD, List.getElem?_eq_getElem hl]
      · simp [hl, List.getElem?_eq_none (Nat.le_of_not_lt hl)]
    · rw [ih _ hnd.2 he']
      have : e0.a ≠ e.a := fun h => hnd.1 e he' h.symm
      simp [List.getElem?_set, this]

end Loop

/-! ## the generic refinement of one loop -/

/-- What `Box::initIndexList` / `region_index` must deliver for a selection `sel`:
exactly the ACTIVE selected cells, with the true active index and the selected data index,
and no active index twice. -/
structure IdxSpec (A : List Bool) (sel : Nat → Option Nat) (L : List Idx) : Prop where
  mem : ∀ e, e ∈ L ↔ (isActive A e.g = true ∧ sel e.g = some e.d ∧ e.a = rank A e.g)
  nodup : (L.map (·.a)).Nodup

section Refine
variable {α : Type} [Scalar α]

theorem any_bad_eq (K : Kernel α) (A : List Bool) (sel : Nat → Option Nat) (L : List Idx)
    (hs : IdxSpec A sel L) (src tgt : Arr α) (hsrc : src.length = A.length) (htgt : tgt.length = A.length) :
    (List.range A.length).any (refBad K A sel src tgt) =
    L.any (fun e => K.bad e.d (cellAt (compress A src) e.a) (cellAt (compress A tgt) e.a)) := by
  rw [Bool.eq_iff_iff]
  simp only [List.any_eq_true, List.mem_range, refBad, Bool.and_eq_true]
  constructor
  · rintro ⟨g, _, hact, hb⟩
    cases hsel : sel g with
    | none => simp [hsel] at hb
    | some d =>
      simp only [hsel] at hb
      refine ⟨⟨g, rank A g, d⟩, (hs.mem _).mpr ⟨hact, hsel, rfl⟩, ?_⟩
      simp only [cellAt_compress_rank A src g hsrc hact, cellAt_compress_rank A tgt g htgt hact]
      exact hb
  · rintro ⟨e, he, hb⟩
    obtain ⟨hact, hsel, ha⟩ := (hs.mem e).mp he
    refine ⟨e.g, isActive_lt hact, hact, ?_⟩
    simp only [hsel]
    rw [ha, cellAt_compress_rank A src _ hsrc hact, cellAt_compress_rank A tgt _ htgt hact] at hb
    exact hb

/-- **One loop of the implementation refines the map over the global grid.** -/
theorem apply_refines (K : Kernel α) (A : List Bool) (sel : Nat → Option Nat) (L : List Idx)
    (hs : IdxSpec A sel L) (src tgt : Arr α) (hsrc : src.length = A.length) (htgt : tgt.length = A.length) :
    (refApply K A sel src tgt).map (compress A) = implApply K L (compress A src) (compress A tgt) := by
  unfold refApply implApply
  rw [any_bad_eq K A sel L hs src tgt hsrc htgt]
  split
  · rfl
  · simp only [Option.map_some, Option.some.injEq]
    apply List.ext_getElem?
    intro a
    have hlenL : (compress A (tgt.mapIdx (refUpd K sel src))).length = nactive A :=
      compress_length _ _ (by simp [htgt])
    by_cases ha : a < nactive A
    · obtain ⟨g, hact, hr⟩ := exists_active_of_lt A tgt a htgt (by rw [compress_length _ _ htgt]; exact ha)
      subst hr
      rw [getElem?_compress_rank A _ g (by simp [htgt]) hact, List.getElem?_mapIdx]
      unfold refUpd
      cases hsel : sel g with
      | some d =>
        have hmem : (⟨g, rank A g, d⟩ : Idx) ∈ L := (hs.mem _).mpr ⟨hact, hsel, rfl⟩
        have := foldl_set_get_mem (fun e c => K.upd e.d (cellAt (compress A src) e.a) c) L (compress A tgt) hs.nodup _ hmem
        simp only at this
        rw [this, getElem?_compress_rank A tgt g htgt hact, cellAt_compress_rank A src g hsrc hact]
      | none =>
        have hnot : ∀ e ∈ L, e.a ≠ rank A g := by
          intro e he hea
          obtain ⟨hact', hsel', ha'⟩ := (hs.mem e).mp he
          have : e.g = g := rank_inj A _ _ hact' hact (by rw [← ha', hea])
          rw [this, hsel] at hsel'
          cases hsel'
        rw [foldl_set_get_not_mem (fun e c => K.upd e.d (cellAt (compress A src) e.a) c) L _ _ hnot,
          getElem?_compress_rank A tgt g htgt hact]
        cases tgt[g]? <;> rfl
    · rw [List.getElem?_eq_none (by omega), List.getElem?_eq_none]
      rw [foldl_set_length (fun e c => K.upd e.d (cellAt (compress A src) e.a) c), compress_length _ _ htgt]
      omega

end Refine

/-! ## GridDims index maps (the two small lemmas shared in spirit with C13) -/

theorem globalIndex_ijk (D : Dims) (g : Nat) :
    D.globalIndex (D.ijk g).1 (D.ijk g).2.1 (D.ijk g).2.2 = g := by
  simp only [Dims.globalIndex, Dims.ijk]
  have h1 := Nat.mod_add_div (g / D.nx) D.ny
  have h2 := Nat.mod_add_div g D.nx
  rw [Nat.mul_comm (g / D.nx / D.ny) D.ny, h1, h2]

theorem ijk_globalIndex (D : Dims) (i j k : Nat) (hi : i < D.nx) (hj : j < D.ny) :
    D.ijk (D.globalIndex i j k) = (i, j, k) := by
  simp only [Dims.globalIndex, Dims.ijk]
  have hx : 0 < D.nx := by omega
  have hy : 0 < D.ny := by omega
  have e1 : (i + D.nx * (j + k * D.ny)) % D.nx = i := by
    rw [Nat.add_mul_mod_self_left, Nat.mod_eq_of_lt hi]
  have e2 : (i + D.nx * (j + k * D.ny)) / D.nx = j + k * D.ny := by
    rw [Nat.add_mul_div_left _ _ hx, Nat.div_eq_of_lt hi, Nat.zero_add]
  have e3 : (j + k * D.ny) % D.ny = j := by
    rw [Nat.add_mul_mod_self_right, Nat.mod_eq_of_lt hj]
  have e4 : (j + k * D.ny) / D.ny = k := by
    rw [Nat.add_mul_div_right _ _ hy, Nat.div_eq_of_lt hj, Nat.zero_add]
  rw [e1, e2, e3, e4]

theorem globalIndex_lt (D : Dims) (i j k : Nat) (hi : i < D.nx) (hj : j < D.ny) (hk : k < D.nz) :
    D.globalIndex i j k < D.size := by
  simp only [Dims.globalIndex, Dims.size]
  have h1 : j + k * D.ny + 1 ≤ D.nz * D.ny := by
    have : (k + 1) * D.ny ≤ D.nz * D.ny := Nat.mul_le_mul_right _ hk
    rw [Nat.add_mul] at this
    omega
  have h2 : D.nx * (j + k * D.ny + 1) ≤ D.nx * (D.nz * D.ny) := Nat.mul_le_mul_left _ h1
  rw [Nat.mul_add] at h2
  have h3 : D.nx * D.ny * D.nz = D.nx * (D.nz * D.ny) := by
    rw [Nat.mul_assoc, Nat.mul_comm D.ny D.nz]
  omega

theorem ijk_lt (D : Dims) (g : Nat) (h : g < D.size) :
    (D.ijk g).1 < D.nx ∧ (D.ijk g).2.1 < D.ny ∧ (D.ijk g).2.2 < D.nz := by
  simp only [Dims.ijk, Dims.size] at *
  have hx : 0 < D.nx := by
    apply Nat.pos_of_ne_zero; intro h0; simp [h0] at h
  have hy : 0 < D.ny := by
    apply Nat.pos_of_ne_zero; intro h0; simp [h0] at h
  refine ⟨Nat.mod_lt _ hx, Nat.mod_lt _ hy, ?_⟩
  rw [Nat.div_div_eq_div_mul]
  exact (Nat.div_lt_iff_lt_mul (Nat.mul_pos hx hy)).mpr (by rw [Nat.mul_comm]; exact h)

/-! ## `index_list_spec` -/

/-- a data index of a valid box and the global cell it denotes -/
theorem boxSel_iff (D : Dims) (b : Box) (hv : b.Valid D) (g d : Nat) :
    boxSel D b g = some d ↔ d < b.size ∧ b.globalOf D d = g := by
  obtain ⟨hni, hnj, hnk, hbi, hbj, hbk⟩ := hv
  constructor
  · intro h
    simp only [boxSel, boxPos] at h
    split at h
    · rename_i hc
      obtain ⟨h1, h2, h3, h4, h5, h6, h7⟩ := hc
      have hd := Option.some.inj h
      have hlt := globalIndex_lt b.dims ((D.ijk g).1 - b.oi) ((D.ijk g).2.1 - b.oj) ((D.ijk g).2.2 - b.ok)
        (by simp only [Box.dims]; omega) (by simp only [Box.dims]; omega) (by simp only [Box.dims]; omega)
      have hijk := ijk_globalIndex b.dims ((D.ijk g).1 - b.oi) ((D.ijk g).2.1 - b.oj) ((D.ijk g).2.2 - b.ok)
        (by simp only [Box.dims]; omega) (by simp only [Box.dims]; omega)
      have hgi : b.dims.globalIndex ((D.ijk g).1 - b.oi) ((D.ijk g).2.1 - b.oj) ((D.ijk g).2.2 - b.ok) = d := by
        simpa [Dims.globalIndex, Box.dims] using hd
      rw [hgi] at hlt hijk
      refine ⟨by simpa [Box.size, Dims.size, Box.dims] using hlt, ?_⟩
      simp only [Box.globalOf, hijk]
      rw [Nat.sub_add_cancel h1, Nat.sub_add_cancel h3, Nat.sub_add_cancel h5]
      exact globalIndex_ijk D g
    · cases h
  · rintro ⟨hd, hg⟩
    have hb := ijk_lt b.dims d (by simpa [Box.size, Dims.size, Box.dims] using hd)
    obtain ⟨b1, b2, b3⟩ := hb
    have b1' : (b.dims.ijk d).1 < b.ni := b1
    have b2' : (b.dims.ijk d).2.1 < b.nj := b2
    have b3' : (b.dims.ijk d).2.2 < b.nk := b3
    simp only [Box.globalOf] at hg
    have hijk := ijk_globalIndex D ((b.dims.ijk d).1 + b.oi) ((b.dims.ijk d).2.1 + b.oj) ((b.dims.ijk d).2.2 + b.ok)
      (by omega) (by omega)
    have hlt := globalIndex_lt D ((b.dims.ijk d).1 + b.oi) ((b.dims.ijk d).2.1 + b.oj) ((b.dims.ijk d).2.2 + b.ok)
      (by omega) (by omega) (by omega)
    rw [hg] at hijk hlt
    simp only [boxSel, boxPos, hijk]
    rw [if_pos ⟨by omega, by omega, by omega, by omega, by omega, by omega, hlt⟩]
    congr 1
    simp only [Nat.add_sub_cancel]
    exact globalIndex_ijk b.dims d

theorem globalOf_inj (D : Dims) (b : Box) (hv : b.Valid D) (d d' : Nat) (hd : d < b.size) (hd' : d' < b.size)
    (h : b.globalOf D d = b.globalOf D d') : d = d' := by
  have h1 := (boxSel_iff D b hv (b.globalOf D d) d).mpr ⟨hd, rfl⟩
  have h2 := (boxSel_iff D b hv (b.globalOf D d) d').mpr ⟨hd', h.symm⟩
  rw [h1] at h2
  exact Option.some.inj h2

theorem mem_indexList (D : Dims) (A : List Bool) (b : Box) (e : Idx) :
    e ∈ indexList D A b ↔ ∃ d, d < b.size ∧ isActive A (b.globalOf D d) = true ∧
      e = ⟨b.globalOf D d, rank A (b.globalOf D d), d⟩ := by
  unfold indexList
  simp only [List.mem_filterMap, List.mem_range]
  constructor
  · rintro ⟨d, hd, h⟩
    by_cases ha : isActive A (b.globalOf D d) = true
    · simp only [ha, if_true, Option.some.injEq] at h
      exact ⟨d, hd, ha, h.symm⟩
    · simp [ha] at h
  · rintro ⟨d, hd, ha, rfl⟩
    exact ⟨d, hd, by simp [ha]⟩

/-- **`Box::initIndexList` enumerates exactly the active cells of the box, each once, with
the true active index and data index = row-major position inside the box.** -/
theorem indexList_spec (D : Dims) (A : List Bool) (b : Box) (hv : b.Valid D) :
    IdxSpec A (boxSel D b) (indexList D A b) := by
  constructor
  · intro e
    rw [mem_indexList]
    constructor
    · rintro ⟨d, hd, ha, rfl⟩
      exact ⟨ha, (boxSel_iff D b hv _ d).mpr ⟨hd, rfl⟩, rfl⟩
    · rintro ⟨ha, hs, hr⟩
      obtain ⟨hd, hg⟩ := (boxSel_iff D b hv _ _).mp hs
      refine ⟨e.d, hd, by rw [hg]; exact ha, ?_⟩
      cases e
      simp only at hg hr ⊢
      rw [hg, hr]
  · unfold indexList
    rw [List.map_filterMap]
    have hp : List.Pairwise (fun x y => x ∈ List.range b.size ∧ y ∈ List.range b.size ∧ x ≠ y) (List.range b.size) :=
      List.Pairwise.and_mem.mp List.nodup_range
    refine List.Pairwise.filterMap _ ?_ hp
    intro d d' ⟨hd, hd', hne⟩ a ha a' ha' heq
    simp only [List.mem_range] at hd hd'
    by_cases h1 : isActive A (b.globalOf D d) = true
    · by_cases h2 : isActive A (b.globalOf D d') = true
      · simp only [h1, h2, if_true, Option.map_some, Option.some.injEq] at ha ha'
        apply hne
        apply globalOf_inj D b hv d d' hd hd'
        apply rank_inj A _ _ h1 h2
        rw [ha, ha', heq]
      · simp [h2] at ha'
    · simp [h1] at ha

/-- the data indices come in increasing order: the list is in row-major order of the box -/
theorem indexList_sorted (D : Dims) (A : List Bool) (b : Box) :
    ((indexList D A b).map (·.d)).Pairwise (· < ·) := by
  unfold indexList
  rw [List.map_filterMap]
  refine List.Pairwise.filterMap _ ?_ List.pairwise_lt_range
  intro d d' hlt a ha a' ha'
  by_cases h1 : isActive A (b.globalOf D d) = true
  · by_cases h2 : isActive A (b.globalOf D d') = true
    · simp only [h1, h2, if_true, Option.map_some, Option.some.injEq] at ha ha'
      omega
    · simp [h2] at ha'
  · simp [h1] at ha

/-- `region_index` on the compressed region array selects the active cells of the region of
the global array -/
theorem regionIndex_spec (A : List Bool) (reg : Arr Int) (r : Int) (hl : reg.length = A.length) :
    IdxSpec A (regionSel reg r) (regionIndex A (compress A reg) r) := by
  constructor
  · intro e
    unfold regionIndex regionSel
    simp only [List.mem_filterMap, List.mem_range]
    constructor
    · rintro ⟨g, hg, h⟩
      by_cases ha : isActive A g = true
      · simp only [ha, if_true] at h
        rw [cellAt_compress_rank A reg g hl ha] at h
        by_cases hr : (cellAt reg g).v = r
        · simp only [hr, if_true, Option.some.injEq] at h
          subst h
          simp [ha, hr]
        · simp [hr] at h
      · simp [ha] at h
    · rintro ⟨ha, hs, hr⟩
      refine ⟨e.g, isActive_lt ha, ?_⟩
      simp only [ha, if_true]
      rw [cellAt_compress_rank A reg e.g hl ha]
      by_cases hv : (cellAt reg e.g).v = r
      · simp only [hv, if_true, Option.some.injEq] at hs ⊢
        obtain ⟨eg, ea, ed⟩ := e
        simp only at hs hr ⊢
        subst hs
        subst hr
        rfl
      · simp [hv] at hs
  · unfold regionIndex
    rw [List.map_filterMap]
    refine List.Pairwise.filterMap _ ?_ List.nodup_range
    intro g g' hne a ha a' ha' heq
    by_cases h1 : isActive A g = true
    · by_cases h2 : isActive A g' = true
      · simp only [h1, h2, if_true] at ha ha'
        split at ha
        · split at ha'
          · simp only [Option.map_some, Option.some.injEq] at ha ha'
            exact hne (rank_inj A g g' h1 h2 (by rw [ha, ha', heq]))
          · simp at ha'
        · simp at ha
      · simp [h2] at ha'
    · simp [h1] at ha

end OpmVerif.FieldProps
