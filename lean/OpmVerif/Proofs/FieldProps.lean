/-
  C12 — lemmas: index lists, compress/rank, the generic refinement of one loop, the
  front end, whole programs, independence of inactive cells.
-/
import OpmVerif.Model.FieldProps

namespace OpmVerif.FieldProps

/-! ## rank / compress -/

theorem isActive_nil (g : Nat) : isActive [] g = false := by simp [isActive]
theorem isActive_cons_zero (b : Bool) (bs : List Bool) : isActive (b :: bs) 0 = b := by simp [isActive]
theorem isActive_cons_succ (b : Bool) (bs : List Bool) (g : Nat) :
    isActive (b :: bs) (g + 1) = isActive bs g := by simp [isActive]

theorem isActive_lt {A : List Bool} {g : Nat} (h : isActive A g = true) : g < A.length := by
  induction A generalizing g with
  | nil => simp [isActive] at h
  | cons b bs ih =>
    cases g with
    | zero => simp
    | succ g => rw [isActive_cons_succ] at h; have := ih h; simp; omega

theorem compress_length {β : Type} (A : List Bool) (x : List β) (h : x.length = A.length) :
    (compress A x).length = nactive A := by
  induction A generalizing x with
  | nil => simp [compress, nactive]
  | cons b bs ih =>
    cases x with
    | nil => simp at h
    | cons y ys =>
      simp at h
      cases b
      · simp [compress, nactive, ih ys h]
      · simp [compress, nactive, ih ys h]

/-- P1: the active cell `g` of a global array sits at position `rank A g` of its compression. -/
theorem getElem?_compress_rank {β : Type} (A : List Bool) (x : List β) (g : Nat)
    (hx : x.length = A.length) (ha : isActive A g = true) :
    (compress A x)[rank A g]? = x[g]? := by
  induction A generalizing x g with
  | nil => simp [isActive] at ha
  | cons b bs ih =>
    cases x with
    | nil => simp at hx
    | cons y ys =>
      simp at hx
      cases g with
      | zero =>
        rw [isActive_cons_zero] at ha
        subst ha
        simp [compress, rank]
      | succ g =>
        rw [isActive_cons_succ] at ha
        cases b
        · simp [compress, rank, ih ys g hx ha]
        · simp [compress, rank, Nat.add_comm 1, ih ys g hx ha]

/-- P2: every position of the compressed array is the rank of some active global cell. -/
theorem exists_active_of_lt {β : Type} (A : List Bool) (x : List β) (a : Nat)
    (hx : x.length = A.length) (ha : a < (compress A x).length) :
    ∃ g, isActive A g = true ∧ rank A g = a := by
  induction A generalizing x a with
  | nil => simp [compress] at ha
  | cons b bs ih =>
    cases x with
    | nil => simp at hx
    | cons y ys =>
      simp at hx
      cases b
      · simp [compress] at ha
        obtain ⟨g, hg, hr⟩ := ih ys a hx ha
        exact ⟨g + 1, by rw [isActive_cons_succ]; exact hg, by simp [rank, hr]⟩
      · cases a with
        | zero => exact ⟨0, by simp [isActive], by simp [rank]⟩
        | succ a =>
          simp [compress] at ha
          obtain ⟨g, hg, hr⟩ := ih ys a hx ha
          exact ⟨g + 1, by rw [isActive_cons_succ]; exact hg, by simp [rank, hr]; omega⟩

theorem rank_lt_nactive (A : List Bool) (g : Nat) (ha : isActive A g = true) : rank A g < nactive A := by
  have h := getElem?_compress_rank A (List.range A.length) g (by simp) ha
  have hg := isActive_lt ha
  rw [List.getElem?_range hg] at h
  have : rank A g < (compress A (List.range A.length)).length := by
    apply Classical.byContradiction
    intro hn
    rw [List.getElem?_eq_none (by omega)] at h
    cases h
  rwa [compress_length _ _ (by simp)] at this

/-- the active index determines the active cell -/
theorem rank_inj (A : List Bool) (g g' : Nat) (ha : isActive A g = true) (ha' : isActive A g' = true)
    (h : rank A g = rank A g') : g = g' := by
  have h1 := getElem?_compress_rank A (List.range A.length) g (by simp) ha
  have h2 := getElem?_compress_rank A (List.range A.length) g' (by simp) ha'
  rw [List.getElem?_range (isActive_lt ha)] at h1
  rw [List.getElem?_range (isActive_lt ha')] at h2
  rw [h] at h1
  rw [h1] at h2
  exact Option.some.inj h2

theorem cellAt_compress_rank [Scalar α] (A : List Bool) (x : Arr α) (g : Nat)
    (hx : x.length = A.length) (ha : isActive A g = true) :
    cellAt (compress A x) (rank A g) = cellAt x g := by
  simp only [cellAt, List.getD_eq_getElem?_getD, getElem?_compress_rank A x g hx ha]

/-! ## the implementation loop, pointwise -/

section Loop
variable {α : Type} [Scalar α]

theorem foldl_set_length (F : Idx → Cell α → Cell α) (L : List Idx) (t : Arr α) :
    (L.foldl (fun t e => t.set e.a (F e (cellAt t e.a))) t).length = t.length := by
  induction L generalizing t with
  | nil => rfl
  | cons e L ih => simp [List.foldl_cons, ih]

theorem foldl_set_get_not_mem (F : Idx → Cell α → Cell α) (L : List Idx) (t : Arr α) (i : Nat)
    (h : ∀ e ∈ L, e.a ≠ i) :
    (L.foldl (fun t e => t.set e.a (F e (cellAt t e.a))) t)[i]? = t[i]? := by
  induction L generalizing t with
  | nil => rfl
  | cons e L ih =>
    simp only [List.foldl_cons]
    rw [ih _ (fun e' he' => h e' (List.mem_cons_of_mem _ he'))]
    have : e.a ≠ i := h e (List.mem_cons_self ..)
    simp [List.getElem?_set, this]

theorem foldl_set_get_mem (F : Idx → Cell α → Cell α) (L : List Idx) (t : Arr α)
    (hnd : (L.map (·.a)).Nodup) (e : Idx) (he : e ∈ L) :
    (L.foldl (fun t e => t.set e.a (F e (cellAt t e.a))) t)[e.a]? = t[e.a]?.map (F e) := by
  induction L generalizing t with
  | nil => cases he
  | cons e0 L ih =>
    simp only [List.foldl_cons]
    simp only [List.map_cons, List.nodup_cons, List.mem_map, not_exists, not_and] at hnd
    rcases List.mem_cons.mp he with rfl | he'
    · rw [foldl_set_get_not_mem F L _ e.a (fun e' he' h => hnd.1 e' he' h)]
      simp only [List.getElem?_set, if_true]
      by_cases hl : e.a < t.length
      · simp [hl, cellAt, List.getD_eq_getElem?_getD, List.getElem?_eq_getElem hl]
      · simp [hl, List.getElem?_eq_none (Nat.le_of_not_lt hl)]
    · rw [ih _ hnd.2 he']
      have : e0.a ≠ e.a := fun h => hnd.1 e he' h.symm
      simp [List.getElem?_set, this]

end Loop

/-! ## the generic refinement of one loop -/

/-- What `Box::initIndexList` / `region_index` must deliver for a selection `sel`:
exactly the ACTIVE selected cells, with the true active index and the selected data index,
and no active index twice. -/
structure IdxSpec (A : List Bool) (sel : Nat → Option Nat) (L : List Idx) : Prop where
  mem : ∀ e, e ∈ L ↔ (isActive A e.g = true ∧ sel e.g = some e.d ∧ e.a = rank A e.g)
  nodup : (L.map (·.a)).Nodup

section Refine
variable {α : Type} [Scalar α]

theorem any_bad_eq (K : Kernel α) (A : List Bool) (sel : Nat → Option Nat) (L : List Idx)
    (hs : IdxSpec A sel L) (src tgt : Arr α) (hsrc : src.length = A.length) (htgt : tgt.length = A.length) :
    (List.range A.length).any (refBad K A sel src tgt) =
    L.any (fun e => K.bad e.d (cellAt (compress A src) e.a) (cellAt (compress A tgt) e.a)) := by
  rw [Bool.eq_iff_iff]
  simp only [List.any_eq_true, List.mem_range, refBad, Bool.and_eq_true]
  constructor
  · rintro ⟨g, _, hact, hb⟩
    cases hsel : sel g with
    | none => simp [hsel] at hb
    | some d =>
      simp only [hsel] at hb
      refine ⟨⟨g, rank A g, d⟩, (hs.mem _).mpr ⟨hact, hsel, rfl⟩, ?_⟩
      simp only [cellAt_compress_rank A src g hsrc hact, cellAt_compress_rank A tgt g htgt hact]
      exact hb
  · rintro ⟨e, he, hb⟩
    obtain ⟨hact, hsel, ha⟩ := (hs.mem e).mp he
    refine ⟨e.g, isActive_lt hact, hact, ?_⟩
    simp only [hsel]
    rw [ha, cellAt_compress_rank A src _ hsrc hact, cellAt_compress_rank A tgt _ htgt hact] at hb
    exact hb

/-- **One loop of the implementation refines the map over the global grid.** -/
theorem apply_refines (K : Kernel α) (A : List Bool) (sel : Nat → Option Nat) (L : List Idx)
    (hs : IdxSpec A sel L) (src tgt : Arr α) (hsrc : src.length = A.length) (htgt : tgt.length = A.length) :
    (refApply K A sel src tgt).map (compress A) = implApply K L (compress A src) (compress A tgt) := by
  unfold refApply implApply
  rw [any_bad_eq K A sel L hs src tgt hsrc htgt]
  split
  · rfl
  · simp only [Option.map_some, Option.some.injEq]
    apply List.ext_getElem?
    intro a
    have hlenL : (compress A (tgt.mapIdx (refUpd K sel src))).length = nactive A :=
      compress_length _ _ (by simp [htgt])
    by_cases ha : a < nactive A
    · obtain ⟨g, hact, hr⟩ := exists_active_of_lt A tgt a htgt (by rw [compress_length _ _ htgt]; exact ha)
      subst hr
      rw [getElem?_compress_rank A _ g (by simp [htgt]) hact, List.getElem?_mapIdx]
      unfold refUpd
      cases hsel : sel g with
      | some d =>
        have hmem : (⟨g, rank A g, d⟩ : Idx) ∈ L := (hs.mem _).mpr ⟨hact, hsel, rfl⟩
        have := foldl_set_get_mem (fun e c => K.upd e.d (cellAt (compress A src) e.a) c) L (compress A tgt) hs.nodup _ hmem
        simp only at this
        rw [this, getElem?_compress_rank A tgt g htgt hact, cellAt_compress_rank A src g hsrc hact]
      | none =>
        have hnot : ∀ e ∈ L, e.a ≠ rank A g := by
          intro e he hea
          obtain ⟨hact', hsel', ha'⟩ := (hs.mem e).mp he
          have : e.g = g := rank_inj A _ _ hact' hact (by rw [← ha', hea])
          rw [this, hsel] at hsel'
          cases hsel'
        rw [foldl_set_get_not_mem (fun e c => K.upd e.d (cellAt (compress A src) e.a) c) L _ _ hnot,
          getElem?_compress_rank A tgt g htgt hact]
        cases tgt[g]? <;> rfl
    · rw [List.getElem?_eq_none (by omega), List.getElem?_eq_none]
      rw [foldl_set_length (fun e c => K.upd e.d (cellAt (compress A src) e.a) c), compress_length _ _ htgt]
      omega

end Refine

/-! ## GridDims index maps (the two small lemmas shared in spirit with C13) -/

theorem globalIndex_ijk (D : Dims) (g : Nat) :
    D.globalIndex (D.ijk g).1 (D.ijk g).2.1 (D.ijk g).2.2 = g := by
  simp only [Dims.globalIndex, Dims.ijk]
  have h1 := Nat.mod_add_div (g / D.nx) D.ny
  have h2 := Nat.mod_add_div g D.nx
  rw [Nat.mul_comm (g / D.nx / D.ny) D.ny, h1, h2]

theorem ijk_globalIndex (D : Dims) (i j k : Nat) (hi : i < D.nx) (hj : j < D.ny) :
    D.ijk (D.globalIndex i j k) = (i, j, k) := by
  simp only [Dims.globalIndex, Dims.ijk]
  have hx : 0 < D.nx := by omega
  have hy : 0 < D.ny := by omega
  have e1 : (i + D.nx * (j + k * D.ny)) % D.nx = i := by
    rw [Nat.add_mul_mod_self_left, Nat.mod_eq_of_lt hi]
  have e2 : (i + D.nx * (j + k * D.ny)) / D.nx = j + k * D.ny := by
    rw [Nat.add_mul_div_left _ _ hx, Nat.div_eq_of_lt hi, Nat.zero_add]
  have e3 : (j + k * D.ny) % D.ny = j := by
    rw [Nat.add_mul_mod_self_right, Nat.mod_eq_of_lt hj]
  have e4 : (j + k * D.ny) / D.ny = k := by
    rw [Nat.add_mul_div_right _ _ hy, Nat.div_eq_of_lt hj, Nat.zero_add]
  rw [e1, e2, e3, e4]

theorem globalIndex_lt (D : Dims) (i j k : Nat) (hi : i < D.nx) (hj : j < D.ny) (hk : k < D.nz) :
    D.globalIndex i j k < D.size := by
  simp only [Dims.globalIndex, Dims.size]
  have h1 : j + k * D.ny + 1 ≤ D.nz * D.ny := by
    have : (k + 1) * D.ny ≤ D.nz * D.ny := Nat.mul_le_mul_right _ hk
    rw [Nat.add_mul] at this
    omega
  have h2 : D.nx * (j + k * D.ny + 1) ≤ D.nx * (D.nz * D.ny) := Nat.mul_le_mul_left _ h1
  rw [Nat.mul_add] at h2
  have h3 : D.nx * D.ny * D.nz = D.nx * (D.nz * D.ny) := by
    rw [Nat.mul_assoc, Nat.mul_comm D.ny D.nz]
  omega

theorem ijk_lt (D : Dims) (g : Nat) (h : g < D.size) :
    (D.ijk g).1 < D.nx ∧ (D.ijk g).2.1 < D.ny ∧ (D.ijk g).2.2 < D.nz := by
  simp only [Dims.ijk, Dims.size] at *
  have hx : 0 < D.nx := by
    apply Nat.pos_of_ne_zero; intro h0; simp [h0] at h
  have hy : 0 < D.ny := by
    apply Nat.pos_of_ne_zero; intro h0; simp [h0] at h
  refine ⟨Nat.mod_lt _ hx, Nat.mod_lt _ hy, ?_⟩
  rw [Nat.div_div_eq_div_mul]
  exact (Nat.div_lt_iff_lt_mul (Nat.mul_pos hx hy)).mpr (by rw [Nat.mul_comm]; exact h)

/-! ## `index_list_spec` -/

/-- a data index of a valid box and the global cell it denotes -/
theorem boxSel_iff (D : Dims) (b : Box) (hv : b.Valid D) (g d : Nat) :
    boxSel D b g = some d ↔ d < b.size ∧ b.globalOf D d = g := by
  obtain ⟨hni, hnj, hnk, hbi, hbj, hbk⟩ := hv
  constructor
  · intro h
    simp only [boxSel, boxPos] at h
    split at h
    · rename_i hc
      obtain ⟨h1, h2, h3, h4, h5, h6, h7⟩ := hc
      have hd := Option.some.inj h
      have hlt := globalIndex_lt b.dims ((D.ijk g).1 - b.oi) ((D.ijk g).2.1 - b.oj) ((D.ijk g).2.2 - b.ok)
        (by simp only [Box.dims]; omega) (by simp only [Box.dims]; omega) (by simp only [Box.dims]; omega)
      have hijk := ijk_globalIndex b.dims ((D.ijk g).1 - b.oi) ((D.ijk g).2.1 - b.oj) ((D.ijk g).2.2 - b.ok)
        (by simp only [Box.dims]; omega) (by simp only [Box.dims]; omega)
      have hgi : b.dims.globalIndex ((D.ijk g).1 - b.oi) ((D.ijk g).2.1 - b.oj) ((D.ijk g).2.2 - b.ok) = d := by
        simpa [Dims.globalIndex, Box.dims] using hd
      rw [hgi] at hlt hijk
      refine ⟨by simpa [Box.size, Dims.size, Box.dims] using hlt, ?_⟩
      simp only [Box.globalOf, hijk]
      rw [Nat.sub_add_cancel h1, Nat.sub_add_cancel h3, Nat.sub_add_cancel h5]
      exact globalIndex_ijk D g
    · cases h
  · rintro ⟨hd, hg⟩
    have hb := ijk_lt b.dims d (by simpa [Box.size, Dims.size, Box.dims] using hd)
    obtain ⟨b1, b2, b3⟩ := hb
    have b1' : (b.dims.ijk d).1 < b.ni := b1
    have b2' : (b.dims.ijk d).2.1 < b.nj := b2
    have b3' : (b.dims.ijk d).2.2 < b.nk := b3
    simp only [Box.globalOf] at hg
    have hijk := ijk_globalIndex D ((b.dims.ijk d).1 + b.oi) ((b.dims.ijk d).2.1 + b.oj) ((b.dims.ijk d).2.2 + b.ok)
      (by omega) (by omega)
    have hlt := globalIndex_lt D ((b.dims.ijk d).1 + b.oi) ((b.dims.ijk d).2.1 + b.oj) ((b.dims.ijk d).2.2 + b.ok)
      (by omega) (by omega) (by omega)
    rw [hg] at hijk hlt
    simp only [boxSel, boxPos, hijk]
    rw [if_pos ⟨by omega, by omega, by omega, by omega, by omega, by omega, hlt⟩]
    congr 1
    simp only [Nat.add_sub_cancel]
    exact globalIndex_ijk b.dims d

theorem globalOf_inj (D : Dims) (b : Box) (hv : b.Valid D) (d d' : Nat) (hd : d < b.size) (hd' : d' < b.size)
    (h : b.globalOf D d = b.globalOf D d') : d = d' := by
  have h1 := (boxSel_iff D b hv (b.globalOf D d) d).mpr ⟨hd, rfl⟩
  have h2 := (boxSel_iff D b hv (b.globalOf D d) d').mpr ⟨hd', h.symm⟩
  rw [h1] at h2
  exact Option.some.inj h2

theorem mem_indexList (D : Dims) (A : List Bool) (b : Box) (e : Idx) :
    e ∈ indexList D A b ↔ ∃ d, d < b.size ∧ isActive A (b.globalOf D d) = true ∧
      e = ⟨b.globalOf D d, rank A (b.globalOf D d), d⟩ := by
  unfold indexList
  simp only [List.mem_filterMap, List.mem_range]
  constructor
  · rintro ⟨d, hd, h⟩
    by_cases ha : isActive A (b.globalOf D d) = true
    · simp only [ha, if_true, Option.some.injEq] at h
      exact ⟨d, hd, ha, h.symm⟩
    · simp [ha] at h
  · rintro ⟨d, hd, ha, rfl⟩
    exact ⟨d, hd, by simp [ha]⟩

/-- **`Box::initIndexList` enumerates exactly the active cells of the box, each once, with
the true active index and data index = row-major position inside the box.** -/
theorem indexList_spec (D : Dims) (A : List Bool) (b : Box) (hv : b.Valid D) :
    IdxSpec A (boxSel D b) (indexList D A b) := by
  constructor
  · intro e
    rw [mem_indexList]
    constructor
    · rintro ⟨d, hd, ha, rfl⟩
      exact ⟨ha, (boxSel_iff D b hv _ d).mpr ⟨hd, rfl⟩, rfl⟩
    · rintro ⟨ha, hs, hr⟩
      obtain ⟨hd, hg⟩ := (boxSel_iff D b hv _ _).mp hs
      refine ⟨e.d, hd, by rw [hg]; exact ha, ?_⟩
      cases e
      simp only at hg hr ⊢
      rw [hg, hr]
  · unfold indexList
    rw [List.map_filterMap]
    have hp : List.Pairwise (fun x y => x ∈ List.range b.size ∧ y ∈ List.range b.size ∧ x ≠ y) (List.range b.size) :=
      List.Pairwise.and_mem.mp List.nodup_range
    refine List.Pairwise.filterMap _ ?_ hp
    intro d d' ⟨hd, hd', hne⟩ a ha a' ha' heq
    simp only [List.mem_range] at hd hd'
    by_cases h1 : isActive A (b.globalOf D d) = true
    · by_cases h2 : isActive A (b.globalOf D d') = true
      · simp only [h1, h2, if_true, Option.map_some, Option.some.injEq] at ha ha'
        apply hne
        apply globalOf_inj D b hv d d' hd hd'
        apply rank_inj A _ _ h1 h2
        rw [ha, ha', heq]
      · simp [h2] at ha'
    · simp [h1] at ha

/-- the data indices come in increasing order: the list is in row-major order of the box -/
theorem indexList_sorted (D : Dims) (A : List Bool) (b : Box) :
    ((indexList D A b).map (·.d)).Pairwise (· < ·) := by
  unfold indexList
  rw [List.map_filterMap]
  refine List.Pairwise.filterMap _ ?_ List.pairwise_lt_range
  intro d d' hlt a ha a' ha'
  by_cases h1 : isActive A (b.globalOf D d) = true
  · by_cases h2 : isActive A (b.globalOf D d') = true
    · simp only [h1, h2, if_true, Option.map_some, Option.some.injEq] at ha ha'
      omega
    · simp [h2] at ha'
  · simp [h1] at ha

/-- `region_index` on the compressed region array selects the active cells of the region of
the global array -/
theorem regionIndex_spec (A : List Bool) (reg : Arr Int) (r : Int) (hl : reg.length = A.length) :
    IdxSpec A (regionSel reg r) (regionIndex A (compress A reg) r) := by
  constructor
  · intro e
    unfold regionIndex regionSel
    simp only [List.mem_filterMap, List.mem_range]
    constructor
    · rintro ⟨g, hg, h⟩
      by_cases ha : isActive A g = true
      · simp only [ha, if_true] at h
        rw [cellAt_compress_rank A reg g hl ha] at h
        by_cases hr : (cellAt reg g).v = r
        · simp only [hr, if_true, Option.some.injEq] at h
          subst h
          simp [ha, hr]
        · simp [hr] at h
      · simp [ha] at h
    · rintro ⟨ha, hs, hr⟩
      refine ⟨e.g, isActive_lt ha, ?_⟩
      simp only [ha, if_true]
      rw [cellAt_compress_rank A reg e.g hl ha]
      by_cases hv : (cellAt reg e.g).v = r
      · simp only [hv, if_true, Option.some.injEq] at hs ⊢
        obtain ⟨eg, ea, ed⟩ := e
        simp only at hs hr ⊢
        subst hs
        subst hr
        rfl
      · simp [hv] at hs
  · unfold regionIndex
    rw [List.map_filterMap]
    refine List.Pairwise.filterMap _ ?_ List.nodup_range
    intro g g' hne a ha a' ha' heq
    by_cases h1 : isActive A g = true
    · by_cases h2 : isActive A g' = true
      · simp only [h1, h2, if_true] at ha ha'
        split at ha
        · split at ha'
          · simp only [Option.map_some, Option.some.injEq] at ha ha'
            exact hne (rank_inj A g g' h1 h2 (by rw [ha, ha', heq]))
          · simp at ha'
        · simp at ha
      · simp [h2] at ha'
    · simp [h1] at ha

/-! ## the loops as written equal the closed forms -/

theorem rank_append_length (pre post : List Bool) : rank (pre ++ post) pre.length = nactive pre := by
  induction pre with
  | nil => cases post <;> simp [rank, nactive]
  | cons b bs ih =>
    cases b
    · simp [rank, nactive] at ih ⊢; exact ih
    · simp [rank, nactive] at ih ⊢; omega

theorem isActive_append_length (pre : List Bool) (b : Bool) (post : List Bool) :
    isActive (pre ++ b :: post) pre.length = b := by
  simp [isActive]

/-- the loop equals the closed form used in the model -/
theorem regionIndexLoop_eq (region : Arr Int) (r : Int) (pre post : List Bool) :
    regionIndexLoop region r post pre.length (nactive pre) =
      ((List.range post.length).map (· + pre.length)).filterMap fun g =>
        if isActive (pre ++ post) g then
          let a := rank (pre ++ post) g
          if (cellAt region a).v = r then some ⟨g, a, g⟩ else none
        else none := by
  induction post generalizing pre with
  | nil => simp [regionIndexLoop]
  | cons b bs ih =>
    have h := ih (pre ++ [b])
    simp only [List.length_append, List.length_cons, List.length_nil, List.append_assoc, List.cons_append,
      List.nil_append] at h
    rw [List.length_cons, List.range_succ_eq_map, List.map_cons, List.filterMap_cons, Nat.zero_add,
      isActive_append_length, rank_append_length]
    cases b
    · simp only [regionIndexLoop]
      have hn : nactive (pre ++ [false]) = nactive pre := by simp [nactive]
      rw [hn] at h
      rw [h]
      simp only [Bool.false_eq_true, if_false, List.map_map]
      congr 1
      apply List.map_congr_left
      intro x _
      simp only [Function.comp]
      omega
    · simp only [regionIndexLoop]
      have hn : nactive (pre ++ [true]) = nactive pre + 1 := by simp [nactive]
      rw [hn] at h
      rw [h]
      simp only [if_true, List.map_map]
      have e : (List.map ((fun x => x + pre.length) ∘ Nat.succ) (List.range bs.length)) =
          (List.map (fun x => x + (pre.length + 1)) (List.range bs.length)) := by
        apply List.map_congr_left
        intro x _
        simp only [Function.comp]
        omega
      rw [e]
      split <;> simp

theorem regionIndexLoop_spec (A : List Bool) (region : Arr Int) (r : Int) :
    regionIndexLoop region r A 0 0 = regionIndex A region r := by
  have := regionIndexLoop_eq region r [] A
  simp only [List.length_nil, List.nil_append, Nat.add_zero, List.map_id'] at this
  unfold regionIndex
  exact this

theorem compressLoop_inv {β : Type} (A : List Bool) (done junk rest : List β) (h : rest.length = A.length) :
    compressLoop A (done.length + junk.length) junk.length (done ++ junk ++ rest) = done ++ compress A rest := by
  induction A generalizing done junk rest with
  | nil =>
    cases rest with
    | nil => simp [compressLoop, compress]
    | cons x xs => simp at h
  | cons a as ih =>
    cases rest with
    | nil => simp at h
    | cons x xs =>
      simp at h
      cases a
      · simp only [compressLoop, compress]
        have := ih done (junk ++ [x]) xs h
        simp only [List.length_append, List.length_cons, List.length_nil, List.append_assoc, List.cons_append,
          List.nil_append] at this
        rw [← this]
        have e1 : done.length + junk.length + 1 = done.length + (junk.length + 1) := by omega
        rw [e1]
        simp only [Nat.zero_add, List.append_assoc]
      · simp only [compressLoop, compress]
        cases junk with
        | nil =>
          simp only [List.length_nil, Nat.lt_irrefl, if_false, List.append_nil, Nat.add_zero, gt_iff_lt]
          have := ih (done ++ [x]) [] xs h
          simp only [List.length_append, List.length_cons, List.length_nil, List.append_nil, List.append_assoc,
            List.cons_append, List.nil_append, Nat.add_zero] at this
          rw [this]
        | cons j js =>
          have hget : (done ++ (j :: js) ++ x :: xs)[done.length + (js.length + 1)]? = some x := by
            rw [List.getElem?_append_right (by simp)]
            simp
          simp only [List.length_cons, gt_iff_lt, Nat.zero_lt_succ, if_true]
          rw [hget]
          simp only []
          have hset : (done ++ (j :: js) ++ x :: xs).set (done.length + (js.length + 1) - (js.length + 1)) x =
              (done ++ [x]) ++ (js ++ [x]) ++ xs := by
            rw [Nat.add_sub_cancel]
            simp [List.set_append]
          rw [hset]
          have := ih (done ++ [x]) (js ++ [x]) xs h
          simp only [List.length_append, List.length_cons, List.length_nil] at this
          have e1 : done.length + (js.length + 1) + 1 = done.length + 1 + (js.length + 1) := by omega
          rw [e1, this]
          simp

/-- the in-place loop is the abstraction function -/
theorem compressLoop_eq {β : Type} (A : List Bool) (x : List β) (h : x.length = A.length) :
    compressLoop A 0 0 x = compress A x := by
  have := compressLoop_inv A [] [] x h
  simpa using this

/-! ## stores, fresh arrays, validity: commutation with `compress` -/

theorem sget_smap {β γ : Type} (f : β → γ) (s : List (String × β)) (k : String) :
    sget (smap f s) k = (sget s k).map f := by
  induction s with
  | nil => rfl
  | cons p r ih =>
    obtain ⟨k', v⟩ := p
    simp only [smap, List.map_cons, sget]
    by_cases h : k' = k
    · simp [h]
    · simp only [h, if_false]
      exact ih

theorem smap_sput {β γ : Type} (f : β → γ) (s : List (String × β)) (k : String) (v : β) :
    smap f (sput s k v) = sput (smap f s) k (f v) := by
  induction s with
  | nil => rfl
  | cons p r ih =>
    obtain ⟨k', v'⟩ := p
    simp only [sput, smap, List.map_cons]
    by_cases h : k' = k
    · simp [h]
    · simp only [h, if_false, List.map_cons]
      congr 1

theorem smap_serase {β γ : Type} (f : β → γ) (s : List (String × β)) (k : String) :
    smap f (serase s k) = serase (smap f s) k := by
  induction s with
  | nil => rfl
  | cons p r ih =>
    obtain ⟨k', v'⟩ := p
    simp only [serase, smap, List.map_cons]
    by_cases h : k' = k
    · simp [h]
    · simp only [h, if_false, List.map_cons]
      congr 1

theorem mem_of_sget {β : Type} (s : List (String × β)) (k : String) (v : β) (h : sget s k = some v) :
    (k, v) ∈ s := by
  induction s with
  | nil => cases h
  | cons p r ih =>
    obtain ⟨k', v'⟩ := p
    simp only [sget] at h
    by_cases hk : k' = k
    · simp only [hk, if_true, Option.some.injEq] at h
      simp [hk, h]
    · simp only [hk, if_false] at h
      exact List.mem_cons_of_mem _ (ih h)

theorem mem_sput {β : Type} (s : List (String × β)) (k : String) (v : β) (p : String × β)
    (h : p ∈ sput s k v) : p ∈ s ∨ p = (k, v) := by
  induction s with
  | nil => simp [sput] at h; exact Or.inr h
  | cons q r ih =>
    obtain ⟨k', v'⟩ := q
    simp only [sput] at h
    by_cases hk : k' = k
    · simp only [hk, if_true, List.mem_cons] at h
      rcases h with h | h
      · exact Or.inr h
      · exact Or.inl (List.mem_cons_of_mem _ h)
    · simp only [hk, if_false, List.mem_cons] at h
      rcases h with h | h
      · exact Or.inl (by simp [h])
      · rcases ih h with h' | h'
        · exact Or.inl (List.mem_cons_of_mem _ h')
        · exact Or.inr h'

theorem mem_serase {β : Type} (s : List (String × β)) (k : String) (p : String × β)
    (h : p ∈ serase s k) : p ∈ s := by
  induction s with
  | nil => cases h
  | cons q r ih =>
    obtain ⟨k', v'⟩ := q
    simp only [serase] at h
    by_cases hk : k' = k
    · simp only [hk, if_true] at h
      exact List.mem_cons_of_mem _ h
    · simp only [hk, if_false, List.mem_cons] at h
      rcases h with h | h
      · simp [h]
      · exact List.mem_cons_of_mem _ (ih h)

theorem compress_replicate {β : Type} (A : List Bool) (c : β) :
    compress A (List.replicate A.length c) = List.replicate (nactive A) c := by
  induction A with
  | nil => rfl
  | cons b bs ih =>
    cases b
    · simp [compress, nactive, List.replicate_succ, ih]
    · simp [compress, nactive, List.replicate_succ, ih]

theorem allActive_compress {β : Type} (A : List Bool) (p : Cell β → Bool) (x : Arr β)
    (hx : x.length = A.length) : allActive A p x = (compress A x).all p := by
  induction A generalizing x with
  | nil =>
    cases x with
    | nil => rfl
    | cons y ys => simp at hx
  | cons b bs ih =>
    cases x with
    | nil => simp at hx
    | cons y ys =>
      simp at hx
      cases b
      · simp [allActive, compress, ih ys hx]
      · simp [allActive, compress, ih ys hx]

theorem compress_map {β γ : Type} (f : β → γ) (A : List Bool) (x : List β) :
    compress A (x.map f) = (compress A x).map f := by
  induction A generalizing x with
  | nil => simp [compress]
  | cons b bs ih =>
    cases x with
    | nil => simp [compress]
    | cons y ys =>
      cases b
      · simp [compress, ih]
      · simp [compress, ih]

theorem compress_zipWith {β γ δ : Type} (f : β → γ → δ) (A : List Bool) (x : List β) (y : List γ) :
    compress A (List.zipWith f x y) = List.zipWith f (compress A x) (compress A y) := by
  induction A generalizing x y with
  | nil => simp [compress]
  | cons b bs ih =>
    cases x with
    | nil => simp [compress]
    | cons x0 xs =>
      cases y with
      | nil =>
        cases b <;> simp [compress]
      | cons y0 ys =>
        cases b
        · simp [compress, ih]
        · simp [compress, ih]

/-! ## states: well-formedness, the abstraction function, primitives -/

def WFStore {β : Type} (n : Nat) (st : List (String × List β)) : Prop := ∀ p ∈ st, p.2.length = n

/-- reference states: every array covers the global grid -/
structure WF {α : Type} (D : Dims) (s : St α) : Prop where
  act : s.act.length = D.size
  ints : WFStore D.size s.ints
  dbls : WFStore D.size s.dbls

/-- the abstraction function on states: compress every array with the current ACTNUM -/
def cSt {α : Type} (s : St α) : St α :=
  ⟨s.act, smap (compress s.act) s.ints, smap (compress s.act) s.dbls⟩

def cPair {α : Type} (p : St α × Box) : St α × Box := (cSt p.1, p.2)

def DPos (D : Dims) : Prop := 0 < D.nx ∧ 0 < D.ny ∧ 0 < D.nz

theorem wfstore_sget {β : Type} {n : Nat} {st : List (String × List β)} (h : WFStore n st) {k : String}
    {x : List β} (hx : sget st k = some x) : x.length = n :=
  h _ (mem_of_sget st k x hx)

theorem wfstore_sput {β : Type} {n : Nat} {st : List (String × List β)} (h : WFStore n st) (k : String)
    (x : List β) (hx : x.length = n) : WFStore n (sput st k x) := by
  intro p hp
  rcases mem_sput st k x p hp with h' | h'
  · exact h p h'
  · rw [h']; exact hx

theorem wfstore_serase {β : Type} {n : Nat} {st : List (String × List β)} (h : WFStore n st) (k : String) :
    WFStore n (serase st k) := fun p hp => h p (mem_serase st k p hp)

section Prim
variable {α : Type} [RealOps α]

theorem fresh_length {β : Type} [Scalar β] (D : Dims) (A : List Bool) (init : Option β) :
    (fresh .ref D A init).length = D.size := by simp [fresh, arrSize]

theorem fresh_compress {β : Type} [Scalar β] (D : Dims) (A : List Bool) (init : Option β)
    (hA : A.length = D.size) : compress A (fresh .ref D A init) = fresh .impl D A init := by
  simp only [fresh, arrSize]
  rw [← hA, compress_replicate]

theorem getD_act (m : Mode) (D : Dims) (s : St α) (kw : String) (info : DInfo α) :
    (getD m D s kw info).1.act = s.act := by
  unfold getD; split <;> rfl

theorem getI_act (m : Mode) (D : Dims) (s : St α) (kw : String) (init : Option Int) :
    (getI m D s kw init).1.act = s.act := by
  unfold getI; split <;> rfl

theorem getD_wf (D : Dims) (s : St α) (kw : String) (info : DInfo α) (hw : WF D s) :
    WF D (getD .ref D s kw info).1 ∧ (getD .ref D s kw info).2.length = D.size := by
  unfold getD
  cases h : sget s.dbls kw with
  | some x => exact ⟨hw, wfstore_sget hw.dbls h⟩
  | none =>
    exact ⟨⟨hw.act, hw.ints, wfstore_sput hw.dbls _ _ (fresh_length ..)⟩, fresh_length ..⟩

theorem getI_wf (D : Dims) (s : St α) (kw : String) (init : Option Int) (hw : WF D s) :
    WF D (getI .ref D s kw init).1 ∧ (getI .ref D s kw init).2.length = D.size := by
  unfold getI
  cases h : sget s.ints kw with
  | some x => exact ⟨hw, wfstore_sget hw.ints h⟩
  | none =>
    exact ⟨⟨hw.act, wfstore_sput hw.ints _ _ (fresh_length ..), hw.dbls⟩, fresh_length ..⟩

theorem getD_impl (D : Dims) (s : St α) (kw : String) (info : DInfo α) (hw : WF D s) :
    getD .impl D (cSt s) kw info =
      (cSt (getD .ref D s kw info).1, compress s.act (getD .ref D s kw info).2) := by
  unfold getD
  simp only [cSt, sget_smap]
  cases h : sget s.dbls kw with
  | some x => rfl
  | none =>
    simp only [Option.map_none, smap_sput, fresh_compress D s.act info.init hw.act]

theorem getI_impl (D : Dims) (s : St α) (kw : String) (init : Option Int) (hw : WF D s) :
    getI .impl D (cSt s) kw init =
      (cSt (getI .ref D s kw init).1, compress s.act (getI .ref D s kw init).2) := by
  unfold getI
  simp only [cSt, sget_smap]
  cases h : sget s.ints kw with
  | some x => rfl
  | none =>
    simp only [Option.map_none, smap_sput, fresh_compress D s.act init hw.act]

theorem cSt_putD (s : St α) (kw : String) (y : Arr α) :
    cSt (putD s kw y) = putD (cSt s) kw (compress s.act y) := by
  simp [cSt, putD, smap_sput]

theorem cSt_putI (s : St α) (kw : String) (y : Arr Int) :
    cSt (putI s kw y) = putI (cSt s) kw (compress s.act y) := by
  simp [cSt, putI, smap_sput]

theorem putD_wf (D : Dims) (s : St α) (kw : String) (y : Arr α) (hw : WF D s) (hy : y.length = D.size) :
    WF D (putD s kw y) := ⟨hw.act, hw.ints, wfstore_sput hw.dbls _ _ hy⟩

theorem putI_wf (D : Dims) (s : St α) (kw : String) (y : Arr Int) (hw : WF D s) (hy : y.length = D.size) :
    WF D (putI s kw y) := ⟨hw.act, wfstore_sput hw.ints _ _ hy, hw.dbls⟩

theorem refApply_length {β : Type} [Scalar β] (K : Kernel β) (A : List Bool) (sel : Nat → Option Nat)
    (src tgt y : Arr β) (h : refApply K A sel src tgt = some y) : y.length = tgt.length := by
  unfold refApply at h
  split at h
  · cases h
  · cases h; simp

theorem boxApply_ref_length {β : Type} [Scalar β] (D : Dims) (A : List Bool) (K : Kernel β) (b : Box)
    (src tgt y : Arr β) (h : boxApply .ref D A K b src tgt = some y) : y.length = tgt.length :=
  refApply_length K A _ src tgt y h

theorem regApply_ref_length {β : Type} [Scalar β] (A : List Bool) (K : Kernel β) (reg : Arr Int) (r : Int)
    (src tgt y : Arr β) (h : regApply .ref A K reg r src tgt = some y) : y.length = tgt.length :=
  refApply_length K A _ src tgt y h

/-- **`op_refines`, box form**: an operation over a box on active-only arrays is the
compression of the operation over the box on the global grid. -/
theorem boxApply_impl {β : Type} [Scalar β] (D : Dims) (A : List Bool) (K : Kernel β) (b : Box)
    (hv : b.Valid D) (src tgt : Arr β) (hs : src.length = A.length) (ht : tgt.length = A.length) :
    boxApply .impl D A K b (compress A src) (compress A tgt) =
      (boxApply .ref D A K b src tgt).map (compress A) :=
  (apply_refines K A (boxSel D b) (indexList D A b) (indexList_spec D A b hv) src tgt hs ht).symm

/-- **`op_refines`, region form** -/
theorem regApply_impl {β : Type} [Scalar β] (A : List Bool) (K : Kernel β) (reg : Arr Int) (r : Int)
    (hr : reg.length = A.length) (src tgt : Arr β) (hs : src.length = A.length) (ht : tgt.length = A.length) :
    regApply .impl A K (compress A reg) r (compress A src) (compress A tgt) =
      (regApply .ref A K reg r src tgt).map (compress A) :=
  (apply_refines K A (regionSel reg r) _ (regionIndex_spec A reg r hr) src tgt hs ht).symm

theorem validArr_impl {β : Type} (A : List Bool) (x : Arr β) (hx : x.length = A.length) :
    validArr .impl A (compress A x) = validArr .ref A x := by
  simp [validArr, allActive_compress A _ x hx]

theorem regEmpty_impl (A : List Bool) (reg : Arr Int) (r : Int) (hx : reg.length = A.length) :
    regEmpty .impl A (compress A reg) r = regEmpty .ref A reg r := by
  simp [regEmpty, allActive_compress A _ reg hx]

/-! ### boxes -/

theorem init_valid (D : Dims) (i1 i2 j1 j2 k1 k2 : Int) (b : Box)
    (h : Box.init D i1 i2 j1 j2 k1 k2 = some b) : b.Valid D := by
  unfold Box.init at h
  split at h
  · rename_i hc
    simp only [assertDims, Bool.and_eq_true, decide_eq_true_eq] at hc
    cases h
    simp only [Box.Valid]
    omega
  · cases h

theorem update_valid (D : Dims) (b b' : Box) (r : BoxItems) (hb : b.Valid D)
    (h : Box.update D b r = some b') : b'.Valid D := by
  unfold Box.update at h
  split at h
  · cases h; exact hb
  · exact init_valid D _ _ _ _ _ _ b' h

theorem global_valid (D : Dims) (hD : DPos D) : (Box.global D).Valid D := by
  obtain ⟨h1, h2, h3⟩ := hD
  simp only [Box.Valid, Box.global]
  omega

end Prim

/-! ## `distribute_toplayer` -/

section TopL
variable {α : Type} [Scalar α]

theorem compress_mapFrom {β : Type} (f : Nat → β → β) (A : List Bool) (s : Nat) (x : List β)
    (hx : x.length = A.length) :
    compress A (mapFrom f s x) = walkActive f A s (compress A x) := by
  induction A generalizing s x with
  | nil =>
    cases x with
    | nil => rfl
    | cons y ys => simp at hx
  | cons a as ih =>
    cases x with
    | nil => simp at hx
    | cons y ys =>
      simp at hx
      cases a
      · simp [mapFrom, compress, walkActive, ih (s + 1) ys hx]
      · simp [mapFrom, compress, walkActive, ih (s + 1) ys hx]

theorem mapFrom_length {β γ : Type} (f : Nat → β → γ) (s : Nat) (x : List β) : (mapFrom f s x).length = x.length := by
  induction x generalizing s with
  | nil => rfl
  | cons y ys ih => simp [mapFrom, ih]

theorem mem_globalIndexList (D : Dims) (b : Box) (e : Idx) :
    e ∈ globalIndexList D b ↔ ∃ d, d < b.size ∧ e = ⟨b.globalOf D d, b.globalOf D d, d⟩ := by
  unfold globalIndexList
  simp only [List.mem_map, List.mem_range]
  constructor
  · rintro ⟨d, hd, rfl⟩; exact ⟨d, hd, rfl⟩
  · rintro ⟨d, hd, rfl⟩; exact ⟨d, hd, rfl⟩

theorem topValue_eq (D : Dims) (b : Box) (hv : b.Valid D) (deck : Arr α) (li : Nat) :
    topValueImpl (globalIndexList D b) deck li = topValueRef D b deck li := by
  unfold topValueImpl topValueRef
  cases hf : (globalIndexList D b).find? (fun e => e.g == li) with
  | some e =>
    have hm := List.mem_of_find?_eq_some hf
    have hg : e.g = li := by
      have := List.find?_some hf
      simpa using this
    obtain ⟨d, hd, rfl⟩ := (mem_globalIndexList D b e).mp hm
    simp only at hg
    have hsel := (boxSel_iff D b hv li d).mpr ⟨hd, hg⟩
    simp [hsel]
  | none =>
    simp only
    cases hsel : boxSel D b li with
    | none => rfl
    | some d =>
      exfalso
      obtain ⟨hd, hg⟩ := (boxSel_iff D b hv li d).mp hsel
      have hm : (⟨b.globalOf D d, b.globalOf D d, d⟩ : Idx) ∈ globalIndexList D b :=
        (mem_globalIndexList D b _).mpr ⟨d, hd, rfl⟩
      have := List.find?_eq_none.mp hf _ hm
      simp [hg] at this

theorem topApply_refines (D : Dims) (A : List Bool) (b : Box) (hv : b.Valid D) (deck x : Arr α)
    (hx : x.length = A.length) :
    compress A (topApply .ref D A b deck x) = topApply .impl D A b deck (compress A x) := by
  simp only [topApply]
  rw [compress_mapFrom _ A 0 x hx]
  congr 1
  funext g c
  rw [topValue_eq D b hv]


end TopL

section Handlers
variable {α : Type} [RealOps α]

/-! ## the record handlers refine -/

theorem tail_boxD (D : Dims) (s : St α) (hw : WF D s) (name : String) (K : Kernel α) (b b2 : Box)
    (hb : b.Valid D) (hb2 : b2.Valid D) (src tgt : Arr α) (hs : src.length = D.size) (ht : tgt.length = D.size) :
    ((boxApply .ref D s.act K b src tgt).map fun y => (putD s name y, b2)).map cPair =
      ((boxApply .impl D s.act K b (compress s.act src) (compress s.act tgt)).map
        fun y => (putD (cSt s) name y, b2)) ∧
    ∀ q, ((boxApply .ref D s.act K b src tgt).map fun y => (putD s name y, b2)) = some q →
      WF D q.1 ∧ q.2.Valid D := by
  rw [boxApply_impl D _ K b hb src tgt (by rw [hs, hw.act]) (by rw [ht, hw.act])]
  cases hap : boxApply .ref D s.act K b src tgt with
  | none => simp
  | some y =>
    have hy := boxApply_ref_length _ _ _ _ _ _ _ hap
    simp only [Option.map_some, cPair, cSt_putD]
    refine ⟨trivial, fun q hq => ?_⟩
    cases hq
    exact ⟨putD_wf D _ _ _ hw (by rw [hy, ht]), hb2⟩

theorem topStep_refines (D : Dims) (A : List Bool) (hA : A.length = D.size) (sec : Section) (info : DInfo α)
    (b : Box) (hv : b.Valid D) (deck y : Arr α) (hy : y.length = D.size) :
    compress A (topStep .ref D A sec info b deck y) = topStep .impl D A sec info b deck (compress A y) ∧
    (topStep .ref D A sec info b deck y).length = D.size := by
  unfold topStep
  rw [validArr_impl A y (by rw [hy, hA])]
  split
  · exact ⟨topApply_refines D A b hv deck y (by rw [hy, hA]), by simp [topApply, mapFrom_length, hy]⟩
  · exact ⟨rfl, hy⟩

theorem tail_boxD_post (D : Dims) (s : St α) (hw : WF D s) (name : String) (K : Kernel α) (b b2 : Box)
    (hb : b.Valid D) (hb2 : b2.Valid D) (src tgt : Arr α) (hs : src.length = D.size) (ht : tgt.length = D.size)
    (fr fi : Arr α → Arr α)
    (hpost : ∀ y, y.length = D.size → compress s.act (fr y) = fi (compress s.act y) ∧ (fr y).length = D.size) :
    ((boxApply .ref D s.act K b src tgt).map fun y => (putD s name (fr y), b2)).map cPair =
      ((boxApply .impl D s.act K b (compress s.act src) (compress s.act tgt)).map
        fun y => (putD (cSt s) name (fi y), b2)) ∧
    ∀ q, ((boxApply .ref D s.act K b src tgt).map fun y => (putD s name (fr y), b2)) = some q →
      WF D q.1 ∧ q.2.Valid D := by
  rw [boxApply_impl D _ K b hb src tgt (by rw [hs, hw.act]) (by rw [ht, hw.act])]
  cases hap : boxApply .ref D s.act K b src tgt with
  | none => simp
  | some y =>
    have hy := boxApply_ref_length _ _ _ _ _ _ _ hap
    obtain ⟨hp1, hp2⟩ := hpost y (by rw [hy, ht])
    simp only [Option.map_some, cPair, cSt_putD, hp1]
    refine ⟨trivial, fun q hq => ?_⟩
    cases hq
    exact ⟨putD_wf D _ _ _ hw hp2, hb2⟩

theorem tail_boxI (D : Dims) (s : St α) (hw : WF D s) (name : String) (K : Kernel Int) (b b2 : Box)
    (hb : b.Valid D) (hb2 : b2.Valid D) (src tgt : Arr Int) (hs : src.length = D.size) (ht : tgt.length = D.size) :
    ((boxApply .ref D s.act K b src tgt).map fun y => (putI s name y, b2)).map cPair =
      ((boxApply .impl D s.act K b (compress s.act src) (compress s.act tgt)).map
        fun y => (putI (cSt s) name y, b2)) ∧
    ∀ q, ((boxApply .ref D s.act K b src tgt).map fun y => (putI s name y, b2)) = some q →
      WF D q.1 ∧ q.2.Valid D := by
  rw [boxApply_impl D _ K b hb src tgt (by rw [hs, hw.act]) (by rw [ht, hw.act])]
  cases hap : boxApply .ref D s.act K b src tgt with
  | none => simp
  | some y =>
    have hy := boxApply_ref_length _ _ _ _ _ _ _ hap
    simp only [Option.map_some, cPair, cSt_putI]
    refine ⟨trivial, fun q hq => ?_⟩
    cases hq
    exact ⟨putI_wf D _ _ _ hw (by rw [hy, ht]), hb2⟩

theorem tail_regD (D : Dims) (s : St α) (hw : WF D s) (name : String) (K : Kernel α) (reg : Arr Int) (r : Int)
    (hr : reg.length = D.size) (src tgt : Arr α) (hs : src.length = D.size) (ht : tgt.length = D.size) :
    ((regApply .ref s.act K reg r src tgt).map fun y => putD s name y).map cSt =
      ((regApply .impl s.act K (compress s.act reg) r (compress s.act src) (compress s.act tgt)).map
        fun y => putD (cSt s) name y) ∧
    ∀ q, ((regApply .ref s.act K reg r src tgt).map fun y => putD s name y) = some q → WF D q := by
  rw [regApply_impl _ K reg r (by rw [hr, hw.act]) src tgt (by rw [hs, hw.act]) (by rw [ht, hw.act])]
  cases hap : regApply .ref s.act K reg r src tgt with
  | none => simp
  | some y =>
    have hy := regApply_ref_length _ _ _ _ _ _ _ hap
    simp only [Option.map_some, cSt_putD]
    refine ⟨trivial, fun q hq => ?_⟩
    cases hq
    exact putD_wf D _ _ _ hw (by rw [hy, ht])

theorem tail_regI (D : Dims) (s : St α) (hw : WF D s) (name : String) (K : Kernel Int) (reg : Arr Int) (r : Int)
    (hr : reg.length = D.size) (src tgt : Arr Int) (hs : src.length = D.size) (ht : tgt.length = D.size) :
    ((regApply .ref s.act K reg r src tgt).map fun y => putI s name y).map cSt =
      ((regApply .impl s.act K (compress s.act reg) r (compress s.act src) (compress s.act tgt)).map
        fun y => putI (cSt s) name y) ∧
    ∀ q, ((regApply .ref s.act K reg r src tgt).map fun y => putI s name y) = some q → WF D q := by
  rw [regApply_impl _ K reg r (by rw [hr, hw.act]) src tgt (by rw [hs, hw.act]) (by rw [ht, hw.act])]
  cases hap : regApply .ref s.act K reg r src tgt with
  | none => simp
  | some y =>
    have hy := regApply_ref_length _ _ _ _ _ _ _ hap
    simp only [Option.map_some, cSt_putI]
    refine ⟨trivial, fun q hq => ?_⟩
    cases hq
    exact putI_wf D _ _ _ hw (by rw [hy, ht])

theorem scalarRec_refines (D : Dims) (T : Tables α) (sec : Section) (op : ScalarOp) (s : St α) (b : Box)
    (hw : WF D s) (hb : b.Valid D) (r : ScalarRec α) :
    (scalarRec .ref D T sec op (s, b) r).map cPair = scalarRec .impl D T sec op (cSt s, b) r ∧
    ∀ q, scalarRec .ref D T sec op (s, b) r = some q → WF D q.1 ∧ q.2.Valid D := by
  unfold scalarRec
  simp only []
  cases hbu : Box.update D b r.box with
  | none => simp
  | some b' =>
    have hb' := update_valid D b b' r.box hb hbu
    simp only []
    cases hd : sget T.dbl r.kw with
    | some info =>
      simp only []
      have e1 : (sget (cSt s).dbls r.kw).isNone = (sget s.dbls r.kw).isNone := by
        simp [cSt, sget_smap]
      rw [e1]
      split
      · simp
      · obtain ⟨hw1, hl1⟩ := getD_wf D s (editName sec info r.kw) info hw
        have ha1 := getD_act .ref D s (editName sec info r.kw) info
        have hg := getD_impl D s (editName sec info r.kw) info hw
        generalize getD .ref D s (editName sec info r.kw) info = p at *
        rw [hg]
        simp only []
        rw [← ha1]
        exact tail_boxD D p.1 hw1 _ _ b' b' hb' hb' p.2 p.2 hl1 hl1
    | none =>
      simp only []
      cases hi : sget T.int r.kw with
      | none => simp
      | some init =>
        simp only []
        have e1 : (sget (cSt s).ints r.kw).isNone = (sget s.ints r.kw).isNone := by
          simp [cSt, sget_smap]
        rw [e1]
        split
        · simp
        · obtain ⟨hw1, hl1⟩ := getI_wf D s r.kw init hw
          have ha1 := getI_act .ref D s r.kw init
          have hg := getI_impl D s r.kw init hw
          generalize getI .ref D s r.kw init = p at *
          rw [hg]
          simp only []
          rw [← ha1]
          exact tail_boxI D p.1 hw1 _ _ b' b' hb' hb' p.2 p.2 hl1 hl1


theorem cSt_dbls_get (s : St α) (k : String) :
    sget (cSt s).dbls k = (sget s.dbls k).map (compress s.act) := by simp [cSt, sget_smap]
theorem cSt_ints_get (s : St α) (k : String) :
    sget (cSt s).ints k = (sget s.ints k).map (compress s.act) := by simp [cSt, sget_smap]

theorem copyRec_refines (D : Dims) (T : Tables α) (s : St α) (b : Box)
    (hw : WF D s) (hb : b.Valid D) (r : CopyRec) :
    (copyRec .ref D T (s, b) r).map cPair = copyRec .impl D T (cSt s, b) r ∧
    ∀ q, copyRec .ref D T (s, b) r = some q → WF D q.1 ∧ q.2.Valid D := by
  unfold copyRec
  simp only []
  cases hbu : Box.update D b r.box with
  | none => simp
  | some b' =>
    have hb' := update_valid D b b' r.box hb hbu
    simp only []
    cases hd : sget T.dbl r.src with
    | some _ =>
      simp only []
      rw [cSt_dbls_get]
      cases hsrc : sget s.dbls r.src with
      | none => simp
      | some src =>
        have hls := wfstore_sget hw.dbls hsrc
        simp only [Option.map_some]
        have hact : (cSt s).act = s.act := rfl
        rw [hact, validArr_impl s.act src (by rw [hls, hw.act])]
        split
        · simp
        · cases ht : sget T.dbl r.tgt with
          | none => simp
          | some tinfo =>
            simp only []
            obtain ⟨hw1, hl1⟩ := getD_wf D s r.tgt tinfo hw
            have ha1 := getD_act .ref D s r.tgt tinfo
            have hg := getD_impl D s r.tgt tinfo hw
            generalize getD .ref D s r.tgt tinfo = p at *
            rw [hg]
            simp only []
            rw [← ha1]
            exact tail_boxD D p.1 hw1 _ _ b' b' hb' hb' src p.2 hls hl1
    | none =>
      simp only []
      cases hi : sget T.int r.src with
      | some _ =>
        simp only []
        rw [cSt_ints_get]
        cases hsrc : sget s.ints r.src with
        | none => simp
        | some src =>
          have hls := wfstore_sget hw.ints hsrc
          simp only [Option.map_some]
          have hact : (cSt s).act = s.act := rfl
          rw [hact, validArr_impl s.act src (by rw [hls, hw.act])]
          split
          · simp
          · cases ht : sget T.int r.tgt with
            | none => simp
            | some tinit =>
              simp only []
              obtain ⟨hw1, hl1⟩ := getI_wf D s r.tgt tinit hw
              have ha1 := getI_act .ref D s r.tgt tinit
              have hg := getI_impl D s r.tgt tinit hw
              generalize getI .ref D s r.tgt tinit = p at *
              rw [hg]
              simp only []
              rw [← ha1]
              exact tail_boxI D p.1 hw1 _ _ b' b' hb' hb' src p.2 hls hl1
      | none =>
        simp only [Option.map_some, cPair]
        exact ⟨trivial, fun q hq => by cases hq; exact ⟨hw, hb'⟩⟩

theorem operRec_refines (D : Dims) (T : Tables α) (s : St α) (b : Box)
    (hw : WF D s) (hb : b.Valid D) (r : OperRec α) :
    (operRec .ref D T (s, b) r).map cPair = operRec .impl D T (cSt s, b) r ∧
    ∀ q, operRec .ref D T (s, b) r = some q → WF D q.1 ∧ q.2.Valid D := by
  unfold operRec
  simp only []
  cases hbu : Box.update D b r.box with
  | none => simp
  | some b' =>
    have hb' := update_valid D b b' r.box hb hbu
    simp only []
    cases ht : sget T.dbl r.tgt with
    | none => simp
    | some tinfo =>
      simp only []
      obtain ⟨hw1, hl1⟩ := getD_wf D s r.tgt tinfo hw
      have ha1 := getD_act .ref D s r.tgt tinfo
      have hg := getD_impl D s r.tgt tinfo hw
      generalize getD .ref D s r.tgt tinfo = p at *
      rw [hg]
      simp only []
      cases hs : sget T.dbl r.src with
      | none => simp
      | some sinfo =>
        simp only []
        obtain ⟨hw2, hl2⟩ := getD_wf D p.1 r.src sinfo hw1
        have ha2 := getD_act .ref D p.1 r.src sinfo
        have hg2 := getD_impl D p.1 r.src sinfo hw1
        generalize getD .ref D p.1 r.src sinfo = q at *
        rw [hg2]
        simp only []
        cases hf : operateFn r.fn (operAlpha r.fn tinfo r.a) (operBeta r.fn tinfo r.b) with
        | none => simp
        | some f =>
          simp only []
          rw [← ha1, ← ha2]
          exact tail_boxD D q.1 hw2 _ _ b' b' hb' hb' q.2 p.2 hl2 hl1

theorem regionArr_refines (D : Dims) (T : Tables α) (s : St α) (hw : WF D s) (name : String) :
    (regionArr .ref D T s name).map (fun q => (cSt q.1, compress s.act q.2)) = regionArr .impl D T (cSt s) name ∧
    ∀ q, regionArr .ref D T s name = some q → WF D q.1 ∧ q.2.length = D.size ∧ q.1.act = s.act := by
  unfold regionArr
  cases hi : sget T.int name with
  | none => simp
  | some init =>
    simp only []
    obtain ⟨hw1, hl1⟩ := getI_wf D s name init hw
    have ha1 := getI_act .ref D s name init
    have hg := getI_impl D s name init hw
    generalize getI .ref D s name init = p at *
    rw [hg]
    simp only []
    have hact : (cSt p.1).act = p.1.act := rfl
    rw [hact, ← ha1, validArr_impl p.1.act p.2 (by rw [hl1, hw1.act])]
    split
    · simp only [Option.map_some]
      exact ⟨trivial, fun q hq => by cases hq; exact ⟨hw1, hl1, rfl⟩⟩
    · simp

theorem regScalarRec_refines (D : Dims) (T : Tables α) (op : ScalarOp) (s : St α)
    (hw : WF D s) (r : RegScalarRec α) :
    (regScalarRec .ref D T op s r).map cSt = regScalarRec .impl D T op (cSt s) r ∧
    ∀ q, regScalarRec .ref D T op s r = some q → WF D q := by
  unfold regScalarRec
  cases hd : sget T.dbl r.kw with
  | none =>
    simp only [Option.map_some]
    exact ⟨trivial, fun q hq => by cases hq; exact hw⟩
  | some info =>
    simp only []
    obtain ⟨hw1, hl1⟩ := getD_wf D s r.kw info hw
    have ha1 := getD_act .ref D s r.kw info
    have hg := getD_impl D s r.kw info hw
    generalize getD .ref D s r.kw info = p at *
    rw [hg]
    simp only []
    cases hn : regionName r.rs with
    | none => simp
    | some rn =>
      simp only []
      obtain ⟨hr1, hr2⟩ := regionArr_refines D T p.1 hw1 rn
      rw [← hr1]
      cases hq : regionArr .ref D T p.1 rn with
      | none => simp
      | some q =>
        obtain ⟨hw2, hl2, ha2⟩ := hr2 q hq
        simp only [Option.map_some]
        have hact : (cSt q.1).act = q.1.act := rfl
        rw [hact, ← ha2, regEmpty_impl q.1.act q.2 r.rv (by rw [hl2, hw2.act])]
        split
        · simp only [Option.map_some]
          exact ⟨trivial, fun q' hq' => by cases hq'; exact hw2⟩
        · rw [← ha1, ← ha2]
          exact tail_regD D q.1 hw2 _ _ q.2 r.rv hl2 p.2 p.2 hl1 hl1


theorem copyRegRec_refines (D : Dims) (T : Tables α) (s : St α) (hw : WF D s) (r : CopyRegRec) :
    (copyRegRec .ref D T s r).map cSt = copyRegRec .impl D T (cSt s) r ∧
    ∀ q, copyRegRec .ref D T s r = some q → WF D q := by
  unfold copyRegRec
  cases hn : regionName r.rs with
  | none => simp
  | some rn =>
    simp only []
    obtain ⟨hr1, hr2⟩ := regionArr_refines D T s hw rn
    rw [← hr1]
    cases hq : regionArr .ref D T s rn with
    | none => simp
    | some q =>
      obtain ⟨hw2, hl2, ha2⟩ := hr2 q hq
      simp only [Option.map_some]
      cases hd : sget T.dbl r.src with
      | some _ =>
        simp only []
        rw [cSt_dbls_get]
        cases hsrc : sget q.1.dbls r.src with
        | none => simp
        | some src =>
          have hls := wfstore_sget hw2.dbls hsrc
          simp only [Option.map_some]
          have hact : (cSt q.1).act = q.1.act := rfl
          rw [hact, validArr_impl q.1.act src (by rw [hls, hw2.act])]
          split
          · simp
          · cases ht : sget T.dbl r.tgt with
            | none => simp
            | some tinfo =>
              simp only []
              obtain ⟨hw1, hl1⟩ := getD_wf D q.1 r.tgt tinfo hw2
              have ha1 := getD_act .ref D q.1 r.tgt tinfo
              have hg := getD_impl D q.1 r.tgt tinfo hw2
              generalize getD .ref D q.1 r.tgt tinfo = p at *
              rw [hg]
              simp only []
              rw [← ha2, ← ha1]
              exact tail_regD D p.1 hw1 _ _ q.2 r.rv hl2 src p.2 hls hl1
      | none =>
        simp only []
        cases hi : sget T.int r.src with
        | some _ =>
          simp only []
          rw [cSt_ints_get]
          cases hsrc : sget q.1.ints r.src with
          | none => simp
          | some src =>
            have hls := wfstore_sget hw2.ints hsrc
            simp only [Option.map_some]
            have hact : (cSt q.1).act = q.1.act := rfl
            rw [hact, validArr_impl q.1.act src (by rw [hls, hw2.act])]
            split
            · simp
            · cases ht : sget T.int r.tgt with
              | none => simp
              | some tinit =>
                simp only []
                obtain ⟨hw1, hl1⟩ := getI_wf D q.1 r.tgt tinit hw2
                have ha1 := getI_act .ref D q.1 r.tgt tinit
                have hg := getI_impl D q.1 r.tgt tinit hw2
                generalize getI .ref D q.1 r.tgt tinit = p at *
                rw [hg]
                simp only []
                rw [← ha2, ← ha1]
                exact tail_regI D p.1 hw1 _ _ q.2 r.rv hl2 src p.2 hls hl1
        | none =>
          simp only [Option.map_some]
          exact ⟨trivial, fun q' hq' => by cases hq'; exact hw2⟩

theorem operRegRec_refines (D : Dims) (T : Tables α) (s : St α) (hw : WF D s) (r : OperRegRec α) :
    (operRegRec .ref D T s r).map cSt = operRegRec .impl D T (cSt s) r ∧
    ∀ q, operRegRec .ref D T s r = some q → WF D q := by
  unfold operRegRec
  cases hd : sget T.dbl r.tgt with
  | none =>
    simp only [Option.map_some]
    exact ⟨trivial, fun q hq => by cases hq; exact hw⟩
  | some tinfo =>
    simp only []
    obtain ⟨hw1, hl1⟩ := getD_wf D s r.tgt tinfo hw
    have ha1 := getD_act .ref D s r.tgt tinfo
    have hg := getD_impl D s r.tgt tinfo hw
    generalize getD .ref D s r.tgt tinfo = p at *
    rw [hg]
    simp only []
    cases hs : sget T.dbl r.src with
    | none => simp
    | some sinfo =>
      simp only []
      obtain ⟨hw3, hl3⟩ := getD_wf D p.1 r.src sinfo hw1
      have ha3 := getD_act .ref D p.1 r.src sinfo
      have hg3 := getD_impl D p.1 r.src sinfo hw1
      generalize getD .ref D p.1 r.src sinfo = u at *
      rw [hg3]
      simp only []
      obtain ⟨hr1, hr2⟩ := regionArr_refines D T u.1 hw3 r.rn
      rw [← hr1]
      cases hq : regionArr .ref D T u.1 r.rn with
      | none => simp
      | some q =>
        obtain ⟨hw2, hl2, ha2⟩ := hr2 q hq
        simp only [Option.map_some]
        have hact : (cSt q.1).act = q.1.act := rfl
        rw [hact, ← ha2, regEmpty_impl q.1.act q.2 r.rv (by rw [hl2, hw2.act])]
        split
        · simp only [Option.map_some]
          exact ⟨trivial, fun q' hq' => by cases hq'; exact hw2⟩
        · cases hf : operateFn r.fn (operAlpha r.fn tinfo r.a) (operBeta r.fn tinfo r.b) with
          | none => simp
          | some f =>
            simp only []
            rw [← ha1, ← ha3, ← ha2]
            exact tail_regD D q.1 hw2 _ _ q.2 r.rv hl2 u.2 p.2 hl3 hl1

/-! ## keywords, sections -/

theorem foldRecs_refines {σ ρ : Type} (f g : σ → ρ → Option σ) (c : σ → σ) (I : σ → Prop)
    (h : ∀ s r, I s → (f s r).map c = g (c s) r ∧ ∀ q, f s r = some q → I q) :
    ∀ (rs : List ρ) (s : σ), I s →
      (foldRecs f s rs).map c = foldRecs g (c s) rs ∧ ∀ q, foldRecs f s rs = some q → I q := by
  intro rs
  induction rs with
  | nil =>
    intro s hs
    simp only [foldRecs, Option.map_some]
    exact ⟨trivial, fun q hq => by cases hq; exact hs⟩
  | cons r rs ih =>
    intro s hs
    obtain ⟨h1, h2⟩ := h s r hs
    simp only [foldRecs]
    rw [← h1]
    cases hf : f s r with
    | none => simp
    | some s' =>
      simp only [Option.map_some]
      exact ih s' (h2 s' hf)

def PairOK (D : Dims) (p : St α × Box) : Prop := WF D p.1 ∧ p.2.Valid D

theorem kwStep_refines (D : Dims) (hD : DPos D) (T : Tables α) (sec : Section) (p : St α × Box)
    (hp : PairOK D p) (k : Kw α) :
    (kwStep .ref D T sec p k).map cPair = kwStep .impl D T sec (cPair p) k ∧
    ∀ q, kwStep .ref D T sec p k = some q → PairOK D q := by
  obtain ⟨s, b⟩ := p
  obtain ⟨hw, hb⟩ := hp
  show (kwStep .ref D T sec (s, b) k).map cPair = kwStep .impl D T sec (cSt s, b) k ∧ _
  cases k with
  | box r =>
    simp only [kwStep]
    cases hbu : Box.update D b r with
    | none => simp
    | some b' =>
      simp only [Option.map_some]
      exact ⟨by first | trivial | rfl, fun q hq => by cases hq; exact ⟨hw, update_valid D b b' r hb hbu⟩⟩
  | endbox =>
    simp only [kwStep, Option.map_some]
    exact ⟨by first | trivial | rfl, fun q hq => by cases hq; exact ⟨hw, global_valid D hD⟩⟩
  | dataD kw vals =>
    simp only [kwStep]
    cases hd : sget T.dbl kw with
    | none => simp
    | some info =>
      simp only []
      obtain ⟨hw1, hl1⟩ := getD_wf D s (editName sec info kw) info hw
      have ha1 := getD_act .ref D s (editName sec info kw) info
      have hg := getD_impl D s (editName sec info kw) info hw
      generalize getD .ref D s (editName sec info kw) info = p at *
      rw [hg]
      simp only []
      by_cases hlen : vals.length ≠ b.size
      · rw [if_pos hlen, if_pos hlen]; simp
      · rw [if_neg hlen, if_neg hlen, ← ha1]
        exact tail_boxD_post D p.1 hw1 _ _ b b hb hb p.2 p.2 hl1 hl1 _ _
          (fun y hy => topStep_refines D p.1.act hw1.act sec info b hb _ y hy)
  | dataI kw vals =>
    simp only [kwStep]
    cases hd : sget T.int kw with
    | none => simp
    | some init =>
      simp only []
      obtain ⟨hw1, hl1⟩ := getI_wf D s kw init hw
      have ha1 := getI_act .ref D s kw init
      have hg := getI_impl D s kw init hw
      generalize getI .ref D s kw init = p at *
      rw [hg]
      simp only []
      by_cases hlen : vals.length ≠ b.size
      · rw [if_pos hlen, if_pos hlen]; simp
      · rw [if_neg hlen, if_neg hlen, ← ha1]
        exact tail_boxI D p.1 hw1 _ _ b b hb hb p.2 p.2 hl1 hl1
  | scalar op recs =>
    simp only [kwStep]
    obtain ⟨h1, h2⟩ := foldRecs_refines (scalarRec .ref D T sec op) (scalarRec .impl D T sec op) cPair (PairOK D)
      (fun p r hp => scalarRec_refines D T sec op p.1 p.2 hp.1 hp.2 r) recs (s, b) ⟨hw, hb⟩
    change _ = foldRecs _ (cSt s, b) recs at h1
    rw [← h1]
    cases hf : foldRecs (scalarRec .ref D T sec op) (s, b) recs with
    | none => simp
    | some q =>
      simp only [Option.map_some]
      exact ⟨by first | trivial | rfl, fun q' hq' => by cases hq'; exact ⟨(h2 q hf).1, hb⟩⟩
  | copy recs =>
    simp only [kwStep]
    obtain ⟨h1, h2⟩ := foldRecs_refines (copyRec .ref D T) (copyRec .impl D T) cPair (PairOK D)
      (fun p r hp => copyRec_refines D T p.1 p.2 hp.1 hp.2 r) recs (s, b) ⟨hw, hb⟩
    change _ = foldRecs _ (cSt s, b) recs at h1
    rw [← h1]
    cases hf : foldRecs (copyRec .ref D T) (s, b) recs with
    | none => simp
    | some q =>
      simp only [Option.map_some]
      exact ⟨by first | trivial | rfl, fun q' hq' => by cases hq'; exact ⟨(h2 q hf).1, hb⟩⟩
  | operate recs =>
    simp only [kwStep]
    obtain ⟨h1, h2⟩ := foldRecs_refines (operRec .ref D T) (operRec .impl D T) cPair (PairOK D)
      (fun p r hp => operRec_refines D T p.1 p.2 hp.1 hp.2 r) recs (s, b) ⟨hw, hb⟩
    change _ = foldRecs _ (cSt s, b) recs at h1
    rw [← h1]
    cases hf : foldRecs (operRec .ref D T) (s, b) recs with
    | none => simp
    | some q =>
      simp only [Option.map_some]
      exact ⟨by first | trivial | rfl, fun q' hq' => by cases hq'; exact ⟨(h2 q hf).1, hb⟩⟩
  | regScalar op recs =>
    simp only [kwStep]
    obtain ⟨h1, h2⟩ := foldRecs_refines (regScalarRec .ref D T op) (regScalarRec .impl D T op) cSt (WF D)
      (fun s r hs => regScalarRec_refines D T op s hs r) recs s hw
    rw [← h1]
    cases hf : foldRecs (regScalarRec .ref D T op) s recs with
    | none => simp
    | some q =>
      simp only [Option.map_some]
      exact ⟨by first | trivial | rfl, fun q' hq' => by cases hq'; exact ⟨h2 q hf, hb⟩⟩
  | copyReg recs =>
    simp only [kwStep]
    obtain ⟨h1, h2⟩ := foldRecs_refines (copyRegRec .ref D T) (copyRegRec .impl D T) cSt (WF D)
      (fun s r hs => copyRegRec_refines D T s hs r) recs s hw
    rw [← h1]
    cases hf : foldRecs (copyRegRec .ref D T) s recs with
    | none => simp
    | some q =>
      simp only [Option.map_some]
      exact ⟨by first | trivial | rfl, fun q' hq' => by cases hq'; exact ⟨h2 q hf, hb⟩⟩
  | operateR recs =>
    simp only [kwStep]
    obtain ⟨h1, h2⟩ := foldRecs_refines (operRegRec .ref D T) (operRegRec .impl D T) cSt (WF D)
      (fun s r hs => operRegRec_refines D T s hs r) recs s hw
    rw [← h1]
    cases hf : foldRecs (operRegRec .ref D T) s recs with
    | none => simp
    | some q =>
      simp only [Option.map_some]
      exact ⟨by first | trivial | rfl, fun q' hq' => by cases hq'; exact ⟨h2 q hf, hb⟩⟩


end Handlers

section Programs
variable {α : Type} [RealOps α]

/-! ## sections, ACTNUM update, whole programs, observation -/

theorem mulInto_compress (A : List Bool) (x m : Arr α) :
    mulInto (compress A x) (compress A m) = compress A (mulInto x m) := by
  simp only [mulInto, compress_zipWith]

theorem mulInto_length (x m : Arr α) (hx : x.length = n) (hm : m.length = n) : (mulInto x m).length = n := by
  simp [mulInto, hx, hm]

theorem applyMult_refines (D : Dims) (s : St α) (hw : WF D s) (e : String × DInfo α) :
    cSt (applyMult .ref D s e) = applyMult .impl D (cSt s) e ∧ WF D (applyMult .ref D s e) := by
  unfold applyMult
  split
  · rw [cSt_dbls_get]
    cases hm : sget s.dbls (multName e.1) with
    | none => exact ⟨rfl, hw⟩
    | some marr =>
      have hlm := wfstore_sget hw.dbls hm
      simp only [Option.map_some]
      obtain ⟨hw1, hl1⟩ := getD_wf D s e.1 e.2 hw
      have ha1 := getD_act .ref D s e.1 e.2
      have hg := getD_impl D s e.1 e.2 hw
      generalize getD .ref D s e.1 e.2 = p at *
      rw [hg]
      simp only []
      refine ⟨?_, ⟨hw1.act, hw1.ints, wfstore_serase (wfstore_sput hw1.dbls _ _ (mulInto_length _ _ hl1 hlm)) _⟩⟩
      simp only [cSt, smap_serase, smap_sput, mulInto_compress, ha1]
  · exact ⟨rfl, hw⟩

theorem foldl_applyMult_refines (D : Dims) (es : List (String × DInfo α)) (s : St α) (hw : WF D s) :
    cSt (es.foldl (applyMult .ref D) s) = es.foldl (applyMult .impl D) (cSt s) ∧
    WF D (es.foldl (applyMult .ref D) s) := by
  induction es generalizing s with
  | nil => exact ⟨rfl, hw⟩
  | cons e es ih =>
    simp only [List.foldl_cons]
    obtain ⟨h1, h2⟩ := applyMult_refines D s hw e
    rw [← h1]
    exact ih _ h2

theorem scanSection_refines (D : Dims) (hD : DPos D) (T : Tables α) (sec : Section) (s : St α)
    (hw : WF D s) (ks : List (Kw α)) :
    (scanSection .ref D T sec s ks).map cSt = scanSection .impl D T sec (cSt s) ks ∧
    ∀ q, scanSection .ref D T sec s ks = some q → WF D q := by
  unfold scanSection
  obtain ⟨h1, h2⟩ := foldRecs_refines (kwStep .ref D T sec) (kwStep .impl D T sec) cPair (PairOK D)
    (fun p k hp => kwStep_refines D hD T sec p hp k) ks (s, Box.global D) ⟨hw, global_valid D hD⟩
  change _ = foldRecs _ (cSt s, Box.global D) ks at h1
  rw [← h1]
  cases hf : foldRecs (kwStep .ref D T sec) (s, Box.global D) ks with
  | none => simp
  | some r =>
    have hwr := (h2 r hf).1
    simp only [Option.map_some, cPair]
    by_cases he : sec = .edit
    · simp only [he, if_true]
      obtain ⟨m1, m2⟩ := foldl_applyMult_refines D T.dbl r.1 hwr
      exact ⟨by simp only [applyMultipliers]; rw [m1], fun q hq => by cases hq; exact m2⟩
    · simp only [he, if_false]
      exact ⟨trivial, fun q hq => by cases hq; exact hwr⟩


theorem andMask_length (A k : List Bool) (hk : k.length = A.length) : (andMask A k).length = A.length := by
  induction A generalizing k with
  | nil => simp [andMask]
  | cons a as ih =>
    cases k with
    | nil => simp at hk
    | cons k0 ks => simp at hk; simp [andMask, ih ks hk]

theorem expand_compress_false (A k : List Bool) (hk : k.length = A.length) :
    expand false A (compress A k) = andMask A k := by
  induction A generalizing k with
  | nil => simp [expand, andMask]
  | cons a as ih =>
    cases k with
    | nil => simp at hk
    | cons k0 ks =>
      simp at hk
      cases a
      · simp [expand, compress, andMask, ih ks hk]
      · simp [expand, compress, andMask, ih ks hk]

theorem compress_compress {β : Type} (A k : List Bool) (x : List β) (hk : k.length = A.length) (hx : x.length = A.length) :
    compress (compress A k) (compress A x) = compress (andMask A k) x := by
  induction A generalizing k x with
  | nil => simp [compress, andMask]
  | cons a as ih =>
    cases k with
    | nil => simp at hk
    | cons k0 ks =>
      cases x with
      | nil => simp at hx
      | cons x0 xs =>
        simp at hk hx
        cases a
        · simp [compress, andMask, ih ks xs hk hx]
        · cases k0
          · simp [compress, andMask, ih ks xs hk hx]
          · simp [compress, andMask, ih ks xs hk hx]

theorem porvData_compress (A : List Bool) (poro : Arr α) (ntg mpv : Option (Arr α)) :
    porvData (compress A poro) (ntg.map (compress A)) (mpv.map (compress A)) = compress A (porvData poro ntg mpv) := by
  unfold porvData
  cases ntg <;> cases mpv <;> simp [compress_zipWith, compress_map]

theorem keepFlags_compress (A : List Bool) (poro : Arr α) (ntg mpv : Option (Arr α)) (act : Arr Int) :
    keepFlags (compress A poro) (ntg.map (compress A)) (mpv.map (compress A)) (compress A act) =
      compress A (keepFlags poro ntg mpv act) := by
  simp only [keepFlags, porvData_compress, compress_zipWith]

theorem porvData_length (n : Nat) (poro : Arr α) (ntg mpv : Option (Arr α)) (hp : poro.length = n)
    (hn : ∀ x, ntg = some x → x.length = n) (hm : ∀ x, mpv = some x → x.length = n) :
    (porvData poro ntg mpv).length = n := by
  unfold porvData
  cases ntg with
  | none =>
    cases mpv with
    | none => simp [hp]
    | some m => simp [hp, hm m rfl]
  | some t =>
    cases mpv with
    | none => simp [hp, hn t rfl]
    | some m => simp [hp, hn t rfl, hm m rfl]

theorem smap_smap {β γ δ : Type} (f : γ → δ) (g : β → γ) (st : List (String × β)) :
    smap f (smap g st) = smap (fun x => f (g x)) st := by
  simp [smap, List.map_map, Function.comp_def]

theorem smap_congr {β γ : Type} (f g : β → γ) (st : List (String × β)) (h : ∀ p ∈ st, f p.2 = g p.2) :
    smap f st = smap g st := by
  simp only [smap]
  apply List.map_congr_left
  intro p hp
  rw [h p hp]

theorem smap_id' {β : Type} (st : List (String × β)) : smap (fun x => x) st = st := by
  simp [smap]

theorem shrink_ref {β : Type} (keep : List Bool) : (shrink .ref keep : List β → List β) = fun x => x := by
  funext x; rfl

theorem resetActnum_refines (D : Dims) (s : St α) (hw : WF D s) :
    cSt (resetActnum .ref D s) = resetActnum .impl D (cSt s) ∧ WF D (resetActnum .ref D s) := by
  unfold resetActnum
  rw [cSt_dbls_get]
  cases hp : sget s.dbls "PORO" with
  | none => exact ⟨rfl, hw⟩
  | some poro =>
    have hlp := wfstore_sget hw.dbls hp
    simp only [Option.map_some, cSt_dbls_get]
    obtain ⟨hw1, hl1⟩ := getI_wf D s "ACTNUM" (some 1) hw
    have ha1 := getI_act .ref D s "ACTNUM" (some 1)
    have hg := getI_impl D s "ACTNUM" (some 1) hw
    generalize getI .ref D s "ACTNUM" (some 1) = p at *
    rw [hg]
    simp only []
    rw [keepFlags_compress]
    have hkl : (keepFlags poro (sget s.dbls "NTG") (sget s.dbls "MULTPV") p.2).length = s.act.length := by
      unfold keepFlags
      rw [List.length_zipWith, porvData_length D.size poro _ _ hlp
        (fun x hx => wfstore_sget hw.dbls hx) (fun x hx => wfstore_sget hw.dbls hx), hl1, hw.act]
      simp
    generalize keepFlags poro (sget s.dbls "NTG") (sget s.dbls "MULTPV") p.2 = keep at *
    have hact : (cSt s).act = s.act := rfl
    constructor
    · simp only [cSt, newAct, shrink, hact, expand_compress_false s.act keep hkl, smap_smap, smap_id', ha1]
      congr 1
      · apply smap_congr
        intro q hq
        exact (compress_compress s.act keep q.2 hkl (by rw [hw1.ints q hq, hw.act])).symm
      · apply smap_congr
        intro q hq
        exact (compress_compress s.act keep q.2 hkl (by rw [hw1.dbls q hq, hw.act])).symm
    · refine ⟨?_, ?_, ?_⟩
      · simp only [newAct]
        rw [andMask_length _ _ hkl, hw.act]
      · show WFStore D.size (smap (shrink .ref keep) p.1.ints)
        rw [shrink_ref, smap_id']
        exact hw1.ints
      · show WFStore D.size (smap (shrink .ref keep) p.1.dbls)
        rw [shrink_ref, smap_id']
        exact hw1.dbls

theorem runProg_refines (D : Dims) (hD : DPos D) (T : Tables α) (s0 : St α) (hw : WF D s0) (P : Prog α) :
    (runProg .ref D T s0 P).map cSt = runProg .impl D T (cSt s0) P ∧
    ∀ q, runProg .ref D T s0 P = some q → WF D q := by
  unfold runProg
  obtain ⟨g1, g2⟩ := scanSection_refines D hD T .grid s0 hw P.grid
  rw [← g1]
  cases h1 : scanSection .ref D T .grid s0 P.grid with
  | none => simp
  | some s1 =>
    have w1 := g2 s1 h1
    simp only [Option.map_some]
    obtain ⟨e1, e2⟩ := scanSection_refines D hD T .edit s1 w1 P.edit
    rw [← e1]
    cases h2 : scanSection .ref D T .edit s1 P.edit with
    | none => simp
    | some s2 =>
      have w2 := e2 s2 h2
      simp only [Option.map_some]
      obtain ⟨a1, a2⟩ := resetActnum_refines D s2 w2
      rw [← a1]
      obtain ⟨r1, r2⟩ := scanSection_refines D hD T .regions _ a2 P.regions
      rw [← r1]
      cases h3 : scanSection .ref D T .regions (resetActnum .ref D s2) P.regions with
      | none => simp
      | some s3 =>
        have w3 := r2 s3 h3
        simp only [Option.map_some]
        obtain ⟨p1, p2⟩ := scanSection_refines D hD T .props s3 w3 P.props
        rw [← p1]
        cases h4 : scanSection .ref D T .props s3 P.props with
        | none => simp
        | some s4 =>
          have w4 := p2 s4 h4
          simp only [Option.map_some]
          exact scanSection_refines D hD T .solution s4 w4 P.solution


theorem expand_compress {β : Type} (fill : β) (A : List Bool) (y : List β) (hy : y.length = A.length) :
    expand fill A (compress A y) = maskFill fill A y := by
  induction A generalizing y with
  | nil => simp [expand, maskFill]
  | cons a as ih =>
    cases y with
    | nil => simp at hy
    | cons y0 ys =>
      simp at hy
      cases a
      · simp [expand, compress, maskFill, ih ys hy]
      · simp [expand, compress, maskFill, ih ys hy]

theorem observeD_refines (D : Dims) (T : Tables α) (s : St α) (hw : WF D s) (kw : String) :
    observeD .ref D T s kw = observeD .impl D T (cSt s) kw := by
  unfold observeD
  cases hd : sget T.dbl kw with
  | none => rfl
  | some info =>
    simp only []
    obtain ⟨_, hl1⟩ := getD_wf D s kw info hw
    rw [getD_impl D s kw info hw]
    simp only []
    have hact : (cSt s).act = s.act := rfl
    rw [hact, validArr_impl s.act _ (by rw [hl1, hw.act])]
    simp only [activeView, globalView, ← compress_map]
    rw [expand_compress _ _ _ (by simp [hl1, hw.act])]

theorem observeI_refines (D : Dims) (T : Tables α) (s : St α) (hw : WF D s) (kw : String) :
    observeI .ref D T s kw = observeI .impl D T (cSt s) kw := by
  unfold observeI
  cases hd : sget T.int kw with
  | none => rfl
  | some init =>
    simp only []
    obtain ⟨_, hl1⟩ := getI_wf D s kw init hw
    rw [getI_impl D s kw init hw]
    simp only []
    have hact : (cSt s).act = s.act := rfl
    rw [hact, validArr_impl s.act _ (by rw [hl1, hw.act])]
    simp only [activeView, globalView, ← compress_map]
    rw [expand_compress _ _ _ (by simp [hl1, hw.act])]

theorem observe_refines (D : Dims) (T : Tables α) (s : St α) (hw : WF D s) :
    observe .ref D T s = observe .impl D T (cSt s) := by
  unfold observe
  have hact : (cSt s).act = s.act := rfl
  rw [hact]
  congr 1
  · apply List.map_congr_left
    intro p _
    rw [observeD_refines D T s hw]
  · apply List.map_congr_left
    intro p _
    rw [observeI_refines D T s hw]

/-- **The observable result of every deck is the same under both semantics.** -/
theorem runObserve_refines (D : Dims) (hD : DPos D) (T : Tables α) (A : List Bool) (hA : A.length = D.size)
    (P : Prog α) : runObserve .ref D T A P = runObserve .impl D T A P := by
  unfold runObserve
  have hw : WF D (initSt A : St α) :=
    ⟨hA, (fun p hp => by simp [initSt] at hp), (fun p hp => by simp [initSt] at hp)⟩
  obtain ⟨h1, h2⟩ := runProg_refines D hD T (initSt A) hw P
  have hc : cSt (initSt A : St α) = initSt A := rfl
  rw [hc] at h1
  rw [← h1]
  cases hr : runProg .ref D T (initSt A) P with
  | none => rfl
  | some s =>
    simp only [Option.map_some]
    rw [observe_refines D T s (h2 s hr)]


end Programs

section GlobalStorage
variable {α : Type} [RealOps α]

/-! ## global storage: the same in both semantics -/

theorem gRegRec_mode (D : Dims) (T : Tables α) (s : St α) (hw : WF D s) (G : GStore α)
    (r : String × Int × Option String) :
    gRegRec .ref D T s G r = gRegRec .impl D T (cSt s) G r := by
  unfold gRegRec
  cases hd : sget T.dbl r.1 with
  | none => rfl
  | some info =>
    simp only []
    split
    · cases hrn : r.2.2 with
      | none => rfl
      | some rn =>
        simp only [cSt_ints_get, cSt_dbls_get]
        cases hreg : sget s.ints rn with
        | none => rfl
        | some reg =>
          cases hloc : sget s.dbls r.1 with
          | none => rfl
          | some loc =>
            simp only [Option.map_some]
            have hlr := wfstore_sget hw.ints hreg
            have hll := wfstore_sget hw.dbls hloc
            congr 1
            rw [List.mapIdx_eq_mapIdx_iff]
            intro g _
            have hact : (cSt s).act = s.act := rfl
            rw [hact]
            by_cases ha : isActive s.act g = true
            · simp only [cellG, cellAt_compress_rank s.act reg g (by rw [hlr, hw.act]) ha,
                cellAt_compress_rank s.act loc g (by rw [hll, hw.act]) ha]
              rfl
            · simp [ha]
    · rfl

theorem gStep_mode (D : Dims) (T : Tables α) (sec : Section) (b : Box) (s : St α) (hw : WF D s) (G : GStore α)
    (k : Kw α) : gStep .ref D T sec b s G k = gStep .impl D T sec b (cSt s) G k := by
  cases k with
  | regScalar op recs =>
    simp only [gStep]
    congr 1
    induction recs generalizing G with
    | nil => rfl
    | cons r rs ih => simp only [List.foldl_cons]; rw [gRegRec_mode D T s hw]; exact ih _
  | operateR recs =>
    simp only [gStep]
    congr 1
    induction recs generalizing G with
    | nil => rfl
    | cons r rs ih => simp only [List.foldl_cons]; rw [gRegRec_mode D T s hw]; exact ih _
  | _ => rfl

def cPairG (pg : (St α × Box) × GStore α) : (St α × Box) × GStore α := (cPair pg.1, pg.2)

theorem kwStepG_refines (D : Dims) (hD : DPos D) (T : Tables α) (sec : Section) (pg : (St α × Box) × GStore α)
    (hp : PairOK D pg.1) (k : Kw α) :
    (kwStepG .ref D T sec pg k).map cPairG = kwStepG .impl D T sec (cPairG pg) k ∧
    ∀ q, kwStepG .ref D T sec pg k = some q → PairOK D q.1 := by
  obtain ⟨r1, r2⟩ := kwStep_refines D hD T sec pg.1 hp k
  unfold kwStepG
  simp only [cPairG]
  rw [← r1]
  cases hk : kwStep .ref D T sec pg.1 k with
  | none => simp
  | some q =>
    have hq := r2 q hk
    simp only [Option.map_some]
    have hb : (cPair pg.1).2 = pg.1.2 := rfl
    have hs : (cPair q).1 = cSt q.1 := rfl
    rw [hb, hs, ← gStep_mode D T sec pg.1.2 q.1 hq.1 pg.2 k]
    cases hg : gStep .ref D T sec pg.1.2 q.1 pg.2 k with
    | none => simp
    | some G' =>
      simp only [Option.map_some]
      exact ⟨rfl, fun q' hq' => by cases hq'; exact hq⟩

theorem scanSectionG_refines (D : Dims) (hD : DPos D) (T : Tables α) (sec : Section) (sg : St α × GStore α)
    (hw : WF D sg.1) (ks : List (Kw α)) :
    (scanSectionG .ref D T sec sg ks).map (fun x => (cSt x.1, x.2)) = scanSectionG .impl D T sec (cSt sg.1, sg.2) ks ∧
    ∀ q, scanSectionG .ref D T sec sg ks = some q → WF D q.1 := by
  unfold scanSectionG
  obtain ⟨h1, h2⟩ := foldRecs_refines (kwStepG .ref D T sec) (kwStepG .impl D T sec) cPairG (fun pg => PairOK D pg.1)
    (fun pg k hp => kwStepG_refines D hD T sec pg hp k) ks ((sg.1, Box.global D), sg.2) ⟨hw, global_valid D hD⟩
  change _ = foldRecs _ ((cSt sg.1, Box.global D), sg.2) ks at h1
  rw [← h1]
  cases hf : foldRecs (kwStepG .ref D T sec) ((sg.1, Box.global D), sg.2) ks with
  | none => simp
  | some r =>
    have hwr := (h2 r hf).1
    simp only [Option.map_some, cPairG, cPair]
    by_cases he : sec = .edit
    · simp only [he, if_true]
      obtain ⟨m1, m2⟩ := foldl_applyMult_refines D T.dbl r.1.1 hwr
      exact ⟨by simp only [applyMultipliers]; rw [m1], fun q hq => by cases hq; exact m2⟩
    · simp only [he, if_false]
      exact ⟨trivial, fun q hq => by cases hq; exact hwr⟩

theorem runProgG_refines (D : Dims) (hD : DPos D) (T : Tables α) (s0 : St α) (hw : WF D s0) (P : Prog α) :
    (runProgG .ref D T s0 P).map (fun x => (cSt x.1, x.2)) = runProgG .impl D T (cSt s0) P ∧
    ∀ q, runProgG .ref D T s0 P = some q → WF D q.1 := by
  unfold runProgG
  obtain ⟨g1, g2⟩ := scanSectionG_refines D hD T .grid (s0, []) hw P.grid
  rw [← g1]
  cases h1 : scanSectionG .ref D T .grid (s0, []) P.grid with
  | none => simp
  | some s1 =>
    have w1 := g2 s1 h1
    simp only [Option.map_some]
    obtain ⟨e1, e2⟩ := scanSectionG_refines D hD T .edit s1 w1 P.edit
    rw [← e1]
    cases h2 : scanSectionG .ref D T .edit s1 P.edit with
    | none => simp
    | some s2 =>
      have w2 := e2 s2 h2
      simp only [Option.map_some]
      obtain ⟨a1, a2⟩ := resetActnum_refines D s2.1 w2
      rw [← a1]
      obtain ⟨r1, r2⟩ := scanSectionG_refines D hD T .regions (resetActnum .ref D s2.1, s2.2) a2 P.regions
      rw [← r1]
      cases h3 : scanSectionG .ref D T .regions (resetActnum .ref D s2.1, s2.2) P.regions with
      | none => simp
      | some s3 =>
        have w3 := r2 s3 h3
        simp only [Option.map_some]
        obtain ⟨p1, p2⟩ := scanSectionG_refines D hD T .props s3 w3 P.props
        rw [← p1]
        cases h4 : scanSectionG .ref D T .props s3 P.props with
        | none => simp
        | some s4 =>
          have w4 := p2 s4 h4
          simp only [Option.map_some]
          exact scanSectionG_refines D hD T .solution s4 w4 P.solution

theorem observeG_refines (D : Dims) (T : Tables α) (sg : St α × GStore α) (hw : WF D sg.1) :
    observeG .ref D T sg = observeG .impl D T (cSt sg.1, sg.2) := by
  unfold observeG
  have hact : (cSt sg.1).act = sg.1.act := rfl
  simp only [hact]
  congr 1
  · apply List.map_congr_left
    intro p _
    simp only [observeDG, observeD_refines D T sg.1 hw]
  · apply List.map_congr_left
    intro p _
    rw [observeI_refines D T sg.1 hw]

/-- **What the driver runs: the observable result of every deck, including the global storage
of `global` keywords, is the same under both semantics.** -/
theorem runObserveG_refines (D : Dims) (hD : DPos D) (T : Tables α) (A : List Bool) (hA : A.length = D.size)
    (P : Prog α) : runObserveG .ref D T A P = runObserveG .impl D T A P := by
  unfold runObserveG
  have hw : WF D (initSt A : St α) :=
    ⟨hA, (fun p hp => by simp [initSt] at hp), (fun p hp => by simp [initSt] at hp)⟩
  obtain ⟨h1, h2⟩ := runProgG_refines D hD T (initSt A) hw P
  have hc : cSt (initSt A : St α) = initSt A := rfl
  rw [hc] at h1
  rw [← h1]
  cases hr : runProgG .ref D T (initSt A) P with
  | none => rfl
  | some sg =>
    simp only [Option.map_some]
    rw [observeG_refines D T sg (h2 sg hr)]


end GlobalStorage

/-! ## independence of inactive cells (one operation) -/

section Indep
variable {α : Type} [Scalar α]

/-- the value the reference operation leaves in a cell does not mention the ACTNUM -/
theorem refApply_value (K : Kernel α) (A : List Bool) (sel : Nat → Option Nat) (src tgt y : Arr α)
    (h : refApply K A sel src tgt = some y) : y = tgt.mapIdx (refUpd K sel src) := by
  unfold refApply at h
  split at h
  · cases h
  · cases h; rfl

/-- Two runs of the same operation on the same global contents under two different ACTNUMs
leave the same content in every cell that is active in both (whenever both are accepted). -/
theorem indep_one_op (K : Kernel α) (A A' : List Bool) (sel : Nat → Option Nat) (L L' : List Idx)
    (hs : IdxSpec A sel L) (hs' : IdxSpec A' sel L') (src tgt : Arr α)
    (hsrc : src.length = A.length) (htgt : tgt.length = A.length) (hAA : A'.length = A.length)
    (y y' : Arr α)
    (hy : implApply K L (compress A src) (compress A tgt) = some y)
    (hy' : implApply K L' (compress A' src) (compress A' tgt) = some y')
    (g : Nat) (hg : isActive A g = true) (hg' : isActive A' g = true) :
    y[rank A g]? = y'[rank A' g]? := by
  have r1 := apply_refines K A sel L hs src tgt hsrc htgt
  have r2 := apply_refines K A' sel L' hs' src tgt (by rw [hsrc, hAA]) (by rw [htgt, hAA])
  rw [hy] at r1
  rw [hy'] at r2
  cases h1 : refApply K A sel src tgt with
  | none => rw [h1] at r1; cases r1
  | some z =>
    cases h2 : refApply K A' sel src tgt with
    | none => rw [h2] at r2; cases r2
    | some z' =>
      rw [h1] at r1
      rw [h2] at r2
      simp only [Option.map_some, Option.some.injEq] at r1 r2
      have e1 := refApply_value K A sel src tgt z h1
      have e2 := refApply_value K A' sel src tgt z' h2
      have hz : z' = z := by rw [e1, e2]
      subst hz
      have hzl : z'.length = A.length := by rw [e2]; simp [htgt]
      rw [← r1, ← r2, getElem?_compress_rank A z' g hzl hg,
        getElem?_compress_rank A' z' g (by rw [hzl, hAA]) hg']

end Indep

/-! ## the documented semantics, as the kernels have it -/

section Pinned
variable {α : Type} [Scalar α]

/-- an operation whose kernel flags an indexed cell is rejected as a whole -/
theorem implApply_rejects (K : Kernel α) (L : List Idx) (src tgt : Arr α) (e : Idx) (he : e ∈ L)
    (hb : K.bad e.d (cellAt src e.a) (cellAt tgt e.a) = true) : implApply K L src tgt = none := by
  unfold implApply
  rw [if_pos]
  exact List.any_eq_true.mpr ⟨e, he, hb⟩

theorem scalar_bad_uninit (op : ScalarOp) (hop : op ≠ .equal) (x : α) (d : Nat) (s t : Cell α)
    (ht : t.st.hasValue = false) : (scalarKernel op x).bad d s t = true := by
  cases op <;> simp_all [scalarKernel]

theorem equals_never_bad (x : α) (d : Nat) (s t : Cell α) : (scalarKernel .equal x).bad d s t = false := rfl

theorem equals_sets_deck_value (x : α) (d : Nat) (s t : Cell α) :
    (scalarKernel .equal x).upd d s t = ⟨.deckValue, x⟩ := rfl

theorem minvalue_clamps (x : α) (d : Nat) (s t : Cell α) (ht : t.st.hasValue = true) :
    (scalarKernel .min x).upd d s t = ⟨t.st, stdMax t.v x⟩ := by
  simp [scalarKernel, ht]

theorem maxvalue_clamps (x : α) (d : Nat) (s t : Cell α) (ht : t.st.hasValue = true) :
    (scalarKernel .max x).upd d s t = ⟨t.st, stdMin t.v x⟩ := by
  simp [scalarKernel, ht]

theorem minmax_skip_uninit (op : ScalarOp) (x : α) (d : Nat) (s t : Cell α)
    (ht : t.st.hasValue = false) (hop : op ≠ .equal) : (scalarKernel op x).upd d s t = t := by
  cases op <;> simp_all [scalarKernel]

theorem deck_default_fills_only_uninit (deck : Arr α) (d : Nat) (s t : Cell α)
    (hd : (cellAt deck d).st = .validDefault) :
    (assignKernel deck).upd d s t = if t.st = .uninit then cellAt deck d else t := by
  simp [assignKernel, hd, Status.hasValue]

theorem deck_value_overwrites (deck : Arr α) (d : Nat) (s t : Cell α)
    (hd : (cellAt deck d).st = .deckValue) : (assignKernel deck).upd d s t = cellAt deck d := by
  simp [assignKernel, hd, Status.hasValue]

theorem empty_default_ignored (deck : Arr α) (d : Nat) (s t : Cell α)
    (hd : (cellAt deck d).st = .emptyDefault) : (assignKernel deck).upd d s t = t := by
  simp [assignKernel, hd, Status.hasValue]

end Pinned


/-! ## BoxManager -/

def BoxMgr.Valid (D : Dims) (m : BoxMgr) : Prop :=
  (∀ b, m.input = some b → b.Valid D) ∧ (∀ b, m.keyword = some b → b.Valid D)

theorem BoxMgr.step_valid (D : Dims) (m m' : BoxMgr) (op : MgrOp) (hm : m.Valid D) (h : m.step D op = some m') :
    m'.Valid D := by
  obtain ⟨hi, hk⟩ := hm
  cases op with
  | setInput i1 i2 j1 j2 k1 k2 =>
    simp only [BoxMgr.step] at h
    cases hb : Box.init D i1 i2 j1 j2 k1 k2 with
    | none => rw [hb] at h; cases h
    | some b =>
      rw [hb] at h
      simp only [Option.map_some, Option.some.injEq] at h
      subst h
      exact ⟨fun b' hb' => by simp only [Option.some.injEq] at hb'; subst hb'; exact init_valid D _ _ _ _ _ _ b hb, hk⟩
  | setKeyword i1 i2 j1 j2 k1 k2 =>
    simp only [BoxMgr.step] at h
    cases hb : Box.init D i1 i2 j1 j2 k1 k2 with
    | none => rw [hb] at h; cases h
    | some b =>
      rw [hb] at h
      simp only [Option.map_some, Option.some.injEq] at h
      subst h
      exact ⟨hi, fun b' hb' => by simp only [Option.some.injEq] at hb'; subst hb'; exact init_valid D _ _ _ _ _ _ b hb⟩
  | endKeyword =>
    simp only [BoxMgr.step, Option.some.injEq] at h
    subst h
    exact ⟨hi, fun b hb => by cases hb⟩
  | endInput =>
    simp only [BoxMgr.step] at h
    split at h
    · cases h
    · simp only [Option.some.injEq] at h
      subst h
      exact ⟨(fun b hb => by cases hb), hk⟩
  | endSection =>
    simp only [BoxMgr.step] at h
    split at h
    · cases h
    · simp only [Option.some.injEq] at h
      subst h
      exact ⟨(fun b hb => by cases hb), hk⟩

theorem BoxMgr.active_valid (D : Dims) (hD : DPos D) (m : BoxMgr) (hm : m.Valid D) : (m.active D).Valid D := by
  obtain ⟨hi, hk⟩ := hm
  unfold BoxMgr.active
  cases h1 : m.keyword with
  | some b => exact hk b h1
  | none =>
    cases h2 : m.input with
    | some b => exact hi b h2
    | none => exact global_valid D hD

/-- after any history of BoxManager calls the index list of the active box meets its specification -/
theorem BoxMgr.index_list_spec (D : Dims) (hD : DPos D) (A : List Bool) (ops : List MgrOp) (m : BoxMgr)
    (h : ops.foldl (fun (s : Option BoxMgr) op => s.bind fun x => (x.step D op)) (some ⟨none, none⟩) = some m) :
    IdxSpec A (boxSel D (m.active D)) (indexList D A (m.active D)) := by
  have key : ∀ (ops : List MgrOp) (s : BoxMgr), s.Valid D →
      ∀ m, ops.foldl (fun (s : Option BoxMgr) op => s.bind fun x => (x.step D op)) (some s) = some m → m.Valid D := by
    intro ops
    induction ops with
    | nil => intro s hs m hm; simp only [List.foldl_nil, Option.some.injEq] at hm; subst hm; exact hs
    | cons op ops ih =>
      intro s hs m hm
      simp only [List.foldl_cons, Option.bind_some] at hm
      cases hst : s.step D op with
      | none =>
        rw [hst] at hm
        have : ∀ (l : List MgrOp), l.foldl (fun (s : Option BoxMgr) op => s.bind fun x => (x.step D op)) none = none := by
          intro l; induction l with
          | nil => rfl
          | cons _ _ ih => simp only [List.foldl_cons, Option.bind_none]; exact ih
        rw [this] at hm; cases hm
      | some s' =>
        rw [hst] at hm
        exact ih s' (BoxMgr.step_valid D s s' op hs hst) m hm
  have hv := key ops ⟨none, none⟩ ⟨(fun b hb => by cases hb), (fun b hb => by cases hb)⟩ m h
  exact indexList_spec D A _ (BoxMgr.active_valid D hD m hv)


end OpmVerif.FieldProps
