/-
  Fifth round: the DECODE side of the restart round trip — `format_double` on the binary64 pattern of an
  integer inside the `int` range prints that integer, hence `NumRT` holds for these constants.
-/
import OpmVerif.Proofs.ActionFmt
import OpmVerif.Proofs.ActionString

namespace OpmVerif.Act
open OpmVerif

/-- the binary64 pattern of `±n` for `2^k ≤ n < 2^(k+1)` -/
def intBits (neg : Bool) (k n : Nat) : Nat :=
  (if neg then 2 ^ 63 else 0) + (k + 1023) * 2 ^ 52 + (n * 2 ^ (52 - k) - 2 ^ 52)

theorem intBits_sig (k n : Nat) (hk : k ≤ 52) (h1 : 2 ^ k ≤ n) (h2 : n < 2 ^ (k + 1)) :
    2 ^ 52 ≤ n * 2 ^ (52 - k) ∧ n * 2 ^ (52 - k) < 2 ^ 53 := by
  constructor
  · have e : 2 ^ 52 = 2 ^ k * 2 ^ (52 - k) := by
      rw [← Nat.pow_add, show k + (52 - k) = 52 by omega]
    rw [e]; exact Nat.mul_le_mul_right _ h1
  · have e : 2 ^ 53 = 2 ^ (k + 1) * 2 ^ (52 - k) := by
      rw [← Nat.pow_add, show k + 1 + (52 - k) = 53 by omega]
    rw [e]; exact Nat.mul_lt_mul_of_pos_right h2 (Nat.two_pow_pos _)

theorem intBits_lt (neg : Bool) (k n : Nat) (hk : k ≤ 52) (h1 : 2 ^ k ≤ n) (h2 : n < 2 ^ (k + 1)) :
    intBits neg k n < 2 ^ 64 := by
  obtain ⟨a, b⟩ := intBits_sig k n hk h1 h2
  unfold intBits
  generalize n * 2 ^ (52 - k) = X at a b ⊢
  cases neg <;> simp only [if_true, if_false, Bool.false_eq_true] <;> omega

theorem fmtDouble_intBits_fmtND (neg : Bool) (k n : Nat) (hk : k ≤ 51) (h1 : 2 ^ k ≤ n)
    (h2 : n < 2 ^ (k + 1)) :
    fmtDouble (intBits neg k n) = fmtND neg (n * 2 ^ (52 - k)) (2 ^ (52 - k)) := by
  obtain ⟨a, b⟩ := intBits_sig k n (by omega) h1 h2
  have hE : intBits neg k n % 2 ^ 63 / 2 ^ 52 = k + 1023 := by
    unfold intBits
    generalize n * 2 ^ (52 - k) = X at a b ⊢
    cases neg <;> simp only [if_true, if_false, Bool.false_eq_true] <;> omega
  have hM : intBits neg k n % 2 ^ 52 = n * 2 ^ (52 - k) - 2 ^ 52 := by
    unfold intBits
    generalize n * 2 ^ (52 - k) = X at a b ⊢
    cases neg <;> simp only [if_true, if_false, Bool.false_eq_true] <;> omega
  have hN : decide (2 ^ 63 ≤ intBits neg k n) = neg := by
    unfold intBits
    generalize n * 2 ^ (52 - k) = X at a b ⊢
    cases neg <;> simp only [if_true, if_false, Bool.false_eq_true, decide_eq_true_eq,
      decide_eq_false_iff_not] <;> omega
  have c1 : ¬ (k + 1023 = 2047) := by omega
  have c2 : ¬ (k + 1023 = 0) := by omega
  have c3 : ¬ (1075 ≤ k + 1023) := by omega
  have hs : 2 ^ 52 + (n * 2 ^ (52 - k) - 2 ^ 52) = n * 2 ^ (52 - k) := Nat.add_sub_of_le a
  have hd : 1075 - (k + 1023) = 52 - k := by omega
  unfold fmtDouble fmtND
  dsimp only
  simp only [hE, hM, hN, c1, c2, c3, if_false, hs, hd]

/-- **decode**: `format_double` on the pattern of `±n` (`n < 2^31`) prints `std::to_string(±n)` -/
theorem fmtDouble_intBits (neg : Bool) (k n : Nat) (hk : k ≤ 30) (h1 : 2 ^ k ≤ n) (h2 : n < 2 ^ (k + 1)) :
    fmtDouble (intBits neg k n) = some (fmtInt neg n) := by
  rw [fmtDouble_intBits_fmtND neg k n (by omega) h1 h2]
  have hn31 : n < 2 ^ 31 := by
    have : 2 ^ (k + 1) ≤ 2 ^ 31 := Nat.pow_le_pow_right (by decide) (by omega)
    omega
  have hn0 : n ≠ 0 := by have := Nat.two_pow_pos k; omega
  unfold fmtND
  rw [Nat.mul_mod_left, Nat.mul_div_cancel _ (Nat.two_pow_pos _), if_pos rfl, if_pos (Or.inl hn31)]
  simp only [hn0, ne_eq, not_false_eq_true, decide_true, Bool.and_true]

theorem fmtInt_roundtrip_intBits (neg : Bool) (k n : Nat) (hk : k ≤ 52) (h1 : 2 ^ k ≤ n)
    (h2 : n < 2 ^ (k + 1)) : numBits (fmtInt neg n) = some (intBits neg k n) :=
  fmtInt_roundtrip neg k n hk h1 h2

/-- **`NumRT` for integer-valued constants inside the `int` range** -/
theorem numRT_int (neg : Bool) (k n : Nat) (hk : k ≤ 30) (h1 : 2 ^ k ≤ n) (h2 : n < 2 ^ (k + 1)) :
    NumRT (UInt64.ofNat (intBits neg k n)) := by
  have hlt := intBits_lt neg k n (by omega) h1 h2
  have e : (UInt64.ofNat (intBits neg k n)).toNat = intBits neg k n := by
    rw [UInt64.toNat_ofNat']; exact Nat.mod_eq_of_lt hlt
  unfold NumRT
  rw [e]
  exact ⟨fmtInt neg n, fmtDouble_intBits neg k n hk h1 h2, classify_fmtInt neg n,
    fmtInt_roundtrip_intBits neg k n (by omega) h1 h2⟩

theorem numRT_zero : NumRT 0 :=
  ⟨"0".toList, by decide +kernel, by decide +kernel, by decide +kernel⟩

example : NumRT 0x4024000000000000 := by
  have := numRT_int false 3 10 (by decide) (by decide) (by decide)
  have e : UInt64.ofNat (intBits false 3 10) = 0x4024000000000000 := by decide +kernel
  rw [e] at this; exact this

end OpmVerif.Act
