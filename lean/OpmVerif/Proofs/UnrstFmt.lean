/-
  Refinement proof for the formatted unified restart file (`Model/UnrstFmt.lean`): every
  history of report-step writes, rewinds included, leaves the fresh file of the surviving
  steps.  Mirrors `Proofs/Unrst.lean` on top of the formatted index (`Proofs/EclFmtFile.lean`).
-/
import OpmVerif.Proofs.EclFmtFile
import OpmVerif.Model.UnrstFmt

namespace OpmVerif.UnrstFmt
open OpmVerif.Ecl OpmVerif.EclFmt

theorem encodeFmtFile_append (xs ys : List FArr) :
    encodeFmtFile (xs ++ ys) = encodeFmtFile xs ++ encodeFmtFile ys := by
  simp [encodeFmtFile]

theorem encodeFmtFile_cons (a : FArr) (as : List FArr) :
    encodeFmtFile (a :: as) = a.encode ++ encodeFmtFile as := by
  simp [encodeFmtFile]

theorem length_le_encodeFmtFile (as : List FArr) : as.length ≤ (encodeFmtFile as).length := by
  induction as with
  | nil => simp
  | cons b l ih =>
    have := encode_length_ge b
    rw [encodeFmtFile_cons, List.length_append, List.length_cons]; omega

def stepArrs (s : Nat × List FArr) : List FArr := seqnumArr s.1 :: s.2
def allArrs (st : Steps) : List FArr := st.flatMap stepArrs

theorem fresh_eq (st : Steps) : fresh st = encodeFmtFile (allArrs st) := by
  induction st with
  | nil => rfl
  | cons s st ih =>
    simp only [fresh, allArrs, List.flatMap_cons] at ih ⊢
    rw [encodeFmtFile_append, ← ih]; rfl

theorem fresh_cons (s : Nat × List FArr) (st : Steps) :
    fresh (s :: st) = encodeFmtFile (stepArrs s) ++ fresh st := by
  simp [fresh, stepArrs]

theorem fresh_append (a b : Steps) : fresh (a ++ b) = fresh a ++ fresh b := by
  simp [fresh]

/-- a report step the writer can produce: step number below 2^31, well-formed arrays none of
which is itself called SEQNUM. -/
def StepWF (s : Nat × List FArr) : Prop :=
  s.1 < 2147483648 ∧ ∀ a ∈ s.2, a.WF ∧ a.name ≠ seqnumName

theorem seqnumArr_WF {n : Nat} (h : n < 2147483648) : (seqnumArr n).WF := by
  have hn : NameOk seqnumName := ⟨rfl, by decide⟩
  refine ⟨hn, by simp [FArr.size, seqnumArr], ?_, ?_, ?_, ?_⟩
  · intro k hk; simp [seqnumArr] at hk
  · intro _ x hx; simp [seqnumArr] at hx; subst hx; unfold InInt32; omega
  · rintro (h | ⟨k, h⟩) <;> simp [seqnumArr] at h
  · rintro (h | h) <;> simp [seqnumArr] at h

theorem stepArrs_WF {s : Nat × List FArr} (h : StepWF s) : ∀ a ∈ stepArrs s, a.WF := by
  intro a ha
  simp only [stepArrs, List.mem_cons] at ha
  rcases ha with rfl | ha
  · exact seqnumArr_WF h.1
  · exact (h.2 a ha).1

theorem allArrs_WF {st : Steps} (h : ∀ s ∈ st, StepWF s) : ∀ a ∈ allArrs st, a.WF := by
  intro a ha
  simp only [allArrs, List.mem_flatMap] at ha
  obtain ⟨s, hs, has⟩ := ha
  exact stepArrs_WF (h s hs) a has

def stepOffsets : Nat → Steps → List (Int × Nat)
  | _, [] => []
  | pos, s :: st => ((s.1 : Int), pos) :: stepOffsets (pos + (encodeFmtFile (stepArrs s)).length) st

theorem entriesOf_append_skip (as rest : List FArr) (off : Nat)
    (hne : ∀ a ∈ as, a.name ≠ seqnumName) :
    stepsOf (entriesOf off (as ++ rest)) =
      stepsOf (entriesOf (off + (encodeFmtFile as).length) rest) := by
  induction as generalizing off with
  | nil => simp [encodeFmtFile]
  | cons a as ih =>
    have h1 : a.name ≠ seqnumName := hne a (by simp)
    have h2 : ∀ x ∈ as, x.name ≠ seqnumName := fun x hx => hne x (by simp [hx])
    simp only [List.cons_append, entriesOf, stepsOf, h1, if_false, ih _ h2, encodeFmtFile_cons,
      List.length_append, Nat.add_assoc]

theorem seekPosition_add (p : Nat) : seekPosition (p + Gen.EclFile.headerSizeFormatted) = p := by
  unfold seekPosition headerSize Gen.EclFile.headerSizeFormatted
  by_cases h : p + 31 ≤ 31
  · simp [h]; omega
  · simp [h]

theorem stepsOf_fresh (st : Steps) (hwf : ∀ s ∈ st, StepWF s) :
    ∀ (off : Nat), stepsOf (entriesOf off (allArrs st)) = some (stepOffsets off st) := by
  induction st with
  | nil => intro off; simp [allArrs, entriesOf, stepsOf, stepOffsets]
  | cons s st ih =>
    intro off
    have hs : StepWF s := hwf s (by simp)
    have hst : ∀ x ∈ st, StepWF x := fun x hx => hwf x (by simp [hx])
    have hall : allArrs (s :: st) = seqnumArr s.1 :: (s.2 ++ allArrs st) := by
      simp [allArrs, stepArrs]
    rw [hall]
    simp only [entriesOf, stepsOf]
    have hname : (seqnumArr s.1).name = seqnumName := rfl
    simp only [hname, if_true]
    obtain ⟨d, hd, hrel⟩ := loadEntry_encode (seqnumArr s.1) (seqnumArr_WF hs.1)
      (encodeFmtFile (s.2 ++ allArrs st)) (off + Gen.EclFile.headerSizeFormatted)
    have hd' : d = .inte [(s.1 : Int)] := by
      simpa [DataRel, seqnumArr] using hrel
    have hload : loadEntry
        { name := seqnumName, num := ((seqnumArr s.1).size : Int), t := (seqnumArr s.1).t,
          text := padTo ((seqnumArr s.1).body.length + 1)
            (((seqnumArr s.1).body ++ encodeFmtFile (s.2 ++ allArrs st)).take ((seqnumArr s.1).body.length + 1)),
          pos := off + Gen.EclFile.headerSizeFormatted } = some (.inte [(s.1 : Int)]) := by
      rw [← hd']; exact hd
    rw [hload]
    simp only []
    rw [entriesOf_append_skip s.2 (allArrs st) _ (fun a ha => (hs.2 a ha).2)]
    have hpre : off + (seqnumArr s.1).encode.length + (encodeFmtFile s.2).length =
        off + (encodeFmtFile (stepArrs s)).length := by
      simp [stepArrs, encodeFmtFile_cons, Nat.add_assoc]
    rw [hpre, ih hst]
    simp only [stepOffsets, seekPosition_add]

/-- Strictly increasing report-step numbers. -/
def Sorted : Steps → Prop
  | [] => True
  | [_] => True
  | a :: b :: rest => a.1 < b.1 ∧ Sorted (b :: rest)

theorem Sorted.tail {a : Nat × List FArr} {st : Steps} (h : Sorted (a :: st)) : Sorted st := by
  cases st with
  | nil => trivial
  | cons b rest => exact h.2

theorem Sorted.head_lt {a : Nat × List FArr} {st : Steps} (h : Sorted (a :: st)) :
    ∀ s ∈ st, a.1 < s.1 := by
  induction st generalizing a with
  | nil => intro s hs; cases hs
  | cons b rest ih =>
    intro s hs
    simp only [List.mem_cons] at hs
    rcases hs with rfl | hs
    · exact h.1
    · have := ih h.2 s hs
      have := h.1
      omega

theorem lowerBound_sorted (n : Nat) :
    ∀ (st : Steps) (pos : Nat), Sorted st →
      Unrst.lowerBound (n : Int) (stepOffsets pos st) =
        match st.filter (fun s => ¬ s.1 < n) with
        | [] => none
        | s :: _ => some ((s.1 : Int), pos + (fresh (st.filter (fun s => s.1 < n))).length) := by
  intro st
  induction st with
  | nil => intro pos _; simp [stepOffsets, Unrst.lowerBound]
  | cons a st ih =>
    intro pos hs
    have hlt := hs.head_lt
    simp only [stepOffsets, Unrst.lowerBound]
    rw [ih _ hs.tail]
    by_cases ha : a.1 < n
    · simp only [List.filter_cons, ha, not_true_eq_false, decide_false, decide_true, if_true]
      have hk : ¬ ((a.1 : Int) ≥ (n : Int)) := by omega
      cases hf : st.filter (fun s => ¬ s.1 < n) with
      | nil => simp [hk]
      | cons b rest =>
        simp only [hk, false_and, if_false, fresh_cons, List.length_append]
        simp [Nat.add_assoc]
    · have hall : ∀ s ∈ st, ¬ s.1 < n := fun s hs' => by have := hlt s hs'; omega
      have hf1 : st.filter (fun s => s.1 < n) = [] := by
        rw [List.filter_eq_nil_iff]; intro s hs'; simpa using hall s hs'
      have hf2 : st.filter (fun s => ¬ s.1 < n) = st := by
        rw [List.filter_eq_self]; intro s hs'; simpa using hall s hs'
      simp only [List.filter_cons, ha, not_false_eq_true, decide_true, decide_false, if_true, hf1, hf2]
      have hk : (a.1 : Int) ≥ (n : Int) := by omega
      cases st with
      | nil => simp [hk, fresh]
      | cons b rest =>
        have : a.1 < b.1 := hlt b (by simp)
        have hk2 : (a.1 : Int) < (b.1 : Int) := by omega
        simp [hk, hk2, fresh]

theorem filter_split_sorted (n : Nat) (st : Steps) (hs : Sorted st) :
    st = st.filter (fun s => s.1 < n) ++ st.filter (fun s => ¬ s.1 < n) := by
  induction st with
  | nil => simp
  | cons a st ih =>
    by_cases ha : a.1 < n
    · simp only [List.filter_cons, ha, decide_true, if_true, not_true_eq_false, decide_false,
        List.cons_append]
      exact congrArg _ (ih hs.tail)
    · have hall : ∀ s ∈ st, ¬ s.1 < n := fun s hs' => by have := hs.head_lt s hs'; omega
      have hf1 : st.filter (fun s => s.1 < n) = [] := by
        rw [List.filter_eq_nil_iff]; intro s hs'; simpa using hall s hs'
      have hf2 : st.filter (fun s => ¬ s.1 < n) = st := by
        rw [List.filter_eq_self]; intro s hs'; simpa using hall s hs'
      simp only [List.filter_cons, ha, decide_false, not_false_eq_true, decide_true, if_true, hf1, hf2,
        List.nil_append, Bool.false_eq_true, if_false]

theorem any_seqnum (st : Steps) (hne : st ≠ []) (pos : Nat) :
    (entriesOf pos (allArrs st)).any (fun e => e.name = seqnumName) = true := by
  cases st with
  | nil => exact absurd rfl hne
  | cons s st => simp [allArrs, stepArrs, entriesOf, seqnumArr]

/-- One report-step write on a well-formed formatted unified restart file produces exactly
the fresh file of the surviving steps. -/
theorem writeStep_refines (st : Steps) (hne : st ≠ []) (hwf : ∀ s ∈ st, StepWF s) (hs : Sorted st)
    (n : Nat) (as : List FArr) :
    writeStep (some (fresh st)) n as = some (fresh (specStep st n as)) := by
  unfold writeStep
  simp only []
  have hidx := loadIndex_encode (allArrs st) ((fresh st).length + 1) 0 (by
    have := length_le_encodeFmtFile (allArrs st); rw [← fresh_eq] at this; omega) (allArrs_WF hwf)
  rw [← fresh_eq] at hidx
  rw [hidx]
  simp only [any_seqnum st hne 0, not_true_eq_false, if_false]
  rw [stepsOf_fresh st hwf 0]
  simp only [lowerBound_sorted n st 0 hs]
  have hpay : encodeFmtFile (seqnumArr n :: as) = fresh [(n, as)] := by simp [fresh]
  rw [hpay]
  cases hf : st.filter (fun s => ¬ s.1 < n) with
  | nil =>
    simp only []
    have hall : st.filter (fun s => s.1 < n) = st := by
      have := filter_split_sorted n st hs
      rw [hf, List.append_nil] at this
      exact this.symm
    simp [specStep, hall, fresh_append]
  | cons b rest =>
    simp only [Nat.zero_add]
    have hsplit := filter_split_sorted n st hs
    have : fresh st = fresh (st.filter (fun s => s.1 < n)) ++ fresh (st.filter (fun s => ¬ s.1 < n)) := by
      rw [← fresh_append, ← hsplit]
    rw [this, List.take_left' rfl]
    simp [specStep, fresh_append]

theorem specStep_ne (st : Steps) (n : Nat) (as : List FArr) : specStep st n as ≠ [] := by
  simp [specStep]

theorem specStep_wf {st : Steps} (hwf : ∀ s ∈ st, StepWF s) {n : Nat} {as : List FArr}
    (hnew : StepWF (n, as)) : ∀ s ∈ specStep st n as, StepWF s := by
  intro s hs
  simp only [specStep, List.mem_append, List.mem_filter, List.mem_singleton] at hs
  rcases hs with ⟨h, _⟩ | rfl
  · exact hwf s h
  · exact hnew

theorem sorted_append_singleton (st : Steps) (x : Nat × List FArr) (hs : Sorted st)
    (hlt : ∀ s ∈ st, s.1 < x.1) : Sorted (st ++ [x]) := by
  induction st with
  | nil => trivial
  | cons a st ih =>
    cases st with
    | nil => exact ⟨hlt a (by simp), trivial⟩
    | cons b rest =>
      exact ⟨hs.1, ih hs.2 (fun s hs' => hlt s (by simp [hs']))⟩

theorem sorted_filter (p : Nat × List FArr → Bool) (st : Steps) (hs : Sorted st) : Sorted (st.filter p) := by
  induction st with
  | nil => trivial
  | cons a st ih =>
    by_cases hp : p a
    · simp only [List.filter_cons, hp, if_true]
      have ih' := ih hs.tail
      cases hf : st.filter p with
      | nil => trivial
      | cons b rest =>
        rw [hf] at ih'
        have hb : b ∈ st := by
          have : b ∈ st.filter p := by rw [hf]; simp
          exact (List.mem_filter.mp this).1
        exact ⟨hs.head_lt b hb, ih'⟩
    · simp only [List.filter_cons, hp]
      exact ih hs.tail

theorem specStep_sorted {st : Steps} (hs : Sorted st) (n : Nat) (as : List FArr) :
    Sorted (specStep st n as) := by
  unfold specStep
  apply sorted_append_singleton _ _ (sorted_filter _ _ hs)
  intro s hs'
  have := (List.mem_filter.mp hs').2
  simpa using this

theorem runHistory_refines :
    ∀ (h : List (Nat × List FArr)) (st : Steps), st ≠ [] → (∀ s ∈ st, StepWF s) → Sorted st →
      (∀ s ∈ h, StepWF s) →
      runHistory (some (fresh st)) h = some (some (fresh (specRun st h))) := by
  intro h
  induction h with
  | nil => intro st _ _ _ _; rfl
  | cons x h ih =>
    intro st hne hwf hs hh
    obtain ⟨n, as⟩ := x
    have hx : StepWF (n, as) := hh (n, as) (by simp)
    have hh' : ∀ s ∈ h, StepWF s := fun s hs' => hh s (by simp [hs'])
    simp only [runHistory, writeStep_refines st hne hwf hs n as, specRun]
    exact ih _ (specStep_ne st n as) (specStep_wf hwf hx) (specStep_sorted hs n as) hh'

theorem runHistory_from_nothing (n : Nat) (as : List FArr) (h : List (Nat × List FArr))
    (hx : StepWF (n, as)) (hh : ∀ s ∈ h, StepWF s) :
    runHistory none ((n, as) :: h) = some (some (fresh (specRun [] ((n, as) :: h)))) := by
  have h1 : writeStep none n as = some (fresh [(n, as)]) := by simp [writeStep, fresh]
  simp only [runHistory, h1, specRun]
  have : specStep [] n as = [(n, as)] := by simp [specStep]
  rw [this]
  exact runHistory_refines h [(n, as)] (by simp) (by intro s hs; simp at hs; rw [hs]; exact hx) trivial hh

end OpmVerif.UnrstFmt
