/-
  Solution / extra arrays: RestartIO::save converts SI -> output units (`convertFromSI`), narrows to
  single precision unless `write_double`, writes the arrays through EclOutput into the (unified)
  restart file; RestartIO::load finds the step, reads the arrays back and converts to SI.
  Composition of the unit inverse (this file), C07 (array file round trip) and C08 (unified file after
  any write history = fresh file of the surviving steps).
-/
import OpmVerif.Proofs.RstSlots
import OpmVerif.Props.C07
import OpmVerif.Props.C08

namespace OpmVerif.RstSlot
open OpmVerif.Ecl OpmVerif.Unrst

section
variable {F : Type} [Field F] (narrow : F → F) (isSentinel : F → Bool) (u : UnitSys F)

/-- Cell values: save-side conversion + narrowing + byte image. -/
def encodeCells (nar : F → F) (toBytes : F → Bytes) (m : String) (xs : List F) : List Bytes :=
  xs.map fun x => toBytes (nar (fromSI (fieldOps narrow isSentinel) u m x))

/-- Cell values: load-side byte decoding + conversion. -/
def decodeCells (ofBytes : Bytes → F) (m : String) (es : List Bytes) : List F :=
  es.map fun e => toSI (fieldOps narrow isSentinel) u m (ofBytes e)

/-- Values: if the byte image is faithful on the stored numbers and the converted values are
representable (`nar y = y`; always for `write_double`), loading returns the saved SI values. -/
theorem cells_roundtrip (hu : u.Good) (nar : F → F) (toBytes : F → Bytes) (ofBytes : Bytes → F)
    (hb : ∀ y, ofBytes (toBytes y) = y) (m : String) (xs : List F)
    (hrep : ∀ x ∈ xs, nar (fromSI (fieldOps narrow isSentinel) u m x) = fromSI (fieldOps narrow isSentinel) u m x) :
    decodeCells narrow isSentinel u ofBytes m (encodeCells narrow isSentinel u nar toBytes m xs) = xs := by
  unfold decodeCells encodeCells
  rw [List.map_map]
  conv => rhs; rw [← List.map_id xs]
  apply List.map_congr_left
  intro x hx
  simp only [Function.comp, hb, hrep x hx, id]
  exact toSI_fromSI narrow isSentinel u hu m x

/-- Single precision clause: whatever the narrowing does, loading then saving again reproduces the
stored elements (a restart of a restart is bit-stable), provided narrowing is idempotent. -/
theorem cells_restart_stable (hu : u.Good) (hn : ∀ z, narrow (narrow z) = narrow z)
    (toBytes : F → Bytes) (ofBytes : Bytes → F) (hb : ∀ y, ofBytes (toBytes y) = y) (m : String) (xs : List F) :
    encodeCells narrow isSentinel u narrow toBytes m
      (decodeCells narrow isSentinel u ofBytes m (encodeCells narrow isSentinel u narrow toBytes m xs))
      = encodeCells narrow isSentinel u narrow toBytes m xs := by
  unfold decodeCells encodeCells
  simp only [List.map_map]
  apply List.map_congr_left
  intro x _
  simp only [Function.comp, hb]
  rw [fromSI_toSI narrow isSentinel u hu, hn]

end

/-- Files: after *any* history of report-step writes (rewinds included) into a unified restart file,
decoding the file yields exactly the SEQNUM headers and arrays of the surviving steps — every array
of the step that is looked up is the array that was written for it, element for element. -/
theorem file_after_history (n : Nat) (as : List Arr) (h : List (Nat × List Arr))
    (hx : StepWF (n, as)) (hh : ∀ s ∈ h, StepWF s) :
    ∃ file, runHistory none ((n, as) :: h) = .ok (some file) ∧
      decodeFile file = .ok (allArrs (specRun [] ((n, as) :: h))) := by
  refine ⟨fresh (specRun [] ((n, as) :: h)), Props.C08.rewind_eq_fresh n as h hx hh, ?_⟩
  rw [fresh_eq]
  apply Props.C07.roundtrip_unformatted
  apply allArrs_WF
  -- every surviving step is one of the written (well-formed) steps
  have key : ∀ (st : Steps) (hist : List (Nat × List Arr)),
      (∀ s ∈ st, StepWF s) → (∀ s ∈ hist, StepWF s) → ∀ s ∈ specRun st hist, StepWF s := by
    intro st hist
    induction hist generalizing st with
    | nil => intro h1 _; simpa [specRun] using h1
    | cons a t ih =>
      intro h1 h2
      simp only [specRun]
      apply ih
      · exact specStep_wf h1 (h2 a List.mem_cons_self)
      · exact fun s hs => h2 s (List.mem_cons_of_mem _ hs)
  apply key
  · intro s hs; cases hs
  · intro s hs
    rcases List.mem_cons.mp hs with rfl | hs
    · exact hx
    · exact hh s hs

end OpmVerif.RstSlot
