/-
  C02 — the keyword JSON's dimension of every item of the hand-written quantity table IS the unit
  of that physical quantity (kernel-checked table comparison), and what follows for values.
-/
import OpmVerif.Proofs.UnitsUse
import OpmVerif.Proofs.UnitsQuantSpec

namespace OpmVerif.Units
open OpmVerif.Gen.Units OpmVerif.Gen.UnitsUse OpmVerif.Gen.UnitsQuant

/-- the whole table, all four deck systems, all columns -/
theorem item_quantities_ok : itemQuantities.all Spec.itemQuantOk = true := by decide +kernel

theorem quantities_covered : Spec.quantitiesCovered = true := by decide +kernel

/-- column-wise reading of `colsOk` -/
theorem colsOk_get (s : SysDef Rat) : ∀ (strs qs : List String), Spec.colsOk s strs qs = true →
    strs.length = qs.length ∧
    ∀ (c : Nat) (str q : String), strs[c]? = some str → qs[c]? = some q → Spec.colQuantOk s str q = true
  | [], [], _ => ⟨rfl, by intro c str q h; simp at h⟩
  | [], _ :: _, h => by simp [Spec.colsOk] at h
  | _ :: _, [], h => by simp [Spec.colsOk] at h
  | a :: strs, b :: qs, h => by
    simp only [Spec.colsOk, Bool.and_eq_true] at h
    obtain ⟨ih1, ih2⟩ := colsOk_get s strs qs h.2
    refine ⟨by simp [ih1], ?_⟩
    intro c str q hs hq
    cases c with
    | zero =>
      simp only [List.getElem?_cons_zero, Option.some.injEq] at hs hq
      subst hs; subst hq; exact h.1
    | succ c =>
      simp only [List.getElem?_cons_succ] at hs hq
      exact ih2 c str q hs hq

/-- every item of the table, every deck system, every column: the JSON lists the item with the
same number of columns and the column's dimension string resolves to the quantity's unit -/
theorem item_quantities (e : String × List String) (he : e ∈ itemQuantities)
    (s : SysDef Rat) (hs : s ∈ Spec.deckSystems) :
    ∃ strs, Spec.jsonDimsOf e.1 = some strs ∧ strs.length = e.2.length ∧
      ∀ (c : Nat) (str q : String), strs[c]? = some str → e.2[c]? = some q → Spec.colQuantOk s str q = true := by
  have h := List.all_eq_true.mp item_quantities_ok e he
  unfold Spec.itemQuantOk at h
  split at h
  · exact absurd h (by simp)
  · rename_i strs hj
    have h2 := List.all_eq_true.mp h s hs
    obtain ⟨h3, h4⟩ := colsOk_get s strs e.2 h2
    exact ⟨strs, hj, h3, h4⟩

/-- what `colQuantOk` means for a value: the deck number `x` of a (non context dependent) column
comes out of the conversion `ParserItem::scan` attaches as `x · scale + offset` of the QUANTITY -/
theorem col_value (s : SysDef Rat) (str q : String) (h : Spec.colQuantOk s str q = true) (hq : q ≠ "ContextDependent") :
    ∃ deck sc off d, s.deckName = some deck ∧ Spec.quantValue deck q = some (sc, off) ∧
      getNewDimension s str = some d ∧ ∀ x : Rat, d.rawToSi x = some (x * sc + off) := by
  unfold Spec.colQuantOk at h
  split at h
  · exact absurd h (by simp)
  · rename_i deck hd
    have hq' : (q == "ContextDependent") = false := by simpa using hq
    simp only [hq', Bool.false_eq_true, if_false] at h
    split at h
    · rename_i sc off hv
      have hd' : getNewDimension s str = some ⟨some sc, off⟩ := by simpa using h
      exact ⟨deck, sc, off, ⟨some sc, off⟩, hd, hv, hd', fun x => by simp [Dim.rawToSi]⟩
    · exact absurd h (by simp)

/-- value form, closed under items × deck systems × columns × values: the number `x` a user writes
into column `c` of a listed item comes out of the conversion the keyword JSON attaches as
`x · scale + offset` of the column's physical QUANTITY (scale/offset by the hand-written SI
specification only) -/
theorem item_quantity_value (e : String × List String) (he : e ∈ itemQuantities)
    (s : SysDef Rat) (hs : s ∈ Spec.deckSystems) (c : Nat) (q : String) (hq : e.2[c]? = some q)
    (hne : q ≠ "ContextDependent") :
    ∃ strs str deck sc off d, Spec.jsonDimsOf e.1 = some strs ∧ strs[c]? = some str ∧
      s.deckName = some deck ∧ Spec.quantValue deck q = some (sc, off) ∧
      getNewDimension s str = some d ∧ ∀ x : Rat, d.rawToSi x = some (x * sc + off) := by
  obtain ⟨strs, hj, hlen, hcol⟩ := item_quantities e he s hs
  have hc : c < e.2.length := by
    rcases Nat.lt_or_ge c e.2.length with h | h
    · exact h
    · rw [List.getElem?_eq_none h] at hq; exact absurd hq (by simp)
  have hc' : c < strs.length := hlen ▸ hc
  have hstr : strs[c]? = some strs[c] := List.getElem?_eq_getElem hc'
  obtain ⟨deck, sc, off, d, h1, h2, h3, h4⟩ := col_value s strs[c] q (hcol c strs[c] q hstr hq) hne
  exact ⟨strs, strs[c], deck, sc, off, d, hj, hstr, h1, h2, h3, h4⟩

/-- deck-unit independence at item level: the same physical input (equal by the SPECIFICATION's
units: `x₁·sc₁ + off₁ = x₂·sc₂ + off₂`) written in two deck unit systems into the same column of a
listed item yields the same SI value through the JSON's dimension -/
theorem item_quantity_unit_independent (e : String × List String) (he : e ∈ itemQuantities)
    (s₁ s₂ : SysDef Rat) (h₁ : s₁ ∈ Spec.deckSystems) (h₂ : s₂ ∈ Spec.deckSystems)
    (c : Nat) (q : String) (hq : e.2[c]? = some q) (hne : q ≠ "ContextDependent") :
    ∃ strs str deck₁ deck₂ sc₁ off₁ sc₂ off₂ d₁ d₂, Spec.jsonDimsOf e.1 = some strs ∧ strs[c]? = some str ∧
      s₁.deckName = some deck₁ ∧ s₂.deckName = some deck₂ ∧
      Spec.quantValue deck₁ q = some (sc₁, off₁) ∧ Spec.quantValue deck₂ q = some (sc₂, off₂) ∧
      getNewDimension s₁ str = some d₁ ∧ getNewDimension s₂ str = some d₂ ∧
      ∀ x₁ x₂ : Rat, x₁ * sc₁ + off₁ = x₂ * sc₂ + off₂ → d₁.rawToSi x₁ = d₂.rawToSi x₂ := by
  obtain ⟨strs, str, deck₁, sc₁, off₁, d₁, hj, hs1, hd1, hv1, hn1, hr1⟩ := item_quantity_value e he s₁ h₁ c q hq hne
  obtain ⟨strs', str', deck₂, sc₂, off₂, d₂, hj', hs2, hd2, hv2, hn2, hr2⟩ := item_quantity_value e he s₂ h₂ c q hq hne
  have : strs' = strs := by rw [hj] at hj'; exact (Option.some.inj hj').symm
  subst this
  have : str' = str := by rw [hs1] at hs2; exact (Option.some.inj hs2).symm
  subst this
  exact ⟨strs', str', deck₁, deck₂, sc₁, off₁, sc₂, off₂, d₁, d₂, hj, hs1, hd1, hd2, hv1, hv2, hn1, hn2,
    fun x₁ x₂ h => by rw [hr1, hr2, h]⟩

end OpmVerif.Units
