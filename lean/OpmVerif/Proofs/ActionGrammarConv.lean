/-
  Fifth round: the converse direction of the number grammar.  When the staged `strtodLen` consumes the
  whole (lower-cased) token, the token is in `LowerNumG`; `classifyLower l = .number` implies that.
-/
import OpmVerif.Proofs.ActionGrammar
import OpmVerif.Proofs.ActionNum

namespace OpmVerif.Act

namespace Conv

theorem spanLen_le (p : Char → Bool) : ∀ s : List Char, spanLen p s ≤ s.length
  | [] => Nat.le_refl _
  | c :: r => by
    have ih := spanLen_le p r
    simp only [spanLen, List.length_cons]
    split <;> omega

theorem spanLen_take_allP (p : Char → Bool) : ∀ s : List Char, AllP p (s.take (spanLen p s))
  | [] => by intro c hc; simp [spanLen] at hc
  | c :: r => by
    have ih := spanLen_take_allP p r
    simp only [spanLen]
    split
    · rename_i hp
      intro x hx
      simp only [List.take_succ_cons, List.mem_cons] at hx
      rcases hx with rfl | hx
      · exact hp
      · exact ih x hx
    · intro x hx; simp at hx

theorem spanLen_full_allP (p : Char → Bool) (s : List Char) (h : spanLen p s = s.length) : AllP p s := by
  have := spanLen_take_allP p s
  rw [h, List.take_length] at this
  exact this

theorem spanLen_split (p : Char → Bool) (s : List Char) :
    s = s.take (spanLen p s) ++ s.drop (spanLen p s) ∧ AllP p (s.take (spanLen p s)) ∧
      spanLen p s ≤ s.length :=
  ⟨(List.take_append_drop _ _).symm, spanLen_take_allP p s, spanLen_le p s⟩

/-- the optional sign in front: its length and the characters -/
def sgLen (r : List Char) : Nat :=
  match r with
  | '+' :: _ => 1
  | '-' :: _ => 1
  | _ => 0

theorem sgLen_spec (r : List Char) : sgLen r ≤ r.length ∧ SignG (r.take (sgLen r)) := by
  unfold sgLen
  split
  · exact ⟨by simp, by simpa using SignG.plus⟩
  · exact ⟨by simp, by simpa using SignG.minus⟩
  · exact ⟨by simp, by simpa using SignG.none⟩

theorem expLen_eq (mark : Char) (c : Char) (r : List Char) :
    expLen mark (c :: r) =
      if c = mark then
        (if spanLen isDig (r.drop (sgLen r)) = 0 then 0 else 1 + sgLen r + spanLen isDig (r.drop (sgLen r)))
      else 0 := rfl

theorem expLen_full (mark : Char) (s : List Char) (h : expLen mark s = s.length) : ExpG mark s := by
  cases s with
  | nil => exact ExpG.none
  | cons c r =>
    rw [expLen_eq] at h
    simp only [List.length_cons] at h
    split at h
    · rename_i hc
      subst hc
      split at h
      · omega
      · rename_i hd
        obtain ⟨hsl, hsg⟩ := sgLen_spec r
        have hle := spanLen_le isDig (r.drop (sgLen r))
        have hlen : (r.drop (sgLen r)).length = r.length - sgLen r := List.length_drop
        have hfull : spanLen isDig (r.drop (sgLen r)) = (r.drop (sgLen r)).length := by omega
        have hall := spanLen_full_allP _ _ hfull
        have hne : r.drop (sgLen r) ≠ [] := by
          intro e; rw [e] at hd; exact hd rfl
        have := ExpG.some (mark := c) _ _ hsg hne hall
        rwa [List.take_append_drop] at this
    · omega

theorem take_mid (s a r : List Char) (x : Char) (n k : Nat) (hs : s = a ++ x :: r)
    (hk : k = a.length + (n + 1)) : s.take k = a ++ x :: r.take n := by
  subst hs hk
  rw [List.take_length_add_append, List.take_succ_cons]

theorem length_take_spanLen (p : Char → Bool) (s : List Char) : (s.take (spanLen p s)).length = spanLen p s := by
  rw [List.length_take]; exact Nat.min_eq_left (spanLen_le p s)

theorem mantLen_split (dig : Char → Bool) (s : List Char) (h0 : mantLen dig s ≠ 0) :
    MantG dig (s.take (mantLen dig s)) ∧ mantLen dig s ≤ s.length := by
  have hd1 := spanLen_le dig s
  have ha := spanLen_take_allP dig s
  have hal := length_take_spanLen dig s
  unfold mantLen at h0 ⊢
  simp only [] at h0 ⊢
  split
  · rename_i r heq
    have hs : s = s.take (spanLen dig s) ++ '.' :: r := by
      rw [← heq, List.take_append_drop]
    have hr := spanLen_le dig r
    have hra := spanLen_take_allP dig r
    have hrl := length_take_spanLen dig r
    have hlen : s.length = spanLen dig s + (r.length + 1) := by
      have := congrArg List.length hs
      rw [List.length_append, hal, List.length_cons] at this
      exact this
    rw [heq] at h0
    simp only [] at h0
    split
    · rename_i hz; rw [if_pos hz] at h0; exact absurd rfl h0
    · rename_i hz
      refine ⟨?_, by omega⟩
      rw [take_mid s _ r '.' (spanLen dig r) _ hs (by rw [hal]; omega)]
      refine MantG.frac _ _ ?_ ha hra
      intro e
      have := congrArg List.length e
      rw [List.length_append, hal, hrl] at this
      simp only [List.length_nil] at this
      omega
  · rename_i hne
    split at h0
    · rename_i r heq; exact absurd heq (hne r)
    · refine ⟨MantG.int _ ?_ ha, hd1⟩
      intro e
      have := congrArg List.length e
      rw [hal] at this
      exact h0 this

theorem mant_exp_full (dig : Char → Bool) (mark : Char) (s : List Char) (h0 : mantLen dig s ≠ 0)
    (h : mantLen dig s + expLen mark (s.drop (mantLen dig s)) = s.length) :
    ∃ m e, s = m ++ e ∧ MantG dig m ∧ ExpG mark e := by
  obtain ⟨hm, hle⟩ := mantLen_split dig s h0
  refine ⟨s.take (mantLen dig s), s.drop (mantLen dig s), (List.take_append_drop _ _).symm, hm, ?_⟩
  apply expLen_full
  rw [List.length_drop]; omega

theorem startsWith_split (pre s : List Char) (h : startsWith pre s = true) :
    s = pre ++ s.drop pre.length := by
  unfold startsWith at h
  rw [List.isPrefixOf_iff_prefix, List.prefix_iff_eq_append] at h
  exact h.symm

theorem startsWith_full (pre s : List Char) (h : startsWith pre s = true) (hl : s.length = pre.length) :
    s = pre := by
  have hs := startsWith_split pre s h
  have hd : s.drop pre.length = [] := by
    rw [← hl]; exact List.drop_length
  rw [hd, List.append_nil] at hs
  exact hs

theorem str_infinity : "infinity".toList = ['i', 'n', 'f', 'i', 'n', 'i', 't', 'y'] := by decide
theorem str_inf : "inf".toList = ['i', 'n', 'f'] := by decide
theorem str_nan : "nan".toList = ['n', 'a', 'n'] := by decide
theorem str_0x : "0x".toList = ['0', 'x'] := by decide

theorem bodyLen_nil : bodyLen [] = 0 := by decide

theorem bodyLen_full (s : List Char) (h0 : bodyLen s ≠ 0) (h : bodyLen s = s.length) : BodyG s := by
  unfold bodyLen at h
  rw [str_infinity, str_inf, str_nan, str_0x] at h
  split at h
  · rename_i hp
    have := startsWith_full _ s hp h.symm
    subst this
    exact BodyG.infinity
  rename_i hn1
  split at h
  · rename_i hp
    have := startsWith_full _ s hp h.symm
    subst this
    exact BodyG.inf
  rename_i hn2
  split at h
  · rename_i hp
    have hs := startsWith_split _ s hp
    simp only [List.length_cons, List.length_nil, List.cons_append, List.nil_append] at hs
    generalize s.drop 3 = t at hs h
    subst hs
    have hnan : ∀ t : List Char, 3 = ('n' :: 'a' :: 'n' :: t).length → BodyG ('n' :: 'a' :: 'n' :: t) := by
      intro t ht
      simp only [List.length_cons] at ht
      have : t = [] := List.eq_nil_of_length_eq_zero (by omega)
      subst this
      exact BodyG.nan
    split at h
    · rename_i x r
      simp only [] at h
      split at h
      · rename_i rest heq
        have hr : r = r.take (spanLen isAlnumU r) ++ ')' :: rest := by
          rw [← heq, List.take_append_drop]
        have hl := congrArg List.length hr
        rw [List.length_append, length_take_spanLen, List.length_cons] at hl
        simp only [List.length_cons] at h
        have : rest = [] := List.eq_nil_of_length_eq_zero (by omega)
        subst this
        rw [hr]
        exact BodyG.nanChars _ (spanLen_take_allP _ _)
      · exact hnan _ h
    · exact hnan _ h
  rename_i hn3
  split at h
  · rename_i hp
    have hs := startsWith_split _ s hp
    simp only [List.length_cons, List.length_nil, List.cons_append, List.nil_append] at hs
    generalize s.drop 2 = t at hs h
    subst hs
    have hdrop : ∀ m : Nat, List.drop (2 + m) ('0' :: 'x' :: t) = t.drop m := by
      intro m; rw [Nat.add_comm]; rfl
    simp only [hdrop, List.length_cons] at h
    split at h
    · omega
    · rename_i hm
      obtain ⟨m, e, hme, hM, hE⟩ := mant_exp_full isHexDig 'p' t hm (by omega)
      rw [hme]
      exact BodyG.hex m e hM hE
  · simp only [] at h
    split at h
    · have : s = [] := List.eq_nil_of_length_eq_zero h.symm
      subst this
      exact absurd bodyLen_nil h0
    · rename_i hm
      obtain ⟨m, e, hme, hM, hE⟩ := mant_exp_full isDig 'e' s hm h
      rw [hme]
      exact BodyG.dec m e hM hE

theorem strtodLen_eq (l : List Char) :
    strtodLen l =
      if bodyLen ((l.drop (spanLen isSpaceC l)).drop (sgLen (l.drop (spanLen isSpaceC l)))) = 0 then 0
      else spanLen isSpaceC l + sgLen (l.drop (spanLen isSpaceC l)) +
        bodyLen ((l.drop (spanLen isSpaceC l)).drop (sgLen (l.drop (spanLen isSpaceC l)))) := rfl

theorem lookup_some_mem {α β : Type} [BEq α] (k : α) (v : β) :
    ∀ tbl : List (α × β), tbl.lookup k = some v → v ∈ tbl.map Prod.snd
  | [], h => by simp [List.lookup] at h
  | (a, b) :: t, h => by
    simp only [List.lookup] at h
    split at h
    · simp only [Option.some.injEq] at h
      subst h
      simp
    · have := lookup_some_mem k v t h
      simp only [List.map_cons, List.mem_cons]
      exact Or.inr this

theorem opTable_not_number : ∀ t ∈ opTable.map Prod.snd, t ≠ TT.number := by decide

end Conv

open Conv

/-- **converse direction**: what the staged `strtod` consumes completely is in the grammar -/
theorem strtodLen_lowerNumG (l : List Char) (h : strtodLen l = l.length) : LowerNumG l := by
  rw [strtodLen_eq] at h
  split at h
  · have : l = [] := List.eq_nil_of_length_eq_zero h.symm
    subst this
    exact LowerNumG.empty
  · rename_i hb
    have hws := spanLen_le isSpaceC l
    have hwa := spanLen_take_allP isSpaceC l
    obtain ⟨hsl, hsg⟩ := sgLen_spec (l.drop (spanLen isSpaceC l))
    have hl1 : (l.drop (spanLen isSpaceC l)).length = l.length - spanLen isSpaceC l := List.length_drop
    have hl2 : ((l.drop (spanLen isSpaceC l)).drop (sgLen (l.drop (spanLen isSpaceC l)))).length =
        (l.drop (spanLen isSpaceC l)).length - sgLen (l.drop (spanLen isSpaceC l)) := List.length_drop
    have hB := bodyLen_full _ hb (by omega)
    have := LowerNumG.mk _ _ _ hwa hsg hB
    rwa [List.take_append_drop, List.take_append_drop] at this

theorem classifyLower_number (l : List Char) (h : classifyLower l = .number) : strtodLen l = l.length := by
  unfold classifyLower at h
  split at h
  · rename_i t heq
    exact absurd h (opTable_not_number t (lookup_some_mem _ _ _ heq))
  · split at h
    · assumption
    · exact absurd h (by decide)

/-- a token `get_type` calls a number (after lower-casing) is in the number grammar -/
theorem grammar_of_classifyLower (l : List Char) (h : classifyLower l = .number) : LowerNumG l :=
  strtodLen_lowerNumG l (classifyLower_number l h)

/-- the same on the raw token -/
theorem grammar_of_classify (s : List Char) (h : classify s = .number) : NumberGrammar s :=
  grammar_of_classifyLower (lowerL s) h

end OpmVerif.Act

